(* Proofs about the group-coordinator model (model/Coordinator.v): invariants of every
   operation, and the lemmas behind props/C12, C13, C14, C15, C43. *)
From Coq Require Import Permutation ZifyBool.
From KS Require Import lib.Base model.Coordinator proofs.CoordinatorBase.
Open Scope Z_scope.

(* ---- startRebalance ---- *)
Record basic (g : group) : Prop := mkBasic {
  b_nodup : NoDup (keys g);
  b_nonempty : g_members g <> [];
  b_session : forall id m, In (id, m) (g_members g) -> 0 < m_session m;
  b_rebto : 0 < g_rebto g
}.

Lemma wf_basic E g : wf E g -> basic g.
Proof. intros [? ? ? ? ? ? ? ? ?]. constructor; assumption. Qed.

Lemma reset_nonempty ms : ms <> [] -> reset_joingen ms <> [].
Proof. destruct ms; [congruence|discriminate]. Qed.

Lemma start_rebalance_spec E timeout now g :
  basic g ->
  let r := start_rebalance timeout now g in
  wf E r /\ g_gen r = g_gen g + 1 /\ g_phase r = PPreparing /\
  g_members r = reset_joingen (g_members g) /\
  (forall l, g_leader g = Some l -> In l (keys g) -> g_leader r = Some l).
Proof.
  intros [Hd Hne Hs Hr]. cbn zeta. unfold start_rebalance.
  destruct (g_members g) as [|e ms] eqn:Em; [congruence|]. rewrite <- Em in *.
  set (rebto := if timeout >? 0 then timeout else if g_rebto g =? 0 then default_rebalance else g_rebto g).
  assert (0 < rebto) as Hrt.
  { subst rebto. unfold default_rebalance. destruct (timeout >? 0) eqn:E1; [lia|]. destruct (g_rebto g =? 0); lia. }
  set (G := mkGroup (g_gen g + 1) (g_leader g) PPreparing (reset_joingen (g_members g)) [] rebto (Some (now + rebto))).
  destruct (ensure_leader_fields G) as [F1 [F2 [F3 [F4 [F5 F6]]]]].
  assert (g_members G <> []) as HneG by (cbn; now apply reset_nonempty).
  destruct (ensure_leader_ok G HneG) as [l [Hl Hin]].
  assert (keys (ensure_leader G) = keys g) as Hk.
  { unfold keys. rewrite F3. cbn. apply akeys_reset. }
  split; [|split; [|split; [|split]]].
  - constructor.
    + now rewrite Hk.
    + now rewrite F3.
    + exists l. split; [assumption|]. rewrite Hk. unfold keys, G in Hin. cbn [g_members] in Hin. now rewrite akeys_reset in Hin.
    + left. now rewrite F2.
    + rewrite F2. cbn. congruence.
    + intros _. now rewrite F4.
    + rewrite F2. cbn. discriminate.
    + intros id m. rewrite F3. cbn. intros H. apply In_reset in H as [m0 [H1 [H2 _]]]. rewrite H2. eauto.
    + now rewrite F5.
  - now rewrite F1.
  - now rewrite F2.
  - now rewrite F3.
  - intros l0 Hl0 Hin0. rewrite (ensure_leader_id G l0); [exact Hl0|exact Hl0|].
    unfold keys, G. cbn [g_members]. now rewrite akeys_reset.
Qed.

(* ---- JoinGroup ---- *)
Lemma topics_eqb_eq a b : topics_eqb a b = true -> a = b.
Proof.
  unfold topics_eqb. revert b; induction a as [|x a IH]; intros [|y b]; cbn; try discriminate; auto.
  intros H. apply andb_true_iff in H as [H1 H2]. f_equal; [lia|auto].
Qed.

(* wf with the joined-condition relaxed for the member that is joining right now *)
Record wfj (E : env) (id : Z) (g : group) : Prop := mkWfj {
  j_nodup : NoDup (keys g);
  j_nonempty : g_members g <> [];
  j_leader : exists l, g_leader g = Some l /\ In l (keys g);
  j_phase : g_phase g = PPreparing \/ g_phase g = PCompleting \/ g_phase g = PStable;
  j_joined : g_phase g <> PPreparing -> forall k m, In (k, m) (g_members g) -> k <> id -> m_joingen m = g_gen g;
  j_noassign : g_phase g <> PStable -> g_assign g = [];
  j_assign : g_phase g = PStable -> forall k, In k (keys g) ->
              assignment_of g k = assign_for E (subs (g_members g)) k;
  j_session : forall k m, In (k, m) (g_members g) -> 0 < m_session m;
  j_rebto : 0 < g_rebto g
}.

Lemma all_joined_In g k m : all_joined g = true -> In (k, m) (g_members g) -> m_joingen m = g_gen g.
Proof.
  unfold all_joined. rewrite forallb_forall. intros H Hin. specialize (H _ Hin). cbn in H. lia.
Qed.

Lemma wf_wfj E id g : wf E g -> wfj E id g.
Proof.
  intros [? ? ? ? Hj ? ? ? ?]. constructor; try assumption.
  intros Hp k m Hin _. eapply all_joined_In; eauto.
Qed.

(* stage 3 of JoinGroup: member.joinGeneration = generationID *)
Lemma join_stage3 E id g :
  wfj E id g -> In id (keys g) ->
  wf E (with_members g (set_joingen id (g_gen g) (g_members g))).
Proof.
  intros [Hd Hne Hl Hp Hj Hna Ha Hs Hr] Hin.
  assert (keys (with_members g (set_joingen id (g_gen g) (g_members g))) = keys g) as Hk.
  { unfold keys. cbn. apply akeys_set_joingen. }
  constructor; cbn [with_members g_members g_phase g_gen g_leader g_assign g_rebto].
  - now rewrite Hk.
  - intros H. apply (f_equal akeys) in H. rewrite akeys_set_joingen in H.
    destruct (g_members g); [congruence|discriminate].
  - destruct Hl as [l [H1 H2]]. exists l. rewrite Hk. auto.
  - assumption.
  - intros Hpp. unfold all_joined. cbn. apply set_joingen_joined; auto.
    intros k m H1 H2. eapply Hj; eauto.
  - assumption.
  - intros Hst k Hk'. rewrite Hk in Hk'. unfold assignment_of. cbn. rewrite subs_set_joingen.
    apply (Ha Hst k Hk').
  - intros k m H. apply In_set_joingen in H as [m0 [H1 [H2 _]]]. rewrite H2. eauto.
  - assumption.
Qed.

(* stage 1: the (new or refreshed) member is stored *)
Lemma join_stage1 E g id m1 :
  wf E g -> 0 < m_session m1 ->
  (g_phase g = PStable -> exists m0, alookup id (g_members g) = Some m0 /\ m_topics m1 = m_topics m0) ->
  wfj E id (with_members g (aset id m1 (g_members g))) /\
  In id (keys (with_members g (aset id m1 (g_members g)))).
Proof.
  intros [Hd Hne Hl Hp Hj Hna Ha Hs Hr] Hs1 Hst. split.
  - constructor; unfold keys; cbn [with_members g_members g_phase g_gen g_leader g_assign g_rebto].
    + now apply NoDup_akeys_aset.
    + apply aset_nonempty.
    + destruct Hl as [l [H1 H2]]. exists l. split; [assumption|]. apply akeys_aset_in. now right.
    + assumption.
    + intros Hpp k m H Hn. apply In_aset_strong in H; [|exact Hd]. destruct H as [[? _]|[_ H]]; [congruence|].
      eapply all_joined_In; eauto.
    + assumption.
    + intros Hs2 k Hk. destruct (Hst Hs2) as [m0 [Hl0 Ht]].
      rewrite (subs_aset_same id m0 m1) by assumption.
      rewrite akeys_aset_present in Hk by (apply amem_In; unfold amem; now rewrite Hl0).
      apply (Ha Hs2 k Hk).
    + intros k m H. apply In_aset in H as [H|H]; [inversion H; subst; assumption|eauto].
    + assumption.
  - unfold keys. cbn [with_members g_members]. apply akeys_aset_in. now left.
Qed.

Lemma wfj_basic E id g : wfj E id g -> basic g.
Proof. intros [? ? ? ? ? ? ? ? ?]. constructor; assumption. Qed.

Lemma bump_wfj E id timeout now g : wfj E id g -> g_phase g <> PStable -> wfj E id (bump_deadline timeout now g).
Proof.
  intros [Hd Hne Hl Hp Hj Hna Ha Hs Hr] Hns. unfold bump_deadline.
  constructor; cbn [g_members g_phase g_gen g_leader g_assign g_rebto keys]; try assumption.
  unfold default_rebalance. destruct (timeout >? 0) eqn:E1; [lia|]. destruct (g_rebto g =? 0); lia.
Qed.

(* the tail of JoinGroup: ensureLeader if "", completeIfReady *)
Definition join_tail (g3 : group) (id : Z) : outcome :=
  let g4 := match g_leader g3 with None => ensure_leader g3 | Some _ => g3 end in
  let '(g5, ready) :=
    if phase_eqb (g_phase g4) PStable || phase_eqb (g_phase g4) PCompleting
    then (g4, true) else complete_if_ready g4 in
  let is_leader := opt_z_eqb (g_leader g5) (Some id) in
  Save g5 (RJoin (if ready then NONE else REBALANCE_IN_PROGRESS) (g_gen g5) (g_leader g5) id
                 (if ready && is_leader then member_list g5 else [])).

Ltac triv := first [reflexivity | assumption | congruence].

Lemma complete_if_ready_eq g :
  g_members g <> [] ->
  complete_if_ready g =
  if all_joined g
  then (mkGroup (g_gen g) (g_leader g) PCompleting (g_members g) (g_assign g) (g_rebto g) None, true)
  else (g, false).
Proof. unfold complete_if_ready. destruct (g_members g); [congruence|reflexivity]. Qed.

Lemma join_tail_spec E g3 id :
  wf E g3 ->
  exists g5 e ms, join_tail g3 id = Save g5 (RJoin e (g_gen g5) (g_leader g5) id ms) /\
    wf E g5 /\ g_gen g5 = g_gen g3 /\ g_members g5 = g_members g3 /\ g_leader g5 = g_leader g3 /\
    g_assign g5 = g_assign g3 /\
    (e = NONE \/ e = REBALANCE_IN_PROGRESS) /\
    (e = NONE <-> g_phase g5 <> PPreparing) /\
    (g_phase g3 <> PPreparing -> g5 = g3) /\
    (ms <> [] -> e = NONE /\ g_leader g5 = Some id).
Proof.
  intros Hwf. pose proof Hwf as [Hd Hne [l [Hl Hlin]] Hp Hj Hna Ha Hs Hr].
  unfold join_tail. rewrite Hl.
  assert (forall b ld (L : list (Z * list Z)), ld = Some l ->
            (if b && opt_z_eqb ld (Some id) then L else []) <> [] ->
            b = true /\ ld = Some id) as Hml.
  { intros b ld L Hl5 H. subst ld. destruct b; [|cbn in H; congruence].
    cbn in H. destruct (l =? id) eqn:El; [|congruence]. split; [reflexivity|f_equal; lia]. }
  destruct (phase_eqb (g_phase g3) PStable || phase_eqb (g_phase g3) PCompleting) eqn:Eph.
  - exists g3, NONE. eexists. split; [triv|].
    split; [exact Hwf|]. split; [triv|]. split; [triv|]. split; [triv|].
    split; [triv|]. split; [now left|]. split; [|split].
    + split; [|reflexivity]. intros _.
      apply orb_true_iff in Eph as [H|H]; apply phase_eqb_eq in H; congruence.
    + reflexivity.
    + intros H. eapply Hml in H; [|exact Hl]. tauto.
  - assert (g_phase g3 = PPreparing) as Hprep.
    { apply orb_false_iff in Eph as [H1 H2]. apply phase_eqb_neq in H1, H2. intuition congruence. }
    rewrite complete_if_ready_eq by exact Hne.
    destruct (all_joined g3) eqn:Eaj.
    + eexists. exists NONE. eexists. split; [triv|].
      cbn [g_gen g_members g_leader g_assign g_phase].
      split; [|split; [triv|split; [triv|split; [triv|split; [triv|split; [now left|split; [|split]]]]]]].
      * constructor; cbn [g_gen g_members g_leader g_assign g_phase g_rebto keys].
        -- exact Hd.
        -- exact Hne.
        -- exists l. split; [triv|exact Hlin].
        -- right; left; reflexivity.
        -- intros _. exact Eaj.
        -- intros _. apply Hna. congruence.
        -- intros H; discriminate H.
        -- exact Hs.
        -- exact Hr.
      * split; [discriminate|reflexivity].
      * intros H. congruence.
      * intros H. eapply Hml in H; [|exact Hl]. tauto.
    + exists g3, REBALANCE_IN_PROGRESS. eexists. split; [triv|].
      split; [exact Hwf|]. split; [triv|]. split; [triv|]. split; [triv|].
      split; [triv|]. split; [now right|]. split; [|split].
      * split; [discriminate|]. intros H. congruence.
      * reflexivity.
      * intros H. cbn in H. congruence.
Qed.

Lemma join_g_unfold g mid fresh sess reb topics now :
  join_g g mid fresh sess reb topics now =
  let timeout := if reb >? 0 then reb else default_rebalance in
  let exists_ := amem mid (g_members g) in
  let id := if exists_ then mid else fresh in
  let m0 := match alookup mid (g_members g) with Some m => m | None => mkMember [] 0 0 0 end in
  let session := if sess >? 0 then sess
                 else if m_session m0 =? 0 then default_session else m_session m0 in
  let changed := exists_ && negb (topics_eqb (m_topics m0) topics) in
  let g1 := with_members g (aset id (mkMember topics session now (m_joingen m0)) (g_members g)) in
  let g2 :=
    if (Z.of_nat (length (g_members g1)) =? 1) && phase_eqb (g_phase g1) PEmpty
    then start_rebalance timeout now (with_leader g1 (Some id))
    else if phase_eqb (g_phase g1) PStable && (negb exists_ || changed)
    then start_rebalance timeout now g1
    else if phase_eqb (g_phase g1) PEmpty
    then start_rebalance timeout now g1
    else if phase_eqb (g_phase g1) PPreparing || phase_eqb (g_phase g1) PCompleting
    then bump_deadline timeout now g1
    else g1 in
  join_tail (with_members g2 (set_joingen id (g_gen g2) (g_members g2))) id.
Proof.
  unfold join_g, join_tail, amem. destruct (alookup mid (g_members g)); reflexivity.
Qed.

Definition join_id (g : group) (mid fresh : Z) : Z := if amem mid (g_members g) then mid else fresh.

Lemma join_g_spec E g mid fresh sess reb topics now :
  wf E g \/ g = new_group ->
  exists g5 e ms, join_g g mid fresh sess reb topics now =
                  Save g5 (RJoin e (g_gen g5) (g_leader g5) (join_id g mid fresh) ms) /\
    wf E g5 /\ g_gen g <= g_gen g5 /\ In (join_id g mid fresh) (keys g5) /\
    (e = NONE \/ e = REBALANCE_IN_PROGRESS) /\
    (e = NONE <-> g_phase g5 <> PPreparing) /\
    (ms <> [] -> e = NONE /\ g_leader g5 = Some (join_id g mid fresh)) /\
    (forall k, In k (keys g5) <-> k = join_id g mid fresh \/ In k (keys g)).
Proof.
  intros Hg. rewrite join_g_unfold. cbn zeta. fold (join_id g mid fresh).
  set (id := join_id g mid fresh).
  set (timeout := if reb >? 0 then reb else default_rebalance).
  set (m0 := match alookup mid (g_members g) with Some m => m | None => mkMember [] 0 0 0 end).
  set (session := if sess >? 0 then sess else if m_session m0 =? 0 then default_session else m_session m0).
  set (m1 := mkMember topics session now (m_joingen m0)).
  set (g1 := with_members g (aset id m1 (g_members g))).
  assert (0 < timeout) as Hto by (subst timeout; unfold default_rebalance; destruct (reb >? 0) eqn:?; lia).
  (* shape of the conclusion from a wf stage-3 group *)
  assert (forall g2, wfj E id g2 -> In id (keys g2) -> g_gen g <= g_gen g2 ->
                     (forall k, In k (keys g2) <-> k = id \/ In k (keys g)) ->
    exists g5 e ms, join_tail (with_members g2 (set_joingen id (g_gen g2) (g_members g2))) id =
                    Save g5 (RJoin e (g_gen g5) (g_leader g5) id ms) /\
      wf E g5 /\ g_gen g <= g_gen g5 /\ In id (keys g5) /\ (e = NONE \/ e = REBALANCE_IN_PROGRESS) /\
      (e = NONE <-> g_phase g5 <> PPreparing) /\ (ms <> [] -> e = NONE /\ g_leader g5 = Some id) /\
      (forall k, In k (keys g5) <-> k = id \/ In k (keys g))) as Hfin.
  { intros g2 Hj Hin Hgen Hkeys. pose proof (join_stage3 E id g2 Hj Hin) as Hw3.
    destruct (join_tail_spec E _ id Hw3) as [g5 [e [ms [Heq [Hw5 [Hg5 [Hm5 [Hl5 [Ha5 [He [Hph [_ Hms]]]]]]]]]]]].
    exists g5, e, ms. split; [exact Heq|]. split; [exact Hw5|].
    assert (keys g5 = keys g2) as Hk.
    { unfold keys. rewrite Hm5. cbn [with_members g_members]. apply akeys_set_joingen. }
    cbn [with_members g_gen] in Hg5.
    split; [lia|]. split; [now rewrite Hk|]. split; [exact He|]. split; [exact Hph|].
    split; [exact Hms|]. intros k. rewrite Hk. apply Hkeys. }
  assert (forall k, In k (keys g1) <-> k = id \/ In k (keys g)) as Hk1.
  { intros k. unfold keys, g1. cbn. apply akeys_aset_in. }
  destruct Hg as [Hwf|Hnew].
  - (* an existing, well-formed group *)
    pose proof Hwf as [Hd Hne Hl Hp Hj Hna Ha Hs Hr].
    assert (0 < session) as Hses.
    { subst session. unfold default_session. destruct (sess >? 0) eqn:?; [lia|].
      destruct (m_session m0 =? 0) eqn:?; [lia|].
      subst m0. destruct (alookup mid (g_members g)) eqn:El; [|cbn in *; lia].
      apply alookup_In in El. specialize (Hs _ _ El). lia. }
    assert (phase_eqb (g_phase g1) PEmpty = false) as Hne1.
    { apply phase_eqb_neq. cbn. intuition congruence. }
    rewrite Hne1, andb_false_r.
    destruct (phase_eqb (g_phase g1) PStable && (negb (amem mid (g_members g)) || amem mid (g_members g) && negb (topics_eqb (m_topics m0) topics))) eqn:Ereb.
    + (* Stable, new member or changed subscription: rebalance *)
      assert (basic g1) as Hb.
      { constructor; unfold g1, keys; cbn.
        - now apply NoDup_akeys_aset.
        - apply aset_nonempty.
        - intros k m H. apply In_aset in H as [H|H]; [inversion H; subst; assumption|eauto].
        - assumption. }
      destruct (start_rebalance_spec E timeout now g1 Hb) as [Hw2 [Hg2 [Hp2 [Hm2 _]]]].
      apply Hfin.
      * now apply wf_wfj.
      * unfold keys. rewrite Hm2, akeys_reset. apply Hk1. now left.
      * rewrite Hg2. cbn. lia.
      * intros k. unfold keys. rewrite Hm2, akeys_reset. apply Hk1.
    + (* no rebalance: the member (re)joins the running generation *)
      assert (g_phase g = PStable -> exists m0', alookup id (g_members g) = Some m0' /\ m_topics m1 = m_topics m0') as Hst.
      { intros Hst. rewrite (proj2 (phase_eqb_eq (g_phase g1) PStable)) in Ereb by (cbn; assumption).
        cbn in Ereb. apply orb_false_iff in Ereb as [E1 E2]. apply negb_false_iff in E1.
        rewrite E1 in E2. cbn in E2. apply negb_false_iff in E2. apply topics_eqb_eq in E2.
        unfold id, join_id. rewrite E1. unfold amem in E1.
        destruct (alookup mid (g_members g)) as [mm|] eqn:El; [|discriminate].
        exists mm. split; [reflexivity|]. subst m1 m0. cbn. now rewrite E2. }
      destruct (join_stage1 E g id m1 Hwf Hses Hst) as [Hj1 Hin1]. fold g1 in Hj1, Hin1.
      destruct (phase_eqb (g_phase g1) PPreparing || phase_eqb (g_phase g1) PCompleting) eqn:Epc.
      * apply Hfin.
        -- apply bump_wfj; [assumption|]. apply orb_true_iff in Epc as [H|H]; apply phase_eqb_eq in H; congruence.
        -- exact Hin1.
        -- cbn. lia.
        -- exact Hk1.
      * apply Hfin; [exact Hj1|exact Hin1|cbn; lia|exact Hk1].
  - (* the group did not exist: ensureGroup made an empty one *)
    subst g. assert (id = fresh) as Hid by reflexivity.
    assert (g_members g1 = [(fresh, m1)]) as Hm1 by reflexivity.
    assert (0 < session) as Hses.
    { subst session m0. cbn. unfold default_session. destruct (sess >? 0) eqn:?; lia. }
    assert ((Z.of_nat (length (g_members g1)) =? 1) && phase_eqb (g_phase g1) PEmpty = true) as Hc by reflexivity.
    rewrite Hc.
    assert (basic (with_leader g1 (Some id))) as Hb.
    { constructor; unfold keys; cbn [with_leader g_members g_rebto]; rewrite ?Hm1; cbn.
      - constructor; [tauto|constructor].
      - discriminate.
      - intros k m [H|[]]. injection H as _ Hm'. rewrite <- Hm'. exact Hses.
      - unfold default_rebalance; lia. }
    destruct (start_rebalance_spec E timeout now _ Hb) as [Hw2 [Hg2 [Hp2 [Hm2 _]]]].
    apply Hfin.
    + now apply wf_wfj.
    + unfold keys. rewrite Hm2. cbn [with_leader g_members]. rewrite akeys_reset. apply Hk1. now left.
    + rewrite Hg2. cbn. lia.
    + intros k. unfold keys. rewrite Hm2. cbn [with_leader g_members]. rewrite akeys_reset. apply Hk1.
Qed.

(* ---- updating one member without touching its subscription / joinGeneration ---- *)
Lemma wf_update_member E g id m m' :
  wf E g -> alookup id (g_members g) = Some m ->
  m_topics m' = m_topics m -> m_joingen m' = m_joingen m -> 0 < m_session m' ->
  wf E (with_members g (aset id m' (g_members g))).
Proof.
  intros Hwf Hl Ht Hjg Hs'. pose proof Hwf as [Hd Hne Hld Hp Hj Hna Ha Hs Hr].
  assert (In id (akeys (g_members g))) as Hin by (apply amem_In; unfold amem; now rewrite Hl).
  assert (keys (with_members g (aset id m' (g_members g))) = keys g) as Hk.
  { unfold keys. cbn [with_members g_members]. now apply akeys_aset_present. }
  constructor; cbn [with_members g_members g_phase g_gen g_leader g_assign g_rebto].
  - now rewrite Hk.
  - apply aset_nonempty.
  - destruct Hld as [l [H1 H2]]. exists l. rewrite Hk. auto.
  - assumption.
  - intros Hpp. unfold all_joined. cbn [with_members g_members g_gen]. apply forallb_forall.
    intros [k x] H. cbn. apply In_aset_strong in H; [|exact Hd]. destruct H as [[-> ->]|[_ H]].
    + rewrite Hjg. apply alookup_In in Hl. rewrite (all_joined_In g id m (Hj Hpp) Hl). lia.
    + rewrite (all_joined_In g k x (Hj Hpp) H). lia.
  - assumption.
  - intros Hst k Hk'. rewrite Hk in Hk'. unfold assignment_of. cbn [with_members g_assign g_members].
    rewrite (subs_aset_same id m m') by assumption. apply (Ha Hst k Hk').
  - intros k x H. apply In_aset in H as [H|H]; [inversion H; subst; assumption|eauto].
  - assumption.
Qed.

(* ---- SyncGroup ---- *)
Lemma alookup_map_self {V} (f : Z -> V) id l :
  In id l -> alookup id (map (fun k => (k, f k)) l) = Some (f id).
Proof.
  induction l as [|k l IH]; cbn; [tauto|]. intros H.
  destruct (id =? k) eqn:E; [f_equal; f_equal; lia|]. apply IH. destruct H; [lia|assumption].
Qed.

Definition sync_post (E : env) (g : group) (mid gen : Z) (o : outcome) : Prop :=
  match o with
  | Keep g' (RSync e a) => g' = g /\ e <> NONE /\ a = []
  | Save g' (RSync e a) =>
      wf E g' /\ e = NONE /\ gen = g_gen g /\ In mid (keys g) /\ g_phase g <> PPreparing /\
      g_phase g' = PStable /\ g_gen g' = g_gen g /\ g_members g' = g_members g /\
      g_leader g' = g_leader g /\ a = assign_for E (subs (g_members g)) mid /\
      a = assignment_of g' mid /\
      (g_phase g = PStable -> g' = g) /\ (g_phase g = PCompleting -> g_leader g = Some mid)
  | _ => False
  end.

Lemma sync_g_spec E g mid gen : wf E g -> sync_post E g mid gen (sync_g E g mid gen).
Proof.
  intros Hwf. pose proof Hwf as [Hd Hne Hld Hp Hj Hna Ha Hs Hr].
  unfold sync_g.
  destruct (gen =? g_gen g) eqn:Eg; cbn [negb]; [|cbn; repeat split; discriminate].
  destruct (amem mid (g_members g)) eqn:Em; cbn [negb]; [|cbn; repeat split; discriminate].
  apply amem_In in Em.
  destruct (phase_eqb (g_phase g) PPreparing) eqn:Epp; [cbn; repeat split; discriminate|].
  apply phase_eqb_neq in Epp.
  destruct (phase_eqb (g_phase g) PCompleting) eqn:Epc.
  - apply phase_eqb_eq in Epc.
    rewrite (Hna ltac:(congruence)). cbn [length Z.of_nat Z.eqb andb].
    destruct (opt_z_eqb (g_leader g) (Some mid)) eqn:El; cbn [negb]; [|cbn; repeat split; discriminate].
    assert (g_leader g = Some mid) as Hlm.
    { destruct (g_leader g) as [l|]; cbn in El; [f_equal; lia|discriminate]. }
    set (g0 := mkGroup (g_gen g) (g_leader g) (g_phase g) (g_members g) (assign_partitions E g) (g_rebto g) (g_deadline g)).
    assert (mark_stable g0 = mkGroup (g_gen g) (g_leader g) PStable (g_members g) (assign_partitions E g) (g_rebto g) None) as Hms.
    { unfold mark_stable, g0. cbn [g_phase]. rewrite Epc. reflexivity. }
    rewrite Hms. clear Hms g0.
    set (g1 := mkGroup (g_gen g) (g_leader g) PStable (g_members g) (assign_partitions E g) (g_rebto g) None).
    assert (forall id, In id (keys g) -> assignment_of g1 id = assign_for E (subs (g_members g)) id) as Hasg.
    { intros id Hin. unfold assignment_of, g1, assign_partitions. cbn [g_assign].
      rewrite alookup_map_self; [reflexivity|]. unfold sorted_ids. now apply zsort_In. }
    assert (wf E g1) as Hw1.
    { constructor; unfold g1; cbn [g_gen g_members g_leader g_assign g_phase g_rebto keys].
      - exact Hd.
      - exact Hne.
      - exact Hld.
      - right; right; reflexivity.
      - intros _. apply Hj. congruence.
      - intros H. congruence.
      - intros _. exact Hasg.
      - exact Hs.
      - exact Hr. }
    assert (sync_post E g mid gen (Save g1 (RSync NONE (assignment_of g1 mid)))) as Hpost.
    { cbn. split; [exact Hw1|]. split; [reflexivity|]. split; [lia|]. split; [exact Em|].
      split; [exact Epp|]. split; [reflexivity|]. split; [reflexivity|]. split; [reflexivity|].
      split; [reflexivity|]. split; [now apply Hasg|]. split; [reflexivity|].
      split; [congruence|]. intros _. exact Hlm. }
    destruct (assignment_of g1 mid) eqn:Ea; [|exact Hpost].
    assert (phase_eqb (g_phase g1) PStable = true) as -> by reflexivity. exact Hpost.
  - apply phase_eqb_neq in Epc. cbn [andb].
    assert (g_phase g = PStable) as Hst by intuition congruence.
    assert (sync_post E g mid gen (Save g (RSync NONE (assignment_of g mid)))) as Hpost.
    { cbn. split; [exact Hwf|]. split; [reflexivity|]. split; [lia|]. split; [exact Em|].
      split; [exact Epp|]. split; [exact Hst|]. split; [reflexivity|]. split; [reflexivity|].
      split; [reflexivity|]. split; [now apply Ha|]. split; [reflexivity|].
      split; [reflexivity|]. congruence. }
    destruct (assignment_of g mid) eqn:Ea; [|exact Hpost].
    rewrite (proj2 (phase_eqb_eq _ _) Hst). exact Hpost.
Qed.

(* ---- Heartbeat ---- *)
Definition hb_post (E : env) (g : group) (mid gen now : Z) (o : outcome) : Prop :=
  match o with
  | Keep g' (RErr e) => g' = g /\ e <> NONE
  | Save g' (RErr e) =>
      wf E g' /\ gen = g_gen g /\ In mid (keys g) /\
      g_gen g' = g_gen g /\ g_phase g' = g_phase g /\ g_leader g' = g_leader g /\
      g_assign g' = g_assign g /\ subs (g_members g') = subs (g_members g) /\
      (e = NONE <-> g_phase g = PStable) /\
      (exists m, alookup mid (g_members g) = Some m /\
                 g_members g' = aset mid (mkMember (m_topics m) (m_session m) now (m_joingen m)) (g_members g))
  | _ => False
  end.

Lemma heartbeat_g_spec E g mid gen now : wf E g -> hb_post E g mid gen now (heartbeat_g g mid gen now).
Proof.
  intros Hwf. unfold heartbeat_g.
  destruct (alookup mid (g_members g)) as [m|] eqn:El; [|cbn; split; [reflexivity|discriminate]].
  destruct (gen =? g_gen g) eqn:Eg; cbn [negb]; [|cbn; split; [reflexivity|discriminate]].
  cbn. split.
  - eapply wf_update_member; eauto. cbn. apply (wf_session E g Hwf mid m). now apply alookup_In.
  - split; [lia|]. split; [apply amem_In; unfold amem; now rewrite El|].
    split; [reflexivity|]. split; [reflexivity|]. split; [reflexivity|]. split; [reflexivity|].
    split; [eapply subs_aset_same; eauto|]. split.
    + destruct (phase_eqb (g_phase g) PStable) eqn:Es.
      * apply phase_eqb_eq in Es. tauto.
      * apply phase_eqb_neq in Es. split; [discriminate|tauto].
    + exists m. auto.
Qed.

(* ---- LeaveGroup ---- *)
Lemma akeys_aremove {V} k (l : list (Z * V)) k' : In k' (akeys (aremove k l)) <-> In k' (akeys l) /\ k' <> k.
Proof.
  unfold akeys, aremove. rewrite !in_map_iff. split.
  - intros [e [H1 H2]]. apply filter_In in H2 as [H2 H3]. split; [exists e; auto|].
    subst k'. destruct (fst e =? k) eqn:E; [discriminate|lia].
  - intros [[e [H1 H2]] Hn]. exists e. split; [assumption|]. apply filter_In. split; [assumption|].
    subst k'. destruct (fst e =? k) eqn:E; [lia|reflexivity].
Qed.

Definition leave_post (E : env) (g : group) (mid : Z) (o : outcome) : Prop :=
  match o with
  | Keep g' (RErr e) => g' = g /\ e = UNKNOWN_MEMBER_ID /\ ~ In mid (keys g)
  | Gone (RErr e) => e = NONE /\ In mid (keys g) /\ (forall k, In k (keys g) -> k = mid)
  | Save g' (RErr e) =>
      wf E g' /\ e = NONE /\ In mid (keys g) /\ g_gen g' = g_gen g + 1 /\ g_phase g' = PPreparing /\
      (forall k, In k (keys g') <-> In k (keys g) /\ k <> mid)
  | _ => False
  end.

Lemma leave_g_spec E g mid now : wf E g -> leave_post E g mid (leave_g g mid now).
Proof.
  intros Hwf. pose proof Hwf as [Hd Hne Hld Hp Hj Hna Ha Hs Hr]. unfold leave_g.
  destruct (amem mid (g_members g)) eqn:Em; cbn [negb].
  2:{ cbn. split; [reflexivity|]. split; [reflexivity|]. now apply amem_false. }
  apply amem_In in Em. cbn [g_members g_leader].
  destruct (aremove mid (g_members g)) as [|e0 r0] eqn:Er.
  - cbn. split; [reflexivity|]. split; [exact Em|]. intros k Hk.
    destruct (Z.eq_dec k mid) as [|Hn]; [assumption|].
    assert (In k (akeys (aremove mid (g_members g)))) as H by (apply akeys_aremove; auto).
    rewrite Er in H. destruct H.
  - rewrite <- Er.
    set (g1 := mkGroup (g_gen g) (g_leader g) (g_phase g) (aremove mid (g_members g)) (aremove mid (g_assign g)) (g_rebto g) (g_deadline g)).
    set (g2 := if opt_z_eqb (g_leader g) (Some mid) then with_leader g1 None else g1).
    assert (g_members g2 = aremove mid (g_members g) /\ g_rebto g2 = g_rebto g /\ g_gen g2 = g_gen g) as [Hm2 [Hr2 Hg2]].
    { unfold g2. destruct (opt_z_eqb (g_leader g) (Some mid)); cbn; auto. }
    assert (basic g2) as Hb.
    { constructor; unfold keys; rewrite ?Hm2, ?Hr2.
      - apply NoDup_akeys_filter. exact Hd.
      - rewrite Er. discriminate.
      - intros k m H. apply filter_In in H as [H _]. eauto.
      - assumption. }
    destruct (start_rebalance_spec E 0 now g2 Hb) as [Hw [Hg [Hp2 [Hm _]]]].
    cbn. split; [exact Hw|]. split; [reflexivity|]. split; [exact Em|]. split; [lia|]. split; [exact Hp2|].
    intros k. unfold keys. rewrite Hm, akeys_reset, Hm2. apply akeys_aremove.
Qed.

(* ---- cleanupGroups ---- *)
Lemma drop_members_fields dead g :
  g_gen (drop_members dead g) = g_gen g /\ g_rebto (drop_members dead g) = g_rebto g /\
  g_deadline (drop_members dead g) = g_deadline g /\
  g_members (drop_members dead g) = filter (fun e => negb (dead (snd e))) (g_members g).
Proof. unfold drop_members. cbn. auto. Qed.

Lemma filter_filter' {A} (f h : A -> bool) l : filter f (filter h l) = filter (fun x => h x && f x) l.
Proof.
  induction l as [|x l IH]; cbn; [reflexivity|]. destruct (h x); cbn; [|exact IH].
  destruct (f x); [now f_equal|exact IH].
Qed.

Definition survives (now : Z) (g : group) (m : member) : bool :=
  negb (expired now m) &&
  negb (match g_deadline g with
        | Some d => negb (now <? d) && lagging (g_gen g) m
        | None => false
        end).

Lemma cleanup_members g now :
  let g1 := fst (remove_expired now g) in
  let g2 := fst (drop_laggers now g1) in
  g_members g2 = filter (fun e => survives now g (snd e)) (g_members g) /\
  g_gen g2 = g_gen g /\ g_rebto g2 = g_rebto g.
Proof.
  cbn zeta. unfold remove_expired. cbn [fst].
  destruct (drop_members_fields (expired now) g) as [F1 [F2 [F3 F4]]].
  unfold drop_laggers. rewrite F3. unfold survives.
  destruct (g_deadline g) as [d|].
  - destruct (now <? d) eqn:Ed; cbn [fst].
    + rewrite F4, F1, F2. split; [|auto]. apply filter_ext. intros e. cbn. now rewrite andb_true_r.
    + destruct (drop_members_fields (lagging (g_gen (drop_members (expired now) g))) (drop_members (expired now) g)) as [G1 [G2 [G3 G4]]].
      rewrite G4, G1, G2, F4, F1, F2. split; [|auto].
      rewrite filter_filter'. apply filter_ext. intros e. reflexivity.
  - cbn [fst]. rewrite F4, F1, F2. split; [|auto]. apply filter_ext. intros e. cbn. now rewrite andb_true_r.
Qed.

Lemma existsb_false {A} (f : A -> bool) l : existsb f l = false -> forall x, In x l -> f x = false.
Proof.
  intros H x Hin. destruct (f x) eqn:E; [|reflexivity].
  assert (existsb f l = true) by (apply existsb_exists; eauto). congruence.
Qed.

Lemma filter_nil {A} (f : A -> bool) l : filter f l = [] -> forall x, In x l -> f x = false.
Proof.
  intros H x Hin. destruct (f x) eqn:E; [|reflexivity].
  assert (In x (filter f l)) as Hi by (apply filter_In; auto). rewrite H in Hi. destruct Hi.
Qed.

Definition cleanup_post (E : env) (g : group) (now : Z) (o : option outcome) : Prop :=
  match o with
  | None =>
      (forall k m, In (k, m) (g_members g) -> expired now m = false) /\
      (forall d, g_deadline g = Some d -> d <= now -> forall k m, In (k, m) (g_members g) -> lagging (g_gen g) m = false)
  | Some (Gone r) => r = RNone /\ forall k m, In (k, m) (g_members g) -> survives now g m = false
  | Some (Save g' r) =>
      r = RNone /\ wf E g' /\ g_gen g' = g_gen g + 1 /\ g_phase g' = PPreparing /\
      g_members g' = reset_joingen (filter (fun e => survives now g (snd e)) (g_members g))
  | Some (Keep _ _) => False
  end.

Lemma cleanup_g_spec E g now : wf E g -> cleanup_post E g now (cleanup_g g now).
Proof.
  intros Hwf. pose proof Hwf as [Hd Hne Hld Hp Hj Hna Ha Hs Hr].
  pose proof (cleanup_members g now) as Hcm. cbn zeta in Hcm.
  unfold cleanup_g.
  destruct (remove_expired now g) as [g1 removed] eqn:E1.
  destruct (drop_laggers now g1) as [g2 lost] eqn:E2.
  cbn [fst] in Hcm. rewrite E2 in Hcm. cbn [fst] in Hcm. destruct Hcm as [Hm [Hg Hrb]].
  destruct (g_members g2) as [|e0 r0] eqn:Em2.
  - cbn. split; [reflexivity|]. intros k m Hin. symmetry in Hm.
    apply (filter_nil _ _ Hm (k, m) Hin).
  - destruct (removed || lost) eqn:Erl.
    + assert (basic g2) as Hb.
      { constructor; unfold keys.
        - rewrite Em2, Hm. now apply NoDup_akeys_filter.
        - rewrite Em2. discriminate.
        - rewrite Em2, Hm. intros k m H. apply filter_In in H as [H _]. eauto.
        - rewrite Hrb. assumption. }
      destruct (start_rebalance_spec E 0 now g2 Hb) as [Hw [Hg2 [Hp2 [Hm2 _]]]].
      cbn. split; [reflexivity|]. split; [exact Hw|]. split; [lia|]. split; [exact Hp2|].
      rewrite Hm2, Em2, Hm. reflexivity.
    + apply orb_false_iff in Erl as [Hrem Hlost]. subst removed lost. cbn.
      unfold remove_expired in E1. injection E1 as Hg1 Hrem.
      assert (forall k m, In (k, m) (g_members g) -> expired now m = false) as Hnoexp.
      { intros k m Hin. unfold any_dead in Hrem. apply (existsb_false _ _ Hrem (k, m) Hin). }
      split; [exact Hnoexp|].
      intros d Hdl Hle k m Hin.
      unfold drop_laggers in E2. destruct (drop_members_fields (expired now) g) as [F1 [F2 [F3 F4]]].
      rewrite <- Hg1, F3, Hdl in E2. destruct (now <? d) eqn:Ed; [lia|].
      injection E2 as Hg2' Hl. unfold any_dead, drop_members in Hl. cbn [g_gen g_members] in Hl.
      apply (existsb_false _ _ Hl (k, m)). apply filter_In. split; [exact Hin|].
      cbn. now rewrite (Hnoexp k m Hin).
Qed.

(* ---- persistence round trip ---- *)
Definition pview (E : env) (g : group) : pgroup := store_clone (e_keep E) (build g).

Lemma alookup_flat_assign (h : Z -> tassign) (ms : list (Z * pmember)) id :
  NoDup (akeys ms) -> (forall e, In e ms -> pm_assign (snd e) = h (fst e)) ->
  In id (akeys ms) ->
  match alookup id (flat_map (fun e => match pm_assign (snd e) with [] => [] | a => [(fst e, a)] end) ms) with
  | Some a => a | None => [] end = h id.
Proof.
  induction ms as [|[k pm] ms IH]; cbn [akeys map fst flat_map]; intros Hd Hh Hin; [destruct Hin|].
  inversion Hd as [|? ? Hn Hd']; subst.
  assert (pm_assign pm = h k) as Hk by (apply (Hh (k, pm)); now left).
  destruct Hin as [->|Hin].
  - cbn [snd fst]. rewrite Hk. destruct (h id) eqn:Eh.
    + cbn [app]. destruct (alookup id _) eqn:El; [|reflexivity].
      apply alookup_In in El. apply in_flat_map in El as [[k2 pm2] [H1 H2]]. cbn in H2.
      destruct (pm_assign pm2); [destruct H2|]. destruct H2 as [H2|[]]. inversion H2; subst.
      exfalso. apply Hn. unfold akeys. apply in_map_iff. exists (id, pm2). auto.
    + cbn. now rewrite Z.eqb_refl.
  - assert (id <> k) as Hne by (intros ->; contradiction).
    cbn [snd fst]. rewrite Hk. destruct (h k) eqn:Eh.
    + cbn [app]. apply IH; auto. intros e He. apply Hh. now right.
    + cbn. destruct (id =? k) eqn:E; [lia|]. apply IH; auto. intros e He. apply Hh. now right.
Qed.

Lemma flat_assign_nil (ms : list (Z * pmember)) :
  (forall e, In e ms -> pm_assign (snd e) = []) ->
  flat_map (fun e => match pm_assign (snd e) with [] => [] | a => [(fst e, a)] end) ms = [].
Proof.
  induction ms as [|e ms IH]; cbn; [reflexivity|]. intros H.
  rewrite (H e) by now left. cbn. apply IH. intros e' He'. apply H. now right.
Qed.

Lemma restore_spec E g now :
  wf E g ->
  let r := restore (pview E g) now in
  wf E r /\ pview E r = pview E g /\
  g_gen r = g_gen g /\ g_phase r = g_phase g /\ g_leader r = g_leader g /\
  subs (g_members r) = subs (g_members g) /\
  (forall id, In id (keys g) -> assignment_of r id = assignment_of g id) /\
  (forall id, option_map m_hb (alookup id (g_members r)) = option_map m_hb (alookup id (g_members g))) /\
  (e_keep E = true -> forall id, option_map m_session (alookup id (g_members r)) = option_map m_session (alookup id (g_members g))).
Proof.
  intros Hwf. pose proof Hwf as [Hd Hne [l [Hl Hlin]] Hp Hj Hna Ha Hs Hr]. cbn zeta.
  set (keep := e_keep E).
  set (sess := fun s : Z => if keep then (if s >? 0 then s else 0) else 0).
  set (F := fun e : Z * member => (fst e, mkPM (m_topics (snd e)) (sess (m_session (snd e))) (m_hb (snd e)) (assignment_of g (fst e)))).
  set (prebto := if keep then (if g_rebto g >? 0 then g_rebto g else 0) else 0).
  assert (pview E g = mkPG (g_phase g) (g_leader g) (g_gen g) prebto (map F (g_members g))) as Hpv.
  { unfold pview, store_clone, build. fold keep. subst prebto F sess. destruct keep; cbn.
    - reflexivity.
    - f_equal. rewrite map_map. reflexivity. }
  rewrite Hpv. unfold restore. cbn [pg_phase pg_leader pg_gen pg_rebto pg_members].
  set (rebto := if prebto >? 0 then prebto else default_rebalance).
  set (G := fun e : Z * pmember => (fst e, mkMember (pm_topics (snd e)) (if pm_session (snd e) >? 0 then pm_session (snd e) else default_session) (pm_hb (snd e)) (g_gen g))).
  set (ms' := map G (map F (g_members g))).
  set (asg := flat_map (fun e : Z * pmember => match pm_assign (snd e) with [] => [] | a => [(fst e, a)] end) (map F (g_members g))).
  set (dl := match g_phase g with PPreparing | PCompleting => Some (now + rebto) | _ => None end).
  set (R := mkGroup (g_gen g) (g_leader g) (g_phase g) ms' asg rebto dl).
  assert (akeys ms' = akeys (g_members g)) as Hk.
  { unfold ms', akeys. rewrite !map_map. reflexivity. }
  assert (ensure_leader R = R) as HR.
  { apply (ensure_leader_id R l); [exact Hl|]. unfold keys, R. cbn [g_members]. now rewrite Hk. }
  rewrite HR.
  assert (akeys (map F (g_members g)) = akeys (g_members g)) as HkF.
  { unfold akeys. rewrite map_map. reflexivity. }
  assert (forall id, In id (keys g) -> assignment_of R id = assignment_of g id) as Hasg.
  { intros id Hin. unfold assignment_of at 1. unfold R. cbn [g_assign]. unfold asg.
    apply (alookup_flat_assign (assignment_of g)).
    - now rewrite HkF.
    - intros e He. apply in_map_iff in He as [e0 [<- _]]. reflexivity.
    - now rewrite HkF. }
  assert (subs ms' = subs (g_members g)) as Hsubs.
  { unfold ms', subs. rewrite !map_map. reflexivity. }
  assert (0 < rebto) as Hrebto.
  { subst rebto prebto. unfold default_rebalance. destruct keep; [|cbn; lia].
    destruct (g_rebto g >? 0) eqn:E1; [rewrite E1; lia|lia]. }
  assert (forall s, 0 < s -> keep = true -> (if sess s >? 0 then sess s else default_session) = s) as Hsess_keep.
  { intros s H0 Hk'. subst sess. cbn. rewrite Hk'. destruct (s >? 0) eqn:E1; [now rewrite E1|lia]. }
  assert (forall id, alookup id ms' = option_map (fun m => snd (G (F (id, m)))) (alookup id (g_members g))) as Hlk.
  { intros id. unfold ms'. rewrite map_map. induction (g_members g) as [|[k m] ms IH]; cbn; [reflexivity|].
    destruct (id =? k) eqn:E; [|exact IH]. assert (id = k) by lia. subst. reflexivity. }
  split; [|split; [|split; [reflexivity|split; [reflexivity|split; [reflexivity|split; [exact Hsubs|split; [exact Hasg|split]]]]]]].
  - constructor; unfold R; cbn [g_gen g_members g_leader g_assign g_phase g_rebto keys]; unfold keys; cbn [g_members].
    + now rewrite Hk.
    + unfold ms'. destruct (g_members g); [congruence|discriminate].
    + exists l. split; [exact Hl|]. now rewrite Hk.
    + exact Hp.
    + intros _. unfold all_joined. cbn [g_members g_gen]. unfold ms'. rewrite map_map.
      apply forallb_forall. intros x Hx. apply in_map_iff in Hx as [e0 [<- _]]. cbn. lia.
    + intros Hns. unfold asg. apply flat_assign_nil. intros e He.
      apply in_map_iff in He as [e0 [<- _]]. cbn. unfold assignment_of. now rewrite (Hna Hns).
    + intros Hst id Hin. rewrite Hk in Hin. fold R. rewrite (Hasg id Hin). rewrite Hsubs. now apply Ha.
    + intros id m Hin. unfold ms' in Hin. rewrite map_map in Hin. apply in_map_iff in Hin as [e0 [He0 _]].
      inversion He0; subst. cbn. unfold default_session. destruct (sess (m_session (snd e0)) >? 0) eqn:E1; lia.
    + exact Hrebto.
  - (* what is stored is reproduced by storing the restored group *)
    rewrite <- Hpv. unfold pview at 1. unfold store_clone, build. fold keep.
    cbn [g_phase g_leader g_gen g_rebto g_members R].
    rewrite Hpv.
    assert (forall e, In e (g_members g) ->
              (fst (G (F e)), mkPM (m_topics (snd (G (F e))))
                                   (if m_session (snd (G (F e))) >? 0 then m_session (snd (G (F e))) else 0)
                                   (m_hb (snd (G (F e)))) (assignment_of R (fst (G (F e))))) =
              (fst e, mkPM (m_topics (snd e)) (if keep then sess (m_session (snd e)) else m_session (snd (G (F e))))
                           (m_hb (snd e)) (assignment_of g (fst e)))) as Hentry.
    { intros [k m] Hin. cbn [fst snd G F m_topics m_hb m_session pm_topics pm_hb pm_session].
      rewrite Hasg by (unfold keys, akeys; apply in_map_iff; exists (k, m); auto).
      f_equal. f_equal.
      destruct keep eqn:Ek.
      - specialize (Hs k m Hin). rewrite (Hsess_keep _ Hs eq_refl). subst sess. cbn.
        destruct (m_session m >? 0) eqn:E1; [reflexivity|lia].
      - destruct (_ >? 0); reflexivity. }
    destruct keep eqn:Ek.
    + f_equal.
      * subst rebto prebto. destruct (g_rebto g >? 0) eqn:E1; [|lia]. rewrite E1. now rewrite E1.
      * unfold ms'. rewrite !map_map. apply map_ext_in. intros e He. rewrite (Hentry e He). reflexivity.
    + f_equal. unfold ms'. rewrite !map_map. apply map_ext_in. intros e He.
      pose proof (Hentry e He) as H. cbn [fst snd] in H |- *. inversion H as [[H1 H2 H3 H4 H5]].
      subst sess. cbn. reflexivity.
  - intros id. fold R. unfold R. cbn [g_members]. rewrite Hlk. destruct (alookup id (g_members g)); reflexivity.
  - intros Hkeep id. fold R. unfold R. cbn [g_members]. rewrite Hlk.
    destruct (alookup id (g_members g)) as [m|] eqn:El; [|reflexivity]. cbn.
    f_equal. apply Hsess_keep; [|exact Hkeep]. apply (Hs id m). now apply alookup_In.
Qed.
