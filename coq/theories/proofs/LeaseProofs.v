(* Proofs about model/Lease.v (C18, C19). *)
From KS Require Import lib.Base lib.Strings lib.EtcdKV model.Lease.
Open Scope Z_scope.
