(* Proofs about lib/EtcdKV.v and model/Lease.v (C18, C19).

   The central result is [inv_run]: an invariant that ties every manager's local
   state to the etcd contents holds in every state reachable by any event list
   (guarded Release).  Single ownership, safety of Release and the produce-path
   theorems are corollaries. *)
From Coq Require Import ZifyBool.
From KS Require Import lib.Base lib.Strings lib.EtcdKV model.Lease.
Open Scope Z_scope.

(* ------------------------------------------------------------------ byte strings *)

Lemma bytes_eq_dec (a b : bytes) : {a = b} + {a <> b}.
Proof.
  destruct (bytes_eqb a b) eqn:E; [left; now apply bytes_eqb_eq|right; now apply bytes_eqb_neq].
Qed.

Lemma bytes_eqb_false_of_neq a b : a <> b -> bytes_eqb a b = false.
Proof. apply bytes_eqb_neq. Qed.

Lemma bytes_eqb_sym a b : bytes_eqb a b = bytes_eqb b a.
Proof.
  destruct (bytes_eqb a b) eqn:E.
  - apply bytes_eqb_eq in E. subst. now rewrite bytes_eqb_refl.
  - apply bytes_eqb_neq in E. symmetry. apply bytes_eqb_neq. congruence.
Qed.

(* ------------------------------------------------------------------ association lists *)

Section Alist.
Context {V : Type}.
Implicit Types (l : list (bytes * V)) (k : bytes).

Lemma alookup_cons k k' (v : V) l :
  alookup k ((k', v) :: l) = if bytes_eqb k k' then Some v else alookup k l.
Proof. reflexivity. Qed.

Lemma alookup_aremove_same k l : alookup k (aremove k l) = None.
Proof.
  induction l as [|[k' v] l IH]; cbn; [reflexivity|].
  destruct (bytes_eqb k k') eqn:E; [exact IH|]. cbn. now rewrite E.
Qed.

Lemma alookup_aremove_other k k' l : k <> k' -> alookup k' (aremove k l) = alookup k' l.
Proof.
  intros N. induction l as [|[k2 v] l IH]; cbn; [reflexivity|].
  destruct (bytes_eqb k k2) eqn:E.
  - apply bytes_eqb_eq in E. subst k2. rewrite IH.
    rewrite (bytes_eqb_false_of_neq k' k) by congruence. reflexivity.
  - cbn. now rewrite IH.
Qed.

Lemma alookup_aset_same k (v : V) l : alookup k (aset k v l) = Some v.
Proof. unfold aset. cbn. now rewrite bytes_eqb_refl. Qed.

Lemma alookup_aset_other k k' (v : V) l : k <> k' -> alookup k' (aset k v l) = alookup k' l.
Proof.
  intros N. unfold aset. cbn. rewrite (bytes_eqb_false_of_neq k' k) by congruence.
  now apply alookup_aremove_other.
Qed.

Lemma alookup_In k (v : V) l : alookup k l = Some v -> In (k, v) l.
Proof.
  induction l as [|[k' v'] l IH]; cbn; [discriminate|].
  destruct (bytes_eqb k k') eqn:E; intros H.
  - apply bytes_eqb_eq in E. inversion H. subst. now left.
  - right. now apply IH.
Qed.

Lemma In_aremove k k' (v : V) l : In (k', v) (aremove k l) -> In (k', v) l /\ k' <> k.
Proof.
  induction l as [|[k2 v2] l IH]; cbn; [tauto|].
  destruct (bytes_eqb k k2) eqn:E.
  - intros H. apply IH in H. tauto.
  - cbn. intros [H|H].
    + inversion H; subst. split; [now left|]. apply bytes_eqb_neq in E. congruence.
    + apply IH in H. tauto.
Qed.

Lemma In_aremove1 k (x : bytes * V) l : In x (aremove1 k l) -> In x l.
Proof.
  induction l as [|[k2 v2] l IH]; cbn; [tauto|].
  destruct (bytes_eqb k k2); cbn; [tauto|]. intros [H|H]; [now left|right; now apply IH].
Qed.
End Alist.

(* ------------------------------------------------------------------ etcd *)

Definition eput (e : etcd) (k : bytes) (x : kv) : etcd :=
  mkEtcd (e_rev e + 1) ((k, x) :: e_kvs e) (e_leases e) (e_next_lease e).
Definition edel (e : etcd) (k : bytes) : etcd :=
  mkEtcd (e_rev e + 1) (aremove k (e_kvs e)) (e_leases e) (e_next_lease e).

Lemma etcd_eta e : mkEtcd (e_rev e) (e_kvs e) (e_leases e) (e_next_lease e) = e.
Proof. now destruct e. Qed.

Lemma get_eput e k x k' :
  get (eput e k x) k' = if bytes_eqb k' k then (if visible e x then Some x else None) else get e k'.
Proof. unfold get, eput. cbn. destruct (bytes_eqb k' k); reflexivity. Qed.

Lemma get_edel_same e k : get (edel e k) k = None.
Proof. unfold get, edel. cbn. now rewrite alookup_aremove_same. Qed.

Lemma get_edel_other e k k' : k <> k' -> get (edel e k) k' = get e k'.
Proof. intros N. unfold get, edel. cbn. now rewrite alookup_aremove_other. Qed.

Lemma get_In e k x : get e k = Some x -> In (k, x) (e_kvs e) /\ visible e x = true.
Proof.
  unfold get. destruct (alookup k (e_kvs e)) as [y|] eqn:E; [|discriminate].
  destruct (visible e y) eqn:Vy; [|discriminate]. intros H. inversion H; subst.
  split; [now apply alookup_In|assumption].
Qed.

Lemma lease_live_filter e l l' :
  existsb (Z.eqb l') (filter (fun x => negb (x =? l)) (e_leases e)) = lease_live e l' && negb (l' =? l).
Proof.
  unfold lease_live. induction (e_leases e) as [|a ls IH]; cbn; [reflexivity|].
  destruct (a =? l) eqn:E1; cbn; rewrite IH; destruct (l' =? a) eqn:E2; cbn; try reflexivity; lia.
Qed.

Lemma lease_live_revoke e l l' : lease_live (revoke e l) l' = lease_live e l' && negb (l' =? l).
Proof.
  unfold revoke. destruct (lease_live e l) eqn:L.
  - unfold lease_live at 1. cbn. apply lease_live_filter.
  - destruct (l' =? l) eqn:E; cbn; [|now rewrite andb_true_r].
    assert (l' = l) by lia. subst. now rewrite L.
Qed.

Lemma e_kvs_revoke e l : e_kvs (revoke e l) = e_kvs e.
Proof. unfold revoke. destruct (lease_live e l); reflexivity. Qed.

Lemma e_next_revoke e l : e_next_lease (revoke e l) = e_next_lease e.
Proof. unfold revoke. destruct (lease_live e l); reflexivity. Qed.

Lemma e_rev_revoke e l : e_rev e <= e_rev (revoke e l).
Proof. unfold revoke. destruct (lease_live e l); cbn; [|lia]. destruct (lease_has_keys e l); lia. Qed.

(* revoking hides exactly the visible keys attached to the lease *)
Lemma get_revoke e l k :
  get (revoke e l) k =
  match get e k with
  | Some x => if (kv_lease x =? l) && negb (kv_lease x =? 0) then None else Some x
  | None => None
  end.
Proof.
  unfold get. rewrite e_kvs_revoke. destruct (alookup k (e_kvs e)) as [x|]; [|reflexivity].
  unfold visible. rewrite lease_live_revoke.
  destruct (kv_lease x =? 0) eqn:Z0; cbn.
  - rewrite Z0. cbn. now rewrite andb_false_r.
  - destruct (lease_live e (kv_lease x)); cbn; [|reflexivity].
    rewrite Z0. cbn. rewrite andb_true_r. destruct (kv_lease x =? l); reflexivity.
Qed.

(* the three transactions issued by the lease manager *)
Ltac txn_cbn := cbn [negb forallb op_ok andb fold_left apply_op e_rev e_kvs e_leases e_next_lease app eval_cmp fst snd].
Lemma txn_acquire e k b l :
  (forall x, get e k = Some x -> 0 < kv_create x) ->
  txn e [CmpCreate k 0] [OpPut k b l] [OpGet k] =
  match get e k with
  | None =>
      if (l =? 0) || lease_live e l
      then (eput e k (mkKV b l (e_rev e + 1) (e_rev e + 1)), mkTxnResult false true [] (e_rev e + 1))
      else (e, mkTxnResult true false [] (e_rev e))
  | Some x => (e, mkTxnResult false false [Some x] (e_rev e))
  end.
Proof.
  intros Hc. destruct e as [rv kvs ls nx]. unfold txn, eput. txn_cbn.
  destruct (get _ k) as [x|] eqn:G.
  - specialize (Hc x eq_refl). replace (kv_create x =? 0) with false by lia.
    txn_cbn. rewrite G. reflexivity.
  - cbn [Z.eqb]. txn_cbn. rewrite andb_true_r.
    destruct ((l =? 0) || lease_live _ l); txn_cbn; [|reflexivity].
    rewrite G. reflexivity.
Qed.

Lemma txn_reacquire e k b l :
  txn e [CmpValue k b] [OpPut k b l] [] =
  match get e k with
  | Some x =>
      if bytes_eqb (kv_val x) b then
        if (l =? 0) || lease_live e l
        then (eput e k (mkKV b l (kv_create x) (e_rev e + 1)), mkTxnResult false true [] (e_rev e + 1))
        else (e, mkTxnResult true false [] (e_rev e))
      else (e, mkTxnResult false false [] (e_rev e))
  | None => (e, mkTxnResult false false [] (e_rev e))
  end.
Proof.
  destruct e as [rv kvs ls nx]. unfold txn, eput. txn_cbn.
  destruct (get _ k) as [x|] eqn:G.
  - destruct (bytes_eqb (kv_val x) b); txn_cbn; [|reflexivity].
    rewrite andb_true_r. destruct ((l =? 0) || lease_live _ l); txn_cbn; [|reflexivity].
    rewrite G. reflexivity.
  - txn_cbn. reflexivity.
Qed.

Lemma txn_release e k rev :
  fst (txn e [CmpMod k rev] [OpDel k] []) =
  match get e k with
  | Some x => if kv_mod x =? rev then edel e k else e
  | None => e
  end.
Proof.
  destruct e as [rv kvs ls nx]. unfold txn, edel. txn_cbn.
  destruct (get _ k) as [x|] eqn:G.
  - destruct (kv_mod x =? rev); txn_cbn; [|reflexivity]. rewrite G. reflexivity.
  - destruct (0 =? rev); txn_cbn; [rewrite G|]; reflexivity.
Qed.

Lemma delete_spec e k :
  delete e k = match get e k with Some _ => edel e k | None => e end.
Proof.
  destruct e as [rv kvs ls nx]. unfold delete, txn, edel. txn_cbn.
  destruct (get _ k); reflexivity.
Qed.

(* ------------------------------------------------------------------ the invariant *)

Definition wf_etcd (e : etcd) : Prop :=
  0 < e_rev e /\ 0 < e_next_lease e /\
  (forall l, lease_live e l = true -> 0 < l < e_next_lease e) /\
  (forall k x, In (k, x) (e_kvs e) -> kv_lease x < e_next_lease e /\ 0 < kv_create x).

Definition flight_sess (f : flight) : Z :=
  match f with FTxn s | FReacq s | FCommit s _ => s end.

(* key k is visible and was written by broker b under lease S at revision rev *)
Definition bound_by (e : etcd) (k b : bytes) (S rev : Z) : Prop :=
  exists x, get e k = Some x /\ kv_val x = b /\ kv_lease x = S /\ kv_mod x = rev.

(* what manager m of broker b may believe about resource r, relative to the store *)
Record local_r (cfg : config) (e : etcd) (b : bytes) (m : mgr) (r : bytes) : Prop := mkLocalR {
  lr_owned : forall rev, alookup r (m_owned m) = Some rev ->
             exists S, m_session m = Some S /\ bound_by e (lease_key cfg r) b S rev;
  lr_commit : forall S rev, alookup r (m_flights m) = Some (FCommit S rev) -> m_session m = Some S ->
              bound_by e (lease_key cfg r) b S rev;
  lr_rel_val : forall rev x, In (r, rev) (m_rel m) -> get e (lease_key cfg r) = Some x ->
               kv_mod x = rev -> kv_val x = b;
  lr_rel_owned : forall rev rev', In (r, rev) (m_rel m) -> alookup r (m_owned m) = Some rev' -> rev' <> rev;
  lr_rel_commit : forall rev S rev', In (r, rev) (m_rel m) ->
                  alookup r (m_flights m) = Some (FCommit S rev') -> rev' <> rev;
  lr_flight_not_owned : forall f, alookup r (m_flights m) = Some f -> alookup r (m_owned m) = None;
  lr_owned_le : forall rev, alookup r (m_owned m) = Some rev -> rev <= e_rev e;
  lr_rel_le : forall rev, In (r, rev) (m_rel m) -> rev <= e_rev e;
  lr_commit_le : forall S rev, alookup r (m_flights m) = Some (FCommit S rev) -> rev <= e_rev e;
  lr_flight_sess : forall f, alookup r (m_flights m) = Some f -> 0 < flight_sess f < e_next_lease e
}.

Definition local_m (e : etcd) (m : mgr) : Prop :=
  forall S, m_session m = Some S -> 0 < S < e_next_lease e /\ lease_live e S = true.

Definition inv (cfg : config) (s : state) : Prop :=
  wf_etcd (s_etcd s) /\
  (forall b r, local_r cfg (s_etcd s) b (get_mgr s b) r) /\
  (forall b, local_m (s_etcd s) (get_mgr s b)) /\
  (forall b b' S, m_session (get_mgr s b) = Some S -> m_session (get_mgr s b') = Some S -> b = b').

Lemma lease_key_inj cfg r r' : lease_key cfg r = lease_key cfg r' -> r = r'.
Proof. unfold lease_key. intros H. apply app_inv_head in H. now inversion H. Qed.

Lemma get_mgr_set_same s e' b m : get_mgr (mkState e' (set_mgr s b m)) b = m.
Proof. unfold get_mgr, set_mgr. cbn [s_mgrs]. now rewrite alookup_aset_same. Qed.

Lemma get_mgr_set_other s e' b0 m b : b <> b0 -> get_mgr (mkState e' (set_mgr s b0 m)) b = get_mgr s b.
Proof. intros N. unfold get_mgr, set_mgr. cbn [s_mgrs]. rewrite alookup_aset_other by congruence. reflexivity. Qed.

(* transfer of the per-resource invariant across a change of the store and of the parts
   of the manager that do not concern r *)
Lemma local_r_transfer cfg e e' b m m' r :
  local_r cfg e b m r ->
  alookup r (m_owned m') = alookup r (m_owned m) ->
  alookup r (m_flights m') = alookup r (m_flights m) ->
  (forall rev, In (r, rev) (m_rel m') -> In (r, rev) (m_rel m)) ->
  m_session m' = m_session m ->
  e_rev e <= e_rev e' -> e_next_lease e <= e_next_lease e' ->
  (forall S x, m_session m = Some S -> get e (lease_key cfg r) = Some x -> kv_val x = b ->
               kv_lease x = S -> get e' (lease_key cfg r) = Some x) ->
  (forall x, get e' (lease_key cfg r) = Some x -> kv_mod x <= e_rev e -> get e (lease_key cfg r) = Some x) ->
  local_r cfg e' b m' r.
Proof.
  intros [o1 o2 o3 o4 o5 o6 o7 o8 o9 o10] Ho Hf Hr Hs Hrev Hnx H7 H8.
  constructor; rewrite ?Ho, ?Hf, ?Hs.
  - intros rev A. destruct (o1 rev A) as (S & Se & x & G & V & L & M).
    exists S. split; [assumption|]. exists x. repeat split; try assumption. eapply H7; eauto.
  - intros S rev A Se. destruct (o2 S rev A Se) as (x & G & V & L & M).
    exists x. repeat split; try assumption. eapply H7; eauto.
  - intros rev x A G M. apply Hr in A. apply (o3 rev x A); [|assumption].
    apply H8; [assumption|]. specialize (o8 rev A). lia.
  - intros rev rev' A. apply Hr in A. now apply o4.
  - intros rev S rev' A. apply Hr in A. now apply (o5 rev S rev').
  - assumption.
  - intros rev A. specialize (o7 rev A). lia.
  - intros rev A. apply Hr in A. specialize (o8 rev A). lia.
  - intros S rev A. specialize (o9 S rev A). lia.
  - intros f A. specialize (o10 f A). lia.
Qed.

(* a put at the next revision: harmless for (b, r) unless it overwrites a binding of b *)
Lemma local_r_eput cfg e b m m' r k0 x0 :
  local_r cfg e b m r ->
  alookup r (m_owned m') = alookup r (m_owned m) ->
  alookup r (m_flights m') = alookup r (m_flights m) ->
  (forall rev, In (r, rev) (m_rel m') -> In (r, rev) (m_rel m)) ->
  m_session m' = m_session m ->
  kv_mod x0 = e_rev e + 1 ->
  (lease_key cfg r = k0 -> forall x, get e k0 = Some x -> kv_val x <> b) ->
  local_r cfg (eput e k0 x0) b m' r.
Proof.
  intros L Ho Hf Hr Hs Hm Hk.
  apply (local_r_transfer cfg e _ b m m' r L Ho Hf Hr Hs); cbn [eput e_rev e_next_lease]; try lia.
  - intros S x Se G V Lx. rewrite get_eput. destruct (bytes_eqb (lease_key cfg r) k0) eqn:E; [|assumption].
    apply bytes_eqb_eq in E. exfalso. apply (Hk E x); [now rewrite <- E|assumption].
  - intros x. rewrite get_eput. destruct (bytes_eqb (lease_key cfg r) k0) eqn:E; [|tauto].
    destruct (visible e x0); [|discriminate]. intros H. inversion H; subst. lia.
Qed.

Lemma local_r_edel cfg e b m m' r k0 :
  local_r cfg e b m r ->
  alookup r (m_owned m') = alookup r (m_owned m) ->
  alookup r (m_flights m') = alookup r (m_flights m) ->
  (forall rev, In (r, rev) (m_rel m') -> In (r, rev) (m_rel m)) ->
  m_session m' = m_session m ->
  (lease_key cfg r = k0 -> forall x, get e k0 = Some x -> kv_val x <> b) ->
  local_r cfg (edel e k0) b m' r.
Proof.
  intros L Ho Hf Hr Hs Hk.
  apply (local_r_transfer cfg e _ b m m' r L Ho Hf Hr Hs); cbn [edel e_rev e_next_lease]; try lia.
  - intros S x Se G V Lx. destruct (bytes_eq_dec k0 (lease_key cfg r)) as [E|N].
    + exfalso. apply (Hk (eq_sym E) x); [now rewrite E|assumption].
    + now rewrite get_edel_other.
  - intros x. destruct (bytes_eq_dec k0 (lease_key cfg r)) as [E|N].
    + rewrite <- E, get_edel_same. discriminate.
    + rewrite get_edel_other by assumption. tauto.
Qed.

Lemma local_r_revoke cfg e b m m' r l :
  local_r cfg e b m r ->
  alookup r (m_owned m') = alookup r (m_owned m) ->
  alookup r (m_flights m') = alookup r (m_flights m) ->
  (forall rev, In (r, rev) (m_rel m') -> In (r, rev) (m_rel m)) ->
  m_session m' = m_session m ->
  (forall S, m_session m = Some S -> S <> l) ->
  local_r cfg (revoke e l) b m' r.
Proof.
  intros L Ho Hf Hr Hs Hl.
  apply (local_r_transfer cfg e _ b m m' r L Ho Hf Hr Hs).
  - apply e_rev_revoke.
  - rewrite e_next_revoke. lia.
  - intros S x Se G V Lx. rewrite get_revoke, G. specialize (Hl S Se).
    replace (kv_lease x =? l) with false by lia. reflexivity.
  - intros x. rewrite get_revoke. destruct (get e (lease_key cfg r)) as [y|]; [|discriminate].
    destruct ((kv_lease y =? l) && negb (kv_lease y =? 0)); [discriminate|tauto].
Qed.

Lemma local_r_same cfg e b m m' r :
  local_r cfg e b m r ->
  alookup r (m_owned m') = alookup r (m_owned m) ->
  alookup r (m_flights m') = alookup r (m_flights m) ->
  (forall rev, In (r, rev) (m_rel m') -> In (r, rev) (m_rel m)) ->
  m_session m' = m_session m ->
  local_r cfg e b m' r.
Proof.
  intros L Ho Hf Hr Hs.
  apply (local_r_transfer cfg e e b m m' r L Ho Hf Hr Hs); try lia; tauto.
Qed.

Lemma wf_eput e k x :
  wf_etcd e -> kv_lease x < e_next_lease e -> 0 < kv_create x -> wf_etcd (eput e k x).
Proof.
  intros (W0 & W1 & W2 & W3) Hl Hc. unfold wf_etcd, eput. cbn. repeat split; try lia.
  - apply (W2 l H).
  - apply (W2 l H).
  - destruct H as [H|H]; [inversion H; subst; lia|apply (W3 _ _ H)].
  - destruct H as [H|H]; [inversion H; subst; lia|apply (W3 _ _ H)].
Qed.

Lemma wf_edel e k : wf_etcd e -> wf_etcd (edel e k).
Proof.
  intros (W0 & W1 & W2 & W3). unfold wf_etcd, edel. cbn. repeat split; try lia.
  - apply (W2 l H).
  - apply (W2 l H).
  - apply In_aremove in H. apply (W3 _ _ (proj1 H)).
  - apply In_aremove in H. apply (W3 _ _ (proj1 H)).
Qed.

Lemma wf_revoke e l : wf_etcd e -> wf_etcd (revoke e l).
Proof.
  intros (W0 & W1 & W2 & W3). unfold wf_etcd. rewrite e_next_revoke, e_kvs_revoke.
  pose proof (e_rev_revoke e l). repeat split; try lia.
  - rewrite lease_live_revoke in H0. apply andb_true_iff in H0. apply (W2 l0 (proj1 H0)).
  - rewrite lease_live_revoke in H0. apply andb_true_iff in H0. apply (W2 l0 (proj1 H0)).
  - apply (W3 _ _ H0).
  - apply (W3 _ _ H0).
Qed.

Lemma local_m_mono e e' m :
  local_m e m -> e_next_lease e <= e_next_lease e' ->
  (forall S, m_session m = Some S -> lease_live e S = true -> lease_live e' S = true) ->
  local_m e' m.
Proof.
  intros Lm Hn Hl S Se. destruct (Lm S Se) as [B Lv]. split; [lia|]. now apply Hl.
Qed.

Lemma inv_update cfg s b0 m' e' :
  inv cfg s ->
  wf_etcd e' ->
  (forall r, local_r cfg e' b0 m' r) ->
  local_m e' m' ->
  (forall b r, b <> b0 -> local_r cfg e' b (get_mgr s b) r) ->
  (forall b, b <> b0 -> local_m e' (get_mgr s b)) ->
  (forall b S, b <> b0 -> m_session (get_mgr s b) = Some S -> m_session m' <> Some S) ->
  inv cfg (mkState e' (set_mgr s b0 m')).
Proof.
  intros (W & L & M & G) W' L0 M0 Lo Mo Go. unfold inv. cbn [s_etcd].
  split; [exact W'|]. split; [|split].
  - intros b r. destruct (bytes_eq_dec b b0) as [->|N].
    + rewrite get_mgr_set_same. apply L0.
    + rewrite get_mgr_set_other by assumption. now apply Lo.
  - intros b. destruct (bytes_eq_dec b b0) as [->|N].
    + rewrite get_mgr_set_same. apply M0.
    + rewrite get_mgr_set_other by assumption. now apply Mo.
  - intros b b' S. destruct (bytes_eq_dec b b0) as [->|N]; destruct (bytes_eq_dec b' b0) as [->|N'];
      rewrite ?get_mgr_set_same; try rewrite (get_mgr_set_other s e' b0 m' b) by assumption;
      try rewrite (get_mgr_set_other s e' b0 m' b') by assumption; intros A B.
    + reflexivity.
    + exfalso. apply (Go b' S N' B A).
    + exfalso. apply (Go b S N A B).
    + apply (G b b' S A B).
Qed.

(* when only manager b0 changes and the store does not *)
Lemma inv_update_local cfg s b0 m' :
  inv cfg s ->
  (forall r, local_r cfg (s_etcd s) b0 m' r) ->
  local_m (s_etcd s) m' ->
  (m_session m' = m_session (get_mgr s b0) \/ m_session m' = None) ->
  inv cfg (mkState (s_etcd s) (set_mgr s b0 m')).
Proof.
  intros I L0 M0 Hs. pose proof I as (W & L & M & G).
  apply inv_update; try assumption.
  - intros b r _. apply L.
  - intros b _. apply M.
  - intros b S N A B. destruct Hs as [Hs|Hs]; rewrite Hs in B; [|discriminate].
    apply N. apply (G b b0 S A B).
Qed.

Ltac lr_fields H := destruct H as [o1 o2 o3 o4 o5 o6 o7 o8 o9 o10].
Ltac lr_auto :=
  intros; try discriminate; try congruence;
  try (match goal with H : Some _ = Some _ |- _ => inversion H; subst; clear H end);
  try discriminate; try congruence; eauto.
Ltac mgr_cbn := cbn [with_flights m_closed m_session m_owned m_flights m_rel fresh_mgr].

Lemma grant_get e k : wf_etcd e -> get (fst (grant e)) k = get e k.
Proof.
  intros (W0 & W1 & W2 & W3). unfold get, grant. cbn.
  destruct (alookup k (e_kvs e)) as [x|] eqn:A; [|reflexivity].
  apply alookup_In in A. destruct (W3 _ _ A) as [B _].
  unfold visible, lease_live. cbn. replace (kv_lease x =? e_next_lease e) with false by lia. reflexivity.
Qed.

Lemma wf_grant e : wf_etcd e -> wf_etcd (fst (grant e)).
Proof.
  intros (W0 & W1 & W2 & W3). unfold wf_etcd, grant, lease_live. cbn. repeat split; try lia.
  - destruct (l =? e_next_lease e) eqn:E; [lia|]. cbn in H. apply (W2 l H).
  - destruct (l =? e_next_lease e) eqn:E; [lia|]. cbn in H. pose proof (W2 l H). lia.
  - pose proof (W3 _ _ H). lia.
  - apply (W3 _ _ H).
Qed.

Lemma inv_acqbegin cfg s b0 r0 : inv cfg s -> inv cfg (fst (step cfg s (AcqBegin b0 r0))).
Proof.
  intros I. pose proof I as (W & L & M & G). cbn [step].
  destruct (m_closed (get_mgr s b0)) eqn:Cl; [exact I|].
  destruct (alookup r0 (m_owned (get_mgr s b0))) eqn:Ow; [exact I|].
  destruct (alookup r0 (m_flights (get_mgr s b0))) eqn:Fl; [exact I|].
  destruct (m_session (get_mgr s b0)) as [l|] eqn:Se.
  - cbn [fst]. apply inv_update_local; try assumption.
    + intros r. destruct (bytes_eq_dec r0 r) as [<-|N].
      * pose proof (L b0 r0) as Lr. lr_fields Lr.
        constructor; mgr_cbn; rewrite ?alookup_aset_same, ?Ow; lr_auto.
        -- cbn. apply (M b0 l Se).
      * apply (local_r_same cfg _ b0 (get_mgr s b0)); mgr_cbn; try reflexivity; [apply L| |tauto].
        now apply alookup_aset_other.
    + intros S A. apply (M b0). exact A.
    + left. reflexivity.
  - destruct (grant (s_etcd s)) as [e' l] eqn:Gr. cbn [fst].
    assert (E' : e' = fst (grant (s_etcd s))) by now rewrite Gr.
    assert (El : l = e_next_lease (s_etcd s)) by (unfold grant in Gr; now inversion Gr).
    assert (Nx : e_next_lease e' = e_next_lease (s_etcd s) + 1) by (subst e'; reflexivity).
    assert (Rv : e_rev e' = e_rev (s_etcd s)) by (subst e'; reflexivity).
    assert (Lv : forall S, lease_live e' S = (S =? l) || lease_live (s_etcd s) S)
      by (intros S; subst e' l; reflexivity).
    assert (Gt : forall k, get e' k = get (s_etcd s) k) by (intros k; subst e'; now apply grant_get).
    assert (Tr : forall b r, local_r cfg (s_etcd s) b (get_mgr s b) r -> local_r cfg e' b (get_mgr s b) r).
    { intros b r Lr. apply (local_r_transfer cfg (s_etcd s) e' b (get_mgr s b) (get_mgr s b) r Lr);
        try reflexivity; try tauto; try lia.
      - intros S x _ A _ _. now rewrite Gt.
      - intros x A _. now rewrite <- Gt. }
    apply inv_update; try assumption.
    + subst e'. now apply wf_grant.
    + intros r. pose proof (Tr b0 r (L b0 r)) as Lr. lr_fields Lr. rewrite Se in *.
      destruct (bytes_eq_dec r0 r) as [<-|N].
      * constructor; mgr_cbn; rewrite ?alookup_aset_same, ?Ow; lr_auto.
        -- cbn. destruct W as (_ & W1 & _). lia.
      * constructor; mgr_cbn; rewrite ?(alookup_aset_other r0 r) by assumption; try assumption.
        -- intros rev A. destruct (o1 rev A) as (S & D & _). discriminate.
        -- intros S rev A B. inversion B; subst S. specialize (o10 _ A). cbn in o10.
           pose proof (lr_flight_sess _ _ _ _ _ (L b0 r) _ A) as F. cbn in F. lia.
    + intros S A. cbn in A. inversion A; subst S. split; [destruct W as (_ & W1 & _); lia|].
      rewrite Lv. replace (l =? l) with true by lia. reflexivity.
    + intros b r _. apply Tr, L.
    + intros b _. apply (local_m_mono (s_etcd s)); [apply M|lia|].
      intros S _ A. rewrite Lv, A. now rewrite orb_true_r.
    + intros b S N A B. cbn in B. inversion B; subst S.
      destruct (M b l A) as [Bd _]. lia.
Qed.

(* the flight of r0 moves to a state that is not FCommit, or ends; nothing else changes *)
Lemma local_flights_update cfg e b m r0 fl' :
  (forall r, local_r cfg e b m r) ->
  (forall r, r0 <> r -> alookup r fl' = alookup r (m_flights m)) ->
  match alookup r0 fl' with
  | Some (FCommit _ _) => False
  | Some f => 0 < flight_sess f < e_next_lease e /\ alookup r0 (m_owned m) = None
  | None => True
  end ->
  forall r, local_r cfg e b (with_flights m fl') r.
Proof.
  intros L Ho H0 r. destruct (bytes_eq_dec r0 r) as [<-|N].
  - pose proof (L r0) as Lr. lr_fields Lr. constructor; mgr_cbn; try assumption.
    + intros S rev A. rewrite A in H0. contradiction.
    + intros rev S rev' _ A. rewrite A in H0. contradiction.
    + intros f A. rewrite A in H0. destruct f; tauto.
    + intros S rev A. rewrite A in H0. contradiction.
    + intros f A. rewrite A in H0. destruct f; tauto.
  - apply (local_r_same cfg e b m); mgr_cbn; try reflexivity; [apply L| |tauto]. now apply Ho.
Qed.

Lemma inv_flights_update cfg s b0 r0 fl' :
  inv cfg s ->
  (forall r, r0 <> r -> alookup r fl' = alookup r (m_flights (get_mgr s b0))) ->
  match alookup r0 fl' with
  | Some (FCommit _ _) => False
  | Some f => 0 < flight_sess f < e_next_lease (s_etcd s) /\ alookup r0 (m_owned (get_mgr s b0)) = None
  | None => True
  end ->
  inv cfg (mkState (s_etcd s) (set_mgr s b0 (with_flights (get_mgr s b0) fl'))).
Proof.
  intros I Ho H0. pose proof I as (W & L & M & G).
  apply inv_update_local; try assumption.
  - apply (local_flights_update cfg _ b0 _ r0); try assumption. intros r. apply L.
  - apply M.
  - now left.
Qed.

(* b0's acquire / reacquire transaction writes the key *)
Lemma inv_put cfg s b0 r0 l cr :
  inv cfg s ->
  (alookup r0 (m_flights (get_mgr s b0)) = Some (FTxn l) \/
   alookup r0 (m_flights (get_mgr s b0)) = Some (FReacq l)) ->
  (l =? 0) || lease_live (s_etcd s) l = true ->
  0 < cr ->
  (forall x, get (s_etcd s) (lease_key cfg r0) = Some x -> kv_val x = b0) ->
  inv cfg (mkState (eput (s_etcd s) (lease_key cfg r0) (mkKV b0 l cr (e_rev (s_etcd s) + 1)))
                   (set_mgr s b0 (with_flights (get_mgr s b0)
                      (aset r0 (FCommit l (e_rev (s_etcd s) + 1)) (m_flights (get_mgr s b0)))))).
Proof.
  intros I Fl Lo Hcr Hv. pose proof I as (W & L & M & G).
  assert (Fs : 0 < l < e_next_lease (s_etcd s)).
  { destruct Fl as [Fl|Fl]; apply (lr_flight_sess _ _ _ _ _ (L b0 r0)) in Fl; exact Fl. }
  assert (Ow : alookup r0 (m_owned (get_mgr s b0)) = None).
  { destruct Fl as [Fl|Fl]; apply (lr_flight_not_owned _ _ _ _ _ (L b0 r0)) in Fl; exact Fl. }
  assert (Nc : forall S rev, alookup r0 (m_flights (get_mgr s b0)) <> Some (FCommit S rev)).
  { intros S rev. destruct Fl as [Fl|Fl]; rewrite Fl; discriminate. }
  apply inv_update; try assumption.
  - apply wf_eput; cbn; try assumption; lia.
  - intros r. destruct (bytes_eq_dec r0 r) as [<-|N].
    + pose proof (L b0 r0) as Lr. lr_fields Lr.
      constructor; mgr_cbn; rewrite ?alookup_aset_same, ?Ow; cbn [eput e_rev e_next_lease]; lr_auto.
      * exists (mkKV b0 S cr (e_rev (s_etcd s) + 1)). rewrite get_eput, bytes_eqb_refl.
        unfold visible. cbn [kv_lease]. rewrite Lo. repeat split.
      * revert H0. rewrite get_eput, bytes_eqb_refl. destruct (visible _ _); [|discriminate].
        intros A. inversion A; subst x. reflexivity.
      * specialize (o8 _ H). lia.
      * specialize (o8 _ H). lia.
      * lia.
    + apply (local_r_eput cfg _ b0 (get_mgr s b0)); mgr_cbn; try reflexivity; try tauto; [apply L| |].
      * now apply alookup_aset_other.
      * intros E. apply lease_key_inj in E. congruence.
  - apply (local_m_mono (s_etcd s)); [apply M|cbn; lia|tauto].
  - intros b r N. apply (local_r_eput cfg _ b (get_mgr s b)); try reflexivity; try tauto; [apply L|].
    intros _ x A. rewrite (Hv x A). congruence.
  - intros b N. apply (local_m_mono (s_etcd s)); [apply M|cbn; lia|tauto].
  - intros b S N A. mgr_cbn. intros B. apply N. apply (G b b0 S A B).
Qed.

Lemma inv_acqtxn cfg s b0 r0 : inv cfg s -> inv cfg (fst (step cfg s (AcqTxn b0 r0))).
Proof.
  intros I. pose proof I as (W & L & M & G). cbn [step].
  destruct (alookup r0 (m_flights (get_mgr s b0))) as [[l|l|l rv]|] eqn:Fl; try exact I.
  rewrite txn_acquire.
  2: { intros x A. apply get_In in A. destruct W as (_ & _ & _ & W3). apply (W3 _ _ (proj1 A)). }
  pose proof (lr_flight_sess _ _ _ _ _ (L b0 r0) _ Fl) as Fs. cbn in Fs.
  pose proof (lr_flight_not_owned _ _ _ _ _ (L b0 r0) _ Fl) as Ow.
  destruct (get (s_etcd s) (lease_key cfg r0)) as [x|] eqn:Gk.
  - cbn [t_err t_succ t_gets]. destruct (bytes_eqb (kv_val x) b0) eqn:Ev; cbn [fst].
    + apply (inv_flights_update cfg s b0 r0); try assumption.
      * intros r N. now apply alookup_aset_other.
      * rewrite alookup_aset_same. cbn. tauto.
    + apply (inv_flights_update cfg s b0 r0); try assumption.
      * intros r N. now apply alookup_aremove_other.
      * now rewrite alookup_aremove_same.
  - destruct ((l =? 0) || lease_live (s_etcd s) l) eqn:Lo; cbn [t_err t_succ t_rev fst].
    + apply inv_put; try assumption; [now left| |].
      * destruct W as (W0 & _). lia.
      * intros x A. congruence.
    + apply (inv_flights_update cfg s b0 r0); try assumption.
      * intros r N. now apply alookup_aremove_other.
      * now rewrite alookup_aremove_same.
Qed.

Lemma inv_reacqtxn cfg s b0 r0 : inv cfg s -> inv cfg (fst (step cfg s (ReacqTxn b0 r0))).
Proof.
  intros I. pose proof I as (W & L & M & G). cbn [step].
  destruct (alookup r0 (m_flights (get_mgr s b0))) as [[l|l|l rv]|] eqn:Fl; try exact I.
  rewrite txn_reacquire.
  destruct (get (s_etcd s) (lease_key cfg r0)) as [x|] eqn:Gk.
  - destruct (bytes_eqb (kv_val x) b0) eqn:Ev.
    + destruct ((l =? 0) || lease_live (s_etcd s) l) eqn:Lo; cbn [t_err t_succ t_rev fst].
      * apply inv_put; try assumption; [now right| |].
        -- apply get_In in Gk. destruct W as (_ & _ & _ & W3). apply (W3 _ _ (proj1 Gk)).
        -- intros y A. rewrite Gk in A. inversion A; subst y. now apply bytes_eqb_eq.
      * apply (inv_flights_update cfg s b0 r0); try assumption.
        -- intros r N. now apply alookup_aremove_other.
        -- now rewrite alookup_aremove_same.
    + cbn [t_err t_succ fst]. apply (inv_flights_update cfg s b0 r0); try assumption.
      * intros r N. now apply alookup_aremove_other.
      * now rewrite alookup_aremove_same.
  - cbn [t_err t_succ fst]. apply (inv_flights_update cfg s b0 r0); try assumption.
    + intros r N. now apply alookup_aremove_other.
    + now rewrite alookup_aremove_same.
Qed.

Lemma session_is_true m l : session_is m l = true <-> m_session m = Some l.
Proof.
  unfold session_is. destruct (m_session m) as [l'|]; split; intros H; try discriminate.
  - f_equal. lia.
  - inversion H. lia.
Qed.

Lemma inv_commit cfg s b0 r0 : inv cfg s -> inv cfg (fst (step cfg s (AcqCommitLocal b0 r0))).
Proof.
  intros I. pose proof I as (W & L & M & G). cbn [step].
  destruct (alookup r0 (m_flights (get_mgr s b0))) as [[l|l|l rv]|] eqn:Fl; try exact I.
  destruct (session_is (get_mgr s b0) l) eqn:Si; cbn [fst].
  - apply session_is_true in Si. apply inv_update_local; try assumption.
    + intros r. destruct (bytes_eq_dec r0 r) as [<-|N].
      * pose proof (L b0 r0) as Lr. lr_fields Lr.
        constructor; mgr_cbn; rewrite ?alookup_aset_same, ?alookup_aremove_same; lr_auto.
      * apply (local_r_same cfg _ b0 (get_mgr s b0)); mgr_cbn; try reflexivity; try tauto; [apply L| |].
        -- now apply alookup_aset_other.
        -- now apply alookup_aremove_other.
    + intros S A. apply (M b0). exact A.
    + now left.
  - apply (inv_flights_update cfg s b0 r0); try assumption.
    + intros r N. now apply alookup_aremove_other.
    + now rewrite alookup_aremove_same.
Qed.

Lemma inv_rellocal cfg s b0 r0 : inv cfg s -> inv cfg (fst (step cfg s (RelLocal b0 r0))).
Proof.
  intros I. pose proof I as (W & L & M & G). cbn [step].
  destruct (alookup r0 (m_owned (get_mgr s b0))) as [rv|] eqn:Ow; [|exact I]. cbn [fst].
  apply inv_update_local; try assumption.
  - intros r. destruct (bytes_eq_dec r0 r) as [<-|N].
    + pose proof (L b0 r0) as Lr. lr_fields Lr.
      assert (Nf : alookup r0 (m_flights (get_mgr s b0)) = None).
      { destruct (alookup r0 (m_flights (get_mgr s b0))) as [f|] eqn:Fl; [|reflexivity].
        rewrite (o6 f eq_refl) in Ow. discriminate. }
      constructor; mgr_cbn; rewrite ?alookup_aremove_same, ?Nf; lr_auto.
      * apply in_app_or in H. destruct H as [H|[H|[]]]; [eapply o3; eauto|].
        inversion H; subst rev. destruct (o1 _ Ow) as (S & _ & y & Gy & Vy & _).
        rewrite Gy in H0. inversion H0; subst y. exact Vy.
      * apply in_app_or in H. destruct H as [H|[H|[]]]; [now apply o8|].
        inversion H; subst rev. now apply o7.
    + apply (local_r_same cfg _ b0 (get_mgr s b0)); mgr_cbn; try reflexivity; [apply L| |].
      * now apply alookup_aremove_other.
      * intros rev H. apply in_app_or in H. destruct H as [H|[H|[]]]; [assumption|].
        inversion H. congruence.
  - intros S A. apply (M b0). exact A.
  - now left.
Qed.

Lemma inv_reldelete cfg s b0 r0 :
  c_guard cfg = true -> inv cfg s -> inv cfg (fst (step cfg s (RelDelete b0 r0))).
Proof.
  intros Gd I. pose proof I as (W & L & M & G). cbn [step].
  destruct (alookup r0 (m_rel (get_mgr s b0))) as [rv|] eqn:Rl; [|exact I]. cbn [fst].
  rewrite Gd, txn_release.
  apply alookup_In in Rl.
  set (m' := mkMgr _ _ _ _ _).
  assert (Sub : forall r rev, In (r, rev) (m_rel m') -> In (r, rev) (m_rel (get_mgr s b0))).
  { intros r rev. unfold m'. mgr_cbn. apply In_aremove1. }
  assert (Same : forall r, local_r cfg (s_etcd s) b0 m' r).
  { intros r. apply (local_r_same cfg _ b0 (get_mgr s b0)); try reflexivity; [apply L|]. apply Sub. }
  destruct (get (s_etcd s) (lease_key cfg r0)) as [x|] eqn:Gk.
  2: { apply inv_update_local; try assumption; [intros S A; apply (M b0); exact A|now left]. }
  destruct (kv_mod x =? rv) eqn:Em.
  2: { apply inv_update_local; try assumption; [intros S A; apply (M b0); exact A|now left]. }
  assert (kv_mod x = rv) as Emod by lia. clear Em.
  assert (Vx : kv_val x = b0) by (apply (lr_rel_val _ _ _ _ _ (L b0 r0) rv x Rl Gk Emod)).
  apply inv_update; try assumption.
  - now apply wf_edel.
  - intros r. destruct (bytes_eq_dec r0 r) as [<-|N].
    + pose proof (L b0 r0) as Lr. lr_fields Lr.
      constructor; unfold m'; mgr_cbn; cbn [edel e_rev e_next_lease]; fold m'.
      * intros rev A. exfalso. destruct (o1 rev A) as (S & _ & y & Gy & _ & _ & My).
        rewrite Gk in Gy. inversion Gy; subst y. apply (o4 rv rev Rl A). congruence.
      * intros S rev A Se. exfalso. destruct (o2 S rev A Se) as (y & Gy & _ & _ & My).
        rewrite Gk in Gy. inversion Gy; subst y. apply (o5 rv S rev Rl A). congruence.
      * intros rev y _. rewrite get_edel_same. discriminate.
      * intros rev rev' A. apply In_aremove1 in A. now apply o4.
      * intros rev S rev' A. apply In_aremove1 in A. now apply (o5 rev S rev').
      * assumption.
      * intros rev A. specialize (o7 rev A). lia.
      * intros rev A. apply In_aremove1 in A. specialize (o8 rev A). lia.
      * intros S rev A. specialize (o9 S rev A). lia.
      * assumption.
    + apply (local_r_edel cfg _ b0 (get_mgr s b0)); try reflexivity; [apply L|apply Sub|].
      intros E. apply lease_key_inj in E. congruence.
  - apply (local_m_mono (s_etcd s)); [apply M|cbn; lia|tauto].
  - intros b r N. apply (local_r_edel cfg _ b (get_mgr s b)); try reflexivity; try tauto; [apply L|].
    intros _ y A. rewrite Gk in A. inversion A; subst y. congruence.
  - intros b N. apply (local_m_mono (s_etcd s)); [apply M|cbn; lia|tauto].
  - intros b S N A B. apply N. apply (G b b0 S A B).
Qed.

(* b0's session ends (expiry or ReleaseAll): lease l is revoked, ownership is cleared *)
Lemma inv_session_end cfg s b0 l closed :
  inv cfg s -> m_session (get_mgr s b0) = Some l ->
  inv cfg (mkState (revoke (s_etcd s) l)
                   (set_mgr s b0 (mkMgr closed None [] (m_flights (get_mgr s b0)) (m_rel (get_mgr s b0))))).
Proof.
  intros I Se. pose proof I as (W & L & M & G).
  apply inv_update; try assumption.
  - now apply wf_revoke.
  - intros r. pose proof (L b0 r) as Lr. lr_fields Lr. pose proof (e_rev_revoke (s_etcd s) l) as Rv.
    constructor; mgr_cbn; rewrite ?e_next_revoke; lr_auto.
    + apply (o3 rev x H); [|assumption]. revert H0. rewrite get_revoke.
      destruct (get (s_etcd s) (lease_key cfg r)) as [y|]; [|discriminate].
      destruct ((kv_lease y =? l) && negb (kv_lease y =? 0)); [discriminate|tauto].
    + specialize (o8 rev H). lia.
    + specialize (o9 S rev H). lia.
  - intros S A. discriminate.
  - intros b r N. apply (local_r_revoke cfg _ b (get_mgr s b)); try reflexivity; try tauto; [apply L|].
    intros S A E. subst S. apply N. apply (G b b0 l A Se).
  - intros b N. apply (local_m_mono (s_etcd s)); [apply M|rewrite e_next_revoke; lia|].
    intros S A Lv. rewrite lease_live_revoke, Lv. cbn.
    destruct (S =? l) eqn:E; [|reflexivity]. exfalso. apply N. apply (G b b0 S A). rewrite Se. f_equal. lia.
  - intros b S N A B. discriminate.
Qed.

Lemma inv_expire cfg s b0 : inv cfg s -> inv cfg (fst (step cfg s (SessionExpire b0))).
Proof.
  intros I. cbn [step]. destruct (m_session (get_mgr s b0)) as [l|] eqn:Se; [|exact I].
  cbn [fst]. now apply inv_session_end.
Qed.

Lemma inv_releaseall cfg s b0 : inv cfg s -> inv cfg (fst (step cfg s (ReleaseAll b0))).
Proof.
  intros I. cbn [step fst].
  pose proof I as (W & L & M & G). apply inv_update_local; try assumption.
  - intros r. pose proof (L b0 r) as Lr. lr_fields Lr. constructor; mgr_cbn; lr_auto.
  - intros S A. discriminate.
  - now right.
Qed.

Lemma inv_restart cfg s b0 : inv cfg s -> inv cfg (fst (step cfg s (Restart b0))).
Proof.
  intros I. cbn [step fst]. pose proof I as (W & L & M & G). apply inv_update_local; try assumption.
  - intros r. constructor; mgr_cbn; cbn [alookup]; lr_auto; contradiction.
  - intros S A. discriminate.
  - now right.
Qed.

Lemma inv_orphan cfg s l : inv cfg s -> inv cfg (fst (step cfg s (OrphanExpire l))).
Proof.
  intros I. cbn [step]. destruct (existsb _ (s_mgrs s)) eqn:Ex; [exact I|]. cbn [fst].
  pose proof I as (W & L & M & G).
  assert (Ns : forall b S, m_session (get_mgr s b) = Some S -> S <> l).
  { intros b S A E. subst S. unfold get_mgr in A.
    destruct (alookup b (s_mgrs s)) as [m|] eqn:Al; [|discriminate].
    apply alookup_In in Al. rewrite <- not_true_iff_false in Ex. apply Ex.
    apply existsb_exists. exists (b, m). split; [assumption|]. now apply session_is_true. }
  unfold inv. cbn [s_etcd]. split; [now apply wf_revoke|]. split; [|split].
  - intros b r. change (get_mgr {| s_etcd := revoke (s_etcd s) l; s_mgrs := s_mgrs s |} b) with (get_mgr s b).
    apply (local_r_revoke cfg _ b (get_mgr s b)); try reflexivity; try tauto; [apply L|apply Ns].
  - intros b. change (get_mgr {| s_etcd := revoke (s_etcd s) l; s_mgrs := s_mgrs s |} b) with (get_mgr s b).
    apply (local_m_mono (s_etcd s)); [apply M|rewrite e_next_revoke; lia|].
    intros S A Lv. rewrite lease_live_revoke, Lv. specialize (Ns b S A).
    replace (S =? l) with false by lia. reflexivity.
  - intros b b' S. apply G.
Qed.

(* lost response: the put is applied, the flight ends without a local record *)
Lemma inv_put_lost cfg s b0 r0 l cr :
  inv cfg s ->
  (alookup r0 (m_flights (get_mgr s b0)) = Some (FTxn l) \/
   alookup r0 (m_flights (get_mgr s b0)) = Some (FReacq l)) ->
  0 < cr ->
  (forall x, get (s_etcd s) (lease_key cfg r0) = Some x -> kv_val x = b0) ->
  inv cfg (mkState (eput (s_etcd s) (lease_key cfg r0) (mkKV b0 l cr (e_rev (s_etcd s) + 1)))
                   (set_mgr s b0 (with_flights (get_mgr s b0) (aremove r0 (m_flights (get_mgr s b0)))))).
Proof.
  intros I Fl Hcr Hv. pose proof I as (W & L & M & G).
  assert (Fs : 0 < l < e_next_lease (s_etcd s)).
  { destruct Fl as [Fl|Fl]; apply (lr_flight_sess _ _ _ _ _ (L b0 r0)) in Fl; exact Fl. }
  assert (Ow : alookup r0 (m_owned (get_mgr s b0)) = None).
  { destruct Fl as [Fl|Fl]; apply (lr_flight_not_owned _ _ _ _ _ (L b0 r0)) in Fl; exact Fl. }
  apply inv_update; try assumption.
  - apply wf_eput; cbn; try assumption; lia.
  - intros r. destruct (bytes_eq_dec r0 r) as [<-|N].
    + pose proof (L b0 r0) as Lr. lr_fields Lr.
      constructor; mgr_cbn; rewrite ?alookup_aremove_same, ?Ow; cbn [eput e_rev e_next_lease]; lr_auto.
      * revert H0. rewrite get_eput, bytes_eqb_refl. destruct (visible _ _); [|discriminate].
        intros A. inversion A; subst x. reflexivity.
      * specialize (o8 _ H). lia.
    + apply (local_r_eput cfg _ b0 (get_mgr s b0)); mgr_cbn; try reflexivity; try tauto; [apply L| |].
      * now apply alookup_aremove_other.
      * intros E. apply lease_key_inj in E. congruence.
  - apply (local_m_mono (s_etcd s)); [apply M|cbn; lia|tauto].
  - intros b r N. apply (local_r_eput cfg _ b (get_mgr s b)); try reflexivity; try tauto; [apply L|].
    intros _ x A. rewrite (Hv x A). congruence.
  - intros b N. apply (local_m_mono (s_etcd s)); [apply M|cbn; lia|tauto].
  - intros b S N A. mgr_cbn. intros B. apply N. apply (G b b0 S A B).
Qed.

Lemma inv_acqtxn_lost cfg s b0 r0 : inv cfg s -> inv cfg (fst (step cfg s (AcqTxnLost b0 r0))).
Proof.
  intros I. pose proof I as (W & L & M & G). cbn [step].
  destruct (alookup r0 (m_flights (get_mgr s b0))) as [[l|l|l rv]|] eqn:Fl; try exact I.
  rewrite txn_acquire.
  2: { intros x A. apply get_In in A. destruct W as (_ & _ & _ & W3). apply (W3 _ _ (proj1 A)). }
  destruct (get (s_etcd s) (lease_key cfg r0)) as [x|] eqn:Gk.
  - cbn [fst]. apply (inv_flights_update cfg s b0 r0); try assumption.
    + intros r N. now apply alookup_aremove_other.
    + now rewrite alookup_aremove_same.
  - destruct ((l =? 0) || lease_live (s_etcd s) l) eqn:Lo; cbn [fst].
    + apply (inv_put_lost cfg s b0 r0 l); try assumption; [now left| |].
      * destruct W as (W0 & _). lia.
      * intros x A. congruence.
    + apply (inv_flights_update cfg s b0 r0); try assumption.
      * intros r N. now apply alookup_aremove_other.
      * now rewrite alookup_aremove_same.
Qed.

Lemma inv_reacqtxn_lost cfg s b0 r0 : inv cfg s -> inv cfg (fst (step cfg s (ReacqTxnLost b0 r0))).
Proof.
  intros I. pose proof I as (W & L & M & G). cbn [step].
  destruct (alookup r0 (m_flights (get_mgr s b0))) as [[l|l|l rv]|] eqn:Fl; try exact I.
  rewrite txn_reacquire.
  assert (Rm : inv cfg (mkState (s_etcd s) (set_mgr s b0 (with_flights (get_mgr s b0) (aremove r0 (m_flights (get_mgr s b0))))))).
  { apply (inv_flights_update cfg s b0 r0); try assumption.
    - intros r N. now apply alookup_aremove_other.
    - now rewrite alookup_aremove_same. }
  destruct (get (s_etcd s) (lease_key cfg r0)) as [x|] eqn:Gk; [|exact Rm].
  destruct (bytes_eqb (kv_val x) b0) eqn:Ev; [|exact Rm].
  destruct ((l =? 0) || lease_live (s_etcd s) l) eqn:Lo; cbn [fst]; [|exact Rm].
  apply (inv_put_lost cfg s b0 r0 l); try assumption; [now right| |].
  - apply get_In in Gk. destruct W as (_ & _ & _ & W3). apply (W3 _ _ (proj1 Gk)).
  - intros y A. rewrite Gk in A. inversion A; subst y. now apply bytes_eqb_eq.
Qed.

Lemma inv_step cfg s ev :
  c_guard cfg = true -> inv cfg s -> inv cfg (fst (step cfg s ev)).
Proof.
  intros Gd I. destruct ev.
  - now apply inv_acqbegin.
  - now apply inv_acqtxn.
  - now apply inv_reacqtxn.
  - now apply inv_commit.
  - now apply inv_rellocal.
  - now apply inv_reldelete.
  - now apply inv_expire.
  - now apply inv_releaseall.
  - now apply inv_restart.
  - now apply inv_orphan.
  - now apply inv_acqtxn_lost.
  - now apply inv_reacqtxn_lost.
Qed.

Lemma inv_init cfg : inv cfg init.
Proof.
  unfold inv, init. cbn [s_etcd]. split; [|split; [|split]].
  - unfold wf_etcd, etcd_init, lease_live. cbn. repeat split; try lia; try discriminate; contradiction.
  - intros b r. unfold get_mgr. cbn. constructor; mgr_cbn; cbn [alookup]; lr_auto; contradiction.
  - intros b S. unfold get_mgr. cbn. discriminate.
  - intros b b' S. unfold get_mgr. cbn. discriminate.
Qed.

Lemma inv_run_from cfg evs : c_guard cfg = true -> forall s, inv cfg s -> inv cfg (run_from cfg s evs).
Proof.
  intros Gd. induction evs as [|ev evs IH]; intros s I; [exact I|].
  cbn [run_from fold_left]. apply IH. now apply inv_step.
Qed.

Theorem inv_run cfg evs : c_guard cfg = true -> inv cfg (run cfg evs).
Proof. intros Gd. apply inv_run_from; [assumption|apply inv_init]. Qed.

(* ------------------------------------------------------------------ C18 corollaries *)

Lemma owns_true s b r : owns s b r = true <-> exists rev, alookup r (m_owned (get_mgr s b)) = Some rev.
Proof.
  unfold owns. destruct (alookup r (m_owned (get_mgr s b))) as [rev|]; split; intros H;
    try discriminate; eauto. destruct H as [? H]. discriminate.
Qed.

Lemma inv_owner_bound cfg s b r :
  inv cfg s -> owns s b r = true ->
  exists S rev, m_session (get_mgr s b) = Some S /\ lease_live (s_etcd s) S = true /\
                bound_by (s_etcd s) (lease_key cfg r) b S rev.
Proof.
  intros (W & L & M & G) O. apply owns_true in O. destruct O as [rev O].
  destruct (lr_owned _ _ _ _ _ (L b r) rev O) as (S & Se & B).
  exists S, rev. repeat split; try assumption. apply (M b S Se).
Qed.

Lemma inv_single_owner cfg s b b' r :
  inv cfg s -> owns s b r = true -> owns s b' r = true -> b = b'.
Proof.
  intros I O O'. destruct (inv_owner_bound cfg s b r I O) as (S & rev & _ & _ & x & Gx & Vx & _).
  destruct (inv_owner_bound cfg s b' r I O') as (S' & rev' & _ & _ & x' & Gx' & Vx' & _).
  rewrite Gx in Gx'. inversion Gx'; subst x'. congruence.
Qed.

Theorem single_owner cfg evs b b' r :
  c_guard cfg = true ->
  owns (run cfg evs) b r = true -> owns (run cfg evs) b' r = true -> b = b'.
Proof. intros Gd. apply (inv_single_owner cfg). now apply inv_run. Qed.

Theorem owner_holds_key cfg evs b r :
  c_guard cfg = true -> owns (run cfg evs) b r = true ->
  exists S x, m_session (get_mgr (run cfg evs) b) = Some S /\ lease_live (s_etcd (run cfg evs)) S = true /\
              get (s_etcd (run cfg evs)) (lease_key cfg r) = Some x /\ kv_val x = b /\ kv_lease x = S.
Proof.
  intros Gd O. destruct (inv_owner_bound cfg _ b r (inv_run cfg evs Gd) O) as (S & rev & Se & Lv & x & Gx & Vx & Lx & _).
  exists S, x. tauto.
Qed.

(* the etcd request of a Release removes nothing but a binding written by the releasing
   broker that nobody (not even that broker, after a re-acquire) relies on any more *)
Lemma inv_release_safe cfg s b r :
  c_guard cfg = true -> inv cfg s ->
  let s' := fst (step cfg s (RelDelete b r)) in
  (forall k x, get (s_etcd s) k = Some x -> kv_val x <> b -> get (s_etcd s') k = Some x) /\
  (forall b' r', owns s b' r' = true ->
                 get (s_etcd s') (lease_key cfg r') = get (s_etcd s) (lease_key cfg r') /\ owns s' b' r' = true).
Proof.
  intros Gd I. pose proof I as (W & L & M & G). cbn zeta. cbn [step].
  destruct (alookup r (m_rel (get_mgr s b))) as [rv|] eqn:Rl; cbn [fst s_etcd]; [|split; intros; tauto].
  rewrite Gd, txn_release. apply alookup_In in Rl.
  assert (Ow : forall b' r' m', owns s b' r' = true ->
               m_owned m' = m_owned (get_mgr s b) ->
               owns (mkState (s_etcd s) (set_mgr s b m')) b' r' = true).
  { intros b' r' m' O E. unfold owns in *. destruct (bytes_eq_dec b' b) as [->|N].
    - rewrite get_mgr_set_same, E. exact O.
    - rewrite get_mgr_set_other by assumption. exact O. }
  destruct (get (s_etcd s) (lease_key cfg r)) as [x0|] eqn:Gk.
  2: { split; intros; [assumption|]. split; [reflexivity|]. unfold owns in *.
       destruct (bytes_eq_dec b' b) as [->|N]; [rewrite get_mgr_set_same|rewrite get_mgr_set_other by assumption]; assumption. }
  destruct (kv_mod x0 =? rv) eqn:Em.
  2: { split; intros; [assumption|]. split; [reflexivity|]. unfold owns in *.
       destruct (bytes_eq_dec b' b) as [->|N]; [rewrite get_mgr_set_same|rewrite get_mgr_set_other by assumption]; assumption. }
  assert (kv_mod x0 = rv) as Emod by lia. clear Em.
  assert (Vx : kv_val x0 = b) by (apply (lr_rel_val _ _ _ _ _ (L b r) rv x0 Rl Gk Emod)).
  split.
  - intros k x A Nv. destruct (bytes_eq_dec (lease_key cfg r) k) as [<-|N].
    + rewrite Gk in A. inversion A; subst x. contradiction.
    + now rewrite get_edel_other.
  - intros b' r' O. split.
    + destruct (bytes_eq_dec (lease_key cfg r) (lease_key cfg r')) as [E|N]; [|now rewrite get_edel_other].
      exfalso. apply lease_key_inj in E. subst r'.
      apply owns_true in O. destruct O as [rev' O].
      destruct (lr_owned _ _ _ _ _ (L b' r) rev' O) as (S & _ & y & Gy & Vy & _ & My).
      rewrite Gk in Gy. inversion Gy; subst y.
      assert (Eb : b' = b) by congruence. rewrite Eb in O.
      apply (lr_rel_owned _ _ _ _ _ (L b r) rv rev' Rl O). congruence.
    + unfold owns in *. destruct (bytes_eq_dec b' b) as [->|N];
        [rewrite get_mgr_set_same|rewrite get_mgr_set_other by assumption]; assumption.
Qed.

Theorem release_safe cfg evs b r :
  c_guard cfg = true ->
  let s := run cfg evs in
  let s' := fst (step cfg s (RelDelete b r)) in
  (forall k x, get (s_etcd s) k = Some x -> kv_val x <> b -> get (s_etcd s') k = Some x) /\
  (forall b' r', owns s b' r' = true ->
                 get (s_etcd s') (lease_key cfg r') = get (s_etcd s) (lease_key cfg r') /\ owns s' b' r' = true).
Proof. intros Gd. apply inv_release_safe; [assumption|now apply inv_run]. Qed.

(* ------------------------------------------------------------------ C19 *)

(* the four steps of an Acquire call by broker b0 *)
Definition acq_event (b0 : bytes) (ev : event) : Prop :=
  exists r, ev = AcqBegin b0 r \/ ev = AcqTxn b0 r \/ ev = ReacqTxn b0 r \/ ev = AcqCommitLocal b0 r.

Definition owned_mono (s s' : state) : Prop :=
  forall b r, owns s b r = true -> owns s' b r = true.

Lemma owned_mono_refl s : owned_mono s s.
Proof. intros b r H. exact H. Qed.

Lemma owned_mono_trans s1 s2 s3 : owned_mono s1 s2 -> owned_mono s2 s3 -> owned_mono s1 s3.
Proof. intros A B b r H. apply B, A, H. Qed.

Lemma owned_mono_set s e' b0 m' :
  (forall r, alookup r (m_owned (get_mgr s b0)) <> None -> alookup r (m_owned m') <> None) ->
  owned_mono s (mkState e' (set_mgr s b0 m')).
Proof.
  intros H b r O. unfold owns in *. destruct (bytes_eq_dec b b0) as [->|N].
  - rewrite get_mgr_set_same. specialize (H r).
    destruct (alookup r (m_owned (get_mgr s b0))); [|discriminate].
    destruct (alookup r (m_owned m')); [reflexivity|]. exfalso. apply H; congruence.
  - rewrite get_mgr_set_other by assumption. exact O.
Qed.

Ltac om_same := apply owned_mono_set; mgr_cbn; tauto.

Lemma acq_step_owned_mono cfg s b0 ev :
  acq_event b0 ev -> owned_mono s (fst (step cfg s ev)).
Proof.
  intros [r [-> | [-> | [-> | ->]]]]; cbn [step].
  - destruct (m_closed _); [apply owned_mono_refl|].
    destruct (alookup r (m_owned _)); [apply owned_mono_refl|].
    destruct (alookup r (m_flights _)); [apply owned_mono_refl|].
    destruct (m_session _); cbn [fst]; [om_same|]. destruct (grant _). cbn [fst]. om_same.
  - destruct (alookup r (m_flights _)) as [[l|l|l rv]|]; try apply owned_mono_refl.
    destruct (txn _ _ _ _) as [e' res]. destruct (t_err res); cbn [fst]; [om_same|].
    destruct (t_succ res); cbn [fst]; [om_same|].
    destruct (t_gets res) as [|[x|] ?]; cbn [fst]; try om_same.
    destruct (bytes_eqb _ _); cbn [fst]; om_same.
  - destruct (alookup r (m_flights _)) as [[l|l|l rv]|]; try apply owned_mono_refl.
    destruct (txn _ _ _ _) as [e' res]. destruct (t_err res); cbn [fst]; [om_same|].
    destruct (t_succ res); cbn [fst]; om_same.
  - destruct (alookup r (m_flights _)) as [[l|l|l rv]|]; try apply owned_mono_refl.
    destruct (session_is _ _); cbn [fst]; [|om_same].
    apply owned_mono_set. mgr_cbn. intros r' H. destruct (bytes_eq_dec r r') as [<-|N].
    + rewrite alookup_aset_same. discriminate.
    + now rewrite alookup_aset_other.
Qed.

(* which step of an Acquire call can report success, and what holds then *)
Lemma begin_ok cfg s b r :
  snd (step cfg s (AcqBegin b r)) = Some AOk -> owns (fst (step cfg s (AcqBegin b r))) b r = true.
Proof.
  cbn [step]. destruct (m_closed _); [discriminate|]. unfold owns.
  destruct (alookup r (m_owned (get_mgr s b))) eqn:O; cbn [fst snd]; [now rewrite O|].
  destruct (alookup r (m_flights _)); [discriminate|].
  destruct (m_session _); [discriminate|]. destruct (grant _). discriminate.
Qed.

Lemma txn_not_ok cfg s b r : snd (step cfg s (AcqTxn b r)) <> Some AOk.
Proof.
  cbn [step]. destruct (alookup r (m_flights _)) as [[l|l|l rv]|]; try discriminate.
  destruct (txn _ _ _ _) as [e' res]. destruct (t_err res); [discriminate|].
  destruct (t_succ res); [discriminate|].
  destruct (t_gets res) as [|[x|] ?]; try discriminate. destruct (bytes_eqb _ _); discriminate.
Qed.

Lemma reacq_not_ok cfg s b r : snd (step cfg s (ReacqTxn b r)) <> Some AOk.
Proof.
  cbn [step]. destruct (alookup r (m_flights _)) as [[l|l|l rv]|]; try discriminate.
  destruct (txn _ _ _ _) as [e' res]. destruct (t_err res); [discriminate|].
  destruct (t_succ res); discriminate.
Qed.

Lemma commit_ok cfg s b r :
  snd (step cfg s (AcqCommitLocal b r)) = Some AOk ->
  owns (fst (step cfg s (AcqCommitLocal b r))) b r = true.
Proof.
  cbn [step]. destruct (alookup r (m_flights _)) as [[l|l|l rv]|]; try discriminate.
  destruct (session_is _ _); [|discriminate]. intros _. cbn [fst]. unfold owns.
  rewrite get_mgr_set_same. mgr_cbn. now rewrite alookup_aset_same.
Qed.

(* [acquire] is a composition of acquire steps *)
Lemma acquire_spec cfg s b r :
  let '(s', a) := acquire cfg s b r in
  (c_guard cfg = true -> inv cfg s -> inv cfg s') /\ owned_mono s s' /\ (a = AOk -> owns s' b r = true).
Proof.
  unfold acquire.
  pose proof (inv_acqbegin cfg s b r) as I1. pose proof (begin_ok cfg s b r) as K1.
  pose proof (acq_step_owned_mono cfg s b (AcqBegin b r)) as M1.
  destruct (step cfg s (AcqBegin b r)) as [s1 r1]. cbn [fst snd] in *.
  assert (Mo1 : owned_mono s s1) by (apply M1; exists r; tauto).
  destruct r1 as [a|].
  { split; [tauto|]. split; [assumption|]. intros ->. now apply K1. }
  pose proof (inv_acqtxn cfg s1 b r) as J2. pose proof (txn_not_ok cfg s1 b r) as K2.
  pose proof (acq_step_owned_mono cfg s1 b (AcqTxn b r)) as M2.
  destruct (step cfg s1 (AcqTxn b r)) as [s2 r2]. cbn [fst snd] in *.
  assert (Mo2 : owned_mono s s2) by (eapply owned_mono_trans; [exact Mo1|apply M2; exists r; tauto]).
  assert (I2 : c_guard cfg = true -> inv cfg s -> inv cfg s2) by tauto.
  destruct r2 as [a|].
  { split; [assumption|]. split; [assumption|]. intros ->. contradiction. }
  pose proof (inv_reacqtxn cfg s2 b r) as J3. pose proof (reacq_not_ok cfg s2 b r) as K3.
  pose proof (acq_step_owned_mono cfg s2 b (ReacqTxn b r)) as M3.
  destruct (step cfg s2 (ReacqTxn b r)) as [s3 r3]. cbn [fst snd] in *.
  assert (Mo3 : owned_mono s s3) by (eapply owned_mono_trans; [exact Mo2|apply M3; exists r; tauto]).
  assert (I3 : c_guard cfg = true -> inv cfg s -> inv cfg s3) by tauto.
  destruct r3 as [a|].
  { split; [assumption|]. split; [assumption|]. intros ->. contradiction. }
  pose proof (inv_commit cfg s3 b r) as J4. pose proof (commit_ok cfg s3 b r) as K4.
  pose proof (acq_step_owned_mono cfg s3 b (AcqCommitLocal b r)) as M4.
  destruct (step cfg s3 (AcqCommitLocal b r)) as [s4 r4]. cbn [fst snd] in *.
  assert (Mo4 : owned_mono s s4) by (eapply owned_mono_trans; [exact Mo3|apply M4; exists r; tauto]).
  assert (I4 : c_guard cfg = true -> inv cfg s -> inv cfg s4) by tauto.
  destruct r4 as [a|].
  - split; [assumption|]. split; [assumption|]. intros ->. now apply K4.
  - split; [assumption|]. split; [assumption|]. discriminate.
Qed.

Lemma acquire_all_spec cfg b rs : forall s,
  let '(s', res) := acquire_all cfg s b rs in
  (c_guard cfg = true -> inv cfg s -> inv cfg s') /\ owned_mono s s' /\
  length res = length rs /\
  (forall r a, In (r, a) (combine rs res) -> a = AOk -> owns s' b r = true).
Proof.
  induction rs as [|r rs IH]; intros s; cbn [acquire_all].
  - split; [tauto|]. split; [apply owned_mono_refl|]. split; [reflexivity|]. intros r a [].
  - assert (H1 : let '(s1, a) := (if owns s b r then (s, AOk) else acquire cfg s b r) in
                 (c_guard cfg = true -> inv cfg s -> inv cfg s1) /\ owned_mono s s1 /\ (a = AOk -> owns s1 b r = true)).
    { destruct (owns s b r) eqn:O; [|apply acquire_spec].
      split; [tauto|]. split; [apply owned_mono_refl|]. intros _. exact O. }
    destruct (if owns s b r then (s, AOk) else acquire cfg s b r) as [s1 a].
    destruct H1 as (I1 & M1 & K1).
    specialize (IH s1). destruct (acquire_all cfg s1 b rs) as [s2 l].
    destruct IH as (I2 & M2 & Ln & K2).
    split; [intros Gd I; apply I2; [assumption|now apply I1]|].
    split; [eapply owned_mono_trans; eassumption|].
    split; [cbn; now rewrite Ln|].
    intros r' a' H E. cbn [combine] in H. destruct H as [H|H].
    + inversion H; subst r' a'. apply M2. now apply K1.
    + now apply (K2 r' a').
Qed.

(* a partition without an entry in the error map got AOk from every Acquire for it *)
Lemma lease_errors_none r : forall rs res acc,
  alookup r (lease_errors rs res acc) = None ->
  alookup r acc = None /\ (forall a, In (r, a) (combine rs res) -> a = AOk).
Proof.
  induction rs as [|r1 rs IH]; intros res acc H; cbn [lease_errors] in H.
  - split; [assumption|]. intros a [].
  - destruct res as [|a1 res]; [split; [assumption|intros a []]|].
    apply IH in H. destruct H as [Hacc Hall].
    assert (alookup r acc = None /\ (r1 = r -> a1 = AOk)) as [Ha Hr].
    { destruct a1; try (split; [assumption|reflexivity]).
      all: destruct (bytes_eq_dec r1 r) as [<-|N];
        [rewrite alookup_aset_same in Hacc; discriminate
        |rewrite alookup_aset_other in Hacc by assumption; split; [assumption|congruence]]. }
    split; [assumption|]. intros a [Hin|Hin]; [inversion Hin; subst; now apply Hr|now apply Hall].
Qed.

Lemma In_combine_exists {A B} (l : list A) (l' : list B) x :
  length l' = length l -> In x l -> exists y, In (x, y) (combine l l').
Proof.
  revert l'. induction l as [|a l IH]; intros [|b l'] Ln H; cbn in *; try lia; try tauto.
  destruct H as [->|H]; [exists b; now left|].
  destruct (IH l' (ltac:(lia)) H) as [y Hy]. exists y. now right.
Qed.

Lemma part_outcome_entered env errs topic p :
  snd (part_outcome env errs topic p) = true ->
  alookup (partition_rid topic (p_part p)) errs = None /\ pe_etcd_avail env = true /\ pe_s3_healthy env = true.
Proof.
  unfold part_outcome. destruct (pe_etcd_avail env); cbn [negb]; [|discriminate].
  destruct (alookup _ errs) as [[| | |]|]; try discriminate.
  destruct (pe_s3_healthy env); cbn [negb]; [tauto|discriminate].
Qed.

(* every partition entry for which the storage path is entered is owned by the broker
   after the lease acquisition, in a state that satisfies the C18 invariant *)
Theorem produce_entered_owned cfg env evs b req :
  c_guard cfg = true -> pe_leasing env = true ->
  let s := run cfg evs in
  let s' := fst (produce cfg env s b req) in
  let outs := snd (produce cfg env s b req) in
  inv cfg s' /\
  (forall b' r, owns s b' r = true -> owns s' b' r = true) /\
  forall t p i j,
    nth_error req i = Some t -> nth_error (t_parts t) j = Some p ->
    forall out, nth_error outs i = Some out ->
    forall o, nth_error out j = Some o ->
    snd o = true ->
    t_allowed t = true /\
    owns s' b (partition_rid (t_topic t) (p_part p)) = true.
Proof.
  intros Gd Le. cbn zeta. unfold produce. rewrite Le.
  pose proof (acquire_all_spec cfg b (req_rids req) (run cfg evs)) as Sp.
  destruct (acquire_all cfg (run cfg evs) b (req_rids req)) as [s' res].
  destruct Sp as (I & Mo & Ln & K). cbn [fst snd].
  split; [apply I; [assumption|now apply inv_run]|]. split; [exact Mo|].
  intros t p i j Ht Hp out Hout o Ho Hent.
  rewrite nth_error_map, Ht in Hout. cbn in Hout. inversion Hout; subst out. clear Hout.
  unfold topic_outcome in Ho. destruct (t_allowed t) eqn:Al.
  2: { rewrite nth_error_map, Hp in Ho. cbn in Ho. inversion Ho; subst o. discriminate. }
  split; [reflexivity|].
  rewrite nth_error_map, Hp in Ho. cbn in Ho. inversion Ho; subst o. clear Ho.
  apply part_outcome_entered in Hent. destruct Hent as (Hn & _ & _).
  apply lease_errors_none in Hn. destruct Hn as [_ Hall].
  assert (Hin : In (partition_rid (t_topic t) (p_part p)) (req_rids req)).
  { unfold req_rids. apply in_flat_map. exists t. split; [eapply nth_error_In; eassumption|].
    apply in_map_iff. exists p. split; [reflexivity|eapply nth_error_In; eassumption]. }
  destruct (In_combine_exists _ res _ Ln Hin) as [a Ha].
  apply (K _ a Ha). now apply Hall.
Qed.

(* success code => the storage path was entered (so, by the theorem above, lease held) *)
Lemma part_outcome_success env errs topic p :
  pe_bp_code env <> 0 -> fst (part_outcome env errs topic p) = 0 ->
  snd (part_outcome env errs topic p) = true /\ p_down p = 0.
Proof.
  intros Bp. unfold part_outcome, REQUEST_TIMED_OUT, NOT_LEADER_OR_FOLLOWER.
  destruct (pe_etcd_avail env); cbn [negb fst snd]; [|discriminate].
  destruct (alookup _ errs) as [[| | |]|]; cbn [fst snd]; try discriminate.
  destruct (pe_s3_healthy env); cbn [negb fst snd]; [tauto|]. intros H. contradiction.
Qed.

(* every non-success lease case is answered NOT_LEADER_OR_FOLLOWER or REQUEST_TIMED_OUT
   and never reaches the storage path *)
Lemma part_outcome_lease_error env errs topic p a :
  pe_etcd_avail env = true ->
  alookup (partition_rid topic (p_part p)) errs = Some a ->
  part_outcome env errs topic p =
    (match a with ANotOwner | AShutdown => NOT_LEADER_OR_FOLLOWER | _ => REQUEST_TIMED_OUT end, false).
Proof.
  intros Av H. unfold part_outcome. rewrite Av, H. cbn [negb]. destruct a; reflexivity.
Qed.

Lemma rid_in_req req i j t p :
  nth_error req i = Some t -> nth_error (t_parts t) j = Some p ->
  In (partition_rid (t_topic t) (p_part p)) (req_rids req).
Proof.
  intros Ht Hp. unfold req_rids. apply in_flat_map. exists t. split; [eapply nth_error_In; eassumption|].
  apply in_map_iff. exists p. split; [reflexivity|eapply nth_error_In; eassumption].
Qed.

(* core of the produce-path theorems *)
Lemma produce_core cfg env evs b req :
  c_guard cfg = true -> pe_leasing env = true ->
  let s := run cfg evs in
  let s' := fst (produce cfg env s b req) in
  inv cfg s' /\ owned_mono s s' /\
  exists errs,
    (forall t p i j out o,
       nth_error req i = Some t -> nth_error (t_parts t) j = Some p ->
       nth_error (snd (produce cfg env s b req)) i = Some out -> nth_error out j = Some o ->
       if t_allowed t then o = part_outcome env errs (t_topic t) p
       else o = (TOPIC_AUTHORIZATION_FAILED, false)) /\
    (forall rid, In rid (req_rids req) -> alookup rid errs = None -> owns s' b rid = true).
Proof.
  intros Gd Le. cbn zeta. unfold produce. rewrite Le.
  pose proof (acquire_all_spec cfg b (req_rids req) (run cfg evs)) as Sp.
  destruct (acquire_all cfg (run cfg evs) b (req_rids req)) as [s' res].
  destruct Sp as (I & Mo & Ln & K). cbn [fst snd].
  split; [apply I; [assumption|now apply inv_run]|]. split; [exact Mo|].
  exists (lease_errors (req_rids req) res []). split.
  - intros t p i j out o Ht Hp Hout Ho.
    rewrite nth_error_map, Ht in Hout. cbn in Hout. inversion Hout; subst out. clear Hout.
    unfold topic_outcome in Ho.
    destruct (t_allowed t); rewrite nth_error_map, Hp in Ho; cbn in Ho; now inversion Ho.
  - intros rid Hin Hn. apply lease_errors_none in Hn. destruct Hn as [_ Hall].
    destruct (In_combine_exists _ res _ Ln Hin) as [a Ha].
    apply (K _ a Ha). now apply Hall.
Qed.

Theorem produce_safe cfg env evs b req :
  c_guard cfg = true -> pe_leasing env = true ->
  let s := run cfg evs in
  let s' := fst (produce cfg env s b req) in
  forall t p i j out o,
    nth_error req i = Some t -> nth_error (t_parts t) j = Some p ->
    nth_error (snd (produce cfg env s b req)) i = Some out -> nth_error out j = Some o ->
    let rid := partition_rid (t_topic t) (p_part p) in
    (snd o = true ->
       owns s' b rid = true /\ key_owner cfg s' rid = Some b /\
       (forall b', owns s' b' rid = true -> b' = b)) /\
    (pe_bp_code env <> 0 -> fst o = 0 -> snd o = true /\ p_down p = 0) /\
    (forall b', b' <> b -> owns s b' rid = true ->
       snd o = false /\
       (t_allowed t = true -> pe_etcd_avail env = true ->
        fst o = NOT_LEADER_OR_FOLLOWER \/ fst o = REQUEST_TIMED_OUT)).
Proof.
  intros Gd Le. cbn zeta. intros t p i j out o Ht Hp Hout Ho.
  destruct (produce_core cfg env evs b req Gd Le) as (I' & Mo & errs & Sh & Own). cbn zeta in *.
  specialize (Sh t p i j out o Ht Hp Hout Ho).
  pose proof (rid_in_req req i j t p Ht Hp) as Hin.
  set (s' := fst (produce cfg env (run cfg evs) b req)) in *.
  set (rid := partition_rid (t_topic t) (p_part p)) in *.
  assert (Excl : owns s' b rid = true ->
     owns s' b rid = true /\ key_owner cfg s' rid = Some b /\ (forall b', owns s' b' rid = true -> b' = b)).
  { intros O. split; [assumption|]. split.
    - destruct (inv_owner_bound cfg _ b _ I' O) as (S & rev & _ & _ & x & Gx & Vx & _).
      unfold key_owner. rewrite Gx. cbn. now rewrite Vx.
    - intros b' O'. apply (inv_single_owner cfg _ b' b _ I' O' O). }
  destruct (t_allowed t) eqn:Al.
  2: { subst o. cbn [fst snd]. unfold TOPIC_AUTHORIZATION_FAILED.
       split; [discriminate|]. split; [discriminate|]. intros b' _ _. split; [reflexivity|discriminate]. }
  subst o. split; [|split].
  - intros E. apply part_outcome_entered in E. apply Excl. apply Own; tauto.
  - intros Bp. now apply part_outcome_success.
  - intros b' Nb O'. apply Mo in O'. fold s' in O'.
    assert (Nown : owns s' b rid = true -> False).
    { intros O. destruct (Excl O) as (_ & _ & U). apply Nb. now apply U. }
    unfold part_outcome. fold rid.
    destruct (alookup rid errs) as [a|] eqn:Ea.
    2: { exfalso. apply Nown. now apply Own. }
    destruct (pe_etcd_avail env); cbn [negb fst snd].
    + destruct a; cbn [fst snd]; (split; [reflexivity|]); intros _ _;
        unfold NOT_LEADER_OR_FOLLOWER, REQUEST_TIMED_OUT; tauto.
    + split; [reflexivity|]. intros _ D. discriminate.
Qed.

(* ------------------------------------------------------------------ C19 (c), exact code *)

Definition no_flight (s : state) (b r : bytes) : Prop := alookup r (m_flights (get_mgr s b)) = None.

Ltac nf_set r rid N :=
  unfold no_flight; rewrite get_mgr_set_same; mgr_cbn;
  rewrite ?(alookup_aset_other r rid) by exact N; rewrite ?(alookup_aremove_other r rid) by exact N.

(* the steps of an Acquire for r leave the flights of other resources alone *)
Lemma acq_step_flights_other cfg s b r rid ev :
  r <> rid ->
  (ev = AcqBegin b r \/ ev = AcqTxn b r \/ ev = ReacqTxn b r \/ ev = AcqCommitLocal b r) ->
  no_flight s b rid -> no_flight (fst (step cfg s ev)) b rid.
Proof.
  intros N [-> | [-> | [-> | ->]]] H; cbn [step].
  - destruct (m_closed _); [exact H|]. destruct (alookup r (m_owned _)); [exact H|].
    destruct (alookup r (m_flights _)); [exact H|].
    destruct (m_session _); cbn [fst]; [nf_set r rid N; exact H|].
    destruct (grant _). cbn [fst]. nf_set r rid N. exact H.
  - destruct (alookup r (m_flights _)) as [[l|l|l rv]|]; try exact H.
    destruct (txn _ _ _ _) as [e' res]. destruct (t_err res); cbn [fst]; [nf_set r rid N; exact H|].
    destruct (t_succ res); cbn [fst]; [nf_set r rid N; exact H|].
    destruct (t_gets res) as [|[x|] ?]; cbn [fst]; try (nf_set r rid N; exact H).
    destruct (bytes_eqb _ _); cbn [fst]; nf_set r rid N; exact H.
  - destruct (alookup r (m_flights _)) as [[l|l|l rv]|]; try exact H.
    destruct (txn _ _ _ _) as [e' res]. destruct (t_err res); cbn [fst]; [nf_set r rid N; exact H|].
    destruct (t_succ res); cbn [fst]; nf_set r rid N; exact H.
  - destruct (alookup r (m_flights _)) as [[l|l|l rv]|]; try exact H.
    destruct (session_is _ _); cbn [fst]; nf_set r rid N; exact H.
Qed.

Lemma acquire_flights_other cfg s b r rid :
  r <> rid -> no_flight s b rid -> no_flight (fst (acquire cfg s b r)) b rid.
Proof.
  intros N H. unfold acquire.
  pose proof (acq_step_flights_other cfg s b r rid (AcqBegin b r) N ltac:(tauto) H) as H1.
  destruct (step cfg s (AcqBegin b r)) as [s1 [a|]]; cbn [fst] in *; [exact H1|].
  pose proof (acq_step_flights_other cfg s1 b r rid (AcqTxn b r) N ltac:(tauto) H1) as H2.
  destruct (step cfg s1 (AcqTxn b r)) as [s2 [a|]]; cbn [fst] in *; [exact H2|].
  pose proof (acq_step_flights_other cfg s2 b r rid (ReacqTxn b r) N ltac:(tauto) H2) as H3.
  destruct (step cfg s2 (ReacqTxn b r)) as [s3 [a|]]; cbn [fst] in *; [exact H3|].
  pose proof (acq_step_flights_other cfg s3 b r rid (AcqCommitLocal b r) N ltac:(tauto) H3) as H4.
  destruct (step cfg s3 (AcqCommitLocal b r)) as [s4 [a|]]; cbn [fst] in *; exact H4.
Qed.

(* Acquire of a resource that another broker owns, with no Acquire for it in flight *)
Lemma acquire_foreign cfg s b b' r :
  inv cfg s -> b' <> b -> owns s b' r = true -> no_flight s b r ->
  (snd (acquire cfg s b r) = ANotOwner \/ snd (acquire cfg s b r) = AShutdown) /\
  no_flight (fst (acquire cfg s b r)) b r.
Proof.
  intros I Nb O Nf. pose proof I as (W & L & M & G).
  destruct (inv_owner_bound cfg s b' r I O) as (S' & rev' & _ & _ & x & Gx & Vx & _).
  assert (Nown : alookup r (m_owned (get_mgr s b)) = None).
  { destruct (alookup r (m_owned (get_mgr s b))) as [rv|] eqn:A; [|reflexivity].
    exfalso. apply Nb. apply (inv_single_owner cfg s b' b r I O). unfold owns. now rewrite A. }
  assert (Cr : 0 < kv_create x).
  { apply get_In in Gx. destruct W as (_ & _ & _ & W3). apply (W3 _ _ (proj1 Gx)). }
  assert (Vb : bytes_eqb (kv_val x) b = false) by (apply bytes_eqb_neq; congruence).
  unfold acquire. cbn [step]. unfold no_flight in Nf.
  destruct (m_closed (get_mgr s b)) eqn:Cl; [cbn [fst snd]; tauto|].
  rewrite Nown, Nf.
  destruct (m_session (get_mgr s b)) as [l|] eqn:Se.
  - rewrite get_mgr_set_same. mgr_cbn. rewrite alookup_aset_same. cbn [s_etcd].
    rewrite txn_acquire by (intros y A; rewrite Gx in A; inversion A; subst y; exact Cr).
    rewrite Gx. cbn [t_err t_succ t_gets]. rewrite Vb. cbn [fst snd]. split; [tauto|].
    unfold no_flight. rewrite get_mgr_set_same. mgr_cbn. apply alookup_aremove_same.
  - destruct (grant (s_etcd s)) as [e' l] eqn:Gr.
    assert (Ge : get e' (lease_key cfg r) = Some x).
    { replace e' with (fst (grant (s_etcd s))) by now rewrite Gr. rewrite grant_get by assumption. exact Gx. }
    rewrite get_mgr_set_same. mgr_cbn. rewrite alookup_aset_same. cbn [s_etcd].
    rewrite txn_acquire by (intros y A; rewrite Ge in A; inversion A; subst y; exact Cr).
    rewrite Ge. cbn [t_err t_succ t_gets]. rewrite Vb. cbn [fst snd]. split; [tauto|].
    unfold no_flight. rewrite get_mgr_set_same. mgr_cbn. apply alookup_aremove_same.
Qed.

Lemma acquire_all_foreign cfg b b' rid rs : forall s,
  c_guard cfg = true -> inv cfg s -> b' <> b -> owns s b' rid = true -> no_flight s b rid ->
  forall a, In (rid, a) (combine rs (snd (acquire_all cfg s b rs))) -> a = ANotOwner \/ a = AShutdown.
Proof.
  induction rs as [|r rs IH]; intros s Gd I Nb O Nf a; cbn [acquire_all]; [intros []|].
  assert (Nown : owns s b rid = false).
  { destruct (owns s b rid) eqn:A; [|reflexivity]. exfalso. apply Nb. apply (inv_single_owner cfg s b' b rid I O A). }
  destruct (bytes_eq_dec r rid) as [->|N].
  - rewrite Nown.
    pose proof (acquire_spec cfg s b rid) as Sp.
    destruct (acquire_foreign cfg s b b' rid I Nb O Nf) as [Res Nf1].
    destruct (acquire cfg s b rid) as [s1 a1]. cbn [fst snd] in *. destruct Sp as (I1 & M1 & _).
    specialize (IH s1 Gd (I1 Gd I) Nb (M1 _ _ O) Nf1).
    destruct (acquire_all cfg s1 b rs) as [s2 l]. cbn [snd combine] in *.
    intros [H|H]; [inversion H; subst; exact Res|now apply IH].
  - assert (St : let '(s1, _) := (if owns s b r then (s, AOk) else acquire cfg s b r) in
                  inv cfg s1 /\ owns s1 b' rid = true /\ no_flight s1 b rid).
    { destruct (owns s b r); [tauto|].
      pose proof (acquire_spec cfg s b r) as Sp. pose proof (acquire_flights_other cfg s b r rid N Nf) as Nf1.
      destruct (acquire cfg s b r) as [s1 a1]. cbn [fst] in *. destruct Sp as (I1 & M1 & _).
      split; [now apply I1|]. split; [now apply M1|exact Nf1]. }
    destruct (if owns s b r then (s, AOk) else acquire cfg s b r) as [s1 a1].
    destruct St as (I1 & O1 & Nf1). specialize (IH s1 Gd I1 Nb O1 Nf1).
    destruct (acquire_all cfg s1 b rs) as [s2 l]. cbn [snd combine] in *.
    intros [H|H]; [inversion H; congruence|now apply IH].
Qed.

Lemma lease_errors_some r : forall rs res acc a,
  alookup r (lease_errors rs res acc) = Some a ->
  alookup r acc = Some a \/ In (r, a) (combine rs res).
Proof.
  induction rs as [|r1 rs IH]; intros res acc a H; cbn [lease_errors] in H; [now left|].
  destruct res as [|a1 res]; [now left|].
  apply IH in H. destruct H as [H|H]; [|right; now right].
  destruct a1; try (now left).
  all: destruct (bytes_eq_dec r1 r) as [<-|N];
    [rewrite alookup_aset_same in H; inversion H; subst; right; now left
    |rewrite alookup_aset_other in H by assumption; now left].
Qed.

(* a partition that another broker owns, with no Acquire for it in flight on this broker, is
   answered exactly NOT_LEADER_OR_FOLLOWER *)
Theorem produce_foreign_exact cfg env evs b b' req :
  c_guard cfg = true -> pe_leasing env = true -> pe_etcd_avail env = true ->
  let s := run cfg evs in
  forall t p i j out o,
    nth_error req i = Some t -> nth_error (t_parts t) j = Some p ->
    nth_error (snd (produce cfg env s b req)) i = Some out -> nth_error out j = Some o ->
    let rid := partition_rid (t_topic t) (p_part p) in
    t_allowed t = true -> b' <> b -> owns s b' rid = true -> no_flight s b rid ->
    o = (NOT_LEADER_OR_FOLLOWER, false).
Proof.
  intros Gd Le Av. cbn zeta. intros t p i j out o Ht Hp Hout Ho Al Nb O Nf.
  pose proof (rid_in_req req i j t p Ht Hp) as Hin.
  pose proof (acquire_all_foreign cfg b b' _ (req_rids req) (run cfg evs) Gd (inv_run cfg evs Gd) Nb O Nf) as Fo.
  pose proof (acquire_all_spec cfg b (req_rids req) (run cfg evs)) as Sp.
  unfold produce in Hout. rewrite Le in Hout.
  destruct (acquire_all cfg (run cfg evs) b (req_rids req)) as [s' res]. cbn [fst snd] in *.
  destruct Sp as (I' & Mo & Ln & K).
  rewrite nth_error_map, Ht in Hout. cbn in Hout. inversion Hout; subst out. clear Hout.
  unfold topic_outcome in Ho. rewrite Al, nth_error_map, Hp in Ho. cbn in Ho. inversion Ho; subst o. clear Ho.
  unfold part_outcome. rewrite Av. cbn [negb].
  destruct (alookup (partition_rid (t_topic t) (p_part p)) (lease_errors (req_rids req) res [])) as [a|] eqn:Ea.
  - apply lease_errors_some in Ea. destruct Ea as [Ea|Ea]; [discriminate|].
    destruct (Fo a Ea) as [-> | ->]; reflexivity.
  - exfalso. apply lease_errors_none in Ea. destruct Ea as [_ Hall].
    destruct (In_combine_exists _ res _ Ln Hin) as [a Ha].
    pose proof (K _ a Ha (Hall a Ha)) as Ob. apply Nb.
    apply (inv_single_owner cfg s' b' b _ (I' Gd (inv_run cfg evs Gd)) (Mo _ _ O) Ob).
Qed.
