(* Proofs about the SQL proxy model (model/SqlProxy.v): every forwarded text reads
   only allowed topics upstream, for all message sequences, ACLs, cache sizes and
   expiry patterns; equal cache keys mean equal parser tokens. The interplay laws
   of the Go string functions as modelled (Fields / TrimSpace / TrimSuffix / Join /
   ASCII lower-casing) that are not proved here are hypotheses of the section and
   reappear as premises of the exported theorems. *)
From Coq Require Import ZifyBool.
From KS Require Import lib.Base model.SqlParse model.SqlProxy.
Open Scope Z_scope.

(* ------------------------------------------------------------------ drop_semi and lower-casing *)
Lemma lower_byte_semi b : (lower_byte b =? 59) = (b =? 59).
Proof. unfold lower_byte. destruct ((65 <=? b) && (b <=? 90)) eqn:E; lia. Qed.

Lemma strip_semi_cons2 b c r :
  strip_semi (b :: c :: r) = match strip_semi (c :: r) with Some r' => Some (b :: r') | None => None end.
Proof. reflexivity. Qed.

Lemma strip_semi_lower l : strip_semi (ascii_lower l) = option_map ascii_lower (strip_semi l).
Proof.
  induction l as [|b r IH]; [reflexivity|].
  destruct r as [|c r'].
  - cbn. rewrite lower_byte_semi. destruct (b =? 59); reflexivity.
  - change (ascii_lower (b :: c :: r')) with (lower_byte b :: lower_byte c :: ascii_lower r').
    change (ascii_lower (c :: r')) with (lower_byte c :: ascii_lower r') in IH.
    rewrite !strip_semi_cons2. rewrite IH.
    destruct (strip_semi (c :: r')); reflexivity.
Qed.

Lemma drop_semi_lower fs : drop_semi (map ascii_lower fs) = map ascii_lower (drop_semi fs).
Proof.
  induction fs as [|f fs IH]; [reflexivity|].
  destruct fs as [|g fs'].
  - cbn [map drop_semi]. rewrite strip_semi_lower.
    destruct (strip_semi f) as [[|x l]|]; reflexivity.
  - change (map ascii_lower (f :: g :: fs')) with (ascii_lower f :: map ascii_lower (g :: fs')).
    change (map ascii_lower (g :: fs')) with (ascii_lower g :: map ascii_lower fs') in *.
    cbn [drop_semi] in *. rewrite IH. reflexivity.
Qed.

(* ------------------------------------------------------------------ session commands read nothing *)
Definition kw_set : bytes := [115;101;116].
Definition kw_reset : bytes := [114;101;115;101;116].

Lemma token_topics_session fs :
  match fs with [] => True | f :: _ => f = kw_set \/ f = kw_reset end ->
  token_topics fs = no_topics.
Proof. destruct fs as [|f rest]; [reflexivity|]. intros [-> | ->]; reflexivity. Qed.

Section Laws.
Variable mp : list bytes -> bytes -> bool.
Variable parse_ok : bytes -> bool.

(* internal/proxy/acl.go matchPatterns: "if len(patterns) == 0 { return false }" *)
Hypothesis mp_nil : forall t, mp [] t = false.
(* Go string-function laws on the modelled functions *)
Hypothesis fields_strip : forall s, fields (trim_semi (trim_space s)) = drop_semi (fields s).
Hypothesis fields_lower : forall s, fields (ascii_lower s) = map ascii_lower (fields s).
Hypothesis fields_join : forall s, fields (join32 (fields s)) = fields s.
Hypothesis session_tokens : forall s, session s = true ->
  match tokens s with [] => True | f :: _ => f = kw_set \/ f = kw_reset end.

Notation allows := (allows mp).
Notation allow_show := (allow_show mp).
Notation authorize := (authorize mp parse_ok).
Notation upstream_ok := (upstream_ok mp parse_ok).
Notation step := (step mp parse_ok).
Notation run := (run mp parse_ok).

(* the parser's tokens are a function of the cache key *)
Lemma tokens_of_key m : tokens m = drop_semi (fields (cache_key m)).
Proof.
  unfold tokens, cache_key. rewrite !fields_lower, fields_strip, fields_join.
  symmetry. apply drop_semi_lower.
Qed.

Theorem cache_key_tokens m1 m2 : cache_key m1 = cache_key m2 -> tokens m1 = tokens m2.
Proof. intros H. rewrite !tokens_of_key, H. reflexivity. Qed.

Lemma first_denied_none a ts : first_denied mp a ts = None -> forall t, In t ts -> allows a t = true.
Proof.
  induction ts as [|x ts IH]; intros H t Hin; [destruct Hin|].
  cbn [first_denied] in H. destruct (allows a x) eqn:E; [|discriminate].
  destruct Hin as [->|Hin]; auto.
Qed.

Lemma acl_empty_allows a : acl_empty a = true ->
  (forall t, allows a t = true) /\ allow_show a = true.
Proof.
  unfold acl_empty, SqlProxy.allows, SqlProxy.allow_show. intros H.
  apply andb_true_iff in H as [Ha Hd].
  destruct (a_allow a); [|discriminate]. destruct (a_deny a); [|discriminate].
  split; [intros t; rewrite mp_nil|]; reflexivity.
Qed.

(* a text authorized on a miss: every text with the same cache key reads only
   allowed topics upstream (in particular the text itself) *)
Lemma authorize_sound a m0 : authorize a m0 = Allow ->
  forall m, cache_key m = cache_key m0 -> upstream_ok a m.
Proof.
  intros H m Hk. apply cache_key_tokens in Hk.
  unfold SqlProxy.upstream_ok, upstream_topics. rewrite Hk.
  unfold SqlProxy.authorize in H.
  destruct (acl_empty a) eqn:Ee.
  { apply acl_empty_allows in Ee as [Hall Hshow]. split; auto. }
  destruct (parse_ok m0) eqn:Ep.
  - destruct (token_topics (tokens m0)) as [ts show] eqn:Et.
    destruct (show && negb (allow_show a)) eqn:Es; [discriminate|].
    destruct (first_denied mp a ts) eqn:Ed; [discriminate|].
    destruct (parse_ok m); cbn [fst snd no_topics].
    + split; [now apply first_denied_none|]. intros ->. cbn in Es.
      now apply negb_false_iff in Es.
    + split; [intros t []|discriminate].
  - destruct (session m0) eqn:Ess; [|discriminate].
    rewrite (token_topics_session _ (session_tokens _ Ess)).
    destruct (parse_ok m); cbn; split; try discriminate; intros t [].
Qed.

(* ------------------------------------------------------------------ the decision cache *)
Definition cache_inv (a : acl) (c : cache) : Prop :=
  forall k v, In (k, v) (c_entries c) -> verdict_allowed v = true ->
  forall m, cache_key m = k -> upstream_ok a m.

Lemma c_find_in k l v : c_find k l = Some v -> In (k, v) l.
Proof.
  induction l as [|[k' v'] l IH]; cbn [c_find]; [discriminate|].
  destruct (bytes_eqb k k') eqn:E.
  - intros H; inversion H; subst. apply bytes_eqb_eq in E. subst. now left.
  - intros H. right. auto.
Qed.

Lemma c_remove_in k l x : In x (c_remove k l) -> In x l.
Proof.
  induction l as [|[k' v'] l IH]; cbn [c_remove]; [auto|].
  destruct (bytes_eqb k k'); [now right|]. intros [H|H]; [now left|right; auto].
Qed.

Lemma evict_in n : forall l x, In x (evict n l) -> In x l.
Proof.
  induction n as [|n IH]; intros l x H; [exact H|]. cbn [evict] in H.
  apply IH in H. destruct l; [exact H|now right].
Qed.

Lemma c_get_inv a c k e c' hit : cache_inv a c -> c_get c k e = (c', hit) ->
  cache_inv a c' /\ (forall v, hit = Some v -> In (k, v) (c_entries c)).
Proof.
  intros Hinv. unfold c_get. destruct (negb (c_on c)).
  { intros H; inversion H; subst. split; [exact Hinv|discriminate]. }
  destruct (c_find k (c_entries c)) as [v|] eqn:Ef.
  - destruct e; intros H; inversion H; subst.
    + split; [|discriminate]. intros k' v' Hin. cbn [c_entries] in Hin.
      apply c_remove_in in Hin. now apply Hinv.
    + split; [exact Hinv|]. intros v' Hv; inversion Hv; subst. now apply c_find_in.
  - intros H; inversion H; subst. split; [exact Hinv|discriminate].
Qed.

Lemma c_set_inv a c k v : cache_inv a c ->
  (verdict_allowed v = true -> forall m, cache_key m = k -> upstream_ok a m) ->
  cache_inv a (c_set c k v).
Proof.
  intros Hinv Hnew. unfold c_set. destruct (negb (c_on c)); [exact Hinv|].
  intros k' v' Hin. cbn [c_entries] in Hin. apply evict_in in Hin.
  apply in_app_iff in Hin as [Hin|[Hin|[]]].
  - apply c_remove_in in Hin. now apply Hinv.
  - inversion Hin; subst. exact Hnew.
Qed.

Lemma step_sound a c m e c' o : cache_inv a c -> step a c m e = (c', o) ->
  cache_inv a c' /\ (forall x, o = Forwarded x -> x = m /\ upstream_ok a m).
Proof.
  intros Hinv. unfold SqlProxy.step.
  destruct (c_get c (cache_key m) e) as [c1 hit] eqn:Eg.
  destruct (c_get_inv a c _ e c1 hit Hinv Eg) as [Hinv1 Hhit].
  destruct hit as [v|].
  - intros H; inversion H; subst. split; [exact Hinv1|].
    intros x Hx. destruct (verdict_allowed v) eqn:Ev; [|discriminate].
    inversion Hx; subst. split; [reflexivity|].
    apply (Hinv _ _ (Hhit v eq_refl) Ev). reflexivity.
  - intros H; inversion H; subst. split.
    + apply c_set_inv; [exact Hinv1|]. intros Ev m' Hk.
      destruct (authorize a m) eqn:Ea; try discriminate. now apply (authorize_sound a m).
    + intros x Hx. destruct (authorize a m) eqn:Ea; cbn in Hx; try discriminate.
      inversion Hx; subst. split; [reflexivity|]. now apply (authorize_sound a x).
Qed.

Lemma run_sound a : forall ms c, cache_inv a c ->
  forall x, In (Forwarded x) (run a c ms) -> upstream_ok a x.
Proof.
  induction ms as [|[m e] ms IH]; intros c Hinv x Hin; [destruct Hin|].
  cbn [SqlProxy.run] in Hin. destruct (step a c m e) as [c' o] eqn:Es.
  destruct (step_sound a c m e c' o Hinv Es) as [Hinv' Ho].
  destruct Hin as [Hin|Hin].
  - destruct (Ho x Hin) as [-> Hok]. exact Hok.
  - eapply IH; eauto.
Qed.

Theorem forward_sound a ttl maxn ms x :
  In (Forwarded x) (run a (new_cache ttl maxn) ms) -> upstream_ok a x.
Proof. apply run_sound. intros k v []. Qed.

(* on a miss the text given to authorizeQuery is the text forwarded, in full *)
Theorem miss_authorizes_forwarded_text a c m e c' x :
  step a c m e = (c', Forwarded x) -> x = m /\
  (snd (c_get c (cache_key m) e) = None -> authorize a m = Allow).
Proof.
  unfold SqlProxy.step. destruct (c_get c (cache_key m) e) as [c1 hit]. cbn [snd].
  destruct hit as [v|]; intros H; inversion H as [[Hc Ho]].
  - destruct (verdict_allowed v); inversion Ho. split; [reflexivity|discriminate].
  - destruct (authorize a m) eqn:Ea; cbn in Ho; inversion Ho. split; reflexivity.
Qed.
End Laws.
