(* Proofs about the console auth model (model/Console.v). *)
From KS Require Import lib.Base model.Console.
Open Scope Z_scope.

(* ---------- finite maps ---------- *)
Lemma mfind_mremove_same {V} k (m : list (bytes * V)) : mfind k (mremove k m) = None.
Proof.
  induction m as [|[k' v] m IH]; cbn; [reflexivity|].
  destruct (bytes_eqb k k') eqn:E; [exact IH|]. cbn. rewrite E. exact IH.
Qed.

Lemma mfind_mremove_other {V} k k' (m : list (bytes * V)) : k <> k' -> mfind k (mremove k' m) = mfind k m.
Proof.
  intros Hne. induction m as [|[k2 v] m IH]; cbn; [reflexivity|].
  destruct (bytes_eqb k' k2) eqn:E.
  - apply bytes_eqb_eq in E. subst k2.
    destruct (bytes_eqb k k') eqn:E2; [apply bytes_eqb_eq in E2; contradiction|]. exact IH.
  - cbn. destruct (bytes_eqb k k2); [reflexivity|exact IH].
Qed.

Lemma mfind_mput {V} k k' (v : V) m :
  mfind k (mput k' v m) = if bytes_eqb k k' then Some v else mfind k m.
Proof.
  unfold mput. cbn. destruct (bytes_eqb k k') eqn:E; [reflexivity|].
  apply mfind_mremove_other. now apply bytes_eqb_neq.
Qed.

Lemma mfind_mremove {V} k k' (m : list (bytes * V)) :
  mfind k (mremove k' m) = if bytes_eqb k k' then None else mfind k m.
Proof.
  destruct (bytes_eqb k k') eqn:E.
  - apply bytes_eqb_eq in E. subst. apply mfind_mremove_same.
  - apply mfind_mremove_other. now apply bytes_eqb_neq.
Qed.

(* ---------- clock monotonicity of traces ---------- *)
Fixpoint mono (tr : list entry) (bound : Z) : Prop :=
  match tr with
  | [] => True
  | en :: rest => snd en <= bound /\ mono rest (snd en)
  end.

Lemma mono_weaken tr : forall a b, mono tr a -> a <= b -> mono tr b.
Proof. destruct tr as [|en rest]; cbn; [auto|]. intros a b [H1 H2] H. split; [lia|exact H2]. Qed.

Lemma mono_in tr : forall b x, mono tr b -> In x tr -> snd x <= b.
Proof.
  induction tr as [|en rest IH]; intros b x Hm Hin; [contradiction|].
  destruct Hm as [H1 H2]. destruct Hin as [<-|Hin]; [exact H1|].
  specialize (IH _ _ H2 Hin). lia.
Qed.

Lemma step_now_mono c s e : s_now s <= s_now (fst (step c s e)).
Proof.
  destruct e as [ip k|post ck|ck|ck|d]; cbn [step].
  - destruct k; cbn; try lia;
      (destruct (cf_enabled c); cbn; [|lia]);
      unfold allow; destruct (limiter_on c); cbn; try lia;
      destruct (zlen _ >=? cf_limit c); cbn; lia.
  - destruct post; cbn; [|lia]. destruct (session_token ck); cbn; lia.
  - destruct (cf_enabled c); cbn; [|lia]. unfold has_valid.
    destruct (session_token ck); cbn; [|lia]. destruct (mfind _ _); cbn; [|lia].
    destruct (s_now s >? _); cbn; lia.
  - destruct (cf_enabled c); cbn; [|lia]. unfold has_valid.
    destruct (session_token ck); cbn; [|lia]. destruct (mfind _ _); cbn; [|lia].
    destruct (s_now s >? _); cbn; lia.
  - cbn. lia.
Qed.

(* ---------- sessions ---------- *)
Definition sess_inv (c : config) (s : state) (tr : list entry) : Prop :=
  forall tok,
    match mfind tok (s_sessions s) with
    | Some e => spec_expiry c tr tok = Some e
    | None => forall e, spec_expiry c tr tok = Some e -> e < s_now s
    end.

(* an entry that neither issues nor revokes anything leaves spec_expiry alone *)
Lemma spec_skip c en tr tok :
  issuesb en tok = false -> revokesb en tok = false -> spec_expiry c (en :: tr) tok = spec_expiry c tr tok.
Proof. intros H1 H2. cbn [spec_expiry]. now rewrite H1, H2. Qed.

Lemma has_valid_hits s ck : s_hits (fst (has_valid s ck)) = s_hits s /\ s_now (fst (has_valid s ck)) = s_now s.
Proof.
  unfold has_valid. destruct (session_token ck); cbn; [|auto]. destruct (mfind _ _); cbn; [|auto].
  destruct (s_now s >? _); cbn; auto.
Qed.

Lemma has_valid_inv c s tr ck en :
  sess_inv c s tr -> (forall tok, issuesb en tok = false) -> (forall tok, revokesb en tok = false) ->
  sess_inv c (fst (has_valid s ck)) (en :: tr).
Proof.
  intros Hinv Hi Hr tok. rewrite (spec_skip c en tr tok (Hi tok) (Hr tok)).
  specialize (Hinv tok) as Ht. unfold has_valid.
  destruct (session_token ck) as [tk|]; cbn [fst]; [|exact Ht].
  destruct (mfind tk (s_sessions s)) as [ex|] eqn:Ef; cbn [fst]; [|exact Ht].
  destruct (s_now s >? ex) eqn:Eg; cbn [fst]; [|exact Ht].
  cbn [s_sessions s_now]. rewrite mfind_mremove.
  destruct (bytes_eqb tok tk) eqn:E; [|exact Ht].
  apply bytes_eqb_eq in E. subst tk. rewrite Ef in Ht. intros e He. rewrite Ht in He. inversion He; subst. lia.
Qed.

Lemma allow_sessions c s ip : s_sessions (fst (allow c s ip)) = s_sessions s /\ s_now (fst (allow c s ip)) = s_now s.
Proof.
  unfold allow. destruct (limiter_on c); cbn; [|auto]. destruct (zlen _ >=? cf_limit c); cbn; auto.
Qed.

Lemma sess_inv_same_sessions c s s' tr en :
  sess_inv c s tr -> s_sessions s' = s_sessions s -> s_now s <= s_now s' ->
  (forall tok, issuesb en tok = false) -> (forall tok, revokesb en tok = false) ->
  sess_inv c s' (en :: tr).
Proof.
  intros Hinv Hs Hn Hi Hr tok. rewrite (spec_skip c en tr tok (Hi tok) (Hr tok)), Hs.
  specialize (Hinv tok). destruct (mfind tok (s_sessions s)); [exact Hinv|].
  intros e He. specialize (Hinv e He). lia.
Qed.

Lemma sess_inv_step c s tr e :
  sess_inv c s tr ->
  let '(s', a) := step c s e in sess_inv c s' ((e, a, s_now s') :: tr).
Proof.
  intros Hinv. destruct e as [ip k|post ck|ck|ck|d]; cbn [step].
  - (* login *)
    assert (Hgen : forall a s1, s_sessions s1 = s_sessions s -> s_now s1 = s_now s -> a <> A200 ->
                     sess_inv c s1 ((ELogin ip k, a, s_now s1) :: tr)).
    { intros a s1 H1 H2 Ha. apply (sess_inv_same_sessions c s s1 tr _ Hinv); [exact H1|lia| |].
      - intros tok. cbn. destruct k; try reflexivity. destruct a; try reflexivity. contradiction.
      - intros tok. reflexivity. }
    destruct k as [tok'| | |].
    + destruct (cf_enabled c); cbn [negb]; [|apply Hgen; auto; discriminate].
      destruct (allow c s ip) as [s1 ok] eqn:Ea.
      pose proof (allow_sessions c s ip) as [Hs1 Hn1]. rewrite Ea in Hs1, Hn1. cbn [fst] in Hs1, Hn1.
      destruct ok; cbn [negb]; [|apply Hgen; auto; discriminate].
      intros tok. cbn [s_sessions s_now]. rewrite mfind_mput. cbn [spec_expiry issuesb revokesb snd].
      destruct (bytes_eqb tok tok') eqn:E; [reflexivity|].
      rewrite Hs1, Hn1. exact (Hinv tok).
    + destruct (cf_enabled c); cbn [negb]; [|apply Hgen; auto; discriminate].
      destruct (allow c s ip) as [s1 ok] eqn:Ea.
      pose proof (allow_sessions c s ip) as [Hs1 Hn1]. rewrite Ea in Hs1, Hn1. cbn [fst] in Hs1, Hn1.
      destruct ok; cbn [negb]; apply Hgen; auto; discriminate.
    + destruct (cf_enabled c); cbn [negb]; [|apply Hgen; auto; discriminate].
      destruct (allow c s ip) as [s1 ok] eqn:Ea.
      pose proof (allow_sessions c s ip) as [Hs1 Hn1]. rewrite Ea in Hs1, Hn1. cbn [fst] in Hs1, Hn1.
      destruct ok; cbn [negb]; apply Hgen; auto; discriminate.
    + apply Hgen; auto; discriminate.
  - (* logout *)
    destruct post; cbn [negb].
    + destruct (session_token ck) as [tk|] eqn:Et.
      * intros tok. cbn [s_sessions s_now]. rewrite mfind_mremove.
        cbn [spec_expiry issuesb revokesb]. rewrite Et.
        destruct (bytes_eqb tok tk) eqn:E; [intros e He; discriminate|]. exact (Hinv tok).
      * apply (sess_inv_same_sessions c s s tr _ Hinv); [reflexivity|lia| |]; intros tok; cbn; [reflexivity|now rewrite Et].
    + apply (sess_inv_same_sessions c s s tr _ Hinv); [reflexivity|lia| |]; intros tok; reflexivity.
  - (* request *)
    destruct (cf_enabled c); cbn [negb].
    + destruct (has_valid s ck) as [s1 ok] eqn:Eh.
      pose proof (has_valid_inv c s tr ck (ERequest ck, (if ok then A200 else A401), s_now s1) Hinv) as H.
      rewrite Eh in H. cbn [fst] in H. apply H; intros tok; reflexivity.
    + apply (sess_inv_same_sessions c s s tr _ Hinv); [reflexivity|lia| |]; intros tok; reflexivity.
  - (* session endpoint *)
    destruct (cf_enabled c); cbn [negb].
    + destruct (has_valid s ck) as [s1 ok] eqn:Eh.
      pose proof (has_valid_inv c s tr ck (ESession ck, ASession true ok, s_now s1) Hinv) as H.
      rewrite Eh in H. cbn [fst] in H. apply H; intros tok; reflexivity.
    + apply (sess_inv_same_sessions c s s tr _ Hinv); [reflexivity|lia| |]; intros tok; reflexivity.
  - (* clock *)
    apply (sess_inv_same_sessions c s _ tr _ Hinv); [reflexivity|cbn; lia| |]; intros tok; reflexivity.
Qed.

Lemma mono_step c s tr e :
  mono tr (s_now s) ->
  let '(s', a) := step c s e in mono ((e, a, s_now s') :: tr) (s_now s').
Proof.
  intros Hm. pose proof (step_now_mono c s e) as Hn. destruct (step c s e) as [s' a]. cbn [fst] in Hn.
  cbn [mono snd]. split; [lia|]. now apply (mono_weaken tr (s_now s)).
Qed.

Lemma run_inv c evs : forall s tr,
  sess_inv c s tr -> mono tr (s_now s) ->
  let '(s', tr') := run c s tr evs in sess_inv c s' tr' /\ mono tr' (s_now s').
Proof.
  induction evs as [|e evs IH]; intros s tr Hi Hm; cbn [run]; [auto|].
  pose proof (sess_inv_step c s tr e Hi) as H1. pose proof (mono_step c s tr e Hm) as H2.
  destruct (step c s e) as [s' a]. now apply IH.
Qed.

(* computed and existential forms of "live" agree on monotone traces *)
Lemma live_spec c tr : forall tok now, mono tr now ->
  ((exists e, spec_expiry c tr tok = Some e /\ now <= e) <-> live c tr tok now).
Proof.
  induction tr as [|en rest IH]; intros tok now Hm.
  - split.
    + intros (e & H & _). discriminate.
    + intros (newer & en & older & H & _). destruct newer; discriminate.
  - destruct Hm as [Hen Hrest]. cbn [spec_expiry]. split.
    + intros (e & H & Hle). destruct (issuesb en tok) eqn:Ei.
      * inversion H; subst. exists [], en, rest. repeat split; auto. intros x [].
      * destruct (revokesb en tok) eqn:Er; [discriminate|].
        assert (mono rest now) as Hm2 by (apply (mono_weaken rest (snd en)); [assumption|lia]).
        destruct (proj1 (IH tok now Hm2)) as (newer & en0 & older & E & H1 & H2 & H3); [eauto|].
        exists (en :: newer), en0, older. subst rest. repeat split; auto.
        intros x [<-|Hx]; auto.
    + intros (newer & en0 & older & E & H1 & H2 & H3). destruct newer as [|x newer].
      * cbn in E. inversion E; subst. rewrite H1. eauto.
      * cbn in E. inversion E; subst x rest.
        assert (snd en0 <= snd en) as Hle by (apply (mono_in _ _ en0 Hrest); apply in_or_app; right; now left).
        destruct (issuesb en tok); [eexists; split; [reflexivity|lia]|].
        rewrite (H2 en (or_introl eq_refl)).
        assert (mono (newer ++ en0 :: older) now) as Hm2 by (apply (mono_weaken _ (snd en)); [assumption|lia]).
        apply (proj2 (IH tok now Hm2)). exists newer, en0, older. repeat split; auto.
        intros y Hy. apply H2. now right.
Qed.

Lemma sess_inv0 c : sess_inv c state0 [].
Proof. intros tok. cbn. intros e H. discriminate. Qed.

Theorem session_sound c evs cookie :
  let '(s, tr) := run c state0 [] evs in
  accepts c s cookie = true <->
  cf_enabled c = true /\ exists tok, cookie = Some tok /\ tok <> [] /\ live c tr tok (s_now s).
Proof.
  pose proof (run_inv c evs state0 [] (sess_inv0 c) I) as H.
  destruct (run c state0 [] evs) as [s tr]. destruct H as [Hinv Hm].
  unfold accepts. rewrite andb_true_iff.
  assert (Hv : snd (has_valid s cookie) = true <->
               exists tok, cookie = Some tok /\ tok <> [] /\ exists e, spec_expiry c tr tok = Some e /\ s_now s <= e).
  { unfold has_valid. destruct cookie as [[|b t]|]; cbn [session_token].
    - split; [discriminate|]. intros (tok & E & Hne & _). inversion E; subst. contradiction.
    - specialize (Hinv (b :: t)). destruct (mfind (b :: t) (s_sessions s)) as [ex|].
      + destruct (s_now s >? ex) eqn:Eg; cbn [snd]; split.
        * discriminate.
        * intros (tok & E & _ & e & He & Hle). inversion E; subst. rewrite Hinv in He. inversion He; subst. lia.
        * intros _. exists (b :: t). repeat split; [discriminate|]. exists ex. split; [exact Hinv|lia].
        * reflexivity.
      + cbn [snd]. split; [discriminate|].
        intros (tok & E & _ & e & He & Hle). inversion E; subst. specialize (Hinv e He). lia.
    - split; [discriminate|]. intros (tok & E & _). discriminate. }
  rewrite Hv. split.
  - intros [He (tok & E & Hne & Hl)]. split; [exact He|]. exists tok. repeat split; auto. now apply (live_spec c tr tok (s_now s) Hm).
  - intros [He (tok & E & Hne & Hl)]. split; [exact He|]. exists tok. repeat split; auto. now apply (live_spec c tr tok (s_now s) Hm).
Qed.

(* the answer a protected request gets is 200 exactly when [accepts] holds, 401 or
   503 otherwise *)
Lemma request_answer c s cookie :
  snd (step c s (ERequest cookie)) = if accepts c s cookie then A200 else if cf_enabled c then A401 else A503.
Proof.
  unfold accepts. cbn [step]. destruct (cf_enabled c); cbn [negb andb]; [|reflexivity].
  destruct (has_valid s cookie) as [s1 ok]. cbn. reflexivity.
Qed.

(* ---------- rate limit ---------- *)
Definition cnt (th : Z) (l : list Z) : Z := zlen (filter (fun ts => ts >? th) l).
Definition ptimes (ip : bytes) (tr : list entry) : list Z := map snd (filter (passedb ip) tr).

Definition rate_inv (c : config) (s : state) (tr : list entry) : Prop :=
  forall ip th, s_now s - cf_window c <= th -> cnt th (ptimes ip tr) <= cnt th (hits_of s ip).

Lemma cnt_filter_ge th th0 l : th0 <= th -> cnt th (filter (fun ts => ts >? th0) l) = cnt th l.
Proof.
  intros H. unfold cnt. f_equal. induction l as [|x l IH]; cbn; [reflexivity|].
  destruct (x >? th0) eqn:E1; cbn; destruct (x >? th) eqn:E2; cbn; rewrite ?IH; try reflexivity. lia.
Qed.

Lemma cnt_snoc th l x : cnt th (l ++ [x]) = cnt th l + (if x >? th then 1 else 0).
Proof.
  unfold cnt. rewrite filter_app, zlen_app. cbn [filter]. destruct (x >? th); unfold zlen; cbn [length]; lia.
Qed.

Lemma cnt_cons th l x : cnt th (x :: l) = cnt th l + (if x >? th then 1 else 0).
Proof. unfold cnt. cbn. destruct (x >? th); [rewrite zlen_cons|]; lia. Qed.

Lemma cnt_nonneg th l : 0 <= cnt th l.
Proof. unfold cnt. apply zlen_nonneg. Qed.

Lemma hits_of_other s s' ip : s_hits s' = s_hits s -> hits_of s' ip = hits_of s ip.
Proof. unfold hits_of. now intros ->. Qed.

Lemma rate_inv_nonpassed c s s' tr en :
  rate_inv c s tr -> s_hits s' = s_hits s -> s_now s <= s_now s' ->
  (forall ip, passedb ip en = false) -> rate_inv c s' (en :: tr).
Proof.
  intros Hinv Hh Hn Hp ip th Hth. unfold ptimes. cbn [filter]. rewrite Hp.
  rewrite (hits_of_other s s' ip Hh). apply Hinv. lia.
Qed.

Definition bound_inv (c : config) (tr : list entry) : Prop :=
  forall ip t, window_count ip t (cf_window c) tr <= cf_limit c.

Lemma window_count_cons ip t w en tr :
  window_count ip t w (en :: tr) = window_count ip t w tr + (if passedb ip en && in_window t w en then 1 else 0).
Proof.
  unfold window_count. cbn [filter]. destruct (passedb ip en && in_window t w en); [rewrite zlen_cons|]; lia.
Qed.

Lemma window_le_cnt ip t w th tr : th <= t -> window_count ip t w tr <= cnt th (ptimes ip tr).
Proof.
  intros H. unfold window_count, ptimes. induction tr as [|en tr IH]; cbn [filter map]; [unfold cnt; cbn; lia|].
  destruct (passedb ip en) eqn:Ep; cbn [andb map].
  - rewrite cnt_cons. destruct (in_window t w en) eqn:Ew.
    + rewrite zlen_cons. unfold in_window in Ew. apply andb_true_iff in Ew as [E1 E2].
      destruct (snd en >? th) eqn:E3; lia.
    + destruct (snd en >? th); lia.
  - exact IH.
Qed.

Lemma passedb_ip ip ip' k a t : passedb ip (ELogin ip' k, a, t) = true -> ip = ip'.
Proof. cbn. destruct a; try discriminate; apply bytes_eqb_eq. Qed.

(* one login attempt through the limiter *)
Lemma allow_step c s tr ip k a s1 :
  limiter_on c = true -> rate_inv c s tr -> bound_inv c tr ->
  allow c s ip = (s1, true) -> (a = A200 \/ a = A400 \/ a = A401) ->
  forall s2, s_hits s2 = s_hits s1 -> s_now s2 = s_now s ->
  rate_inv c s2 ((ELogin ip k, a, s_now s2) :: tr) /\ bound_inv c ((ELogin ip k, a, s_now s2) :: tr).
Proof.
  intros Hon Hr Hb Ha Hans s2 Hh2 Hn2. unfold allow in Ha. rewrite Hon in Ha. cbn [negb] in Ha.
  set (kept := filter (fun ts => ts >? s_now s - cf_window c) (hits_of s ip)) in *.
  destruct (zlen kept >=? cf_limit c) eqn:Elim; [inversion Ha|]. inversion Ha as [Hs1]. clear Ha.
  assert (Hw : cf_window c > 0).
  { unfold limiter_on in Hon. apply andb_true_iff in Hon as [_ H]. lia. }
  assert (Hpass : forall ip0, passedb ip0 (ELogin ip k, a, s_now s2) = bytes_eqb ip0 ip).
  { intros ip0. cbn. destruct Hans as [->|[->| ->]]; reflexivity. }
  split.
  - intros ip0 th Hth. unfold ptimes. cbn [filter]. rewrite Hpass.
    unfold hits_of. rewrite Hh2, <- Hs1. cbn [s_hits]. rewrite mfind_mput.
    destruct (bytes_eqb ip0 ip) eqn:E.
    + apply bytes_eqb_eq in E. subst ip0. cbn [map snd]. rewrite cnt_cons, cnt_snoc.
      unfold kept. rewrite cnt_filter_ge by lia.
      specialize (Hr ip th). fold (ptimes ip tr). rewrite Hn2 in *.
      assert (s_now s - cf_window c <= th) as H1 by lia. specialize (Hr H1). lia.
    + fold (ptimes ip0 tr). apply (Hr ip0 th). lia.
  - intros ip0 t. rewrite window_count_cons, Hpass.
    destruct (bytes_eqb ip0 ip && in_window t (cf_window c) (ELogin ip k, a, s_now s2)) eqn:E.
    + apply andb_true_iff in E as [E1 E2]. apply bytes_eqb_eq in E1. subst ip0.
      unfold in_window in E2. cbn [snd] in E2. apply andb_true_iff in E2 as [E2 E3].
      pose proof (window_le_cnt ip t (cf_window c) (s_now s - cf_window c) tr) as H1.
      assert (s_now s - cf_window c <= t) as H2 by lia. specialize (H1 H2).
      pose proof (Hr ip (s_now s - cf_window c)) as H3. assert (s_now s - cf_window c <= s_now s - cf_window c) as H4 by lia.
      specialize (H3 H4). unfold cnt in H3 at 2. fold kept in H3. lia.
    + specialize (Hb ip0 t). lia.
Qed.

Lemma rate_step c s tr e :
  limiter_on c = true -> rate_inv c s tr -> bound_inv c tr ->
  let '(s', a) := step c s e in rate_inv c s' ((e, a, s_now s') :: tr) /\ bound_inv c ((e, a, s_now s') :: tr).
Proof.
  intros Hon Hr Hb.
  assert (Hskip : forall s' en, s_hits s' = s_hits s -> s_now s <= s_now s' -> (forall ip, passedb ip en = false) ->
                    rate_inv c s' (en :: tr) /\ bound_inv c (en :: tr)).
  { intros s' en H1 H2 H3. split; [now apply (rate_inv_nonpassed c s s' tr)|].
    intros ip t. rewrite window_count_cons, H3. cbn [andb]. specialize (Hb ip t). lia. }
  destruct e as [ip k|post ck|ck|ck|d]; cbn [step].
  - assert (Hden : forall s1, allow c s ip = (s1, false) ->
                     rate_inv c s1 ((ELogin ip k, A429, s_now s1) :: tr) /\ bound_inv c ((ELogin ip k, A429, s_now s1) :: tr)).
    { intros s1 Ha. unfold allow in Ha. rewrite Hon in Ha. cbn [negb] in Ha.
      destruct (zlen _ >=? cf_limit c) eqn:Elim; inversion Ha as [Hs1]. clear Ha. cbn [s_now]. split.
      - intros ip0 th Hth. unfold ptimes. cbn [filter passedb]. fold (ptimes ip0 tr).
        unfold hits_of. cbn [s_hits]. rewrite mfind_mput. cbn [s_now] in Hth.
        destruct (bytes_eqb ip0 ip) eqn:E.
        + apply bytes_eqb_eq in E. subst ip0. rewrite cnt_filter_ge by lia. apply (Hr ip th Hth).
        + apply (Hr ip0 th Hth).
      - intros ip0 t. rewrite window_count_cons. cbn [passedb andb]. specialize (Hb ip0 t). lia. }
    destruct k as [tok| | |].
    + destruct (cf_enabled c); cbn [negb]; [|apply Hskip; [reflexivity|cbn; lia|intros; reflexivity]].
      destruct (allow c s ip) as [s1 ok] eqn:Ea. destruct ok; cbn [negb]; [|now apply Hden].
      pose proof (allow_sessions c s ip) as [_ Hn1]. rewrite Ea in Hn1. cbn [fst] in Hn1.
      apply (allow_step c s tr ip (LGood tok) A200 s1 Hon Hr Hb Ea); auto.
    + destruct (cf_enabled c); cbn [negb]; [|apply Hskip; [reflexivity|cbn; lia|intros; reflexivity]].
      destruct (allow c s ip) as [s1 ok] eqn:Ea. destruct ok; cbn [negb]; [|now apply Hden].
      pose proof (allow_sessions c s ip) as [_ Hn1]. rewrite Ea in Hn1. cbn [fst] in Hn1.
      apply (allow_step c s tr ip LBad A401 s1 Hon Hr Hb Ea); auto.
    + destruct (cf_enabled c); cbn [negb]; [|apply Hskip; [reflexivity|cbn; lia|intros; reflexivity]].
      destruct (allow c s ip) as [s1 ok] eqn:Ea. destruct ok; cbn [negb]; [|now apply Hden].
      pose proof (allow_sessions c s ip) as [_ Hn1]. rewrite Ea in Hn1. cbn [fst] in Hn1.
      apply (allow_step c s tr ip LMalformed A400 s1 Hon Hr Hb Ea); auto.
    + apply Hskip; [reflexivity|cbn; lia|intros; reflexivity].
  - destruct post; cbn [negb]; [destruct (session_token ck)|]; (apply Hskip; [reflexivity|cbn; lia|intros; reflexivity]).
  - destruct (cf_enabled c); cbn [negb].
    + destruct (has_valid s ck) as [s1 ok] eqn:Eh. pose proof (has_valid_hits s ck) as [H1 H2].
      rewrite Eh in H1, H2. cbn [fst] in H1, H2. apply Hskip; [exact H1|lia|]. intros ip. destruct ok; reflexivity.
    + apply Hskip; [reflexivity|cbn; lia|intros; reflexivity].
  - destruct (cf_enabled c); cbn [negb].
    + destruct (has_valid s ck) as [s1 ok] eqn:Eh. pose proof (has_valid_hits s ck) as [H1 H2].
      rewrite Eh in H1, H2. cbn [fst] in H1, H2. apply Hskip; [exact H1|lia|intros; reflexivity].
    + apply Hskip; [reflexivity|cbn; lia|intros; reflexivity].
  - apply Hskip; [reflexivity|cbn; lia|intros; reflexivity].
Qed.

Lemma rate_run c evs : limiter_on c = true -> forall s tr,
  rate_inv c s tr -> bound_inv c tr ->
  let '(s', tr') := run c s tr evs in rate_inv c s' tr' /\ bound_inv c tr'.
Proof.
  intros Hon. induction evs as [|e evs IH]; intros s tr Hr Hb; cbn [run]; [auto|].
  pose proof (rate_step c s tr e Hon Hr Hb) as H. destruct (step c s e) as [s' a]. destruct H. now apply IH.
Qed.

Theorem rate_limit c evs ip t :
  limiter_on c = true ->
  window_count ip t (cf_window c) (snd (run c state0 [] evs)) <= cf_limit c.
Proof.
  intros Hon.
  assert (H0 : rate_inv c state0 []) by (intros ip0 th _; unfold cnt, ptimes, hits_of; cbn; lia).
  assert (Hb0 : bound_inv c []).
  { intros ip0 t0. unfold window_count. cbn. unfold limiter_on in Hon. apply andb_true_iff in Hon as [H _]. lia. }
  pose proof (rate_run c evs Hon state0 [] H0 Hb0) as H. destruct (run c state0 [] evs) as [s tr].
  destruct H as [_ H]. apply H.
Qed.
