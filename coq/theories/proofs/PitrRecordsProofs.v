(* From the exact store characterisation to records (C08): the segments the restore
   specification writes for one partition, in the order it writes them (ascending base
   offset of the sorted source segments), decode to the source partition's records cut
   at the final candidate segment's first record later than T. *)
From KS Require Import lib.Base lib.PitrWire model.Pitr proofs.PitrProofs proofs.PitrBatchProofs.
Open Scope Z_scope.

Section Records.
Variable crc : bytes -> Z.

(* the records held by a segment object: its body is a sequence of batches *)
Definition seg_records (seg : bytes) (rs : list (Z * Z * bytes)) : Prop :=
  exists bs, seg_body seg = concat bs /\ rs = concat (map recs_of bs).

(* source segment g of partition p: segment and index objects present, well formed *)
Definition src_ok (s0 : store) (p : Z) (g : srcseg) (bs : list bytes) : Prop :=
  exists sb ib, s_get s0 (seg_key 0 p (g_base g)) = Some sb /\
                s_get s0 (idx_key 0 p (g_base g)) = Some ib /\ seg_wf sb bs.

Definition all_recs (bs : list bytes) : list (Z * Z * bytes) := concat (map recs_of bs).

Lemma last_candidate_lt T : forall segs i, segs <> [] -> (i <= last_candidate segs T i < i + length segs)%nat.
Proof.
  induction segs as [|g segs IH]; intros i Hne; [contradiction|]. cbn [last_candidate length].
  destruct (T <? g_created g); [lia|].
  destruct segs as [|g' segs']; [cbn; lia|].
  specialize (IH (S i) ltac:(discriminate)). cbn [length] in *. lia.
Qed.

(* no Err at the last candidate: the restore as a whole succeeded *)
Definition plan_defined (s0 : store) (p : Z) (T : Z) (g : srcseg) : Prop :=
  forall sb ib, s_get s0 (seg_key 0 p (g_base g)) = Some sb -> s_get s0 (idx_key 0 p (g_base g)) = Some ib ->
                build_plan crc sb ib T (g_created g) <> Err.

Theorem plan_list_records s0 p T : forall segs bss i lc,
  Forall2 (src_ok s0 p) segs bss -> (i <= lc < i + length segs)%nat ->
  plan_defined s0 p T (nth (lc - i) segs (mkSeg 0 0 0 0)) ->
  exists rss, Forall2 seg_records (map a_seg (plan_list crc s0 p segs i lc T)) rss /\
    concat rss = concat (map all_recs (firstn (lc - i) bss)) ++
                 take_while (ts_ok T) (all_recs (nth (lc - i) bss [])).
Proof.
  induction segs as [|g segs IH]; intros bss i lc HF Hr Hd; [cbn in Hr; lia|].
  inversion HF as [|? bs ? bss' (sb & ib & S1 & S2 & Wf) HF']; subst.
  cbn [plan_list]. assert ((lc <? i)%nat = false) as -> by (apply Nat.ltb_ge; lia).
  rewrite S1, S2.
  destruct (i =? lc)%nat eqn:Ei.
  - apply Nat.eqb_eq in Ei; subst lc. rewrite Nat.sub_diag in *. cbn [nth firstn map concat app] in *.
    pose proof (plan_spec crc sb bs ib T (g_created g) Wf) as PS.
    destruct (build_plan crc sb ib T (g_created g)) as [[a|]|] eqn:BP.
    + destruct PS as (out & _ & Hb & Hrec & _).
      assert (plan_list crc s0 p segs (S i) i T = []) as ->.
      { destruct segs; cbn [plan_list]; [reflexivity|]. assert ((i <? S i)%nat = true) as -> by (apply Nat.ltb_lt; lia). reflexivity. }
      exists [all_recs out]. split.
      * cbn [map]. constructor; [|constructor]. exists out. split; [exact Hb|reflexivity].
      * cbn [concat]. rewrite app_nil_r. exact Hrec.
    + exists []. split; [constructor|]. cbn [concat]. unfold all_recs. now rewrite PS.
    + exfalso. exact (Hd sb ib S1 S2 BP).
  - apply Nat.eqb_neq in Ei. assert (i < lc)%nat as Hlt by lia.
    replace (lc - i)%nat with (S (lc - S i)) in * by lia. cbn [nth firstn map concat] in *.
    destruct (IH bss' (S i) lc HF' ltac:(cbn [length] in Hr; lia) Hd) as (rss & R1 & R2).
    exists (all_recs bs :: rss). split.
    + cbn [map a_seg]. constructor; [|exact R1].
      destruct Wf as (hd0 & ft & -> & Hh & Hf & _ & _). exists bs. split; [now apply seg_body_eq|reflexivity].
    + cbn [concat]. rewrite R2, app_assoc. reflexivity.
Qed.

End Records.

(* reading back what puts_of wrote *)
Lemma put_art_other p s a k :
  k <> seg_key 1 p (a_base a) -> k <> idx_key 1 p (a_base a) -> s_get (put_art p s a) k = s_get s k.
Proof.
  intros H1 H2. unfold put_art. rewrite !s_get_put.
  destruct (key_eqb k (idx_key 1 p (a_base a))) eqn:E; [apply key_eqb_eq in E; contradiction|].
  destruct (key_eqb k (seg_key 1 p (a_base a))) eqn:E2; [apply key_eqb_eq in E2; contradiction|reflexivity].
Qed.

Lemma puts_other p : forall arts s k,
  (forall a, In a arts -> k <> seg_key 1 p (a_base a) /\ k <> idx_key 1 p (a_base a)) ->
  s_get (puts_of p arts s) k = s_get s k.
Proof.
  induction arts as [|a arts IH]; intros s k H; cbn [puts_of fold_left]; [reflexivity|].
  fold (puts_of p arts (put_art p s a)). rewrite IH by (intros a' Ha'; apply H; now right).
  destruct (H a (or_introl eq_refl)). now apply put_art_other.
Qed.

(* every written segment can be read back under its (partition, base) key when the
   bases are pairwise distinct, and nothing else appears under the partition *)
Lemma puts_get p : forall arts s, NoDup (map a_base arts) ->
  forall a, In a arts -> s_get (puts_of p arts s) (seg_key 1 p (a_base a)) = Some (a_seg a).
Proof.
  induction arts as [|a0 arts IH]; intros s Hnd a Ha; [contradiction|].
  cbn [puts_of fold_left]. fold (puts_of p arts (put_art p s a0)).
  inversion Hnd as [|? ? Hnin Hnd']; subst. destruct Ha as [<-|Ha].
  - rewrite puts_other.
    + unfold put_art. rewrite !s_get_put.
      destruct (key_eqb (seg_key 1 p (a_base a0)) (idx_key 1 p (a_base a0))) eqn:E; [apply key_eqb_eq in E; discriminate|].
      now rewrite key_eqb_refl.
    + intros a' Ha'. split; intros E; inversion E as [E']; try discriminate.
      apply Hnin. rewrite E'. now apply in_map.
  - now apply IH.
Qed.

Lemma puts_only p : forall arts s k v, k_space k = 1 -> k_idx k = false ->
  s_get (puts_of p arts s) k = Some v ->
  s_get s k = Some v \/ exists a, In a arts /\ k = seg_key 1 p (a_base a).
Proof.
  induction arts as [|a arts IH]; intros s k v Hs Hi H; cbn [puts_of fold_left] in H; [now left|].
  fold (puts_of p arts (put_art p s a)) in H. apply IH in H as [H|(a' & Ha' & E)]; auto.
  - unfold put_art in H. rewrite !s_get_put in H.
    destruct (key_eqb k (idx_key 1 p (a_base a))) eqn:E1.
    { apply key_eqb_eq in E1. subst k. cbn in Hi. discriminate. }
    destruct (key_eqb k (seg_key 1 p (a_base a))) eqn:E2.
    { apply key_eqb_eq in E2. right. exists a. split; [now left|exact E2]. }
    now left.
  - right. exists a'. split; [now right|exact E].
Qed.
