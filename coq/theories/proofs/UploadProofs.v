(* Proofs about model/Upload.v: a 200 answer with an envelope implies that the object
   named by the envelope exists, that its size and SHA-256 are the envelope's, and that
   the broker reply was error code 0.  Invariant over all event sequences: while the S3
   multipart upload of the session is open, the session's Parts / hashers / NextPart /
   TotalUploaded describe exactly the parts S3 holds, numbered 1..n in order. *)
From KS Require Import lib.Base model.Upload.
Open Scope Z_scope.

Fixpoint numbered (from : Z) (P : list (Z * chunk)) : Prop :=
  match P with
  | [] => True
  | (n, _) :: P' => n = from /\ numbered (from + 1) P'
  end.

Lemma numbered_ge from P n c : numbered from P -> In (n, c) P -> from <= n.
Proof.
  revert from; induction P as [|[n0 c0] P IH]; intros from H Hin; cbn in *; [contradiction|].
  destruct H as [-> H]. destruct Hin as [E|Hin].
  - inversion E; subst. lia.
  - specialize (IH _ H Hin). lia.
Qed.

Lemma get_part_in from P n c : numbered from P -> In (n, c) P -> get_part n P = Some c.
Proof.
  revert from; induction P as [|[n0 c0] P IH]; intros from H Hin; cbn in *; [contradiction|].
  destruct H as [-> H]. destruct Hin as [E|Hin].
  - inversion E; subst. now rewrite Z.eqb_refl.
  - pose proof (numbered_ge _ _ _ _ H Hin) as Hge.
    destruct (from =? n) eqn:E; [apply Z.eqb_eq in E; lia|]. eapply IH; eauto.
Qed.

Lemma numbered_app from P n c :
  numbered from P -> n = from + zlen P -> numbered from (P ++ [(n, c)]).
Proof.
  revert from; induction P as [|[n0 c0] P IH]; intros from H Hn.
  - rewrite zlen_nil in Hn. cbn. split; [lia|exact I].
  - cbn [numbered app] in *. destruct H as [-> H]. split; [reflexivity|].
    apply IH; [exact H|]. rewrite zlen_cons in Hn. lia.
Qed.

Section Proofs.
  Variable hashf : Z -> blob -> bytes.

  Lemma get_part_listed_all n P :
    get_part n (listed_all P) = option_map fst (get_part n P).
  Proof.
    induction P as [|[n0 c0] P IH]; cbn; [reflexivity|].
    destruct (n0 =? n); [reflexivity|exact IH].
  Qed.

  Lemma assemble_numbered P0 : forall Q from prev,
    (forall n c, In (n, c) Q -> get_part n P0 = Some c) ->
    numbered from Q -> prev < from ->
    assemble P0 prev (listed_all Q) = Some (map snd Q).
  Proof.
    unfold listed_all.
    induction Q as [|[n0 c0] Q IH]; intros from prev Hget Hnum Hlt; cbn in *; [reflexivity|].
    destruct Hnum as [-> Hnum].
    assert (from <=? prev = false) as -> by (apply Z.leb_gt; lia).
    rewrite (Hget from c0) by (now left). rewrite Z.eqb_refl.
    rewrite (IH (from + 1) from); [reflexivity| |exact Hnum|lia].
    intros n c Hin. apply Hget. now right.
  Qed.

  Lemma assemble_all P : numbered 1 P -> assemble P 0 (listed_all P) = Some (map snd P).
  Proof.
    intros H. apply (assemble_numbered P P 1 0); [|exact H|lia].
    intros n c Hin. eapply get_part_in; eauto.
  Qed.

  Lemma listed_exact_gt l : forall from upto, upto < from -> listed_exact l from upto = false.
  Proof.
    induction l as [|[n e] l IH]; intros from upto H; cbn.
    - apply Z.eqb_neq. lia.
    - rewrite IH by lia. apply andb_false_r.
  Qed.

  Lemma listed_exact_eq E : forall P listed from,
    numbered from P ->
    (forall n c, In (n, c) P -> get_part n E = Some (fst c)) ->
    listed_exact listed from (from + zlen P) = true ->
    forallb (fun ne => match get_part (fst ne) E with
                       | Some etag => etag =? snd ne
                       | None => false end) listed = true ->
    listed = listed_all P.
  Proof.
    induction P as [|[n0 c0] P IH]; intros listed from Hnum Hget Hex Hall.
    - rewrite zlen_nil in Hex. destruct listed as [|[n e] l]; [reflexivity|].
      cbn [listed_exact] in Hex. apply andb_true_iff in Hex as [_ Hex].
      rewrite listed_exact_gt in Hex by lia. discriminate.
    - cbn in Hnum. destruct Hnum as [-> Hnum]. rewrite zlen_cons in Hex.
      destruct listed as [|[n e] l].
      + cbn [listed_exact] in Hex. apply Z.eqb_eq in Hex. pose proof (zlen_nonneg P). lia.
      + cbn [listed_exact] in Hex. apply andb_true_iff in Hex as [Hn Hex]. apply Z.eqb_eq in Hn. subst n.
        cbn [forallb fst snd] in Hall. apply andb_true_iff in Hall as [He Hall].
        rewrite (Hget from c0) in He by (now left). apply Z.eqb_eq in He. subst e.
        cbn. f_equal. apply (IH l (from + 1)); [exact Hnum| | |exact Hall].
        * intros n c Hin. apply Hget. now right.
        * replace (from + 1 + zlen P) with (from + (1 + zlen P)) by lia. exact Hex.
  Qed.

  (* ---------- UploadStream's part loop ---------- *)
  Lemma stream_parts_ok cfg : forall ps n total fs acc st fs' acc',
    stream_parts cfg ps n total fs acc = (st, fs', acc') -> st = 200 ->
    numbered 1 acc -> n = 1 + zlen acc ->
    numbered 1 acc' /\ map snd acc' = map snd acc ++ ps.
  Proof.
    induction ps as [|p ps IH]; intros n total fs acc st fs' acc' H Hst Hnum Hn; cbn in H.
    - inversion H; subst. rewrite app_nil_r. auto.
    - destruct ((0 <? c_max_blob cfg) && (c_max_blob cfg <? total + snd p)).
      { inversion H; subst. discriminate. }
      destruct (next_fault fs) as [f fs1]. destruct f.
      { inversion H; subst. discriminate. }
      apply IH in H; [|exact Hst| |].
      + destruct H as [H1 H2]. split; [exact H1|]. rewrite H2, map_app. cbn. now rewrite <- app_assoc.
      + apply numbered_app; [exact Hnum|lia].
      + rewrite zlen_app, zlen_cons, zlen_nil. lia.
  Qed.

  (* ---------- invariant ---------- *)
  Definition inv (w : world) : Prop :=
    match w_sess w with
    | None => True
    | Some s =>
        w_s3open w = true ->
        numbered 1 (w_s3parts w) /\ s_parts s = listed_all (w_s3parts w) /\
        s_hashed s = map snd (w_s3parts w) /\ s_next s = 1 + zlen (w_s3parts w) /\
        s_total s = bsize (s_hashed s)
    end.

  Lemma inv_init : inv init_world.
  Proof. exact I. Qed.

  Lemma bsize_app a b : bsize (a ++ b) = bsize a + bsize b.
  Proof.
    induction a as [|c a IH]; [reflexivity|].
    change (bsize ((c :: a) ++ b)) with (snd c + bsize (a ++ b)).
    change (bsize (c :: a)) with (snd c + bsize a). rewrite IH. lia.
  Qed.

  Lemma produce_finish_sess key pieces csum alg r w2 w' p :
    produce_finish hashf key pieces csum alg r w2 = (w', p) ->
    w_sess w' = w_sess w2 /\ w_s3open w' = w_s3open w2 /\ w_s3parts w' = w_s3parts w2.
  Proof.
    unfold produce_finish. intros H.
    destruct (nonempty csum && nonempty (checksum_of hashf alg pieces) &&
              negb (bytes_eqb csum (checksum_of hashf alg pieces))); inversion H; subst; cbn; auto.
  Qed.

  Lemma do_produce_sess cfg w ps cs alg fs r w' p :
    do_produce hashf cfg w ps cs alg fs r = (w', p) ->
    w_sess w' = w_sess w /\ w_s3open w' = w_s3open w /\ w_s3parts w' = w_s3parts w.
  Proof.
    unfold do_produce. intros H.
    destruct (alg <? 0); [inversion H; subst; auto|].
    destruct (nonempty cs && (alg =? 3)); [inversion H; subst; auto|].
    destruct ps as [|first rest]; [inversion H; subst; auto|].
    destruct (match rest with [] => snd first <? c_min_part cfg | _ => false end).
    - destruct (fst (next_fault fs)); [inversion H; subst; cbn; auto|].
      apply produce_finish_sess in H. cbn in H. exact H.
    - destruct (fst (next_fault fs)); [inversion H; subst; cbn; auto|].
      destruct (stream_parts cfg (first :: rest) 1 0 (snd (next_fault fs)) []) as [[st fs1] acc].
      destruct (negb (st =? 200)); [inversion H; subst; cbn; auto|].
      destruct (fst (next_fault fs1)); [inversion H; subst; cbn; auto|].
      destruct (assemble acc 0 (listed_all acc)); [|inversion H; subst; cbn; auto].
      apply produce_finish_sess in H. cbn in H. exact H.
  Qed.

  Lemma step_inv cfg w e w' p : inv w -> step hashf cfg w e = (w', p) -> inv w'.
  Proof.
    intros Hinv H. destruct e as [ps cs alg fs r|size cs alg f|n body f|listed f r|]; cbn in H.
    - apply do_produce_sess in H. destruct H as (H1 & H2 & H3).
      unfold inv in *. rewrite H1, H2, H3. exact Hinv.
    - unfold do_init in H.
      destruct (size <=? 0); [inversion H; subst; exact Hinv|].
      destruct ((0 <? c_max_blob cfg) && (c_max_blob cfg <? size)); [inversion H; subst; exact Hinv|].
      destruct (alg <? 0); [inversion H; subst; exact Hinv|].
      destruct (nonempty cs && (alg =? 3)); [inversion H; subst; exact Hinv|].
      destruct f; inversion H; subst.
      + exact Hinv.
      + unfold inv. cbn. intros _. repeat split.
    - unfold do_part in H.
      destruct ((n <=? 0) || (2147483647 <? n)); [inversion H; subst; exact Hinv|].
      destruct (w_sess w) as [s|] eqn:Es; [|inversion H; subst; exact Hinv].
      destruct (get_part n (s_parts s)); [inversion H; subst; exact Hinv|].
      destruct (negb (n =? s_next s)) eqn:En; [inversion H; subst; exact Hinv|].
      destruct (snd body =? 0); [inversion H; subst; exact Hinv|].
      destruct (c_part_size cfg <? snd body); [inversion H; subst; exact Hinv|].
      destruct (s_size s <? s_total s + snd body); [inversion H; subst; exact Hinv|].
      destruct ((s_total s + snd body <? s_size s) && (snd body <? c_min_part cfg)); [inversion H; subst; exact Hinv|].
      destruct (f || negb (w_s3open w)); [inversion H; subst; exact Hinv|].
      inversion H; subst; clear H. unfold inv in *. rewrite Es in Hinv.
      cbn [w_sess w_s3open w_s3parts s_parts s_hashed s_next s_total]. intros Ho.
      destruct (Hinv Ho) as (H1 & H2 & H3 & H4 & H5).
      apply negb_false_iff, Z.eqb_eq in En.
      repeat split.
      + apply numbered_app; [exact H1|lia].
      + unfold listed_all in *. rewrite map_app, H2. reflexivity.
      + rewrite map_app, H3. reflexivity.
      + rewrite zlen_app, zlen_cons, zlen_nil. lia.
      + rewrite bsize_app, <- H5. change (bsize [body]) with (snd body + 0). lia.
    - unfold do_complete in H.
      destruct (w_sess w) as [s|] eqn:Es; [|inversion H; subst; exact Hinv].
      destruct (negb (s_total s =? s_size s)); [inversion H; subst; exact Hinv|].
      destruct listed as [|l0 listed]; [inversion H; subst; exact Hinv|].
      destruct (negb (forallb _ (l0 :: listed))); [inversion H; subst; exact Hinv|].
      destruct (negb (listed_exact (l0 :: listed) 1 (s_next s))); [inversion H; subst; exact Hinv|].
      destruct (f || negb (w_s3open w)); [inversion H; subst; exact Hinv|].
      destruct (assemble (w_s3parts w) 0 (l0 :: listed)); [|inversion H; subst; exact Hinv].
      destruct (nonempty (s_expect s) && nonempty (checksum_of hashf (s_alg s) (s_hashed s)) &&
                negb (bytes_eqb (s_expect s) (checksum_of hashf (s_alg s) (s_hashed s)))).
      { inversion H; subst. unfold inv. cbn. try rewrite Es. intros; discriminate. }
      destruct (broker_status r =? 200); inversion H; subst; unfold inv; cbn;
        try rewrite Es; intros; discriminate.
    - unfold do_abort in H. destruct (w_sess w) eqn:Es; inversion H; subst; [|exact Hinv].
      unfold inv. cbn. intros; discriminate.
  Qed.

  Lemma run_inv cfg : forall es w w' rs, inv w -> run hashf cfg w es = (w', rs) -> inv w'.
  Proof.
    induction es as [|e es IH]; intros w w' rs Hinv H; cbn in H.
    - inversion H; subst. exact Hinv.
    - destruct (step hashf cfg w e) as [w1 p] eqn:Es.
      destruct (run hashf cfg w1 es) as [w2 ps] eqn:Er. inversion H; subst.
      eapply IH; [|exact Er]. eapply step_inv; eauto.
  Qed.

  (* ---------- soundness of a 200 answer ---------- *)
  Definition completion_reply (e : event) : option reply :=
    match e with
    | EProduce _ _ _ _ r => Some r
    | EComplete _ _ r => Some r
    | _ => None
    end.

  (* the broker itself answered this request's produce with error code 0 *)
  Definition acked (e : event) : Prop :=
    exists r, completion_reply e = Some r /\ broker_answer r = Some 0.

  Definition sound (e : event) (w' : world) (env : envelope) : Prop :=
    acked e /\
    exists obj, get_obj (e_key env) (w_objects w') = Some obj /\
                e_size env = bsize obj /\ e_sha env = hashf 0 obj.

  Lemma broker_status_200 r : broker_status r =? 200 = true -> broker_answer r = Some 0.
  Proof.
    destruct r as [c| | | | |c|c]; cbn; try discriminate;
    destruct (c =? 0) eqn:E; try discriminate; apply Z.eqb_eq in E; now subst.
  Qed.

  Lemma produce_finish_sound key pieces csum alg r w1 obj w' p env :
    obj = pieces ->
    produce_finish hashf key pieces csum alg r (put_obj w1 key obj) = (w', p) ->
    p_env p = Some env ->
    broker_answer r = Some 0 /\ get_obj (e_key env) (w_objects w') = Some obj /\
    e_size env = bsize obj /\ e_sha env = hashf 0 obj.
  Proof.
    intros -> H Henv. unfold produce_finish in H.
    destruct (nonempty csum && nonempty (checksum_of hashf alg pieces) &&
              negb (bytes_eqb csum (checksum_of hashf alg pieces))).
    { inversion H; subst. discriminate. }
    destruct (broker_status r =? 200) eqn:Eb; inversion H; subst; cbn in Henv; [|discriminate].
    inversion Henv; subst. cbn. rewrite Z.eqb_refl. split; [now apply broker_status_200|auto].
  Qed.

  Lemma step_sound cfg w e w' p env :
    inv w -> step hashf cfg w e = (w', p) -> p_env p = Some env -> sound e w' env.
  Proof.
    intros Hinv H Henv. destruct e as [ps cs alg fs r|size cs alg f|n body f|listed f r|]; cbn in H.
    - unfold do_produce in H.
      destruct (alg <? 0); [inversion H; subst; discriminate|].
      destruct (nonempty cs && (alg =? 3)); [inversion H; subst; discriminate|].
      destruct ps as [|first rest]; [inversion H; subst; discriminate|].
      destruct (match rest with [] => snd first <? c_min_part cfg | _ => false end).
      + destruct (fst (next_fault fs)); [inversion H; subst; discriminate|].
        eapply produce_finish_sound in H; [|reflexivity|exact Henv].
        destruct H as (Ha & H2 & H3 & H4). split; [eexists; split; [reflexivity|exact Ha]|]. eexists; eauto.
      + destruct (fst (next_fault fs)); [inversion H; subst; discriminate|].
        destruct (stream_parts cfg (first :: rest) 1 0 (snd (next_fault fs)) []) as [[st fs1] acc] eqn:Esp.
        destruct (negb (st =? 200)) eqn:Est; [inversion H; subst; discriminate|].
        destruct (fst (next_fault fs1)); [inversion H; subst; discriminate|].
        apply negb_false_iff, Z.eqb_eq in Est.
        apply stream_parts_ok in Esp; [|exact Est|exact I|reflexivity].
        destruct Esp as [Hnum Hmap]. cbn [map app] in Hmap.
        rewrite (assemble_all acc Hnum), Hmap in H.
        eapply produce_finish_sound in H; [|reflexivity|exact Henv].
        destruct H as (Ha & H2 & H3 & H4). split; [eexists; split; [reflexivity|exact Ha]|]. eexists; eauto.
    - unfold do_init in H.
      destruct (size <=? 0); [inversion H; subst; discriminate|].
      destruct ((0 <? c_max_blob cfg) && (c_max_blob cfg <? size)); [inversion H; subst; discriminate|].
      destruct (alg <? 0); [inversion H; subst; discriminate|].
      destruct (nonempty cs && (alg =? 3)); [inversion H; subst; discriminate|].
      destruct f; inversion H; subst; discriminate.
    - unfold do_part in H.
      destruct ((n <=? 0) || (2147483647 <? n)); [inversion H; subst; discriminate|].
      destruct (w_sess w) as [s|]; [|inversion H; subst; discriminate].
      destruct (get_part n (s_parts s)); [inversion H; subst; discriminate|].
      destruct (negb (n =? s_next s)); [inversion H; subst; discriminate|].
      destruct (snd body =? 0); [inversion H; subst; discriminate|].
      destruct (c_part_size cfg <? snd body); [inversion H; subst; discriminate|].
      destruct (s_size s <? s_total s + snd body); [inversion H; subst; discriminate|].
      destruct ((s_total s + snd body <? s_size s) && (snd body <? c_min_part cfg)); [inversion H; subst; discriminate|].
      destruct (f || negb (w_s3open w)); inversion H; subst; discriminate.
    - unfold do_complete in H.
      destruct (w_sess w) as [s|] eqn:Es; [|inversion H; subst; discriminate].
      destruct (negb (s_total s =? s_size s)); [inversion H; subst; discriminate|].
      destruct listed as [|l0 listed]; [inversion H; subst; discriminate|].
      destruct (negb (forallb _ (l0 :: listed))) eqn:Eall; [inversion H; subst; discriminate|].
      destruct (negb (listed_exact (l0 :: listed) 1 (s_next s))) eqn:Eex; [inversion H; subst; discriminate|].
      destruct (f || negb (w_s3open w)) eqn:Eo; [inversion H; subst; discriminate|].
      apply orb_false_iff in Eo as [_ Eo]. apply negb_false_iff in Eo.
      unfold inv in Hinv. rewrite Es in Hinv. destruct (Hinv Eo) as (H1 & H2 & H3 & H4 & H5).
      apply negb_false_iff in Eall. apply negb_false_iff in Eex.
      assert (l0 :: listed = listed_all (w_s3parts w)) as El.
      { apply (listed_exact_eq (s_parts s) (w_s3parts w) (l0 :: listed) 1); [exact H1| | |exact Eall].
        - intros n c Hin. rewrite H2, get_part_listed_all. rewrite (get_part_in 1 _ n c H1 Hin). reflexivity.
        - rewrite <- H4. exact Eex. }
      rewrite El, (assemble_all _ H1) in H.
      destruct (nonempty (s_expect s) && nonempty (checksum_of hashf (s_alg s) (s_hashed s)) &&
                negb (bytes_eqb (s_expect s) (checksum_of hashf (s_alg s) (s_hashed s)))).
      { inversion H; subst. discriminate. }
      destruct (broker_status r =? 200) eqn:Eb; inversion H; subst; cbn in Henv; [|discriminate].
      inversion Henv; subst. split; [eexists; split; [reflexivity|now apply broker_status_200]|].
      exists (map snd (w_s3parts w)). cbn. rewrite Z.eqb_refl. rewrite H5, H3. auto.
    - unfold do_abort in H. destruct (w_sess w); inversion H; subst; discriminate.
  Qed.

  Theorem success_sound cfg es w rs e w' p env :
    run hashf cfg init_world es = (w, rs) ->
    step hashf cfg w e = (w', p) ->
    p_env p = Some env ->
    p_status p = 200 /\ sound e w' env.
  Proof.
    intros Hrun Hstep Henv.
    pose proof (run_inv cfg es init_world w rs inv_init Hrun) as Hinv.
    split; [|eapply step_sound; eauto].
    pose proof (step_sound cfg w e w' p env Hinv Hstep Henv) as [Hr _].
    (* an envelope is only ever attached to a 200 answer *)
    clear Hr. revert Hstep Henv. clear.
    destruct e as [ps cs alg fs r|size cs alg f|n body f|listed f r|]; cbn; intros H Henv.
    - unfold do_produce in H.
      repeat match type of H with
      | (if ?c then _ else _) = _ => destruct c
      | (match ?c with _ => _ end) = _ => destruct c
      | (let '(_, _) := ?c in _) = _ => destruct c
      end; try (inversion H; subst; cbn in Henv; discriminate);
      unfold produce_finish in H;
      repeat match type of H with
      | (if ?c then _ else _) = _ => destruct c
      end; inversion H; subst; cbn in *; try discriminate;
      match goal with |- context [if ?c then _ else _] => destruct c end; cbn in *; try discriminate; reflexivity.
    - unfold do_init in H.
      repeat match type of H with (if ?c then _ else _) = _ => destruct c end;
      inversion H; subst; discriminate.
    - unfold do_part in H.
      repeat match type of H with
      | (if ?c then _ else _) = _ => destruct c
      | (match ?c with _ => _ end) = _ => destruct c
      end; inversion H; subst; discriminate.
    - unfold do_complete in H.
      repeat match type of H with
      | (if ?c then _ else _) = _ => destruct c
      | (match ?c with _ => _ end) = _ => destruct c
      end; inversion H; subst; cbn in *; try discriminate; reflexivity.
    - unfold do_abort in H. destruct (w_sess w); inversion H; subst; discriminate.
  Qed.
  Lemma produce_finish_200 key pieces csum alg r w2 w' p :
    produce_finish hashf key pieces csum alg r w2 = (w', p) -> p_status p = 200 -> p_env p <> None.
  Proof.
    unfold produce_finish. intros H H200.
    destruct (nonempty csum && nonempty (checksum_of hashf alg pieces) &&
              negb (bytes_eqb csum (checksum_of hashf alg pieces))).
    { inversion H; subst. discriminate. }
    destruct (broker_status r =? 200) eqn:E; inversion H; subst; cbn in *; [discriminate|].
    apply Z.eqb_neq in E. contradiction.
  Qed.

  Lemma completion_200_env cfg w e w' p r :
    step hashf cfg w e = (w', p) -> completion_reply e = Some r -> p_status p = 200 -> p_env p <> None.
  Proof.
    intros H Hr H200. destruct e as [ps cs alg fs r0|size cs alg f|n body f|listed f r0|]; cbn in H, Hr; try discriminate.
    - unfold do_produce in H.
      destruct (alg <? 0); [inversion H; subst; discriminate|].
      destruct (nonempty cs && (alg =? 3)); [inversion H; subst; discriminate|].
      destruct ps as [|first rest]; [inversion H; subst; discriminate|].
      destruct (match rest with [] => snd first <? c_min_part cfg | _ => false end).
      + destruct (fst (next_fault fs)); [inversion H; subst; discriminate|].
        eapply produce_finish_200; eauto.
      + destruct (fst (next_fault fs)); [inversion H; subst; discriminate|].
        destruct (stream_parts cfg (first :: rest) 1 0 (snd (next_fault fs)) []) as [[st fs1] acc].
        destruct (negb (st =? 200)) eqn:Est.
        { inversion H; subst. cbn in H200. subst st. discriminate. }
        destruct (fst (next_fault fs1)); [inversion H; subst; discriminate|].
        destruct (assemble acc 0 (listed_all acc)); [|inversion H; subst; discriminate].
        eapply produce_finish_200; eauto.
    - unfold do_complete in H.
      destruct (w_sess w) as [s|]; [|inversion H; subst; discriminate].
      destruct (negb (s_total s =? s_size s)); [inversion H; subst; discriminate|].
      destruct listed as [|l0 listed]; [inversion H; subst; discriminate|].
      destruct (negb (forallb _ (l0 :: listed))); [inversion H; subst; discriminate|].
      destruct (negb (listed_exact (l0 :: listed) 1 (s_next s))); [inversion H; subst; discriminate|].
      destruct (f || negb (w_s3open w)); [inversion H; subst; discriminate|].
      destruct (assemble (w_s3parts w) 0 (l0 :: listed)); [|inversion H; subst; discriminate].
      destruct (nonempty (s_expect s) && nonempty (checksum_of hashf (s_alg s) (s_hashed s)) &&
                negb (bytes_eqb (s_expect s) (checksum_of hashf (s_alg s) (s_hashed s)))).
      { inversion H; subst. discriminate. }
      destruct (broker_status r0 =? 200) eqn:E; inversion H; subst; cbn in *; [discriminate|].
      apply Z.eqb_neq in E. contradiction.
  Qed.

  Theorem broker_error_rejected cfg es w rs e w' p r :
    run hashf cfg init_world es = (w, rs) ->
    step hashf cfg w e = (w', p) ->
    completion_reply e = Some r -> broker_answer r <> Some 0 ->
    p_status p <> 200 /\ p_env p = None.
  Proof.
    intros Hrun Hstep Hr Hne.
    destruct (p_env p) as [env|] eqn:Henv.
    - destruct (success_sound cfg es w rs e w' p env Hrun Hstep Henv) as (_ & (r0 & Hc & Ha) & _).
      rewrite Hr in Hc. inversion Hc; subst. contradiction.
    - split; [|reflexivity]. intros H200.
      apply (completion_200_env cfg w e w' p r Hstep Hr H200). exact Henv.
  Qed.
  (* ---------- session map, expiry, requests in flight ---------- *)
  Lemma step_env_200 cfg w e w' p env :
    inv w -> step hashf cfg w e = (w', p) -> p_env p = Some env -> p_status p = 200.
  Proof.
    intros Hinv Hstep Henv.
    destruct (Z.eq_dec (p_status p) 200) as [E|E]; [exact E|exfalso].
    (* fail st never carries an envelope; mkResp 200 (Some _) has status 200 *)
    revert Hstep Henv E. clear. intros H Henv E.
    assert (forall st c, p = mkResp st None c -> False) as Hf by (intros st c ->; discriminate).
    destruct e as [ps cs alg fs r|size cs alg f|n body f|listed f r|]; cbn in H.
    - unfold do_produce in H.
      destruct (alg <? 0); [inversion H; subst; eapply Hf; reflexivity|].
      destruct (nonempty cs && (alg =? 3)); [inversion H; subst; eapply Hf; reflexivity|].
      destruct ps as [|first rest]; [inversion H; subst; eapply Hf; reflexivity|].
      assert (forall key obj w1, produce_finish hashf key (first :: rest) cs alg r (put_obj w1 key obj) = (w', p) -> False) as Hfin.
      { intros key obj w1 Hp. unfold produce_finish in Hp.
        destruct (nonempty cs && nonempty (checksum_of hashf alg (first :: rest)) &&
                  negb (bytes_eqb cs (checksum_of hashf alg (first :: rest)))); [inversion Hp; subst; eapply Hf; reflexivity|].
        destruct (broker_status r =? 200); inversion Hp; subst; [apply E; reflexivity|eapply Hf; reflexivity]. }
      destruct (match rest with [] => snd first <? c_min_part cfg | _ => false end).
      + destruct (fst (next_fault fs)); [inversion H; subst; eapply Hf; reflexivity|]. eapply Hfin; eauto.
      + destruct (fst (next_fault fs)); [inversion H; subst; eapply Hf; reflexivity|].
        destruct (stream_parts cfg (first :: rest) 1 0 (snd (next_fault fs)) []) as [[st fs1] acc].
        destruct (negb (st =? 200)); [inversion H; subst; eapply Hf; reflexivity|].
        destruct (fst (next_fault fs1)); [inversion H; subst; eapply Hf; reflexivity|].
        destruct (assemble acc 0 (listed_all acc)); [|inversion H; subst; eapply Hf; reflexivity].
        eapply Hfin; eauto.
    - unfold do_init in H.
      repeat match type of H with (if ?c then _ else _) = _ => destruct c end;
      inversion H; subst; eapply Hf; reflexivity.
    - unfold do_part in H.
      repeat match type of H with
      | (if ?c then _ else _) = _ => destruct c
      | (match ?c with _ => _ end) = _ => destruct c
      end; inversion H; subst; eapply Hf; reflexivity.
    - unfold do_complete in H.
      destruct (w_sess w) as [s|]; [|inversion H; subst; eapply Hf; reflexivity].
      destruct (negb (s_total s =? s_size s)); [inversion H; subst; eapply Hf; reflexivity|].
      destruct listed as [|l0 listed]; [inversion H; subst; eapply Hf; reflexivity|].
      destruct (negb (forallb _ (l0 :: listed))); [inversion H; subst; eapply Hf; reflexivity|].
      destruct (negb (listed_exact (l0 :: listed) 1 (s_next s))); [inversion H; subst; eapply Hf; reflexivity|].
      destruct (f || negb (w_s3open w)); [inversion H; subst; eapply Hf; reflexivity|].
      destruct (assemble (w_s3parts w) 0 (l0 :: listed)); [|inversion H; subst; eapply Hf; reflexivity].
      destruct (nonempty (s_expect s) && nonempty (checksum_of hashf (s_alg s) (s_hashed s)) &&
                negb (bytes_eqb (s_expect s) (checksum_of hashf (s_alg s) (s_hashed s)))); [inversion H; subst; eapply Hf; reflexivity|].
      destruct (broker_status r =? 200); inversion H; subst; [apply E; reflexivity|eapply Hf; reflexivity].
    - unfold do_abort in H. destruct (w_sess w); inversion H; subst; eapply Hf; reflexivity.
  Qed.

  Lemma body_spec cfg y e y' p :
    body hashf cfg y e = (y', p) ->
    (p = fail 410 /\ y_w y' = y_w y) \/ step hashf cfg (y_w y) e = (y_w y', p).
  Proof.
    unfold body. intros H. destruct e as [ps cs alg fs r|size cs alg f|n b f|listed f r|].
    - destruct (step hashf cfg (y_w y) (EProduce ps cs alg fs r)) as [w' p']. inversion H; subst. now right.
    - destruct (step hashf cfg (y_w y) (EInit size cs alg f)) as [w' p'].
      destruct (p_status p' =? 200); inversion H; subst; now right.
    - destruct (y_expired y); [inversion H; subst; left; auto|].
      destruct (step hashf cfg (y_w y) (EPart n b f)) as [w' p']. inversion H; subst. now right.
    - destruct (y_expired y); [inversion H; subst; left; auto|].
      destruct (step hashf cfg (y_w y) (EComplete listed f r)) as [w' p']. inversion H; subst. now right.
    - destruct (step hashf cfg (y_w y) EAbort) as [w' p']. inversion H; subst. now right.
  Qed.

  Lemma lookup_w y y1 found : lookup y = (y1, found) -> y_w y1 = y_w y /\ y_pending y1 = y_pending y.
  Proof. unfold lookup. destruct (y_expired y); intros H; inversion H; subst; auto. Qed.

  (* the request whose body produced the response of a [cstep] *)
  Definition executed (y : sys) (c : cevent) : option event :=
    match c with
    | CReq e => Some e
    | CArrive e => Some e
    | CRun i => nth_error (y_pending y) i
    | CExpire => None
    end.

  Definition outside (op : option response) : Prop :=
    forall p, op = Some p -> p_env p = None /\ p_status p <> 200.

  Ltac out_tac := intros ? Hp; inversion Hp; subst; cbn; split; [reflexivity|lia].

  Lemma precheck_out e p0 : precheck e = Some p0 -> outside (Some p0).
  Proof.
    destruct e; cbn; try discriminate.
    destruct ((n <=? 0) || (2147483647 <? n)); intros H; inversion H; subst. out_tac.
  Qed.

  Lemma cstep_spec cfg y c y' op :
    cstep hashf cfg y c = (y', op) ->
    (y_w y' = y_w y /\ outside op) \/
    exists e p, executed y c = Some e /\ op = Some p /\ step hashf cfg (y_w y) e = (y_w y', p).
  Proof.
    intros H. destruct c as [e|e|i|]; cbn in H.
    - destruct (is_session_event e).
      + destruct (precheck e) as [p0|] eqn:Ep.
        { inversion H; subst. left. split; [reflexivity|]. eapply precheck_out; eauto. }
        destruct (lookup y) as [y1 found] eqn:El. apply lookup_w in El. destruct El as [Ew _].
        destruct found.
        * destruct (body hashf cfg y1 e) as [y2 p] eqn:Eb. inversion H; subst.
          apply body_spec in Eb. destruct Eb as [[-> Eq]|Eb].
          { left. split; [congruence|]. out_tac. }
          right. exists e, p. rewrite Ew in Eb. auto.
        * inversion H; subst. left. split; [exact Ew|]. out_tac.
      + destruct (body hashf cfg y e) as [y2 p] eqn:Eb. inversion H; subst.
        apply body_spec in Eb. destruct Eb as [[-> Eq]|Eb].
        { left. split; [exact Eq|]. out_tac. }
        right. exists e, p. auto.
    - destruct (is_session_event e).
      + destruct (precheck e) as [p0|] eqn:Ep.
        { inversion H; subst. left. split; [reflexivity|]. eapply precheck_out; eauto. }
        destruct (lookup y) as [y1 found] eqn:El. apply lookup_w in El. destruct El as [Ew _].
        destruct found; inversion H; subst; left; (split; [cbn; exact Ew|]).
        * intros ? Hp; discriminate.
        * out_tac.
      + destruct (body hashf cfg y e) as [y2 p] eqn:Eb. inversion H; subst.
        apply body_spec in Eb. destruct Eb as [[-> Eq]|Eb].
        { left. split; [exact Eq|]. out_tac. }
        right. exists e, p. auto.
    - destruct (nth_error (y_pending y) i) as [e|] eqn:En.
      + destruct (body hashf cfg _ e) as [y2 p] eqn:Eb. inversion H; subst.
        apply body_spec in Eb. cbn [y_w] in Eb. destruct Eb as [[-> Eq]|Eb].
        { left. split; [exact Eq|]. out_tac. }
        right. exists e, p. auto.
      + inversion H; subst. left. split; [reflexivity|]. intros ? Hp; discriminate.
    - inversion H; subst. left. split; [reflexivity|]. intros ? Hp; discriminate.
  Qed.

  Lemma cstep_inv cfg y c y' op : inv (y_w y) -> cstep hashf cfg y c = (y', op) -> inv (y_w y').
  Proof.
    intros Hinv H. apply cstep_spec in H. destruct H as [[-> _]|(e & p & _ & _ & Hs)]; [exact Hinv|].
    eapply step_inv; eauto.
  Qed.

  Lemma crun_inv cfg : forall cs y y' rs, inv (y_w y) -> crun hashf cfg y cs = (y', rs) -> inv (y_w y').
  Proof.
    induction cs as [|c cs IH]; intros y y' rs Hinv H; cbn in H.
    - inversion H; subst. exact Hinv.
    - destruct (cstep hashf cfg y c) as [y1 p] eqn:Es.
      destruct (crun hashf cfg y1 cs) as [y2 ps] eqn:Er. inversion H; subst.
      eapply IH; [|exact Er]. eapply cstep_inv; eauto.
  Qed.

  (* C32 for every interleaving: whatever requests arrived, waited, ran in whatever lock
     order, with the session expiring at any point *)
  Theorem csuccess_sound cfg cs y rs c y' p env :
    crun hashf cfg init_sys cs = (y, rs) ->
    cstep hashf cfg y c = (y', Some p) ->
    p_env p = Some env ->
    exists e, executed y c = Some e /\ p_status p = 200 /\ sound e (y_w y') env.
  Proof.
    intros Hrun Hstep Henv.
    pose proof (crun_inv cfg cs init_sys y rs inv_init Hrun) as Hinv.
    apply cstep_spec in Hstep. destruct Hstep as [[_ Hno]|(e & p' & He & Hp & Hs)].
    - exfalso. destruct (Hno p eq_refl) as [Hn _]. congruence.
    - inversion Hp; subst p'. exists e. split; [exact He|]. split.
      + eapply step_env_200; eauto.
      + eapply step_sound; eauto.
  Qed.

  Theorem cbroker_error_rejected cfg cs y rs c y' p e r :
    crun hashf cfg init_sys cs = (y, rs) ->
    cstep hashf cfg y c = (y', Some p) ->
    executed y c = Some e -> completion_reply e = Some r -> broker_answer r <> Some 0 ->
    p_status p <> 200 /\ p_env p = None.
  Proof.
    intros Hrun Hstep He Hr Hne.
    destruct (p_env p) as [env|] eqn:Henv.
    - destruct (csuccess_sound cfg cs y rs c y' p env Hrun Hstep Henv) as (e' & He' & _ & (r0 & Hc & Ha) & _).
      rewrite He in He'. inversion He'; subst e'. rewrite Hr in Hc. inversion Hc; subst. contradiction.
    - split; [|reflexivity]. intros H200.
      pose proof Hstep as Hs2. apply cstep_spec in Hs2.
      destruct Hs2 as [[_ Hno]|(e' & p' & He' & Hp & Hs)].
      + destruct (Hno p eq_refl) as [_ Hn]. contradiction.
      + inversion Hp; subst p'. rewrite He in He'. inversion He'; subst e'.
        apply (completion_200_env cfg (y_w y) e (y_w y') p r Hs Hr H200). exact Henv.
  Qed.
End Proofs.
