From KS Require Import lib.Base model.Upload.
Open Scope Z_scope.
