(* Proofs about the read-path model (C03, C04). *)
From Coq Require Import ZifyBool.
From KS Require Import lib.Base model.ReadPath.
Open Scope Z_scope.

(* ------------------------------------------------------------------ *)
(* A. lists, slices                                                     *)
(* ------------------------------------------------------------------ *)
Lemma ztake_all {A} (n : Z) (l : list A) : zlen l <= n -> ztake n l = l.
Proof. unfold ztake, zlen; intros H. apply firstn_all2. lia. Qed.

Lemma ztake_app_l {A} (n : Z) (l1 l2 : list A) : n <= zlen l1 -> ztake n (l1 ++ l2) = ztake n l1.
Proof.
  unfold ztake, zlen; intros H. rewrite firstn_app.
  replace (Z.to_nat n - length l1)%nat with 0%nat by lia. cbn. apply app_nil_r.
Qed.

Lemma zlen_ztake {A} (n : Z) (l : list A) : 0 <= n <= zlen l -> zlen (ztake n l) = n.
Proof. unfold ztake, zlen; intros H. rewrite firstn_length. lia. Qed.

Lemma zlen_ztake_le {A} (n : Z) (l : list A) : zlen (ztake n l) <= zlen l.
Proof. unfold ztake, zlen. rewrite firstn_length. lia. Qed.

Lemma zdrop_app_exact {A} (l1 l2 : list A) (a : Z) :
  0 <= a -> zdrop (zlen l1 + a) (l1 ++ l2) = zdrop a l2.
Proof.
  unfold zdrop, zlen; intros H.
  replace (Z.to_nat (Z.of_nat (length l1) + a)) with (length l1 + Z.to_nat a)%nat by lia.
  rewrite skipn_app. rewrite skipn_all2 by lia.
  replace (length l1 + Z.to_nat a - length l1)%nat with (Z.to_nat a) by lia. reflexivity.
Qed.

Lemma zlen_zdrop {A} (a : Z) (l : list A) : 0 <= a <= zlen l -> zlen (zdrop a l) = zlen l - a.
Proof. unfold zdrop, zlen; intros H. rewrite skipn_length. lia. Qed.

(* data[h+a : h+a+n] of h ++ body ++ f *)
Lemma slice_mid (h body f : bytes) (a n : Z) :
  0 <= a -> 0 <= n -> a + n <= zlen body ->
  slice (h ++ body ++ f) (zlen h + a) (zlen h + a + n) = ztake n (zdrop a body).
Proof.
  intros Ha Hn Hb. unfold slice.
  replace (zlen h + a + n - (zlen h + a)) with n by lia.
  rewrite zdrop_app_exact by lia.
  unfold zdrop. rewrite skipn_app.
  apply ztake_app_l. fold (zdrop a body). rewrite zlen_zdrop; lia.
Qed.

Lemma body_of_app (a b : list batch) : body_of (a ++ b) = body_of a ++ body_of b.
Proof. unfold body_of. rewrite map_app, concat_app. reflexivity. Qed.

Lemma body_of_cons b r : body_of (b :: r) = b_bytes b ++ body_of r.
Proof. reflexivity. Qed.

Lemma zdrop_body_prefix (bs : list batch) (k : nat) :
  zdrop (zlen (body_of (firstn k bs))) (body_of bs) = body_of (skipn k bs).
Proof.
  rewrite <- (firstn_skipn k bs) at 2. rewrite body_of_app.
  replace (zlen (body_of (firstn k bs))) with (zlen (body_of (firstn k bs)) + 0) by lia.
  rewrite zdrop_app_exact by lia. reflexivity.
Qed.

Lemma is_nil_false {A} (l : list A) : is_nil l = false <-> l <> [].
Proof. destruct l; cbn; split; congruence. Qed.

Lemma is_nil_true {A} (l : list A) : is_nil l = true <-> l = [].
Proof. destruct l; cbn; split; congruence. Qed.

(* ------------------------------------------------------------------ *)
(* B. ordered batch lists                                               *)
(* ------------------------------------------------------------------ *)
(* every batch starts at or after [lo], has lastOffsetDelta >= 0, at least the 61
   header bytes, and the next batch starts after its last offset *)
Fixpoint chain (lo : Z) (bs : list batch) : Prop :=
  match bs with
  | [] => True
  | b :: r => lo <= b_base b /\ 0 <= b_lod b /\ 61 <= zlen (b_bytes b) /\ chain (b_last b + 1) r
  end.

Fixpoint hi_of (lo : Z) (bs : list batch) : Z :=
  match bs with [] => lo | b :: r => hi_of (b_last b + 1) r end.

Lemma chain_weaken lo lo' bs : lo' <= lo -> chain lo bs -> chain lo' bs.
Proof. destruct bs; cbn; [tauto|]. intros H (H1 & H2 & H3 & H4). repeat split; try assumption; lia. Qed.

Lemma hi_of_ge lo bs : chain lo bs -> lo <= hi_of lo bs.
Proof.
  revert lo; induction bs as [|b r IH]; intros lo; cbn; [lia|].
  intros (H1 & H2 & H3 & H4). apply IH in H4. unfold b_last in *. lia.
Qed.

Lemma chain_app lo a b : chain lo (a ++ b) <-> chain lo a /\ chain (hi_of lo a) b.
Proof.
  revert lo; induction a as [|x a IH]; intros lo; cbn; [tauto|].
  rewrite IH. tauto.
Qed.

Lemma hi_of_app lo a b : hi_of lo (a ++ b) = hi_of (hi_of lo a) b.
Proof. revert lo; induction a as [|x a IH]; intros lo; cbn; [reflexivity|]. apply IH. Qed.

(* all last offsets of a chain lie below its upper end *)
Lemma chain_last_lt lo bs : chain lo bs -> Forall (fun b => b_last b < hi_of lo bs) bs.
Proof.
  revert lo; induction bs as [|b r IH]; intros lo; cbn; [constructor|].
  intros (H1 & H2 & H3 & H4). constructor.
  - apply hi_of_ge in H4. lia.
  - apply IH. exact H4.
Qed.

Lemma chain_base_ge lo bs : chain lo bs -> Forall (fun b => lo <= b_base b) bs.
Proof.
  revert lo; induction bs as [|b r IH]; intros lo; cbn; [constructor|].
  intros (H1 & H2 & H3 & H4). constructor; [exact H1|].
  apply IH in H4. eapply Forall_impl; [|exact H4]. cbn. unfold b_last. intros; lia.
Qed.

Lemma chain_nonempty_bytes lo bs : chain lo bs -> Forall (fun b => 61 <= zlen (b_bytes b)) bs.
Proof.
  revert lo; induction bs as [|b r IH]; intros lo; cbn; [constructor|].
  intros (H1 & H2 & H3 & H4). constructor; [exact H3|]. eapply IH; exact H4.
Qed.

Lemma chain_skipn lo bs k : chain lo bs -> chain (hi_of lo (firstn k bs)) (skipn k bs).
Proof.
  intros H. rewrite <- (firstn_skipn k bs) in H. apply chain_app in H. tauto.
Qed.

Lemma last_last_snoc a b : last_last (a ++ [b]) = b_last b.
Proof. unfold last_last. rewrite List.last_last. reflexivity. Qed.

Lemma hi_of_last lo bs : bs <> [] -> hi_of lo bs = last_last bs + 1.
Proof.
  intros H. destruct (exists_last H) as (a & b & ->). rewrite hi_of_app, last_last_snoc. reflexivity.
Qed.

Lemma body_nonempty lo bs : chain lo bs -> bs <> [] -> 61 <= zlen (body_of bs).
Proof.
  destruct bs as [|b r]; [congruence|]. cbn [chain]. intros (_ & _ & H & _) _.
  rewrite body_of_cons, zlen_app. pose proof (zlen_nonneg (body_of r)). lia.
Qed.

Lemma chain_last_ge lo bs : chain lo bs -> Forall (fun b => lo <= b_last b) bs.
Proof.
  revert lo; induction bs as [|b r IH]; intros lo; cbn [chain]; [constructor|].
  intros (H1 & H2 & H3 & H4). constructor; [unfold b_last; lia|].
  apply IH in H4. eapply Forall_impl; [|exact H4]. cbn. unfold b_last. intros; lia.
Qed.

Lemma hi_of_mono lo lo' bs : lo <= lo' -> hi_of lo bs <= hi_of lo' bs.
Proof. destruct bs; cbn; lia. Qed.

Definition dflt : batch := mkBatch 0 0 0 [].

(* the batches before position k end below the base of batch k *)
Lemma chain_firstn_lt lo bs k : chain lo bs -> (k < length bs)%nat ->
  Forall (fun b => b_last b < b_base (nth k bs dflt)) (firstn k bs).
Proof.
  intros H Hk. pose proof (chain_skipn lo bs k H) as Hs.
  rewrite <- (firstn_skipn k bs) in H. apply chain_app in H as [Hf _].
  apply chain_last_lt in Hf.
  assert (Hn : exists r, skipn k bs = nth k bs dflt :: r).
  { clear -Hk. revert k Hk; induction bs as [|b r IH]; intros k Hk; cbn in Hk; [lia|].
    destruct k; cbn; [eauto|]. apply IH. lia. }
  destruct Hn as (r & Hr). rewrite Hr in Hs. cbn [chain] in Hs. destruct Hs as (Hb & _).
  eapply Forall_impl; [|exact Hf]. cbn. intros; lia.
Qed.

(* ------------------------------------------------------------------ *)
(* C. recordsFromBatches                                                *)
(* ------------------------------------------------------------------ *)
Lemma rf_tail o max r : forall out, 0 < zlen out -> Forall (fun b => o <= b_last b) r ->
  exists n, records_from_aux r o max out = out ++ body_of (firstn n r).
Proof.
  induction r as [|b r IH]; intros out Ho Hr; cbn [records_from_aux].
  - exists 0%nat. cbn. now rewrite app_nil_r.
  - inversion Hr as [|? ? Hb Hr']; subst.
    destruct (b_last b <? o) eqn:E1; [lia|].
    destruct ((0 <? zlen out) && ((max <=? 0) || (max <? zlen out + zlen (b_bytes b)))) eqn:E2.
    + exists 0%nat. cbn. now rewrite app_nil_r.
    + destruct (IH (out ++ b_bytes b)) as (n & Hn); [rewrite zlen_app; pose proof (zlen_nonneg (b_bytes b)); lia|exact Hr'|].
      exists (S n). rewrite Hn. cbn [firstn]. rewrite body_of_cons, app_assoc. reflexivity.
Qed.

(* the result is whole batches, starting with the first batch ending at or after o *)
Lemma rf_spec o max : forall lo bs, chain lo bs ->
  exists pre rest n, bs = pre ++ rest /\ Forall (fun b => b_last b < o) pre /\
    records_from bs o max = body_of (firstn n rest) /\
    (forall b r, rest = b :: r -> o <= b_last b /\ (1 <= n)%nat).
Proof.
  unfold records_from. intros lo bs; revert lo; induction bs as [|b r IH]; intros lo Hc.
  - exists [], [], 0%nat. cbn. repeat split; try constructor; intros; discriminate.
  - cbn [chain] in Hc. destruct Hc as (H1 & H2 & H3 & H4). cbn [records_from_aux].
    destruct (b_last b <? o) eqn:E1.
    + destruct (IH _ H4) as (pre & rest & n & -> & Hp & Hr & Hn).
      exists (b :: pre), rest, n. split; [reflexivity|]. split; [constructor; [lia|assumption]|].
      split; [exact Hr|exact Hn].
    + change (zlen (@nil Z)) with 0. cbn [Z.ltb Z.compare andb app].
      assert (Hge : Forall (fun x => o <= b_last x) r).
      { apply chain_last_ge in H4. eapply Forall_impl; [|exact H4]. cbn. intros; lia. }
      destruct (rf_tail o max r (b_bytes b)) as (n & Hn); [lia|exact Hge|].
      exists [], (b :: r), (S n). cbn [app firstn]. rewrite body_of_cons.
      split; [reflexivity|]. split; [constructor|]. split; [exact Hn|].
      intros b' r' [= <- <-]. split; lia.
Qed.

(* ------------------------------------------------------------------ *)
(* D. index, findIndexEntry, segment lookup                             *)
(* ------------------------------------------------------------------ *)
Lemma build_index_in iv : forall bs since first pos e,
  In e (build_index iv since first pos bs) ->
  exists k, (k < length bs)%nat /\ ie_off e = b_base (nth k bs dflt)
            /\ ie_pos e = pos + zlen (body_of (firstn k bs)).
Proof.
  induction bs as [|b r IH]; intros since first pos e; cbn [build_index]; [intros []|].
  intros H.
  assert (Hrest : In e (build_index iv ((if first || (iv <=? since) then 0 else since) + b_count b) false
                                    (pos + zlen (b_bytes b)) r) ->
                  exists k, (k < length (b :: r))%nat /\ ie_off e = b_base (nth k (b :: r) dflt)
                            /\ ie_pos e = pos + zlen (body_of (firstn k (b :: r)))).
  { intros Hin. apply IH in Hin as (k & Hk & Ho & Hp). exists (S k). cbn [length nth firstn].
    rewrite body_of_cons, zlen_app. repeat split; [lia|assumption|lia]. }
  destruct (first || (iv <=? since)).
  - destruct H as [<-|H]; [|auto]. exists 0%nat. cbn. repeat split; lia.
  - auto.
Qed.

Lemma build_index_first iv since pos b r :
  exists tl, build_index iv since true pos (b :: r) = mkEntry (b_base b) pos :: tl.
Proof. cbn. eauto. Qed.

Lemma nth_entry_in es i : 0 <= i < zlen es -> In (nth_entry es i) es.
Proof. unfold nth_entry, zlen. intros H. apply nth_In. lia. Qed.

Lemma bsearch_in fx es o : es <> [] -> forall fuel lo hi, 0 <= lo -> hi < zlen es ->
  In (bsearch fx fuel es o lo hi) es.
Proof.
  intros Hne. assert (H0 : In (nth_entry es 0) es).
  { apply nth_entry_in. destruct es; [congruence|]. rewrite zlen_cons. pose proof (zlen_nonneg es). lia. }
  induction fuel as [|fuel IH]; intros lo hi Hlo Hhi; cbn [bsearch]; [exact H0|].
  destruct (hi <? lo) eqn:E; [exact H0|].
  assert (Hm : lo <= (lo + hi) / 2 <= hi) by (split; [apply Z.div_le_lower_bound|apply Z.div_le_upper_bound]; lia).
  destruct (ie_off (nth_entry es ((lo + hi) / 2)) =? o); [apply nth_entry_in; lia|].
  destruct (ie_off (nth_entry es ((lo + hi) / 2)) <? o).
  - destruct ((if fx then _ else _) && _); [apply nth_entry_in; lia|apply IH; lia].
  - apply IH; lia.
Qed.

Lemma bsearch_le fx es o : ie_off (nth_entry es 0) <= o -> forall fuel lo hi,
  ie_off (bsearch fx fuel es o lo hi) <= o.
Proof.
  intros H0. induction fuel as [|fuel IH]; intros lo hi; cbn [bsearch]; [exact H0|].
  destruct (hi <? lo); [exact H0|].
  destruct (ie_off (nth_entry es ((lo + hi) / 2)) =? o) eqn:E1; [lia|].
  destruct (ie_off (nth_entry es ((lo + hi) / 2)) <? o) eqn:E2.
  - destruct ((if fx then _ else _) && _); [lia|apply IH].
  - apply IH.
Qed.

Lemma find_entry_in fx es o : es <> [] -> In (find_entry_gen fx es o) es.
Proof.
  intros Hne. unfold find_entry_gen. destruct es as [|e0 r] eqn:Ees; [congruence|]. rewrite <- Ees.
  assert (Hl : 1 <= zlen es) by (subst es; rewrite zlen_cons; pose proof (zlen_nonneg r); lia).
  destruct (o <=? ie_off e0); [subst es; now left|].
  destruct (ie_off (nth_entry es (zlen es - 1)) <=? o); [apply nth_entry_in; lia|].
  apply bsearch_in; [subst es; congruence|lia|lia].
Qed.

Lemma find_entry_le fx e0 r o : ie_off e0 <= o -> ie_off (find_entry_gen fx (e0 :: r) o) <= o.
Proof.
  intros H. unfold find_entry_gen.
  destruct (o <=? ie_off e0) eqn:E1; [lia|].
  destruct (ie_off (nth_entry (e0 :: r) (zlen (e0 :: r) - 1)) <=? o) eqn:E2; [lia|].
  apply bsearch_le. exact H.
Qed.

Lemma find_segment_some segs o s o' : find_segment segs o = Some (s, o') ->
  exists A B, segs = A ++ s :: B /\ Forall (fun x => s_last x < o) A /\
    ((o' = o /\ s_base s <= o <= s_last s) \/ (o' = s_base s /\ o < s_base s)).
Proof.
  induction segs as [|x r IH]; cbn [find_segment]; [discriminate|].
  destruct ((s_base x <=? o) && (o <=? s_last x)) eqn:E1.
  - intros [= <- <-]. exists [], r. repeat split; [constructor|left; lia].
  - destruct (o <? s_base x) eqn:E2.
    + intros [= <- <-]. exists [], r. repeat split; [constructor|right; lia].
    + intros H. destruct (IH H) as (A & B & -> & HA & Hc). exists (x :: A), B.
      repeat split; [constructor; [lia|assumption]|assumption].
Qed.

Lemma find_segment_none segs o : find_segment segs o = None -> Forall (fun x => s_last x < o) segs.
Proof.
  induction segs as [|x r IH]; cbn [find_segment]; [constructor|].
  destruct ((s_base x <=? o) && (o <=? s_last x)) eqn:E1; [discriminate|].
  destruct (o <? s_base x) eqn:E2; [discriminate|]. intros H. constructor; [lia|auto].
Qed.

(* ------------------------------------------------------------------ *)
(* E. the three read paths of a flushed segment agree                   *)
(* ------------------------------------------------------------------ *)
Lemma compute_range_shape v size es o max st en :
  compute_range_gen v size es o max = (st, en) ->
  (st = -1 /\ en = -1) \/ (st < size - 16 /\ en < size - 16).
Proof.
  unfold compute_range_gen, segment_footer_len.
  destruct (size <=? 16); [intros [= <- <-]; now left|].
  destruct (size - 16 <=? ie_pos (find_entry_gen (v_floor v) es o)) eqn:E; [intros [= <- <-]; now left|].
  intros [= <- <-]. right. destruct (0 <? max) eqn:E2; [|lia].
  destruct (v_ext v && (ie_off (find_entry_gen (v_floor v) es o) <? o)); lia.
Qed.

(* sliceCachedSegment on the object = what the S3 range read returns = what the full
   download + slice returns, for ANY index entries, offset and limit, as long as the
   registered size is the object's size *)
Lemma paths_agree_seg (fx : variant) s o max : s_size s = zlen (s_data s) ->
  read_uncached_gen fx s o max = read_cached_gen fx s o max.
Proof.
  intros Hsz. unfold read_uncached_gen, read_range_gen, read_full_gen, read_cached_gen, range_for_gen.
  cbn [s3_download].
  destruct ((s_size s <=? 0) || is_nil (s_entries s)) eqn:E0; [reflexivity|].
  apply orb_false_iff in E0 as [E0 E0'].
  unfold slice_cached_gen. rewrite E0'.
  destruct (compute_range_gen fx (s_size s) (s_entries s) o max) as [st en] eqn:Ecr.
  destruct ((st <? 0) || (en <? st)) eqn:E1; [reflexivity|].
  apply compute_range_shape in Ecr.
  unfold s3_download.
  assert (Hst : 0 <= st <= en /\ en < zlen (s_data s) - 16) by lia.
  replace (Z.max 0 st) with st by lia.
  destruct (zlen (s_data s) <=? en) eqn:E2; [lia|].
  destruct ((en <? st) || (zlen (s_data s) <=? st)) eqn:E3; [lia|].
  destruct (zlen (s_data s) <? st) eqn:E4; [lia|]. reflexivity.
Qed.

(* ------------------------------------------------------------------ *)
(* F. reading a segment built by BuildSegment                           *)
(* ------------------------------------------------------------------ *)
Lemma be_enc_len n v : zlen (be_enc n v) = Z.of_nat n.
Proof.
  revert v; induction n as [|n IH]; intros v; cbn [be_enc]; [reflexivity|].
  rewrite zlen_app, IH, zlen_cons, zlen_nil. lia.
Qed.

Lemma header_len b c t : zlen (build_header b c t) = 32.
Proof.
  unfold build_header, u16, u32, u64. rewrite !zlen_app, !be_enc_len. reflexivity.
Qed.

Lemma footer_len c l : zlen (build_footer c l) = 16.
Proof. unfold build_footer, u32, u64. rewrite !zlen_app, !be_enc_len. reflexivity. Qed.

Lemma ztake_min {A} (m : Z) (X : list A) : ztake (Z.min (zlen X) m) X = ztake m X.
Proof.
  destruct (Z.le_gt_cases (zlen X) m) as [H|H].
  - rewrite Z.min_l by lia. rewrite !ztake_all by lia. reflexivity.
  - rewrite Z.min_r by lia. reflexivity.
Qed.

Lemma slice_mid' (h body f : bytes) (st en a n : Z) :
  st = zlen h + a -> en = st + n -> 0 <= a -> 0 <= n -> a + n <= zlen body ->
  slice (h ++ body ++ f) st en = ztake n (zdrop a body).
Proof. intros -> -> Ha Hn Hb. apply slice_mid; assumption. Qed.

Lemma zlen_body_split bs k : zlen (body_of bs) = zlen (body_of (firstn k bs)) + zlen (body_of (skipn k bs)).
Proof. rewrite <- (firstn_skipn k bs) at 1. rewrite body_of_app, zlen_app. reflexivity. Qed.

Lemma skipn_nth_cons (bs : list batch) k : (k < length bs)%nat -> exists r, skipn k bs = nth k bs dflt :: r.
Proof.
  revert k; induction bs as [|b r IH]; intros k Hk; cbn in Hk; [lia|].
  destruct k; cbn; [eauto|]. apply IH. lia.
Qed.

(* the byte cap computeSegmentRange applies, relative to the start position *)
Definition cap_of (v : variant) (es : list ientry) (o' size max : Z) : Z :=
  let e := find_entry_gen (v_floor v) es o' in
  if v_ext v && (ie_off e <? o') then Z.max max (block_end es o' (size - 16) - ie_pos e) else max.

Definition capped (max cap : Z) (X : bytes) : bytes := if 0 <? max then ztake cap X else X.

Lemma cap_of_ge v es o' size max : max <= cap_of v es o' size max.
Proof. unfold cap_of. destruct (v_ext v && _); lia. Qed.

Lemma seg_read_cached v iv c r lo bs o' max :
  chain lo bs -> bs <> [] -> first_base bs <= o' ->
  let s := build_segment iv c r bs in
  exists k, (k < length bs)%nat /\
    ie_pos (find_entry_gen (v_floor v) (s_entries s) o') = 32 + zlen (body_of (firstn k bs)) /\
    ie_off (find_entry_gen (v_floor v) (s_entries s) o') = b_base (nth k bs dflt) /\
    b_base (nth k bs dflt) <= o' /\
    read_cached_gen v s o' max = ROk (capped max (cap_of v (s_entries s) o' (s_size s) max) (body_of (skipn k bs))).
Proof.
  intros Hc Hne Hfb s.
  assert (Ebs' : exists b0 rest, bs = b0 :: rest) by (destruct bs as [|b0 rest]; [congruence|eauto]).
  destruct Ebs' as (b0 & rest & Ebs).
  assert (Hent : exists tl, s_entries s = mkEntry (b_base b0) 32 :: tl).
  { subst s. unfold build_segment. cbn [s_entries]. rewrite Ebs. apply build_index_first. }
  destruct Hent as (tl & Hent).
  set (e := find_entry_gen (v_floor v) (s_entries s) o').
  assert (Hin : In e (s_entries s)) by (apply find_entry_in; rewrite Hent; congruence).
  assert (Hle : ie_off e <= o').
  { subst e. rewrite Hent. apply find_entry_le. cbn [ie_off]. subst bs. exact Hfb. }
  assert (Hnil : is_nil (s_entries s) = false) by (rewrite Hent; reflexivity).
  assert (Hin' : In e (build_index (norm_interval iv) 0 true segment_header_len bs)) by exact Hin.
  apply build_index_in in Hin' as (k & Hk & Hoff & Hpos).
  exists k. split; [exact Hk|]. split; [exact Hpos|]. split; [exact Hoff|]. split; [lia|].
  unfold read_cached_gen, slice_cached_gen. rewrite Hnil.
  set (P := zlen (body_of (firstn k bs))) in *.
  set (X := body_of (skipn k bs)).
  assert (HB : zlen (body_of bs) = P + zlen X) by apply zlen_body_split.
  assert (HX : 61 <= zlen X).
  { destruct (skipn_nth_cons bs k Hk) as (r' & Hr'). subst X.
    eapply body_nonempty; [apply chain_skipn; exact Hc|rewrite Hr'; congruence]. }
  assert (HP : 0 <= P) by apply zlen_nonneg.
  assert (Hsize : s_size s = 32 + zlen (body_of bs) + 16).
  { subst s. unfold build_segment. cbn [s_size]. rewrite !zlen_app, header_len, footer_len. lia. }
  assert (Hdata : zlen (s_data s) = s_size s) by reflexivity.
  set (cap := cap_of v (s_entries s) o' (s_size s) max).
  assert (Hcap : max <= cap) by apply cap_of_ge.
  assert (Hcr : compute_range_gen v (s_size s) (s_entries s) o' max
                = (32 + P, if 0 <? max then Z.min (s_size s - 16 - 1) (32 + P + cap - 1) else s_size s - 16 - 1)).
  { unfold compute_range_gen, segment_footer_len, segment_header_len in *. fold e. rewrite Hpos.
    destruct (s_size s <=? 16) eqn:E1; [lia|].
    destruct (s_size s - 16 <=? 32 + P) eqn:E2; [lia|]. f_equal.
    destruct (0 <? max) eqn:E3; [|reflexivity]. f_equal.
    subst cap. unfold cap_of. fold e. rewrite Hpos.
    destruct (v_ext v && (ie_off e <? o')); lia. }
  rewrite Hcr.
  set (en := if 0 <? max then Z.min (s_size s - 16 - 1) (32 + P + cap - 1) else s_size s - 16 - 1).
  assert (Hen : 32 + P <= en < s_size s - 16) by (subst en; destruct (0 <? max) eqn:E; lia).
  destruct ((32 + P <? 0) || (en <? 32 + P)) eqn:E1; [lia|].
  rewrite Hdata.
  destruct (s_size s <=? en) eqn:E2; [lia|].
  destruct (s_size s <? 32 + P) eqn:E3; [lia|].
  f_equal. subst s. unfold build_segment. cbn [s_data].
  rewrite (slice_mid' _ _ _ (32 + P) (en + 1) P (en + 1 - (32 + P))); try lia.
  2: rewrite header_len; reflexivity.
  subst P. rewrite zdrop_body_prefix. fold X. unfold capped.
  subst en. destruct (0 <? max) eqn:E.
  - rewrite <- (ztake_min cap X). f_equal. lia.
  - apply ztake_all. lia.
Qed.

(* ------------------------------------------------------------------ *)
(* G. reachable states                                                  *)
(* ------------------------------------------------------------------ *)
Definition seg_batches (segs : list segment) : list batch := concat (map s_batches segs).

(* consecutive offsets: each batch starts right after the previous one ends (what the
   write buffer holds, hence what every segment holds) *)
Fixpoint tightc (lo : Z) (bs : list batch) : Prop :=
  match bs with [] => True | b :: r => b_base b = lo /\ tightc (b_last b + 1) r end.

Lemma tightc_app lo a b : tightc lo (a ++ b) <-> tightc lo a /\ tightc (hi_of lo a) b.
Proof.
  revert lo; induction a as [|x a IH]; intros lo; cbn [app tightc hi_of]; [tauto|].
  rewrite IH. tauto.
Qed.

Definition seg_ok (iv : Z) (s : segment) : Prop :=
  s_batches s <> [] /\ exists c r, s = build_segment iv c r (s_batches s).

Record inv (start : Z) (l : plog) : Prop := mkInv {
  inv_chain : chain start (live l);
  inv_next : hi_of start (live l) <= l_next l;
  inv_segs : Forall (seg_ok (l_interval l)) (l_segs l);
  inv_fl : forall s, l_inflight l = Some s -> seg_ok (l_interval l) s;
  inv_tsegs : Forall (fun s => exists lo, tightc lo (s_batches s)) (l_segs l);
  inv_tmem : exists lo, tightc lo (flushing_batches l ++ l_buffer l)
                        /\ hi_of lo (flushing_batches l ++ l_buffer l) = l_next l
}.

Lemma live_eq l : live l = seg_batches (l_segs l) ++ flushing_batches l ++ l_buffer l.
Proof. reflexivity. Qed.

Lemma seg_batches_app a b : seg_batches (a ++ b) = seg_batches a ++ seg_batches b.
Proof. unfold seg_batches. rewrite map_app, concat_app. reflexivity. Qed.

Lemma seg_batches_cons s r : seg_batches (s :: r) = s_batches s ++ seg_batches r.
Proof. reflexivity. Qed.

Lemma patch_len base p : 8 <= zlen p -> zlen (patch_base base p) = zlen p.
Proof.
  intros H. unfold patch_base, u64. rewrite zlen_app, be_enc_len, zlen_zdrop; lia.
Qed.

Lemma inv_init iv rq start : inv start (init_log iv rq start).
Proof.
  constructor.
  - exact I.
  - cbn. lia.
  - constructor.
  - intros s H. discriminate.
  - constructor.
  - exists start. split; [exact I|reflexivity].
Qed.

Lemma inv_step start l o : valid_op o -> inv start l -> inv start (step l o).
Proof.
  intros Hv Hi. pose proof Hi as [Hc Hn Hs Hf Hts (lo & Htm & Hth)]. destruct o as [p|c r| |]; cbn [step].
  - (* append *)
    unfold batch_header_min in *. destruct (zlen p <? 61) eqn:E; [exact Hi|].
    cbn [valid_op] in Hv. unfold batch_header_min in Hv.
    assert (Hlod : 0 <= payload_lod p) by (apply Hv; lia).
    set (b := mkBatch (l_next l) (payload_lod p) (payload_count p) (patch_base (l_next l) p)).
    assert (Hl : live (mkLog (l_interval l) (l_requeue l) (l_next l + payload_lod p + 1) (l_segs l)
                             (l_inflight l) (l_buffer l ++ [b])) = live l ++ [b]).
    { unfold live, flushing_batches. cbn [l_segs l_inflight l_buffer]. now rewrite !app_assoc. }
    constructor; cbn [l_interval l_segs l_inflight l_next]; try assumption.
    + rewrite Hl. apply chain_app. split; [exact Hc|]. cbn [chain]. subst b. cbn [b_base b_lod b_bytes].
      rewrite patch_len by lia. repeat split; lia.
    + rewrite Hl, hi_of_app. cbn [hi_of]. subst b. unfold b_last. cbn [b_base b_lod]. lia.
    + exists lo. unfold flushing_batches in *. cbn [l_inflight l_buffer]. rewrite app_assoc.
      split.
      * apply tightc_app. split; [exact Htm|]. cbn [tightc]. subst b. cbn [b_base]. split; [lia|exact I].
      * rewrite hi_of_app. cbn [hi_of]. subst b. unfold b_last. cbn [b_base b_lod]. lia.
  - (* prepareFlush *)
    destruct (l_inflight l) as [s|] eqn:Ei; [exact Hi|].
    destruct (l_buffer l) as [|x buf] eqn:Eb; [exact Hi|].
    assert (Hl : live (mkLog (l_interval l) (l_requeue l) (l_next l) (l_segs l)
                  (Some (build_segment (l_interval l) c r (x :: buf))) []) = live l).
    { unfold live, flushing_batches. cbn [l_segs l_inflight l_buffer s_batches build_segment].
      rewrite Ei, Eb. now rewrite app_nil_r. }
    constructor; cbn [l_interval l_segs l_inflight l_next]; try (rewrite Hl); try assumption.
    + intros s [= <-]. split; [cbn; congruence|]. exists c, r. reflexivity.
    + exists lo. unfold flushing_batches in *. cbn [l_inflight l_buffer s_batches build_segment].
      rewrite Ei in Htm, Hth. cbn [app] in Htm, Hth. rewrite app_nil_r. auto.
  - (* commit *)
    destruct (l_inflight l) as [s|] eqn:Ei; [|exact Hi].
    assert (Hl : live (mkLog (l_interval l) (l_requeue l) (l_next l) (l_segs l ++ [s]) None (l_buffer l)) = live l).
    { unfold live, flushing_batches. cbn [l_segs l_inflight l_buffer]. rewrite Ei.
      rewrite map_app, concat_app. cbn [map concat]. now rewrite app_nil_r, <- app_assoc. }
    unfold flushing_batches in Htm, Hth. rewrite Ei in Htm, Hth.
    apply tightc_app in Htm as [Ht1 Ht2]. rewrite hi_of_app in Hth.
    constructor; cbn [l_interval l_segs l_inflight l_next]; try (rewrite Hl); try assumption.
    + apply Forall_app. split; [assumption|]. constructor; [|constructor]. apply Hf. reflexivity.
    + intros; discriminate.
    + apply Forall_app. split; [assumption|]. constructor; [eauto|constructor].
    + exists (hi_of lo (s_batches s)). unfold flushing_batches. cbn [l_inflight l_buffer app]. auto.
  - (* failed upload *)
    destruct (l_inflight l) as [s|] eqn:Ei; [|exact Hi].
    unfold flushing_batches in Htm, Hth. rewrite Ei in Htm, Hth.
    destruct (l_requeue l) eqn:Erq.
    + assert (Hl : live (mkLog (l_interval l) true (l_next l) (l_segs l) None (s_batches s ++ l_buffer l)) = live l).
      { unfold live, flushing_batches. cbn [l_segs l_inflight l_buffer]. now rewrite Ei. }
      constructor; cbn [l_interval l_segs l_inflight l_next]; try (rewrite Hl); try assumption.
      * intros; discriminate.
      * exists lo. unfold flushing_batches. cbn [l_inflight l_buffer app]. auto.
    + assert (Hl : live (mkLog (l_interval l) false (l_next l) (l_segs l) None (l_buffer l))
                   = seg_batches (l_segs l) ++ l_buffer l) by reflexivity.
      assert (Hl0 : live l = seg_batches (l_segs l) ++ s_batches s ++ l_buffer l).
      { unfold live, flushing_batches. now rewrite Ei. }
      rewrite Hl0 in Hc, Hn. apply chain_app in Hc as [Hc1 Hc2]. apply chain_app in Hc2 as [Hc2 Hc3].
      rewrite !hi_of_app in Hn.
      pose proof (hi_of_ge _ _ Hc2) as Hge.
      apply tightc_app in Htm as [Ht1 Ht2]. rewrite hi_of_app in Hth.
      constructor; cbn [l_interval l_segs l_inflight l_next]; try (rewrite Hl); try assumption.
      * apply chain_app. split; [assumption|]. eapply chain_weaken; [|exact Hc3]. exact Hge.
      * rewrite hi_of_app. etransitivity; [|exact Hn]. apply hi_of_mono. exact Hge.
      * intros; discriminate.
      * exists (hi_of lo (s_batches s)). unfold flushing_batches. cbn [l_inflight l_buffer app]. auto.
Qed.

Lemma step_interval l o : l_interval (step l o) = l_interval l.
Proof.
  destruct o; cbn [step].
  - destruct (zlen payload <? batch_header_min); reflexivity.
  - destruct (l_inflight l); [reflexivity|]. destruct (l_buffer l); reflexivity.
  - destruct (l_inflight l); reflexivity.
  - destruct (l_inflight l); reflexivity.
Qed.

Lemma inv_run start ops : forall l, Forall valid_op ops -> inv start l -> inv start (run l ops).
Proof.
  induction ops as [|o ops IH]; intros l Hv Hi; cbn [run fold_left]; [exact Hi|].
  inversion Hv; subst. apply IH; [assumption|]. apply inv_step; assumption.
Qed.

(* ------------------------------------------------------------------ *)
(* H. the shape of every successful read                                *)
(* ------------------------------------------------------------------ *)
Lemma seg_batches_lt lo iv o A : chain lo (seg_batches A) -> Forall (seg_ok iv) A ->
  Forall (fun x => s_last x < o) A -> Forall (fun b => b_last b < o) (seg_batches A).
Proof.
  revert lo; induction A as [|x A IH]; intros lo Hc Hok Hlt; [constructor|].
  rewrite seg_batches_cons in *. apply chain_app in Hc as [Hc1 Hc2].
  inversion Hok as [|? ? [Hne (c & r & Hx)] Hok']; subst. inversion Hlt as [|? ? Hx1 Hlt']; subst.
  apply Forall_app. split; [|eapply IH; eassumption].
  pose proof (chain_last_lt _ _ Hc1) as Hl. rewrite (hi_of_last _ _ Hne) in Hl.
  assert (Hsl : s_last x = last_last (s_batches x)) by (rewrite Hx at 1; reflexivity).
  eapply Forall_impl; [|exact Hl]. cbn. intros; lia.
Qed.

Lemma lead_split o bs : exists rest, bs = lead o bs ++ rest /\ Forall (fun b => b_last b < o) (lead o bs)
  /\ (forall b r, rest = b :: r -> o <= b_last b).
Proof.
  induction bs as [|b r IH]; cbn [lead].
  - exists []. repeat split; [constructor|intros; discriminate].
  - destruct (b_last b <? o) eqn:E.
    + destruct IH as (rest & H1 & H2 & H3). exists rest. cbn [app]. rewrite <- H1.
      repeat split; [constructor; [lia|assumption]|assumption].
    + exists (b :: r). repeat split; [constructor|]. intros b' r' [= <- <-]. lia.
Qed.

Lemma lead_app_all o a b : Forall (fun x => b_last x < o) a -> lead o (a ++ b) = a ++ lead o b.
Proof.
  induction a as [|x a IH]; intros H; [reflexivity|]. inversion H; subst. cbn [app lead].
  destruct (b_last x <? o) eqn:E; [|lia]. now rewrite IH.
Qed.

Lemma chain_first_zero lo bs k : chain lo bs -> (k < length bs)%nat ->
  b_base (nth k bs dflt) <= first_base bs -> k = 0%nat.
Proof.
  intros Hc Hk Hb. destruct k; [reflexivity|]. exfalso.
  pose proof (chain_firstn_lt _ _ _ Hc Hk) as Hf.
  destruct bs as [|b0 r]; [cbn in Hk; lia|]. cbn [firstn] in Hf. inversion Hf; subst.
  cbn [chain] in Hc. cbn [first_base] in Hb. unfold b_last in *. lia.
Qed.

Lemma chain_first_le_last lo bs : chain lo bs -> bs <> [] ->
  Forall (fun b => first_base bs <= b_last b) bs.
Proof.
  destruct bs as [|b0 r]; [congruence|]. intros Hc _. cbn [first_base].
  apply (chain_last_ge (b_base b0)). cbn [chain] in *. repeat split; try tauto; lia.
Qed.

Lemma capped_spec max cap X : 61 <= zlen X -> max <= cap ->
  exists n, 1 <= n <= zlen X /\ capped max cap X = ztake n X /\ (0 < max -> n = Z.min cap (zlen X)).
Proof.
  intros H Hc. unfold capped. destruct (0 <? max) eqn:E.
  - exists (Z.min (zlen X) cap). repeat split; try lia. now rewrite ztake_min.
  - exists (zlen X). repeat split; try lia. symmetry. apply ztake_all. lia.
Qed.

Lemma block_end_cases es o lim :
  block_end es o lim = lim \/ exists e, In e es /\ o < ie_off e /\ block_end es o lim = ie_pos e.
Proof.
  induction es as [|e r IH]; cbn [block_end]; [now left|].
  destruct (o <? ie_off e) eqn:E.
  - right. exists e. repeat split; [now left|lia].
  - destruct IH as [IH|(e' & Hin & Ho & He)]; [now left|]. right. exists e'. repeat split; [now right|assumption|assumption].
Qed.

Lemma chain_lod lo bs : chain lo bs -> Forall (fun b => 0 <= b_lod b) bs.
Proof.
  revert lo; induction bs as [|b r IH]; intros lo; cbn [chain]; [constructor|].
  intros (H1 & H2 & H3 & H4). constructor; [exact H2|]. eapply IH; exact H4.
Qed.

(* the first index entry beyond o' lies past the whole batch holding o' *)
Lemma block_end_gt iv lo bs ld b r' o' since first :
  bs = ld ++ b :: r' -> chain lo bs -> Forall (fun x => b_last x < o') ld -> b_base b <= o' ->
  32 + zlen (body_of ld) + 61 <= block_end (build_index iv since first 32 bs) o' (32 + zlen (body_of bs)).
Proof.
  intros Ebs Hc Hld Hb.
  assert (Hb61 : 61 <= zlen (b_bytes b)).
  { pose proof (chain_nonempty_bytes _ _ Hc) as Hf. rewrite Ebs in Hf. apply Forall_app in Hf as [_ Hf]. now inversion Hf. }
  assert (Hbody : forall m, zlen (body_of (ld ++ b :: m)) = zlen (body_of ld) + zlen (b_bytes b) + zlen (body_of m)).
  { intros m. rewrite body_of_app, body_of_cons, !zlen_app. lia. }
  destruct (block_end_cases (build_index iv since first 32 bs) o' (32 + zlen (body_of bs))) as [->|(e & Hin & Ho & ->)].
  - rewrite Ebs, Hbody. pose proof (zlen_nonneg (body_of r')). lia.
  - apply build_index_in in Hin as (k2 & Hk2 & Hoff & Hpos). rewrite Hpos.
    assert (Hlods : Forall (fun x => 0 <= b_lod x) bs) by (eapply chain_lod; exact Hc).
    assert (Hgt : (length ld < k2)%nat).
    { destruct (Nat.lt_ge_cases (length ld) k2) as [H|H]; [exact H|exfalso].
      rewrite Ebs in Hoff, Hlods. apply Forall_app in Hlods as [Hl1 _].
      destruct (Nat.eq_dec k2 (length ld)) as [->|Hne].
      - rewrite nth_middle in Hoff. lia.
      - rewrite app_nth1 in Hoff by lia.
        assert (Hin : In (nth k2 ld dflt) ld) by (apply nth_In; lia).
        rewrite Forall_forall in Hld, Hl1. apply Hld in Hin as H1. apply Hl1 in Hin as H2.
        unfold b_last in H1. lia. }
    rewrite Ebs. rewrite firstn_app. rewrite firstn_all2 by lia.
    destruct (k2 - length ld)%nat as [|m] eqn:Em; [lia|]. cbn [firstn].
    rewrite Hbody. pose proof (zlen_nonneg (body_of (firstn m r'))). lia.
Qed.

(* in a tight chain the first batch not ending below o' starts at or below o' *)
Lemma tight_holds lo lo' bs ld b r' o' :
  bs = ld ++ b :: r' -> tightc lo bs -> chain lo' bs -> Forall (fun x => b_last x < o') ld ->
  first_base bs <= o' -> b_base b <= o'.
Proof.
  intros Ebs Ht Hc Hld Hfb. rewrite Ebs in Ht. apply tightc_app in Ht as [_ Ht]. cbn [tightc] in Ht.
  destruct Ht as [Hbb _].
  destruct ld as [|x ld'] eqn:Eld.
  - cbn [app] in Ebs. rewrite Ebs in Hfb. cbn [first_base] in Hfb. exact Hfb.
  - rewrite <- Eld in *. assert (Hne : ld <> []) by (rewrite Eld; congruence).
    rewrite (hi_of_last _ _ Hne) in Hbb.
    destruct (exists_last Hne) as (a & z & Ez). rewrite Ez in Hbb, Hld. rewrite last_last_snoc in Hbb.
    apply Forall_app in Hld as [_ Hld]. inversion Hld; subst. lia.
Qed.

Lemma body_firstn_prefix n rest more :
  body_of (firstn n rest) = ztake (zlen (body_of (firstn n rest))) (body_of (rest ++ more)).
Proof.
  rewrite <- (firstn_skipn n rest) at 3. rewrite <- app_assoc, body_of_app.
  rewrite ztake_app_l by lia. symmetry. apply ztake_all. lia.
Qed.

(* What a successful Read returns, for every reachable log, offset, limit and cache
   state: the live batches split as pre ++ mid ++ rest, everything in pre and mid ends
   below o, rest starts with a batch ending at or after o, the result is the first n
   bytes of mid ++ rest, mid's bytes are exactly [entry_distance], and n is only cut
   short by maxBytes. *)
Lemma read_shape v start l cached o max d : inv start l -> read_gen v true l cached o max = ROk d ->
  exists pre mid rest n, live l = pre ++ mid ++ rest /\
    Forall (fun b => b_last b < o) pre /\ Forall (fun b => b_last b < o) mid /\
    (exists b r, rest = b :: r /\ o <= b_last b) /\
    d = ztake n (body_of (mid ++ rest)) /\ 1 <= n <= zlen (body_of (mid ++ rest)) /\
    (v_floor v = true -> entry_distance l o = zlen (body_of mid)) /\
    (0 < max -> Z.min max (zlen (body_of mid) + 1) <= n) /\
    (v_ext v = true -> 0 < max -> zlen (body_of mid) < n).
Proof.
  intros [Hc Hn Hs Hf Hts Htm] Hr. unfold read_gen in Hr. cbv beta zeta iota in Hr. unfold entry_distance.
  rewrite live_eq in *.
  destruct (find_segment (l_segs l) o) as [[s o']|] eqn:Efs.
  - (* served by a flushed segment *)
    apply find_segment_some in Efs as (A & B & Esegs & HA & Ho').
    rewrite Esegs in Hs. apply Forall_app in Hs as [HsA HsB]. inversion HsB as [|? ? [Hne (c & r & Hseg)] HsB']; subst.
    set (bs := s_batches s) in *.
    rewrite Esegs, seg_batches_app, seg_batches_cons in Hc |- *. fold bs in Hc |- *.
    rewrite <- !app_assoc in Hc |- *.
    set (T := seg_batches B ++ flushing_batches l ++ l_buffer l) in *.
    apply chain_app in Hc as [HcA Hc2]. apply chain_app in Hc2 as [Hcs Hc3].
    assert (Hsz : s_size s = zlen (s_data s)) by (rewrite Hseg; reflexivity).
    rewrite Esegs in Hts. apply Forall_app in Hts as [_ Hts]. apply Forall_inv in Hts as (tlo & Htight). fold bs in Htight.
    assert (Hrc : read_cached_gen v s o' max = ROk d).
    { destruct cached; [exact Hr|]. rewrite <- paths_agree_seg; assumption. }
    assert (Hbase : s_base s = first_base bs) by (rewrite Hseg at 1; reflexivity).
    assert (Hlast : s_last s = last_last bs) by (rewrite Hseg at 1; reflexivity).
    assert (Hfb : first_base bs <= o') by lia.
    rewrite Hseg in Hrc.
    destruct (seg_read_cached v (l_interval l) c r _ bs o' max Hcs Hne Hfb) as (k & Hk & Hoff & Hoffk & Hbk & Hrd).
    rewrite Hrd in Hrc. injection Hrc as <-.
    pose proof (chain_firstn_lt _ _ _ Hcs Hk) as Hfk.
    destruct (lead_split o' (skipn k bs)) as (rest' & Hsplit & Hmid & Hrest').
    set (mid := lead o' (skipn k bs)) in *.
    assert (Hlead : lead o' bs = firstn k bs ++ mid).
    { rewrite <- (firstn_skipn k bs) at 1. apply lead_app_all. eapply Forall_impl; [|exact Hfk]. cbn. intros; lia. }
    (* the segment's last batch ends at or after o', so rest' is not empty *)
    assert (Hrne : exists b r', rest' = b :: r' /\ o' <= b_last b).
    { destruct rest' as [|b r']; [|exists b, r'; split; [reflexivity|eapply Hrest'; reflexivity]].
      exfalso. rewrite app_nil_r in Hsplit.
      destruct (skipn_nth_cons bs k Hk) as (r'' & Hr'').
      assert (Hall : Forall (fun b => b_last b < o') bs).
      { rewrite <- (firstn_skipn k bs). apply Forall_app. split.
        - eapply Forall_impl; [|exact Hfk]. cbn. intros; lia.
        - rewrite Hsplit. exact Hmid. }
      pose proof (chain_first_le_last _ _ Hcs Hne) as Hfl.
      destruct (exists_last Hne) as (a & bl & Ebs).
      assert (Hbl : In bl bs) by (rewrite Ebs; apply in_or_app; right; now left).
      rewrite Forall_forall in Hall, Hfl. apply Hall in Hbl as Hbl1. apply Hfl in Hbl as Hbl2.
      rewrite Ebs, last_last_snoc in Hlast. lia. }
    destruct Hrne as (b & r' & -> & Hb).
    (* in the snapped case nothing of this segment ends below o' *)
    assert (Hmid_o : Forall (fun x => b_last x < o) (firstn k bs ++ mid)).
    { destruct Ho' as [[-> _]|[-> Hlt]].
      - apply Forall_app. split; [|exact Hmid]. eapply Forall_impl; [|exact Hfk]. cbn. intros; lia.
      - assert (k = 0%nat) by (eapply chain_first_zero; [exact Hcs|exact Hk|lia]). subst k.
        cbn [firstn app]. cbn [skipn] in *.
        destruct bs as [|b0 rb] eqn:Ebs'; [congruence|]. subst mid. cbn [lead].
        cbn [chain] in Hcs. cbn [first_base] in Hbase.
        destruct (b_last b0 <? s_base s) eqn:E; [unfold b_last in E; lia|constructor]. }
    apply Forall_app in Hmid_o as [Hpre_o Hmid_o].
    set (cap := cap_of v (s_entries (build_segment (l_interval l) c r bs)) o' (s_size (build_segment (l_interval l) c r bs)) max) in *.
    destruct (capped_spec max cap (body_of (skipn k bs))) as (n & Hn1 & Hcap & Hnmax).
    { destruct (skipn_nth_cons bs k Hk) as (r'' & Hr'').
      eapply body_nonempty; [apply chain_skipn; exact Hcs|rewrite Hr''; congruence]. }
    { apply cap_of_ge. }
    exists (seg_batches A ++ firstn k bs), mid, ((b :: r') ++ T), n.
    assert (Hbody : body_of (mid ++ (b :: r') ++ T) = body_of (skipn k bs) ++ body_of T).
    { rewrite app_assoc, <- Hsplit. apply body_of_app. }
    split.
    { rewrite <- app_assoc. f_equal. rewrite (app_assoc mid), <- Hsplit, app_assoc, firstn_skipn. reflexivity. }
    split.
    { apply Forall_app. split; [|exact Hpre_o]. eapply seg_batches_lt; eassumption. }
    split; [exact Hmid_o|].
    split.
    { exists b, (r' ++ T). split; [reflexivity|].
      destruct Ho' as [[-> _]|[-> Hlt]]; lia. }
    split; [rewrite Hbody, ztake_app_l by lia; exact Hcap|].
    split; [rewrite Hbody, zlen_app; pose proof (zlen_nonneg (body_of T)); lia|].
    assert (HX : zlen (body_of (skipn k bs)) = zlen (body_of mid) + zlen (body_of (b :: r'))).
    { rewrite Hsplit at 1. now rewrite body_of_app, zlen_app. }
    assert (Hb61 : 61 <= zlen (body_of (b :: r'))).
    { pose proof (chain_skipn _ _ k Hcs) as Hck. rewrite Hsplit in Hck. apply chain_app in Hck as [_ Hck].
      eapply body_nonempty; [exact Hck|congruence]. }
    assert (Hcapge : max <= cap) by apply cap_of_ge.
    split.
    { intros Hvf. unfold find_entry.
      replace (s_entries s) with (s_entries (build_segment (l_interval l) c r bs)) by (rewrite <- Hseg; reflexivity).
      rewrite Hvf in Hoff. rewrite Hoff. rewrite Hlead, body_of_app, zlen_app.
      unfold segment_header_len. lia. }
    split.
    { intros Hmax. specialize (Hnmax Hmax). subst n. lia. }
    intros Hext Hmax. specialize (Hnmax Hmax). subst n.
    (* the whole segment as  lead ++ b :: r' *)
    assert (Ebs : bs = (firstn k bs ++ mid) ++ b :: r').
    { rewrite <- app_assoc, <- Hsplit. symmetry. apply firstn_skipn. }
    assert (Hldlt : Forall (fun x => b_last x < o') (firstn k bs ++ mid)).
    { apply Forall_app. split; [|exact Hmid]. eapply Forall_impl; [|exact Hfk]. cbn. intros; lia. }
    pose proof (tight_holds _ _ _ _ _ _ _ Ebs Htight Hcs Hldlt Hfb) as Hbbase.
    destruct (Z.eq_dec (b_base (nth k bs dflt)) o') as [Heq|Hneq].
    + (* the entry is exactly at o': batch k holds o', nothing lies between *)
      assert (mid = []).
      { subst mid. destruct (skipn_nth_cons bs k Hk) as (r'' & Hr''). rewrite Hr''. cbn [lead].
        assert (0 <= b_lod (nth k bs dflt)).
        { pose proof (chain_lod _ _ Hcs) as Hl. rewrite Forall_forall in Hl. apply Hl. apply nth_In. exact Hk. }
        destruct (b_last (nth k bs dflt) <? o') eqn:E; [unfold b_last in E; lia|reflexivity]. }
      rewrite H. change (zlen (body_of [])) with 0. lia.
    + (* entry strictly before o': the cap reaches the first index entry beyond o' *)
      assert (Hlt : ie_off (find_entry_gen (v_floor v) (s_entries (build_segment (l_interval l) c r bs)) o') <? o' = true) by lia.
      assert (Hcapv : block_end (s_entries (build_segment (l_interval l) c r bs)) o' (s_size (build_segment (l_interval l) c r bs) - 16)
                      - (32 + zlen (body_of (firstn k bs))) <= cap).
      { subst cap. unfold cap_of. rewrite Hext, Hlt, Hoff. cbn [andb]. lia. }
      assert (Hsize : s_size (build_segment (l_interval l) c r bs) - 16 = 32 + zlen (body_of bs)).
      { unfold build_segment. cbn [s_size]. rewrite !zlen_app, header_len, footer_len. lia. }
      rewrite Hsize in Hcapv.
      pose proof (block_end_gt (norm_interval (l_interval l)) _ bs _ b r' o' 0 true Ebs Hcs Hldlt Hbbase) as Hbe.
      change (s_entries (build_segment (l_interval l) c r bs)) with (build_index (norm_interval (l_interval l)) 0 true segment_header_len bs) in Hcapv.
      unfold segment_header_len in Hcapv.
      rewrite body_of_app, zlen_app in Hbe. lia.
  - (* served from memory: in-flight batches first, then the write buffer *)
    apply find_segment_none in Efs.
    apply chain_app in Hc as [HcA Hc2]. apply chain_app in Hc2 as [Hcf Hcb].
    assert (HsegsLt : Forall (fun b => b_last b < o) (seg_batches (l_segs l))) by (eapply seg_batches_lt; eassumption).
    destruct (rf_spec o max _ _ Hcf) as (pre1 & rest1 & n1 & Efl & Hp1 & Hfb & Hn1).
    destruct (rf_spec o max _ _ Hcb) as (pre2 & rest2 & n2 & Ebf & Hp2 & Hbb & Hn2).
    assert (Hnz : forall lo (b : batch) r n, chain lo (b :: r) -> (1 <= n)%nat -> 61 <= zlen (body_of (firstn n (b :: r)))).
    { intros lo b r n Hcc Hn'. destruct n; [lia|]. cbn [firstn]. rewrite body_of_cons, zlen_app.
      cbn [chain] in Hcc. pose proof (zlen_nonneg (body_of (firstn n r))). lia. }
    destruct (is_nil (records_from (flushing_batches l) o max)) eqn:Enil.
    + (* nothing in flight ends at or after o *)
      destruct (is_nil (records_from (l_buffer l) o max)) eqn:Enil2; [discriminate|].
      assert (Hd : d = records_from (l_buffer l) o max) by congruence. subst d. clear Hr.
      assert (rest1 = []).
      { destruct rest1 as [|b r]; [reflexivity|]. exfalso. apply is_nil_true in Enil.
        destruct (Hn1 b r eq_refl) as [_ Hge]. rewrite Efl in Hcf. apply chain_app in Hcf as [_ Hcf].
        pose proof (Hnz _ b r n1 Hcf Hge). rewrite Hfb in Enil. rewrite Enil in H. cbn in H. lia. }
      subst rest1. rewrite app_nil_r in Efl.
      destruct rest2 as [|b r].
      { exfalso. apply is_nil_false in Enil2. apply Enil2. rewrite Hbb. now destruct n2. }
      destruct (Hn2 b r eq_refl) as [Hob Hge].
      rewrite Ebf in Hcb. apply chain_app in Hcb as [_ Hcb].
      exists (seg_batches (l_segs l) ++ flushing_batches l ++ pre2), [], (b :: r), (zlen (body_of (firstn n2 (b :: r)))).
      cbn [app]. split; [rewrite Ebf; now rewrite <- !app_assoc|].
      split; [repeat (apply Forall_app; split); try assumption; now rewrite Efl|].
      split; [constructor|]. split; [eauto|].
      split; [rewrite Hbb; rewrite <- (app_nil_r (b :: r)) at 3; apply body_firstn_prefix|].
      pose proof (Hnz _ b r n2 Hcb Hge).
      split.
      { split; [lia|]. rewrite <- (firstn_skipn n2 (b :: r)) at 2. rewrite body_of_app, zlen_app.
        pose proof (zlen_nonneg (body_of (skipn n2 (b :: r)))). lia. }
      split; [reflexivity|]. split; intros; change (zlen (body_of [])) with 0; lia.
    + (* the in-flight batches serve it *)
      cbv beta iota in Hr. rewrite Enil in Hr.
      assert (Hd : d = records_from (flushing_batches l) o max) by congruence. subst d. clear Hr.
      destruct rest1 as [|b r].
      { exfalso. apply is_nil_false in Enil. apply Enil. rewrite Hfb. now destruct n1. }
      destruct (Hn1 b r eq_refl) as [Hob Hge].
      pose proof Hcf as Hcf'. rewrite Efl in Hcf'. apply chain_app in Hcf' as [_ Hcf'].
      exists (seg_batches (l_segs l) ++ pre1), [], ((b :: r) ++ l_buffer l), (zlen (body_of (firstn n1 (b :: r)))).
      cbn [app]. split; [rewrite Efl; now rewrite <- !app_assoc|].
      split; [apply Forall_app; split; assumption|].
      split; [constructor|]. split; [eauto|].
      split; [rewrite Hfb; apply (body_firstn_prefix n1 (b :: r) (l_buffer l))|].
      pose proof (Hnz _ b r n1 Hcf' Hge).
      split.
      { split; [lia|]. change (b :: r ++ l_buffer l) with ((b :: r) ++ l_buffer l).
        rewrite <- (firstn_skipn n1 (b :: r)) at 2. rewrite <- app_assoc, body_of_app, zlen_app.
        pose proof (zlen_nonneg (body_of (skipn n1 (b :: r) ++ l_buffer l))). lia. }
      split; [reflexivity|]. split; intros; change (zlen (body_of [])) with 0; lia.
Qed.

(* ------------------------------------------------------------------ *)
(* I. the theorems                                                      *)
(* ------------------------------------------------------------------ *)
Lemma ztake_len_ge1 n (X : bytes) : 1 <= n <= zlen X -> ztake n X <> [].
Proof.
  intros H E. pose proof (zlen_ztake n X ltac:(lia)) as Hl. rewrite E in Hl. cbn in Hl. lia.
Qed.

(* C03: every successful read is a run of this partition's live batches *)
Theorem read_sound v iv rq start ops cached o max d :
  Forall valid_op ops ->
  let l := run (init_log iv rq start) ops in
  read_gen v true l cached o max = ROk d -> is_run (live l) o d.
Proof.
  intros Hv l Hr. assert (Hi : inv start l) by (apply inv_run; [exact Hv|apply inv_init]).
  destruct (read_shape _ _ _ _ _ _ _ Hi Hr) as (pre & mid & rest & n & El & Hp & Hm & _ & Hd & Hn & _).
  exists pre, (mid ++ rest), n. repeat split; try assumption. subst d. now apply ztake_len_ge1.
Qed.

(* the live batches are ordered, disjoint, and each is an appended payload with the
   base offset patched in *)
Definition appended_by (ops : list op) (b : batch) : Prop :=
  exists p, In (OAppend p) ops /\ batch_header_min <= zlen p /\
    b_bytes b = patch_base (b_base b) p /\ b_lod b = payload_lod p /\ b_count b = payload_count p.

Lemma live_step_incl l o b : In b (live (step l o)) ->
  In b (live l) \/ exists p, o = OAppend p /\ batch_header_min <= zlen p /\
     b = mkBatch (l_next l) (payload_lod p) (payload_count p) (patch_base (l_next l) p).
Proof.
  destruct o as [p|c r| |]; cbn [step].
  - destruct (zlen p <? batch_header_min) eqn:E; [tauto|].
    unfold live, flushing_batches. cbn [l_segs l_inflight l_buffer]. rewrite !in_app_iff. cbn [In].
    intros [H|[H|[H|[H|[]]]]]; try tauto. right. exists p. repeat split; [lia|congruence].
  - destruct (l_inflight l) as [s|] eqn:Ei; [tauto|]. destruct (l_buffer l) as [|x buf] eqn:Eb; [tauto|].
    unfold live, flushing_batches. cbn [l_segs l_inflight l_buffer s_batches build_segment]. rewrite Ei, Eb.
    rewrite !in_app_iff. cbn [In]. tauto.
  - destruct (l_inflight l) as [s|] eqn:Ei; [|tauto].
    unfold live, flushing_batches. cbn [l_segs l_inflight l_buffer]. rewrite Ei.
    rewrite map_app, concat_app, !in_app_iff. cbn [map concat In]. rewrite in_app_iff. cbn [In]. tauto.
  - destruct (l_inflight l) as [s|] eqn:Ei; [|tauto].
    unfold live, flushing_batches. cbn [l_segs l_inflight l_buffer]. rewrite Ei.
    destruct (l_requeue l); rewrite !in_app_iff; cbn [In]; try rewrite in_app_iff; tauto.
Qed.

Lemma live_appended_gen ops : forall l ops0,
  Forall (appended_by ops0) (live l) -> Forall (appended_by (ops0 ++ ops)) (live (run l ops)).
Proof.
  induction ops as [|o ops IH]; intros l ops0 H; cbn [run fold_left].
  - now rewrite app_nil_r.
  - replace (ops0 ++ o :: ops) with ((ops0 ++ [o]) ++ ops) by now rewrite <- app_assoc.
    apply IH. rewrite Forall_forall in *. intros b Hb.
    apply live_step_incl in Hb as [Hb|(p & -> & Hp & ->)].
    + destruct (H b Hb) as (p & Hin & Hrest). exists p. split; [apply in_or_app; now left|exact Hrest].
    + exists p. split; [apply in_or_app; right; now left|]. repeat split; assumption.
Qed.

Theorem live_appended iv rq start ops :
  Forall (appended_by ops) (live (run (init_log iv rq start) ops)).
Proof. apply (live_appended_gen ops (init_log iv rq start) []). constructor. Qed.

(* C03: cached, range-read and full-download paths agree on every reachable log *)
Theorem read_paths_agree v iv rq start ops o max :
  Forall valid_op ops ->
  let l := run (init_log iv rq start) ops in
  read_gen v true l true o max = read_gen v true l false o max.
Proof.
  intros Hv l. assert (Hi : inv start l) by (apply inv_run; [exact Hv|apply inv_init]).
  unfold read_gen. destruct (find_segment (l_segs l) o) as [[s o']|] eqn:E; [|reflexivity].
  apply find_segment_some in E as (A & B & Esegs & _). destruct Hi as [_ _ Hs _ _ _].
  rewrite Esegs in Hs. apply Forall_app in Hs as [_ Hs]. inversion Hs as [|? ? [_ (c & r & Hseg)] _]; subst.
  symmetry. apply paths_agree_seg. rewrite Hseg. reflexivity.
Qed.

Lemma body_firstn_nonempty lo b r n : chain lo (b :: r) -> (1 <= n)%nat -> 61 <= zlen (body_of (firstn n (b :: r))).
Proof.
  intros Hcc Hn'. destruct n; [lia|]. cbn [firstn]. rewrite body_of_cons, zlen_app.
  cbn [chain] in Hcc. pose proof (zlen_nonneg (body_of (firstn n r))). lia.
Qed.

Lemma rf_nonempty lo bs o max b : chain lo bs -> In b bs -> o <= b_last b -> records_from bs o max <> [].
Proof.
  intros Hc Hin Hb. destruct (rf_spec o max _ _ Hc) as (pre & rest & n & E & Hp & Hr & Hn).
  destruct rest as [|x r].
  - exfalso. rewrite app_nil_r in E. subst pre. rewrite Forall_forall in Hp. apply Hp in Hin. lia.
  - destruct (Hn x r eq_refl) as [_ Hge]. rewrite E in Hc. apply chain_app in Hc as [_ Hc].
    pose proof (body_firstn_nonempty _ _ _ _ Hc Hge) as Hl. rewrite Hr. intros E0. rewrite E0 in Hl. cbn in Hl. lia.
Qed.

(* a read below the end of the live log never fails (whatever maxBytes is) *)
Lemma read_ok v start l cached o max : inv start l ->
  (exists b, In b (live l) /\ o <= b_last b) -> exists d, read_gen v true l cached o max = ROk d.
Proof.
  intros Hi (b & Hin & Hb). pose proof Hi as [Hc Hn Hs Hf _ _]. unfold read_gen. cbv beta zeta iota.
  rewrite live_eq in *.
  destruct (find_segment (l_segs l) o) as [[s o']|] eqn:Efs.
  - apply find_segment_some in Efs as (A & B & Esegs & HA & Ho').
    rewrite Esegs in Hs. apply Forall_app in Hs as [HsA HsB]. inversion HsB as [|? ? [Hne (c & r & Hseg)] HsB']; subst.
    rewrite Esegs, seg_batches_app, seg_batches_cons in Hc. rewrite <- !app_assoc in Hc.
    apply chain_app in Hc as [HcA Hc2]. apply chain_app in Hc2 as [Hcs Hc3].
    assert (Hsz : s_size s = zlen (s_data s)) by (rewrite Hseg; reflexivity).
    assert (Hfb : first_base (s_batches s) <= o').
    { assert (s_base s = first_base (s_batches s)) by (rewrite Hseg at 1; reflexivity). lia. }
    destruct (seg_read_cached v (l_interval l) c r _ _ o' max Hcs Hne Hfb) as (k & _ & _ & _ & _ & Hrd).
    rewrite <- Hseg in Hrd.
    destruct cached; [|rewrite paths_agree_seg by exact Hsz]; eauto.
  - apply find_segment_none in Efs.
    apply chain_app in Hc as [HcA Hc2]. apply chain_app in Hc2 as [Hcf Hcb].
    assert (HsegsLt : Forall (fun b => b_last b < o) (seg_batches (l_segs l))) by (eapply seg_batches_lt; eassumption).
    destruct (is_nil (records_from (flushing_batches l) o max)) eqn:Enil.
    + cbv beta iota. apply is_nil_true in Enil.
      rewrite !in_app_iff in Hin. destruct Hin as [Hin|[Hin|Hin]].
      * rewrite Forall_forall in HsegsLt. apply HsegsLt in Hin. lia.
      * exfalso. apply (rf_nonempty _ _ o max b Hcf Hin Hb). exact Enil.
      * pose proof (rf_nonempty _ _ o max b Hcb Hin Hb) as Hne. apply is_nil_false in Hne. rewrite Hne. eauto.
    + cbv beta iota. rewrite Enil. eauto.
Qed.

(* C04 without the cap extension (VFloor, and VHead's fallback aside): whenever maxBytes
   exceeds the distance between the index entry Read starts from and the batch holding
   o (0 when there is an entry at that batch, and for every read served from memory),
   the read succeeds and reaches past the start of that batch *)
Theorem read_progress_partial v iv rq start ops cached o max :
  v_floor v = true ->
  Forall valid_op ops ->
  let l := run (init_log iv rq start) ops in
  0 < max -> (exists b, In b (live l) /\ o <= b_last b) ->
  entry_distance l o < max ->
  exists d, read_gen v true l cached o max = ROk d /\ progress_run (live l) o d.
Proof.
  intros Hvf Hv l Hmax Hex Hdist. assert (Hi : inv start l) by (apply inv_run; [exact Hv|apply inv_init]).
  destruct (read_ok v start l cached o max Hi Hex) as (d & Hr). exists d. split; [exact Hr|].
  destruct (read_shape _ _ _ _ _ _ _ Hi Hr) as (pre & mid & rest & n & El & Hp & Hm & Hrest & Hd & Hn & Hed & Hnm & _).
  exists pre, mid, rest, n. repeat split; try assumption.
  - apply Forall_app; split; assumption.
  - subst d. rewrite zlen_ztake by lia. specialize (Hnm Hmax). specialize (Hed Hvf). lia.
Qed.

(* C04 in full, with the cap extension (VFull): every read at or below the end of the
   live log with a positive byte limit succeeds and reaches past the start of the
   batch holding o *)
Lemma progress_of_shape v start l cached o max : v_ext v = true -> inv start l ->
  0 < max -> (exists b, In b (live l) /\ o <= b_last b) ->
  exists d, read_gen v true l cached o max = ROk d /\ progress_run (live l) o d.
Proof.
  intros Hext Hi Hmax Hex.
  destruct (read_ok v start l cached o max Hi Hex) as (d & Hr). exists d. split; [exact Hr|].
  destruct (read_shape _ _ _ _ _ _ _ Hi Hr) as (pre & mid & rest & n & El & Hp & Hm & Hrest & Hd & Hn & _ & _ & Hfull).
  exists pre, mid, rest, n. repeat split; try assumption.
  - apply Forall_app; split; assumption.
  - subst d. rewrite zlen_ztake by lia. apply Hfull; assumption.
Qed.

Theorem read_progress iv rq start ops cached o max :
  Forall valid_op ops ->
  let l := run (init_log iv rq start) ops in
  0 < max -> (exists b, In b (live l) /\ o <= b_last b) ->
  exists d, read l cached o max = ROk d /\ progress_run (live l) o d.
Proof.
  intros Hv l Hmax Hex. assert (Hi : inv start l) by (apply inv_run; [exact Hv|apply inv_init]).
  exact (progress_of_shape VFull start l cached o max eq_refl Hi Hmax Hex).
Qed.

(* progress_run implies its decidable form *)
Lemma count_lt_split o pre b r : Forall (fun x => b_last x < o) pre -> o <= b_last b ->
  count_lt o (pre ++ b :: r) = length pre.
Proof.
  induction pre as [|x pre IH]; intros H Hb; cbn [app count_lt length].
  - destruct (b_last b <? o) eqn:E; [lia|reflexivity].
  - inversion H; subst. destruct (b_last x <? o) eqn:E; [|lia]. now rewrite IH.
Qed.

Lemma ztake_norm n (X d : bytes) : d = ztake n X -> d = ztake (zlen d) X.
Proof.
  intros ->. unfold ztake, zlen. rewrite firstn_length.
  rewrite Nat2Z.id. destruct (Nat.le_ge_cases (Z.to_nat n) (length X)) as [H|H].
  - now rewrite Nat.min_l.
  - rewrite Nat.min_r by assumption. rewrite !firstn_all2; [reflexivity|lia|lia].
Qed.

Lemma progress_run_b bs o d : progress_run bs o d -> progress_b bs o d = true.
Proof.
  intros (pre & mid & rest & n & -> & Hlt & (b & r & -> & Hb) & Hd & Hlen).
  unfold progress_b. rewrite app_assoc. rewrite (count_lt_split o (pre ++ mid) b r Hlt Hb).
  apply existsb_exists. exists (length pre). split.
  - apply in_seq. rewrite app_length. lia.
  - rewrite <- app_assoc. rewrite skipn_app, skipn_all, Nat.sub_diag. cbn [skipn app].
    rewrite app_length. replace (length pre + length mid - length pre)%nat with (length mid) by lia.
    rewrite firstn_app, firstn_all, Nat.sub_diag. cbn [firstn]. rewrite app_nil_r.
    apply andb_true_iff. split; [|lia].
    apply bytes_eqb_eq. eapply ztake_norm. exact Hd.
Qed.
