(* Proofs about the read-path model (C03, C04). *)
From Coq Require Import ZifyBool.
From KS Require Import lib.Base model.ReadPath.
Open Scope Z_scope.

(* ------------------------------------------------------------------ *)
(* A. lists, slices                                                     *)
(* ------------------------------------------------------------------ *)
Lemma ztake_all {A} (n : Z) (l : list A) : zlen l <= n -> ztake n l = l.
Proof. unfold ztake, zlen; intros H. apply firstn_all2. lia. Qed.

Lemma ztake_app_l {A} (n : Z) (l1 l2 : list A) : n <= zlen l1 -> ztake n (l1 ++ l2) = ztake n l1.
Proof.
  unfold ztake, zlen; intros H. rewrite firstn_app.
  replace (Z.to_nat n - length l1)%nat with 0%nat by lia. cbn. apply app_nil_r.
Qed.

Lemma zlen_ztake {A} (n : Z) (l : list A) : 0 <= n <= zlen l -> zlen (ztake n l) = n.
Proof. unfold ztake, zlen; intros H. rewrite firstn_length. lia. Qed.

Lemma zlen_ztake_le {A} (n : Z) (l : list A) : zlen (ztake n l) <= zlen l.
Proof. unfold ztake, zlen. rewrite firstn_length. lia. Qed.

Lemma zdrop_app_exact {A} (l1 l2 : list A) (a : Z) :
  0 <= a -> zdrop (zlen l1 + a) (l1 ++ l2) = zdrop a l2.
Proof.
  unfold zdrop, zlen; intros H.
  replace (Z.to_nat (Z.of_nat (length l1) + a)) with (length l1 + Z.to_nat a)%nat by lia.
  rewrite skipn_app. rewrite skipn_all2 by lia.
  replace (length l1 + Z.to_nat a - length l1)%nat with (Z.to_nat a) by lia. reflexivity.
Qed.

Lemma zlen_zdrop {A} (a : Z) (l : list A) : 0 <= a <= zlen l -> zlen (zdrop a l) = zlen l - a.
Proof. unfold zdrop, zlen; intros H. rewrite skipn_length. lia. Qed.

(* data[h+a : h+a+n] of h ++ body ++ f *)
Lemma slice_mid (h body f : bytes) (a n : Z) :
  0 <= a -> 0 <= n -> a + n <= zlen body ->
  slice (h ++ body ++ f) (zlen h + a) (zlen h + a + n) = ztake n (zdrop a body).
Proof.
  intros Ha Hn Hb. unfold slice.
  replace (zlen h + a + n - (zlen h + a)) with n by lia.
  rewrite zdrop_app_exact by lia.
  unfold zdrop. rewrite skipn_app.
  apply ztake_app_l. fold (zdrop a body). rewrite zlen_zdrop; lia.
Qed.

Lemma body_of_app (a b : list batch) : body_of (a ++ b) = body_of a ++ body_of b.
Proof. unfold body_of. rewrite map_app, concat_app. reflexivity. Qed.

Lemma body_of_cons b r : body_of (b :: r) = b_bytes b ++ body_of r.
Proof. reflexivity. Qed.

Lemma zdrop_body_prefix (bs : list batch) (k : nat) :
  zdrop (zlen (body_of (firstn k bs))) (body_of bs) = body_of (skipn k bs).
Proof.
  rewrite <- (firstn_skipn k bs) at 2. rewrite body_of_app.
  replace (zlen (body_of (firstn k bs))) with (zlen (body_of (firstn k bs)) + 0) by lia.
  rewrite zdrop_app_exact by lia. reflexivity.
Qed.

Lemma is_nil_false {A} (l : list A) : is_nil l = false <-> l <> [].
Proof. destruct l; cbn; split; congruence. Qed.

Lemma is_nil_true {A} (l : list A) : is_nil l = true <-> l = [].
Proof. destruct l; cbn; split; congruence. Qed.

(* ------------------------------------------------------------------ *)
(* B. ordered batch lists                                               *)
(* ------------------------------------------------------------------ *)
(* every batch starts at or after [lo], has lastOffsetDelta >= 0, at least the 61
   header bytes, and the next batch starts after its last offset *)
Fixpoint chain (lo : Z) (bs : list batch) : Prop :=
  match bs with
  | [] => True
  | b :: r => lo <= b_base b /\ 0 <= b_lod b /\ 61 <= zlen (b_bytes b) /\ chain (b_last b + 1) r
  end.

Fixpoint hi_of (lo : Z) (bs : list batch) : Z :=
  match bs with [] => lo | b :: r => hi_of (b_last b + 1) r end.

Lemma chain_weaken lo lo' bs : lo' <= lo -> chain lo bs -> chain lo' bs.
Proof. destruct bs; cbn; [tauto|]. intros H (H1 & H2 & H3 & H4). repeat split; try assumption; lia. Qed.

Lemma hi_of_ge lo bs : chain lo bs -> lo <= hi_of lo bs.
Proof.
  revert lo; induction bs as [|b r IH]; intros lo; cbn; [lia|].
  intros (H1 & H2 & H3 & H4). apply IH in H4. unfold b_last in *. lia.
Qed.

Lemma chain_app lo a b : chain lo (a ++ b) <-> chain lo a /\ chain (hi_of lo a) b.
Proof.
  revert lo; induction a as [|x a IH]; intros lo; cbn; [tauto|].
  rewrite IH. tauto.
Qed.

Lemma hi_of_app lo a b : hi_of lo (a ++ b) = hi_of (hi_of lo a) b.
Proof. revert lo; induction a as [|x a IH]; intros lo; cbn; [reflexivity|]. apply IH. Qed.

(* all last offsets of a chain lie below its upper end *)
Lemma chain_last_lt lo bs : chain lo bs -> Forall (fun b => b_last b < hi_of lo bs) bs.
Proof.
  revert lo; induction bs as [|b r IH]; intros lo; cbn; [constructor|].
  intros (H1 & H2 & H3 & H4). constructor.
  - apply hi_of_ge in H4. lia.
  - apply IH. exact H4.
Qed.

Lemma chain_base_ge lo bs : chain lo bs -> Forall (fun b => lo <= b_base b) bs.
Proof.
  revert lo; induction bs as [|b r IH]; intros lo; cbn; [constructor|].
  intros (H1 & H2 & H3 & H4). constructor; [exact H1|].
  apply IH in H4. eapply Forall_impl; [|exact H4]. cbn. unfold b_last. intros; lia.
Qed.

Lemma chain_nonempty_bytes lo bs : chain lo bs -> Forall (fun b => 61 <= zlen (b_bytes b)) bs.
Proof.
  revert lo; induction bs as [|b r IH]; intros lo; cbn; [constructor|].
  intros (H1 & H2 & H3 & H4). constructor; [exact H3|]. eapply IH; exact H4.
Qed.

Lemma chain_skipn lo bs k : chain lo bs -> chain (hi_of lo (firstn k bs)) (skipn k bs).
Proof.
  intros H. rewrite <- (firstn_skipn k bs) in H. apply chain_app in H. tauto.
Qed.

Lemma last_last_snoc a b : last_last (a ++ [b]) = b_last b.
Proof. unfold last_last. rewrite List.last_last. reflexivity. Qed.

Lemma hi_of_last lo bs : bs <> [] -> hi_of lo bs = last_last bs + 1.
Proof.
  intros H. destruct (exists_last H) as (a & b & ->). rewrite hi_of_app, last_last_snoc. reflexivity.
Qed.

Lemma body_nonempty lo bs : chain lo bs -> bs <> [] -> 61 <= zlen (body_of bs).
Proof.
  destruct bs as [|b r]; [congruence|]. cbn [chain]. intros (_ & _ & H & _) _.
  rewrite body_of_cons, zlen_app. pose proof (zlen_nonneg (body_of r)). lia.
Qed.

Lemma chain_last_ge lo bs : chain lo bs -> Forall (fun b => lo <= b_last b) bs.
Proof.
  revert lo; induction bs as [|b r IH]; intros lo; cbn [chain]; [constructor|].
  intros (H1 & H2 & H3 & H4). constructor; [unfold b_last; lia|].
  apply IH in H4. eapply Forall_impl; [|exact H4]. cbn. unfold b_last. intros; lia.
Qed.

Lemma hi_of_mono lo lo' bs : lo <= lo' -> hi_of lo bs <= hi_of lo' bs.
Proof. destruct bs; cbn; lia. Qed.

Definition dflt : batch := mkBatch 0 0 0 [].

(* the batches before position k end below the base of batch k *)
Lemma chain_firstn_lt lo bs k : chain lo bs -> (k < length bs)%nat ->
  Forall (fun b => b_last b < b_base (nth k bs dflt)) (firstn k bs).
Proof.
  intros H Hk. pose proof (chain_skipn lo bs k H) as Hs.
  rewrite <- (firstn_skipn k bs) in H. apply chain_app in H as [Hf _].
  apply chain_last_lt in Hf.
  assert (Hn : exists r, skipn k bs = nth k bs dflt :: r).
  { clear -Hk. revert k Hk; induction bs as [|b r IH]; intros k Hk; cbn in Hk; [lia|].
    destruct k; cbn; [eauto|]. apply IH. lia. }
  destruct Hn as (r & Hr). rewrite Hr in Hs. cbn [chain] in Hs. destruct Hs as (Hb & _).
  eapply Forall_impl; [|exact Hf]. cbn. intros; lia.
Qed.

(* ------------------------------------------------------------------ *)
(* C. recordsFromBatches                                                *)
(* ------------------------------------------------------------------ *)
Lemma rf_tail o max r : forall out, 0 < zlen out -> Forall (fun b => o <= b_last b) r ->
  exists n, records_from_aux r o max out = out ++ body_of (firstn n r).
Proof.
  induction r as [|b r IH]; intros out Ho Hr; cbn [records_from_aux].
  - exists 0%nat. cbn. now rewrite app_nil_r.
  - inversion Hr as [|? ? Hb Hr']; subst.
    destruct (b_last b <? o) eqn:E1; [lia|].
    destruct ((0 <? zlen out) && ((max <=? 0) || (max <? zlen out + zlen (b_bytes b)))) eqn:E2.
    + exists 0%nat. cbn. now rewrite app_nil_r.
    + destruct (IH (out ++ b_bytes b)) as (n & Hn); [rewrite zlen_app; pose proof (zlen_nonneg (b_bytes b)); lia|exact Hr'|].
      exists (S n). rewrite Hn. cbn [firstn]. rewrite body_of_cons, app_assoc. reflexivity.
Qed.

(* the result is whole batches, starting with the first batch ending at or after o *)
Lemma rf_spec o max : forall lo bs, chain lo bs ->
  exists pre rest n, bs = pre ++ rest /\ Forall (fun b => b_last b < o) pre /\
    records_from bs o max = body_of (firstn n rest) /\
    (forall b r, rest = b :: r -> o <= b_last b /\ (1 <= n)%nat).
Proof.
  unfold records_from. intros lo bs; revert lo; induction bs as [|b r IH]; intros lo Hc.
  - exists [], [], 0%nat. cbn. repeat split; try constructor; intros; discriminate.
  - cbn [chain] in Hc. destruct Hc as (H1 & H2 & H3 & H4). cbn [records_from_aux].
    destruct (b_last b <? o) eqn:E1.
    + destruct (IH _ H4) as (pre & rest & n & -> & Hp & Hr & Hn).
      exists (b :: pre), rest, n. split; [reflexivity|]. split; [constructor; [lia|assumption]|].
      split; [exact Hr|exact Hn].
    + change (zlen (@nil Z)) with 0. cbn [Z.ltb Z.compare andb app].
      assert (Hge : Forall (fun x => o <= b_last x) r).
      { apply chain_last_ge in H4. eapply Forall_impl; [|exact H4]. cbn. intros; lia. }
      destruct (rf_tail o max r (b_bytes b)) as (n & Hn); [lia|exact Hge|].
      exists [], (b :: r), (S n). cbn [app firstn]. rewrite body_of_cons.
      split; [reflexivity|]. split; [constructor|]. split; [exact Hn|].
      intros b' r' [= <- <-]. split; lia.
Qed.

(* ------------------------------------------------------------------ *)
(* D. index, findIndexEntry, segment lookup                             *)
(* ------------------------------------------------------------------ *)
Lemma build_index_in iv : forall bs since first pos e,
  In e (build_index iv since first pos bs) ->
  exists k, (k < length bs)%nat /\ ie_off e = b_base (nth k bs dflt)
            /\ ie_pos e = pos + zlen (body_of (firstn k bs)).
Proof.
  induction bs as [|b r IH]; intros since first pos e; cbn [build_index]; [tauto|].
  intros H.
  assert (Hrest : In e (build_index iv ((if first || (iv <=? since) then 0 else since) + b_count b) false
                                    (pos + zlen (b_bytes b)) r) ->
                  exists k, (k < length (b :: r))%nat /\ ie_off e = b_base (nth k (b :: r) dflt)
                            /\ ie_pos e = pos + zlen (body_of (firstn k (b :: r)))).
  { intros Hin. apply IH in Hin as (k & Hk & Ho & Hp). exists (S k). cbn [length nth firstn].
    rewrite body_of_cons, zlen_app. repeat split; [lia|assumption|lia]. }
  destruct (first || (iv <=? since)).
  - destruct H as [<-|H]; [|auto]. exists 0%nat. cbn. repeat split; lia.
  - auto.
Qed.

Lemma build_index_first iv since pos b r :
  exists tl, build_index iv since true pos (b :: r) = mkEntry (b_base b) pos :: tl.
Proof. cbn. eauto. Qed.

Lemma nth_entry_in es i : 0 <= i < zlen es -> In (nth_entry es i) es.
Proof. unfold nth_entry, zlen. intros H. apply nth_In. lia. Qed.

Lemma bsearch_in fx es o : es <> [] -> forall fuel lo hi, 0 <= lo -> hi < zlen es ->
  In (bsearch fx fuel es o lo hi) es.
Proof.
  intros Hne. assert (H0 : In (nth_entry es 0) es).
  { apply nth_entry_in. destruct es; [congruence|]. rewrite zlen_cons. pose proof (zlen_nonneg es). lia. }
  induction fuel as [|fuel IH]; intros lo hi Hlo Hhi; cbn [bsearch]; [exact H0|].
  destruct (hi <? lo) eqn:E; [exact H0|].
  assert (Hm : lo <= (lo + hi) / 2 <= hi) by (split; [apply Z.div_le_lower_bound|apply Z.div_le_upper_bound]; lia).
  destruct (ie_off (nth_entry es ((lo + hi) / 2)) =? o); [apply nth_entry_in; lia|].
  destruct (ie_off (nth_entry es ((lo + hi) / 2)) <? o).
  - destruct ((if fx then _ else _) && _); [apply nth_entry_in; lia|apply IH; lia].
  - apply IH; lia.
Qed.

Lemma bsearch_le fx es o : ie_off (nth_entry es 0) <= o -> forall fuel lo hi,
  ie_off (bsearch fx fuel es o lo hi) <= o.
Proof.
  intros H0. induction fuel as [|fuel IH]; intros lo hi; cbn [bsearch]; [exact H0|].
  destruct (hi <? lo); [exact H0|].
  destruct (ie_off (nth_entry es ((lo + hi) / 2)) =? o) eqn:E1; [lia|].
  destruct (ie_off (nth_entry es ((lo + hi) / 2)) <? o) eqn:E2.
  - destruct ((if fx then _ else _) && _); [lia|apply IH].
  - apply IH.
Qed.

Lemma find_entry_in fx es o : es <> [] -> In (find_entry_gen fx es o) es.
Proof.
  intros Hne. unfold find_entry_gen. destruct es as [|e0 r] eqn:Ees; [congruence|]. rewrite <- Ees.
  assert (Hl : 1 <= zlen es) by (subst es; rewrite zlen_cons; pose proof (zlen_nonneg r); lia).
  destruct (o <=? ie_off e0); [subst es; now left|].
  destruct (ie_off (nth_entry es (zlen es - 1)) <=? o); [apply nth_entry_in; lia|].
  apply bsearch_in; [subst es; congruence|lia|lia].
Qed.

Lemma find_entry_le fx e0 r o : ie_off e0 <= o -> ie_off (find_entry_gen fx (e0 :: r) o) <= o.
Proof.
  intros H. unfold find_entry_gen.
  destruct (o <=? ie_off e0) eqn:E1; [lia|].
  destruct (ie_off (nth_entry (e0 :: r) (zlen (e0 :: r) - 1)) <=? o) eqn:E2; [lia|].
  apply bsearch_le. exact H.
Qed.

Lemma find_segment_some segs o s o' : find_segment segs o = Some (s, o') ->
  exists A B, segs = A ++ s :: B /\ Forall (fun x => s_last x < o) A /\
    ((o' = o /\ s_base s <= o <= s_last s) \/ (o' = s_base s /\ o < s_base s)).
Proof.
  induction segs as [|x r IH]; cbn [find_segment]; [discriminate|].
  destruct ((s_base x <=? o) && (o <=? s_last x)) eqn:E1.
  - intros [= <- <-]. exists [], r. repeat split; [constructor|left; lia].
  - destruct (o <? s_base x) eqn:E2.
    + intros [= <- <-]. exists [], r. repeat split; [constructor|right; lia].
    + intros H. destruct (IH H) as (A & B & -> & HA & Hc). exists (x :: A), B.
      repeat split; [constructor; [lia|assumption]|assumption].
Qed.

Lemma find_segment_none segs o : find_segment segs o = None -> Forall (fun x => s_last x < o) segs.
Proof.
  induction segs as [|x r IH]; cbn [find_segment]; [constructor|].
  destruct ((s_base x <=? o) && (o <=? s_last x)) eqn:E1; [discriminate|].
  destruct (o <? s_base x) eqn:E2; [discriminate|]. intros H. constructor; [lia|auto].
Qed.
