(* The interplay laws of strings.Fields / TrimSpace / TrimSuffix(";") / Join on the
   byte-level models of model/SqlParse.v, proved (they used to be premises of the
   C37 theorems). White-space runes are self-synchronising: a rune never straddles
   a boundary whose right side starts with a non-continuation byte. *)
From Coq Require Import ZifyBool.
From KS Require Import lib.Base model.SqlParse model.SqlProxy proofs.SqlParseCaseProofs proofs.SqlProxyProofs.
Open Scope Z_scope.

(* the first byte of t (if any) is not a UTF-8 continuation byte *)
Definition bnd (t : bytes) : Prop :=
  match t with [] => True | b :: _ => b < 128 \/ 192 <= b end.

Lemma sp_len_le l : (sp_len l <= length l)%nat.
Proof.
  destruct l as [|b [|c [|d r]]]; cbn [sp_len length]; try lia.
  - destruct (ascii_space b); lia.
  - destruct (ascii_space b); [lia|]. destruct ((b =? 194) && ((c =? 133) || (c =? 160))); lia.
  - destruct (ascii_space b); [lia|]. destruct ((b =? 194) && ((c =? 133) || (c =? 160))); [lia|].
    repeat match goal with |- context [if ?x then _ else _] => destruct x end; lia.
Qed.

Lemma sp_len_app u t : u <> [] -> bnd t -> sp_len (u ++ t) = sp_len u.
Proof.
  intros Hu Ht. destruct u as [|b [|c [|d r]]]; [congruence| | |reflexivity].
  - cbn [app sp_len]. destruct (ascii_space b); [reflexivity|].
    destruct t as [|c [|d r]]; [reflexivity| |]; cbn [bnd] in Ht.
    + replace ((b =? 194) && ((c =? 133) || (c =? 160))) with false by lia. reflexivity.
    + replace ((b =? 194) && ((c =? 133) || (c =? 160))) with false by lia.
      replace ((b =? 225) && (c =? 154) && (d =? 128)) with false by lia.
      replace ((b =? 226) && (c =? 128) && ((128 <=? d) && (d <=? 138) || (d =? 168) || (d =? 169) || (d =? 175))) with false by lia.
      replace ((b =? 226) && (c =? 129) && (d =? 159)) with false by lia.
      replace ((b =? 227) && (c =? 128) && (d =? 128)) with false by lia. reflexivity.
  - cbn [app sp_len]. destruct (ascii_space b); [reflexivity|].
    destruct ((b =? 194) && ((c =? 133) || (c =? 160))); [reflexivity|].
    destruct t as [|d r]; [reflexivity|]. cbn [bnd] in Ht.
    replace ((b =? 225) && (c =? 154) && (d =? 128)) with false by lia.
    replace ((b =? 226) && (c =? 128) && ((128 <=? d) && (d <=? 138) || (d =? 168) || (d =? 169) || (d =? 175))) with false by lia.
    replace ((b =? 226) && (c =? 129) && (d =? 159)) with false by lia.
    replace ((b =? 227) && (c =? 128) && (d =? 128)) with false by lia. reflexivity.
Qed.

(* a string that starts with a white-space rune starts with a non-continuation byte *)
Lemma sp_len_bnd l : sp_len l <> 0%nat -> bnd l.
Proof.
  destruct l as [|b r]; [exact (fun _ => I)|]. cbn [bnd sp_len]. intros H.
  destruct (ascii_space b) eqn:E; [unfold ascii_space in E; lia|].
  destruct r as [|c [|d r']]; [congruence| |].
  - destruct ((b =? 194) && ((c =? 133) || (c =? 160))) eqn:E2; [lia|congruence].
  - destruct ((b =? 194) && ((c =? 133) || (c =? 160))) eqn:E2; [lia|].
    destruct ((b =? 225) && (c =? 154) && (d =? 128)) eqn:E3; [lia|].
    destruct ((b =? 226) && (c =? 128) && ((128 <=? d) && (d <=? 138) || (d =? 168) || (d =? 169) || (d =? 175))) eqn:E4; [lia|].
    destruct ((b =? 226) && (c =? 129) && (d =? 159)) eqn:E5; [lia|].
    destruct ((b =? 227) && (c =? 128) && (d =? 128)) eqn:E6; [lia|congruence].
Qed.

(* ------------------------------------------------------------------ the Fields scan with its final state *)
Fixpoint scan (l : bytes) (skip : nat) (cur : bytes) : list bytes * bytes :=
  match l with
  | [] => ([], cur)
  | b :: r =>
    match skip with
    | S k => scan r k cur
    | O => match sp_len l with
           | O => scan r 0 (b :: cur)
           | S k => (flush cur ++ fst (scan r k []), snd (scan r k []))
           end
    end
  end.

Lemma fields_go_scan : forall l skip cur,
  fields_go l skip cur = fst (scan l skip cur) ++ flush (snd (scan l skip cur)).
Proof.
  induction l as [|b r IH]; intros skip cur; [reflexivity|]. cbn [fields_go scan].
  destruct skip as [|k]; [|apply IH].
  destruct (sp_len (b :: r)) as [|k]; [apply IH|].
  cbn [fst snd]. rewrite IH, app_assoc. reflexivity.
Qed.

Lemma fields_go_app t : bnd t -> forall l skip cur, (skip <= length l)%nat ->
  fields_go (l ++ t) skip cur = fst (scan l skip cur) ++ fields_go t 0 (snd (scan l skip cur)).
Proof.
  intros Ht. induction l as [|b r IH]; intros skip cur Hs.
  - cbn in Hs. assert (skip = 0%nat) as -> by lia. reflexivity.
  - change ((b :: r) ++ t) with (b :: (r ++ t)). cbn [fields_go scan]. cbn [length] in Hs.
    destruct skip as [|k]; [|apply IH; lia].
    change (b :: r ++ t) with ((b :: r) ++ t). rewrite (sp_len_app (b :: r) t) by (congruence || assumption).
    pose proof (sp_len_le (b :: r)) as Hle. cbn [length] in Hle.
    destruct (sp_len (b :: r)) as [|k]; [apply IH; lia|].
    cbn [fst snd]. rewrite IH by lia. now rewrite app_assoc.
Qed.

Lemma fields_go_skip : forall a m cur, fields_go (a ++ m) (length a) cur = fields_go m 0 cur.
Proof. induction a as [|x a IH]; intros m cur; [reflexivity|]. cbn [app length fields_go]. apply IH. Qed.

Lemma scan_skip : forall a m cur, scan (a ++ m) (length a) cur = scan m 0 cur.
Proof. induction a as [|x a IH]; intros m cur; [reflexivity|]. cbn [app length scan]. apply IH. Qed.

Lemma fields_go_skipn : forall r k cur, (k <= length r)%nat -> fields_go r k cur = fields_go (skipn k r) 0 cur.
Proof.
  induction r as [|x r IH]; intros k cur Hk.
  - cbn in Hk. assert (k = 0%nat) as -> by lia. reflexivity.
  - destruct k as [|k]; [reflexivity|]. cbn [fields_go skipn]. apply IH. cbn in Hk. lia.
Qed.

Lemma scan_skipn : forall r k cur, (k <= length r)%nat -> scan r k cur = scan (skipn k r) 0 cur.
Proof.
  induction r as [|x r IH]; intros k cur Hk.
  - cbn in Hk. assert (k = 0%nat) as -> by lia. reflexivity.
  - destruct k as [|k]; [reflexivity|]. cbn [scan skipn]. apply IH. cbn in Hk. lia.
Qed.

Lemma fields_ws l k : sp_len l = S k -> fields l = fields (skipn (S k) l).
Proof.
  intros H. unfold fields. destruct l as [|b r]; [discriminate|]. cbn [fields_go]. rewrite H. cbn [flush app skipn].
  pose proof (sp_len_le (b :: r)) as Hle. rewrite H in Hle. cbn [length] in Hle.
  apply fields_go_skipn. lia.
Qed.

Lemma scan_ws l k cur : sp_len l = S k ->
  scan l 0 cur = (flush cur ++ fst (scan (skipn (S k) l) 0 []), snd (scan (skipn (S k) l) 0 [])).
Proof.
  intros H. destruct l as [|b r]; [discriminate|]. cbn [scan]. rewrite H. cbn [skipn].
  pose proof (sp_len_le (b :: r)) as Hle. rewrite H in Hle. cbn [length] in Hle.
  rewrite (scan_skipn r k []) by lia. reflexivity.
Qed.

(* ------------------------------------------------------------------ words *)
Definition nosp (w : bytes) : Prop := forall cur, scan w 0 cur = ([], rev w ++ cur).
Definition word (w : bytes) : Prop := w <> [] /\ nosp w.

(* the longest prefix without a white-space rune, and the rest *)
Fixpoint take_word (l : bytes) : bytes * bytes :=
  match l with
  | [] => ([], [])
  | b :: r => match sp_len l with
              | O => (b :: fst (take_word r), snd (take_word r))
              | S _ => ([], l)
              end
  end.

Lemma tw_app l : l = fst (take_word l) ++ snd (take_word l).
Proof.
  induction l as [|b r IH]; [reflexivity|]. cbn [take_word].
  destruct (sp_len (b :: r)); [|reflexivity]. cbn [fst snd app]. now rewrite <- IH.
Qed.

Lemma tw_tail l : snd (take_word l) = [] \/ sp_len (snd (take_word l)) <> 0%nat.
Proof.
  induction l as [|b r IH]; [now left|]. cbn [take_word].
  destruct (sp_len (b :: r)) eqn:E; [exact IH|]. right. cbn [snd]. congruence.
Qed.

Lemma tw_bnd l : bnd (snd (take_word l)).
Proof. destruct (tw_tail l) as [-> | H]; [exact I|now apply sp_len_bnd]. Qed.

Lemma tw_scan : forall l cur, scan l 0 cur = scan (snd (take_word l)) 0 (rev (fst (take_word l)) ++ cur).
Proof.
  induction l as [|b r IH]; intros cur; [reflexivity|]. cbn [take_word].
  destruct (sp_len (b :: r)) eqn:E; [|reflexivity].
  cbn [fst snd scan]. rewrite E, IH. cbn [rev]. now rewrite <- app_assoc.
Qed.

Lemma tw_nosp : forall l, nosp (fst (take_word l)).
Proof.
  induction l as [|b r IH]; intros cur; [reflexivity|]. cbn [take_word].
  destruct (sp_len (b :: r)) eqn:E; [|reflexivity]. cbn [fst].
  assert (sp_len (b :: fst (take_word r)) = 0%nat) as E0.
  { rewrite <- (sp_len_app (b :: fst (take_word r)) (snd (take_word r))) by (congruence || apply tw_bnd).
    cbn [app]. now rewrite <- tw_app. }
  cbn [scan]. rewrite E0, IH. cbn [rev]. now rewrite <- app_assoc.
Qed.

Lemma flush_rev w : w <> [] -> flush (rev w) = [w].
Proof.
  intros H. unfold flush. destruct (rev w) eqn:E.
  - apply (f_equal (@rev Z)) in E. rewrite rev_involutive in E. now subst.
  - rewrite <- E, rev_involutive. reflexivity.
Qed.

Lemma fields_nil : fields [] = [].
Proof. reflexivity. Qed.

Lemma fields_word_step l : l <> [] -> sp_len l = 0%nat ->
  fst (take_word l) <> [] /\ fields l = fst (take_word l) :: fields (snd (take_word l)).
Proof.
  intros Hl H0. assert (fst (take_word l) <> []) as Hw.
  { destruct l as [|b r]; [congruence|]. cbn [take_word]. rewrite H0. cbn. congruence. }
  split; [exact Hw|]. unfold fields at 1. rewrite fields_go_scan, tw_scan, app_nil_r.
  destruct (tw_tail l) as [E|E].
  - rewrite E. cbn [scan fst snd app]. now rewrite flush_rev.
  - destruct (sp_len (snd (take_word l))) as [|k] eqn:Ek; [congruence|].
    rewrite (scan_ws _ k _ Ek). cbn [fst snd]. rewrite flush_rev by exact Hw.
    rewrite (fields_ws _ k Ek). unfold fields. rewrite fields_go_scan. reflexivity.
Qed.

Lemma fields_words_n : forall n l, (length l <= n)%nat -> Forall word (fields l).
Proof.
  induction n as [|n IH]; intros l Hn.
  - destruct l; [constructor|cbn in Hn; lia].
  - destruct l as [|b r]; [constructor|].
    destruct (sp_len (b :: r)) as [|k] eqn:E.
    + destruct (fields_word_step (b :: r) ltac:(congruence) E) as [Hw ->].
      constructor; [split; [exact Hw|apply tw_nosp]|].
      apply IH. pose proof (f_equal (@length Z) (tw_app (b :: r))) as Hlen.
      rewrite app_length in Hlen. destruct (fst (take_word (b :: r))); [congruence|]. cbn [length] in *. lia.
    + rewrite (fields_ws _ k E). apply IH. rewrite skipn_length. cbn [length] in *. lia.
Qed.

Lemma fields_words l : Forall word (fields l).
Proof. apply (fields_words_n (length l)). lia. Qed.

Lemma fields_of_word w : word w -> fields w = [w].
Proof.
  intros [Hw Hn]. unfold fields. rewrite fields_go_scan, Hn. cbn [fst snd app].
  rewrite app_nil_r. now apply flush_rev.
Qed.

(* Fields(Join(words, " ")) = words *)
Lemma fields_join_words : forall ws, Forall word ws -> fields (join32 ws) = ws.
Proof.
  induction ws as [|f ws IH]; intros H; [reflexivity|].
  inversion H as [|? ? Hf Hws]; subst. destruct ws as [|g ws'].
  - cbn [join32]. now apply fields_of_word.
  - change (join32 (f :: g :: ws')) with (f ++ 32 :: join32 (g :: ws')).
    unfold fields. rewrite (fields_go_app (32 :: join32 (g :: ws'))) by (cbn; lia).
    destruct Hf as [Hne Hn]. rewrite Hn. cbn [fst snd app]. rewrite app_nil_r.
    cbn [fields_go sp_len]. change (ascii_space 32) with true. cbn iota.
    rewrite flush_rev by exact Hne. cbn [app]. f_equal. apply (IH Hws).
Qed.

Theorem fields_join s : fields (join32 (fields s)) = fields s.
Proof. apply fields_join_words, fields_words. Qed.

(* ------------------------------------------------------------------ TrimSpace, left side *)
Lemma trim_go_skipn len : forall r k, (k <= length r)%nat -> trim_go len r k = trim_go len (skipn k r) 0.
Proof.
  induction r as [|x r IH]; intros k Hk.
  - cbn in Hk. assert (k = 0%nat) as -> by lia. reflexivity.
  - destruct k as [|k]; [reflexivity|]. cbn [trim_go skipn]. apply IH. cbn in Hk. lia.
Qed.

Lemma trim_left_ws l k : sp_len l = S k -> trim_left l = trim_left (skipn (S k) l).
Proof.
  intros H. unfold trim_left. destruct l as [|b r]; [discriminate|]. cbn [trim_go]. rewrite H. cbn [skipn].
  pose proof (sp_len_le (b :: r)) as Hle. rewrite H in Hle. cbn [length] in Hle.
  apply trim_go_skipn. lia.
Qed.

Lemma trim_left_word l : sp_len l = 0%nat -> trim_left l = l.
Proof. intros H. unfold trim_left. destruct l as [|b r]; [reflexivity|]. cbn [trim_go]. now rewrite H. Qed.

Lemma fields_trim_left_n : forall n l, (length l <= n)%nat -> fields (trim_left l) = fields l.
Proof.
  induction n as [|n IH]; intros l Hn.
  - destruct l; [reflexivity|cbn in Hn; lia].
  - destruct (sp_len l) as [|k] eqn:E.
    + now rewrite trim_left_word.
    + rewrite (trim_left_ws l k E), (fields_ws l k E). apply IH.
      rewrite skipn_length. destruct l; [discriminate|]. cbn [length] in *. lia.
Qed.

Lemma fields_trim_left l : fields (trim_left l) = fields l.
Proof. apply (fields_trim_left_n (length l)). lia. Qed.

(* the result of trim_left does not start with a white-space rune *)
Lemma trim_left_head_n : forall n l, (length l <= n)%nat -> sp_len (trim_left l) = 0%nat.
Proof.
  induction n as [|n IH]; intros l Hn.
  - destruct l; [reflexivity|cbn in Hn; lia].
  - destruct (sp_len l) as [|k] eqn:E.
    + now rewrite trim_left_word.
    + rewrite (trim_left_ws l k E). apply IH.
      rewrite skipn_length. destruct l; [discriminate|]. cbn [length] in *. lia.
Qed.

(* ------------------------------------------------------------------ TrimSpace, right side *)
Lemma scan_app t : bnd t -> forall l skip cur, (skip <= length l)%nat ->
  scan (l ++ t) skip cur =
  (fst (scan l skip cur) ++ fst (scan t 0 (snd (scan l skip cur))), snd (scan t 0 (snd (scan l skip cur)))).
Proof.
  intros Ht. induction l as [|b r IH]; intros skip cur Hs.
  - cbn in Hs. assert (skip = 0%nat) as -> by lia. cbn [app scan fst snd]. now destruct (scan t 0 cur).
  - change ((b :: r) ++ t) with (b :: (r ++ t)). cbn [scan]. cbn [length] in Hs.
    destruct skip as [|k]; [|apply IH; lia].
    change (b :: r ++ t) with ((b :: r) ++ t). rewrite (sp_len_app (b :: r) t) by (congruence || assumption).
    pose proof (sp_len_le (b :: r)) as Hle. cbn [length] in Hle.
    destruct (sp_len (b :: r)) as [|k]; [apply IH; lia|].
    rewrite IH by lia. cbn [fst snd]. now rewrite app_assoc.
Qed.

(* a reversed string that starts with a reversed white-space rune *)
Lemma rsp_cases m k : rsp_len m = S k ->
  exists r m', m = rev r ++ m' /\ length r = S k /\ sp_len r = S k.
Proof.
  destruct m as [|d m1]; [discriminate|]. cbn [rsp_len].
  destruct (ascii_space d) eqn:E1.
  { intros H. inversion H; subst. exists [d], m1. repeat split. cbn [sp_len]. now rewrite E1. }
  destruct m1 as [|c m2]; [discriminate|].
  destruct ((c =? 194) && ((d =? 133) || (d =? 160))) eqn:E2.
  { intros H. inversion H; subst. exists [c; d], m2. repeat split. cbn [sp_len].
    replace (ascii_space c) with false by (unfold ascii_space; lia).
    replace ((c =? 194) && ((d =? 133) || (d =? 160))) with true by lia. reflexivity. }
  destruct m2 as [|b m3]; [discriminate|].
  intros H.
  assert (k = 2%nat /\
          ((b =? 225) && (c =? 154) && (d =? 128) = true \/
           (b =? 226) && (c =? 128) && ((128 <=? d) && (d <=? 138) || (d =? 168) || (d =? 169) || (d =? 175)) = true \/
           (b =? 226) && (c =? 129) && (d =? 159) = true \/
           (b =? 227) && (c =? 128) && (d =? 128) = true)) as [-> Hc].
  { destruct ((b =? 225) && (c =? 154) && (d =? 128)); [split; [congruence|tauto]|].
    destruct ((b =? 226) && (c =? 128) && ((128 <=? d) && (d <=? 138) || (d =? 168) || (d =? 169) || (d =? 175))); [split; [congruence|tauto]|].
    destruct ((b =? 226) && (c =? 129) && (d =? 159)); [split; [congruence|tauto]|].
    destruct ((b =? 227) && (c =? 128) && (d =? 128)); [split; [congruence|tauto]|discriminate]. }
  exists [b; c; d], m3. repeat split. cbn [sp_len].
  replace (ascii_space b) with false by (unfold ascii_space; lia).
  replace ((b =? 194) && ((c =? 133) || (c =? 160))) with false by lia.
  destruct ((b =? 225) && (c =? 154) && (d =? 128)); [reflexivity|].
  destruct ((b =? 226) && (c =? 128) && ((128 <=? d) && (d <=? 138) || (d =? 168) || (d =? 169) || (d =? 175))); [reflexivity|].
  destruct ((b =? 226) && (c =? 129) && (d =? 159)); [reflexivity|].
  destruct ((b =? 227) && (c =? 128) && (d =? 128)); [reflexivity|].
  destruct Hc as [Hc|[Hc|[Hc|Hc]]]; discriminate.
Qed.

(* a string made of white-space runes only: scanning it just closes the pending field *)
Definition allws (W : bytes) : Prop :=
  bnd W /\ (W = [] \/ forall cur, scan W 0 cur = (flush cur, [])).

Lemma scan_rune r cur : r <> [] -> sp_len r = length r -> scan r 0 cur = (flush cur, []).
Proof.
  intros Hr H. destruct r as [|b r']; [congruence|]. cbn [scan]. rewrite H. cbn [length].
  rewrite (scan_skipn r' (length r') []) by lia. rewrite skipn_all. cbn. now rewrite app_nil_r.
Qed.

Lemma allws_snoc W r : allws W -> r <> [] -> sp_len r = length r -> allws (W ++ r).
Proof.
  intros [HbW HW] Hr H. assert (bnd r) as Hbr.
  { apply sp_len_bnd. rewrite H. destruct r; [congruence|discriminate]. }
  destruct HW as [->|HW].
  - cbn [app]. split; [exact Hbr|right; intros cur; now apply scan_rune].
  - split.
    + destruct W; [exact Hbr|exact HbW].
    + right. intros cur. rewrite (scan_app r Hbr W 0 cur) by lia. rewrite HW. cbn [fst snd].
      rewrite (scan_rune r [] Hr H). cbn [fst snd flush]. now rewrite app_nil_r.
Qed.

Lemma fields_app_allws y W : allws W -> fields (y ++ W) = fields y.
Proof.
  intros [Hb HW]. unfold fields. rewrite (fields_go_app W Hb y 0 []) by lia.
  rewrite (fields_go_scan y 0 []). f_equal.
  destruct HW as [->|HW]; [reflexivity|]. rewrite fields_go_scan, HW. cbn [fst snd flush]. now rewrite app_nil_r.
Qed.

Lemma trim_right_spec_n : forall n m, (length m <= n)%nat ->
  exists W, allws W /\ rev m = rev (trim_go rsp_len m 0) ++ W /\ rsp_len (trim_go rsp_len m 0) = 0%nat.
Proof.
  induction n as [|n IH]; intros m Hn.
  - destruct m; [|cbn in Hn; lia]. exists []. split; [split; [exact I|now left]|split; reflexivity].
  - destruct (rsp_len m) as [|k] eqn:E.
    + exists []. assert (trim_go rsp_len m 0 = m) as ->.
      { destruct m; [reflexivity|]. cbn [trim_go]. now rewrite E. }
      rewrite app_nil_r. split; [split; [exact I|now left]|split; [reflexivity|exact E]].
    + destruct (rsp_cases m k E) as [r [m' [Hm [Hlen Hsp]]]].
      assert (trim_go rsp_len m 0 = trim_go rsp_len m' 0) as Ht.
      { destruct m as [|x m1]; [discriminate|]. cbn [trim_go]. rewrite E.
        assert (length (rev r) = S k) as Hrl by now rewrite rev_length.
        destruct (rev r) as [|y rr] eqn:Er; [discriminate|]. cbn [app] in Hm. inversion Hm; subst.
        cbn [length] in Hrl. rewrite (trim_go_skipn rsp_len (rr ++ m') k) by (rewrite app_length; lia).
        replace k with (length rr) by lia. rewrite skipn_app, skipn_all, Nat.sub_diag. reflexivity. }
      destruct (IH m') as [W [HW [Hrev Hz]]].
      { subst m. rewrite app_length, rev_length in Hn. lia. }
      exists (W ++ r). rewrite Ht. split; [|split; [|exact Hz]].
      * apply allws_snoc; [exact HW| |lia]. destruct r; [discriminate|congruence].
      * subst m. rewrite rev_app_distr, rev_involutive, Hrev. now rewrite app_assoc.
Qed.

Lemma trim_right_spec x : exists W, allws W /\ x = trim_right x ++ W /\ rsp_len (rev (trim_right x)) = 0%nat.
Proof.
  destruct (trim_right_spec_n (length (rev x)) (rev x) ltac:(lia)) as [W [HW [Hrev Hz]]].
  exists W. unfold trim_right. rewrite rev_involutive in *. auto.
Qed.

Theorem fields_trim_space s : fields (trim_space s) = fields s.
Proof.
  unfold trim_space. destruct (trim_right_spec (trim_left s)) as [W [HW [Hx _]]].
  rewrite <- (fields_trim_left s). rewrite Hx at 2. symmetry. now apply fields_app_allws.
Qed.

(* ------------------------------------------------------------------ where a scan ends *)
Lemma rsp_len_app_nz m x : rsp_len m <> 0%nat -> rsp_len (m ++ x) = rsp_len m.
Proof.
  intros H. destruct m as [|d [|c [|b m3]]]; [now cbn in H| | |reflexivity]; cbn [app rsp_len] in *.
  - destruct (ascii_space d); [reflexivity|congruence].
  - destruct (ascii_space d); [reflexivity|].
    destruct ((c =? 194) && ((d =? 133) || (d =? 160))); [reflexivity|congruence].
Qed.

Lemma rsp_of_rune r m : r <> [] -> sp_len r = length r -> rsp_len (rev r ++ m) = length r.
Proof.
  intros Hr H. destruct r as [|b [|c [|d [|e r4]]]]; [congruence| | | |].
  - cbn [sp_len length] in H. cbn [rev app rsp_len length].
    destruct (ascii_space b); [reflexivity|discriminate].
  - cbn [sp_len length] in H. cbn [rev app rsp_len length].
    destruct (ascii_space b) eqn:E1; [discriminate|].
    destruct ((b =? 194) && ((c =? 133) || (c =? 160))) eqn:E2; [|discriminate].
    replace (ascii_space c) with false by (unfold ascii_space; lia). reflexivity.
  - cbn [sp_len length] in H. cbn [rev app rsp_len length].
    destruct (ascii_space b) eqn:E1; [discriminate|].
    destruct ((b =? 194) && ((c =? 133) || (c =? 160))) eqn:E2; [discriminate|].
    destruct ((b =? 225) && (c =? 154) && (d =? 128)) eqn:E3.
    { replace (ascii_space d) with false by (unfold ascii_space; lia).
      replace ((c =? 194) && ((d =? 133) || (d =? 160))) with false by lia. reflexivity. }
    destruct ((b =? 226) && (c =? 128) && ((128 <=? d) && (d <=? 138) || (d =? 168) || (d =? 169) || (d =? 175))) eqn:E4.
    { replace (ascii_space d) with false by (unfold ascii_space; lia).
      replace ((c =? 194) && ((d =? 133) || (d =? 160))) with false by lia. reflexivity. }
    destruct ((b =? 226) && (c =? 129) && (d =? 159)) eqn:E5.
    { replace (ascii_space d) with false by (unfold ascii_space; lia).
      replace ((c =? 194) && ((d =? 133) || (d =? 160))) with false by lia. reflexivity. }
    destruct ((b =? 227) && (c =? 128) && (d =? 128)) eqn:E6; [|discriminate].
    replace (ascii_space d) with false by (unfold ascii_space; lia).
    replace ((c =? 194) && ((d =? 133) || (d =? 160))) with false by lia. reflexivity.
  - pose proof (sp_len_le [b; c; d]) as Hle. exfalso.
    assert (sp_len (b :: c :: d :: e :: r4) <= 3)%nat as H3.
    { cbn [sp_len]. repeat match goal with |- context [if ?x then _ else _] => destruct x end; lia. }
    cbn [length] in H. lia.
Qed.

Lemma scan_end_n : forall n l cur, (length l <= n)%nat -> l <> [] ->
  (exists l' b c', l = l' ++ [b] /\ snd (scan l 0 cur) = b :: c') \/
  (snd (scan l 0 cur) = [] /\ rsp_len (rev l) <> 0%nat).
Proof.
  induction n as [|n IH]; intros l cur Hn Hl; [destruct l; [congruence|cbn in Hn; lia]|].
  destruct (sp_len l) as [|k] eqn:E.
  - destruct l as [|b l']; [congruence|]. cbn [scan]. rewrite E.
    destruct l' as [|b2 l2].
    + left. exists [], b, cur. split; reflexivity.
    + destruct (IH (b2 :: l2) (b :: cur) ltac:(cbn [length] in *; lia) ltac:(congruence))
        as [[l'' [b0 [c' [Hl' Hs]]]]|[Hs Hr]].
      * left. exists (b :: l''), b0, c'. split; [now rewrite Hl'|exact Hs].
      * right. split; [exact Hs|]. cbn [rev]. change (rev l2 ++ [b2]) with (rev (b2 :: l2)).
        rewrite rsp_len_app_nz; assumption.
  - rewrite (scan_ws l k cur E). cbn [snd].
    pose proof (sp_len_le l) as Hle. rewrite E in Hle.
    destruct (skipn (S k) l) as [|b2 l2] eqn:Es.
    + right. split; [reflexivity|].
      assert (length l = S k) as Hlen.
      { pose proof (skipn_length (S k) l) as Hs. rewrite Es in Hs. cbn in Hs. lia. }
      rewrite <- (app_nil_r (rev l)), rsp_of_rune; [lia|exact Hl|lia].
    + assert (l = firstn (S k) l ++ b2 :: l2) as Hsplit by (rewrite <- Es; now rewrite firstn_skipn).
      destruct (IH (b2 :: l2) [] ) as [[l'' [b0 [c' [Hl' Hs]]]]|[Hs Hr]].
      { pose proof (skipn_length (S k) l) as Hsl. rewrite Es in Hsl. cbn [length] in *. lia. }
      { congruence. }
      * left. exists (firstn (S k) l ++ l''), b0, c'. split; [|exact Hs].
        rewrite Hsplit at 1. rewrite Hl'. now rewrite app_assoc.
      * right. split; [exact Hs|]. rewrite Hsplit, rev_app_distr.
        rewrite rsp_len_app_nz; assumption.
Qed.

Lemma scan_end l cur : l <> [] ->
  (exists l' b c', l = l' ++ [b] /\ snd (scan l 0 cur) = b :: c') \/
  (snd (scan l 0 cur) = [] /\ rsp_len (rev l) <> 0%nat).
Proof. apply (scan_end_n (length l)). lia. Qed.

(* ------------------------------------------------------------------ TrimSuffix(";") *)
Lemma strip_semi_cons b x r :
  strip_semi (b :: x :: r) = match strip_semi (x :: r) with Some r' => Some (b :: r') | None => None end.
Proof. reflexivity. Qed.

Lemma strip_semi_snoc w : strip_semi (w ++ [59]) = Some w.
Proof.
  induction w as [|b w IH]; [reflexivity|]. cbn [app].
  destruct (w ++ [59]) as [|x r] eqn:E; [now destruct w|]. rewrite strip_semi_cons, IH. reflexivity.
Qed.

Lemma strip_semi_snoc_ne w b : b <> 59 -> strip_semi (w ++ [b]) = None.
Proof.
  intros Hb. induction w as [|c w IH].
  - cbn. destruct (b =? 59) eqn:E; [lia|reflexivity].
  - cbn [app]. destruct (w ++ [b]) as [|x r] eqn:E; [now destruct w|]. rewrite strip_semi_cons, IH. reflexivity.
Qed.

Lemma drop_semi_snoc O f : drop_semi (O ++ [f]) = O ++ drop_semi [f].
Proof.
  induction O as [|o O IH]; [reflexivity|]. cbn [app].
  destruct (O ++ [f]) as [|x r] eqn:E; [now destruct O|].
  change (drop_semi (o :: x :: r)) with (o :: drop_semi (x :: r)). now rewrite IH.
Qed.

Lemma drop_semi_last_semi O w : drop_semi (O ++ [w ++ [59]]) = O ++ match w with [] => [] | _ => [w] end.
Proof. rewrite drop_semi_snoc. cbn [drop_semi]. rewrite strip_semi_snoc. now destruct w. Qed.

Lemma drop_semi_last_ne O w b : b <> 59 -> drop_semi (O ++ [w ++ [b]]) = O ++ [w ++ [b]].
Proof. intros Hb. rewrite drop_semi_snoc. cbn [drop_semi]. now rewrite strip_semi_snoc_ne. Qed.

Lemma flush_cases c : flush c = match rev c with [] => [] | _ => [rev c] end.
Proof.
  destruct c as [|x c]; [reflexivity|]. cbn [flush]. destruct (rev (x :: c)) eqn:E; [|reflexivity].
  apply (f_equal (@rev Z)) in E. rewrite rev_involutive in E. discriminate.
Qed.

(* Fields after TrimSpace and TrimSuffix(";") = one ';' dropped from the last field *)
Theorem fields_strip s : fields (trim_semi (trim_space s)) = drop_semi (fields s).
Proof.
  rewrite <- (fields_trim_space s).
  assert (rsp_len (rev (trim_space s)) = 0%nat) as Hz.
  { unfold trim_space. destruct (trim_right_spec (trim_left s)) as [W [_ [_ Hz]]]. exact Hz. }
  set (y := trim_space s) in *. rewrite trim_semi_alt.
  destruct (rev y) as [|x r] eqn:Er.
  { apply (f_equal (@rev Z)) in Er. rewrite rev_involutive in Er. rewrite Er. reflexivity. }
  assert (y = rev r ++ [x]) as Hy.
  { apply (f_equal (@rev Z)) in Er. rewrite rev_involutive in Er. exact Er. }
  destruct (x =? 59) eqn:Ex.
  - apply Z.eqb_eq in Ex. subst x. rewrite Hy. unfold fields.
    rewrite (fields_go_app [59] ltac:(cbn; lia) (rev r) 0 []) by lia.
    rewrite (fields_go_scan (rev r) 0 []).
    cbn [fields_go sp_len]. change (ascii_space 59) with false. cbn iota.
    cbn [flush]. cbn [rev]. rewrite drop_semi_last_semi, flush_cases. reflexivity.
  - assert (y <> []) as Hne by (rewrite Hy; now destruct (rev r)).
    destruct (scan_end y [] Hne) as [[l' [b [c' [Hl Hs]]]]|[_ Hnz]]; [|rewrite Er in Hnz; congruence].
    assert (b = x) as ->.
    { rewrite Hy in Hl. apply (f_equal (@rev Z)) in Hl. rewrite !rev_app_distr in Hl. cbn in Hl. congruence. }
    unfold fields. rewrite fields_go_scan, Hs. cbn [flush rev].
    symmetry. apply drop_semi_last_ne. lia.
Qed.

(* ------------------------------------------------------------------ session commands *)
Lemma has_prefix_app : forall p l, has_prefix l p = true -> exists rest, l = p ++ rest.
Proof.
  induction p as [|c p IH]; intros l H; [now exists l|].
  destruct l as [|b l]; [discriminate|]. cbn [has_prefix] in H.
  apply andb_true_iff in H as [Hb Hp]. apply Z.eqb_eq in Hb. subst b.
  destruct (IH l Hp) as [rest ->]. now exists rest.
Qed.

Lemma tokens_alt s : tokens s = fields (ascii_lower (trim_space (trim_semi (trim_space s)))).
Proof. unfold tokens. now rewrite !fields_lower, fields_trim_space. Qed.

Lemma fields_word_space (w rest : bytes) :
  scan w 0 [] = ([], rev w) -> w <> [] -> fields (w ++ 32 :: rest) = w :: fields rest.
Proof.
  intros Hs Hw. unfold fields. rewrite (fields_go_app (32 :: rest) ltac:(cbn; lia) w 0 []) by lia.
  rewrite Hs. cbn [fst snd app fields_go sp_len]. change (ascii_space 32) with true. cbn iota.
  now rewrite flush_rev.
Qed.

Theorem session_tokens s : session s = true ->
  match tokens s with [] => True | f :: _ => f = kw_set \/ f = kw_reset end.
Proof.
  unfold session. rewrite tokens_alt. set (t := trim_space (trim_semi (trim_space s))).
  intros H. apply orb_true_iff in H as [H|H]; [apply orb_true_iff in H as [H|H]|].
  - destruct t; [exact I|discriminate].
  - destruct (has_prefix_app _ _ H) as [rest ->].
    change (kw_set_sp ++ rest) with ([115;101;116] ++ 32 :: rest).
    rewrite fields_word_space; [now left|reflexivity|discriminate].
  - destruct (has_prefix_app _ _ H) as [rest ->].
    change (kw_reset_sp ++ rest) with ([114;101;115;101;116] ++ 32 :: rest).
    rewrite fields_word_space; [now right|reflexivity|discriminate].
Qed.
