(* C07 round trip: the decoders applied to a segment that contains spec-encoded
   (lib/Kafka.v) well-formed batches return exactly the records that were sent. *)
From KS Require Import lib.Base lib.Varint lib.Outcome lib.Kafka model.Decoders proofs.DecodersProofs.
From Coq Require Import ZifyBool.
Open Scope Z_scope.

Lemma out_bind_ok {E A B} (m : res E A) (f : A -> res E B) a :
  out m = Ok a -> out (bind m f) = out (f a).
Proof. unfold bind. intros ->. reflexivity. Qed.

Lemma take_app (a b : bytes) : take (zlen a) (a ++ b) = a.
Proof.
  unfold take, zlen. rewrite Nat2Z.id, firstn_app, Nat.sub_diag, firstn_all. cbn [firstn]. apply app_nil_r.
Qed.
Lemma drop_app (a b : bytes) : drop (zlen a) (a ++ b) = b.
Proof. unfold drop, zlen. rewrite Nat2Z.id. apply skipn_app_exact || (rewrite skipn_app, skipn_all, Nat.sub_diag; reflexivity). Qed.

Definition to_drec (base fts : Z) (r : krecord) : drec :=
  mkDRec (base + kr_off_delta r) (fts + kr_ts_delta r) (kr_key r) (kr_value r) (kr_headers r).
Definition records_of (b : kbatch) : list drec := map (to_drec (kb_base b) (kb_first_ts b)) (kb_records b).

Lemma enc_varint_nonempty n : enc_varint n <> [].
Proof. unfold enc_varint. apply uv_enc_nonempty. apply Nat.lt_0_succ. Qed.

Lemma zlen_pos_nonempty (l : bytes) : l <> [] -> 1 <= zlen l.
Proof. destruct l as [|x l']; [congruence|]. intros _. rewrite zlen_cons. pose proof (zlen_nonneg l'). lia. Qed.

Lemma enc_headers_len hs : zlen hs <= zlen (enc_headers hs).
Proof.
  induction hs as [|h hs IH]; [cbn; lia|]. unfold enc_headers in *. cbn [map concat].
  rewrite zlen_app, zlen_cons.
  assert (1 <= zlen (enc_header h)).
  { unfold enc_header. rewrite zlen_app.
    pose proof (zlen_pos_nonempty _ (enc_varint_nonempty (zlen (fst h)))).
    pose proof (zlen_nonneg (fst h ++ enc_nbytes (snd h))). lia. }
  lia.
Qed.

Lemma enc_records_len rs : zlen rs <= zlen (enc_records rs).
Proof.
  induction rs as [|r rs IH]; [cbn; lia|]. unfold enc_records in *. cbn [map concat].
  rewrite zlen_app, zlen_cons.
  assert (1 <= zlen (enc_record r)).
  { unfold enc_record. rewrite zlen_app.
    pose proof (zlen_pos_nonempty _ (enc_varint_nonempty (zlen (enc_record_body r)))).
    pose proof (zlen_nonneg (enc_record_body r)). lia. }
  lia.
Qed.

Section Roundtrip.
  Variable cfg : dcfg.
  Hypothesis Hint : forall n rest, in_signed 32 n -> c_int cfg (enc_varint n ++ rest) = VOk n rest.
  Hypothesis Hts : forall n rest, in_signed 64 n -> c_ts cfg (enc_varint n ++ rest) = VOk n rest.

  Lemma rd_int n rest : in_signed 32 n -> rd (c_int cfg) (enc_varint n ++ rest) = ret (n, rest).
  Proof. intros H. unfold rd. rewrite Hint by assumption. reflexivity. Qed.
  Lemma rd_ts n rest : in_signed 64 n -> rd (c_ts cfg) (enc_varint n ++ rest) = ret (n, rest).
  Proof. intros H. unfold rd. rewrite Hts by assumption. reflexivity. Qed.

  Lemma signed32_len n : 0 <= n < 2 ^ 31 -> in_signed 32 n.
  Proof. unfold in_signed. change (32 - 1) with 31. lia. Qed.

  (* length varint + readNullableBytes on a spec-encoded nullable byte string *)
  Lemma nbytes_rt o rest : olen o < 2 ^ 31 ->
    out (bind (rd (c_int cfg) (enc_nbytes o ++ rest)) (fun p => read_nbytes cfg (fst p) (snd p))) = Ok (o, rest).
  Proof.
    intros Hl. destruct o as [b|]; cbn [enc_nbytes olen] in *.
    - rewrite <- app_assoc. pose proof (zlen_nonneg b).
      rewrite rd_int by (apply signed32_len; lia). rewrite bind_ok with (a := (zlen b, b ++ rest)) by reflexivity.
      cbn [fst snd]. unfold read_nbytes.
      destruct (zlen b <? 0) eqn:E1; [lia|]. destruct (zlen b =? 0) eqn:E2.
      + destruct b; [reflexivity|]. rewrite zlen_cons in E2. pose proof (zlen_nonneg b). lia.
      + assert (Hz : (zlen (b ++ rest) <? zlen b) = false).
        { rewrite zlen_app. pose proof (zlen_nonneg rest). lia. }
        rewrite Hz, andb_false_r.
        rewrite make_ok by (unfold max_alloc; change (2 ^ 48) with (2 ^ 31 * 2 ^ 17); lia).
        unfold bind. cbn [out allocs]. rewrite take_app, drop_app. reflexivity.
    - rewrite rd_int by (unfold in_signed; change (32 - 1) with 31; lia).
      rewrite bind_ok with (a := (-1, rest)) by reflexivity. reflexivity.
  Qed.

  Lemma step_int {C} n rest (K : Z * bytes -> M C) :
    in_signed 32 n -> bind (rd (c_int cfg) (enc_varint n ++ rest)) K = K (n, rest).
  Proof. intros H. apply bind_ok. apply rd_int. assumption. Qed.
  Lemma step_ts {C} n rest (K : Z * bytes -> M C) :
    in_signed 64 n -> bind (rd (c_ts cfg) (enc_varint n ++ rest)) K = K (n, rest).
  Proof. intros H. apply bind_ok. apply rd_ts. assumption. Qed.

  Lemma step_nb {C} o rest (K : option bytes * bytes -> M C) : olen o < 2 ^ 31 ->
    out (bind (rd (c_int cfg) (enc_nbytes o ++ rest))
              (fun p => let '(l, b) := p in bind (read_nbytes cfg l b) K)) = out (K (o, rest)).
  Proof.
    intros Hl. pose proof (nbytes_rt o rest Hl) as H.
    destruct o as [b|]; cbn [enc_nbytes olen] in *.
    - rewrite <- app_assoc in *. pose proof (zlen_nonneg b).
      rewrite step_int in H by (apply signed32_len; lia). cbn [fst snd] in H.
      rewrite step_int by (apply signed32_len; lia).
      apply out_bind_ok. exact H.
    - rewrite step_int in H by (unfold in_signed; change (32 - 1) with 31; lia). cbn [fst snd] in H.
      rewrite step_int by (unfold in_signed; change (32 - 1) with 31; lia).
      apply out_bind_ok. exact H.
  Qed.

  Lemma hdr_loop_rt hs : forall fuel rest, Forall header_wf hs -> (length hs <= fuel)%nat ->
    out (hdr_loop cfg fuel (zlen hs) (enc_headers hs ++ rest)) = Ok hs.
  Proof.
    induction hs as [|h hs IH]; intros fuel rest Hwf Hf.
    - destruct fuel; reflexivity.
    - destruct fuel as [|f]; [cbn [length] in Hf; lia|]. cbn [hdr_loop]. rewrite zlen_cons.
      pose proof (zlen_nonneg hs) as Hnn.
      destruct (1 + zlen hs <=? 0) eqn:E; [lia|].
      inversion Hwf as [|? ? Hh Hwf']; subst. destruct Hh as [Hk [Hv [Hkl Hvl]]].
      destruct h as [k v]. cbn [fst snd] in *.
      unfold enc_headers. cbn [map concat]. fold (enc_headers hs). unfold enc_header. cbn [fst snd].
      rewrite <- !app_assoc. rewrite (app_assoc (enc_varint (zlen k)) k).
      change (enc_varint (zlen k) ++ k) with (enc_nbytes (Some k)).
      rewrite step_nb by (cbn [olen]; lia). rewrite step_nb by assumption.
      replace (1 + zlen hs - 1) with (zlen hs) by lia.
      rewrite (out_bind_ok _ _ _ (IH f rest Hwf' ltac:(cbn [length] in Hf; lia))). reflexivity.
  Qed.

  Lemma decode_record_rt base fts r rest :
    record_wf r -> in_signed 64 (base + kr_off_delta r) -> in_signed 64 (fts + kr_ts_delta r) ->
    out (decode_record cfg base fts (enc_record r ++ rest)) = Ok (to_drec base fts r, rest).
  Proof.
    intros [Ha [Hts' [Hod [Hk [Hv [Hkl [Hvl [Hhs [Hhl Hbl]]]]]]]]] Ho Ht.
    unfold decode_record, enc_record. rewrite <- app_assoc.
    pose proof (zlen_nonneg (enc_record_tail r)) as Hnn.
    assert (Hb : zlen (enc_record_body r) = 1 + zlen (enc_record_tail r)) by (unfold enc_record_body; apply zlen_cons).
    rewrite step_int by (apply signed32_len; lia).
    destruct (zlen (enc_record_body r) <? 0) eqn:E1; [lia|].
    assert (Hz : (zlen (enc_record_body r ++ rest) <? zlen (enc_record_body r)) = false).
    { rewrite zlen_app. pose proof (zlen_nonneg rest). lia. }
    rewrite Hz, andb_false_r.
    rewrite make_ok by (unfold max_alloc; change (2 ^ 48) with (2 ^ 31 * 2 ^ 17); lia).
    rewrite out_bind_ok with (a := tt) by reflexivity.
    rewrite take_app, drop_app. unfold enc_record_body at 1. unfold enc_record_tail.
    rewrite step_ts by assumption. rewrite step_int by assumption.
    rewrite step_nb by assumption. rewrite step_nb by assumption.
    pose proof (zlen_nonneg (kr_headers r)) as Hh0.
    rewrite step_int by (apply signed32_len; lia).
    pose proof (enc_headers_len (kr_headers r)) as Hel.
    destruct ((zlen (kr_headers r) <? 0) || (zlen (enc_headers (kr_headers r)) <? zlen (kr_headers r))) eqn:E2; [lia|].
    rewrite andb_false_r.
    rewrite make_ok by (unfold max_alloc; change (2 ^ 48) with (2 ^ 31 * 2 ^ 17); lia).
    rewrite out_bind_ok with (a := tt) by reflexivity.
    assert (HL : out (hdr_loop cfg (S (length (enc_headers (kr_headers r)))) (zlen (kr_headers r))
                                (enc_headers (kr_headers r))) = Ok (kr_headers r)).
    { pose proof (hdr_loop_rt (kr_headers r) (S (length (enc_headers (kr_headers r)))) [] Hhs) as HL.
      rewrite app_nil_r in HL. apply HL. unfold zlen in Hel. lia. }
    rewrite (out_bind_ok _ _ _ HL).
    cbn [out ret]. unfold to_drec. rewrite !to_signed_wrap by (assumption || lia). reflexivity.
  Qed.

  Lemma rec_loop_rt base fts rs : forall fuel rest,
    Forall record_wf rs ->
    Forall (fun r => in_signed 64 (base + kr_off_delta r) /\ in_signed 64 (fts + kr_ts_delta r)) rs ->
    (length rs <= fuel)%nat ->
    out (rec_loop cfg fuel (zlen rs) base fts (enc_records rs ++ rest)) = Ok (map (to_drec base fts) rs).
  Proof.
    induction rs as [|r rs IH]; intros fuel rest Hwf Hr Hf.
    - destruct fuel; reflexivity.
    - destruct fuel as [|f]; [cbn [length] in Hf; lia|]. cbn [rec_loop]. rewrite zlen_cons.
      pose proof (zlen_nonneg rs) as Hnn.
      destruct (1 + zlen rs <=? 0) eqn:E; [lia|].
      inversion Hwf as [|? ? Hw Hwf']; subst. inversion Hr as [|? ? [Ho Ht] Hr']; subst.
      unfold enc_records. cbn [map concat]. fold (enc_records rs). rewrite <- app_assoc.
      rewrite (out_bind_ok _ _ _ (decode_record_rt base fts r _ Hw Ho Ht)).
      replace (1 + zlen rs - 1) with (zlen rs) by lia.
      rewrite (out_bind_ok _ _ _ (IH f rest Hwf' Hr' ltac:(cbn [length] in Hf; lia))). reflexivity.
  Qed.
End Roundtrip.

(* ---------- the 61-byte batch header ---------- *)
Definition hdr61 (base len ple crcv attrs lod fts mts pid pep seq cnt : Z) (rest : bytes) : bytes :=
  be_put 8 base ++ be_put 4 len ++ be_put 4 ple ++ 2 :: be_put 4 crcv ++ be_put 2 attrs ++ be_put 4 lod ++
  be_put 8 fts ++ be_put 8 mts ++ be_put 8 pid ++ be_put 2 pep ++ be_put 4 seq ++ be_put 4 cnt ++ rest.

Lemma zlen_be_put n v : zlen (be_put n v) = Z.of_nat n.
Proof. unfold zlen. rewrite be_put_length. reflexivity. Qed.

Lemma hdr61_len base len ple crcv attrs lod fts mts pid pep seq cnt rest :
  zlen (hdr61 base len ple crcv attrs lod fts mts pid pep seq cnt rest) = 61 + zlen rest.
Proof. unfold hdr61. rewrite !zlen_app, zlen_cons, !zlen_app, !zlen_be_put. lia. Qed.

Lemma hdr61_fields base len ple crcv attrs lod fts mts pid pep seq cnt rest :
  let batch := hdr61 base len ple crcv attrs lod fts mts pid pep seq cnt rest in
  be_u (slice batch 0 8) = base mod 256 ^ Z.of_nat 8 /\
  be_u (slice batch 8 12) = len mod 256 ^ Z.of_nat 4 /\
  be_u (slice batch 21 23) = attrs mod 256 ^ Z.of_nat 2 /\
  be_u (slice batch 27 35) = fts mod 256 ^ Z.of_nat 8 /\
  be_u (slice batch 35 43) = mts mod 256 ^ Z.of_nat 8 /\
  be_u (slice batch 57 61) = cnt mod 256 ^ Z.of_nat 4 /\
  skipn 61 batch = rest /\ zlen batch = 61 + zlen rest.
Proof.
  cbv zeta. repeat split; try apply hdr61_len;
    unfold hdr61; cbn [be_put app]; unfold slice; cbn [Nat.sub skipn firstn];
    try (match goal with |- be_u _ = ?v mod 256 ^ Z.of_nat ?n => exact (be_u_put n v) end); reflexivity.
Qed.

Lemma zlen_batch_tail b : zlen (enc_batch_tail b) = 40 + zlen (enc_records (kb_records b)).
Proof. unfold enc_batch_tail. rewrite !zlen_app, !zlen_be_put. lia. Qed.

Lemma enc_batch_eq crc b more :
  enc_batch crc b ++ more =
  hdr61 (kb_base b) (9 + zlen (enc_batch_tail b)) (kb_leader_epoch b) (crc (enc_batch_tail b)) (kb_attrs b)
        (kb_last_delta b) (kb_first_ts b) (kb_max_ts b) (kb_pid b) (kb_pepoch b) (kb_seq b)
        (zlen (kb_records b)) (enc_records (kb_records b) ++ more).
Proof.
  unfold enc_batch, hdr61. cbv zeta.
  set (L := 9 + zlen (enc_batch_tail b)). set (Cv := crc (enc_batch_tail b)).
  unfold enc_batch_tail. rewrite <- !app_assoc. rewrite <- app_comm_cons. rewrite <- !app_assoc. reflexivity.
Qed.

Lemma zlen_enc_batch crc b : zlen (enc_batch crc b) = 61 + zlen (enc_records (kb_records b)).
Proof.
  rewrite <- (app_nil_r (enc_batch crc b)), enc_batch_eq.
  destruct (hdr61_fields (kb_base b) (9 + zlen (enc_batch_tail b)) (kb_leader_epoch b) (crc (enc_batch_tail b))
              (kb_attrs b) (kb_last_delta b) (kb_first_ts b) (kb_max_ts b) (kb_pid b) (kb_pepoch b) (kb_seq b)
              (zlen (kb_records b)) (enc_records (kb_records b) ++ [])) as (_ & _ & _ & _ & _ & _ & _ & F).
  rewrite F, app_nil_r. reflexivity.
Qed.

Lemma mod_small_signed bits x : 0 <= x < 2 ^ (bits - 1) -> 0 < bits -> x mod 2 ^ bits = x.
Proof.
  intros H Hb. apply Z.mod_small. split; [lia|].
  replace bits with (Z.succ (bits - 1)) by lia. rewrite Z.pow_succ_r by lia. lia.
Qed.

Section RoundtripBatch.
  Variable cfg : dcfg.
  Hypothesis Hint : forall n rest, in_signed 32 n -> c_int cfg (enc_varint n ++ rest) = VOk n rest.
  Hypothesis Hts : forall n rest, in_signed 64 n -> c_ts cfg (enc_varint n ++ rest) = VOk n rest.
  Variable crc : bytes -> Z.

  Lemma decode_batch_rt b : batch_wf b -> out (decode_batch cfg (enc_batch crc b)) = Ok (records_of b).
  Proof.
    intros (Hbase & Hfts & Hmts & Hattr & Hcomp & Hn & Hsz & Hwf & Hr).
    rewrite <- (app_nil_r (enc_batch crc b)), enc_batch_eq.
    destruct (hdr61_fields (kb_base b) (9 + zlen (enc_batch_tail b)) (kb_leader_epoch b) (crc (enc_batch_tail b))
                (kb_attrs b) (kb_last_delta b) (kb_first_ts b) (kb_max_ts b) (kb_pid b) (kb_pepoch b) (kb_seq b)
                (zlen (kb_records b)) (enc_records (kb_records b) ++ [])) as (F1 & F2 & F3 & F4 & F5 & F6 & F7 & F8).
    remember (hdr61 _ _ _ _ _ _ _ _ _ _ _ _ _) as batch eqn:Eb. cbv zeta in *. clear Eb.
    rewrite app_nil_r in *.
    pose proof (enc_records_len (kb_records b)) as Hrl.
    pose proof (zlen_nonneg (enc_records (kb_records b))) as Hnn.
    unfold decode_batch. rewrite F8, F3, F1, F4, F6, F7.
    change (256 ^ Z.of_nat 8) with (2 ^ 64). change (256 ^ Z.of_nat 4) with (2 ^ 32). change (256 ^ Z.of_nat 2) with (2 ^ 16).
    destruct (61 + zlen (enc_records (kb_records b)) <? 61) eqn:E1; [lia|].
    rewrite (Z.mod_small (kb_attrs b)) by lia. rewrite Hcomp. cbn [Z.eqb negb].
    fold (wrap_s 64 (kb_base b)). fold (wrap_s 64 (kb_first_ts b)). fold (wrap_s 32 (zlen (kb_records b))).
    rewrite !to_signed_wrap by (assumption || lia || (unfold in_signed; change (32 - 1) with 31; lia)).
    destruct (zlen (kb_records b) <=? 0) eqn:E2; [lia|].
    assert (Hc : (zlen (enc_records (kb_records b)) <? zlen (kb_records b)) = false) by lia.
    rewrite Hc, andb_false_r.
    rewrite make_ok by (unfold max_alloc; change (2 ^ 48) with (2 ^ 31 * 2 ^ 17); lia).
    rewrite out_bind_ok with (a := tt) by reflexivity.
    pose proof (rec_loop_rt cfg Hint Hts (kb_base b) (kb_first_ts b) (kb_records b)
                  (S (length (enc_records (kb_records b)))) [] Hwf Hr) as HL.
    rewrite app_nil_r in HL. apply HL. unfold zlen in Hrl. lia.
  Qed.

  Lemma batches_loop_rt bs : forall fuel, Forall batch_wf bs -> (length bs < fuel)%nat ->
    out (batches_loop cfg fuel (enc_batches crc bs)) = Ok (concat (map records_of bs)).
  Proof.
    induction bs as [|b bs IH]; intros fuel Hwf Hf.
    - destruct fuel; [lia|]. reflexivity.
    - destruct fuel as [|f]; [lia|]. inversion Hwf as [|? ? Hb Hwf']; subst.
      pose proof Hb as (Hbase & Hfts & Hmts & Hattr & Hcomp & Hn & Hsz & Hrw & Hr).
      unfold enc_batches. cbn [map concat]. fold (enc_batches crc bs). cbn [batches_loop].
      pose proof (zlen_enc_batch crc b) as Hlen. pose proof (zlen_batch_tail b) as Htl.
      pose proof (zlen_nonneg (enc_records (kb_records b))) as Hnn.
      pose proof (zlen_nonneg (enc_batches crc bs)) as Hnn2.
      assert (Hbl : be_u (slice (enc_batch crc b ++ enc_batches crc bs) 8 12) = 9 + zlen (enc_batch_tail b)).
      { rewrite enc_batch_eq.
        destruct (hdr61_fields (kb_base b) (9 + zlen (enc_batch_tail b)) (kb_leader_epoch b) (crc (enc_batch_tail b))
                    (kb_attrs b) (kb_last_delta b) (kb_first_ts b) (kb_max_ts b) (kb_pid b) (kb_pepoch b) (kb_seq b)
                    (zlen (kb_records b)) (enc_records (kb_records b) ++ enc_batches crc bs)) as (_ & F2 & _).
        cbv zeta in F2. rewrite F2. change (256 ^ Z.of_nat 4) with (2 ^ 32).
        apply Z.mod_small. change (2 ^ 32) with (2 * 2 ^ 31). lia. }
      rewrite Hbl, zlen_app.
      destruct (zlen (enc_batch crc b) + zlen (enc_batches crc bs) <? 12) eqn:E0; [lia|].
      destruct (9 + zlen (enc_batch_tail b) <=? 0) eqn:E1; [lia|].
      destruct (zlen (enc_batch crc b) + zlen (enc_batches crc bs) <? 12 + (9 + zlen (enc_batch_tail b))) eqn:E2; [lia|].
      replace (12 + (9 + zlen (enc_batch_tail b))) with (zlen (enc_batch crc b)) by lia.
      rewrite take_app, drop_app.
      rewrite (out_bind_ok _ _ _ (decode_batch_rt b Hb)).
      rewrite (out_bind_ok _ _ _ (IH f Hwf' ltac:(cbn [length] in Hf; lia))). reflexivity.
  Qed.

  Lemma decode_segment_rt bs base count created crcv last : Forall batch_wf bs ->
    out (decode_segment cfg (seg_header base count created ++ enc_batches crc bs ++ seg_footer crcv last))
    = Ok (concat (map records_of bs)).
  Proof.
    intros Hwf. unfold decode_segment.
    assert (Hl : zlen (seg_header base count created ++ enc_batches crc bs ++ seg_footer crcv last)
                 = 48 + zlen (enc_batches crc bs)).
    { unfold seg_header, seg_footer, magic_kafs, magic_end. rewrite !zlen_app, !zlen_be_put.
      change (zlen [75; 65; 70; 83]) with 4. change (zlen [69; 78; 68; 33]) with 4. lia. }
    rewrite Hl. pose proof (zlen_nonneg (enc_batches crc bs)) as Hnn.
    destruct (48 + zlen (enc_batches crc bs) <? 48) eqn:E0; [lia|].
    assert (Hs : skipn 32 (seg_header base count created ++ enc_batches crc bs ++ seg_footer crcv last)
                 = enc_batches crc bs ++ seg_footer crcv last).
    { unfold seg_header, magic_kafs. cbn [be_put app skipn]. reflexivity. }
    assert (Hm : firstn 4 (seg_header base count created ++ enc_batches crc bs ++ seg_footer crcv last) = magic_kafs).
    { unfold seg_header, magic_kafs. cbn [app firstn]. reflexivity. }
    rewrite Hm, Hs, bytes_eqb_refl. cbn [negb].
    replace (48 + zlen (enc_batches crc bs) - 48) with (zlen (enc_batches crc bs)) by lia.
    rewrite take_app. apply batches_loop_rt; [assumption|].
    assert (length bs <= length (enc_batches crc bs))%nat; [|lia].
    clear -Hwf. induction bs as [|b bs IH]; [cbn; lia|]. inversion Hwf; subst.
    unfold enc_batches. cbn [map concat]. fold (enc_batches crc bs). rewrite app_length.
    pose proof (zlen_enc_batch crc b) as H. pose proof (zlen_nonneg (enc_records (kb_records b))).
    unfold zlen in *. specialize (IH ltac:(assumption)). cbn [length]. lia.
  Qed.
End RoundtripBatch.

(* ---------- the concrete decoders ---------- *)
Lemma signed32_64 n : in_signed 32 n -> in_signed 64 n.
Proof. unfold in_signed. change (32 - 1) with 31. change (64 - 1) with 63. change (2 ^ 63) with (2 ^ 31 * 2 ^ 32). lia. Qed.

Lemma c07_iceberg crc bs base count created crcv last : Forall batch_wf bs ->
  out (decode_iceberg (seg_header base count created ++ enc_batches crc bs ++ seg_footer crcv last))
  = Ok (concat (map records_of bs)).
Proof.
  apply (decode_segment_rt (cfg_iceberg true)); cbn [c_int c_ts cfg_iceberg]; intros n rest H.
  - apply rv_ice_roundtrip, signed32_64, H.
  - apply rv_ice_roundtrip, H.
Qed.

Lemma c07_sql crc bs base count created crcv last : Forall batch_wf bs ->
  out (decode_sql (seg_header base count created ++ enc_batches crc bs ++ seg_footer crcv last))
  = Ok (concat (map records_of bs)).
Proof.
  apply (decode_segment_rt (cfg_sql true)); cbn [c_int c_ts cfg_sql]; intros n rest H.
  - apply rv_sql32_roundtrip, H.
  - apply rv_xor64_roundtrip, H.
Qed.

(* ---------- the writer: BuildSegment puts header ++ batches ++ footer ---------- *)
Lemma concat_rb_bytes raws : concat (map rb_bytes (map rbatch_of_bytes raws)) = concat raws.
Proof. induction raws as [|r raws IH]; [reflexivity|]. cbn [map concat rbatch_of_bytes rb_bytes]. rewrite IH. reflexivity. Qed.

Lemma no_empty_payload raws : Forall (fun r : bytes => r <> []) raws ->
  existsb (fun b => match rb_bytes b with [] => true | _ :: _ => false end) (map rbatch_of_bytes raws) = false.
Proof.
  induction 1 as [|x l Hx Hl IH]; [reflexivity|]. cbn [map existsb rbatch_of_bytes rb_bytes].
  destruct x; [congruence|]. cbn [orb]. exact IH.
Qed.

Lemma build_segment_shape crc interval raws created :
  raws <> [] -> Forall (fun r => r <> []) raws ->
  exists a, build_segment crc interval (map rbatch_of_bytes raws) created = Some a /\
    a_segment a = seg_header (a_base a) (a_count a) created ++ concat raws ++ seg_footer (crc (concat raws)) (a_last a) /\
    a_base a = to_signed 64 (be_u (slice (hd [] raws) 0 8)).
Proof.
  intros Hne Hall. destruct raws as [|r0 raws]; [congruence|].
  unfold build_segment. cbn [map].
  assert (He : existsb (fun b => match rb_bytes b with [] => true | _ :: _ => false end)
                 (rbatch_of_bytes r0 :: map rbatch_of_bytes raws) = false).
  { change (rbatch_of_bytes r0 :: map rbatch_of_bytes raws) with (map rbatch_of_bytes (r0 :: raws)).
    apply no_empty_payload. exact Hall. }
  rewrite He. eexists. split; [reflexivity|]. cbn [a_segment a_base a_count a_last].
  cbn [map concat rbatch_of_bytes rb_bytes hd]. rewrite !concat_rb_bytes. split; reflexivity.
Qed.

Lemma enc_batch_nonempty crc b : enc_batch crc b <> [].
Proof.
  intros H. pose proof (zlen_enc_batch crc b) as Hl. rewrite H in Hl.
  pose proof (zlen_nonneg (enc_records (kb_records b))). rewrite zlen_nil in Hl. lia.
Qed.

Lemma c07_built crc interval created bs : bs <> [] -> Forall batch_wf bs ->
  exists a, build_segment crc interval (map rbatch_of_bytes (map (enc_batch crc) bs)) created = Some a /\
    out (decode_iceberg (a_segment a)) = Ok (concat (map records_of bs)) /\
    out (decode_sql (a_segment a)) = Ok (concat (map records_of bs)).
Proof.
  intros Hne Hwf.
  destruct (build_segment_shape crc interval (map (enc_batch crc) bs) created) as (a & Hb & Hs & _).
  - destruct bs; [congruence|discriminate].
  - apply Forall_forall. intros x Hx. apply in_map_iff in Hx as (b & <- & _). apply enc_batch_nonempty.
  - exists a. split; [exact Hb|]. rewrite Hs. fold (enc_batches crc bs).
    split; [apply c07_iceberg|apply c07_sql]; assumption.
Qed.

(* ---------- the PITR scanner's view of the records ---------- *)
Lemma scan_record_rt r rest : record_wf r ->
  out (scan_record (enc_record r ++ rest)) = Ok (kr_ts_delta r, kr_off_delta r, rest).
Proof.
  intros [Ha [Hts' [Hod [Hk [Hv [Hkl [Hvl [Hhs [Hhl Hbl]]]]]]]]].
  unfold scan_record, enc_record. rewrite <- app_assoc.
  pose proof (zlen_nonneg (enc_record_tail r)) as Hnn.
  assert (Hb : zlen (enc_record_body r) = 1 + zlen (enc_record_tail r)) by (unfold enc_record_body; apply zlen_cons).
  assert (R : forall n rest', in_signed 64 n -> rd rv_xor64 (enc_varint n ++ rest') = ret (n, rest')).
  { intros n rest' Hn. unfold rd. rewrite rv_xor64_roundtrip by assumption. reflexivity. }
  assert (Hlen64 : in_signed 64 (zlen (enc_record_body r))).
  { unfold in_signed. change (64 - 1) with 63. change (2 ^ 63) with (2 ^ 31 * 2 ^ 32). lia. }
  rewrite (bind_ok _ _ _ (R _ (enc_record_body r ++ rest) Hlen64)).
  destruct (zlen (enc_record_body r) <? 0) eqn:E1; [lia|].
  assert (Hz : (zlen (enc_record_body r ++ rest) <? zlen (enc_record_body r)) = false).
  { rewrite zlen_app. pose proof (zlen_nonneg rest). lia. }
  rewrite Hz.
  rewrite make_ok by (unfold max_alloc; change (2 ^ 48) with (2 ^ 31 * 2 ^ 17); lia).
  rewrite out_bind_ok with (a := tt) by reflexivity.
  rewrite take_app, drop_app. unfold enc_record_body at 1. unfold enc_record_tail.
  rewrite (bind_ok _ _ _ (R _ _ Hts')). rewrite (bind_ok _ _ _ (R _ _ (signed32_64 _ Hod))).
  cbn [out ret]. rewrite to_signed_wrap by (assumption || lia). reflexivity.
Qed.

Lemma scan_records_rt rs : forall fuel rest, Forall record_wf rs -> (length rs <= fuel)%nat ->
  out (pitr_scan_records fuel (zlen rs) (enc_records rs ++ rest))
  = Ok (map (fun r => (kr_ts_delta r, kr_off_delta r)) rs).
Proof.
  induction rs as [|r rs IH]; intros fuel rest Hwf Hf.
  - destruct fuel; reflexivity.
  - destruct fuel as [|f]; [cbn [length] in Hf; lia|]. cbn [pitr_scan_records]. rewrite zlen_cons.
    pose proof (zlen_nonneg rs) as Hnn. destruct (1 + zlen rs <=? 0) eqn:E; [lia|].
    inversion Hwf as [|? ? Hw Hwf']; subst.
    unfold enc_records. cbn [map concat]. fold (enc_records rs). rewrite <- app_assoc.
    rewrite (out_bind_ok _ _ _ (scan_record_rt r _ Hw)).
    replace (1 + zlen rs - 1) with (zlen rs) by lia.
    rewrite (out_bind_ok _ _ _ (IH f rest Hwf' ltac:(cbn [length] in Hf; lia))). reflexivity.
Qed.

Lemma c07_scan rs rest : Forall record_wf rs ->
  out (pitr_scan_records (S (length (enc_records rs ++ rest))) (zlen rs) (enc_records rs ++ rest))
  = Ok (map (fun r => (kr_ts_delta r, kr_off_delta r)) rs).
Proof.
  intros H. apply scan_records_rt; [assumption|].
  pose proof (enc_records_len rs). rewrite app_length. unfold zlen in *. lia.
Qed.
