(* C07 round trip: the decoders applied to a segment that contains spec-encoded
   (lib/Kafka.v) well-formed batches return exactly the records that were sent. *)
From KS Require Import lib.Base lib.Varint lib.Outcome lib.Kafka model.Decoders proofs.DecodersProofs.
From Coq Require Import ZifyBool.
Open Scope Z_scope.

Lemma out_bind_ok {E A B} (m : res E A) (f : A -> res E B) a :
  out m = Ok a -> out (bind m f) = out (f a).
Proof. unfold bind. intros ->. reflexivity. Qed.

Lemma take_app (a b : bytes) : take (zlen a) (a ++ b) = a.
Proof.
  unfold take, zlen. rewrite Nat2Z.id, firstn_app, Nat.sub_diag, firstn_all. cbn [firstn]. apply app_nil_r.
Qed.
Lemma drop_app (a b : bytes) : drop (zlen a) (a ++ b) = b.
Proof. unfold drop, zlen. rewrite Nat2Z.id. apply skipn_app_exact || (rewrite skipn_app, skipn_all, Nat.sub_diag; reflexivity). Qed.

Definition to_drec (base fts : Z) (r : krecord) : drec :=
  mkDRec (base + kr_off_delta r) (fts + kr_ts_delta r) (kr_key r) (kr_value r) (kr_headers r).
Definition records_of (b : kbatch) : list drec := map (to_drec (kb_base b) (kb_first_ts b)) (kb_records b).

Lemma enc_varint_nonempty n : enc_varint n <> [].
Proof. unfold enc_varint. apply uv_enc_nonempty. apply Nat.lt_0_succ. Qed.

Lemma zlen_pos_nonempty (l : bytes) : l <> [] -> 1 <= zlen l.
Proof. destruct l as [|x l']; [congruence|]. intros _. rewrite zlen_cons. pose proof (zlen_nonneg l'). lia. Qed.

Lemma enc_headers_len hs : zlen hs <= zlen (enc_headers hs).
Proof.
  induction hs as [|h hs IH]; [cbn; lia|]. unfold enc_headers in *. cbn [map concat].
  rewrite zlen_app, zlen_cons.
  assert (1 <= zlen (enc_header h)).
  { unfold enc_header. rewrite zlen_app.
    pose proof (zlen_pos_nonempty _ (enc_varint_nonempty (zlen (fst h)))).
    pose proof (zlen_nonneg (fst h ++ enc_nbytes (snd h))). lia. }
  lia.
Qed.

Lemma enc_records_len rs : zlen rs <= zlen (enc_records rs).
Proof.
  induction rs as [|r rs IH]; [cbn; lia|]. unfold enc_records in *. cbn [map concat].
  rewrite zlen_app, zlen_cons.
  assert (1 <= zlen (enc_record r)).
  { unfold enc_record. rewrite zlen_app.
    pose proof (zlen_pos_nonempty _ (enc_varint_nonempty (zlen (enc_record_body r)))).
    pose proof (zlen_nonneg (enc_record_body r)). lia. }
  lia.
Qed.

Section Roundtrip.
  Variable cfg : dcfg.
  Hypothesis Hint : forall n rest, in_signed 32 n -> c_int cfg (enc_varint n ++ rest) = VOk n rest.
  Hypothesis Hts : forall n rest, in_signed 64 n -> c_ts cfg (enc_varint n ++ rest) = VOk n rest.

  Lemma rd_int n rest : in_signed 32 n -> rd (c_int cfg) (enc_varint n ++ rest) = ret (n, rest).
  Proof. intros H. unfold rd. rewrite Hint by assumption. reflexivity. Qed.
  Lemma rd_ts n rest : in_signed 64 n -> rd (c_ts cfg) (enc_varint n ++ rest) = ret (n, rest).
  Proof. intros H. unfold rd. rewrite Hts by assumption. reflexivity. Qed.

  Lemma signed32_len n : 0 <= n < 2 ^ 31 -> in_signed 32 n.
  Proof. unfold in_signed. change (32 - 1) with 31. lia. Qed.

  (* length varint + readNullableBytes on a spec-encoded nullable byte string *)
  Lemma nbytes_rt o rest : olen o < 2 ^ 31 ->
    out (bind (rd (c_int cfg) (enc_nbytes o ++ rest)) (fun p => read_nbytes cfg (fst p) (snd p))) = Ok (o, rest).
  Proof.
    intros Hl. destruct o as [b|]; cbn [enc_nbytes olen] in *.
    - rewrite <- app_assoc. pose proof (zlen_nonneg b).
      rewrite rd_int by (apply signed32_len; lia). rewrite bind_ok with (a := (zlen b, b ++ rest)) by reflexivity.
      cbn [fst snd]. unfold read_nbytes.
      destruct (zlen b <? 0) eqn:E1; [lia|]. destruct (zlen b =? 0) eqn:E2.
      + destruct b; [reflexivity|]. rewrite zlen_cons in E2. pose proof (zlen_nonneg b). lia.
      + assert (Hz : (zlen (b ++ rest) <? zlen b) = false).
        { rewrite zlen_app. pose proof (zlen_nonneg rest). lia. }
        rewrite Hz, andb_false_r.
        rewrite make_ok by (unfold max_alloc; change (2 ^ 48) with (2 ^ 31 * 2 ^ 17); lia).
        unfold bind. cbn [out allocs]. rewrite take_app, drop_app. reflexivity.
    - rewrite rd_int by (unfold in_signed; change (32 - 1) with 31; lia).
      rewrite bind_ok with (a := (-1, rest)) by reflexivity. reflexivity.
  Qed.
End Roundtrip.
