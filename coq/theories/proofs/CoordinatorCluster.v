(* The routing layer (model/CoordinatorCluster.v): any number of brokers with cached copies
   of a group behave, for whoever holds the lease, like ONE coordinator with failovers. *)
From Coq Require Import Permutation ZifyBool.
From KS Require Import lib.Base model.Coordinator model.CoordinatorCluster
  proofs.CoordinatorBase proofs.CoordinatorProofs.
Open Scope Z_scope.

Lemma run_snoc E h o : run E (h ++ [o]) = fst (step E (run E h) o).
Proof. unfold run, run_from. now rewrite fold_left_app. Qed.

Lemma set_cache_same f b v : set_cache f b v b = v.
Proof. unfold set_cache. now rewrite Nat.eqb_refl. Qed.

(* whatever requests reach whichever broker and however the lease moves: what the lease
   holder sees is a state of ONE coordinator running a history in which every lease move
   is a failover *)
Lemma cstep_refines E c ev :
  (exists h, holder_view c = run E h) -> exists h', holder_view (fst (cstep E c ev)) = run E h'.
Proof.
  intros [h Hh]. destruct ev as [b o|]; cbn [cstep].
  - destruct (cl_owner c) as [b'|] eqn:Eo.
    + destruct (Nat.eqb b' b) eqn:Eb.
      * apply Nat.eqb_eq in Eb. subst b'. exists (h ++ [o]). rewrite run_snoc, <- Hh.
        unfold serve, holder_view. rewrite Eo.
        destruct (step E (mkSt (cl_cache c b) (cl_store c) (cl_off c)) o) as [s' r]. cbn.
        rewrite set_cache_same. now destruct s'.
      * exists h. exact Hh.
    + destruct (is_sweep o); [exists h; exact Hh|].
      exists (h ++ [o]). rewrite run_snoc, <- Hh. unfold serve, holder_view. rewrite Eo.
      destruct (step E (mkSt None (cl_store c) (cl_off c)) o) as [s' r]. cbn.
      rewrite set_cache_same. now destruct s'.
  - exists (h ++ [Failover]). rewrite run_snoc, <- Hh. reflexivity.
Qed.

Lemma crun_refines E evs : exists h, holder_view (crun E evs) = run E h.
Proof.
  unfold crun. assert (exists h, holder_view cl_init = run E h) as H0 by (exists []; reflexivity).
  revert H0. generalize cl_init. induction evs as [|ev evs IH]; intros c Hc; cbn; [exact Hc|].
  apply IH. now apply cstep_refines.
Qed.

(* fencing for any number of brokers with caches *)
Lemma c13_fenced_any_broker E c b o mid gen now :
  (o = Sync mid gen now \/ o = Heartbeat mid gen now \/ exists t p off, o = Commit mid gen t p off now) ->
  ~ current (holder_view c) now mid gen ->
  let '(c', r) := cstep E c (CReq b o) in
  (r = CNotCoordinator \/ exists r0, r = CReply r0 /\ reply_err r0 <> NONE) /\
  cl_off c' = cl_off c /\ (r = CNotCoordinator -> c' = c).
Proof.
  intros Ho Hnc. cbn [cstep].
  assert (is_sweep o = false) as Hsw by (destruct Ho as [->|[->|[t [p [off ->]]]]]; reflexivity).
  assert (forall mem, mkSt mem (cl_store c) (cl_off c) = holder_view c ->
            let '(c', r) := serve E c b mem o in
            (r = CNotCoordinator \/ exists r0, r = CReply r0 /\ reply_err r0 <> NONE) /\
            cl_off c' = cl_off c /\ (r = CNotCoordinator -> c' = c)) as Hserve.
  { intros mem Hm. unfold serve. pose proof (c13_fenced E (holder_view c) o mid gen now Ho Hnc) as [H1 H2].
    rewrite <- Hm in H1, H2. destruct (step E (mkSt mem (cl_store c) (cl_off c)) o) as [s' r]. cbn in *.
    split; [right; eauto|]. split; [exact H2|discriminate]. }
  destruct (cl_owner c) as [b'|] eqn:Eo.
  - destruct (Nat.eqb b' b) eqn:Eb.
    + apply Nat.eqb_eq in Eb. subst b'. apply Hserve. unfold holder_view. now rewrite Eo.
    + split; [now left|]. split; reflexivity.
  - rewrite Hsw. apply Hserve. unfold holder_view. now rewrite Eo.
Qed.
