(* Proofs about model/MetaStore.v (C16, C22, C40; the C17 bisimulation is in
   proofs/MetaStoreBisim.v). *)
From Coq Require Import Ascii String DecimalString DecimalZ Decimal.
From KS Require Import lib.Base lib.Strings lib.Paths model.MetaStore.
Open Scope Z_scope.

(* ================================================================ assoc maps *)
Section AssocFacts.
  Context {K V : Type} (eqb : K -> K -> bool).
  Hypothesis eqb_spec : forall a b, eqb a b = true <-> a = b.

  Lemma eqb_refl' a : eqb a a = true.
  Proof. now apply eqb_spec. Qed.

  Lemma eqb_false a b : a <> b -> eqb a b = false.
  Proof. intros H. destruct (eqb a b) eqn:E; [|reflexivity]. apply eqb_spec in E. contradiction. Qed.

  Lemma aget_aput_same k (v : V) l : aget eqb k (aput eqb k v l) = Some v.
  Proof.
    induction l as [|[k' v'] l IH]; cbn.
    - now rewrite eqb_refl'.
    - destruct (eqb k k') eqn:E; cbn; [now rewrite eqb_refl'|]. now rewrite E.
  Qed.

  Lemma aget_aput_other k k' (v : V) l : k <> k' -> aget eqb k (aput eqb k' v l) = aget eqb k l.
  Proof.
    intros Hne. induction l as [|[k2 v2] l IH]; cbn.
    - now rewrite eqb_false.
    - destruct (eqb k' k2) eqn:E; cbn.
      + apply eqb_spec in E. subst k2. now rewrite eqb_false.
      + destruct (eqb k k2); [reflexivity|exact IH].
  Qed.

  Lemma aget_adel_if (drop : K -> bool) k (l : list (K * V)) :
    aget eqb k (adel_if drop l) = if drop k then None else aget eqb k l.
  Proof.
    unfold adel_if. induction l as [|[k' v'] l IH]; cbn [filter aget fst].
    - now destruct (drop k).
    - destruct (drop k') eqn:Ed; cbn [negb aget].
      + rewrite IH. destruct (eqb k k') eqn:E; [|reflexivity].
        apply eqb_spec in E. subst. now rewrite Ed.
      + rewrite IH. destruct (eqb k k') eqn:E; [|reflexivity].
        apply eqb_spec in E. subst. now rewrite Ed.
  Qed.
End AssocFacts.

Lemma ckey_eqb_spec a b : ckey_eqb a b = true <-> a = b.
Proof.
  destruct a as [[g t] p], b as [[g' t'] p']. unfold ckey_eqb.
  rewrite !andb_true_iff, !bytes_eqb_eq, Z.eqb_eq. split.
  - intros [[-> ->] ->]. reflexivity.
  - intros E. inversion E. auto.
Qed.

Lemma pkey_eqb_spec a b : pkey_eqb a b = true <-> a = b.
Proof.
  destruct a as [t p], b as [t' p']. unfold pkey_eqb.
  rewrite andb_true_iff, bytes_eqb_eq, Z.eqb_eq. split.
  - intros [-> ->]. reflexivity.
  - intros E. inversion E. auto.
Qed.

(* ================================================================ C40 *)
Lemma im_readonly_preserves s o : readonly_method (method_of o) = true -> fst (im_step s o) = s.
Proof.
  destruct o; cbn [method_of readonly_method]; intros H; try discriminate; cbn [im_step].
  - destruct (has_partition s t p); reflexivity.
  - destruct (im_lookup s g t p) as [[o' m] f]. reflexivity.
  - destruct (im_lookup s g t p) as [[o' m] f]. reflexivity.
  - reflexivity.
  - reflexivity.
  - reflexivity.
  - reflexivity.
  - reflexivity.
Qed.

Lemma et_readonly_preserves s o : readonly_method (method_of o) = true -> fst (et_step s o) = s.
Proof.
  destruct o; cbn [method_of readonly_method]; intros H; try discriminate; cbn [et_step].
  - destruct (has_partition (et_meta s) t p); reflexivity.
  - destruct (et_lookup s g t p) as [[o' m] f]. reflexivity.
  - destruct (et_lookup s g t p) as [[o' m] f]. reflexivity.
  - reflexivity.
  - reflexivity.
  - reflexivity.
  - reflexivity.
  - reflexivity.
Qed.

(* a tool = any adaptive program whose calls are all among the allowed methods *)
Fixpoint et_prog_methods_ok (allowed : store_method -> bool) (fuel : nat) (p : prog) (s : etcd) : Prop :=
  match fuel, p with
  | _, Done => True
  | O, _ => True
  | S f, Call o k => allowed (method_of o) = true /\
                     et_prog_methods_ok allowed f (k (snd (et_step s o))) (fst (et_step s o))
  end.

Lemma im_prog_preserves allowed fuel :
  (forall m, allowed m = true -> readonly_method m = true) ->
  forall p s, prog_methods_ok allowed fuel p s -> im_exec fuel p s = s.
Proof.
  intros Hro. induction fuel as [|f IH]; intros p s H.
  - destruct p; reflexivity.
  - destruct p as [|o k]; [reflexivity|]. cbn [prog_methods_ok] in H. destruct H as [Ha Hk].
    cbn [im_exec]. pose proof (im_readonly_preserves s o (Hro _ Ha)) as E.
    destruct (im_step s o) as [s' r] eqn:Es. cbn [fst snd] in *. subst s'. now apply IH.
Qed.

Lemma et_prog_preserves allowed fuel :
  (forall m, allowed m = true -> readonly_method m = true) ->
  forall p s, et_prog_methods_ok allowed fuel p s -> et_exec fuel p s = s.
Proof.
  intros Hro. induction fuel as [|f IH]; intros p s H.
  - destruct p; reflexivity.
  - destruct p as [|o k]; [reflexivity|]. cbn [et_prog_methods_ok] in H. destruct H as [Ha Hk].
    cbn [et_exec]. pose proof (et_readonly_preserves s o (Hro _ Ha)) as E.
    destruct (et_step s o) as [s' r] eqn:Es. cbn [fst snd] in *. subst s'. now apply IH.
Qed.

(* ================================================================ C16 *)
Lemma offset_fetch_missing lookup g t p ps :
  snd (lookup g t p) = false ->
  In p ps ->
  In (p, -1, [], 0) (snd (hd (t, []) (offset_fetch lookup g [(t, ps)]))).
Proof.
  intros Hf Hin. cbn. apply in_map_iff. exists p. split; [|exact Hin].
  unfold offset_fetch_part. destruct (lookup g t p) as [[o m] f]. cbn in Hf. subst f. reflexivity.
Qed.

Lemma offset_fetch_found lookup g t p ps o m :
  lookup g t p = (o, m, true) ->
  In p ps ->
  In (p, o, m, 0) (snd (hd (t, []) (offset_fetch lookup g [(t, ps)]))).
Proof.
  intros Hf Hin. cbn. apply in_map_iff. exists p. split; [|exact Hin].
  unfold offset_fetch_part. now rewrite Hf.
Qed.

(* --- in-memory store refines the structured spec, for all names --- *)
Definition im_coff_rel (s : inmem) (sp : spec) : Prop :=
  forall k, aget ckey_eqb k (im_coff s) = sp k.

Lemma im_step_spec s sp o :
  is_coff_op o = true -> im_coff_rel s sp ->
  snd (im_step s o) = snd (spec_step sp o) /\
  im_coff_rel (fst (im_step s o)) (fst (spec_step sp o)).
Proof.
  intros Ho R. destruct o; cbn in Ho; try discriminate; cbn [im_step spec_step fst snd].
  - split; [reflexivity|]. intros k. cbn [set_coff im_coff]. unfold spec_commit.
    destruct (ckey_eqb k (g, t, p)) eqn:E.
    + apply ckey_eqb_spec in E. subst k. apply (aget_aput_same _ ckey_eqb_spec).
    + rewrite (aget_aput_other _ ckey_eqb_spec); [apply R|].
      intros ->. rewrite (proj2 (ckey_eqb_spec _ _) eq_refl) in E. discriminate.
  - unfold im_lookup. rewrite (R (g, t, p)). destruct (sp (g, t, p)) as [[o' m]|]; split; auto.
  - unfold im_lookup. rewrite (R (g, t, p)). destruct (sp (g, t, p)) as [[o' m]|]; split; auto.
Qed.

Lemma im_run_spec ops : forall s sp,
  forallb is_coff_op ops = true -> im_coff_rel s sp ->
  snd (im_run s ops) = snd (spec_run sp ops).
Proof.
  induction ops as [|o ops IH]; intros s sp Hall R; [reflexivity|].
  cbn in Hall. apply andb_true_iff in Hall as [Ho Hall].
  destruct (im_step_spec s sp o Ho R) as [Er R'].
  cbn [im_run spec_run].
  destruct (im_step s o) as [s' r] eqn:Es. destruct (spec_step sp o) as [sp' r'] eqn:Esp.
  cbn [fst snd] in *. specialize (IH s' sp' Hall R').
  destruct (im_run s' ops) as [s2 rs]. destruct (spec_run sp' ops) as [sp2 rs'].
  cbn [snd] in *. congruence.
Qed.

Lemma im_new_rel b : im_coff_rel (im_new b) spec_empty.
Proof. intros k. reflexivity. Qed.

(* --- etcd consumer-offset key: injective when the topics contain no '/' --- *)
Definition noslash (n : bytes) : Prop := ~ In slash n.

Lemma coff_tail_shape g t p :
  g ++ lit "/offsets/" ++ t ++ slash :: dec p = ((g ++ lit "/offsets") ++ slash :: t) ++ slash :: dec p.
Proof. rewrite <- !app_assoc. reflexivity. Qed.

Lemma coff_key_inj g t p g' t' p' :
  noslash t -> noslash t' ->
  coff_key g t p = coff_key g' t' p' -> g = g' /\ t = t' /\ p = p'.
Proof.
  intros Ht Ht' E. unfold coff_key in E.
  apply app_inv_head in E. apply (f_equal (@tl Z)) in E. cbn [tl] in E. rename E into E1.
  rewrite !coff_tail_shape in E1.
  apply split_last_sep in E1 as [E2 E3];
    [| apply dec_no_sep; exact slash_not_dec | apply dec_no_sep; exact slash_not_dec].
  apply dec_inj in E3.
  apply split_last_sep in E2 as [E4 E5]; [|exact Ht|exact Ht'].
  apply app_inv_tail in E4. auto.
Qed.

Definition et_coff_rel (s : etcd) (sp : spec) : Prop :=
  forall g t p, noslash t -> aget bytes_eqb (coff_key g t p) (et_coff s) = sp (g, t, p).

Definition op_topic_noslash (o : op) : Prop :=
  match o with
  | OCommit _ t _ _ _ | OFetchOffset _ t _ | OLookupOffset _ t _ => noslash t
  | _ => True
  end.

Lemma et_step_spec s sp o :
  is_coff_op o = true -> op_topic_noslash o -> et_coff_rel s sp ->
  snd (et_step s o) = snd (spec_step sp o) /\
  et_coff_rel (fst (et_step s o)) (fst (spec_step sp o)).
Proof.
  intros Ho Hn R. destruct o; cbn in Ho; try discriminate; cbn in Hn; cbn [et_step spec_step fst snd].
  - split; [reflexivity|]. intros g' t' p' Ht'. cbn [eset_coff et_coff]. unfold spec_commit.
    destruct (ckey_eqb (g', t', p') (g, t, p)) eqn:E.
    + apply ckey_eqb_spec in E. inversion E; subst. apply (aget_aput_same _ bytes_eqb_eq).
    + rewrite (aget_aput_other _ bytes_eqb_eq); [now apply R|].
      intros Ek. apply coff_key_inj in Ek as (-> & -> & ->); auto.
      rewrite (proj2 (ckey_eqb_spec _ _) eq_refl) in E. discriminate.
  - unfold et_lookup. rewrite (R g t p Hn). destruct (sp (g, t, p)) as [[o' m]|]; split; auto.
  - unfold et_lookup. rewrite (R g t p Hn). destruct (sp (g, t, p)) as [[o' m]|]; split; auto.
Qed.

Lemma et_run_spec ops : forall s sp,
  forallb is_coff_op ops = true -> Forall op_topic_noslash ops -> et_coff_rel s sp ->
  snd (et_run s ops) = snd (spec_run sp ops).
Proof.
  induction ops as [|o ops IH]; intros s sp Hall Hn R; [reflexivity|].
  cbn in Hall. apply andb_true_iff in Hall as [Ho Hall]. inversion Hn as [|? ? Hn1 Hn2]; subst.
  destruct (et_step_spec s sp o Ho Hn1 R) as [Er R'].
  cbn [et_run spec_run].
  destruct (et_step s o) as [s' r] eqn:Es. destruct (spec_step sp o) as [sp' r'] eqn:Esp.
  cbn [fst snd] in *. specialize (IH s' sp' Hall Hn2 R').
  destruct (et_run s' ops) as [s2 rs]. destruct (spec_run sp' ops) as [sp2 rs'].
  cbn [snd] in *. congruence.
Qed.

Lemma et_new_rel b : et_coff_rel (et_new b) spec_empty.
Proof. intros g t p _. reflexivity. Qed.

(* the spec itself: a fetch returns the last commit to exactly that key *)
Fixpoint last_commit (ops : list op) (k : ckey) : option (Z * bytes) :=
  match ops with
  | [] => None
  | o :: ops' =>
      match last_commit ops' k with
      | Some v => Some v
      | None => match o with
                | OCommit g t p off meta => if ckey_eqb k (g, t, p) then Some (off, meta) else None
                | _ => None
                end
      end
  end.

Lemma spec_run_state ops : forall sp k,
  fst (spec_run sp ops) k = match last_commit ops k with Some v => Some v | None => sp k end.
Proof.
  induction ops as [|o ops IH]; intros sp k; [reflexivity|].
  cbn [spec_run last_commit]. destruct (spec_step sp o) as [sp' r] eqn:Es.
  specialize (IH sp' k). destruct (spec_run sp' ops) as [sp2 rs]. cbn [fst] in *.
  rewrite IH. destruct (last_commit ops k); [reflexivity|].
  destruct o; cbn in Es; inversion Es; subst; try reflexivity.
  unfold spec_commit. now destruct (ckey_eqb k (g, t, p)).
Qed.

(* final-state relations, and OffsetFetch end to end *)
Lemma im_run_rel ops : forall s sp,
  forallb is_coff_op ops = true -> im_coff_rel s sp ->
  im_coff_rel (fst (im_run s ops)) (fst (spec_run sp ops)).
Proof.
  induction ops as [|o ops IH]; intros s sp Hall R; [exact R|].
  cbn in Hall. apply andb_true_iff in Hall as [Ho Hall].
  destruct (im_step_spec s sp o Ho R) as [_ R'].
  cbn [im_run spec_run].
  destruct (im_step s o) as [s' r] eqn:Es. destruct (spec_step sp o) as [sp' r'] eqn:Esp.
  cbn [fst snd] in *. specialize (IH s' sp' Hall R').
  destruct (im_run s' ops) as [s2 rs]. destruct (spec_run sp' ops) as [sp2 rs'].
  exact IH.
Qed.

Lemma et_run_rel ops : forall s sp,
  forallb is_coff_op ops = true -> Forall op_topic_noslash ops -> et_coff_rel s sp ->
  et_coff_rel (fst (et_run s ops)) (fst (spec_run sp ops)).
Proof.
  induction ops as [|o ops IH]; intros s sp Hall Hn R; [exact R|].
  cbn in Hall. apply andb_true_iff in Hall as [Ho Hall]. inversion Hn as [|? ? Hn1 Hn2]; subst.
  destruct (et_step_spec s sp o Ho Hn1 R) as [_ R'].
  cbn [et_run spec_run].
  destruct (et_step s o) as [s' r] eqn:Es. destruct (spec_step sp o) as [sp' r'] eqn:Esp.
  cbn [fst snd] in *. specialize (IH s' sp' Hall Hn2 R').
  destruct (et_run s' ops) as [s2 rs]. destruct (spec_run sp' ops) as [sp2 rs'].
  exact IH.
Qed.

Definition fetch_answer (v : option (Z * bytes)) (p : Z) : Z * Z * bytes * Z :=
  match v with Some (o, m) => (p, o, m, 0) | None => (p, -1, [], 0) end.

Lemma offset_fetch_im b ops g req :
  forallb is_coff_op ops = true ->
  offset_fetch (im_lookup (fst (im_run (im_new b) ops))) g req
  = map (fun tp => (fst tp, map (fun p => fetch_answer (last_commit ops (g, fst tp, p)) p) (snd tp))) req.
Proof.
  intros Hall. pose proof (im_run_rel ops _ _ Hall (im_new_rel b)) as R.
  unfold offset_fetch. apply map_ext. intros [t ps]. cbn [fst snd]. f_equal.
  apply map_ext. intros p. unfold im_lookup, offset_fetch_part.
  rewrite (R (g, t, p)), spec_run_state. cbn [spec_empty].
  destruct (last_commit ops (g, t, p)) as [[o m]|]; reflexivity.
Qed.

Lemma offset_fetch_et b ops g req :
  forallb is_coff_op ops = true -> Forall op_topic_noslash ops -> Forall (fun tp => noslash (fst tp)) req ->
  offset_fetch (et_lookup (fst (et_run (et_new b) ops))) g req
  = map (fun tp => (fst tp, map (fun p => fetch_answer (last_commit ops (g, fst tp, p)) p) (snd tp))) req.
Proof.
  intros Hall Hn Hreq. pose proof (et_run_rel ops _ _ Hall Hn (et_new_rel b)) as R.
  unfold offset_fetch. apply map_ext_in. intros [t ps] Hin. cbn [fst snd]. f_equal.
  rewrite Forall_forall in Hreq. specialize (Hreq _ Hin). cbn [fst] in Hreq.
  apply map_ext. intros p. unfold et_lookup, offset_fetch_part.
  rewrite (R g t p Hreq), spec_run_state. cbn [spec_empty].
  destruct (last_commit ops (g, t, p)) as [[o m]|]; reflexivity.
Qed.

(* ---------- a whole OffsetCommit request, then OffsetFetch of the same partitions ---------- *)
Lemma last_commit_app a b k :
  last_commit (a ++ b) k = match last_commit b k with Some v => Some v | None => last_commit a k end.
Proof.
  induction a as [|o a IH]; cbn [app last_commit]; [now destruct (last_commit b k)|].
  rewrite IH. destruct (last_commit b k); [reflexivity|]. reflexivity.
Qed.

Definition op_key (o : op) : option ckey :=
  match o with OCommit g t p _ _ => Some (g, t, p) | _ => None end.

Lemma last_commit_absent l k : ~ In (Some k) (map op_key l) -> last_commit l k = None.
Proof.
  induction l as [|o l IH]; intros H; [reflexivity|]. cbn [last_commit]. cbn in H.
  rewrite IH by tauto. destruct o; try reflexivity.
  destruct (ckey_eqb k (g, t, p)) eqn:E; [|reflexivity].
  apply ckey_eqb_spec in E. subst. exfalso. apply H. now left.
Qed.

Lemma last_commit_present l g t p off m :
  NoDup (map op_key l) -> In (OCommit g t p off m) l -> last_commit l (g, t, p) = Some (off, m).
Proof.
  induction l as [|o l IH]; intros Hnd Hin; [contradiction|].
  cbn [map] in Hnd. inversion Hnd as [|? ? Hni Hnd']; subst. cbn [last_commit].
  destruct Hin as [->|Hin].
  - rewrite last_commit_absent by exact Hni. now rewrite (proj2 (ckey_eqb_spec _ _) eq_refl).
  - now rewrite (IH Hnd' Hin).
Qed.

Definition meta_or_empty (m : option bytes) : bytes := match m with Some x => x | None => [] end.

Lemma in_commit_ops g req t ps p off m :
  In (t, ps) req -> In (p, off, m) ps -> In (OCommit g t p off (meta_or_empty m)) (offset_commit_ops g req).
Proof.
  intros Ht Hp. unfold offset_commit_ops. apply in_flat_map. exists (t, ps). split; [exact Ht|].
  cbn [fst snd]. apply in_map_iff. exists (p, off, m). split; [reflexivity|exact Hp].
Qed.

Theorem request_roundtrip_im b ops g req :
  forallb is_coff_op ops = true ->
  NoDup (map op_key (offset_commit_ops g req)) ->
  offset_fetch (im_lookup (fst (im_run (im_new b) (ops ++ offset_commit_ops g req)))) g
               (map (fun tp => (fst tp, map (fun e => fst (fst e)) (snd tp))) req)
  = map (fun tp => (fst tp, map (fun e => (fst (fst e), snd (fst e), meta_or_empty (snd e), 0)) (snd tp))) req.
Proof.
  intros Hops Hnd.
  assert (forallb is_coff_op (ops ++ offset_commit_ops g req) = true) as Hall.
  { rewrite forallb_app, Hops. cbn. unfold offset_commit_ops. apply forallb_forall. intros o Hin.
    apply in_flat_map in Hin as ([t ps] & _ & Hin). apply in_map_iff in Hin as ([[p off] m] & <- & _). reflexivity. }
  rewrite (offset_fetch_im b _ g _ Hall). rewrite map_map. apply map_ext_in. intros [t ps] Ht. cbn [fst snd].
  f_equal. rewrite map_map. apply map_ext_in. intros [[p off] m] Hp. cbn [fst snd].
  rewrite last_commit_app, (last_commit_present _ g t p off (meta_or_empty m) Hnd (in_commit_ops g req t ps p off m Ht Hp)).
  reflexivity.
Qed.

Theorem request_roundtrip_et b ops g req :
  forallb is_coff_op ops = true -> Forall op_topic_noslash ops ->
  Forall (fun tp => noslash (fst tp)) req ->
  NoDup (map op_key (offset_commit_ops g req)) ->
  offset_fetch (et_lookup (fst (et_run (et_new b) (ops ++ offset_commit_ops g req)))) g
               (map (fun tp => (fst tp, map (fun e => fst (fst e)) (snd tp))) req)
  = map (fun tp => (fst tp, map (fun e => (fst (fst e), snd (fst e), meta_or_empty (snd e), 0)) (snd tp))) req.
Proof.
  intros Hops Hns Hreq Hnd.
  assert (forallb is_coff_op (ops ++ offset_commit_ops g req) = true) as Hall.
  { rewrite forallb_app, Hops. cbn. unfold offset_commit_ops. apply forallb_forall. intros o Hin.
    apply in_flat_map in Hin as ([t ps] & _ & Hin). apply in_map_iff in Hin as ([[p off] m] & <- & _). reflexivity. }
  assert (Forall op_topic_noslash (ops ++ offset_commit_ops g req)) as Hns'.
  { apply Forall_app. split; [exact Hns|]. apply Forall_forall. intros o Hin. unfold offset_commit_ops in Hin.
    apply in_flat_map in Hin as ([t ps] & Ht & Hin). apply in_map_iff in Hin as ([[p off] m] & <- & _).
    rewrite Forall_forall in Hreq. exact (Hreq _ Ht). }
  assert (Forall (fun tp : bytes * list Z => noslash (fst tp)) (map (fun tp : bytes * list (Z * Z * option bytes) => (fst tp, map (fun e => fst (fst e)) (snd tp))) req)) as Hreq'.
  { apply Forall_forall. intros x Hx. apply in_map_iff in Hx as (tp & <- & Htp). rewrite Forall_forall in Hreq. exact (Hreq _ Htp). }
  rewrite (offset_fetch_et b _ g _ Hall Hns' Hreq'). rewrite map_map. apply map_ext_in. intros [t ps] Ht. cbn [fst snd].
  f_equal. rewrite map_map. apply map_ext_in. intros [[p off] m] Hp. cbn [fst snd].
  rewrite last_commit_app, (last_commit_present _ g t p off (meta_or_empty m) Hnd (in_commit_ops g req t ps p off m Ht Hp)).
  reflexivity.
Qed.
