(* Proofs about model/Envelope.v (C29). *)
From Coq Require Import ZifyBool DecimalPos.
From KS Require Import lib.Base lib.Strings model.Envelope.
Open Scope Z_scope.

Ltac Zify.zify_post_hook ::= Z.div_mod_to_equations.

Definition ascii (c : Z) : Prop := c < 128.
Definition high (u : Z) : Prop := 128 <= u.

(* ---------- substring search ---------- *)
Lemma prefixb_high_head m x l : m <> [] -> Forall ascii m -> high x -> prefixb m (x :: l) = false.
Proof.
  intros Hm Ha Hx. destruct m as [|c m']; [congruence|].
  inversion Ha as [|? ? Hc _]; subst. unfold ascii, high in *. cbn [prefixb].
  destruct (c =? x) eqn:E; [lia|reflexivity].
Qed.

Lemma prefixb_nil_r m : m <> [] -> prefixb m [] = false.
Proof. destruct m; [congruence|reflexivity]. Qed.

Lemma contains_skip_high m x l : m <> [] -> Forall ascii m -> high x -> contains m (x :: l) = contains m l.
Proof. intros Hm Ha Hx. cbn [contains]. now rewrite prefixb_high_head. Qed.

Lemma contains_skip_highs m o l : m <> [] -> Forall ascii m -> Forall high o -> contains m (o ++ l) = contains m l.
Proof.
  intros Hm Ha Ho. induction Ho as [|x o Hx _ IH]; [reflexivity|].
  cbn [app]. now rewrite contains_skip_high.
Qed.

(* ---------- the WHATWG decoder ---------- *)
Section Decoder.
  Variable rep : list Z.
  Hypothesis rep_nonempty : rep <> [].
  Hypothesis rep_high : Forall high rep.

  (* reachable decoder states: enough is known about [d_cp] that the finished code
     point is >= 128 *)
  Definition Inv (st : dstate) : Prop :=
    128 <= d_lo st /\ 0 <= d_cp st /\
    (d_need st = 0 \/ (d_need st = 1 /\ 2 <= d_cp st)
     \/ (d_need st = 2 /\ (1 <= d_cp st \/ 160 <= d_lo st))
     \/ (d_need st = 3 /\ (1 <= d_cp st \/ 144 <= d_lo st))).

  Lemma Inv_d0 : Inv d0.
  Proof. unfold Inv, d0; cbn. lia. Qed.

  Lemma units_high cp : 128 <= cp -> Forall high (units cp) /\ units cp <> [].
  Proof.
    intros H. unfold units. destruct (cp <? 65536) eqn:E.
    - split; [repeat constructor; exact H|discriminate].
    - split; [|discriminate]. repeat constructor; unfold high; lia.
  Qed.

  Inductive step_shape (st : dstate) (b : Z) (o : list Z) (st' : dstate) : Prop :=
  | SAscii0 : b < 128 -> d_need st = 0 -> o = [b] -> st' = d0 -> step_shape st b o st'
  | SAsciiP : b < 128 -> d_need st <> 0 -> o = rep ++ [b] -> st' = d0 -> step_shape st b o st'
  | SHighSilent : 128 <= b -> o = [] -> d_need st' <> 0 -> step_shape st b o st'
  | SHighOut : 128 <= b -> o <> [] -> Forall high o -> step_shape st b o st'.

  Lemma start_shape b : let '(o, st') := start rep b in
    Inv st' /\ ((b < 128 /\ o = [b] /\ st' = d0) \/
                (128 <= b /\ ((o = [] /\ d_need st' <> 0) \/ (o <> [] /\ Forall high o)))).
  Proof.
    unfold start.
    destruct (b <? 128) eqn:E1.
    { split; [apply Inv_d0|]. left. repeat split. lia. }
    destruct ((194 <=? b) && (b <=? 223)) eqn:E2.
    { split; [unfold Inv; cbn; lia|]. right. split; [lia|]. left. cbn. split; [reflexivity|lia]. }
    destruct ((224 <=? b) && (b <=? 239)) eqn:E3.
    { split.
      - unfold Inv; cbn. destruct (b =? 224) eqn:E; lia.
      - right. split; [lia|]. left. cbn. split; [reflexivity|lia]. }
    destruct ((240 <=? b) && (b <=? 244)) eqn:E4.
    { split.
      - unfold Inv; cbn. destruct (b =? 240) eqn:E; lia.
      - right. split; [lia|]. left. cbn. split; [reflexivity|lia]. }
    split; [apply Inv_d0|]. right. split; [lia|]. right. split; assumption.
  Qed.

  Lemma step_spec st b : Inv st -> let '(o, st') := step rep st b in Inv st' /\ step_shape st b o st'.
  Proof.
    intros (Hlo & Hcp & Hneed). unfold step.
    destruct (d_need st =? 0) eqn:E0.
    { pose proof (start_shape b) as Hs. destruct (start rep b) as [o st'].
      destruct Hs as [Hi [(Hb & -> & ->)|(Hb & [(-> & Hn)|(Hne & Hh)])]]; split; try assumption.
      - apply SAscii0; auto. lia.
      - apply SHighSilent; auto.
      - apply SHighOut; auto. }
    destruct ((d_lo st <=? b) && (b <=? d_hi st)) eqn:E1.
    { destruct (d_need st =? 1) eqn:E2.
      - split; [apply Inv_d0|].
        assert (128 <= d_cp st * 64 + (b - 128)) as Hc by lia.
        destruct (units_high _ Hc) as [Hh Hne]. apply SHighOut; auto. lia.
      - split.
        + unfold Inv; cbn. lia.
        + apply SHighSilent; cbn; auto; lia. }
    pose proof (start_shape b) as Hs. destruct (start rep b) as [o st'].
    destruct Hs as [Hi Hs]. split; [assumption|].
    destruct Hs as [(Hb & -> & ->)|(Hb & Hs)].
    - apply SAsciiP; auto. lia.
    - apply SHighOut; auto.
      + destruct rep; [congruence|discriminate].
      + apply Forall_app. split; [assumption|].
        destruct Hs as [(-> & _)|(_ & Hh)]; [constructor|assumption].
  Qed.

  (* in the middle of a sequence, or in front of a non-ASCII byte, the decoder's
     output does not start with an ASCII unit *)
  Lemma decode_head_high l : forall st, Inv st ->
    (d_need st <> 0 \/ exists x l', l = x :: l' /\ 128 <= x) ->
    match decode_from rep st l with [] => True | u :: _ => high u end.
  Proof.
    induction l as [|b l IH]; intros st Hi Hc; cbn [decode_from].
    - destruct Hc as [Hn|(x & l' & E & _)]; [|discriminate].
      destruct (d_need st =? 0) eqn:E0; [lia|].
      destruct rep as [|r rs]; [congruence|]. now inversion rep_high.
    - pose proof (step_spec st b Hi) as Hs. destruct (step rep st b) as [o st'].
      destruct Hs as [Hi' Hs]. destruct Hs as [Hb Hn -> ->|Hb Hn -> ->|Hb -> Hn|Hb Hne Hh].
      + destruct Hc as [Hc|(x & l' & E & Hx)]; [contradiction|]. inversion E; subst. lia.
      + destruct rep as [|r rs]; [congruence|]. cbn. now inversion rep_high.
      + cbn [app]. apply IH; auto.
      + destruct o as [|u o]; [congruence|]. cbn. now inversion Hh.
  Qed.

  Lemma prefixb_decode m : Forall ascii m -> forall l, prefixb m (decode_from rep d0 l) = prefixb m l.
  Proof.
    induction m as [|c m IH]; intros Ha l; [reflexivity|].
    inversion Ha as [|? ? Hc Ha']; subst.
    destruct l as [|x l].
    - reflexivity.
    - destruct (Z.ltb_spec x 128) as [Hx|Hx].
      + cbn [decode_from]. unfold step. cbn [d_need d0 Z.eqb]. unfold start.
        destruct (x <? 128) eqn:E; [|lia]. cbn [app prefixb]. now rewrite IH.
      + pose proof (decode_head_high (x :: l) d0 Inv_d0) as H.
        rewrite (prefixb_high_head (c :: m) x l); [|discriminate|assumption|exact Hx].
        destruct (decode_from rep d0 (x :: l)) as [|u t].
        * reflexivity.
        * apply prefixb_high_head; [discriminate|assumption|]. apply H. right. eauto.
  Qed.

  (* searching an ASCII needle in the decoded text = searching it in the raw bytes *)
  Lemma contains_decode m : m <> [] -> Forall ascii m -> forall l st, Inv st ->
    contains m (decode_from rep st l) = contains m l.
  Proof.
    intros Hm Ha. induction l as [|b l IH]; intros st Hi; cbn [decode_from].
    - cbn [contains]. rewrite prefixb_nil_r by assumption.
      destruct (d_need st =? 0); cbn [contains]; [now rewrite prefixb_nil_r|].
      rewrite <- (app_nil_r rep). rewrite contains_skip_highs by assumption.
      cbn [contains]. now rewrite prefixb_nil_r.
    - pose proof (step_spec st b Hi) as Hs. destruct (step rep st b) as [o st'].
      destruct Hs as [Hi' Hs].
      assert (forall pre, Forall high pre -> b < 128 -> st' = d0 ->
                contains m ((pre ++ [b]) ++ decode_from rep st' l) = contains m (b :: l)) as Hasc.
      { intros pre Hp Hb ->. rewrite <- app_assoc. rewrite contains_skip_highs by assumption.
        cbn [app contains]. rewrite (IH d0 Inv_d0). f_equal.
        change (b :: decode_from rep d0 l) with (decode_from rep d0 (b :: l)) at 1 || idtac.
        destruct m as [|c m']; [congruence|]. cbn [prefixb]. f_equal.
        inversion Ha; subst. now apply prefixb_decode. }
      destruct Hs as [Hb Hn -> ->|Hb Hn -> ->|Hb -> Hn|Hb Hne Hh].
      + apply (Hasc []); auto.
      + apply Hasc; auto.
      + cbn [app]. rewrite (IH st' Hi'). symmetry. now apply contains_skip_high.
      + rewrite contains_skip_highs by assumption. rewrite (IH st' Hi').
        symmetry. now apply contains_skip_high.
  Qed.
End Decoder.

Lemma marker_ascii : Forall ascii marker.
Proof. unfold marker, ascii. repeat constructor. Qed.

Lemma marker_nonempty : marker <> [].
Proof. discriminate. Qed.

Lemma contains_strip_bom m us : m <> [] -> Forall ascii m -> contains m (strip_bom us) = contains m us.
Proof.
  intros Hm Ha. destruct us as [|u r]; [reflexivity|]. cbn [strip_bom].
  destruct (u =? 65279) eqn:E; [|reflexivity].
  symmetry. apply contains_skip_high; auto. unfold high. lia.
Qed.

(* the same for any ASCII needle (String.includes after TextDecoder.decode) *)
Lemma js_decode_search_any m l : m <> [] -> (forall c, In c m -> c < 128) ->
  contains m (js_decode l) = contains m l.
Proof.
  intros Hm Ha. apply Forall_forall in Ha. unfold js_decode.
  rewrite contains_strip_bom by assumption. apply contains_decode.
  - discriminate.
  - repeat constructor. unfold high. lia.
  - exact Hm.
  - exact Ha.
  - apply Inv_d0.
Qed.

Lemma js_decode_search l : contains marker (js_decode l) = contains marker l.
Proof.
  apply js_decode_search_any; [exact marker_nonempty|].
  apply Forall_forall. exact marker_ascii.
Qed.

(* ---------- the three detectors ---------- *)
Lemma go_py_agree v : go_is_envelope v = py_is_envelope v.
Proof.
  unfold go_is_envelope, py_is_envelope.
  destruct (zlen v <? 15) eqn:E; [now rewrite orb_true_r|].
  destruct (zlen v =? 0) eqn:E0; [unfold zlen in *; lia|]. cbn [orb].
  destruct v as [|x v]; [cbn in E; discriminate|].
  cbn [firstn bytes_eqb]. destruct (x =? 123) eqn:Ex; reflexivity.
Qed.

Lemma go_js_agree_min n v : 1 <= n <= 15 -> n <= zlen v -> (zlen v < 15 -> go_is_envelope v = js_is_envelope_min n v) ->
  go_is_envelope v = js_is_envelope_min n v.
Proof.
  intros Hn Hlen Hshort. destruct (Z.ltb_spec (zlen v) 15) as [H|H]; [auto|].
  unfold go_is_envelope, js_is_envelope_min.
  destruct (zlen v <? 15) eqn:E; [lia|]. destruct (zlen v <? n) eqn:E'; [lia|].
  destruct v as [|x v]; [reflexivity|]. destruct (x =? 123); [|reflexivity].
  now rewrite js_decode_search.
Qed.

(* with the length check (minlen 15) the JS detector is the Go detector *)
Lemma go_js15_agree v : go_is_envelope v = js_is_envelope_min 15 v.
Proof.
  unfold go_is_envelope, js_is_envelope_min.
  destruct (zlen v <? 15) eqn:E; [reflexivity|].
  destruct v as [|x v]; [reflexivity|]. destruct (x =? 123); [|reflexivity].
  now rewrite js_decode_search.
Qed.

(* the JS detector as found agrees with Go on every input of at least 15 bytes ... *)
Lemma go_js_agree_long v : 15 <= zlen v -> go_is_envelope v = js_is_envelope v.
Proof.
  intros H. rewrite go_js15_agree. unfold js_is_envelope, js_is_envelope_min.
  destruct (zlen v <? 15) eqn:E; [lia|]. destruct (zlen v <? 1) eqn:E'; [lia|]. reflexivity.
Qed.

(* ... and on shorter inputs Go (and Python) say "not an envelope" *)
Lemma go_short_false v : zlen v < 15 -> go_is_envelope v = false.
Proof. intros H. unfold go_is_envelope. destruct (zlen v <? 15) eqn:E; [reflexivity|lia]. Qed.

(* JS on short inputs: an envelope iff it starts with the brace and contains the marker *)
Lemma js_short v : zlen v < 15 -> js_is_envelope v = true ->
  exists t, v = 123 :: t /\ contains marker v = true.
Proof.
  intros H. unfold js_is_envelope, js_is_envelope_min.
  destruct (zlen v <? 1); [discriminate|]. destruct v as [|x t]; [discriminate|].
  destruct (x =? 123) eqn:Ex; [|discriminate]. rewrite js_decode_search.
  intros Hc. exists t. split; [f_equal; lia|].
  rewrite firstn_all2 in Hc; [exact Hc|]. unfold zlen in H. lia.
Qed.

(* pass-through decisions agree wherever the detectors do, and hand back the value itself *)
Lemma pass_through_agree v : 15 <= zlen v ->
  pass_through go_is_envelope v = pass_through py_is_envelope v /\
  pass_through go_is_envelope v = pass_through js_is_envelope v /\
  (forall p, pass_through go_is_envelope v = Some p -> p = v).
Proof.
  intros H. unfold pass_through. rewrite <- go_py_agree, <- (go_js_agree_long v H).
  repeat split. intros p. destruct (go_is_envelope v); [discriminate|]. now intros [= <-].
Qed.

(* ---------- encoding ---------- *)
Lemma prefixb_app m r : prefixb m (m ++ r) = true.
Proof. induction m as [|c m IH]; [reflexivity|]. cbn. now rewrite Z.eqb_refl. Qed.

Lemma contains_prefix m l : prefixb m l = true -> contains m l = true.
Proof. destruct l; cbn; intros ->; reflexivity. Qed.

Lemma contains_cons m x l : contains m l = true -> contains m (x :: l) = true.
Proof. intros H. cbn [contains]. rewrite H. apply orb_true_r. Qed.

Lemma prefixb_firstn m l n : (length m <= n)%nat -> prefixb m (firstn n l) = prefixb m l.
Proof.
  revert l n. induction m as [|c m IH]; intros l n H; [reflexivity|].
  destruct n as [|n]; [cbn in H; lia|]. destruct l as [|x l]; [reflexivity|].
  cbn [firstn prefixb]. rewrite IH; [reflexivity|cbn in H; lia].
Qed.

Lemma dec_nonempty z : dec z <> [].
Proof.
  unfold dec. destruct (Z.to_int z) as [d|d] eqn:E; cbn.
  - destruct d; cbn; try discriminate.
    (* Nil impossible: Z.to_int never yields Pos Nil *)
    exfalso. destruct z; cbn in E; try discriminate.
    + inversion E as [E']. pose proof (Unsigned.to_uint_nonnil p) as Hn. congruence.
  - discriminate.
Qed.

Section JsonDetect.
  Variable tail : envelope -> bytes.
  (* the one guarantee about encoding/json the detection theorem relies on *)
  Hypothesis tail_second : forall e, exists r, tail e = enc_second ++ r.

  Lemma marshal_shape e : exists r, marshal tail e = 123 :: marker ++ r /\ 15 <= zlen (marshal tail e).
  Proof.
    destruct (tail_second e) as [r Hr]. unfold marshal. rewrite Hr.
    exists (58 :: dec (e_version e) ++ enc_second ++ r). split; [reflexivity|].
    pose proof (dec_nonempty (e_version e)) as Hd.
    rewrite !zlen_app. unfold zlen at 1 3. cbn [enc_head enc_second length].
    destruct (dec (e_version e)) as [|d0' ds]; [congruence|]. rewrite zlen_cons.
    pose proof (zlen_nonneg ds). pose proof (zlen_nonneg r). lia.
  Qed.

  Lemma marshal_detected_go e : go_is_envelope (marshal tail e) = true.
  Proof.
    destruct (marshal_shape e) as (r & E & Hlen). unfold go_is_envelope.
    destruct (zlen (marshal tail e) <? 15) eqn:El; [lia|]. rewrite E.
    rewrite Z.eqb_refl. change (firstn 50 (123 :: marker ++ r)) with (123 :: firstn 49 (marker ++ r)).
    apply contains_cons, contains_prefix. rewrite prefixb_firstn; [apply prefixb_app|cbn; lia].
  Qed.

  Lemma encode_detected e b : encode tail e = Some b ->
    go_is_envelope b = true /\ py_is_envelope b = true /\ js_is_envelope b = true.
  Proof.
    unfold encode. destruct (required_missing e); [discriminate|]. intros [= <-].
    pose proof (marshal_detected_go e) as Hg. split; [assumption|]. split.
    - now rewrite <- go_py_agree.
    - rewrite <- go_js_agree_long; [assumption|]. destruct (marshal_shape e) as (_ & _ & H). exact H.
  Qed.

End JsonDetect.

Section JsonRoundtrip.
  Variable tail : envelope -> bytes.
  Variable unmarshal : bytes -> option envelope.
  Variable json_safe : envelope -> Prop.
  Hypothesis json_roundtrip : forall e, json_safe e -> unmarshal (marshal tail e) = Some e.

  Lemma encode_decode e b : json_safe e -> encode tail e = Some b ->
    decode unmarshal b = Some e /\ py_decode unmarshal b = Some e /\ js_decode_env unmarshal b = Some e.
  Proof.
    intros Hs. unfold encode, decode, py_decode, js_decode_env.
    destruct (required_missing e) eqn:E; [discriminate|]. intros [= <-].
    rewrite (json_roundtrip e Hs). rewrite E. unfold required_missing in E. rewrite E. auto.
  Qed.
End JsonRoundtrip.

(* EncodeEnvelope accepts exactly the envelopes with the four required fields *)
Lemma encode_some_iff tail e : (exists b, encode tail e = Some b) <-> required_missing e = false.
Proof.
  unfold encode. destruct (required_missing e); split; intros H; try discriminate; eauto.
  destruct H as [b H]. discriminate.
Qed.
