(* GENERATED on every run by tools/mcpcalls (go/ast) from internal/mcpserver/*.go and the
   metadata.Store interface of pkg/metadata/store.go -- do not edit.
   For every registered ops-MCP tool: the store methods its handler can reach. *)
From Coq Require Import String.
From KS Require Import lib.Base lib.Strings model.MetaStore.

Definition mcp_calls : list (bytes * list store_method) :=
  [ (lit "cluster_metrics"%string, []);
    (lit "cluster_status"%string, [M_Metadata]);
    (lit "describe_configs"%string, [M_FetchTopicConfig; M_Metadata]);
    (lit "describe_group"%string, [M_FetchConsumerGroup]);
    (lit "describe_topics"%string, [M_Metadata]);
    (lit "fetch_offsets"%string, [M_FetchConsumerOffset; M_Metadata]);
    (lit "list_groups"%string, [M_ListConsumerGroups]);
    (lit "list_topics"%string, [M_Metadata]) ].

(* method set of metadata.Store (+ ConsumerOffsetLookup) as declared now *)
Definition store_interface_methods : list store_method :=
  [M_CommitConsumerOffset; M_CreatePartitions; M_CreateTopic; M_DeleteConsumerGroup; M_DeleteTopic; M_FetchConsumerGroup; M_FetchConsumerOffset; M_FetchTopicConfig; M_ListConsumerGroups; M_ListConsumerOffsets; M_LookupConsumerOffset; M_Metadata; M_NextOffset; M_PutConsumerGroup; M_UpdateOffsets; M_UpdateTopicConfig].

(* for every Store method: state-writing actions reachable from its bodies in pkg/metadata
   (etcd client Put/Delete/Txn, write lock, writes to receiver fields) *)
Definition mcp_method_writes : list (store_method * list bytes) :=
  [ (M_CommitConsumerOffset, [lit "EtcdStore.CommitConsumerOffset: etcd client.Put"%string; lit "InMemoryStore.CommitConsumerOffset: takes the write lock mu.Lock"%string; lit "InMemoryStore.CommitConsumerOffset: writes field consumerMeta"%string; lit "InMemoryStore.CommitConsumerOffset: writes field consumerOffsets"%string]);
    (M_CreatePartitions, [lit "EtcdStore.CreatePartitions -> EtcdStore.persistSnapshot -> EtcdStore.persistSnapshotLocked: etcd client.Put"%string; lit "EtcdStore.CreatePartitions -> EtcdStore.syncTopicConfigPartitions: etcd client.Put"%string; lit "EtcdStore.CreatePartitions -> InMemoryStore.CreatePartitions: takes the write lock mu.Lock"%string; lit "EtcdStore.CreatePartitions -> InMemoryStore.CreatePartitions: writes field topicConfigs"%string; lit "EtcdStore.CreatePartitions: etcd client.Put"%string; lit "InMemoryStore.CreatePartitions: takes the write lock mu.Lock"%string; lit "InMemoryStore.CreatePartitions: writes field topicConfigs"%string]);
    (M_CreateTopic, [lit "EtcdStore.CreateTopic -> EtcdStore.persistSnapshotLocked: etcd client.Put"%string; lit "EtcdStore.CreateTopic -> InMemoryStore.CreateTopic: takes the write lock mu.Lock"%string; lit "EtcdStore.CreateTopic -> InMemoryStore.CreateTopic: writes field state"%string; lit "EtcdStore.CreateTopic -> InMemoryStore.CreateTopic: writes field topicConfigs"%string; lit "InMemoryStore.CreateTopic: takes the write lock mu.Lock"%string; lit "InMemoryStore.CreateTopic: writes field state"%string; lit "InMemoryStore.CreateTopic: writes field topicConfigs"%string]);
    (M_DeleteConsumerGroup, [lit "EtcdStore.DeleteConsumerGroup: etcd client.Delete"%string; lit "InMemoryStore.DeleteConsumerGroup: delete from field consumerGroups"%string; lit "InMemoryStore.DeleteConsumerGroup: takes the write lock mu.Lock"%string]);
    (M_DeleteTopic, [lit "EtcdStore.DeleteTopic -> EtcdStore.deleteConsumerOffsets: etcd client.Delete"%string; lit "EtcdStore.DeleteTopic -> EtcdStore.deleteTopicOffsets: etcd client.Delete"%string; lit "EtcdStore.DeleteTopic -> EtcdStore.persistSnapshotLocked: etcd client.Put"%string; lit "EtcdStore.DeleteTopic -> InMemoryStore.DeleteTopic: delete from field consumerMeta"%string; lit "EtcdStore.DeleteTopic -> InMemoryStore.DeleteTopic: delete from field consumerOffsets"%string; lit "EtcdStore.DeleteTopic -> InMemoryStore.DeleteTopic: delete from field offsets"%string; lit "EtcdStore.DeleteTopic -> InMemoryStore.DeleteTopic: delete from field topicConfigs"%string; lit "EtcdStore.DeleteTopic -> InMemoryStore.DeleteTopic: takes the write lock mu.Lock"%string; lit "EtcdStore.DeleteTopic -> InMemoryStore.DeleteTopic: writes field state"%string; lit "InMemoryStore.DeleteTopic: delete from field consumerMeta"%string; lit "InMemoryStore.DeleteTopic: delete from field consumerOffsets"%string; lit "InMemoryStore.DeleteTopic: delete from field offsets"%string; lit "InMemoryStore.DeleteTopic: delete from field topicConfigs"%string; lit "InMemoryStore.DeleteTopic: takes the write lock mu.Lock"%string; lit "InMemoryStore.DeleteTopic: writes field state"%string]);
    (M_FetchConsumerGroup, []);
    (M_FetchConsumerOffset, []);
    (M_FetchTopicConfig, []);
    (M_ListConsumerGroups, []);
    (M_ListConsumerOffsets, []);
    (M_LookupConsumerOffset, []);
    (M_Metadata, []);
    (M_NextOffset, []);
    (M_PutConsumerGroup, [lit "EtcdStore.PutConsumerGroup: etcd client.Put"%string; lit "InMemoryStore.PutConsumerGroup: takes the write lock mu.Lock"%string; lit "InMemoryStore.PutConsumerGroup: writes field consumerGroups"%string]);
    (M_UpdateOffsets, [lit "EtcdStore.UpdateOffsets: etcd client.Put"%string; lit "InMemoryStore.UpdateOffsets: takes the write lock mu.Lock"%string; lit "InMemoryStore.UpdateOffsets: writes field offsets"%string]);
    (M_UpdateTopicConfig, [lit "EtcdStore.UpdateTopicConfig -> InMemoryStore.UpdateTopicConfig: takes the write lock mu.Lock"%string; lit "EtcdStore.UpdateTopicConfig -> InMemoryStore.UpdateTopicConfig: writes field topicConfigs"%string; lit "EtcdStore.UpdateTopicConfig: etcd client.Put"%string; lit "InMemoryStore.UpdateTopicConfig: takes the write lock mu.Lock"%string; lit "InMemoryStore.UpdateTopicConfig: writes field topicConfigs"%string]) ].
