(* GENERATED on every run by tools/mcpcalls (go/ast) from internal/mcpserver/*.go and the
   metadata.Store interface of pkg/metadata/store.go -- do not edit.
   For every registered ops-MCP tool: the store methods its handler can reach. *)
From Coq Require Import String.
From KS Require Import lib.Base lib.Strings model.MetaStore.

Definition mcp_calls : list (bytes * list store_method) :=
  [ (lit "cluster_metrics"%string, []);
    (lit "cluster_status"%string, [M_Metadata]);
    (lit "describe_configs"%string, [M_FetchTopicConfig; M_Metadata]);
    (lit "describe_group"%string, [M_FetchConsumerGroup]);
    (lit "describe_topics"%string, [M_Metadata]);
    (lit "fetch_offsets"%string, [M_FetchConsumerOffset; M_Metadata]);
    (lit "list_groups"%string, [M_ListConsumerGroups]);
    (lit "list_topics"%string, [M_Metadata]) ].

(* method set of metadata.Store (+ ConsumerOffsetLookup) as declared now *)
Definition store_interface_methods : list store_method :=
  [M_CommitConsumerOffset; M_CreatePartitions; M_CreateTopic; M_DeleteConsumerGroup; M_DeleteTopic; M_FetchConsumerGroup; M_FetchConsumerOffset; M_FetchTopicConfig; M_ListConsumerGroups; M_ListConsumerOffsets; M_LookupConsumerOffset; M_Metadata; M_NextOffset; M_PutConsumerGroup; M_UpdateOffsets; M_UpdateTopicConfig].
