"""Common driver behind `bin/check <Cxx>`.

One run = (1) regenerate translator output, (2) make the property's Coq targets
(the props file is always recompiled so its Print Assumptions output is captured),
(3) build + run the Go/Python/JS harness against the repository's current working
tree through `go test -overlay` (nothing is written to the repository), (4) evaluate
the emitted cases files with coqc (vm_compute inside the model), (5) verdict per
DESIGN.md section 3, evidence/<id>.json, exit code.
"""
import fcntl
import glob
import importlib.util
import json
import os
import re
import shutil
import subprocess
import sys
import time
from concurrent.futures import ThreadPoolExecutor

VERIF = os.path.dirname(os.path.dirname(os.path.abspath(__file__)))
REPO = os.environ.get("VERIF_REPO", "/repo")
COQ = os.path.join(VERIF, "coq")
# A tree other than /repo (VERIF_REPO=<scratch worktree>, used for proposed fixes and seeded
# mutations) gets its own work directory and writes evidence/replays under .work/alt/, so the
# committed evidence only ever comes from runs against /repo itself.
ALT = os.path.realpath(REPO) != "/repo"
ALT_TAG = ("-" + re.sub(r"[^A-Za-z0-9]+", "_", os.path.realpath(REPO)).strip("_")) if ALT else ""
EVID_DIR = os.path.join(VERIF, ".work", "alt", "evidence" + ALT_TAG) if ALT else os.path.join(VERIF, "evidence")
REPLAY_DIR = os.path.join(VERIF, ".work", "alt", "replays" + ALT_TAG) if ALT else os.path.join(VERIF, "replays")
WARN = "-notation-overridden,-deprecated-hint-without-locality,-ambiguous-paths,-deprecated-instance-without-locality,-deprecated-hint-rewrite-without-locality"


def log(*a):
    print(*a, flush=True)


def load_spec(pid):
    path = os.path.join(VERIF, "checks", pid + ".py")
    if not os.path.exists(path):
        raise SystemExit(f"no check registered for {pid} ({path} missing)")
    spec = importlib.util.spec_from_file_location("check_" + pid, path)
    mod = importlib.util.module_from_spec(spec)
    spec.loader.exec_module(mod)
    return mod.SPEC, mod


def goenv():
    env = dict(os.environ)
    env["GOFLAGS"] = "-mod=mod"
    env["GOPROXY"] = "off"
    env.pop("GOSUMDB", None)  # GOSUMDB=off breaks the offline toolchain switch
    if env.get("GOTOOLCHAIN") == "local":
        env.pop("GOTOOLCHAIN")
    env.setdefault("GOCACHE", os.path.expanduser("~/.cache/go-build"))
    return env


class Run:
    def __init__(self, pid, tier, seed, replay=None):
        self.pid, self.tier, self.seed, self.replay = pid, tier, seed, replay
        self.spec, self.mod = load_spec(pid)
        # one work directory per run (two runs of the same check may overlap); directories of
        # runs whose process is gone are removed, and .work/<pid> points at the latest run
        base = os.path.join(VERIF, ".work", "runs")
        os.makedirs(base, exist_ok=True)
        for d in glob.glob(os.path.join(base, pid + ALT_TAG + ".*")):
            try:
                os.kill(int(d.rsplit(".", 1)[1]), 0)
            except (ValueError, ProcessLookupError):
                shutil.rmtree(d, ignore_errors=True)
            except PermissionError:
                pass
        self.work = os.path.join(base, f"{pid}{ALT_TAG}.{os.getpid()}")
        shutil.rmtree(self.work, ignore_errors=True)
        os.makedirs(self.work, exist_ok=True)
        link = os.path.join(VERIF, ".work", pid + ALT_TAG)
        try:
            if os.path.islink(link):
                os.unlink(link)
            elif os.path.isdir(link):
                shutil.rmtree(link, ignore_errors=True)
            os.symlink(self.work, link)
        except OSError:
            pass
        self.t0 = time.time()
        self.proof = {"ok": True, "axioms": [], "closed": 0, "error": None, "broken_theorem": None, "cmd": ""}
        self.results = []  # harness result dicts
        self.harness_errors = []
        self.mismatches = []  # (file, index, coq text, json)
        self.corr_cases = 0
        self.corr_files = 0
        self.corr_error = None

    # ---------------------------------------------------------------- gen
    def gen(self):
        for cmd in self.spec.get("gen", []):
            env = goenv()
            env["VERIF_REPO"] = REPO
            p = subprocess.run(cmd, cwd=VERIF, env=env, capture_output=True, text=True, timeout=600)
            if p.returncode != 0:
                self.proof["ok"] = False
                self.proof["error"] = f"translator {' '.join(cmd)} failed: {p.stdout[-2000:]}{p.stderr[-2000:]}"
                self.proof["broken_theorem"] = "translator:" + os.path.basename(cmd[0] if cmd[0] != "go" else cmd[-1])
                return False
        return True

    # ---------------------------------------------------------------- coq
    def coq(self):
        props = self.spec.get("props_file", f"theories/props/{self.pid}.v")
        targets = [props + "o"] + [t for t in self.spec.get("coq_deps", [])]
        subprocess.run([os.path.join(VERIF, "bin", "mkcoqproject")], check=True)
        lock = open(os.path.join(COQ, ".lock"), "w")
        fcntl.flock(lock, fcntl.LOCK_EX)
        try:
            for f in [props + "o"]:
                try:
                    os.remove(os.path.join(COQ, f))
                except FileNotFoundError:
                    pass
            cmd = ["timeout", str(self.spec.get("coq_timeout_s", 900)), "make", "-j16"] + targets
            self.proof["cmd"] = "cd coq && " + " ".join(cmd[2:]) + "   # full .vo build via coq_makefile; coqc 8.16.1"
            p = subprocess.run(cmd, cwd=COQ, capture_output=True, text=True)
        finally:
            fcntl.flock(lock, fcntl.LOCK_UN)
            lock.close()
        out = p.stdout + "\n" + p.stderr
        open(os.path.join(self.work, "coq_build.log"), "w").write(out)
        self.proof["closed"] = out.count("Closed under the global context")
        axioms = []
        in_block = False
        for line in out.splitlines():
            if line.startswith("Axioms:"):
                in_block = True
                continue
            if in_block:
                if not line.strip() or line.startswith(("COQC", "COQDEP", "Closed under", "make", "File ")):
                    in_block = False
                    continue
                if not line[0].isspace():  # a new entry starts at column 0 (its type may wrap onto indented lines)
                    axioms.append(line.split()[0].rstrip(":"))
        self.proof["axioms"] = sorted(set(axioms))
        if p.returncode != 0:
            self.proof["ok"] = False
            m = re.search(r'File "([^"]+)", line (\d+), characters [^\n]*\n(Error:(?:.|\n)*?)(?:\nmake|\Z)', out)
            if m:
                f, ln, err = m.group(1), int(m.group(2)), m.group(3)
                self.proof["error"] = f"{f}:{ln}: {err.strip()[:1500]}"
                self.proof["broken_theorem"] = self._enclosing_theorem(os.path.join(COQ, f), ln) or f
            else:
                self.proof["error"] = out[-2000:]
                self.proof["broken_theorem"] = "build"
        # thorough tier: re-check the compiled property file and everything it depends on
        # with the independent checker; -o lists the axioms of the loaded context
        self.proof["coqchk"] = None
        if self.tier == "thorough" and p.returncode == 0 and not os.environ.get("VERIF_NO_COQCHK"):
            modname = "KS." + props[len("theories/"):-2].replace("/", ".")
            lock = open(os.path.join(COQ, ".lock"), "w")
            fcntl.flock(lock, fcntl.LOCK_EX)
            try:
                c = subprocess.run(["timeout", "3000", "coqchk", "-silent", "-o", "-R", "theories", "KS", modname], cwd=COQ, capture_output=True, text=True)
            finally:
                fcntl.flock(lock, fcntl.LOCK_UN)
                lock.close()
            co = c.stdout + c.stderr
            open(os.path.join(self.work, "coqchk.log"), "w").write(co)
            m = re.search(r"\* Axioms:(.*?)\n\s*\n\* Constants", co, re.S)
            ax = " ".join(m.group(1).split()) if m else "unparsed"
            self.proof["coqchk"] = {"exit": c.returncode, "axioms": ax, "module": modname}
            if c.returncode != 0:
                self.proof["ok"] = False
                self.proof["error"] = "coqchk failed: " + co[-1500:]
                self.proof["broken_theorem"] = "coqchk:" + modname
        # expected theorem names must be present in the props file
        try:
            txt = open(os.path.join(COQ, props)).read()
        except FileNotFoundError:
            txt = ""
        self.theorems = re.findall(r"^(?:Theorem|Example)\s+(\S+)", txt, re.M)
        missing = [t for t in self.spec.get("theorems", []) if t not in self.theorems]
        if missing and self.proof["ok"]:
            self.proof["ok"] = False
            self.proof["error"] = "theorems missing from props file: " + ", ".join(missing)
            self.proof["broken_theorem"] = missing[0]
        if re.search(r"\b(Admitted|admit|Axiom|Parameter|Conjecture)\b", re.sub(r"\(\*.*?\*\)", "", txt, flags=re.S)):
            self.proof["ok"] = False
            self.proof["error"] = "props file contains Admitted/Axiom"
            self.proof["broken_theorem"] = props
        return self.proof["ok"]

    @staticmethod
    def _enclosing_theorem(path, line):
        try:
            lines = open(path).read().splitlines()
        except OSError:
            return None
        for i in range(min(line, len(lines)) - 1, -1, -1):
            m = re.match(r"^\s*(?:Theorem|Lemma|Example|Definition|Fixpoint|Corollary)\s+(\S+)", lines[i])
            if m:
                return f"{os.path.relpath(path, COQ)}:{m.group(1)}"
        return None

    # ---------------------------------------------------------------- harness
    def harness(self, n_override=None, seed=None, tag=""):
        ok = True
        for h in self.spec.get("harnesses", []):
            ok = self._one_harness(h, n_override, seed, tag) and ok
        return ok

    def _one_harness(self, h, n_override, seed, tag):
        env = goenv()
        out = os.path.join(self.work, "out" + tag)
        os.makedirs(out, exist_ok=True)
        env.update({"VERIF_OUT": out, "VERIF_SEED": str(self.seed if seed is None else seed), "VERIF_TIER": self.tier,
                    "VERIF_REPO": REPO, "VERIF_DIR": VERIF})
        if n_override:
            env["VERIF_N"] = str(n_override)
        if self.replay:
            env["VERIF_REPLAY"] = os.path.abspath(self.replay)
        env.update(h.get("env", {}))
        kind = h.get("kind", "go")
        tmo = h.get("timeout_s", 600) * (4 if self.tier == "thorough" else 1)
        if kind == "cmd":
            cmd = [c.replace("{VERIF}", VERIF).replace("{REPO}", REPO).replace("{OUT}", out) for c in h["argv"]]
            cwd = h.get("cwd", VERIF).replace("{VERIF}", VERIF).replace("{REPO}", REPO)
        else:
            moddir = os.path.normpath(os.path.join(REPO, h.get("module", ".")))
            pkgdir = os.path.normpath(os.path.join(moddir, h["pkg"]))
            ovdir = os.path.join(self.work, "overlay" + tag, h["pkg"].strip("./").replace("/", "_") or "root")
            os.makedirs(ovdir, exist_ok=True)
            replace = {}
            common = open(os.path.join(VERIF, "harness/common/common.go.tmpl")).read().replace("{{PKG}}", h["pkgname"])
            cpath = os.path.join(ovdir, "zz_verif_common_test.go")
            open(cpath, "w").write(common)
            replace[os.path.join(pkgdir, "zz_verif_common_test.go")] = cpath
            for dst, src in h["files"].items():
                # dst may name another package directory of the same module: "pkg/x/zz_file.go"
                target = os.path.join(pkgdir, dst) if "/" not in dst else os.path.join(moddir, dst)
                replace[target] = os.path.join(VERIF, src)
            ovjson = os.path.join(ovdir, "overlay.json")
            json.dump({"Replace": replace}, open(ovjson, "w"), indent=1)
            cmd = ["go", "test", "-mod=mod", "-overlay", ovjson, "-count=1", "-vet=off", "-tags", "verif",
                   "-run", h["run"], "-timeout", f"{tmo}s"]
            if h.get("race"):
                cmd.append("-race")
            cmd += h.get("extra_args", [])
            cmd.append(h["pkg"] if h["pkg"].startswith("./") else "./" + h["pkg"])
            cwd = moddir
        t = time.time()
        for attempt in range(3):
            try:
                p = subprocess.run(cmd, cwd=cwd, env=env, capture_output=True, text=True, timeout=tmo + 120)
                rc, so = p.returncode, p.stdout + p.stderr
            except subprocess.TimeoutExpired as e:
                rc, so = 124, f"harness timed out after {tmo + 120}s\n{e.stdout or ''}"
            # a test binary killed from outside (another process's `go test ./cmd/broker` kills
            # whatever listens on its fixed etcd ports) says nothing about the code: run it again
            if rc != 0 and re.search(r"signal: (terminated|killed)", so) and not glob.glob(os.path.join(out, "result_*.json")):
                time.sleep(3 + 5 * attempt)
                continue
            break
        open(os.path.join(self.work, f"harness{tag}.log"), "a").write(f"$ {' '.join(cmd)}\n{so}\n")
        got = False
        for rf in sorted(glob.glob(os.path.join(out, "result_*.json"))):
            if any(r.get("_file") == rf for r in self.results):
                continue
            try:
                r = json.load(open(rf))
            except Exception as e:  # noqa
                continue
            r["_file"], r["_out"] = rf, out
            self.results.append(r)
            got = True
        if rc != 0 or not got:
            self.harness_errors.append({"cmd": " ".join(cmd), "rc": rc, "tail": so[-3000:], "wall_s": round(time.time() - t, 1)})
            return False
        return True

    # ---------------------------------------------------------------- cases
    def cases(self):
        files = []
        for r in self.results:
            for f in (r.get("case_files") or []):
                files.append((r, os.path.join(r["_out"], f)))
            self.corr_cases += r.get("case_count") or 0
        self.corr_files = len(files)

        def one(item):
            r, f = item
            cmd = ["timeout", "1200", "coqc", "-noglob", "-R", os.path.join(COQ, "theories"), "KS", "-w", WARN, f]
            p = subprocess.run(cmd, cwd=os.path.dirname(f), capture_output=True, text=True)
            return r, f, p

        with ThreadPoolExecutor(max_workers=8) as ex:
            for r, f, p in ex.map(one, files):
                out = p.stdout + p.stderr
                if p.returncode != 0:
                    self.corr_error = f"{os.path.basename(f)}: coqc failed: {out[-1500:]}"
                    continue
                m = re.search(r"mism\s*=\s*(\[.*?\])\s*:\s*list Z", out, re.S)
                if not m:
                    self.corr_error = f"{os.path.basename(f)}: could not parse coqc output: {out[-500:]}"
                    continue
                idx = [int(x) for x in re.findall(r"-?\d+", m.group(1))]
                if idx:
                    lines = open(f).read().splitlines()
                    jl = f[:-2] + ".jsonl"
                    jcases = open(jl).read().splitlines() if os.path.exists(jl) else []
                    base = int(re.search(r"_(\d+)\.v$", f).group(1)) * 500
                    for i in idx[:5]:
                        txt = next((ln for ln in lines if ln.lstrip(" [;").startswith(f"(*#{i}*)")), "")
                        js = None
                        if 0 <= i - base < len(jcases):
                            try:
                                js = json.loads(jcases[i - base])
                            except Exception:  # noqa
                                js = None
                        self.mismatches.append({"file": os.path.basename(f), "index": i, "coq_case": txt.strip()[:6000], "case": js})
                    if len(idx) > 5:
                        self.mismatches.append({"file": os.path.basename(f), "more": len(idx) - 5})
        return not self.mismatches and not self.corr_error


def known_findings():
    """Committed findings: known_findings.json plus per-property fragments in
    known_findings.d/ (same format); read-only at run time."""
    out = []
    for p in [os.path.join(VERIF, "known_findings.json")] + sorted(glob.glob(os.path.join(VERIF, "known_findings.d", "*.json"))):
        if os.path.exists(p):
            out += json.load(open(p)).get("findings", [])
    return out


def finding_matches(entry, pid, failure):
    if entry.get("property") != pid or entry.get("status") != "open":
        return False
    return entry.get("key") == failure.get("key")


def write_replay(run, kind, body):
    os.makedirs(REPLAY_DIR, exist_ok=True)
    path = os.path.join(REPLAY_DIR, f"{run.pid}-{run.tier}-{run.seed}-{kind}.json")
    body = dict(body)
    body.update({"property": run.pid, "seed": run.seed, "tier": run.tier, "kind": kind})
    json.dump(body, open(path, "w"), indent=1, default=str)
    return path


def main(argv):
    import argparse
    ap = argparse.ArgumentParser()
    ap.add_argument("pid")
    ap.add_argument("--tier", default=os.environ.get("VERIF_TIER", "quick"), choices=["quick", "thorough"])
    ap.add_argument("--replay")
    a = ap.parse_args(argv)
    seed = int(os.environ.get("VERIF_SEED", "1") or "1")
    os.environ["VERIF_TIER"] = a.tier
    run = Run(a.pid, a.tier, seed, a.replay)
    spec = run.spec
    log(f"== check {a.pid} tier={a.tier} seed={seed} repo={REPO}")

    gen_ok = run.gen()
    proof_ok = run.coq() if gen_ok else False
    log(f"   coq: {'ok' if proof_ok else 'BROKEN'}  theorems={len(getattr(run, 'theorems', []))} closed={run.proof['closed']} axioms={run.proof['axioms']}")
    if hasattr(run.mod, "pre_harness"):
        run.mod.pre_harness(run)
    h_ok = run.harness()
    corr_ok = run.cases() if h_ok or run.results else False
    ev = sum(r.get("evaluations", 0) for r in run.results)
    log(f"   harness: {'ok' if h_ok else 'FAILED'} evaluations={ev} correspondence cases={run.corr_cases} mismatches={len(run.mismatches)}{' error=' + run.corr_error if run.corr_error else ''}")

    kf = known_findings()
    known_hits, unknown = {}, []

    def classify(results):
        for r in results:
            for f in (r.get("failures") or []):
                ent = next((e for e in kf if finding_matches(e, a.pid, f)), None)
                if ent:
                    known_hits.setdefault(ent["key"], (ent, f))
                else:
                    unknown.append(f)

    classify(run.results)
    broken = (not proof_ok) or (not h_ok) or (not corr_ok)

    # failing-input search when a proof obligation or the correspondence broke
    searched = 0
    if broken and not unknown and not a.replay and spec.get("harnesses"):
        for k in range(2):
            before = len(run.results)
            run.harness(n_override=spec.get("search_n", 4000), seed=seed * 7919 + 13 * (k + 1), tag=f"_search{k}")
            searched += sum(r.get("evaluations", 0) for r in run.results[before:])
            classify(run.results[before:])
            if unknown:
                break
        log(f"   failing-input search: {searched} further cases, found={'yes' if unknown else 'no'}")

    violations = 0
    lines = []
    for key, (ent, f) in sorted(known_hits.items()):
        lines.append(f"KNOWN-FINDING: property={a.pid} {ent.get('what', key)} [key={key}]")
    if unknown:
        f = unknown[0]
        path = write_replay(run, "oracle", {"oracle": f.get("oracle"), "key": f.get("key"), "what": f.get("what"), "case": f.get("case"),
                                            "other_failures": [{"oracle": x.get("oracle"), "key": x.get("key"), "what": x.get("what")} for x in unknown[1:6]]})
        lines.append(f"VIOLATION property={a.pid} replay={path}")
        violations = len(unknown)
    elif broken:
        body = {}
        if not proof_ok:
            body.update({"theorem": run.proof["broken_theorem"], "error": run.proof["error"]})
        if run.harness_errors:
            body["harness_errors"] = run.harness_errors
        if run.mismatches or run.corr_error:
            body.update({"correspondence": spec.get("corr_name", f"corr check for {a.pid}"), "mismatching_cases": run.mismatches, "corr_error": run.corr_error})
            first = next((m for m in run.mismatches if m.get("case") is not None), None)
            if first:
                body["case"] = first["case"]
        body["searched_cases"] = searched
        kind = "proof" if not proof_ok else ("correspondence" if (run.mismatches or run.corr_error) else "harness")
        path = write_replay(run, kind, body)
        lines.append(f"VIOLATION property={a.pid} replay={path} no-failing-input-found")
        violations = 1

    # ------------------------------------------------------------ evidence
    n_thm = len(getattr(run, "theorems", []))
    obligations = n_thm + max(run.corr_files, 1 if spec.get("harnesses") else 0) + len(spec.get("extra_obligations", []))
    discharged = (n_thm if proof_ok else 0) + (run.corr_files - len({m["file"] for m in run.mismatches if "file" in m}) if corr_ok or run.corr_files else 0)
    if not corr_ok:
        discharged = min(discharged, obligations - 1)
    discharged += len(spec.get("extra_obligations", [])) if proof_ok else 0
    hist, samples, rules, notes = {}, [], [], []
    nontriv = 0
    for r in run.results:
        for k, v in (r.get("histogram") or {}).items():
            hist[k] = hist.get(k, 0) + v
        samples += (r.get("samples") or [])[:2]
        if r.get("rule"):
            rules.append(r["rule"])
        nontriv += r.get("distinct_nontrivial", 0)
        notes += r.get("notes") or []
    coverage = {
        "obligations": obligations,
        "discharged": discharged,
        "checker_cmd": run.proof["cmd"] + " ; then per cases file: coqc -R coq/theories KS cases_*.v (Eval vm_compute in mismatches ...)",
        "trusted_base": spec.get("trusted_base", []) + BASE_TRUSTED,
        "theorems": getattr(run, "theorems", []),
        "print_assumptions": {"closed_under_global_context": run.proof["closed"], "axioms": run.proof["axioms"]},
        "coqchk": run.proof.get("coqchk"),
        "evaluations": ev + searched,
        "distinct_nontrivial": nontriv,
        "rule": " | ".join(dict.fromkeys(rules)) or "n/a",
        "samples": samples[:4] or [{"theorems": getattr(run, "theorems", [])}],
        "input_histogram": hist,
        "correspondence_cases": run.corr_cases,
        "correspondence_mismatches": len(run.mismatches),
        "known_findings_reproduced": sorted(known_hits.keys()),
        "modelled_not_verified": spec.get("modelled", ""),
        "notes": notes,
        "exhaustive": bool(spec.get("exhaustive", False)),
    }
    evidence = {
        "property_id": a.pid, "tier": a.tier, "seed": seed, "level": "proof",
        "coverage": coverage,
        "assumptions": spec.get("assumptions", []),
        "wall_s": round(time.time() - run.t0, 1),
        "violations": violations,
    }
    os.makedirs(EVID_DIR, exist_ok=True)
    json.dump(evidence, open(os.path.join(EVID_DIR, a.pid + ".json"), "w"), indent=1, default=str)
    for ln in lines:
        log(ln)
    log(f"== {a.pid}: {'FAIL' if violations else 'ok'} in {evidence['wall_s']}s (obligations {discharged}/{obligations})")
    return 1 if violations else 0


BASE_TRUSTED = [
    "Coq 8.16.1 kernel incl. the vm_compute machine (no native_compute)",
    "hand-written Gallina model tied to the code only by the correspondence check (differential test over generated cases)",
    "Go harness (generators, fakes, canonicalisers, go test -overlay injection) and vlib/runner.py",
]

if __name__ == "__main__":
    sys.exit(main(sys.argv[1:]))
