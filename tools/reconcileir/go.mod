module reconcileir

go 1.21
