#!/usr/bin/env python3
"""Regenerates coq/theories/gen/ApiTables.v from the repository's working tree
($VERIF_REPO, default /repo).  The Go translator (tools/apitables/main.go) is overlaid
into the repository's module as cmd/zz_verif_apitables/main.go (go run -overlay; nothing
is written to the repository) so that it can import the kmsg version the repository is
built with.  The output file is rewritten only when its content changes."""
import json
import os
import subprocess
import sys
import tempfile

HERE = os.path.dirname(os.path.abspath(__file__))
VERIF = os.path.dirname(os.path.dirname(HERE))
REPO = os.environ.get("VERIF_REPO", "/repo")
OUT = os.path.join(VERIF, "coq", "theories", "gen", "ApiTables.v")


def inputs_digest():
    """Hash of everything the translator reads (the Go sources it parses, the module's
    dependency pins that select the kmsg version, and the translator itself)."""
    import hashlib
    h = hashlib.sha256()
    for f in ["cmd/broker/main.go", "cmd/proxy/main.go", "pkg/protocol/response.go", "pkg/protocol/api.go", "go.mod", "go.sum"]:
        try:
            h.update(f.encode() + b"\0" + open(os.path.join(REPO, f), "rb").read())
        except OSError:
            h.update(f.encode() + b"\0<missing>")
    h.update(open(os.path.join(HERE, "main.go"), "rb").read())
    return h.hexdigest()


def main():
    digest = inputs_digest()
    stamp = os.path.join(VERIF, ".work", "apitables.stamp")
    marker = "(* inputs sha256 " + digest + " *)"
    # unchanged inputs and the file on disk was produced from them: nothing to do
    if os.path.exists(OUT) and marker in open(OUT).read():
        return 0
    env = dict(os.environ)
    env["GOFLAGS"] = "-mod=mod"
    env["GOPROXY"] = "off"
    env.pop("GOSUMDB", None)
    if env.get("GOTOOLCHAIN") == "local":
        env.pop("GOTOOLCHAIN")
    with tempfile.TemporaryDirectory() as td:
        ov = os.path.join(td, "overlay.json")
        json.dump({"Replace": {os.path.join(REPO, "cmd/zz_verif_apitables/main.go"): os.path.join(HERE, "main.go")}}, open(ov, "w"))
        p = subprocess.run(["go", "run", "-overlay", ov, "./cmd/zz_verif_apitables", REPO], cwd=REPO, env=env,
                           capture_output=True, text=True, timeout=500)
    if p.returncode != 0 or "Definition kmsg_requests" not in p.stdout:
        sys.stderr.write(p.stdout[-2000:] + p.stderr[-4000:])
        return 1
    os.makedirs(os.path.dirname(OUT), exist_ok=True)
    new = p.stdout.rstrip("\n") + "\n" + marker + "\n"
    old = open(OUT).read() if os.path.exists(OUT) else None
    if old != new:
        tmp = OUT + ".tmp%d" % os.getpid()
        open(tmp, "w").write(new)
        os.replace(tmp, OUT)
        print("gen/ApiTables.v updated")
    return 0


if __name__ == "__main__":
    sys.exit(main())
