// Translator for gen/ApiTables.v (properties C10, C11).
//
// Run inside the repository's module (bin/check overlays this file as
// cmd/zz_verif_apitables/main.go; nothing is written to the repository):
//
//	go run -overlay ov.json ./cmd/zz_verif_apitables <repo-root>
//
// It reads, with go/ast, what the code advertises and guards
//   - cmd/broker/main.go: generateApiVersions (supported + unsupported entries), the
//     type switch in handler.Handle (which request types have a case), every version
//     guard `if <cond over header.APIVersion> { return nil, <error> }` in a function
//     that takes a *kmsg.XRequest (evaluated for each version of a finite window), and
//     the ApiVersions downgrade rule (`responseVersion > N` -> `responseVersion = M`);
//   - cmd/proxy/main.go: generateProxyApiVersions, the API keys handleConnection serves
//     locally, the API keys buildNotReadyResponse has a case for;
//   - pkg/protocol/response.go: the flexible-header rule of EncodeResponse;
//
// and, by RUNNING kmsg (the franz-go version the repository is built with), for every
// request key kmsg knows: its name, MaxVersion and the first flexible version of the
// request and of its response.  Output: a Coq file on stdout.
package main

import (
	"fmt"
	"go/ast"
	"go/parser"
	"go/token"
	"os"
	"path/filepath"
	"reflect"
	"sort"
	"strconv"
	"strings"

	"github.com/twmb/franz-go/pkg/kmsg"
)

const window = 40 // guards are evaluated for versions 0..window

func die(f string, a ...any) {
	fmt.Fprintf(os.Stderr, "apitables: "+f+"\n", a...)
	os.Exit(1)
}

func parse(path string) *ast.File {
	fset := token.NewFileSet()
	f, err := parser.ParseFile(fset, path, nil, 0)
	if err != nil {
		die("parse %s: %v", path, err)
	}
	return f
}

var consts = map[string]int64{} // protocol.APIKeyX -> value

func loadConsts(root string) {
	f := parse(filepath.Join(root, "pkg/protocol/api.go"))
	for _, d := range f.Decls {
		gd, ok := d.(*ast.GenDecl)
		if !ok || gd.Tok != token.CONST {
			continue
		}
		for _, s := range gd.Specs {
			vs := s.(*ast.ValueSpec)
			for i, n := range vs.Names {
				if i < len(vs.Values) {
					if v, ok := intOf(vs.Values[i]); ok {
						consts[n.Name] = v
					}
				}
			}
		}
	}
}

func intOf(e ast.Expr) (int64, bool) {
	switch x := e.(type) {
	case *ast.BasicLit:
		if x.Kind == token.INT {
			v, err := strconv.ParseInt(x.Value, 0, 64)
			return v, err == nil
		}
	case *ast.UnaryExpr:
		if x.Op == token.SUB {
			v, ok := intOf(x.X)
			return -v, ok
		}
	case *ast.ParenExpr:
		return intOf(x.X)
	case *ast.CallExpr: // int16(3)
		if len(x.Args) == 1 {
			return intOf(x.Args[0])
		}
	case *ast.SelectorExpr: // protocol.APIKeyX
		if v, ok := consts[x.Sel.Name]; ok {
			return v, true
		}
	case *ast.Ident:
		if v, ok := consts[x.Name]; ok {
			return v, true
		}
	}
	return 0, false
}

func findFunc(f *ast.File, name string) *ast.FuncDecl {
	for _, d := range f.Decls {
		if fd, ok := d.(*ast.FuncDecl); ok && fd.Name.Name == name {
			return fd
		}
	}
	return nil
}

type entry struct{ key, min, max int64 }

// advertised reads `supported := []T{{key:.., min..:.., max..:..}, ...}` and `unsupported := []int16{...}`.
func advertised(fd *ast.FuncDecl) []entry {
	if fd == nil {
		die("advertising function not found")
	}
	var out []entry
	seen := map[string]bool{}
	ast.Inspect(fd.Body, func(n ast.Node) bool {
		as, ok := n.(*ast.AssignStmt)
		if !ok || len(as.Lhs) != 1 || len(as.Rhs) != 1 {
			return true
		}
		id, ok := as.Lhs[0].(*ast.Ident)
		cl, ok2 := as.Rhs[0].(*ast.CompositeLit)
		if !ok || !ok2 {
			return true
		}
		switch id.Name {
		case "supported":
			seen["supported"] = true
			for _, el := range cl.Elts {
				ecl, ok := el.(*ast.CompositeLit)
				if !ok {
					die("supported: unexpected element")
				}
				var e entry
				got := 0
				for _, kv := range ecl.Elts {
					kve, ok := kv.(*ast.KeyValueExpr)
					if !ok {
						die("supported: positional fields not understood")
					}
					v, ok := intOf(kve.Value)
					if !ok {
						die("supported: non-constant field")
					}
					switch strings.ToLower(kve.Key.(*ast.Ident).Name) {
					case "key":
						e.key = v
						got |= 1
					case "min", "minversion":
						e.min = v
						got |= 2
					case "max", "maxversion":
						e.max = v
						got |= 4
					}
				}
				if got != 7 {
					die("supported: entry without key/min/max")
				}
				out = append(out, e)
			}
		case "unsupported":
			seen["unsupported"] = true
			for _, el := range cl.Elts {
				v, ok := intOf(el)
				if !ok {
					die("unsupported: non-constant")
				}
				out = append(out, entry{v, -1, -1})
			}
		}
		return true
	})
	if !seen["supported"] {
		die("no `supported` table in %s", fd.Name.Name)
	}
	return out
}

var keyOfReqType = map[string]int64{} // "ProduceRequest" -> 0

func kmsgTypeName(e ast.Expr) (string, bool) { // *kmsg.XRequest
	st, ok := e.(*ast.StarExpr)
	if !ok {
		return "", false
	}
	se, ok := st.X.(*ast.SelectorExpr)
	if !ok {
		return "", false
	}
	if id, ok := se.X.(*ast.Ident); !ok || id.Name != "kmsg" {
		return "", false
	}
	return se.Sel.Name, true
}

// mentionsVersion: does the expression read header.APIVersion?
func isVersion(e ast.Expr) bool {
	se, ok := e.(*ast.SelectorExpr)
	return ok && se.Sel.Name == "APIVersion"
}

// evalCond evaluates a guard condition for a concrete version; ok=false if the shape is not understood.
func evalCond(e ast.Expr, v int64) (val bool, ok bool) {
	switch x := e.(type) {
	case *ast.ParenExpr:
		return evalCond(x.X, v)
	case *ast.UnaryExpr:
		if x.Op == token.NOT {
			b, ok := evalCond(x.X, v)
			return !b, ok
		}
	case *ast.BinaryExpr:
		switch x.Op {
		case token.LOR, token.LAND:
			a, ok1 := evalCond(x.X, v)
			b, ok2 := evalCond(x.Y, v)
			if !ok1 || !ok2 {
				return false, false
			}
			if x.Op == token.LOR {
				return a || b, true
			}
			return a && b, true
		case token.LSS, token.GTR, token.LEQ, token.GEQ, token.EQL, token.NEQ:
			var l, r int64
			var okl, okr bool
			if isVersion(x.X) {
				l, okl = v, true
			} else {
				l, okl = intOf(x.X)
			}
			if isVersion(x.Y) {
				r, okr = v, true
			} else {
				r, okr = intOf(x.Y)
			}
			if !okl || !okr || (!isVersion(x.X) && !isVersion(x.Y)) {
				return false, false
			}
			switch x.Op {
			case token.LSS:
				return l < r, true
			case token.GTR:
				return l > r, true
			case token.LEQ:
				return l <= r, true
			case token.GEQ:
				return l >= r, true
			case token.EQL:
				return l == r, true
			default:
				return l != r, true
			}
		}
	}
	return false, false
}

func mentionsVersion(e ast.Expr) bool {
	found := false
	ast.Inspect(e, func(n ast.Node) bool {
		if ex, ok := n.(ast.Expr); ok && isVersion(ex) {
			found = true
		}
		return !found
	})
	return found
}

// returnsError: the block's last statement is `return ..., <non-nil>` (an error result).
func returnsError(b *ast.BlockStmt) bool {
	if len(b.List) == 0 {
		return false
	}
	rs, ok := b.List[len(b.List)-1].(*ast.ReturnStmt)
	if !ok || len(rs.Results) == 0 {
		return false
	}
	last := rs.Results[len(rs.Results)-1]
	if id, ok := last.(*ast.Ident); ok && id.Name == "nil" {
		return false
	}
	return true
}

type pair struct{ key, ver int64 }

// guardsIn collects (key, version) pairs rejected by version guards inside node, attributed to key.
func guardsIn(node ast.Node, key int64, where string, out map[pair]bool, notes *[]string) {
	ast.Inspect(node, func(n ast.Node) bool {
		is, ok := n.(*ast.IfStmt)
		if !ok || !mentionsVersion(is.Cond) || !returnsError(is.Body) {
			return true
		}
		for v := int64(0); v <= window; v++ {
			b, ok := evalCond(is.Cond, v)
			if !ok {
				*notes = append(*notes, fmt.Sprintf("guard in %s not understood; treated as rejecting every version", where))
				b = true
			}
			if b {
				out[pair{key, v}] = true
			}
		}
		return true
	})
}

func cqZ(v int64) string {
	if v < 0 {
		return "(" + strconv.FormatInt(v, 10) + ")"
	}
	return strconv.FormatInt(v, 10)
}

func cqKeys(ks []int64) string {
	s := make([]string, len(ks))
	for i, k := range ks {
		s[i] = cqZ(k)
	}
	return "[" + strings.Join(s, "; ") + "]"
}

func cqEntries(es []entry) string {
	s := make([]string, len(es))
	for i, e := range es {
		s[i] = fmt.Sprintf("(%s, %s, %s)", cqZ(e.key), cqZ(e.min), cqZ(e.max))
	}
	return "[" + strings.Join(s, "; ") + "]"
}

func caseKeys(cc *ast.CaseClause) []int64 {
	var ks []int64
	for _, e := range cc.List {
		if v, ok := intOf(e); ok {
			ks = append(ks, v)
		}
	}
	return ks
}

func main() {
	if len(os.Args) < 2 {
		die("usage: apitables <repo-root>")
	}
	root := os.Args[1]
	loadConsts(root)

	// ---- kmsg, by running it
	type kinfo struct {
		key, max, flexReq, flexResp int64
		name                        string
	}
	var kms []kinfo
	for k := int16(0); k <= kmsg.MaxKey; k++ {
		req := kmsg.RequestForKey(k)
		if req == nil {
			continue
		}
		name := reflect.TypeOf(req).Elem().Name()
		keyOfReqType[name] = int64(k)
		threshold := func(isFlex func(v int16) bool) int64 {
			t := int64(-1)
			for v := int16(0); v <= req.MaxVersion()+5; v++ {
				f := isFlex(v)
				if f && t < 0 {
					t = int64(v)
				}
				if !f && t >= 0 {
					die("kmsg flexibility of key %d is not a threshold (flexible at %d, not at %d)", k, t, v)
				}
			}
			return t
		}
		fr := threshold(func(v int16) bool { req.SetVersion(v); return req.IsFlexible() })
		resp := req.ResponseKind()
		fp := threshold(func(v int16) bool { resp.SetVersion(v); return resp.IsFlexible() })
		if resp.Key() != k {
			die("kmsg response key mismatch for %d", k)
		}
		kms = append(kms, kinfo{int64(k), int64(req.MaxVersion()), fr, fp, name})
	}

	var notes []string

	// ---- broker
	bf := parse(filepath.Join(root, "cmd/broker/main.go"))
	brokerAdv := advertised(findFunc(bf, "generateApiVersions"))
	handle := (*ast.FuncDecl)(nil)
	for _, d := range bf.Decls {
		if fd, ok := d.(*ast.FuncDecl); ok && fd.Name.Name == "Handle" && fd.Recv != nil {
			handle = fd
		}
	}
	if handle == nil {
		die("handler.Handle not found")
	}
	var dispatch []int64
	rejected := map[pair]bool{}
	downN, downM := int64(32767), int64(0)
	var ts *ast.TypeSwitchStmt
	ast.Inspect(handle.Body, func(n ast.Node) bool {
		if t, ok := n.(*ast.TypeSwitchStmt); ok && ts == nil {
			ts = t
		}
		return ts == nil
	})
	if ts == nil {
		die("no type switch in handler.Handle")
	}
	for _, st := range ts.Body.List {
		cc := st.(*ast.CaseClause)
		for _, e := range cc.List {
			name, ok := kmsgTypeName(e)
			if !ok {
				continue
			}
			key, ok := keyOfReqType[name]
			if !ok {
				die("case *kmsg.%s: not a kmsg request type", name)
			}
			dispatch = append(dispatch, key)
			body := &ast.BlockStmt{List: cc.Body}
			guardsIn(body, key, "Handle case "+name, rejected, &notes)
			if name == "ApiVersionsRequest" {
				ast.Inspect(body, func(n ast.Node) bool {
					is, ok := n.(*ast.IfStmt)
					if !ok {
						return true
					}
					be, ok := is.Cond.(*ast.BinaryExpr)
					if !ok || be.Op != token.GTR {
						return true
					}
					if id, ok := be.X.(*ast.Ident); !ok || id.Name != "responseVersion" {
						return true
					}
					n0, ok := intOf(be.Y)
					if !ok {
						return true
					}
					for _, s := range is.Body.List {
						if as, ok := s.(*ast.AssignStmt); ok && len(as.Lhs) == 1 {
							if id, ok := as.Lhs[0].(*ast.Ident); ok && id.Name == "responseVersion" {
								if m, ok := intOf(as.Rhs[0]); ok {
									downN, downM = n0, m
								}
							}
						}
					}
					return true
				})
			}
		}
	}
	// guards in every function that takes a *kmsg.XRequest
	for _, d := range bf.Decls {
		fd, ok := d.(*ast.FuncDecl)
		if !ok || fd.Body == nil || fd.Name.Name == "Handle" {
			continue
		}
		for _, p := range fd.Type.Params.List {
			if name, ok := kmsgTypeName(p.Type); ok {
				if key, ok := keyOfReqType[name]; ok {
					guardsIn(fd.Body, key, fd.Name.Name, rejected, &notes)
				}
			}
		}
	}

	// ---- proxy
	pf := parse(filepath.Join(root, "cmd/proxy/main.go"))
	proxyAdv := advertised(findFunc(pf, "generateProxyApiVersions"))
	var proxyLocal, proxyNotReady []int64
	var hc, nr *ast.FuncDecl
	for _, d := range pf.Decls {
		if fd, ok := d.(*ast.FuncDecl); ok && fd.Recv != nil {
			switch fd.Name.Name {
			case "handleConnection":
				hc = fd
			case "buildNotReadyResponse":
				nr = fd
			}
		}
	}
	if hc == nil || nr == nil {
		die("proxy handleConnection/buildNotReadyResponse not found")
	}
	isKeySwitch := func(s *ast.SwitchStmt) bool {
		se, ok := s.Tag.(*ast.SelectorExpr)
		return ok && se.Sel.Name == "APIKey"
	}
	ast.Inspect(hc.Body, func(n ast.Node) bool {
		switch x := n.(type) {
		case *ast.IfStmt: // if header.APIKey == protocol.APIKeyApiVersion
			if be, ok := x.Cond.(*ast.BinaryExpr); ok && be.Op == token.EQL {
				if se, ok := be.X.(*ast.SelectorExpr); ok && se.Sel.Name == "APIKey" {
					if v, ok := intOf(be.Y); ok {
						proxyLocal = append(proxyLocal, v)
					}
				}
			}
		case *ast.SwitchStmt:
			if isKeySwitch(x) {
				for _, st := range x.Body.List {
					proxyLocal = append(proxyLocal, caseKeys(st.(*ast.CaseClause))...)
				}
			}
		}
		return true
	})
	ast.Inspect(nr.Body, func(n ast.Node) bool {
		if x, ok := n.(*ast.SwitchStmt); ok && isKeySwitch(x) {
			for _, st := range x.Body.List {
				proxyNotReady = append(proxyNotReady, caseKeys(st.(*ast.CaseClause))...)
			}
		}
		return true
	})

	// ---- EncodeResponse header rule: flexibleHeader := resp.IsFlexible() [&& resp.Key() != K]
	rf := parse(filepath.Join(root, "pkg/protocol/response.go"))
	er := findFunc(rf, "EncodeResponse")
	if er == nil {
		die("EncodeResponse not found")
	}
	var exempt []int64
	ruleOK := false
	isCall := func(e ast.Expr, method string) bool {
		ce, ok := e.(*ast.CallExpr)
		if !ok {
			return false
		}
		se, ok := ce.Fun.(*ast.SelectorExpr)
		return ok && se.Sel.Name == method
	}
	var conj func(e ast.Expr) bool
	sawFlex := false
	conj = func(e ast.Expr) bool {
		switch x := e.(type) {
		case *ast.ParenExpr:
			return conj(x.X)
		case *ast.BinaryExpr:
			if x.Op == token.LAND {
				return conj(x.X) && conj(x.Y)
			}
			if x.Op == token.NEQ && isCall(x.X, "Key") {
				if v, ok := intOf(x.Y); ok {
					exempt = append(exempt, v)
					return true
				}
			}
		case *ast.CallExpr:
			if isCall(x, "IsFlexible") {
				sawFlex = true
				return true
			}
		}
		return false
	}
	headerArgIsRule := false
	ast.Inspect(er.Body, func(n ast.Node) bool {
		switch x := n.(type) {
		case *ast.AssignStmt:
			if len(x.Lhs) == 1 && len(x.Rhs) == 1 {
				if id, ok := x.Lhs[0].(*ast.Ident); ok && id.Name == "flexibleHeader" {
					ruleOK = conj(x.Rhs[0]) && sawFlex
				}
			}
		case *ast.CallExpr:
			if id, ok := x.Fun.(*ast.Ident); ok && id.Name == "encodeResponseHeader" && len(x.Args) == 2 {
				if a, ok := x.Args[1].(*ast.Ident); ok && a.Name == "flexibleHeader" {
					headerArgIsRule = true
				}
			}
		}
		return true
	})
	if !ruleOK || !headerArgIsRule {
		die("EncodeResponse: header rule not of the form flexibleHeader := resp.IsFlexible() && resp.Key() != K ...; encodeResponseHeader(_, flexibleHeader)")
	}

	// ---- output
	sort.Slice(dispatch, func(i, j int) bool { return dispatch[i] < dispatch[j] })
	var rej []pair
	for p := range rejected {
		rej = append(rej, p)
	}
	sort.Slice(rej, func(i, j int) bool {
		if rej[i].key != rej[j].key {
			return rej[i].key < rej[j].key
		}
		return rej[i].ver < rej[j].ver
	})
	uniq := func(ks []int64) []int64 {
		sort.Slice(ks, func(i, j int) bool { return ks[i] < ks[j] })
		var out []int64
		for i, k := range ks {
			if i == 0 || k != ks[i-1] {
				out = append(out, k)
			}
		}
		return out
	}
	var b strings.Builder
	b.WriteString("(* GENERATED by tools/apitables on every `bin/check C10|C11` from the repository's\n   working tree (go/ast on cmd/broker/main.go, cmd/proxy/main.go, pkg/protocol/response.go;\n   kmsg thresholds obtained by running kmsg).  Do not edit. *)\n")
	b.WriteString("From KS Require Import lib.Base.\nOpen Scope Z_scope.\n\n")
	b.WriteString("(* generateApiVersions: (key, min, max); (-1,-1) = listed as unsupported *)\n")
	b.WriteString("Definition broker_advertised : list (Z * Z * Z) :=\n  " + cqEntries(brokerAdv) + ".\n\n")
	b.WriteString("(* generateProxyApiVersions *)\n")
	b.WriteString("Definition proxy_advertised : list (Z * Z * Z) :=\n  " + cqEntries(proxyAdv) + ".\n\n")
	b.WriteString("(* API keys whose kmsg request type has a case in handler.Handle's type switch *)\n")
	b.WriteString("Definition broker_dispatch : list Z := " + cqKeys(dispatch) + ".\n\n")
	b.WriteString(fmt.Sprintf("(* version guards `if <cond on header.APIVersion> { return nil, err }`, evaluated for versions 0..%d: rejected (key, version) pairs *)\n", window))
	b.WriteString(fmt.Sprintf("Definition guard_window : Z := %d.\n", window))
	rs := make([]string, len(rej))
	for i, p := range rej {
		rs[i] = fmt.Sprintf("(%s, %s)", cqZ(p.key), cqZ(p.ver))
	}
	b.WriteString("Definition broker_rejected : list (Z * Z) :=\n  [" + strings.Join(rs, "; ") + "].\n\n")
	b.WriteString("(* ApiVersions: request version > fst is answered at version snd with UNSUPPORTED_VERSION *)\n")
	b.WriteString(fmt.Sprintf("Definition apiversions_downgrade : Z * Z := (%s, %s).\n\n", cqZ(downN), cqZ(downM)))
	b.WriteString("(* EncodeResponse: flexibleHeader := resp.IsFlexible() && resp.Key() != k for k in *)\n")
	b.WriteString("Definition encode_header_exempt : list Z := " + cqKeys(uniq(exempt)) + ".\n\n")
	b.WriteString("(* proxy: keys handleConnection answers or routes itself; keys buildNotReadyResponse has a case for *)\n")
	b.WriteString("Definition proxy_local : list Z := " + cqKeys(uniq(proxyLocal)) + ".\n")
	b.WriteString("Definition proxy_notready : list Z := " + cqKeys(uniq(proxyNotReady)) + ".\n\n")
	b.WriteString("(* kmsg (run): (key, MaxVersion, first flexible request version or -1, first flexible response version or -1) *)\n")
	ks := make([]string, len(kms))
	for i, k := range kms {
		ks[i] = fmt.Sprintf("(%s, %s, %s, %s) (* %s *)", cqZ(k.key), cqZ(k.max), cqZ(k.flexReq), cqZ(k.flexResp), k.name)
	}
	b.WriteString("Definition kmsg_requests : list (Z * Z * Z * Z) :=\n  [ " + strings.Join(ks, ";\n    ") + " ].\n")
	for _, n := range notes {
		b.WriteString("(* note: " + n + " *)\n")
	}
	fmt.Print(b.String())
}
