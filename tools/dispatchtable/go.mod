module verif/dispatchtable

go 1.23
