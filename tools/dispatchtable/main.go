// dispatchtable: go/ast translator for properties C24/C25.
//
// Reads $VERIF_REPO/cmd/broker/main.go and, for every `case *kmsg.XRequest` of
// handler.Handle, emits the ordered list of guard calls that dominate the first
// effectful call of that case (following h.handleX / h.unauthorizedX methods, the
// closures given to h.withAdminMetrics and immediately invoked func literals):
//
//	(kind, [(guard, mode); ...], first effect)
//
// guard  = allowTopic[<name expr>]:ActionProduce | allowTopics[<expr>]:ActionFetch | allowGroup[<expr>]:ActionGroupWrite |
//
//	allowAdmin | allowAdminAPIs | etcdAvailable | acquireGroupLease | acquirePartitionLeases |
//	leaseErrors | s3Health.State!=S3StateHealthy | s3Health.State:S3StateDegraded|S3StateUnavailable
//
// mode   = reject (deny branch returns: dominates everything after it)
//
//	skip   (deny branch `continue`s inside the loop that also contains the effect: per item)
//	filter (deny branch `continue`s / else-branch, in a loop that ends before the effect; the
//	        loop's pass path appends the item to a slice and ONLY that slice reaches the effect)
//	flag   (the guard's verdict is stored in a variable that is passed on to the effectful call, e.g.
//	        mayCreate := h.autoCreateTopics && h.allowTopic(principal, topicName, acl.ActionProduce))
//	pre    (an un-guarded preparatory step recorded for visibility: acquirePartitionLeases;
//	        resolved[v]: v is assigned the name a topic ID resolves to, before v is authorised)
//
// effect = first call, in source order on the pass path, out of: h.ensureTopic, h.getPartitionLog, h.partitionLog,
//
//	h.coordinator.*, h.store.{CreateTopic,DeleteTopic,UpdateTopicConfig,CreatePartitions,
//	UpdateOffsets,CommitConsumerOffset,FetchTopicConfig,NextOffset}, plog.{AppendBatch,Read,Flush},
//	h.waitForFetchData; "none" when the case has none. An effect inside a deny branch or fed by
//	an unfiltered list is emitted as "UNGUARDED:<call>".
//
// Output: coq/theories/gen/DispatchTable.v (written only when the content changes).
package main

import (
	"bytes"
	"fmt"
	"go/ast"
	"go/parser"
	"go/token"
	"os"
	"path/filepath"
	"sort"
	"strings"
)

type guard struct{ name, mode string }

type result struct {
	guards []guard
	effect string
}

type site struct {
	call   string
	guards []guard
}

type analyzer struct {
	methods map[string]*ast.FuncDecl
	depth   int
	// creation analysis: reach[m] = handler method m can (transitively) reach topic creation
	// (h.ensureTopic / h.store.CreateTopic); collect != nil switches the walk to "record every
	// creation-reaching call site with the guards accumulated at that point, and keep walking"
	reach   map[string]bool
	collect *[]site
}

// creationCall names a call that can reach topic creation ("" otherwise). A callee with a bool
// parameter called autoCreate gets the argument expression in brackets: h.partitionLog[mayCreate].
func (a *analyzer) creationCall(c *ast.CallExpr) string {
	p := selPath(c.Fun)
	if p == "h.store.CreateTopic" {
		return p
	}
	if !strings.HasPrefix(p, "h.") || strings.Count(p, ".") != 1 {
		return ""
	}
	name := strings.TrimPrefix(p, "h.")
	if !a.reach[name] || strings.HasPrefix(name, "handle") || strings.HasPrefix(name, "unauthorized") {
		return ""
	}
	if fd := a.methods[name]; fd != nil {
		idx := 0
		for _, f := range fd.Type.Params.List {
			for _, nm := range f.Names {
				if nm.Name == "autoCreate" && idx < len(c.Args) {
					return p + "[" + selPath(c.Args[idx]) + "]"
				}
				idx++
			}
			if len(f.Names) == 0 {
				idx++
			}
		}
	}
	return p
}

func (a *analyzer) computeReach() {
	a.reach = map[string]bool{}
	for changed := true; changed; {
		changed = false
		for name, fd := range a.methods {
			if a.reach[name] {
				continue
			}
			ast.Inspect(fd.Body, func(n ast.Node) bool {
				if c, ok := n.(*ast.CallExpr); ok {
					p := selPath(c.Fun)
					if p == "h.store.CreateTopic" || (strings.HasPrefix(p, "h.") && strings.Count(p, ".") == 1 && a.reach[strings.TrimPrefix(p, "h.")]) {
						a.reach[name] = true
						changed = true
						return false
					}
				}
				return true
			})
		}
	}
}

var storeEffects = map[string]bool{"CreateTopic": true, "DeleteTopic": true, "UpdateTopicConfig": true, "CreatePartitions": true,
	"UpdateOffsets": true, "CommitConsumerOffset": true, "FetchTopicConfig": true, "NextOffset": true}
var plogEffects = map[string]bool{"AppendBatch": true, "Read": true, "Flush": true}

func selPath(e ast.Expr) string {
	switch x := e.(type) {
	case *ast.Ident:
		return x.Name
	case *ast.SelectorExpr:
		return selPath(x.X) + "." + x.Sel.Name
	case *ast.CallExpr:
		return selPath(x.Fun) + "()"
	case *ast.BasicLit:
		return x.Value
	}
	return "?"
}

func effectName(c *ast.CallExpr) string {
	p := selPath(c.Fun)
	switch {
	case p == "h.ensureTopic" || p == "h.getPartitionLog" || p == "h.partitionLog" || p == "h.waitForFetchData":
		return p
	case strings.HasPrefix(p, "h.coordinator."):
		return p
	case strings.HasPrefix(p, "h.store.") && storeEffects[strings.TrimPrefix(p, "h.store.")]:
		return p
	case strings.HasPrefix(p, "plog.") && plogEffects[strings.TrimPrefix(p, "plog.")]:
		return p
	}
	return ""
}

// guardOfCall: h.allowTopic(principal, x, acl.ActionProduce) -> "allowTopic:ActionProduce"
func guardOfCall(c *ast.CallExpr) string {
	p := selPath(c.Fun)
	switch p {
	case "h.allowTopic", "h.allowTopics", "h.allowGroup", "h.allowGroups", "h.allowCluster":
		act := "?"
		if n := len(c.Args); n > 0 {
			act = strings.TrimPrefix(selPath(c.Args[n-1]), "acl.")
		}
		// the expression whose value is authorised (2nd argument): it matters WHICH name is
		// checked, e.g. handleFetch must pass the resolved topicName, not the wire field topic.Topic
		arg := ""
		if len(c.Args) >= 3 {
			arg = "[" + selPath(c.Args[1]) + "]"
		}
		return strings.TrimPrefix(p, "h.") + arg + ":" + act
	case "h.allowAdmin":
		return "allowAdmin"
	case "h.etcdAvailable":
		return "etcdAvailable"
	}
	return ""
}

func terminates(b *ast.BlockStmt) string {
	if b == nil || len(b.List) == 0 {
		return ""
	}
	switch s := b.List[len(b.List)-1].(type) {
	case *ast.ReturnStmt:
		return "reject"
	case *ast.BranchStmt:
		if s.Tok == token.CONTINUE {
			return "skip"
		}
	}
	return ""
}

// condGuard recognises the guard forms of an if statement. neg reports that the BODY is the deny branch.
func condGuard(s *ast.IfStmt) (name string, neg bool) {
	cond := s.Cond
	if u, ok := cond.(*ast.UnaryExpr); ok && u.Op == token.NOT {
		if c, ok := u.X.(*ast.CallExpr); ok {
			if g := guardOfCall(c); g != "" {
				return g, true
			}
		}
		if selPath(u.X) == "h.allowAdminAPIs" {
			return "allowAdminAPIs", true
		}
	}
	if c, ok := cond.(*ast.CallExpr); ok {
		if g := guardOfCall(c); g != "" {
			return g, false
		}
	}
	if b, ok := cond.(*ast.BinaryExpr); ok {
		// errCode := h.acquireGroupLease(...); errCode != 0
		if as, ok := s.Init.(*ast.AssignStmt); ok && len(as.Rhs) == 1 {
			if c, ok := as.Rhs[0].(*ast.CallExpr); ok && selPath(c.Fun) == "h.acquireGroupLease" && b.Op == token.NEQ {
				return "acquireGroupLease", true
			}
		}
		// h.s3Health.State() != broker.S3StateHealthy
		if c, ok := b.X.(*ast.CallExpr); ok && selPath(c.Fun) == "h.s3Health.State" && b.Op == token.NEQ {
			return "s3Health.State!=" + strings.TrimPrefix(selPath(b.Y), "broker."), true
		}
	}
	// leaseErr, hasErr := leaseErrors[...]; hasErr
	if id, ok := cond.(*ast.Ident); ok {
		if as, ok := s.Init.(*ast.AssignStmt); ok && len(as.Lhs) == 2 && len(as.Rhs) == 1 {
			if ix, ok := as.Rhs[0].(*ast.IndexExpr); ok && selPath(ix.X) == "leaseErrors" && selPath(as.Lhs[1]) == id.Name {
				return "leaseErrors", true
			}
		}
	}
	return "", false
}

type walkCtx struct {
	guards   []guard
	inDeny   bool
	filtered map[string]bool // slice variables that hold only items that passed the loop's guards
}

func (c *walkCtx) clone() *walkCtx {
	n := &walkCtx{guards: append([]guard(nil), c.guards...), inDeny: c.inDeny, filtered: map[string]bool{}}
	for k, v := range c.filtered {
		n.filtered[k] = v
	}
	return n
}

// exprs scans an expression/statement for calls in source order; returns an effect if one is reached.
func (a *analyzer) scanCalls(n ast.Node, ctx *walkCtx) *result {
	var res *result
	ast.Inspect(n, func(x ast.Node) bool {
		if res != nil {
			return false
		}
		switch c := x.(type) {
		case *ast.FuncLit:
			return false // only analysed when invoked (below)
		case *ast.CallExpr:
			if a.collect != nil {
				if cc := a.creationCall(c); cc != "" {
					if ctx.inDeny {
						cc = "UNGUARDED:" + cc
					}
					*a.collect = append(*a.collect, site{cc, append([]guard(nil), ctx.guards...)})
					return true
				}
			}
			// arguments first (source order of evaluation for nested calls is close enough here)
			if e := effectName(c); e != "" && a.collect == nil {
				if ctx.inDeny {
					e = "UNGUARDED:" + e
				}
				res = &result{guards: ctx.guards, effect: e}
				return false
			}
			p := selPath(c.Fun)
			if g := guardOfCall(c); g != "" {
				// a guard whose verdict is stored (not branched on): e.g. mayCreate := ... allowTopic(.., ActionProduce)
				ctx.guards = append(ctx.guards, guard{g, "flag"})
			}
			if p == "h.acquirePartitionLeases" {
				ctx.guards = append(ctx.guards, guard{"acquirePartitionLeases", "pre"})
			}
			if p == "h.withAdminMetrics" && len(c.Args) == 2 {
				if fl, ok := c.Args[1].(*ast.FuncLit); ok {
					res = a.walkBlock(fl.Body.List, ctx)
					return false
				}
			}
			if fl, ok := c.Fun.(*ast.FuncLit); ok { // func() {...}()
				if r := a.walkBlock(fl.Body.List, ctx); r != nil {
					res = r
				}
				return false
			}
			if strings.HasPrefix(p, "h.handle") || strings.HasPrefix(p, "h.unauthorized") {
				if fd := a.methods[strings.TrimPrefix(p, "h.")]; fd != nil && a.depth < 6 {
					a.depth++
					r := a.walkBlock(fd.Body.List, ctx)
					a.depth--
					if r != nil {
						res = r
					}
					return false
				}
			}
		}
		return true
	})
	return res
}

func (a *analyzer) walkBlock(stmts []ast.Stmt, ctx *walkCtx) *result {
	for _, st := range stmts {
		if r := a.walkStmt(st, ctx); r != nil {
			return r
		}
	}
	return nil
}

// appendTarget: x = append(x, item) -> "x"
func appendTarget(st ast.Stmt) string {
	as, ok := st.(*ast.AssignStmt)
	if !ok || len(as.Lhs) != 1 || len(as.Rhs) != 1 {
		return ""
	}
	c, ok := as.Rhs[0].(*ast.CallExpr)
	if !ok || selPath(c.Fun) != "append" || len(c.Args) < 2 {
		return ""
	}
	if selPath(as.Lhs[0]) == selPath(c.Args[0]) {
		return selPath(as.Lhs[0])
	}
	return ""
}

func (a *analyzer) walkLoop(body *ast.BlockStmt, ctx *walkCtx) *result {
	before := len(ctx.guards)
	if r := a.walkBlock(body.List, ctx); r != nil {
		return r
	}
	// the loop ended without reaching an effect: its skip guards filtered the items that the
	// pass path collected into a slice
	target := ""
	if n := len(body.List); n > 0 {
		target = appendTarget(body.List[n-1])
	}
	for i := before; i < len(ctx.guards); i++ {
		if ctx.guards[i].mode == "skip" {
			if target != "" {
				ctx.guards[i].mode = "filter"
				ctx.filtered[target] = true
			} else {
				ctx.guards[i].mode = "skip-noflow"
			}
		}
	}
	return nil
}

func (a *analyzer) walkStmt(st ast.Stmt, ctx *walkCtx) *result {
	switch s := st.(type) {
	case *ast.IfStmt:
		if g, neg := condGuard(s); g != "" {
			if neg {
				mode := terminates(s.Body)
				if mode != "" {
					d := ctx.clone()
					d.inDeny = true
					if r := a.walkBlock(s.Body.List, d); r != nil {
						return r
					}
					ctx.guards = append(ctx.guards, guard{g, mode})
					return nil
				}
				// if !G { fill errors } else { pass path }
				d := ctx.clone()
				d.inDeny = true
				if r := a.walkBlock(s.Body.List, d); r != nil {
					return r
				}
				if s.Else != nil {
					ctx.guards = append(ctx.guards, guard{g, "reject"})
					if eb, ok := s.Else.(*ast.BlockStmt); ok {
						return a.walkBlock(eb.List, ctx)
					}
					return a.walkStmt(s.Else.(ast.Stmt), ctx)
				}
				return nil
			}
			// if G { x = append(x, item) } else { deny }
			if t := func() string {
				if n := len(s.Body.List); n > 0 {
					return appendTarget(s.Body.List[n-1])
				}
				return ""
			}(); t != "" {
				ctx.guards = append(ctx.guards, guard{g, "filter"})
				ctx.filtered[t] = true
				if eb, ok := s.Else.(*ast.BlockStmt); ok {
					d := ctx.clone()
					d.inDeny = true
					if r := a.walkBlock(eb.List, d); r != nil {
						return r
					}
				}
				return nil
			}
		}
		// `if resolved, ok := idToName[id]; ok { topicName = resolved }`: the variable later passed
		// to the guard holds the name the topic ID resolves to -- recorded as resolved[<var>]/pre
		if as, ok := s.Init.(*ast.AssignStmt); ok && len(as.Lhs) == 2 && len(as.Rhs) == 1 {
			if ix, ok := as.Rhs[0].(*ast.IndexExpr); ok && strings.HasSuffix(selPath(ix.X), "ToName") {
				src := selPath(as.Lhs[0])
				for _, b := range s.Body.List {
					if a2, ok := b.(*ast.AssignStmt); ok && len(a2.Lhs) == 1 && len(a2.Rhs) == 1 && selPath(a2.Rhs[0]) == src && a2.Tok == token.ASSIGN {
						ctx.guards = append(ctx.guards, guard{"resolved[" + selPath(a2.Lhs[0]) + "]", "pre"})
					}
				}
			}
		}
		// not a guard: condition and both branches are ordinary code
		if s.Init != nil {
			if r := a.walkStmt(s.Init, ctx); r != nil {
				return r
			}
		}
		if r := a.scanCalls(s.Cond, ctx); r != nil {
			return r
		}
		if r := a.walkBlock(s.Body.List, ctx); r != nil {
			return r
		}
		switch e := s.Else.(type) {
		case *ast.BlockStmt:
			return a.walkBlock(e.List, ctx)
		case *ast.IfStmt:
			return a.walkStmt(e, ctx)
		}
		return nil
	case *ast.ForStmt:
		return a.walkLoop(s.Body, ctx)
	case *ast.RangeStmt:
		return a.walkLoop(s.Body, ctx)
	case *ast.SwitchStmt:
		if c, ok := s.Tag.(*ast.CallExpr); ok && selPath(c.Fun) == "h.s3Health.State" {
			for _, cl := range s.Body.List {
				cc := cl.(*ast.CaseClause)
				if len(cc.List) == 0 {
					continue
				}
				var names []string
				for _, e := range cc.List {
					names = append(names, strings.TrimPrefix(selPath(e), "broker."))
				}
				body := &ast.BlockStmt{List: cc.Body}
				if mode := terminates(body); mode != "" {
					d := ctx.clone()
					d.inDeny = true
					if r := a.walkBlock(cc.Body, d); r != nil {
						return r
					}
					ctx.guards = append(ctx.guards, guard{"s3Health.State:" + strings.Join(names, "|"), mode})
				}
			}
			return nil
		}
		if s.Init != nil {
			if r := a.walkStmt(s.Init, ctx); r != nil {
				return r
			}
		}
		if s.Tag != nil {
			if r := a.scanCalls(s.Tag, ctx); r != nil {
				return r
			}
		}
		for _, cl := range s.Body.List {
			cc := cl.(*ast.CaseClause)
			d := ctx.clone()
			if r := a.walkBlock(cc.Body, d); r != nil {
				return r
			}
		}
		return nil
	case *ast.BlockStmt:
		return a.walkBlock(s.List, ctx)
	case *ast.DeferStmt, *ast.BranchStmt, *ast.EmptyStmt:
		return nil
	case *ast.AssignStmt:
		// v := ... h.allowTopic(...) ... : a stored verdict is recorded as "v=<guard>"/flag
		before := len(ctx.guards)
		r := a.scanCalls(s, ctx)
		if len(s.Lhs) == 1 {
			for i := before; i < len(ctx.guards); i++ {
				if ctx.guards[i].mode == "flag" {
					ctx.guards[i].name = selPath(s.Lhs[0]) + "=" + ctx.guards[i].name
				}
			}
		}
		if r != nil {
			return a.checkFlow(r, s, ctx)
		}
		return nil
	default:
		r := a.scanCalls(st, ctx)
		if r != nil {
			return a.checkFlow(r, st, ctx)
		}
		return nil
	}
}

// checkFlow: when the guards contain a filter, the effect must be reached under `len(X) > 0`-style
// use of a filtered slice: we require that some filtered slice variable is mentioned in the block
// leading to the effect call (recorded by markUse) -- approximated by requiring the effect call's
// enclosing function to assign a filtered slice to a field (`y.Groups = X`) before the call.
func (a *analyzer) checkFlow(r *result, st ast.Stmt, ctx *walkCtx) *result {
	hasFilter := false
	for _, g := range r.guards {
		if g.mode == "filter" {
			hasFilter = true
		}
		if g.mode == "skip-noflow" {
			r.effect = "UNGUARDED:" + r.effect
			return r
		}
	}
	if !hasFilter {
		return r
	}
	if !ctx.flowSeen() {
		r.effect = "UNGUARDED:" + r.effect
	}
	return r
}

func (c *walkCtx) flowSeen() bool { return origFlowSeen(c) }

func main() {
	repo := os.Getenv("VERIF_REPO")
	if repo == "" {
		repo = "/repo"
	}
	src := filepath.Join(repo, "cmd/broker/main.go")
	fset := token.NewFileSet()
	f, err := parser.ParseFile(fset, src, nil, 0)
	if err != nil {
		fmt.Fprintln(os.Stderr, "parse:", err)
		os.Exit(1)
	}
	a := &analyzer{methods: map[string]*ast.FuncDecl{}}
	for _, d := range f.Decls {
		if fd, ok := d.(*ast.FuncDecl); ok && fd.Recv != nil && fd.Body != nil {
			a.methods[fd.Name.Name] = fd
		}
	}
	a.computeReach()
	handle := a.methods["Handle"]
	if handle == nil {
		fmt.Fprintln(os.Stderr, "handler.Handle not found")
		os.Exit(1)
	}
	var ts *ast.TypeSwitchStmt
	ast.Inspect(handle.Body, func(n ast.Node) bool {
		if t, ok := n.(*ast.TypeSwitchStmt); ok && ts == nil {
			ts = t
			return false
		}
		return true
	})
	if ts == nil {
		fmt.Fprintln(os.Stderr, "type switch not found in Handle")
		os.Exit(1)
	}
	// pre-pass: mark the `y.F = X` flow of filtered slices (done lazily inside walk through a
	// wrapper around AssignStmt below)
	type row struct {
		kind  string
		res   result
		sites []site
	}
	var rows []row
	for _, cl := range ts.Body.List {
		cc := cl.(*ast.CaseClause)
		if len(cc.List) == 0 {
			continue // default
		}
		kind := strings.TrimSuffix(strings.TrimPrefix(selPath(cc.List[0].(*ast.StarExpr).X), "kmsg."), "Request")
		ctx := &walkCtx{filtered: map[string]bool{}}
		an := &flowWalker{a: a}
		r := an.walk(cc.Body, ctx)
		if r == nil {
			r = &result{guards: ctx.guards, effect: "none"}
		}
		// second walk of the same case: every creation-reaching call site, not only the first effect
		var sites []site
		a.collect = &sites
		cctx := &walkCtx{filtered: map[string]bool{}}
		(&flowWalker{a: a}).walk(cc.Body, cctx)
		a.collect = nil
		rows = append(rows, row{kind, *r, sites})
	}
	sort.SliceStable(rows, func(i, j int) bool { return rows[i].kind < rows[j].kind })

	var out bytes.Buffer
	out.WriteString("(* GENERATED by tools/dispatchtable from cmd/broker/main.go (handler.Handle) -- do not edit.\n")
	out.WriteString("   One row per `case *kmsg.XRequest`: (kind, guards dominating the first effectful call as\n")
	out.WriteString("   (guard, mode) in source order, first effectful call). See tools/dispatchtable/main.go. *)\n")
	out.WriteString("From KS Require Import lib.Base.\nOpen Scope Z_scope.\n\n")
	out.WriteString("Definition dispatch_table : list (bytes * list (bytes * bytes) * bytes) :=\n  [\n")
	for i, r := range rows {
		gs := make([]string, len(r.res.guards))
		var human []string
		for k, g := range r.res.guards {
			gs[k] = fmt.Sprintf("(%s, %s)", coqStr(g.name), coqStr(g.mode))
			human = append(human, g.name+"/"+g.mode)
		}
		sep := ";"
		if i == len(rows)-1 {
			sep = ""
		}
		fmt.Fprintf(&out, "  (* %s: [%s] -> %s *)\n  (%s, [%s], %s)%s\n", r.kind, strings.Join(human, "; "), r.res.effect, coqStr(r.kind), strings.Join(gs, "; "), coqStr(r.res.effect), sep)
	}
	out.WriteString("  ].\n\n")
	out.WriteString("(* Every call site, anywhere in a dispatch case's handler code, that can reach topic creation\n")
	out.WriteString("   (h.store.CreateTopic, or a handler method that transitively reaches it: ensureTopic,\n")
	out.WriteString("   getPartitionLog, partitionLog[<autoCreate argument>], ...), with the guards accumulated at\n")
	out.WriteString("   that point: (kind, [(call, guards); ...]). *)\n")
	out.WriteString("Definition creation_sites : list (bytes * list (bytes * list (bytes * bytes))) :=\n  [\n")
	for i, r := range rows {
		var ss, human []string
		for _, st := range r.sites {
			gs := make([]string, len(st.guards))
			var hg []string
			for k, g := range st.guards {
				gs[k] = fmt.Sprintf("(%s, %s)", coqStr(g.name), coqStr(g.mode))
				hg = append(hg, g.name+"/"+g.mode)
			}
			ss = append(ss, fmt.Sprintf("(%s, [%s])", coqStr(st.call), strings.Join(gs, "; ")))
			human = append(human, st.call+" under ["+strings.Join(hg, "; ")+"]")
		}
		sep := ";"
		if i == len(rows)-1 {
			sep = ""
		}
		fmt.Fprintf(&out, "  (* %s: %s *)\n  (%s, [%s])%s\n", r.kind, strings.Join(human, " | "), coqStr(r.kind), strings.Join(ss, "; "), sep)
	}
	out.WriteString("  ].\n")
	dst := os.Getenv("VERIF_GEN_OUT")
	if dst == "" {
		dst = filepath.Join("..", "..", "coq", "theories", "gen", "DispatchTable.v")
	}
	if old, err := os.ReadFile(dst); err == nil && bytes.Equal(old, out.Bytes()) {
		return
	}
	_ = os.MkdirAll(filepath.Dir(dst), 0o755)
	if err := os.WriteFile(dst, out.Bytes(), 0o644); err != nil {
		fmt.Fprintln(os.Stderr, "write:", err)
		os.Exit(1)
	}
}

// flowWalker wraps the analyzer so that `y.F = X` with X a filtered slice marks the flow.
type flowWalker struct{ a *analyzer }

func (w *flowWalker) walk(stmts []ast.Stmt, ctx *walkCtx) *result {
	// mark flows anywhere in the case body (including closures): y.F = X where X is later known
	// to be filtered is checked at effect time through ctx.filtered["#flow"]; we record candidate
	// assignments now and resolve them when the effect is found.
	var cands []string
	for _, st := range stmts {
		ast.Inspect(st, func(n ast.Node) bool {
			if as, ok := n.(*ast.AssignStmt); ok && len(as.Lhs) == 1 && len(as.Rhs) == 1 {
				if _, ok := as.Lhs[0].(*ast.SelectorExpr); ok {
					if id, ok := as.Rhs[0].(*ast.Ident); ok {
						cands = append(cands, id.Name)
					}
				}
			}
			return true
		})
	}
	// run the walk; when an effect with filter guards is found, require that a filtered slice was
	// assigned into a request field in this case body
	ctx.filtered["#cands:"+strings.Join(cands, ",")] = true
	return w.a.walkBlock(stmts, ctx)
}

func init() {
	// resolve "#flow" lazily: a filtered slice name appears among the "#cands:" list
	origFlowSeen = func(c *walkCtx) bool {
		for k := range c.filtered {
			if strings.HasPrefix(k, "#cands:") {
				for _, name := range strings.Split(strings.TrimPrefix(k, "#cands:"), ",") {
					if name != "" && c.filtered[name] {
						return true
					}
				}
			}
		}
		return false
	}
}

var origFlowSeen func(c *walkCtx) bool

func coqStr(s string) string {
	if s == "" {
		return "[]"
	}
	parts := make([]string, len(s))
	for i := 0; i < len(s); i++ {
		parts[i] = fmt.Sprint(int(s[i]))
	}
	return "[" + strings.Join(parts, ";") + "]"
}
