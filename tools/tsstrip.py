#!/usr/bin/env python3
"""Minimal TypeScript type stripper for lfs-client-sdk/js/src/envelope.ts (C29).

There is no tsc in the sandbox and node 20 cannot strip types, so the real
envelope.ts is turned into an ES module by deleting ONLY type syntax:

  * `export interface X { ... }` / `interface X { ... }` / `type X = ...;` declarations,
  * parameter type annotations and return type annotations of `function` declarations,
  * `const|let|var name: T =` annotations,
  * ` as T` casts (T = identifier, optionally dotted / with <...> / []),
  * `import type ...` lines.

Everything else (every statement of every function body) is copied byte for byte.
The tool refuses (exit 2) when the result still contains something that looks like
TypeScript, and the caller checks the output with `node --check`.  It is part of the
trusted base of C29.

usage: tsstrip.py in.ts out.mjs
"""
import re
import sys


def strip_blocks(src, start_re):
    """remove declarations starting at start_re and ending at the matching '}'"""
    out, i = [], 0
    for m in re.finditer(start_re, src, re.M):
        if m.start() < i:
            continue
        j = src.index("{", m.end() - 1)
        depth, k = 0, j
        while True:
            c = src[k]
            if c == "{":
                depth += 1
            elif c == "}":
                depth -= 1
                if depth == 0:
                    break
            k += 1
        out.append(src[i:m.start()])
        i = k + 1
        if src[i:i + 1] == "\n":
            i += 1
    out.append(src[i:])
    return "".join(out)


def split_top(s, sep=","):
    parts, depth, cur = [], 0, ""
    for c in s:
        if c in "<([{":
            depth += 1
        elif c in ">)]}":
            depth -= 1
        if c == sep and depth == 0:
            parts.append(cur)
            cur = ""
        else:
            cur += c
    parts.append(cur)
    return parts


def strip_signature(m):
    head, params, tail = m.group(1), m.group(2), m.group(4)
    names = []
    for p in split_top(params):
        p = p.strip()
        if not p:
            continue
        default = ""
        if "=" in p:
            # keep default values: name: T = v  ->  name = v
            left, default = p.split("=", 1)
            default = " = " + default.strip()
            p = left.strip()
        name = p.split(":", 1)[0].strip().rstrip("?")
        names.append(name + default)
    return f"{head}({', '.join(names)}){tail}"


def strip(src):
    src = re.sub(r"^import\s+type\s+.*?;\s*\n", "", src, flags=re.M)
    src = strip_blocks(src, r"^(?:export\s+)?interface\s+\w+[^{]*\{")
    src = re.sub(r"^(?:export\s+)?type\s+\w+\s*=\s*[^;]*;\s*\n", "", src, flags=re.M)
    # function signatures: function name(params): Ret {
    src = re.sub(r"((?:export\s+)?(?:async\s+)?function\s+\w+\s*)\(([^)]*)\)(\s*:\s*[^{]+?)?(\s*\{)", strip_signature, src)
    # local annotations
    src = re.sub(r"\b(const|let|var)\s+(\w+)\s*:\s*[^=;]+=", r"\1 \2 =", src)
    # casts
    src = re.sub(r"\s+as\s+[A-Za-z_][\w.]*(?:<[^>]*>)?(?:\[\])*", "", src)
    return src


def main():
    if len(sys.argv) != 3:
        print(__doc__)
        return 2
    src = open(sys.argv[1], encoding="utf-8").read()
    out = strip(src)
    # sanity: nothing that still looks like a type annotation may be left
    code = re.sub(r"//[^\n]*|/\*.*?\*/|'(?:\\.|[^'\\])*'|\"(?:\\.|[^\"\\])*\"|`(?:\\.|[^`\\])*`", "", out, flags=re.S)
    leftovers = re.findall(r"\binterface\b|\bas\s+[A-Z]\w*|\)\s*:\s*\w+[^;{]*\{|\b(?:const|let|var)\s+\w+\s*:", code)
    if leftovers:
        print("tsstrip: unsupported TypeScript syntax left: %r" % leftovers[:3], file=sys.stderr)
        return 2
    open(sys.argv[2], "w", encoding="utf-8").write(out)
    return 0


if __name__ == "__main__":
    sys.exit(main())
