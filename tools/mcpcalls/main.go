// mcpcalls: lists every metadata.Store method that each ops-MCP tool handler of
// internal/mcpserver can reach, as a Coq table (coq/theories/gen/McpCalls.v).
//
// It parses internal/mcpserver (non-test files) with go/ast, reads the method set of
// the metadata.Store / ConsumerOffsetLookup interfaces from pkg/metadata/store.go,
// resolves the tools registered in registerTools (mcp.AddTool(server, &mcp.Tool{Name:
// X}, someHandler(opts))) and walks each handler (closures included) transitively
// through the package-level functions it calls. A call is recorded when its selector
// is a Store method name (whatever the receiver is called) or when the receiver is
// `store` / `opts.Store`; a method the model does not know, or the store value being
// handed to a function outside the package, is recorded as M_Unknown (which is not
// read-only, so C40_calls_readonly stops checking). The output file is rewritten only
// when its content changes.
package main

import (
	"bytes"
	"fmt"
	"go/ast"
	"go/parser"
	"go/token"
	"os"
	"path/filepath"
	"sort"
	"strconv"
	"strings"
)

var modelMethods = map[string]bool{
	"Metadata": true, "NextOffset": true, "UpdateOffsets": true, "CommitConsumerOffset": true,
	"FetchConsumerOffset": true, "ListConsumerOffsets": true, "PutConsumerGroup": true,
	"FetchConsumerGroup": true, "ListConsumerGroups": true, "DeleteConsumerGroup": true,
	"FetchTopicConfig": true, "UpdateTopicConfig": true, "CreatePartitions": true,
	"CreateTopic": true, "DeleteTopic": true, "LookupConsumerOffset": true,
}

func die(f string, a ...any) {
	fmt.Fprintf(os.Stderr, "mcpcalls: "+f+"\n", a...)
	os.Exit(1)
}

func main() {
	repo := os.Getenv("VERIF_REPO")
	if repo == "" {
		repo = "/repo"
	}
	verif := os.Getenv("VERIF_DIR")
	if verif == "" {
		exe, _ := os.Getwd()
		verif = filepath.Clean(filepath.Join(exe, "..", ".."))
	}
	if len(os.Args) > 1 {
		verif = os.Args[1]
	}
	fset := token.NewFileSet()

	// ---- Store interface method names
	storeMethods := map[string]bool{}
	sf, err := parser.ParseFile(fset, filepath.Join(repo, "pkg/metadata/store.go"), nil, 0)
	if err != nil {
		die("parse store.go: %v", err)
	}
	ast.Inspect(sf, func(n ast.Node) bool {
		ts, ok := n.(*ast.TypeSpec)
		if !ok {
			return true
		}
		it, ok := ts.Type.(*ast.InterfaceType)
		if !ok || (ts.Name.Name != "Store" && ts.Name.Name != "ConsumerOffsetLookup") {
			return true
		}
		for _, m := range it.Methods.List {
			for _, nm := range m.Names {
				storeMethods[nm.Name] = true
			}
		}
		return true
	})
	if len(storeMethods) == 0 {
		die("metadata.Store interface not found")
	}

	// ---- the mcpserver package
	dir := filepath.Join(repo, "internal/mcpserver")
	pkgs, err := parser.ParseDir(fset, dir, func(fi os.FileInfo) bool { return !strings.HasSuffix(fi.Name(), "_test.go") }, 0)
	if err != nil {
		die("parse %s: %v", dir, err)
	}
	funcs := map[string]*ast.FuncDecl{}
	consts := map[string]string{}
	for _, p := range pkgs {
		for _, f := range p.Files {
			for _, d := range f.Decls {
				switch d := d.(type) {
				case *ast.FuncDecl:
					if d.Recv == nil {
						funcs[d.Name.Name] = d
					} else {
						funcs["(method)"+d.Name.Name] = d
					}
				case *ast.GenDecl:
					if d.Tok != token.CONST {
						continue
					}
					for _, s := range d.Specs {
						vs := s.(*ast.ValueSpec)
						for i, nm := range vs.Names {
							if i < len(vs.Values) {
								if bl, ok := vs.Values[i].(*ast.BasicLit); ok && bl.Kind == token.STRING {
									v, _ := strconv.Unquote(bl.Value)
									consts[nm.Name] = v
								}
							}
						}
					}
				}
			}
		}
	}
	reg := funcs["registerTools"]
	if reg == nil {
		die("registerTools not found")
	}

	isStoreExpr := func(e ast.Expr) bool {
		switch e := e.(type) {
		case *ast.Ident:
			return e.Name == "store"
		case *ast.SelectorExpr:
			return e.Sel.Name == "Store"
		}
		return false
	}

	var collect func(body ast.Node, out map[string]bool, seen map[string]bool)
	collect = func(body ast.Node, out map[string]bool, seen map[string]bool) {
		ast.Inspect(body, func(n ast.Node) bool {
			call, ok := n.(*ast.CallExpr)
			if !ok {
				return true
			}
			switch fn := call.Fun.(type) {
			case *ast.SelectorExpr:
				name := fn.Sel.Name
				if storeMethods[name] || isStoreExpr(fn.X) {
					if modelMethods[name] && storeMethods[name] {
						out["M_"+name] = true
					} else {
						out["M_Unknown"] = true
					}
				} else if id, ok := fn.X.(*ast.Ident); ok && id.Obj == nil {
					// pkg.Func(...): the store handed to another package is out of sight
					for _, a := range call.Args {
						if isStoreExpr(a) {
							out["M_Unknown"] = true
						}
					}
				}
				if m := funcs["(method)"+name]; m != nil && !seen["(method)"+name] {
					seen["(method)"+name] = true
					collect(m.Body, out, seen)
				}
			case *ast.Ident:
				if d := funcs[fn.Name]; d != nil {
					if !seen[fn.Name] {
						seen[fn.Name] = true
						collect(d.Body, out, seen)
					}
				}
			}
			return true
		})
	}

	type tool struct {
		name    string
		methods []string
	}
	var tools []tool
	ast.Inspect(reg.Body, func(n ast.Node) bool {
		call, ok := n.(*ast.CallExpr)
		if !ok {
			return true
		}
		sel, ok := call.Fun.(*ast.SelectorExpr)
		if !ok || sel.Sel.Name != "AddTool" || len(call.Args) != 3 {
			return true
		}
		name := ""
		ast.Inspect(call.Args[1], func(m ast.Node) bool {
			kv, ok := m.(*ast.KeyValueExpr)
			if !ok {
				return true
			}
			if k, ok := kv.Key.(*ast.Ident); ok && k.Name == "Name" {
				switch v := kv.Value.(type) {
				case *ast.BasicLit:
					name, _ = strconv.Unquote(v.Value)
				case *ast.Ident:
					name = consts[v.Name]
				}
			}
			return true
		})
		if name == "" {
			die("tool name not resolved at %s", fset.Position(call.Pos()))
		}
		out := map[string]bool{}
		seen := map[string]bool{}
		collect(call.Args[2], out, seen) // the handler constructor call itself
		var ms []string
		for m := range out {
			ms = append(ms, m)
		}
		sort.Strings(ms)
		tools = append(tools, tool{name, ms})
		return false
	})
	if len(tools) == 0 {
		die("no mcp.AddTool registrations found")
	}
	sort.Slice(tools, func(i, j int) bool { return tools[i].name < tools[j].name })

	var b bytes.Buffer
	b.WriteString("(* GENERATED on every run by tools/mcpcalls (go/ast) from internal/mcpserver/*.go and the\n")
	b.WriteString("   metadata.Store interface of pkg/metadata/store.go -- do not edit.\n")
	b.WriteString("   For every registered ops-MCP tool: the store methods its handler can reach. *)\n")
	b.WriteString("From Coq Require Import String.\nFrom KS Require Import lib.Base lib.Strings model.MetaStore.\n\n")
	b.WriteString("Definition mcp_calls : list (bytes * list store_method) :=\n  [ ")
	for i, t := range tools {
		if i > 0 {
			b.WriteString(";\n    ")
		}
		fmt.Fprintf(&b, "(lit %s%%string, [%s])", strconv.Quote(t.name), strings.Join(t.methods, "; "))
	}
	b.WriteString(" ].\n\n")
	var names []string
	for m := range storeMethods {
		names = append(names, m)
	}
	sort.Strings(names)
	b.WriteString("(* method set of metadata.Store (+ ConsumerOffsetLookup) as declared now *)\n")
	b.WriteString("Definition store_interface_methods : list store_method :=\n  [")
	for i, m := range names {
		if i > 0 {
			b.WriteString("; ")
		}
		if modelMethods[m] {
			b.WriteString("M_" + m)
		} else {
			b.WriteString("M_Unknown")
		}
	}
	b.WriteString("].\n")

	outPath := filepath.Join(verif, "coq/theories/gen/McpCalls.v")
	old, _ := os.ReadFile(outPath)
	if bytes.Equal(old, b.Bytes()) {
		return
	}
	if err := os.MkdirAll(filepath.Dir(outPath), 0o755); err != nil {
		die("%v", err)
	}
	tmp := outPath + ".tmp"
	if err := os.WriteFile(tmp, b.Bytes(), 0o644); err != nil {
		die("%v", err)
	}
	if err := os.Rename(tmp, outPath); err != nil {
		die("%v", err)
	}
}
