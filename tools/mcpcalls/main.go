// mcpcalls: lists every metadata.Store method that each ops-MCP tool handler of
// internal/mcpserver can reach, as a Coq table (coq/theories/gen/McpCalls.v).
//
// It parses internal/mcpserver (non-test files) with go/ast, reads the method set of
// the metadata.Store / ConsumerOffsetLookup interfaces from pkg/metadata/store.go,
// resolves the tools registered in registerTools (mcp.AddTool(server, &mcp.Tool{Name:
// X}, someHandler(opts))) and walks each handler (closures included) transitively
// through the package-level functions it calls. A call is recorded when its selector
// is a Store method name (whatever the receiver is called) or when the receiver is
// `store` / `opts.Store`; a method the model does not know, or the store value being
// handed to a function outside the package, is recorded as M_Unknown (which is not
// read-only, so C40_calls_readonly stops checking). The output file is rewritten only
// when its content changes.
//
// Second table (mcp_method_writes): for every Store method, the state-writing actions
// reachable from the bodies of EtcdStore.<Method> and InMemoryStore.<Method> in
// pkg/metadata (transitively through methods of the same receiver, s.metadata.<M> and
// package-level functions): etcd client Put / Delete / Txn calls, taking the store's
// write lock (mu.Lock), assignments to / delete() on / ++ of receiver fields. A read
// method that starts writing gets a non-empty entry, and C40_calls_readonly (which
// demands an empty entry for every method a tool can reach) stops checking, naming it.
package main

import (
	"bytes"
	"fmt"
	"go/ast"
	"go/parser"
	"go/token"
	"os"
	"path/filepath"
	"sort"
	"strconv"
	"strings"
)

var modelMethods = map[string]bool{
	"Metadata": true, "NextOffset": true, "UpdateOffsets": true, "CommitConsumerOffset": true,
	"FetchConsumerOffset": true, "ListConsumerOffsets": true, "PutConsumerGroup": true,
	"FetchConsumerGroup": true, "ListConsumerGroups": true, "DeleteConsumerGroup": true,
	"FetchTopicConfig": true, "UpdateTopicConfig": true, "CreatePartitions": true,
	"CreateTopic": true, "DeleteTopic": true, "LookupConsumerOffset": true,
}

func die(f string, a ...any) {
	fmt.Fprintf(os.Stderr, "mcpcalls: "+f+"\n", a...)
	os.Exit(1)
}

func main() {
	repo := os.Getenv("VERIF_REPO")
	if repo == "" {
		repo = "/repo"
	}
	verif := os.Getenv("VERIF_DIR")
	if verif == "" {
		exe, _ := os.Getwd()
		verif = filepath.Clean(filepath.Join(exe, "..", ".."))
	}
	if len(os.Args) > 1 {
		verif = os.Args[1]
	}
	fset := token.NewFileSet()

	// ---- Store interface method names
	storeMethods := map[string]bool{}
	sf, err := parser.ParseFile(fset, filepath.Join(repo, "pkg/metadata/store.go"), nil, 0)
	if err != nil {
		die("parse store.go: %v", err)
	}
	ast.Inspect(sf, func(n ast.Node) bool {
		ts, ok := n.(*ast.TypeSpec)
		if !ok {
			return true
		}
		it, ok := ts.Type.(*ast.InterfaceType)
		if !ok || (ts.Name.Name != "Store" && ts.Name.Name != "ConsumerOffsetLookup") {
			return true
		}
		for _, m := range it.Methods.List {
			for _, nm := range m.Names {
				storeMethods[nm.Name] = true
			}
		}
		return true
	})
	if len(storeMethods) == 0 {
		die("metadata.Store interface not found")
	}

	// ---- the mcpserver package
	dir := filepath.Join(repo, "internal/mcpserver")
	pkgs, err := parser.ParseDir(fset, dir, func(fi os.FileInfo) bool { return !strings.HasSuffix(fi.Name(), "_test.go") }, 0)
	if err != nil {
		die("parse %s: %v", dir, err)
	}
	funcs := map[string]*ast.FuncDecl{}
	consts := map[string]string{}
	for _, p := range pkgs {
		for _, f := range p.Files {
			for _, d := range f.Decls {
				switch d := d.(type) {
				case *ast.FuncDecl:
					if d.Recv == nil {
						funcs[d.Name.Name] = d
					} else {
						funcs["(method)"+d.Name.Name] = d
					}
				case *ast.GenDecl:
					if d.Tok != token.CONST {
						continue
					}
					for _, s := range d.Specs {
						vs := s.(*ast.ValueSpec)
						for i, nm := range vs.Names {
							if i < len(vs.Values) {
								if bl, ok := vs.Values[i].(*ast.BasicLit); ok && bl.Kind == token.STRING {
									v, _ := strconv.Unquote(bl.Value)
									consts[nm.Name] = v
								}
							}
						}
					}
				}
			}
		}
	}
	reg := funcs["registerTools"]
	if reg == nil {
		die("registerTools not found")
	}

	isStoreExpr := func(e ast.Expr) bool {
		switch e := e.(type) {
		case *ast.Ident:
			return e.Name == "store"
		case *ast.SelectorExpr:
			return e.Sel.Name == "Store"
		}
		return false
	}

	var collect func(body ast.Node, out map[string]bool, seen map[string]bool)
	collect = func(body ast.Node, out map[string]bool, seen map[string]bool) {
		ast.Inspect(body, func(n ast.Node) bool {
			call, ok := n.(*ast.CallExpr)
			if !ok {
				return true
			}
			switch fn := call.Fun.(type) {
			case *ast.SelectorExpr:
				name := fn.Sel.Name
				if storeMethods[name] || isStoreExpr(fn.X) {
					if modelMethods[name] && storeMethods[name] {
						out["M_"+name] = true
					} else {
						out["M_Unknown"] = true
					}
				} else if id, ok := fn.X.(*ast.Ident); ok && id.Obj == nil {
					// pkg.Func(...): the store handed to another package is out of sight
					for _, a := range call.Args {
						if isStoreExpr(a) {
							out["M_Unknown"] = true
						}
					}
				}
				if m := funcs["(method)"+name]; m != nil && !seen["(method)"+name] {
					seen["(method)"+name] = true
					collect(m.Body, out, seen)
				}
			case *ast.Ident:
				if d := funcs[fn.Name]; d != nil {
					if !seen[fn.Name] {
						seen[fn.Name] = true
						collect(d.Body, out, seen)
					}
				}
			}
			return true
		})
	}

	type tool struct {
		name    string
		methods []string
	}
	var tools []tool
	ast.Inspect(reg.Body, func(n ast.Node) bool {
		call, ok := n.(*ast.CallExpr)
		if !ok {
			return true
		}
		sel, ok := call.Fun.(*ast.SelectorExpr)
		if !ok || sel.Sel.Name != "AddTool" || len(call.Args) != 3 {
			return true
		}
		name := ""
		ast.Inspect(call.Args[1], func(m ast.Node) bool {
			kv, ok := m.(*ast.KeyValueExpr)
			if !ok {
				return true
			}
			if k, ok := kv.Key.(*ast.Ident); ok && k.Name == "Name" {
				switch v := kv.Value.(type) {
				case *ast.BasicLit:
					name, _ = strconv.Unquote(v.Value)
				case *ast.Ident:
					name = consts[v.Name]
				}
			}
			return true
		})
		if name == "" {
			die("tool name not resolved at %s", fset.Position(call.Pos()))
		}
		out := map[string]bool{}
		seen := map[string]bool{}
		collect(call.Args[2], out, seen) // the handler constructor call itself
		var ms []string
		for m := range out {
			ms = append(ms, m)
		}
		sort.Strings(ms)
		tools = append(tools, tool{name, ms})
		return false
	})
	if len(tools) == 0 {
		die("no mcp.AddTool registrations found")
	}
	sort.Slice(tools, func(i, j int) bool { return tools[i].name < tools[j].name })

	// ---- write actions reachable from the store implementations
	mdir := filepath.Join(repo, "pkg/metadata")
	mpkgs, err := parser.ParseDir(fset, mdir, func(fi os.FileInfo) bool { return !strings.HasSuffix(fi.Name(), "_test.go") && !strings.HasPrefix(fi.Name(), "zz_verif") }, 0)
	if err != nil {
		die("parse %s: %v", mdir, err)
	}
	type mkey struct{ recv, name string }
	methods := map[mkey]*ast.FuncDecl{}
	pfuncs := map[string]*ast.FuncDecl{}
	for _, p := range mpkgs {
		for _, f := range p.Files {
			for _, d := range f.Decls {
				fd, ok := d.(*ast.FuncDecl)
				if !ok || fd.Body == nil {
					continue
				}
				if fd.Recv == nil {
					pfuncs[fd.Name.Name] = fd
					continue
				}
				t := fd.Recv.List[0].Type
				if st, ok := t.(*ast.StarExpr); ok {
					t = st.X
				}
				if id, ok := t.(*ast.Ident); ok {
					methods[mkey{id.Name, fd.Name.Name}] = fd
				}
			}
		}
	}
	recvName := func(fd *ast.FuncDecl) string {
		if fd.Recv != nil && len(fd.Recv.List[0].Names) > 0 {
			return fd.Recv.List[0].Names[0].Name
		}
		return ""
	}
	var writesOf func(recv string, fd *ast.FuncDecl, via string, out map[string]bool, seen map[string]bool)
	writesOf = func(recv string, fd *ast.FuncDecl, via string, out map[string]bool, seen map[string]bool) {
		rn := recvName(fd)
		onRecv := func(e ast.Expr) (string, bool) { // e is rn.<field> (possibly indexed)
			for {
				switch x := e.(type) {
				case *ast.IndexExpr:
					e = x.X
					continue
				case *ast.SelectorExpr:
					if id, ok := x.X.(*ast.Ident); ok && rn != "" && id.Name == rn {
						return x.Sel.Name, true
					}
					e = x.X
					continue
				}
				return "", false
			}
		}
		where := recv + "." + fd.Name.Name
		if recv == "" {
			where = fd.Name.Name
		}
		if via != "" {
			where = via + " -> " + where
		}
		ast.Inspect(fd.Body, func(n ast.Node) bool {
			switch n := n.(type) {
			case *ast.AssignStmt:
				for _, l := range n.Lhs {
					if f, ok := onRecv(l); ok {
						out[where+": writes field "+f] = true
					}
				}
			case *ast.IncDecStmt:
				if f, ok := onRecv(n.X); ok {
					out[where+": writes field "+f] = true
				}
			case *ast.CallExpr:
				switch fn := n.Fun.(type) {
				case *ast.Ident:
					if fn.Name == "delete" && len(n.Args) > 0 {
						if f, ok := onRecv(n.Args[0]); ok {
							out[where+": delete from field "+f] = true
						}
					}
					if d := pfuncs[fn.Name]; d != nil && !seen["func "+fn.Name] {
						seen["func "+fn.Name] = true
						writesOf("", d, where, out, seen)
					}
				case *ast.SelectorExpr:
					name := fn.Sel.Name
					if inner, ok := fn.X.(*ast.SelectorExpr); ok {
						if (name == "Put" || name == "Delete" || name == "Txn") && inner.Sel.Name == "client" {
							out[where+": etcd client."+name] = true
						}
						if name == "Lock" && inner.Sel.Name == "mu" {
							out[where+": takes the write lock mu.Lock"] = true
						}
						// s.metadata.<M>(...): the embedded in-memory store
						if id, ok := inner.X.(*ast.Ident); ok && id.Name == rn && inner.Sel.Name == "metadata" {
							if d := methods[mkey{"InMemoryStore", name}]; d != nil && !seen["InMemoryStore."+name] {
								seen["InMemoryStore."+name] = true
								writesOf("InMemoryStore", d, where, out, seen)
							}
						}
					}
					if id, ok := fn.X.(*ast.Ident); ok && rn != "" && id.Name == rn && recv != "" {
						if d := methods[mkey{recv, name}]; d != nil && !seen[recv+"."+name] {
							seen[recv+"."+name] = true
							writesOf(recv, d, where, out, seen)
						}
					}
				}
			}
			return true
		})
	}
	type mw struct {
		method string
		writes []string
	}
	var mws []mw
	{
		var names []string
		for m := range storeMethods {
			if modelMethods[m] {
				names = append(names, m)
			}
		}
		sort.Strings(names)
		for _, m := range names {
			out := map[string]bool{}
			for _, recv := range []string{"EtcdStore", "InMemoryStore"} {
				if d := methods[mkey{recv, m}]; d != nil {
					writesOf(recv, d, "", out, map[string]bool{recv + "." + m: true})
				}
			}
			var ws []string
			for w := range out {
				ws = append(ws, w)
			}
			sort.Strings(ws)
			mws = append(mws, mw{m, ws})
		}
	}

	var b bytes.Buffer
	b.WriteString("(* GENERATED on every run by tools/mcpcalls (go/ast) from internal/mcpserver/*.go and the\n")
	b.WriteString("   metadata.Store interface of pkg/metadata/store.go -- do not edit.\n")
	b.WriteString("   For every registered ops-MCP tool: the store methods its handler can reach. *)\n")
	b.WriteString("From Coq Require Import String.\nFrom KS Require Import lib.Base lib.Strings model.MetaStore.\n\n")
	b.WriteString("Definition mcp_calls : list (bytes * list store_method) :=\n  [ ")
	for i, t := range tools {
		if i > 0 {
			b.WriteString(";\n    ")
		}
		fmt.Fprintf(&b, "(lit %s%%string, [%s])", strconv.Quote(t.name), strings.Join(t.methods, "; "))
	}
	b.WriteString(" ].\n\n")
	var names []string
	for m := range storeMethods {
		names = append(names, m)
	}
	sort.Strings(names)
	b.WriteString("(* method set of metadata.Store (+ ConsumerOffsetLookup) as declared now *)\n")
	b.WriteString("Definition store_interface_methods : list store_method :=\n  [")
	for i, m := range names {
		if i > 0 {
			b.WriteString("; ")
		}
		if modelMethods[m] {
			b.WriteString("M_" + m)
		} else {
			b.WriteString("M_Unknown")
		}
	}
	b.WriteString("].\n")

	b.WriteString("\n(* for every Store method: state-writing actions reachable from its bodies in pkg/metadata\n   (etcd client Put/Delete/Txn, write lock, writes to receiver fields) *)\n")
	b.WriteString("Definition mcp_method_writes : list (store_method * list bytes) :=\n  [ ")
	for i, e := range mws {
		if i > 0 {
			b.WriteString(";\n    ")
		}
		var ws []string
		for _, w := range e.writes {
			ws = append(ws, "lit "+strconv.Quote(w)+"%string")
		}
		fmt.Fprintf(&b, "(M_%s, [%s])", e.method, strings.Join(ws, "; "))
	}
	b.WriteString(" ].\n")

	outPath := filepath.Join(verif, "coq/theories/gen/McpCalls.v")
	old, _ := os.ReadFile(outPath)
	if bytes.Equal(old, b.Bytes()) {
		return
	}
	if err := os.MkdirAll(filepath.Dir(outPath), 0o755); err != nil {
		die("%v", err)
	}
	tmp := outPath + ".tmp"
	if err := os.WriteFile(tmp, b.Bytes(), 0o644); err != nil {
		die("%v", err)
	}
	if err := os.Rename(tmp, outPath); err != nil {
		die("%v", err)
	}
}
