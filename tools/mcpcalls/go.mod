module verif/tools/mcpcalls

go 1.23
