
def _addon(name, module, run):
    return dict(module=module, pkg="./internal/decoder", pkgname="decoder",
                files={"zz_verif_dec_shared_test.go": "harness/decoders/addon_shared_test.go",
                       "zz_verif_dec_adapter_test.go": "harness/decoders/%s_adapter_test.go" % name},
                run=run, timeout_s=300)


def _harnesses(prop):
    # order matters: the storage harness writes {OUT}/cNN_inputs.json (broker-written
    # segments / hostile inputs) that the three add-on harnesses then decode
    return [dict(module=".", pkg="./pkg/storage", pkgname="storage",
                 files={"zz_verif_dec_storage_test.go": "harness/decoders/storage_test.go"},
                 run="^TestVerif%sStorage$" % prop, timeout_s=300),
            _addon("iceberg", "addons/processors/iceberg-processor", "^TestVerif%sAddon$" % prop),
            _addon("sql", "addons/processors/sql-processor", "^TestVerif%sAddon$" % prop),
            _addon("skeleton", "addons/processors/skeleton", "^TestVerif%sAddon$" % prop)]


SPEC = dict(
    id="C34",
    design_ref="DESIGN.md section 6, C34",
    props_file="theories/props/C34.v",
    coq_deps=["theories/corr/DecodersCorr.vo"],
    theorems=["C34_iceberg_no_panic_alloc_bounded", "C34_sql_no_panic_alloc_bounded", "C34_skeleton_no_panic",
              "C34_pitr_no_panic_alloc_bounded", "C34_pitr_scan_no_panic_alloc_bounded",
              "C34_index_no_panic_alloc_bounded", "C34_fuel_suffices", "C34_unpatched_refuted", "C34_nonvacuous"],
    harnesses=_harnesses("C34"),
    technique="Coq proof over ALL byte strings (outcome type with explicit Panic and a log of every requested allocation; structural recursion with fuel = input length + 1, fuel proven sufficient) + vm_compute correspondence of the model with the four real decoders on arbitrary/mutated/hostile inputs + implementation-side oracle under recover() with allocation accounting",
    level_text="Machine-checked Coq theorems: for every byte string (up to 2^41 bytes) the Iceberg and SQL segment decoders (with fixes/C34-bound-allocations.patch), the skeleton decoder, the PITR scanner collectRecoverableBatches/scanRecord (any cutoff, any CRC function) and the three index parsers end in Ok or Err, never in a Go panic, and every make() they request is <= c * len(input) bytes (c = 112 record decoders, 1 PITR, 2 index parsers); the unpatched decoders are refuted by concrete inputs (header count -1 -> makeslice panic; key length 2^30, record count 2^31-1, index count 0xffffffff -> allocations of 1 GiB .. 240 GiB from < 150 bytes). The model is tied to the code by running the real decoders of all four Go modules on generated arbitrary, mutated and hostile inputs (including broker-written segments whose record bodies are arbitrary client bytes) and comparing decoded records AND error classes with the model by vm_compute; the implementation-side oracle checks no panic and TotalAlloc delta <= 1024*len+64KiB on the real code.",
    level_note="Trusted: Coq kernel + vm_compute; the hand model (Go make() = panic when n<0 or n*elem > 2^48 else a logged request; bytes.Reader/io.ReadFull as list operations; element sizes Record 112, Header 40, IndexEntry 16 bytes on amd64); the Go harness. The model theorems bound each make() request; the harness bounds the total bytes allocated per call. append() growth in decodeRecordBatches is not modelled (amortised by the records already decoded).",
    trusted_base=["model/Decoders.v (hand model of the four decoders and three index parsers)", "lib/Varint.v, lib/Outcome.v"],
    assumptions=["Go make([]T, n) panics iff n < 0 or n*sizeof(T) > 2^48 (linux/amd64 maxAlloc); sizeof(Record)=112, sizeof(Header)=40, sizeof(IndexEntry)=16",
                 "inputs are at most 2^41 bytes long (so that 112*len stays below the largest possible Go allocation)",
                 "the check needs fixes/C34-bound-allocations.patch applied to the tree under test (VERIF_REPO); on the unpatched tree the harness reports panic-*/alloc-unbounded-* failures"],
    modelled='pkg/storage/segment.go: BuildSegment, buildHeader, buildFooter; pkg/storage/index.go: IndexBuilder.MaybeAdd/BuildBytes, parseIndexMetadata; pkg/storage/recordbatch.go: NewRecordBatchFromBytes; pkg/storage/recovery_exact.go: collectRecoverableBatches, truncateRecordBatchToTimestamp, scanRecord, readVarint; addons/processors/{iceberg-processor,sql-processor}/internal/decoder/decoder.go: decodeSegment, decodeRecordBatches, decodeBatchRecords, decodeRecord, readNullableBytes, readString, readVarint, readVarlong, decodeZigZag/zigZagDecode, parseIndex; addons/processors/skeleton/internal/decoder/decoder.go: noopDecoder.Decode. Not modelled: the S3 download around decodeSegment, growth of append() in decodeRecordBatches, CRC-32C (abstract).',
    search_n=1500,
)
