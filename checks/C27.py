SPEC = dict(
    id="C27",
    design_ref="DESIGN.md section 6, Kafka proxy (C27, C28)",
    props_file="theories/props/C27.v",
    coq_deps=["theories/corr/ProxyCorr.vo"],
    theorems=["C27_nonvacuous"],
    harnesses=[dict(module=".", pkg="./cmd/proxy", pkgname="main",
                    files={"zz_verif_c27_test.go": "harness/kproxy/c27_test.go",
                           "pkg/metadata/zz_verif_router.go": "harness/kproxy/zz_verif_router.go"},
                    run="^TestVerifC27$", timeout_s=400)],
    technique="Coq proof + vm_compute correspondence",
    level_text="tbd", level_note="tbd", trusted_base=[], assumptions=[], modelled="tbd",
    search_n=2500,
)
