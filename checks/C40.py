SPEC = dict(
    id="C40",
    design_ref="DESIGN.md section 6, C40",
    props_file="theories/props/C40.v",
    coq_deps=["theories/corr/MetaStoreCorr.vo"],
    theorems=["C40_nonvacuous"],
    gen=[["go", "-C", "tools/mcpcalls", "run", "."]],
    harnesses=[dict(module=".", pkg="./internal/mcpserver", pkgname="mcpserver",
                    files={"zz_verif_c40_test.go": "harness/metastore/c40_test.go",
                           "pkg/metadata/zz_verif_snapshot.go": "harness/metastore/verif_snapshot.go"},
                    run="^TestVerifC40$", timeout_s=300)],
    technique="TBD", level_text="TBD", level_note="TBD", trusted_base=[], assumptions=[],
    modelled="see model/MetaStore.v header",
)
