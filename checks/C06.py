SPEC = dict(
    id="C06",
    props_file="theories/props/C06.v",
    coq_deps=["theories/corr/StorageCorr.vo"],
    theorems=["C06_nonvacuous"],
    harnesses=[dict(module=".", pkg="./pkg/storage", pkgname="storage",
                    files={"zz_verif_storage_test.go": "harness/storage/storage_test.go"},
                    run="^TestVerifStorage$", timeout_s=400, env={"VERIF_STORAGE_PROP": "C06"})],
    technique="wip", level_text="wip", level_note="wip", trusted_base=[], assumptions=[], modelled="wip",
)
