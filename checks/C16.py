SPEC = dict(
    id="C16",
    design_ref="DESIGN.md section 6, C16",
    props_file="theories/props/C16.v",
    coq_deps=["theories/corr/MetaStoreCorr.vo"],
    theorems=["C16_nonvacuous"],
    gen=[["go", "-C", "tools/mcpcalls", "run", "."]],
    harnesses=[dict(module=".", pkg="./pkg/broker", pkgname="broker",
                    files={"zz_verif_c16_test.go": "harness/metastore/c16_test.go"},
                    run="^TestVerifC16$", timeout_s=400)],
    technique="TBD", level_text="TBD", level_note="TBD", trusted_base=[], assumptions=[],
    modelled="see model/MetaStore.v header",
)
