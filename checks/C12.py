SPEC = {'id': 'C12',
 'design_ref': 'DESIGN.md section 6, Group coordinator (C12-C15, C43)',
 'props_file': 'theories/props/C12.v',
 'harnesses': [{'module': '.',
                'pkg': './pkg/broker',
                'pkgname': 'broker',
                'files': {'zz_verif_coord_test.go': 'harness/coordinator/coord_test.go'},
                'run': '^TestVerifCoordinator$',
                'timeout_s': 600,
                'env': {'VERIF_CO_PROP': 'C12'}}],
 'coq_deps': ['theories/corr/CoordinatorCorr.vo'],
 'technique': 'Coq proof (invariant over all operation histories of an executable model of GroupCoordinator + group persistence) + vm_compute correspondence '
              'of every generated history with the real GroupCoordinator over InMemoryStore on virtual time (testing/synctest)',
 'level_note': 'Trusted: Coq kernel + vm_compute; the hand model model/Coordinator.v (one group; member ids and topic names abstracted to integers with the '
               'same order; time in ms; math/rand ids as an input oracle; store.Metadata as a topic table); the Go harness. Each coordinator method holds c.mu '
               'for its whole body (OffsetCommit too after fixes/C13-commit-under-lock.patch), so schedules are operation sequences; the harness checks that '
               "atomicity directly with a store hook between OffsetCommit's check and write.",
 'trusted_base': ['model/Coordinator.v (JoinGroup, SyncGroup, Heartbeat, LeaveGroup, OffsetCommit, cleanupGroups, removeExpiredMembers, dropRebalanceLaggers, '
                  'startRebalance, bumpRebalanceDeadline, completeIfReady, markStable, ensureLeader, assignPartitions, collectTopicPartitions, '
                  'persistGroupLocked, buildConsumerGroup, restoreGroupState, loadGroupIfMissing, ensureGroup; InMemoryStore Put/Fetch/DeleteConsumerGroup, '
                  'cloneConsumerGroup, Commit/FetchConsumerOffset modelled by hand)',
                  'member ids / topic names -> integers by an order-preserving map (sort.Strings is the only non-equality use of them)',
                  'virtual time of testing/synctest stands for time.Now; cleanupGroups called explicitly stands for the ticker'],
 'assumptions': ['each GroupCoordinator method is atomic (it holds c.mu for its whole body; for OffsetCommit this needs fixes/C13-commit-under-lock.patch and '
                 "is checked by the harness's store hook)",
                 'store operations succeed (InMemoryStore never fails; the UNKNOWN_SERVER_ERROR branches are not modelled)',
                 "store.Metadata lists each topic's partitions in increasing order (both stores build them so); generation numbers stay below 2^31",
                 "groups are independent (every method touches only c.groups[group] and that group's store records): the model has one group",
                 'the check needs fixes/C12-rejoin-changed-subscription.patch, fixes/C13-commit-under-lock.patch and '
                 'fixes/C43-heartbeat-during-rebalance.patch applied to /repo (the model is of the fixed code)'],
 'modelled': 'pkg/broker/coordinator.go: JoinGroup, SyncGroup, Heartbeat, LeaveGroup, OffsetCommit, cleanupGroups and all groupState helpers, persist/restore; '
             'pkg/metadata/store.go: consumer-group and consumer-offset methods of InMemoryStore incl. cloneConsumerGroup (e_keep=false: timeouts dropped, as '
             'today; true: kept). Not modelled: protocolName/protocolType pass-through, OffsetFetch/DescribeGroups/ListGroups/DeleteGroups, store errors, the '
             "ticker's real-time jitter.",
 'search_n': 1500,
 'theorems': ['C12_assignment_partition', 'C12_one_map_per_generation', 'C12_one_map_per_generation_multi', 'C12_round_robin_unique', 'C12_assignment_partition_under_store_faults', 'C12_assignment_after_failover_under_store_faults', 'C12_assignment_after_failover_needs_synced', 'C12_nonvacuous'],
 'level_text': 'Machine-checked Coq theorems over ALL histories (joins incl. changed subscriptions, syncs, heartbeats, leaves, commits, cleanup ticks at '
               'arbitrary times, failovers; unbounded members/topics/partitions) of the executable coordinator model: every successful sync returns the '
               "group's entry of assignPartitions(current members, current subscriptions), which is proved to be a partition (only subscribed topics and "
               'existing partitions; every partition of every subscribed topic held by a current subscriber; by exactly one when partition ids are distinct), '
               'and a Stable group keeps members, subscriptions and per-member assignment as long as its generation does not change (one map per generation). '
               'The model is tied to the real GroupCoordinator by replaying every generated history on both and comparing replies, the full in-memory group '
               'state, the stored group and committed offsets after every operation; an implementation-side oracle checks the C12 clauses on every successful '
               'sync of the real code.'}
SPEC['assumptions'].insert(0, "every coordinator operation holds c.mu from its first read of group state to its last store write (this is what makes the model's step relation atomic per operation, schedules = operation sequences). CHECKED by the harness on the real code: a gating store wrapper intercepts every store call the coordinator makes (Metadata, PutConsumerGroup, FetchConsumerGroup, DeleteConsumerGroup, CommitConsumerOffset) during every operation of every history and tests whether c.mu is free; if it is, the schedule's inner operations are run to completion on the same group while that store call is parked and the failure lock-released-across-store-call:<op>:<storecall> is reported with the schedule as replay (plus whatever the property oracles then observe); where the lock is held the inner operations run after the outer one, which is the order the lock enforces. Windows for every outer kind x inner kind are generated in every quick run.")
SPEC['assumptions'] = [a for a in SPEC['assumptions'] if not a.startswith('store operations succeed')]
SPEC['assumptions'].append("transient store failures ARE modelled (model/CoordinatorFaults.v, step relation stepf with a per-operation fault: load of the group / whole-group write / offset write fails) and injected by the harness's gating store wrapper into every operation kind (incl. the first join, leave, the leader's sync, cleanup's persist, the load after a failover); the *_under_store_faults theorems hold for arbitrary failures; claims that compare a coordinator with its successor (C15 view, C13/C12 across failover) need 'the last whole-group write succeeded' (synced), stated in the theorems. Not modelled and not injected: a failing store.Metadata in the leader's sync (collectTopicPartitions falls back to partition 0 per topic). The check needs fixes/C14-join-error-reply-no-members.patch.")
SPEC['coq_deps'] = ['theories/corr/CoordinatorCorr.vo']
