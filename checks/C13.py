SPEC = {'id': 'C13',
 'design_ref': 'DESIGN.md section 6, Group coordinator (C12-C15, C43)',
 'props_file': 'theories/props/C13.v',
 'harnesses': [{'module': '.',
                'pkg': './pkg/broker',
                'pkgname': 'broker',
                'files': {'zz_verif_coord_test.go': 'harness/coordinator/coord_test.go'},
                'run': '^TestVerifCoordinator$',
                'timeout_s': 600,
                'env': {'VERIF_CO_PROP': 'C13'}}],
 'coq_deps': ['theories/corr/CoordinatorCorr.vo'],
 'technique': 'Coq proof (invariant over all operation histories of an executable model of GroupCoordinator + group persistence) + vm_compute correspondence '
              'of every generated history with the real GroupCoordinator over InMemoryStore on virtual time (testing/synctest)',
 'level_note': 'Trusted: Coq kernel + vm_compute; the hand model model/Coordinator.v (one group; member ids and topic names abstracted to integers with the '
               'same order; time in ms; math/rand ids as an input oracle; store.Metadata as a topic table); the Go harness. Each coordinator method holds c.mu '
               'for its whole body (OffsetCommit too after fixes/C13-commit-under-lock.patch), so schedules are operation sequences; the harness checks that '
               "atomicity directly with a store hook between OffsetCommit's check and write.",
 'trusted_base': ['model/Coordinator.v (JoinGroup, SyncGroup, Heartbeat, LeaveGroup, OffsetCommit, cleanupGroups, removeExpiredMembers, dropRebalanceLaggers, '
                  'startRebalance, bumpRebalanceDeadline, completeIfReady, markStable, ensureLeader, assignPartitions, collectTopicPartitions, '
                  'persistGroupLocked, buildConsumerGroup, restoreGroupState, loadGroupIfMissing, ensureGroup; InMemoryStore Put/Fetch/DeleteConsumerGroup, '
                  'cloneConsumerGroup, Commit/FetchConsumerOffset modelled by hand)',
                  'member ids / topic names -> integers by an order-preserving map (sort.Strings is the only non-equality use of them)',
                  'virtual time of testing/synctest stands for time.Now; cleanupGroups called explicitly stands for the ticker'],
 'assumptions': ['each GroupCoordinator method is atomic (it holds c.mu for its whole body; for OffsetCommit this needs fixes/C13-commit-under-lock.patch and '
                 "is checked by the harness's store hook)",
                 'store operations succeed (InMemoryStore never fails; the UNKNOWN_SERVER_ERROR branches are not modelled)',
                 "store.Metadata lists each topic's partitions in increasing order (both stores build them so); generation numbers stay below 2^31",
                 "groups are independent (every method touches only c.groups[group] and that group's store records): the model has one group",
                 'the check needs fixes/C12-rejoin-changed-subscription.patch, fixes/C13-commit-under-lock.patch and '
                 'fixes/C43-heartbeat-during-rebalance.patch applied to /repo (the model is of the fixed code)'],
 'modelled': 'pkg/broker/coordinator.go: JoinGroup, SyncGroup, Heartbeat, LeaveGroup, OffsetCommit, cleanupGroups and all groupState helpers, persist/restore; '
             'pkg/metadata/store.go: consumer-group and consumer-offset methods of InMemoryStore incl. cloneConsumerGroup (e_keep=false: timeouts dropped, as '
             'today; true: kept). Not modelled: protocolName/protocolType pass-through, OffsetFetch/DescribeGroups/ListGroups/DeleteGroups, store errors, the '
             "ticker's real-time jitter.",
 'search_n': 1500,
 'theorems': ['C13_fenced', 'C13_offsets_only_by_current_commit', 'C13_generation_monotone', 'C13_join_reports_generation', 'C13_fenced_under_store_faults', 'C13_generation_monotone_in_memory_under_store_faults', 'C13_cluster_is_one_coordinator', 'C13_fenced_any_broker', 'C13_fenced_across_failover_under_store_faults', 'C13_fenced_across_failover_needs_synced', 'C13_cluster_offsets_only_by_current_commit', 'C13_nonvacuous'],
 'level_text': 'Machine-checked Coq theorems: in every state a sync/heartbeat/commit whose (member, generation) is not (current member, current generation) is '
               'answered with an error and changes no committed offset; offsets change only through a commit of a current member answered NONE; along every '
               'history and continuation during which the group exists (incl. expiry, leaves, failover) the generation never decreases and join replies report '
               'it. Correspondence with the real GroupCoordinator on generated histories incl. stale/future generations, expired and unknown members, and '
               "commits racing with membership changes (store hook between OffsetCommit's check and write); implementation-side oracle on the real replies and "
               'stored offsets.'}
SPEC['level_text'] += " The harness's oracle keeps its own ground truth that does not depend on the store image a new coordinator restores (members seen to be removed stay fenced until they join again; the highest generation the group was seen to have), and the generator regularly produces 'member expired by a tick / left -> failover before any survivor rejoins -> requests from the removed member and from survivors with their last-seen generation', so a lost or stale persist shows up as an accepted zombie request / a decreasing generation with a concrete replay."
SPEC['assumptions'].insert(0, "every coordinator operation holds c.mu from its first read of group state to its last store write (this is what makes the model's step relation atomic per operation, schedules = operation sequences). CHECKED by the harness on the real code: a gating store wrapper intercepts every store call the coordinator makes (Metadata, PutConsumerGroup, FetchConsumerGroup, DeleteConsumerGroup, CommitConsumerOffset) during every operation of every history and tests whether c.mu is free; if it is, the schedule's inner operations are run to completion on the same group while that store call is parked and the failure lock-released-across-store-call:<op>:<storecall> is reported with the schedule as replay (plus whatever the property oracles then observe); where the lock is held the inner operations run after the outer one, which is the order the lock enforces. Windows for every outer kind x inner kind are generated in every quick run.")
SPEC['assumptions'] = [a for a in SPEC['assumptions'] if not a.startswith('store operations succeed')]
SPEC['assumptions'].append("transient store failures ARE modelled (model/CoordinatorFaults.v, step relation stepf with a per-operation fault: load of the group / whole-group write / offset write fails) and injected by the harness's gating store wrapper into every operation kind (incl. the first join, leave, the leader's sync, cleanup's persist, the load after a failover); the *_under_store_faults theorems hold for arbitrary failures; claims that compare a coordinator with its successor (C15 view, C13/C12 across failover) need 'the last whole-group write succeeded' (synced), stated in the theorems. Not modelled and not injected: a failing store.Metadata in the leader's sync (collectTopicPartitions falls back to partition 0 per topic). The check needs fixes/C14-join-error-reply-no-members.patch.")
SPEC['coq_deps'] = ['theories/corr/CoordinatorCorr.vo']
SPEC['harnesses'].append(dict(module=".", pkg="./cmd/broker", pkgname="main",
    files={"zz_verif_c13_handlers_test.go": "harness/coordinator/c13_handlers_test.go",
           "pkg/broker/zz_verif_coord_export.go": "harness/coordinator/verif_export.go"},
    run="^TestVerifC13Handlers$", timeout_s=600))
SPEC['assumptions'].append("LEASE_SINGLE_OWNER: at any time at most one broker holds a group's coordination lease (property C18, etcd lease manager); with it and the routing rule of cmd/broker (no lease -> NOT_COORDINATOR and no effect; lease newly acquired -> cached group state dropped; non-holders' sweeps have no effect -- fixes/C13-group-cache-follows-lease.patch) C13_cluster_is_one_coordinator reduces any number of brokers with caches to the single-coordinator model; the rule is checked on two real handlers with real GroupLeaseManagers (embedded etcd, shared store) by the second harness, every group request sent to either broker at random, with lease hand-overs")
SPEC['level_text'] += " Handler-level stream (cmd/broker, package main): two real handlers with real group lease managers over one shared store; oracles: a broker without the lease answers NOT_COORDINATOR to every group-scoped request and changes nothing; fencing on the shared store whichever broker a request reaches, also after the lease moved away and came back; nothing changes the persisted group behind the lease holder's back."
SPEC['extra_obligations'] = ['production-wiring-ties-sweep-to-lease: the coordinator built by newHandler -> coordinatorConfig(groupLeaseManager) -> NewGroupCoordinator has OwnsGroup set (asserted once per run by the handler-level harness on a handler built over a real EtcdStore)']
