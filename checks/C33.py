_FILES = lambda adapter: {"zz_verif_c33_core_test.go": "harness/processor/c33_core_test.go",
                          "zz_verif_c33_adapter_test.go": "harness/processor/c33_%s_test.go" % adapter}
SPEC = dict(
    id="C33",
    design_ref="DESIGN.md section 6, C33",
    props_file="theories/props/C33.v",
    coq_deps=["theories/corr/ProcessorCorr.vo"],
    theorems=["C33_checkpoint_safe", "C33_eventually_all", "C33_nonvacuous", "C33_nonvacuous_hyps"],
    harnesses=[
        dict(module="addons/processors/sql-processor", pkg="./internal/processor", pkgname="processor",
             files=_FILES("sql"), run="^TestVerifC33$", timeout_s=300),
        dict(module="addons/processors/iceberg-processor", pkg="./internal/processor", pkgname="processor",
             files=_FILES("iceberg"), run="^TestVerifC33$", timeout_s=300),
        # skeleton's go.mod says go 1.22: force the cached 1.25.2 toolchain (testing/synctest) and the
        # go1.23+ timer semantics synctest requires
        dict(module="addons/processors/skeleton", pkg="./internal/processor", pkgname="processor",
             files=_FILES("skeleton"), run="^TestVerifC33$", timeout_s=300,
             env={"GOTOOLCHAIN": "go1.25.2", "GODEBUG": "asynctimerchan=0"}),
    ],
    technique="Coq proof (checkpoint invariant by induction over polling cycles, segments and fault schedules; decoder, drop predicate and store kind universally quantified) + vm_compute correspondence with the real Processor.Run of the three add-on modules under testing/synctest",
    level_text="Machine-checked Coq theorems over all universes of completed segments, all decoders, both checkpoint-store kinds and all event lists (any number of polling cycles, each with any listing/claim/load/decode/LFS/sink/commit failure pattern, and lease losses) for a hand-written executable model of the processors' Run loop: (1) a partition's checkpoint never is at or beyond a record that was not handed to a successful sink.Write; (2) after any such schedule one fault-free cycle leaves every record of every completed segment of the leased partition written, offset 0 included. The model is tied to the code by running the real Run of the iceberg, sql and skeleton processors under synctest with scripted in-package fakes (lister, decoder, checkpoint store incl. the modules' real no-op store, sink, LFS blob reader, lease renewal) and comparing, per cycle, the written (partition, offset) sequence, the checkpoint store contents and the number of lease claims; an implementation-side oracle checks both clauses directly on the real run. REQUIRES the proposed patches fixes/C33-*.patch (three genuine defects found on the unchanged tree).",
    level_note="Trusted: Coq kernel + vm_compute; the hand model of Run/filterRecords/resolveLfsRecords' error path/noopStore/etcd LoadOffset+CommitOffset; the Go harness and its fakes; synctest's virtual clock. Hypotheses of the theorems (universe_ok, event_ok) are assumptions about the broker and the lister, see assumptions.",
    trusted_base=["model/Processor.v (Run ticker branch, filterRecords, LFS error path, noopStore, etcd LoadOffset/CommitOffset modelled by hand; partitions abstracted to integer keys)",
                  "testing/synctest virtual time; harness fakes for Lister/Decoder/Store/Writer/S3Reader"],
    assumptions=["universe_ok: records decoded from a segment carry the segment's (topic,partition); offsets are >= 0 and strictly increasing along a partition's segments in listing order (discovery sorts by topic, partition, base offset)",
                 "event_ok: ListCompleted either fails or returns, per partition, a gap-free prefix of the partition's completed segments in that order. NOTE: the real s3Lister of the sql and iceberg modules drops a segment whose footer probe (hasFooterMagic) fails transiently, which can violate this assumption; discovery is outside C33's anchors and is reported, not modelled",
                 "one worker per partition lease (no second worker committing the same partition concurrently)",
                 "keep: records removed on purpose by configuration (LFS mode skip, undecodable LFS envelope, lenient schema validation) are outside the delivery claim; strict schema validation makes Run return (process exit) and is not modelled",
                 "a checkpoint store's CommitOffset either stores the offset or not (both with and without reporting an error); LoadOffset returns the stored offset or -1"],
    modelled="addons/processors/{iceberg-processor,sql-processor,skeleton}/internal/processor/processor.go: Run (ticker branch, lease claim, per-segment pipeline), filterRecords; iceberg-processor/internal/processor/lfs.go: resolveLfsRecords error path; */internal/checkpoint/checkpoint.go: noopStore; iceberg-processor/internal/checkpoint/etcd.go: LoadOffset/CommitOffset outcome classes",
    search_n=1500,
)
