
def _addon(name, module, run):
    return dict(module=module, pkg="./internal/decoder", pkgname="decoder",
                files={"zz_verif_dec_shared_test.go": "harness/decoders/addon_shared_test.go",
                       "zz_verif_dec_adapter_test.go": "harness/decoders/%s_adapter_test.go" % name},
                run=run, timeout_s=300)


def _harnesses(prop):
    # order matters: the storage harness writes {OUT}/cNN_inputs.json (broker-written
    # segments / hostile inputs) that the three add-on harnesses then decode
    return [dict(module=".", pkg="./pkg/storage", pkgname="storage",
                 files={"zz_verif_dec_storage_test.go": "harness/decoders/storage_test.go"},
                 run="^TestVerif%sStorage$" % prop, timeout_s=300),
            _addon("iceberg", "addons/processors/iceberg-processor", "^TestVerif%sAddon$" % prop),
            _addon("sql", "addons/processors/sql-processor", "^TestVerif%sAddon$" % prop),
            _addon("skeleton", "addons/processors/skeleton", "^TestVerif%sAddon$" % prop)]


SPEC = dict(
    id="C07",
    design_ref="DESIGN.md section 6, C07",
    props_file="theories/props/C07.v",
    coq_deps=["theories/corr/DecodersCorr.vo"],
    theorems=["C07_decoders_roundtrip", "C07_iceberg_roundtrip", "C07_sql_roundtrip", "C07_segment_layout", "C07_index_entries", "C07_pitr_scan_roundtrip", "C07_pitr_scan_contract", "C07_pitr_contract_nonvacuous", "C07_skeleton_returns_nothing", "C07_sql_unpatched_refuted", "C07_nonvacuous"],
    harnesses=_harnesses("C07"),
    technique="Coq proof (varint/zig-zag round trips over Z with explicit mod 2^64, induction over records/headers/batches) for all well-formed batches + vm_compute correspondence of the model with the real BuildSegment, the three processors' decoders and the PITR scanner on kmsg-encoded generated batches + implementation-side oracle",
    level_text="Machine-checked Coq theorems for ALL lists of well-formed uncompressed record batches (any record count >= 1, null/empty/any keys and values, any headers incl. null values, any int64 timestamp delta incl. negative, any CRC function): the model of BuildSegment succeeds and lays out header|batches|footer(crc(body), last offset); the Iceberg and the (patched) SQL decoder applied to that segment return exactly the records sent (offset, timestamp, key, value, headers); the PITR scanRecord loop returns every record's (timestampDelta, offsetDelta); the skeleton decoder returns [] and never fails (placeholder, DESIGN 9.2). The unpatched SQL decoder is refuted by vm_compute (30-day delta -> wrong timestamp, 2^30 -> wrong sign, 2^34 -> varint too long). Model, spec encoder and code are tied by running the real BuildSegment/ParseIndex/collectRecoverableBatches/scanRecord and the three processors' real decoders on franz-go-kmsg-encoded generated batches and comparing segment bytes, index bytes, decoded records and PITR outputs with the model by vm_compute; the implementation-side oracle compares the decoded records with the produced ones field by field and checks the segment/index layout clauses on the real artifacts.",
    level_note="Trusted: Coq kernel + vm_compute; the hand model; the Go harness. The spec encoder lib/Kafka.v is compared byte-for-byte with franz-go kmsg on every generated batch (CSpec cases). Index clause proven for all batch lists/intervals (C07_index_entries). Restore-scanner contract proven for every segment of header-consistent batches and every cut-off (C07_pitr_scan_contract, proofs/DecodersPitr.v): recovered records = records in scan order before the first one with timestamp > cutoff; whole batches byte-identical; a cut batch is exactly the spec encoding of the batch restricted to its kept prefix (batchLength, lastOffsetDelta, maxTimestamp, numRecords, CRC consistent).",
    trusted_base=["model/Decoders.v (hand model of BuildSegment, IndexBuilder, the decoders, the PITR scanner)", "lib/Kafka.v (spec encoder of record batches v2, checked against franz-go kmsg by the correspondence run)", "lib/Varint.v"],
    assumptions=["CRC-32C is an abstract function (Section variable): no decoder verifies it, the writer stores crc(body)",
                 "well-formed batches: uncompressed, >= 1 record, int64 timestamp deltas, int32 offset deltas/lengths, firstTimestamp+delta and baseOffset+delta within int64, batch < 2^31 bytes",
                 "the check needs fixes/C07-sql-timestamp-varlong.patch (and C34-bound-allocations.patch) applied to the tree under test (VERIF_REPO)"],
    modelled='pkg/storage/segment.go: BuildSegment, buildHeader, buildFooter; pkg/storage/index.go: IndexBuilder.MaybeAdd/BuildBytes, parseIndexMetadata; pkg/storage/recordbatch.go: NewRecordBatchFromBytes; pkg/storage/recovery_exact.go: collectRecoverableBatches, truncateRecordBatchToTimestamp, scanRecord, readVarint; addons/processors/{iceberg-processor,sql-processor}/internal/decoder/decoder.go: decodeSegment, decodeRecordBatches, decodeBatchRecords, decodeRecord, readNullableBytes, readString, readVarint, readVarlong, decodeZigZag/zigZagDecode, parseIndex; addons/processors/skeleton/internal/decoder/decoder.go: noopDecoder.Decode. Not modelled: the S3 download around decodeSegment, growth of append() in decodeRecordBatches, CRC-32C (abstract).',
    search_n=600,
)
