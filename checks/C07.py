
def _addon(name, module, run):
    return dict(module=module, pkg="./internal/decoder", pkgname="decoder",
                files={"zz_verif_dec_shared_test.go": "harness/decoders/addon_shared_test.go",
                       "zz_verif_dec_adapter_test.go": "harness/decoders/%s_adapter_test.go" % name},
                run=run, timeout_s=300)


def _harnesses(prop):
    # order matters: the storage harness writes {OUT}/cNN_inputs.json (broker-written
    # segments / hostile inputs) that the three add-on harnesses then decode
    return [dict(module=".", pkg="./pkg/storage", pkgname="storage",
                 files={"zz_verif_dec_storage_test.go": "harness/decoders/storage_test.go"},
                 run="^TestVerif%sStorage$" % prop, timeout_s=300),
            _addon("iceberg", "addons/processors/iceberg-processor", "^TestVerif%sAddon$" % prop),
            _addon("sql", "addons/processors/sql-processor", "^TestVerif%sAddon$" % prop),
            _addon("skeleton", "addons/processors/skeleton", "^TestVerif%sAddon$" % prop)]


SPEC = dict(
    id="C07",
    design_ref="DESIGN.md section 6, C07",
    props_file="theories/props/C07.v",
    coq_deps=["theories/corr/DecodersCorr.vo"],
    theorems=[],  # filled below
    harnesses=_harnesses("C07"),
    technique="Coq proof (varint/zig-zag round trips over Z with explicit mod 2^64, induction over records/headers/batches) for all well-formed batches + vm_compute correspondence of the model with the real BuildSegment, the three processors' decoders and the PITR scanner on kmsg-encoded generated batches + implementation-side oracle",
    level_text="",
    level_note="",
    trusted_base=["model/Decoders.v (hand model of BuildSegment, IndexBuilder, the decoders, the PITR scanner)", "lib/Kafka.v (spec encoder of record batches v2, checked against franz-go kmsg by the correspondence run)", "lib/Varint.v"],
    assumptions=["CRC-32C is an abstract function (Section variable): no decoder verifies it, the writer stores crc(body)",
                 "well-formed batches: uncompressed, >= 1 record, int64 timestamp deltas, int32 offset deltas/lengths, firstTimestamp+delta and baseOffset+delta within int64, batch < 2^31 bytes",
                 "the check needs fixes/C07-sql-timestamp-varlong.patch (and C34-bound-allocations.patch) applied to the tree under test (VERIF_REPO)"],
    modelled='pkg/storage/segment.go: BuildSegment, buildHeader, buildFooter; pkg/storage/index.go: IndexBuilder.MaybeAdd/BuildBytes, parseIndexMetadata; pkg/storage/recordbatch.go: NewRecordBatchFromBytes; pkg/storage/recovery_exact.go: collectRecoverableBatches, truncateRecordBatchToTimestamp, scanRecord, readVarint; addons/processors/{iceberg-processor,sql-processor}/internal/decoder/decoder.go: decodeSegment, decodeRecordBatches, decodeBatchRecords, decodeRecord, readNullableBytes, readString, readVarint, readVarlong, decodeZigZag/zigZagDecode, parseIndex; addons/processors/skeleton/internal/decoder/decoder.go: noopDecoder.Decode. Not modelled: the S3 download around decodeSegment, growth of append() in decodeRecordBatches, CRC-32C (abstract).',
    search_n=600,
)
