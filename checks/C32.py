SPEC = dict(
    id="C32",
    design_ref="DESIGN.md section 6, C32",
    props_file="theories/props/C32.v",
    coq_deps=["theories/corr/UploadCorr.vo"],
    theorems=["C32_nonvacuous"],
    harnesses=[dict(module=".", pkg="./cmd/proxy", pkgname="main",
                    files={"zz_verif_c32_test.go": "harness/lfsupload/c32_test.go"},
                    run="^TestVerifC32$", timeout_s=400)],
    technique="tbd", level_text="tbd", level_note="tbd", trusted_base=[], assumptions=[], modelled="tbd",
)
