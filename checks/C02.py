SPEC = dict(
    id="C02",
    props_file="theories/props/C02.v",
    coq_deps=["theories/corr/StorageCorr.vo"],
    theorems=["C02_nonvacuous"],
    harnesses=[dict(module=".", pkg="./pkg/storage", pkgname="storage",
                    files={"zz_verif_storage_test.go": "harness/storage/storage_test.go"},
                    run="^TestVerifStorage$", timeout_s=400, env={"VERIF_STORAGE_PROP": "C02"})],
    technique="wip", level_text="wip", level_note="wip", trusted_base=[], assumptions=[], modelled="wip",
)
