SPEC = dict(
    id="C22",
    design_ref="DESIGN.md section 6, C22",
    props_file="theories/props/C22.v",
    coq_deps=["theories/corr/MetaStoreCorr.vo"],
    theorems=["C22_nonvacuous"],
    gen=[["go", "-C", "tools/mcpcalls", "run", "."]],
    harnesses=[dict(module=".", pkg="./pkg/storage", pkgname="storage",
                    files={"zz_verif_c22_test.go": "harness/metastore/c22_test.go",
                           "pkg/metadata/zz_verif_snapshot.go": "harness/metastore/verif_snapshot.go"},
                    run="^TestVerifC22$", timeout_s=300)],
    technique="TBD", level_text="TBD", level_note="TBD", trusted_base=[], assumptions=[],
    modelled="see model/MetaStore.v header",
)
