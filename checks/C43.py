SPEC = {'id': 'C43',
 'design_ref': 'DESIGN.md section 6, Group coordinator (C12-C15, C43)',
 'props_file': 'theories/props/C43.v',
 'harnesses': [{'module': '.',
                'pkg': './pkg/broker',
                'pkgname': 'broker',
                'files': {'zz_verif_coord_test.go': 'harness/coordinator/coord_test.go'},
                'run': '^TestVerifCoordinator$',
                'timeout_s': 600,
                'env': {'VERIF_CO_PROP': 'C43'}}],
 'coq_deps': ['theories/corr/CoordinatorCorr.vo'],
 'technique': 'Coq proof (invariant over all operation histories of an executable model of GroupCoordinator + group persistence) + vm_compute correspondence '
              'of every generated history with the real GroupCoordinator over InMemoryStore on virtual time (testing/synctest)',
 'level_note': 'Trusted: Coq kernel + vm_compute; the hand model model/Coordinator.v (one group; member ids and topic names abstracted to integers with the '
               'same order; time in ms; math/rand ids as an input oracle; store.Metadata as a topic table); the Go harness. Each coordinator method holds c.mu '
               'for its whole body (OffsetCommit too after fixes/C13-commit-under-lock.patch), so schedules are operation sequences; the harness checks that '
               "atomicity directly with a store hook between OffsetCommit's check and write.",
 'trusted_base': ['model/Coordinator.v (JoinGroup, SyncGroup, Heartbeat, LeaveGroup, OffsetCommit, cleanupGroups, removeExpiredMembers, dropRebalanceLaggers, '
                  'startRebalance, bumpRebalanceDeadline, completeIfReady, markStable, ensureLeader, assignPartitions, collectTopicPartitions, '
                  'persistGroupLocked, buildConsumerGroup, restoreGroupState, loadGroupIfMissing, ensureGroup; InMemoryStore Put/Fetch/DeleteConsumerGroup, '
                  'cloneConsumerGroup, Commit/FetchConsumerOffset modelled by hand)',
                  'member ids / topic names -> integers by an order-preserving map (sort.Strings is the only non-equality use of them)',
                  'virtual time of testing/synctest stands for time.Now; cleanupGroups called explicitly stands for the ticker'],
 'assumptions': ['each GroupCoordinator method is atomic (it holds c.mu for its whole body; for OffsetCommit this needs fixes/C13-commit-under-lock.patch and '
                 "is checked by the harness's store hook)",
                 'store operations succeed (InMemoryStore never fails; the UNKNOWN_SERVER_ERROR branches are not modelled)',
                 "store.Metadata lists each topic's partitions in increasing order (both stores build them so); generation numbers stay below 2^31",
                 "groups are independent (every method touches only c.groups[group] and that group's store records): the model has one group",
                 'the check needs fixes/C12-rejoin-changed-subscription.patch, fixes/C13-commit-under-lock.patch and '
                 'fixes/C43-heartbeat-during-rebalance.patch applied to /repo (the model is of the fixed code)'],
 'modelled': 'pkg/broker/coordinator.go: JoinGroup, SyncGroup, Heartbeat, LeaveGroup, OffsetCommit, cleanupGroups and all groupState helpers, persist/restore; '
             'pkg/metadata/store.go: consumer-group and consumer-offset methods of InMemoryStore incl. cloneConsumerGroup (e_keep=false: timeouts dropped, as '
             'today; true: kept). Not modelled: protocolName/protocolType pass-through, OffsetFetch/DescribeGroups/ListGroups/DeleteGroups, store errors, the '
             "ticker's real-time jitter.",
 'search_n': 1500,
 'theorems': ['C43_expired_removed', 'C43_laggers_removed', 'C43_live_kept', 'C43_heartbeat_refreshes', 'C43_only_cleanup_or_leave_removes', 'C43_lasthb_is_last_refresh', 'C43_nonvacuous'],
 'level_text': 'Machine-checked Coq theorems for every reachable state and every cleanup time: a member whose last refresh is more than its session timeout '
               'ago is removed by the next cleanup tick and the group rebalances (generation+1) or is deleted; a member that has not rejoined is removed by '
               'the first tick at/after the rebalance deadline; a member refreshed within its session timeout that is not such a lagger is kept; a heartbeat '
               'of a current member in the current generation refreshes the session in every phase. Correspondence on virtual time with clock advances around '
               'the thresholds (+-1 ms); implementation-side oracle with black-box bookkeeping of refresh times and requested session timeouts. Liveness is '
               'relative to cleanup ticks.'}
SPEC['assumptions'].append("after a failover cleanupGroups only visits groups that some request has already loaded into the new coordinator's memory (c.groups); modelled faithfully: [Cleanup] with nothing in memory is a no-op, so C43_expired_removed / C43_laggers_removed are stated for a group that is in memory. The property's quantifier (timings of heartbeats and joins) has no failover; consequence outside it: a group none of whose members ever contacts the new coordinator stays in the store (DescribeGroups/ListGroups still show it) until a request for it arrives, then the next tick expires its members")
SPEC['assumptions'].insert(0, "every coordinator operation holds c.mu from its first read of group state to its last store write (this is what makes the model's step relation atomic per operation, schedules = operation sequences). CHECKED by the harness on the real code: a gating store wrapper intercepts every store call the coordinator makes (Metadata, PutConsumerGroup, FetchConsumerGroup, DeleteConsumerGroup, CommitConsumerOffset) during every operation of every history and tests whether c.mu is free; if it is, the schedule's inner operations are run to completion on the same group while that store call is parked and the failure lock-released-across-store-call:<op>:<storecall> is reported with the schedule as replay (plus whatever the property oracles then observe); where the lock is held the inner operations run after the outer one, which is the order the lock enforces. Windows for every outer kind x inner kind are generated in every quick run.")
SPEC['assumptions'] = [a for a in SPEC['assumptions'] if not a.startswith('store operations succeed')]
SPEC['assumptions'].append("transient store failures ARE modelled (model/CoordinatorFaults.v, step relation stepf with a per-operation fault: load of the group / whole-group write / offset write fails) and injected by the harness's gating store wrapper into every operation kind (incl. the first join, leave, the leader's sync, cleanup's persist, the load after a failover); the *_under_store_faults theorems hold for arbitrary failures; claims that compare a coordinator with its successor (C15 view, C13/C12 across failover) need 'the last whole-group write succeeded' (synced), stated in the theorems. Not modelled and not injected: a failing store.Metadata in the leader's sync (collectTopicPartitions falls back to partition 0 per topic). The check needs fixes/C14-join-error-reply-no-members.patch.")
SPEC['coq_deps'] = ['theories/corr/CoordinatorCorr.vo']
