package main

// C27 harness: drives the real proxy (handleProduceRouting / handleFetchRouting ->
// group*PartitionsByBroker, forwardProduce / forwardFetch, fanOut*, connectForAddr) with
// a static PartitionRouter (verif-only constructor overlaid into pkg/metadata), static
// brokerAddrs / topicNames tables and fake TCP backends on 127.0.0.1 whose n-th request
// is answered as scripted (reply with chosen per-partition codes, close after reading,
// garbage reply; down backends refuse the dial).  The implementation-side oracle checks
// the three clauses of C27 on what the real code did; every case with its observations
// (merged response, sub-requests per backend, final routing table) is emitted as a Coq
// term for corr/ProxyCorr.v (check_pcase).

import (
	"context"
	"encoding/json"
	"fmt"
	"io"
	"log/slog"
	"net"
	"sort"
	"strings"
	"sync"
	"testing"
	"time"

	"github.com/KafScale/platform/pkg/metadata"
	"github.com/KafScale/platform/pkg/protocol"
	"github.com/twmb/franz-go/pkg/kmsg"
)

type c27TP struct {
	T int   `json:"t"` // index of the topic in the request
	P int32 `json:"p"`
}
type c27Code struct {
	T    int   `json:"t"`
	P    int32 `json:"p"`
	Code int16 `json:"code"`
}
type c27Step struct {
	Kind    string    `json:"kind"` // reply | fail_after | garbage
	Default int16     `json:"default,omitempty"`
	Codes   []c27Code `json:"codes,omitempty"`
	Omit    []c27TP   `json:"omit,omitempty"` // reply leaves these partitions out (separate stream)
}
type c27Backend struct {
	Down   bool      `json:"down,omitempty"`
	Script []c27Step `json:"script,omitempty"`
}
type c27Topic struct {
	Name       string   `json:"name"`
	ID         [16]byte `json:"id"`
	Parts      []int32  `json:"parts"`
	Resolvable bool     `json:"resolvable,omitempty"` // v13: topicNames knows the id
}
type c27Route struct {
	T      int    `json:"t"`
	P      int32  `json:"p"`
	Broker string `json:"broker"`
}
type c27Addr struct {
	ID string `json:"id"`
	B  int    `json:"b"` // backend index; -1: an address nobody listens on and not in the backend list
}
type c27Case struct {
	Fetch    bool         `json:"fetch"`
	Version  int16        `json:"version"`
	Topics   []c27Topic   `json:"topics"`
	Backends []c27Backend `json:"backends"`
	Addrs    []c27Addr    `json:"addrs,omitempty"`
	Routes   []c27Route   `json:"routes,omitempty"`
	RR       uint32       `json:"rr"`
	Retries  int          `json:"retries"`
}

func (cs c27Case) byID() bool { return cs.Fetch && cs.Version >= 13 }
func (cs c27Case) omitting() bool {
	for _, b := range cs.Backends {
		for _, s := range b.Script {
			if len(s.Omit) > 0 {
				return true
			}
		}
	}
	return false
}

type c27WTopic struct { // a topic as it is on the wire
	Name string
	ID   [16]byte
}
type c27Sub struct {
	Topic c27WTopic
	Parts []int32
}
type c27RPart struct {
	Topic c27WTopic
	P     int32
	Code  int16
}
type c27Recv struct {
	seq   int
	sub   []c27Sub
	kind  string
	parts []c27RPart
}

type c27Fake struct {
	idx    int
	cs     *c27Case
	ln     net.Listener
	addr   string
	mu     sync.Mutex
	recv   []c27Recv
	seq    *int
	seqMu  *sync.Mutex
	closed chan struct{}
	static *c27Step      // concurrent stream: every request is answered by this step
	gate   chan struct{} // concurrent stream: replies are held until the gate opens
}

func (b *c27Fake) topicIndex(w c27WTopic) int {
	for i, t := range b.cs.Topics {
		if b.cs.byID() {
			if t.ID == w.ID {
				return i
			}
		} else if t.Name == w.Name {
			return i
		}
	}
	return -1
}

func (b *c27Fake) serve() {
	for {
		c, err := b.ln.Accept()
		if err != nil {
			return
		}
		go b.conn(c)
	}
}

func (b *c27Fake) conn(c net.Conn) {
	defer c.Close()
	for {
		frame, err := protocol.ReadFrame(c)
		if err != nil {
			return
		}
		header, req, err := protocol.ParseRequest(frame.Payload)
		if err != nil {
			return
		}
		var sub []c27Sub
		switch r := req.(type) {
		case *kmsg.ProduceRequest:
			for _, t := range r.Topics {
				s := c27Sub{Topic: c27WTopic{Name: t.Topic}}
				for _, p := range t.Partitions {
					s.Parts = append(s.Parts, p.Partition)
				}
				sub = append(sub, s)
			}
		case *kmsg.FetchRequest:
			for _, t := range r.Topics {
				s := c27Sub{Topic: c27WTopic{Name: t.Topic, ID: t.TopicID}}
				for _, p := range t.Partitions {
					s.Parts = append(s.Parts, p.Partition)
				}
				sub = append(sub, s)
			}
		default:
			return
		}
		b.seqMu.Lock()
		*b.seq++
		seq := *b.seq
		b.seqMu.Unlock()
		b.mu.Lock()
		n := len(b.recv)
		step := c27Step{Kind: "reply"}
		if n < len(b.cs.Backends[b.idx].Script) {
			step = b.cs.Backends[b.idx].Script[n]
		}
		if b.static != nil {
			step = *b.static
		}
		rc := c27Recv{seq: seq, sub: sub, kind: step.Kind}
		if step.Kind == "reply" {
			for _, s := range sub {
				ti := b.topicIndex(s.Topic)
				for _, p := range s.Parts {
					omit := false
					for _, o := range step.Omit {
						if o.T == ti && o.P == p {
							omit = true
						}
					}
					if omit {
						continue
					}
					code := step.Default
					for _, cd := range step.Codes {
						if cd.T == ti && cd.P == p {
							code = cd.Code
						}
					}
					rc.parts = append(rc.parts, c27RPart{Topic: s.Topic, P: p, Code: code})
				}
			}
		}
		b.recv = append(b.recv, rc)
		b.mu.Unlock()
		if b.gate != nil {
			<-b.gate
		}
		switch step.Kind {
		case "fail_after":
			return
		case "garbage":
			_ = protocol.WriteFrame(c, []byte{0, 0, 0, byte(header.CorrelationID), 0xff, 0xff, 0xff})
			continue
		}
		var resp kmsg.Response
		if b.cs.Fetch {
			fr := kmsg.NewPtrFetchResponse()
			for _, rp := range rc.parts {
				var rt *kmsg.FetchResponseTopic
				for i := range fr.Topics {
					if fr.Topics[i].Topic == rp.Topic.Name && fr.Topics[i].TopicID == rp.Topic.ID {
						rt = &fr.Topics[i]
					}
				}
				if rt == nil {
					nt := kmsg.NewFetchResponseTopic()
					nt.Topic, nt.TopicID = rp.Topic.Name, rp.Topic.ID
					fr.Topics = append(fr.Topics, nt)
					rt = &fr.Topics[len(fr.Topics)-1]
				}
				pp := kmsg.NewFetchResponseTopicPartition()
				pp.Partition, pp.ErrorCode = rp.P, rp.Code
				rt.Partitions = append(rt.Partitions, pp)
			}
			resp = fr
		} else {
			pr := kmsg.NewPtrProduceResponse()
			for _, rp := range rc.parts {
				var rt *kmsg.ProduceResponseTopic
				for i := range pr.Topics {
					if pr.Topics[i].Topic == rp.Topic.Name {
						rt = &pr.Topics[i]
					}
				}
				if rt == nil {
					nt := kmsg.NewProduceResponseTopic()
					nt.Topic = rp.Topic.Name
					pr.Topics = append(pr.Topics, nt)
					rt = &pr.Topics[len(pr.Topics)-1]
				}
				pp := kmsg.NewProduceResponseTopicPartition()
				pp.Partition, pp.ErrorCode, pp.BaseOffset = rp.P, rp.Code, int64(seq)
				rt.Partitions = append(rt.Partitions, pp)
			}
			resp = pr
		}
		if err := protocol.WriteFrame(c, protocol.EncodeResponse(header.CorrelationID, header.APIVersion, resp)); err != nil {
			return
		}
	}
}

type c27Result struct {
	merged  []c27RPart
	recv    [][]c27Recv // per backend
	routes  []metadata.PartitionRoute
	fail    string
	failKey string
	failOr  string
	tags    map[string]bool
	lost    int // requested partitions without an entry (only counted in the omitting stream)
}

func c27Payload(req kmsg.Request, corr int32) []byte {
	f := kmsg.NewRequestFormatter(kmsg.FormatterClientID("verif"))
	return f.AppendRequest(nil, req, corr)[4:]
}

func (cs c27Case) ident(w c27WTopic) string {
	if cs.byID() {
		return fmt.Sprintf("%x", w.ID)
	}
	return w.Name
}

// c27Send encodes the request of cs, sends it through the real routing entry point of p
// and returns the decoded merged response, flattened.
func c27Send(ctx context.Context, p *proxy, cs c27Case, pool *connPool) ([]c27RPart, error) {
	var merged []c27RPart
	var out []byte
	var err error
	if cs.Fetch {
		req := kmsg.NewPtrFetchRequest()
		req.Version = cs.Version
		req.MaxWaitMillis, req.MinBytes, req.MaxBytes = 10, 1, 1 << 20
		for _, t := range cs.Topics {
			rt := kmsg.NewFetchRequestTopic()
			rt.Topic, rt.TopicID = t.Name, t.ID
			for _, pp := range t.Parts {
				rp := kmsg.NewFetchRequestTopicPartition()
				rp.Partition, rp.PartitionMaxBytes = pp, 1<<20
				rt.Partitions = append(rt.Partitions, rp)
			}
			req.Topics = append(req.Topics, rt)
		}
		payload := c27Payload(req, 42)
		header, _, herr := protocol.ParseRequestHeader(payload)
		if herr != nil {
			return nil, fmt.Errorf("header: %v", herr)
		}
		out, err = p.handleFetchRouting(ctx, header, payload, pool)
	} else {
		req := kmsg.NewPtrProduceRequest()
		req.Version = cs.Version
		req.Acks, req.TimeoutMillis = 1, 1000
		for ti, t := range cs.Topics {
			rt := kmsg.NewProduceRequestTopic()
			rt.Topic = t.Name
			for _, pp := range t.Parts {
				rp := kmsg.NewProduceRequestTopicPartition()
				rp.Partition = pp
				rp.Records = []byte{byte(ti), byte(pp), 1, 2, 3}
				rt.Partitions = append(rt.Partitions, rp)
			}
			req.Topics = append(req.Topics, rt)
		}
		payload := c27Payload(req, 42)
		header, _, herr := protocol.ParseRequestHeader(payload)
		if herr != nil {
			return nil, fmt.Errorf("header: %v", herr)
		}
		out, err = p.handleProduceRouting(ctx, header, payload, pool)
	}
	if err != nil {
		return nil, fmt.Errorf("routing returned error: %v", err)
	}
	if cs.Fetch {
		fr, perr := parseFetchResponse(out, cs.Version)
		if perr != nil {
			return nil, fmt.Errorf("merged fetch response does not decode: %v", perr)
		}
		for _, t := range fr.Topics {
			for _, pp := range t.Partitions {
				merged = append(merged, c27RPart{Topic: c27WTopic{Name: t.Topic, ID: t.TopicID}, P: pp.Partition, Code: pp.ErrorCode})
			}
		}
	} else {
		pr, perr := parseProduceResponse(out, cs.Version)
		if perr != nil {
			return nil, fmt.Errorf("merged produce response does not decode: %v", perr)
		}
		for _, t := range pr.Topics {
			for _, pp := range t.Partitions {
				merged = append(merged, c27RPart{Topic: c27WTopic{Name: t.Topic}, P: pp.Partition, Code: pp.ErrorCode})
			}
		}
	}
	return merged, nil
}

func c27Run(cs c27Case) c27Result {
	res := c27Result{tags: map[string]bool{}}
	setFail := func(oracle, key, what string) {
		if res.fail == "" {
			res.fail, res.failKey, res.failOr = what, key, oracle
		}
	}
	seq := 0
	var seqMu sync.Mutex
	fakes := make([]*c27Fake, len(cs.Backends))
	addrs := make([]string, len(cs.Backends))
	for i := range cs.Backends {
		ln, err := net.Listen("tcp", "127.0.0.1:0")
		if err != nil {
			setFail("harness", "harness", "listen: "+err.Error())
			return res
		}
		f := &c27Fake{idx: i, cs: &cs, ln: ln, addr: ln.Addr().String(), seq: &seq, seqMu: &seqMu}
		fakes[i], addrs[i] = f, f.addr
		if cs.Backends[i].Down {
			ln.Close()
		} else {
			go f.serve()
		}
	}
	defer func() {
		for _, f := range fakes {
			f.ln.Close()
		}
	}()
	nobody := ""
	{
		ln, err := net.Listen("tcp", "127.0.0.1:0")
		if err == nil {
			nobody = ln.Addr().String()
			ln.Close()
		}
	}
	p := &proxy{backends: addrs, logger: slog.New(slog.NewTextHandler(io.Discard, nil)), dialTimeout: 2 * time.Second,
		backendRetries: cs.Retries, backendBackoff: 0, rr: cs.RR,
		brokerAddrs: map[string]string{}, topicNames: map[[16]byte]string{}}
	p.setReady(true)
	for _, a := range cs.Addrs {
		if a.B >= 0 && a.B < len(addrs) {
			p.brokerAddrs[a.ID] = addrs[a.B]
		} else {
			p.brokerAddrs[a.ID] = nobody
		}
	}
	var routes []metadata.PartitionRoute
	for _, r := range cs.Routes {
		routes = append(routes, metadata.PartitionRoute{Topic: cs.Topics[r.T].Name, Partition: r.P, BrokerID: r.Broker})
	}
	p.router = metadata.VerifNewPartitionRouter(routes)
	for _, t := range cs.Topics {
		if cs.byID() && t.Resolvable {
			p.topicNames[t.ID] = t.Name
		}
	}
	ctx, cancel := context.WithTimeout(context.Background(), 20*time.Second)
	defer cancel()
	pool := newConnPool(2 * time.Second)
	defer pool.Close()

	merged, herr := c27Send(ctx, p, cs, pool)
	if herr != nil {
		setFail("harness", "harness", herr.Error())
		return res
	}
	res.merged = merged
	for _, f := range fakes {
		f.mu.Lock()
		res.recv = append(res.recv, append([]c27Recv(nil), f.recv...))
		f.mu.Unlock()
	}
	res.routes = p.router.AllRoutes()
	sort.Slice(res.routes, func(i, j int) bool {
		if res.routes[i].Topic != res.routes[j].Topic {
			return res.routes[i].Topic < res.routes[j].Topic
		}
		return res.routes[i].Partition < res.routes[j].Partition
	})

	// ------------- implementation-side oracle -------------
	type tp struct {
		id string
		p  int32
	}
	requested := map[tp]int{}
	for _, t := range cs.Topics {
		w := c27WTopic{Name: t.Name, ID: t.ID}
		if cs.byID() {
			w.Name = ""
		}
		for _, pp := range t.Parts {
			requested[tp{cs.ident(w), pp}]++
		}
	}
	answered := map[tp]int{}
	for _, e := range res.merged {
		answered[tp{cs.ident(e.Topic), e.P}]++
	}
	omitting := cs.omitting()
	// (1) exactly one entry per requested topic-partition
	for k, n := range requested {
		if answered[k] == 0 {
			if omitting {
				res.lost++
			} else {
				setFail("exactly_once", "missing-entry", fmt.Sprintf("requested %s/%d has no entry in the merged response", k.id, k.p))
			}
		} else if answered[k] > n {
			if !omitting {
				setFail("exactly_once", "duplicate-entry", fmt.Sprintf("requested %s/%d has %d entries in the merged response", k.id, k.p, answered[k]))
			}
		}
	}
	for k := range answered {
		if requested[k] == 0 && !omitting {
			setFail("exactly_once", "unrequested-entry", fmt.Sprintf("merged response has an entry for %s/%d which was not requested", k.id, k.p))
		}
	}
	// all sends in global order
	type send struct {
		seq     int
		backend int
		rc      c27Recv
	}
	var sends []send
	for bi, l := range res.recv {
		for _, rc := range l {
			sends = append(sends, send{rc.seq, bi, rc})
		}
	}
	sort.Slice(sends, func(i, j int) bool { return sends[i].seq < sends[j].seq })
	// (2) success only if a backend replied success
	for _, e := range res.merged {
		if e.Code != 0 {
			continue
		}
		ok := false
		for _, s := range sends {
			for _, rp := range s.rc.parts {
				if cs.ident(rp.Topic) == cs.ident(e.Topic) && rp.P == e.P && rp.Code == 0 {
					ok = true
				}
			}
		}
		if !ok {
			setFail("success_sound", "success-without-backend-success", fmt.Sprintf("%s/%d is reported successful but no backend replied success for it", cs.ident(e.Topic), e.P))
		}
	}
	// (3) produce: a partition is sent again only after a NOT_LEADER reply for it
	if !cs.Fetch {
		for k := range requested {
			var outcomes []string
			for _, s := range sends {
				has := false
				for _, sb := range s.rc.sub {
					for _, pp := range sb.Parts {
						if cs.ident(sb.Topic) == k.id && pp == k.p {
							has = true
						}
					}
				}
				if !has {
					continue
				}
				o := s.rc.kind
				if s.rc.kind == "reply" {
					o = "reply-omitted"
					for _, rp := range s.rc.parts {
						if cs.ident(rp.Topic) == k.id && rp.P == k.p {
							if rp.Code == protocol.NOT_LEADER_OR_FOLLOWER {
								o = "not_leader"
							} else {
								o = fmt.Sprintf("reply-code-%d", rp.Code)
							}
						}
					}
				}
				outcomes = append(outcomes, o)
			}
			for i := 0; i+1 < len(outcomes); i++ {
				if outcomes[i] != "not_leader" {
					key := "resend-after-" + strings.SplitN(outcomes[i], "-code-", 2)[0]
					setFail("resend_only_not_leader", key, fmt.Sprintf("produce partition %s/%d was sent %d times; outcomes in order: %v (a resend is allowed only after NOT_LEADER_OR_FOLLOWER)", k.id, k.p, len(outcomes), outcomes))
				}
			}
			if len(outcomes) > 1 {
				res.tags["resent"] = true
			}
		}
	}
	// tags
	if len(sends) > 1 {
		res.tags["multi-send"] = true
	}
	for _, s := range sends {
		res.tags[s.rc.kind] = true
		for _, rp := range s.rc.parts {
			if rp.Code == protocol.NOT_LEADER_OR_FOLLOWER {
				res.tags["not_leader"] = true
			}
		}
	}
	for _, e := range res.merged {
		if e.Code == protocol.REQUEST_TIMED_OUT {
			res.tags["timed_out_entry"] = true
		}
		if e.Code == protocol.NOT_LEADER_OR_FOLLOWER {
			res.tags["not_leader_entry"] = true
		}
	}
	return res
}

// ---------------- generator ----------------
func c27Gen(r *vRand, omitting bool) c27Case {
	cs := c27Case{Fetch: r.Bool(), RR: uint32(r.Intn(6)), Retries: r.Range(1, 2)}
	if cs.Fetch {
		cs.Version = []int16{11, 12, 13, 13}[r.Intn(4)]
	} else {
		cs.Version = int16(r.Range(3, 9))
	}
	names := []string{"orders", "events", "a", "b.c", "t:1"}
	perm := []int{0, 1, 2, 3, 4}
	for i := range perm {
		j := i + r.Intn(len(perm)-i)
		perm[i], perm[j] = perm[j], perm[i]
	}
	nt := r.Range(1, 3)
	for i := 0; i < nt; i++ {
		t := c27Topic{Name: names[perm[i]]}
		if cs.byID() {
			t.ID = [16]byte{byte(i + 1), byte(r.Intn(256)), 7}
			t.Resolvable = !r.Chance(25)
		}
		avail := []int32{0, 1, 2, 3, 4}
		for k := r.Range(1, 3); k > 0; k-- {
			j := r.Intn(len(avail))
			t.Parts = append(t.Parts, avail[j])
			avail = append(avail[:j], avail[j+1:]...)
		}
		cs.Topics = append(cs.Topics, t)
	}
	nb := r.Range(1, 3)
	for i := 0; i < nb; i++ {
		b := c27Backend{Down: r.Chance(12)}
		for k := r.Range(0, 3); k > 0; k-- {
			st := c27Step{Kind: "reply"}
			switch x := r.Intn(100); {
			case x < 12:
				st.Kind = "fail_after"
			case x < 24:
				st.Kind = "garbage"
			}
			if st.Kind == "reply" {
				switch x := r.Intn(10); {
				case x < 6:
					st.Default = 0
				case x < 9:
					st.Default = protocol.NOT_LEADER_OR_FOLLOWER
				default:
					st.Default = []int16{3, 1, 7}[r.Intn(3)]
				}
				for q := r.Range(0, 3); q > 0; q-- {
					ti := r.Intn(len(cs.Topics))
					st.Codes = append(st.Codes, c27Code{T: ti, P: cs.Topics[ti].Parts[r.Intn(len(cs.Topics[ti].Parts))],
						Code: []int16{0, 6, 6, 3}[r.Intn(4)]})
				}
				if omitting && r.Chance(60) {
					ti := r.Intn(len(cs.Topics))
					st.Omit = append(st.Omit, c27TP{T: ti, P: cs.Topics[ti].Parts[r.Intn(len(cs.Topics[ti].Parts))]})
				}
			}
			b.Script = append(b.Script, st)
		}
		cs.Backends = append(cs.Backends, b)
	}
	for i := 0; i < nb; i++ {
		if !r.Chance(10) {
			cs.Addrs = append(cs.Addrs, c27Addr{ID: fmt.Sprintf("%d", i+1), B: i})
		}
	}
	if r.Chance(15) {
		cs.Addrs = append(cs.Addrs, c27Addr{ID: "7", B: -1})
	}
	for ti, t := range cs.Topics {
		for _, pp := range t.Parts {
			if r.Chance(75) {
				cs.Routes = append(cs.Routes, c27Route{T: ti, P: pp, Broker: []string{"1", "2", "3", "1", "2", "7", "9"}[r.Intn(7)]})
			}
		}
	}
	return cs
}


// ---------------- concurrent stream ----------------
// Several produce (or fetch) requests over overlapping topics but different partitions are
// sent through ONE proxy at the same time (own connPool each, like separate client
// connections).  The fake backends hold every reply until all requests have a sub-request
// in flight, so the requests overlap.  To keep the expected replies independent of the
// interleaving, every backend answers by content only (a fixed code per topic-partition),
// all backends are up, every partition has an owner, and owners are at most nb-1 backends
// (so the round-robin fallback always finds a free backend).  Each reply is judged against
// its own request; the same requests are then sent one at a time as reference.
type c27Group struct {
	Fetch    bool         `json:"fetch"`
	Version  int16        `json:"version"`
	NB       int          `json:"backends"`
	Universe []c27Topic   `json:"universe"` // topics with all their partitions
	Codes    []c27Code    `json:"codes,omitempty"`
	Routes   []c27Route   `json:"routes"`
	RR       uint32       `json:"rr"`
	Retries  int          `json:"retries"`
	Reqs     [][]c27Topic `json:"reqs"`
}

func (g c27Group) univ() c27Case {
	cs := c27Case{Fetch: g.Fetch, Version: g.Version, Topics: g.Universe, RR: g.RR, Retries: g.Retries, Routes: g.Routes}
	for i := 0; i < g.NB; i++ {
		cs.Backends = append(cs.Backends, c27Backend{})
		cs.Addrs = append(cs.Addrs, c27Addr{ID: fmt.Sprintf("%d", i+1), B: i})
	}
	return cs
}

func (g c27Group) code(cs c27Case, w c27WTopic, p int32) int16 {
	for ti, t := range g.Universe {
		if (cs.byID() && t.ID == w.ID) || (!cs.byID() && t.Name == w.Name) {
			for _, c := range g.Codes {
				if c.T == ti && c.P == p {
					return c.Code
				}
			}
		}
	}
	return 0
}

type c27GroupRun struct {
	merged [][]c27RPart
	errs   []error
	sends  map[string]int // ident/partition -> sub-requests containing it, over all backends
}

func c27ExecGroup(g c27Group, concurrent bool) c27GroupRun {
	univ := g.univ()
	run := c27GroupRun{merged: make([][]c27RPart, len(g.Reqs)), errs: make([]error, len(g.Reqs)), sends: map[string]int{}}
	seq := 0
	var seqMu sync.Mutex
	static := &c27Step{Kind: "reply", Codes: g.Codes}
	var gate chan struct{}
	if concurrent {
		gate = make(chan struct{})
	}
	var fakes []*c27Fake
	var addrs []string
	for i := 0; i < g.NB; i++ {
		ln, err := net.Listen("tcp", "127.0.0.1:0")
		if err != nil {
			for k := range run.errs {
				run.errs[k] = err
			}
			return run
		}
		f := &c27Fake{idx: i, cs: &univ, ln: ln, addr: ln.Addr().String(), seq: &seq, seqMu: &seqMu, static: static, gate: gate}
		fakes, addrs = append(fakes, f), append(addrs, f.addr)
		go f.serve()
	}
	defer func() {
		for _, f := range fakes {
			f.ln.Close()
		}
	}()
	p := &proxy{backends: addrs, logger: slog.New(slog.NewTextHandler(io.Discard, nil)), dialTimeout: 2 * time.Second,
		backendRetries: g.Retries, backendBackoff: 0, rr: g.RR,
		brokerAddrs: map[string]string{}, topicNames: map[[16]byte]string{}}
	p.setReady(true)
	for i, a := range addrs {
		p.brokerAddrs[fmt.Sprintf("%d", i+1)] = a
	}
	var routes []metadata.PartitionRoute
	for _, r := range g.Routes {
		routes = append(routes, metadata.PartitionRoute{Topic: g.Universe[r.T].Name, Partition: r.P, BrokerID: r.Broker})
	}
	p.router = metadata.VerifNewPartitionRouter(routes)
	for _, t := range g.Universe {
		if univ.byID() {
			p.topicNames[t.ID] = t.Name
		}
	}
	ctx, cancel := context.WithTimeout(context.Background(), 30*time.Second)
	defer cancel()
	one := func(i int) {
		cs := univ
		cs.Topics = g.Reqs[i]
		pool := newConnPool(2 * time.Second)
		defer pool.Close()
		run.merged[i], run.errs[i] = c27Send(ctx, p, cs, pool)
	}
	received := func() int {
		n := 0
		for _, f := range fakes {
			f.mu.Lock()
			n += len(f.recv)
			f.mu.Unlock()
		}
		return n
	}
	if concurrent {
		var wg sync.WaitGroup
		for i := range g.Reqs {
			i := i
			wg.Add(1)
			go func() { defer wg.Done(); one(i) }()
		}
		// open the gate once every request has a sub-request parked at a backend (count
		// stable for 20ms), or after 2s (requests coalesced by a changed proxy never arrive)
		deadline := time.Now().Add(2 * time.Second)
		last, stableSince := -1, time.Now()
		for time.Now().Before(deadline) {
			n := received()
			if n != last {
				last, stableSince = n, time.Now()
			}
			if n >= len(g.Reqs) && time.Since(stableSince) >= 20*time.Millisecond {
				break
			}
			time.Sleep(2 * time.Millisecond)
		}
		close(gate)
		wg.Wait()
	} else {
		for i := range g.Reqs {
			one(i)
		}
	}
	for _, f := range fakes {
		f.mu.Lock()
		for _, rc := range f.recv {
			for _, sb := range rc.sub {
				for _, pp := range sb.Parts {
					run.sends[fmt.Sprintf("%s/%d", univ.ident(sb.Topic), pp)]++
				}
			}
		}
		f.mu.Unlock()
	}
	return run
}

func c27EntryList(cs c27Case, m []c27RPart) []string {
	var l []string
	for _, e := range m {
		l = append(l, fmt.Sprintf("%s/%d=%d", cs.ident(e.Topic), e.P, e.Code))
	}
	sort.Strings(l)
	return l
}

// c27JudgeGroup: first failure (oracle, key, what) of the concurrent run, "" if none.
func c27JudgeGroup(g c27Group) (string, string, string) {
	univ := g.univ()
	conc := c27ExecGroup(g, true)
	ref := c27ExecGroup(g, false)
	containing := map[string]int{}
	for i, req := range g.Reqs {
		if conc.errs[i] != nil {
			return "harness", "harness-error", fmt.Sprintf("request %d: %v", i, conc.errs[i])
		}
		if ref.errs[i] != nil {
			return "harness", "harness-error", fmt.Sprintf("reference request %d: %v", i, ref.errs[i])
		}
		want := map[string]int{}
		for _, t := range req {
			w := c27WTopic{Name: t.Name, ID: t.ID}
			for _, pp := range t.Parts {
				k := fmt.Sprintf("%s/%d", univ.ident(w), pp)
				want[k]++
				containing[k]++
			}
		}
		got := map[string]int{}
		for _, e := range conc.merged[i] {
			k := fmt.Sprintf("%s/%d", univ.ident(e.Topic), e.P)
			got[k]++
			if e.Code == 0 && g.code(univ, e.Topic, e.P) != 0 {
				return "success_sound", "concurrent-success-without-backend-success", fmt.Sprintf("request %d of %d issued concurrently: %s is reported successful but every backend answers code %d for it", i, len(g.Reqs), k, g.code(univ, e.Topic, e.P))
			}
		}
		for k := range want {
			if got[k] == 0 {
				return "exactly_once", "concurrent-missing-entry", fmt.Sprintf("request %d of %d issued concurrently: requested %s has no entry in its merged response %v", i, len(g.Reqs), k, c27EntryList(univ, conc.merged[i]))
			}
			if got[k] > 1 {
				return "exactly_once", "concurrent-duplicate-entry", fmt.Sprintf("request %d of %d issued concurrently: requested %s has %d entries", i, len(g.Reqs), k, got[k])
			}
		}
		for k := range got {
			if want[k] == 0 {
				return "exactly_once", "concurrent-unrequested-entry", fmt.Sprintf("request %d of %d issued concurrently: its merged response has an entry for %s which it did not request (requested %v)", i, len(g.Reqs), k, want)
			}
		}
		a, b := strings.Join(c27EntryList(univ, conc.merged[i]), " "), strings.Join(c27EntryList(univ, ref.merged[i]), " ")
		if a != b {
			return "concurrent", "concurrent-reply-differs-from-sequential", fmt.Sprintf("request %d of %d: merged response while other requests were in flight [%s], alone [%s]", i, len(g.Reqs), a, b)
		}
	}
	if !g.Fetch {
		// no duplicate writes: a partition is sent once per request containing it (three
		// times when every backend rejects it as NOT_LEADER: the retries)
		for ti, t := range g.Universe {
			for _, pp := range t.Parts {
				w := c27WTopic{Name: t.Name, ID: t.ID}
				k := fmt.Sprintf("%s/%d", univ.ident(w), pp)
				per := 1
				if g.code(univ, w, pp) == protocol.NOT_LEADER_OR_FOLLOWER {
					per = 3
				}
				_ = ti
				if conc.sends[k] > per*containing[k] {
					return "resend_only_not_leader", "concurrent-extra-send", fmt.Sprintf("produce partition %s was sent %d times for %d concurrent requests containing it (at most %d each)", k, conc.sends[k], containing[k], per)
				}
			}
		}
	}
	return "", "", ""
}

func c27GenGroup(r *vRand) c27Group {
	g := c27Group{Fetch: r.Bool(), NB: r.Range(2, 3), RR: uint32(r.Intn(6)), Retries: r.Range(1, 2)}
	if g.Fetch {
		g.Version = []int16{11, 12, 13, 13}[r.Intn(4)]
	} else {
		g.Version = int16(r.Range(3, 9))
	}
	names := []string{"orders", "events", "a"}
	nt := r.Range(1, 3)
	for i := 0; i < nt; i++ {
		t := c27Topic{Name: names[i], Parts: []int32{0, 1, 2, 3}}
		if g.Fetch && g.Version >= 13 {
			t.ID = [16]byte{byte(i + 1), 9}
			t.Resolvable = true
		}
		g.Universe = append(g.Universe, t)
		for _, pp := range t.Parts {
			g.Routes = append(g.Routes, c27Route{T: i, P: pp, Broker: fmt.Sprintf("%d", 1+r.Intn(g.NB-1))})
			if r.Chance(30) {
				g.Codes = append(g.Codes, c27Code{T: i, P: pp, Code: []int16{6, 6, 3, 1}[r.Intn(4)]})
			}
		}
	}
	nr := r.Range(2, 4)
	for k := 0; k < nr; k++ {
		var req []c27Topic
		for _, t := range g.Universe {
			if len(req) > 0 && r.Chance(25) {
				continue
			}
			q := c27Topic{Name: t.Name, ID: t.ID, Resolvable: t.Resolvable}
			for _, pp := range t.Parts {
				if r.Chance(45) {
					q.Parts = append(q.Parts, pp)
				}
			}
			if len(q.Parts) == 0 {
				q.Parts = []int32{t.Parts[r.Intn(len(t.Parts))]}
			}
			req = append(req, q)
		}
		g.Reqs = append(g.Reqs, req)
	}
	return g
}

// ---------------- Coq emission ----------------
func c27CoqTopic(w c27WTopic) string {
	return fmt.Sprintf("mkTopic %s %s", cqStr(w.Name), cqBytes(w.ID[:]))
}
func c27BackendName(i int) string {
	if i < 0 {
		return "x"
	}
	return fmt.Sprintf("b%d", i)
}
func c27Coq(cs c27Case, res c27Result) string {
	var names, addrs, backends, down, routes, req, merged, scripts, froutes []string
	for _, t := range cs.Topics {
		if cs.byID() && t.Resolvable {
			names = append(names, fmt.Sprintf("(%s, %s)", cqBytes(t.ID[:]), cqStr(t.Name)))
		}
		w := c27WTopic{Name: t.Name, ID: t.ID}
		if cs.byID() {
			w.Name = ""
		}
		ps := make([]int64, len(t.Parts))
		for i, p := range t.Parts {
			ps[i] = int64(p)
		}
		req = append(req, fmt.Sprintf("(%s, %s)", c27CoqTopic(w), cqZs(ps)))
	}
	for _, a := range cs.Addrs {
		addrs = append(addrs, fmt.Sprintf("(%s, %s)", cqStr(a.ID), cqStr(c27BackendName(a.B))))
	}
	for i, b := range cs.Backends {
		backends = append(backends, cqStr(c27BackendName(i)))
		if b.Down {
			down = append(down, cqStr(c27BackendName(i)))
		}
	}
	down = append(down, cqStr("x"))
	for _, r := range cs.Routes {
		routes = append(routes, fmt.Sprintf("(%s, %s, %s)", cqStr(cs.Topics[r.T].Name), cqZ(int64(r.P)), cqStr(r.Broker)))
	}
	for _, e := range res.merged {
		merged = append(merged, fmt.Sprintf("(%s, %s, %s)", c27CoqTopic(e.Topic), cqZ(int64(e.P)), cqZ(int64(e.Code))))
	}
	for i, l := range res.recv {
		var ents []string
		for _, rc := range l {
			var subs []string
			for _, s := range rc.sub {
				ps := make([]int64, len(s.Parts))
				for k, p := range s.Parts {
					ps[k] = int64(p)
				}
				subs = append(subs, fmt.Sprintf("(%s, %s)", c27CoqTopic(s.Topic), cqZs(ps)))
			}
			o := ""
			switch rc.kind {
			case "reply":
				var parts []string
				for _, rp := range rc.parts {
					parts = append(parts, fmt.Sprintf("(%s, %s, %s)", c27CoqTopic(rp.Topic), cqZ(int64(rp.P)), cqZ(int64(rp.Code))))
				}
				o = "Reply " + cqList(parts)
			case "fail_after":
				o = "FailAfter"
			default:
				o = "Unparseable"
			}
			ents = append(ents, fmt.Sprintf("(%s, %s)", cqList(subs), o))
		}
		scripts = append(scripts, fmt.Sprintf("(%s, %s)", cqStr(c27BackendName(i)), cqList(ents)))
	}
	for _, r := range res.routes {
		froutes = append(froutes, fmt.Sprintf("(%s, %s, %s)", cqStr(r.Topic), cqZ(int64(r.Partition)), cqStr(r.BrokerID)))
	}
	return fmt.Sprintf("mkPCase (mkEnv %s %s %s %s %d) %s %s %s %s %s %s %s %s",
		cqBool(cs.Fetch), cqList(names), cqList(addrs), cqList(backends), cs.Retries,
		cqBool(cs.byID()), cqList(routes), cqZ(int64(cs.RR)), cqList(down), cqList(req),
		cqList(scripts), cqList(merged), cqList(froutes))
}

func c27Shrink(cs c27Case, key string) c27Case {
	fails := func(c c27Case) bool {
		for i := 0; i < 2; i++ { // map iteration order varies: try twice
			r := c27Run(c)
			if r.fail != "" && r.failKey == key {
				return true
			}
		}
		return false
	}
	cur := cs
	// drop whole topics (re-indexing scripts and routes is avoided: only trailing topics)
	for len(cur.Topics) > 1 {
		c := cur
		last := len(cur.Topics) - 1
		c.Topics = cur.Topics[:last]
		c.Routes = nil
		for _, r := range cur.Routes {
			if r.T != last {
				c.Routes = append(c.Routes, r)
			}
		}
		c.Backends = nil
		for _, b := range cur.Backends {
			nb := c27Backend{Down: b.Down}
			for _, s := range b.Script {
				ns := c27Step{Kind: s.Kind, Default: s.Default}
				for _, cd := range s.Codes {
					if cd.T != last {
						ns.Codes = append(ns.Codes, cd)
					}
				}
				for _, o := range s.Omit {
					if o.T != last {
						ns.Omit = append(ns.Omit, o)
					}
				}
				nb.Script = append(nb.Script, ns)
			}
			c.Backends = append(c.Backends, nb)
		}
		if !fails(c) {
			break
		}
		cur = c
	}
	for ti := range cur.Topics {
		ti := ti
		parts := vShrink(cur.Topics[ti].Parts, func(ps []int32) bool {
			if len(ps) == 0 {
				return false
			}
			c := cur
			c.Topics = append([]c27Topic(nil), cur.Topics...)
			c.Topics[ti].Parts = ps
			return fails(c)
		})
		ts := append([]c27Topic(nil), cur.Topics...)
		ts[ti].Parts = parts
		cur.Topics = ts
	}
	cur.Routes = vShrink(cur.Routes, func(rs []c27Route) bool {
		c := cur
		c.Routes = rs
		return fails(c)
	})
	for bi := range cur.Backends {
		bi := bi
		sc := vShrink(cur.Backends[bi].Script, func(ss []c27Step) bool {
			c := cur
			c.Backends = append([]c27Backend(nil), cur.Backends...)
			c.Backends[bi].Script = ss
			return fails(c)
		})
		bs := append([]c27Backend(nil), cur.Backends...)
		bs[bi].Script = sc
		cur.Backends = bs
	}
	if !fails(cur) {
		return cs
	}
	return cur
}

func TestVerifC27(t *testing.T) {
	rep := vNewReport("C27", "generated produce (v3-v9, acks=1) and fetch (v11, v12 by name; v13 by topic id, resolvable or not) requests with 1-3 topics x 1-3 distinct partitions through the real handleProduceRouting / handleFetchRouting with a static PartitionRouter (routes to known, unknown and unmapped broker ids or none), 1-3 fake TCP backends (down, or scripted per received request: reply with per-partition codes incl. NOT_LEADER_OR_FOLLOWER, close after reading, undecodable reply), round-robin counter 0-5, backendRetries 1-2; a separate stream has replies that omit partitions (reported, not judged); a case is non-trivial when more than one sub-request was sent or a backend failed / rejected; plus a concurrent stream (groups of 2-4 overlapping requests through one proxy, replies gated at the backends); distinct = distinct canonical case")
	var coq, jsons []string
	lostCases, omitCases := 0, 0
	runOne := func(cs c27Case) {
		res := c27Run(cs)
		canon, _ := json.Marshal(cs)
		nt := res.tags["multi-send"] || res.tags["not_leader"] || res.tags["fail_after"] || res.tags["garbage"] || res.tags["timed_out_entry"]
		rep.Count(string(canon), nt)
		for tg := range res.tags {
			rep.Hist(tg)
		}
		if cs.Fetch {
			rep.Hist(fmt.Sprintf("fetch-v%d", cs.Version))
		} else {
			rep.Hist("produce")
		}
		if cs.omitting() {
			omitCases++
			rep.Hist("stream:replies-omit-partitions")
			if res.lost > 0 {
				lostCases++
			}
		}
		rep.Sample(cs)
		if res.fail != "" {
			if res.failOr == "harness" {
				rep.Fail("harness", "harness-error", res.fail, cs)
			} else {
				shr := c27Shrink(cs, res.failKey)
				r2 := c27Run(shr)
				if r2.fail == "" || r2.failKey != res.failKey {
					shr, r2 = cs, res
				}
				rep.Fail(r2.failOr, r2.failKey, r2.fail, shr)
			}
		}
		if res.failOr != "harness" {
			coq = append(coq, c27Coq(cs, res))
			jsons = append(jsons, string(canon))
		}
	}
	runGroup := func(g c27Group) {
		canon, _ := json.Marshal(g)
		rep.Count(string(canon), true)
		rep.Hist("concurrent-group")
		oracle, key, what := c27JudgeGroup(g)
		if what == "" {
			return
		}
		if oracle == "harness" {
			rep.Fail(oracle, key, what, g)
			return
		}
		shr := g
		shr.Reqs = vShrink(g.Reqs, func(rs [][]c27Topic) bool {
			if len(rs) < 2 {
				return false
			}
			c := g
			c.Reqs = rs
			_, k2, w2 := c27JudgeGroup(c)
			return w2 != "" && k2 == key
		})
		if o2, k2, w2 := c27JudgeGroup(shr); w2 != "" && k2 == key {
			rep.Fail(o2, k2, w2, shr)
		} else {
			rep.Fail(oracle, key, what, g)
		}
	}
	if rc := vReplayCase(); rc != nil {
		var probe struct {
			Reqs []json.RawMessage `json:"reqs"`
		}
		if json.Unmarshal(rc, &probe) == nil && len(probe.Reqs) > 0 {
			var g c27Group
			if err := json.Unmarshal(rc, &g); err != nil {
				t.Fatalf("bad replay: %v", err)
			}
			runGroup(g)
		} else {
			var cs c27Case
			if err := json.Unmarshal(rc, &cs); err != nil {
				t.Fatalf("bad replay: %v", err)
			}
			runOne(cs)
		}
	} else {
		nl := protocol.NOT_LEADER_OR_FOLLOWER
		corpus := []c27Case{
			// the backend takes the produce and drops the connection: must not be resent
			{Version: 7, Topics: []c27Topic{{Name: "orders", Parts: []int32{0, 1}}}, Backends: []c27Backend{{Script: []c27Step{{Kind: "fail_after"}}}, {}},
				Addrs: []c27Addr{{"1", 0}, {"2", 1}}, Routes: []c27Route{{0, 0, "1"}, {0, 1, "1"}}, Retries: 1},
			// undecodable produce reply: must not be resent
			{Version: 9, Topics: []c27Topic{{Name: "orders", Parts: []int32{0}}}, Backends: []c27Backend{{Script: []c27Step{{Kind: "garbage"}}}, {}},
				Addrs: []c27Addr{{"1", 0}, {"2", 1}}, Routes: []c27Route{{0, 0, "1"}}, Retries: 1},
			// NOT_LEADER three times: retried, then answered NOT_LEADER by the proxy
			{Version: 7, Topics: []c27Topic{{Name: "orders", Parts: []int32{0, 1}}}, Backends: []c27Backend{
				{Script: []c27Step{{Kind: "reply", Codes: []c27Code{{0, 0, nl}}}, {Kind: "reply", Default: nl}, {Kind: "reply", Default: nl}}},
				{Script: []c27Step{{Kind: "reply", Default: nl}, {Kind: "reply", Default: nl}, {Kind: "reply", Default: nl}}}},
				Addrs: []c27Addr{{"1", 0}, {"2", 1}}, Routes: []c27Route{{0, 0, "1"}, {0, 1, "1"}}, Retries: 1},
			// split over two owners + one unowned partition, one owner down
			{Version: 8, Topics: []c27Topic{{Name: "a", Parts: []int32{0, 1, 2}}, {Name: "b.c", Parts: []int32{0}}}, Backends: []c27Backend{{}, {Down: true}, {}},
				Addrs: []c27Addr{{"1", 0}, {"2", 1}, {"3", 2}}, Routes: []c27Route{{0, 0, "1"}, {0, 1, "2"}, {1, 0, "3"}}, Retries: 2, RR: 1},
			// fetch v13: transport error is retried; unresolvable topic id
			{Fetch: true, Version: 13, Topics: []c27Topic{{Name: "orders", ID: [16]byte{1}, Parts: []int32{0}, Resolvable: true}, {Name: "events", ID: [16]byte{2}, Parts: []int32{3}}},
				Backends: []c27Backend{{Script: []c27Step{{Kind: "fail_after"}, {Kind: "reply", Codes: []c27Code{{1, 3, nl}}}}}, {}},
				Addrs: []c27Addr{{"1", 0}, {"2", 1}}, Routes: []c27Route{{0, 0, "1"}, {1, 3, "2"}}, Retries: 1},
			// fetch v12 by name, all backends down
			{Fetch: true, Version: 12, Topics: []c27Topic{{Name: "a", Parts: []int32{0}}}, Backends: []c27Backend{{Down: true}}, Retries: 2},
		}
		for _, cs := range corpus {
			runOne(cs)
		}
		r := vNewRand(vSeed())
		n := vN(260, 3000)
		for i := 0; i < n; i++ {
			runOne(c27Gen(r.Fork(), i%8 == 7))
		}
		// concurrent stream: same topics, different partitions, at the same time
		runGroup(c27Group{Fetch: true, Version: 13, NB: 2, Retries: 1,
			Universe: []c27Topic{{Name: "orders", ID: [16]byte{1}, Parts: []int32{0, 1, 2, 3}, Resolvable: true}},
			Codes:    []c27Code{{0, 2, nl}, {0, 3, 3}},
			Routes:   []c27Route{{0, 0, "1"}, {0, 1, "1"}, {0, 2, "1"}, {0, 3, "1"}},
			Reqs: [][]c27Topic{{{Name: "orders", ID: [16]byte{1}, Parts: []int32{0}, Resolvable: true}},
				{{Name: "orders", ID: [16]byte{1}, Parts: []int32{1, 2}, Resolvable: true}},
				{{Name: "orders", ID: [16]byte{1}, Parts: []int32{3}, Resolvable: true}}}})
		runGroup(c27Group{Version: 7, NB: 3, Retries: 1,
			Universe: []c27Topic{{Name: "orders", Parts: []int32{0, 1, 2, 3}}, {Name: "a", Parts: []int32{0, 1, 2, 3}}},
			Codes:    []c27Code{{0, 1, nl}},
			Routes:   []c27Route{{0, 0, "1"}, {0, 1, "2"}, {0, 2, "1"}, {0, 3, "2"}, {1, 0, "1"}, {1, 1, "1"}, {1, 2, "2"}, {1, 3, "2"}},
			Reqs: [][]c27Topic{{{Name: "orders", Parts: []int32{0, 1}}, {Name: "a", Parts: []int32{0}}},
				{{Name: "orders", Parts: []int32{2}}, {Name: "a", Parts: []int32{1, 2}}},
				{{Name: "orders", Parts: []int32{3, 1}}}}})
		ng := vN(40, 400)
		for i := 0; i < ng; i++ {
			runGroup(c27GenGroup(r.Fork()))
		}
	}
	rep.Notes = append(rep.Notes, fmt.Sprintf("stream 'replies omit partitions' (outside the theorems' hypothesis, reported only): %d cases, in %d of them a requested partition has no entry in the merged response", omitCases, lostCases))
	rep.Cases("C27", "From KS Require Import lib.Base model.Proxy corr.ProxyCorr.", "pcase", "check_pcase", coq, jsons)
	rep.Write()
	if len(rep.Failures) > 0 {
		t.Logf("oracle failures: %s", strings.TrimSpace(rep.Failures[0].What))
	}
}
