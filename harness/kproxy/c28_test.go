package main

// C28 harness: sends generated Metadata / FindCoordinator requests (kmsg-encoded, all
// advertised versions) through the real proxy handlers (handleMetadata with a real
// metadata.InMemoryStore, handleFindCoordinator, buildNotReadyResponse), decodes the
// reply with kmsg, checks the property clauses directly (implementation-side oracle:
// only the proxy is named; topology equals the store's cluster metadata) and emits every
// case with the decoded reply as a Coq term for corr/ProxyCorr.v (check_mcase).

import (
	"context"
	"encoding/json"
	"errors"
	"fmt"
	"io"
	"log/slog"
	"net"
	"strings"
	"sync"
	"testing"
	"testing/synctest"
	"time"

	"github.com/KafScale/platform/pkg/metadata"
	"github.com/KafScale/platform/pkg/protocol"
	"github.com/twmb/franz-go/pkg/kmsg"
)

type c28Part struct {
	Err      int16   `json:"err"`
	ID       int32   `json:"id"`
	Leader   int32   `json:"leader"`
	Epoch    int32   `json:"epoch"`
	Replicas []int32 `json:"replicas,omitempty"`
	ISR      []int32 `json:"isr,omitempty"`
	Offline  []int32 `json:"offline,omitempty"`
}
type c28Topic struct {
	Err      int16     `json:"err"`
	Name     *string   `json:"name"`
	ID       [16]byte  `json:"id"`
	Internal bool      `json:"internal,omitempty"`
	Parts    []c28Part `json:"parts,omitempty"`
}
type c28Broker struct {
	Node int32  `json:"node"`
	Host string `json:"host"`
	Port int32  `json:"port"`
}
type c28Cluster struct {
	Brokers    []c28Broker `json:"brokers,omitempty"`
	Controller int32       `json:"controller"`
	Topics     []c28Topic  `json:"topics,omitempty"`
	ClusterID  *string     `json:"cluster_id,omitempty"`
}
type c28ReqTopic struct {
	Name *string  `json:"name"`
	ID   [16]byte `json:"id"`
}
type c28Case struct {
	Kind     string        `json:"kind"` // "meta" | "coord"
	Ready    bool          `json:"ready"`
	Version  int16         `json:"version"`
	Snapshot c28Cluster    `json:"snapshot"`
	All      bool          `json:"all"`
	Topics   []c28ReqTopic `json:"topics,omitempty"`
	Host     string        `json:"host"`
	Port     int32         `json:"port"`
}

type c28Coord struct {
	Err  int16
	Node int32
	Host string
	Port int32
}

// c28Result is what one execution observed.
type c28Result struct {
	store   c28Cluster    // store.Metadata(ctx,nil): the cluster metadata
	req     []c28ReqTopic // request as decoded by the proxy's parser
	reqAll  bool
	obs     c28Cluster // decoded metadata reply
	coord   c28Coord
	fail    string
	failKey string
	failOr  string
}

var c28Zero [16]byte

func c28ToMeta(c c28Cluster) metadata.ClusterMetadata {
	m := metadata.ClusterMetadata{ControllerID: c.Controller, ClusterID: c.ClusterID}
	for _, b := range c.Brokers {
		m.Brokers = append(m.Brokers, protocol.MetadataBroker{NodeID: b.Node, Host: b.Host, Port: b.Port})
	}
	for _, t := range c.Topics {
		mt := protocol.MetadataTopic{ErrorCode: t.Err, Topic: t.Name, TopicID: t.ID, IsInternal: t.Internal}
		for _, p := range t.Parts {
			mt.Partitions = append(mt.Partitions, protocol.MetadataPartition{ErrorCode: p.Err, Partition: p.ID, Leader: p.Leader,
				LeaderEpoch: p.Epoch, Replicas: p.Replicas, ISR: p.ISR, OfflineReplicas: p.Offline})
		}
		m.Topics = append(m.Topics, mt)
	}
	return m
}

func c28FromTopics(ts []kmsg.MetadataResponseTopic) []c28Topic {
	var out []c28Topic
	for _, t := range ts {
		ct := c28Topic{Err: t.ErrorCode, ID: t.TopicID, Internal: t.IsInternal}
		if t.Topic != nil {
			n := *t.Topic
			ct.Name = &n
		}
		for _, p := range t.Partitions {
			ct.Parts = append(ct.Parts, c28Part{Err: p.ErrorCode, ID: p.Partition, Leader: p.Leader, Epoch: p.LeaderEpoch,
				Replicas: append([]int32(nil), p.Replicas...), ISR: append([]int32(nil), p.ISR...), Offline: append([]int32(nil), p.OfflineReplicas...)})
		}
		out = append(out, ct)
	}
	return out
}

func c28FromBrokers(bs []kmsg.MetadataResponseBroker) []c28Broker {
	var out []c28Broker
	for _, b := range bs {
		out = append(out, c28Broker{Node: b.NodeID, Host: b.Host, Port: b.Port})
	}
	return out
}

func c28Payload(req kmsg.Request, corr int32) []byte {
	f := kmsg.NewRequestFormatter(kmsg.FormatterClientID("verif"))
	return f.AppendRequest(nil, req, corr)[4:]
}

func c28NameEq(a, b *string) bool {
	if a == nil || b == nil {
		return a == nil && b == nil
	}
	return *a == *b
}

// topology of a topic entry as visible at version v
func c28Topo(t c28Topic, v int16) string {
	var sb strings.Builder
	name := "<nil>"
	if t.Name != nil {
		name = "=" + *t.Name
	} else if v < 12 {
		name = "="
	}
	fmt.Fprintf(&sb, "err=%d name%s", t.Err, name)
	if v >= 10 {
		fmt.Fprintf(&sb, " id=%x", t.ID)
	}
	for _, p := range t.Parts {
		fmt.Fprintf(&sb, " (p%d err=%d", p.ID, p.Err)
		if v >= 7 {
			fmt.Fprintf(&sb, " epoch=%d", p.Epoch)
		}
		sb.WriteString(")")
	}
	return sb.String()
}

// c28Pre carries a reply that was already produced elsewhere (the concurrent stream):
// c28RunOn then only decodes and judges it against cs.
type c28Pre struct {
	out []byte
	err error
}

func c28Run(cs c28Case) c28Result { return c28RunOn(cs, nil) }

// c28ReqPayload encodes the request of cs (header+body, no size prefix).
func c28ReqPayload(cs c28Case) []byte {
	if cs.Kind == "coord" {
		req := kmsg.NewPtrFindCoordinatorRequest()
		req.Version = cs.Version
		req.CoordinatorKey = "g"
		return c28Payload(req, 7)
	}
	req := kmsg.NewPtrMetadataRequest()
	req.Version = cs.Version
	if !cs.All {
		req.Topics = []kmsg.MetadataRequestTopic{}
		for _, t := range cs.Topics {
			rt := kmsg.NewMetadataRequestTopic()
			rt.Topic = t.Name
			rt.TopicID = t.ID
			req.Topics = append(req.Topics, rt)
		}
	}
	return c28Payload(req, 11)
}

// c28Exec sends the request of cs through the real handlers of p.
func c28Exec(p *proxy, cs c28Case) ([]byte, error) {
	payload := c28ReqPayload(cs)
	header, body, err := protocol.ParseRequestHeader(payload)
	if err != nil {
		return nil, err
	}
	if !cs.Ready {
		out, ok, err := p.buildNotReadyResponse(header, body)
		if err == nil && !ok {
			err = fmt.Errorf("no not-ready reply")
		}
		return out, err
	}
	if cs.Kind == "coord" {
		return p.handleFindCoordinator(header)
	}
	return p.handleMetadata(context.Background(), header, payload)
}

func c28RunOn(cs c28Case, pre *c28Pre) c28Result {
	var res c28Result
	setFail := func(oracle, key, what string) {
		if res.fail == "" {
			res.fail, res.failKey, res.failOr = what, key, oracle
		}
	}
	ctx := context.Background()
	store := metadata.NewInMemoryStore(c28ToMeta(cs.Snapshot))
	p := &proxy{store: store, advertisedHost: cs.Host, advertisedPort: cs.Port,
		logger: slog.New(slog.NewTextHandler(io.Discard, nil))}
	p.setReady(cs.Ready)
	all, _ := store.Metadata(ctx, nil)
	res.store = c28Cluster{Controller: all.ControllerID, ClusterID: all.ClusterID, Brokers: c28FromBrokers(all.Brokers), Topics: c28FromTopics(all.Topics)}

	if cs.Kind == "coord" {
		var out []byte
		var err error
		if pre != nil {
			out, err = pre.out, pre.err
		} else {
			out, err = c28Exec(p, cs)
		}
		if err != nil {
			setFail("harness", "harness", "coordinator: "+err.Error())
			return res
		}
		b, ok := protocol.SkipResponseHeader(protocol.APIKeyFindCoordinator, cs.Version, out)
		resp := kmsg.NewPtrFindCoordinatorResponse()
		resp.SetVersion(cs.Version)
		if !ok || resp.ReadFrom(b) != nil {
			setFail("harness", "harness", "coordinator reply does not decode")
			return res
		}
		res.coord = c28Coord{resp.ErrorCode, resp.NodeID, resp.Host, resp.Port}
		named := resp.NodeID == 0 && resp.Host == cs.Host && resp.Port == cs.Port
		absent := resp.NodeID == -1 && resp.ErrorCode != 0 && resp.Host == "" && resp.Port == 0
		if !named && !absent {
			setFail("only_proxy", "coordinator-not-proxy", fmt.Sprintf("coordinator reply names node %d %s:%d (err %d), proxy is node 0 %s:%d", resp.NodeID, resp.Host, resp.Port, resp.ErrorCode, cs.Host, cs.Port))
		}
		if cs.Ready && !named {
			setFail("only_proxy", "coordinator-not-proxy", "ready proxy did not name itself as coordinator")
		}
		return res
	}

	// ---- metadata ----
	payload := c28ReqPayload(cs)
	// the request as the proxy's parser sees it
	_, parsed, err := protocol.ParseRequest(payload)
	if err != nil {
		setFail("harness", "harness", "request does not parse: "+err.Error())
		return res
	}
	preq := parsed.(*kmsg.MetadataRequest)
	res.reqAll = preq.Topics == nil
	for _, t := range preq.Topics {
		rt := c28ReqTopic{ID: t.TopicID}
		if t.Topic != nil {
			n := *t.Topic
			rt.Name = &n
		}
		res.req = append(res.req, rt)
	}
	var out []byte
	if pre != nil {
		out, err = pre.out, pre.err
	} else {
		out, err = c28Exec(p, cs)
	}
	if err != nil {
		setFail("harness", "harness", "metadata: "+err.Error())
		return res
	}
	b, ok := protocol.SkipResponseHeader(protocol.APIKeyMetadata, cs.Version, out)
	resp := kmsg.NewPtrMetadataResponse()
	resp.SetVersion(cs.Version)
	if !ok {
		setFail("harness", "harness", "metadata reply header")
		return res
	}
	if err := resp.ReadFrom(b); err != nil {
		setFail("harness", "harness", "metadata reply does not decode: "+err.Error())
		return res
	}
	res.obs = c28Cluster{Controller: resp.ControllerID, ClusterID: resp.ClusterID, Brokers: c28FromBrokers(resp.Brokers), Topics: c28FromTopics(resp.Topics)}
	v := cs.Version

	// ---- oracle 1: only the proxy is named ----
	for _, br := range res.obs.Brokers {
		if br.Node != 0 || br.Host != cs.Host || br.Port != cs.Port {
			setFail("only_proxy", "broker-entry-not-proxy", fmt.Sprintf("reply lists broker node %d %s:%d", br.Node, br.Host, br.Port))
		}
	}
	if cs.Ready && len(res.obs.Brokers) != 1 {
		setFail("only_proxy", "broker-entry-not-proxy", fmt.Sprintf("ready reply has %d broker entries", len(res.obs.Brokers)))
	}
	if res.obs.Controller != 0 && res.obs.Controller != -1 {
		setFail("only_proxy", "controller-not-proxy", fmt.Sprintf("controller id %d", res.obs.Controller))
	}
	for _, t := range res.obs.Topics {
		for _, pt := range t.Parts {
			bad := pt.Leader != 0
			for _, l := range [][]int32{pt.Replicas, pt.ISR, pt.Offline} {
				for _, x := range l {
					if x != 0 {
						bad = true
					}
				}
			}
			if bad {
				key := "partition-names-backend"
				if t.Err != 0 && cs.Ready {
					key = "error-topic-partitions-verbatim"
				}
				nm := ""
				if t.Name != nil {
					nm = *t.Name
				}
				setFail("only_proxy", key, fmt.Sprintf("topic %q (error %d) partition %d: leader %d replicas %v isr %v offline %v — not the proxy (node 0)", nm, t.Err, pt.ID, pt.Leader, pt.Replicas, pt.ISR, pt.Offline))
			}
		}
	}

	// ---- oracle 2: topology kept ----
	anyID, anyZero, anyNilName := false, false, false
	for _, t := range res.req {
		if t.ID != c28Zero {
			anyID = true
		} else {
			anyZero = true
			if t.Name == nil {
				anyNilName = true
			}
		}
	}
	mixed := anyID && anyZero
	if !cs.Ready {
		// not-ready: echoes the requested topics, no partitions
		want := res.req
		if res.reqAll {
			want = nil
		}
		if len(res.obs.Topics) != len(want) {
			setFail("topology_kept", "not-ready-topics", fmt.Sprintf("not-ready reply has %d topics, request %d", len(res.obs.Topics), len(want)))
		} else {
			for i, t := range res.obs.Topics {
				okName := c28NameEq(t.Name, want[i].Name) || (v < 12 && want[i].Name == nil && t.Name != nil && *t.Name == "")
				okID := v < 10 || t.ID == want[i].ID
				if !okName || !okID || len(t.Parts) != 0 {
					setFail("topology_kept", "not-ready-topics", fmt.Sprintf("not-ready topic %d: %s", i, c28Topo(t, v)))
				}
			}
		}
		return res
	}
	if mixed || anyNilName {
		return res // outside the Kafka protocol: excluded from the statement
	}
	switch {
	case res.reqAll || len(res.req) == 0:
		if len(res.obs.Topics) != len(res.store.Topics) {
			setFail("topology_kept", "topic-set-changed", fmt.Sprintf("reply has %d topics, cluster %d", len(res.obs.Topics), len(res.store.Topics)))
			break
		}
		for i := range res.obs.Topics {
			if c28Topo(res.obs.Topics[i], v) != c28Topo(res.store.Topics[i], v) {
				setFail("topology_kept", "topology-changed", fmt.Sprintf("topic %d: reply %s, cluster %s", i, c28Topo(res.obs.Topics[i], v), c28Topo(res.store.Topics[i], v)))
			}
		}
	default:
		if len(res.obs.Topics) != len(res.req) {
			setFail("topology_kept", "topic-set-changed", fmt.Sprintf("reply has %d topics, request %d", len(res.obs.Topics), len(res.req)))
			break
		}
		for i, rq := range res.req {
			got := c28Topo(res.obs.Topics[i], v)
			found, exists := false, false
			for _, ct := range res.store.Topics {
				if (anyID && ct.ID == rq.ID) || (!anyID && c28NameEq(ct.Name, rq.Name)) {
					exists = true
					if c28Topo(ct, v) == got {
						found = true
					}
				}
			}
			if exists && !found {
				setFail("topology_kept", "topology-changed", fmt.Sprintf("requested topic %d: reply %s matches no cluster topic of that name/id", i, got))
			}
			if !exists {
				var want c28Topic
				if anyID {
					want = c28Topic{Err: protocol.UNKNOWN_TOPIC_ID, ID: rq.ID}
				} else {
					want = c28Topic{Err: protocol.UNKNOWN_TOPIC_OR_PARTITION, Name: rq.Name}
				}
				if got != c28Topo(want, v) {
					setFail("topology_kept", "unknown-topic-entry", fmt.Sprintf("requested topic %d is not in the cluster; reply %s", i, got))
				}
			}
		}
	}
	return res
}

// ---------------- generator ----------------
func c28ID(r *vRand) [16]byte {
	var id [16]byte
	copy(id[:], r.Bytes(16))
	if id == c28Zero {
		id[0] = 1
	}
	return id
}

func c28Gen(r *vRand) c28Case {
	cs := c28Case{Kind: "meta", Ready: !r.Chance(12), Host: []string{"proxy", "proxy.example.com", "10.0.0.7", ""}[r.Intn(4)], Port: int32(r.Range(0, 3)*1000 + 9092)}
	if r.Chance(8) {
		cs.Kind = "coord"
		cs.Version = 3
		return cs
	}
	names := []string{"orders", "events", "a", "b.c", "t5", "__consumer_offsets"}
	nb := r.Range(0, 4)
	for i := 0; i < nb; i++ {
		cs.Snapshot.Brokers = append(cs.Snapshot.Brokers, c28Broker{Node: int32(r.Range(1, 6)), Host: fmt.Sprintf("broker-%d", i), Port: 9092})
	}
	cs.Snapshot.Controller = int32(r.Range(-1, 5))
	if r.Chance(70) {
		s := "cluster-" + string(rune('a'+r.Intn(3)))
		cs.Snapshot.ClusterID = &s
	}
	nt := r.Range(0, 5)
	var ids [][16]byte
	for i := 0; i < nt; i++ {
		n := names[r.Intn(len(names))]
		t := c28Topic{Name: &n, Internal: n == "__consumer_offsets" && r.Bool()}
		if !r.Chance(15) {
			t.ID = c28ID(r)
			if len(ids) > 0 && r.Chance(6) {
				t.ID = ids[r.Intn(len(ids))] // duplicate id in the snapshot
			}
		}
		if r.Chance(22) {
			t.Err = []int16{3, 5, 9, 29, 17}[r.Intn(5)]
		}
		np := r.Range(0, 4)
		if t.Err != 0 && r.Chance(40) {
			np = 0
		}
		pid := int32(0)
		for k := 0; k < np; k++ {
			pt := c28Part{ID: pid, Leader: int32(r.Range(-1, 5)), Epoch: int32(r.Range(-1, 9))}
			if r.Chance(20) {
				pt.Err = []int16{5, 9, 6}[r.Intn(3)]
			}
			for j := r.Range(0, 3); j > 0; j-- {
				pt.Replicas = append(pt.Replicas, int32(r.Range(0, 5)))
			}
			for j := r.Range(0, 2); j > 0; j-- {
				pt.ISR = append(pt.ISR, int32(r.Range(0, 5)))
			}
			if r.Chance(15) {
				pt.Offline = []int32{int32(r.Range(1, 5))}
			}
			t.Parts = append(t.Parts, pt)
			pid += int32(r.Range(1, 2))
		}
		if t.ID != c28Zero {
			ids = append(ids, t.ID)
		} else {
			ids = append(ids, metadata.TopicIDForName(n))
		}
		cs.Snapshot.Topics = append(cs.Snapshot.Topics, t)
	}
	c28GenReq(r, &cs, ids)
	return cs
}

// c28GenReq fills the request part of cs; ids are the topic ids of the snapshot.
func c28GenReq(r *vRand, cs *c28Case, ids [][16]byte) {
	names := []string{"orders", "events", "a", "b.c", "t5", "__consumer_offsets"}
	switch k := r.Intn(20); {
	case k < 5:
		cs.All = true
		cs.Version = int16(r.Range(1, 12))
	case k < 6:
		cs.Version = int16(r.Range(0, 12)) // empty list
	case k < 13: // by name
		cs.Version = int16(r.Range(0, 12))
		for j := r.Range(1, 4); j > 0; j-- {
			n := append(names, "missing", "nope")[r.Intn(len(names)+2)]
			cs.Topics = append(cs.Topics, c28ReqTopic{Name: &n})
		}
	case k < 19: // by id
		cs.Version = int16(r.Range(10, 12))
		for j := r.Range(1, 4); j > 0; j-- {
			var rt c28ReqTopic
			if len(ids) > 0 && !r.Chance(25) {
				rt.ID = ids[r.Intn(len(ids))]
			} else {
				rt.ID = c28ID(r)
			}
			if cs.Version < 12 || r.Chance(30) {
				n := ""
				rt.Name = &n
			}
			cs.Topics = append(cs.Topics, rt)
		}
	default: // mixed names and ids (outside the protocol; only_proxy still checked)
		cs.Version = int16(r.Range(10, 12))
		n := names[r.Intn(len(names))]
		cs.Topics = append(cs.Topics, c28ReqTopic{Name: &n})
		cs.Topics = append(cs.Topics, c28ReqTopic{ID: c28ID(r), Name: &n})
		if r.Bool() {
			cs.Topics[0], cs.Topics[1] = cs.Topics[1], cs.Topics[0]
		}
	}
}

// ---------------- concurrent stream ----------------
// Several requests of different shapes against ONE proxy at the same time: the store is
// gated so that every request is parked (in the store, or behind whatever state the
// handlers share) before any of them proceeds; testing/synctest makes "all parked"
// an observable, deterministic point.  Each reply is judged against its own request
// exactly like a sequential case, and must equal the reply the same request gets alone.
type c28Group struct {
	Snapshot c28Cluster `json:"snapshot"`
	Host     string     `json:"host"`
	Port     int32      `json:"port"`
	Reqs     []c28Case  `json:"reqs"`
}

type c28GatedStore struct {
	metadata.Store
	gate chan struct{}
}

func (g *c28GatedStore) Metadata(ctx context.Context, topics []string) (*metadata.ClusterMetadata, error) {
	<-g.gate
	return g.Store.Metadata(ctx, topics)
}

func (g c28Group) req(i int) c28Case {
	cs := g.Reqs[i]
	cs.Snapshot, cs.Host, cs.Port = g.Snapshot, g.Host, g.Port
	return cs
}

// c28RunGroup returns per request the judged result of the concurrently obtained reply.
func c28RunGroup(t *testing.T, g c28Group) []c28Result {
	n := len(g.Reqs)
	outs := make([][]byte, n)
	errs := make([]error, n)
	synctest.Test(t, func(t *testing.T) {
		store := &c28GatedStore{Store: metadata.NewInMemoryStore(c28ToMeta(g.Snapshot)), gate: make(chan struct{})}
		p := &proxy{store: store, advertisedHost: g.Host, advertisedPort: g.Port,
			logger: slog.New(slog.NewTextHandler(io.Discard, nil))}
		p.setReady(true)
		var wg sync.WaitGroup
		for i := 0; i < n; i++ {
			i := i
			wg.Add(1)
			go func() {
				defer wg.Done()
				outs[i], errs[i] = c28Exec(p, g.req(i))
			}()
		}
		synctest.Wait() // every request is parked
		close(store.gate)
		wg.Wait()
	})
	// the same requests one at a time on a fresh proxy
	ref := &proxy{store: metadata.NewInMemoryStore(c28ToMeta(g.Snapshot)), advertisedHost: g.Host, advertisedPort: g.Port,
		logger: slog.New(slog.NewTextHandler(io.Discard, nil))}
	ref.setReady(true)
	results := make([]c28Result, n)
	for i := 0; i < n; i++ {
		cs := g.req(i)
		res := c28RunOn(cs, &c28Pre{out: outs[i], err: errs[i]})
		if res.fail != "" && res.failOr != "harness" {
			res.failKey = "concurrent-" + res.failKey
			res.fail = fmt.Sprintf("request %d of %d issued concurrently: %s", i, n, res.fail)
		}
		seq, serr := c28Exec(ref, cs)
		if res.fail == "" && (serr != nil) != (errs[i] != nil) {
			res.fail, res.failKey, res.failOr = fmt.Sprintf("request %d: error alone %v, concurrently %v", i, serr, errs[i]), "concurrent-reply-differs-from-sequential", "concurrent"
		}
		if res.fail == "" && string(seq) != string(outs[i]) {
			res.fail, res.failKey, res.failOr = fmt.Sprintf("request %d of %d (v%d): the reply obtained while other requests were in flight differs from the reply to the same request alone", i, n, cs.Version), "concurrent-reply-differs-from-sequential", "concurrent"
		}
		results[i] = res
	}
	return results
}

func c28GenGroup(r *vRand) c28Group {
	var base c28Case
	for {
		base = c28Gen(r.Fork())
		if base.Kind == "meta" && len(base.Snapshot.Topics) >= 2 {
			break
		}
	}
	g := c28Group{Snapshot: base.Snapshot, Host: base.Host, Port: base.Port}
	var ids [][16]byte
	for _, t := range base.Snapshot.Topics {
		if t.ID != c28Zero {
			ids = append(ids, t.ID)
		} else {
			ids = append(ids, metadata.TopicIDForName(*t.Name))
		}
	}
	for k := r.Range(2, 5); k > 0; k-- {
		cs := c28Case{Kind: "meta", Ready: !r.Chance(8)}
		if r.Chance(8) {
			cs.Kind, cs.Version = "coord", 3
		} else {
			c28GenReq(r, &cs, ids)
			if r.Chance(35) && cs.Version >= 10 { // by id with null names: v12
				cs.Version = 12
				for i := range cs.Topics {
					if cs.Topics[i].ID != c28Zero {
						cs.Topics[i].Name = nil
					}
				}
			}
		}
		g.Reqs = append(g.Reqs, cs)
	}
	return g
}

func c28FirstFail(rs []c28Result) (int, bool) {
	for i, r := range rs {
		if r.fail != "" {
			return i, true
		}
	}
	return -1, false
}


// ---------------- connection stream ----------------
// The real handleConnection over net.Pipe: a store whose Metadata call can be made to fail
// per request, and a live TCP backend that would answer Metadata / FindCoordinator with
// ITS OWN identity if the proxy ever handed such a request to it.
type c28ConnStep struct {
	Req       c28Case `json:"req"`                  // Kind / Version / All / Topics
	StoreFail string  `json:"store_fail,omitempty"` // "" | "error" | "timeout"
}
type c28Conn struct {
	Snapshot c28Cluster    `json:"snapshot"`
	Host     string        `json:"host"`
	Port     int32         `json:"port"`
	Steps    []c28ConnStep `json:"steps"`
}

type c28FailStore struct {
	metadata.Store
	mu   sync.Mutex
	mode string
}

func (f *c28FailStore) Metadata(ctx context.Context, topics []string) (*metadata.ClusterMetadata, error) {
	f.mu.Lock()
	m := f.mode
	f.mu.Unlock()
	switch m {
	case "error":
		return nil, errors.New("etcdserver: request timed out")
	case "timeout":
		return nil, context.DeadlineExceeded
	}
	return f.Store.Metadata(ctx, topics)
}

// c28SelfishBackend answers Metadata / FindCoordinator naming itself (node 7).
type c28SelfishBackend struct {
	ln   net.Listener
	mu   sync.Mutex
	keys []int16
}

func (b *c28SelfishBackend) serve() {
	for {
		c, err := b.ln.Accept()
		if err != nil {
			return
		}
		go func(c net.Conn) {
			defer c.Close()
			for {
				frame, err := protocol.ReadFrame(c)
				if err != nil {
					return
				}
				header, req, err := protocol.ParseRequest(frame.Payload)
				if err != nil {
					return
				}
				b.mu.Lock()
				b.keys = append(b.keys, header.APIKey)
				b.mu.Unlock()
				var resp kmsg.Response
				switch r := req.(type) {
				case *kmsg.MetadataRequest:
					mr := kmsg.NewPtrMetadataResponse()
					mr.Brokers = []kmsg.MetadataResponseBroker{{NodeID: 7, Host: "backend", Port: 1234}}
					mr.ControllerID = 7
					for _, t := range r.Topics {
						mt := kmsg.NewMetadataResponseTopic()
						mt.Topic, mt.TopicID = t.Topic, t.TopicID
						pt := kmsg.NewMetadataResponseTopicPartition()
						pt.Leader, pt.Replicas, pt.ISR = 7, []int32{7}, []int32{7}
						mt.Partitions = append(mt.Partitions, pt)
						mr.Topics = append(mr.Topics, mt)
					}
					resp = mr
				case *kmsg.FindCoordinatorRequest:
					fr := kmsg.NewPtrFindCoordinatorResponse()
					fr.NodeID, fr.Host, fr.Port = 7, "backend", 1234
					resp = fr
				default:
					return
				}
				if protocol.WriteFrame(c, protocol.EncodeResponse(header.CorrelationID, header.APIVersion, resp)) != nil {
					return
				}
			}
		}(c)
	}
}

type c28ConnObs struct {
	cs      c28Case
	storeOK bool
	replied bool
	res     c28Result
}

// c28RunConn returns what the client observed per executed step and the first failure.
func c28RunConn(cn c28Conn) ([]c28ConnObs, string, string, string) {
	ln, err := net.Listen("tcp", "127.0.0.1:0")
	if err != nil {
		return nil, "harness", "harness-error", err.Error()
	}
	be := &c28SelfishBackend{ln: ln}
	go be.serve()
	defer ln.Close()
	store := &c28FailStore{Store: metadata.NewInMemoryStore(c28ToMeta(cn.Snapshot))}
	p := &proxy{store: store, advertisedHost: cn.Host, advertisedPort: cn.Port, backends: []string{ln.Addr().String()},
		dialTimeout: 2 * time.Second, backendRetries: 1, apiVersions: generateProxyApiVersions(),
		logger: slog.New(slog.NewTextHandler(io.Discard, nil))}
	p.setReady(true)
	cli, srv := net.Pipe()
	done := make(chan struct{})
	ctx, cancel := context.WithCancel(context.Background())
	defer cancel()
	go func() { p.handleConnection(ctx, srv); close(done) }()
	var obs []c28ConnObs
	oracle, key, what := "", "", ""
	setFail := func(o, k, w string) {
		if what == "" {
			oracle, key, what = o, k, w
		}
	}
	for i, st := range cn.Steps {
		cs := st.Req
		cs.Snapshot, cs.Host, cs.Port, cs.Ready = cn.Snapshot, cn.Host, cn.Port, true
		store.mu.Lock()
		store.mode = st.StoreFail
		store.mu.Unlock()
		_ = cli.SetDeadline(time.Now().Add(10 * time.Second))
		o := c28ConnObs{cs: cs, storeOK: st.StoreFail == ""}
		var frame *protocol.Frame
		werr := protocol.WriteFrame(cli, c28ReqPayload(cs))
		if werr == nil {
			frame, werr = protocol.ReadFrame(cli)
		}
		if werr != nil { // connection closed: no reply
			o.res = c28RunOn(cs, &c28Pre{err: werr})
			obs = append(obs, o)
			break
		}
		o.replied = true
		o.res = c28RunOn(cs, &c28Pre{out: frame.Payload})
		obs = append(obs, o)
		if o.res.fail != "" {
			if o.res.failOr == "harness" {
				setFail("only_proxy", "conn-reply-undecodable", fmt.Sprintf("step %d (store %q): the client received a reply that does not decode as a proxy reply: %s", i, st.StoreFail, o.res.fail))
			} else {
				setFail(o.res.failOr, "conn-"+o.res.failKey, fmt.Sprintf("step %d through handleConnection (store %q): %s", i, st.StoreFail, o.res.fail))
			}
		}
	}
	cli.Close()
	<-done
	be.mu.Lock()
	for _, k := range be.keys {
		if k == protocol.APIKeyMetadata || k == protocol.APIKeyFindCoordinator {
			setFail("only_proxy", "conn-backend-received-metadata", fmt.Sprintf("the backend received a request with api key %d: Metadata / FindCoordinator must be answered by the proxy itself", k))
		}
	}
	be.mu.Unlock()
	return obs, oracle, key, what
}

func c28GenConn(r *vRand) c28Conn {
	var base c28Case
	for {
		base = c28Gen(r.Fork())
		if base.Kind == "meta" {
			break
		}
	}
	cn := c28Conn{Snapshot: base.Snapshot, Host: base.Host, Port: base.Port}
	var ids [][16]byte
	for _, t := range base.Snapshot.Topics {
		if t.ID != c28Zero {
			ids = append(ids, t.ID)
		} else {
			ids = append(ids, metadata.TopicIDForName(*t.Name))
		}
	}
	for k := r.Range(1, 3); k > 0; k-- {
		st := c28ConnStep{Req: c28Case{Kind: "meta"}}
		if r.Chance(15) {
			st.Req.Kind, st.Req.Version = "coord", 3
		} else {
			c28GenReq(r, &st.Req, ids)
		}
		switch x := r.Intn(10); {
		case x < 3:
			st.StoreFail = "error"
		case x < 5:
			st.StoreFail = "timeout"
		}
		cn.Steps = append(cn.Steps, st)
	}
	return cn
}

func c28CoqConn(o c28ConnObs) string {
	rts := make([]string, len(o.res.req))
	for i, t := range o.res.req {
		rts[i] = fmt.Sprintf("(%s, %s)", c28OptStr(t.Name), cqBytes(t.ID[:]))
	}
	obs := "None"
	if o.replied {
		obs = "(Some " + c28CoqCluster(o.res.obs) + ")"
	}
	return fmt.Sprintf("ConnCase %s %s %s (mkMReq %s %s) %s %s %s", cqBool(o.storeOK), cqZ(int64(o.cs.Version)), c28CoqCluster(o.res.store),
		cqBool(o.res.reqAll), cqList(rts), cqStr(o.cs.Host), cqZ(int64(o.cs.Port)), obs)
}

// ---------------- Coq emission ----------------
func c28I32s(v []int32) string {
	items := make([]string, len(v))
	for i, x := range v {
		items[i] = cqZ(int64(x))
	}
	return cqList(items)
}
func c28OptStr(s *string) string {
	if s == nil {
		return "None"
	}
	return "(Some " + cqStr(*s) + ")"
}
func c28CoqCluster(c c28Cluster) string {
	bs := make([]string, len(c.Brokers))
	for i, b := range c.Brokers {
		bs[i] = fmt.Sprintf("mkMBroker %s %s %s", cqZ(int64(b.Node)), cqStr(b.Host), cqZ(int64(b.Port)))
	}
	ts := make([]string, len(c.Topics))
	for i, t := range c.Topics {
		ps := make([]string, len(t.Parts))
		for j, p := range t.Parts {
			ps[j] = fmt.Sprintf("mkMPart %s %s %s %s %s %s %s", cqZ(int64(p.Err)), cqZ(int64(p.ID)), cqZ(int64(p.Leader)), cqZ(int64(p.Epoch)), c28I32s(p.Replicas), c28I32s(p.ISR), c28I32s(p.Offline))
		}
		ts[i] = fmt.Sprintf("mkMTopic %s %s %s %s %s", cqZ(int64(t.Err)), c28OptStr(t.Name), cqBytes(t.ID[:]), cqBool(t.Internal), cqList(ps))
	}
	return fmt.Sprintf("(mkCluster %s %s %s %s)", cqList(bs), cqZ(int64(c.Controller)), cqList(ts), c28OptStr(c.ClusterID))
}
func c28Coq(cs c28Case, res c28Result) string {
	if cs.Kind == "coord" {
		return fmt.Sprintf("CoordCase %s %s %s (mkCoord %s %s %s %s)", cqBool(cs.Ready), cqStr(cs.Host), cqZ(int64(cs.Port)),
			cqZ(int64(res.coord.Err)), cqZ(int64(res.coord.Node)), cqStr(res.coord.Host), cqZ(int64(res.coord.Port)))
	}
	rts := make([]string, len(res.req))
	for i, t := range res.req {
		rts[i] = fmt.Sprintf("(%s, %s)", c28OptStr(t.Name), cqBytes(t.ID[:]))
	}
	return fmt.Sprintf("MetaCase %s %s %s (mkMReq %s %s) %s %s %s", cqBool(cs.Ready), cqZ(int64(cs.Version)), c28CoqCluster(res.store),
		cqBool(res.reqAll), cqList(rts), cqStr(cs.Host), cqZ(int64(cs.Port)), c28CoqCluster(res.obs))
}

func c28Shrink(cs c28Case, key string) c28Case {
	fails := func(c c28Case) bool { r := c28Run(c); return r.fail != "" && r.failKey == key }
	cur := cs
	cur.Snapshot.Topics = vShrink(cur.Snapshot.Topics, func(ts []c28Topic) bool {
		c := cur
		c.Snapshot.Topics = ts
		return fails(c)
	})
	cur.Topics = vShrink(cur.Topics, func(ts []c28ReqTopic) bool {
		c := cur
		c.Topics = ts
		return (len(ts) > 0 || len(cs.Topics) == 0) && fails(c)
	})
	for i := range cur.Snapshot.Topics {
		i := i
		parts := vShrink(cur.Snapshot.Topics[i].Parts, func(ps []c28Part) bool {
			c := cur
			c.Snapshot.Topics = append([]c28Topic(nil), cur.Snapshot.Topics...)
			c.Snapshot.Topics[i].Parts = ps
			return fails(c)
		})
		ts := append([]c28Topic(nil), cur.Snapshot.Topics...)
		ts[i].Parts = parts
		cur.Snapshot.Topics = ts
	}
	cur.Snapshot.Brokers = vShrink(cur.Snapshot.Brokers, func(bs []c28Broker) bool {
		c := cur
		c.Snapshot.Brokers = bs
		return fails(c)
	})
	if !fails(cur) {
		return cs
	}
	return cur
}

func TestVerifC28(t *testing.T) {
	rep := vNewReport("C28", "generated cluster metadata snapshots (0-5 topics incl. duplicate names/ids, topic-level and partition-level error codes, leaders -1..5, epochs, replica/ISR/offline lists, zero topic ids) in a real metadata.InMemoryStore and Metadata requests v0-v12 (all topics, empty list, by name incl. unknown/duplicate names, by topic id v10-12 incl. unknown ids, mixed) through the real handleMetadata / buildNotReadyResponse, FindCoordinator v3 through handleFindCoordinator / buildNotReadyResponse; plus a concurrent stream (groups of 2-6 requests issued simultaneously under testing/synctest with a gated store, each judged against its own request and against its sequential reply); a case is non-trivial when the reply contains a partition or an unknown-topic entry or is a not-ready/coordinator reply; distinct = distinct canonical case")
	var coq, jsons []string
	runOne := func(cs c28Case) {
		res := c28Run(cs)
		canon, _ := json.Marshal(cs)
		nt := cs.Kind == "coord" || !cs.Ready
		for _, tp := range res.obs.Topics {
			if len(tp.Parts) > 0 || tp.Err == protocol.UNKNOWN_TOPIC_ID || tp.Err == protocol.UNKNOWN_TOPIC_OR_PARTITION {
				nt = true
			}
			if tp.Err != 0 && len(tp.Parts) > 0 {
				rep.Hist("error-topic-with-partitions")
			}
		}
		rep.Count(string(canon), nt)
		kind := cs.Kind
		if cs.Kind == "meta" {
			switch {
			case res.reqAll:
				kind = "meta-all"
			case len(res.req) == 0:
				kind = "meta-empty-list"
			default:
				anyID, anyZero := false, false
				for _, q := range res.req {
					if q.ID != c28Zero {
						anyID = true
					} else {
						anyZero = true
					}
				}
				switch {
				case anyID && anyZero:
					kind = "meta-mixed(excluded)"
				case anyID:
					kind = "meta-by-id"
				default:
					kind = "meta-by-name"
				}
			}
		}
		if !cs.Ready {
			kind += "-notready"
		}
		rep.Hist(kind)
		rep.Hist(fmt.Sprintf("v%d", cs.Version))
		rep.Sample(cs)
		if res.fail != "" {
			if res.failOr == "harness" {
				rep.Fail("harness", "harness-error", res.fail, cs)
			} else {
				shr := c28Shrink(cs, res.failKey)
				r2 := c28Run(shr)
				if r2.fail == "" {
					shr, r2 = cs, res
				}
				rep.Fail(r2.failOr, r2.failKey, r2.fail, shr)
			}
		}
		if res.failOr != "harness" {
			coq = append(coq, c28Coq(cs, res))
			jsons = append(jsons, string(canon))
		}
	}
	runGroup := func(g c28Group) {
		results := c28RunGroup(t, g)
		canon, _ := json.Marshal(g)
		rep.Count(string(canon), true)
		rep.Hist("concurrent-group")
		rep.Hist(fmt.Sprintf("concurrent-group-of-%d", len(g.Reqs)))
		if i, bad := c28FirstFail(results); bad {
			key := results[i].failKey
			if results[i].failOr == "harness" {
				rep.Fail("harness", "harness-error", results[i].fail, g)
			} else {
				shr := g
				shr.Reqs = vShrink(g.Reqs, func(rs []c28Case) bool {
					if len(rs) < 2 {
						return false
					}
					c := g
					c.Reqs = rs
					j, b := c28FirstFail(c28RunGroup(t, c))
					_ = j
					return b
				})
				rs2 := c28RunGroup(t, shr)
				if j, b := c28FirstFail(rs2); b {
					rep.Fail(rs2[j].failOr, rs2[j].failKey, rs2[j].fail, shr)
				} else {
					rep.Fail(results[i].failOr, key, results[i].fail, g)
				}
			}
		}
		for i, res := range results {
			if res.failOr != "harness" {
				coq = append(coq, c28Coq(g.req(i), res))
				jsons = append(jsons, string(canon))
			}
		}
	}
	runConn := func(cn c28Conn) {
		obs, oracle, key, what := c28RunConn(cn)
		canon, _ := json.Marshal(cn)
		rep.Count(string(canon), true)
		rep.Hist("connection-stream")
		for _, st := range cn.Steps {
			if st.StoreFail != "" {
				rep.Hist("connection-stream-store-" + st.StoreFail)
			}
		}
		if what != "" {
			shr := cn
			shr.Steps = vShrink(cn.Steps, func(ss []c28ConnStep) bool {
				if len(ss) == 0 {
					return false
				}
				c := cn
				c.Steps = ss
				_, _, k2, w2 := c28RunConn(c)
				return w2 != "" && k2 == key
			})
			if _, o2, k2, w2 := c28RunConn(shr); w2 != "" && k2 == key {
				rep.Fail(o2, k2, w2, shr)
			} else {
				rep.Fail(oracle, key, what, cn)
			}
		}
		for _, o := range obs {
			if o.cs.Kind == "coord" {
				if o.replied && o.res.failOr != "harness" {
					coq = append(coq, c28Coq(o.cs, o.res))
					jsons = append(jsons, string(canon))
				}
				continue
			}
			if o.replied && o.res.failOr == "harness" {
				continue
			}
			coq = append(coq, c28CoqConn(o))
			jsons = append(jsons, string(canon))
		}
	}
	if rc := vReplayCase(); rc != nil {
		var probeC struct {
			Steps []json.RawMessage `json:"steps"`
		}
		if json.Unmarshal(rc, &probeC) == nil && len(probeC.Steps) > 0 {
			var cn c28Conn
			if err := json.Unmarshal(rc, &cn); err != nil {
				t.Fatalf("bad replay: %v", err)
			}
			runConn(cn)
			rep.Cases("C28", "From KS Require Import lib.Base model.Proxy corr.ProxyCorr.", "mcase", "check_mcase", coq, jsons)
			rep.Write()
			return
		}
		var probe struct {
			Reqs []json.RawMessage `json:"reqs"`
		}
		if json.Unmarshal(rc, &probe) == nil && len(probe.Reqs) > 0 {
			var g c28Group
			if err := json.Unmarshal(rc, &g); err != nil {
				t.Fatalf("bad replay: %v", err)
			}
			runGroup(g)
		} else {
			var cs c28Case
			if err := json.Unmarshal(rc, &cs); err != nil {
				t.Fatalf("bad replay: %v", err)
			}
			runOne(cs)
		}
	} else {
		tn, un := "t", "missing"
		id1 := [16]byte{1}
		leak := c28Cluster{Brokers: []c28Broker{{3, "b", 9092}}, Controller: 3,
			Topics: []c28Topic{{Err: 5, Name: &tn, ID: id1, Parts: []c28Part{{ID: 0, Leader: 3, Epoch: 7, Replicas: []int32{3, 4}, ISR: []int32{3}}}}}}
		corpus := []c28Case{
			// design-round finding: topic-level error + partitions copied verbatim (leader 3 leaks)
			{Kind: "meta", Ready: true, Version: 12, Snapshot: leak, All: true, Host: "p", Port: 9092},
			{Kind: "meta", Ready: true, Version: 9, Snapshot: leak, Topics: []c28ReqTopic{{Name: &tn}, {Name: &un}}, Host: "p", Port: 9092},
			{Kind: "meta", Ready: true, Version: 12, Snapshot: leak, Topics: []c28ReqTopic{{ID: id1}, {ID: [16]byte{9}}}, Host: "p", Port: 9092},
			{Kind: "meta", Ready: false, Version: 12, Snapshot: leak, Topics: []c28ReqTopic{{Name: &tn}}, Host: "p", Port: 9092},
			{Kind: "meta", Ready: true, Version: 1, Snapshot: leak, Topics: []c28ReqTopic{}, Host: "p", Port: 9092},
			{Kind: "coord", Ready: true, Version: 3, Host: "p", Port: 9092},
			{Kind: "coord", Ready: false, Version: 3, Host: "p", Port: 9092},
		}
		for _, cs := range corpus {
			runOne(cs)
		}
		r := vNewRand(vSeed())
		n := vN(450, 6000)
		for i := 0; i < n; i++ {
			runOne(c28Gen(r.Fork()))
		}
		// concurrent stream: corpus shape first (two v12 by-id requests for different topics
		// + all topics + empty list at once), then generated groups
		{
			na, nb := "a", "b"
			ida, idb := [16]byte{0xa}, [16]byte{0xb}
			snap := c28Cluster{Brokers: []c28Broker{{1, "b1", 9092}}, Controller: 1, Topics: []c28Topic{
				{Name: &na, ID: ida, Parts: []c28Part{{ID: 0, Leader: 1, Epoch: 3, Replicas: []int32{1}, ISR: []int32{1}}}},
				{Name: &nb, ID: idb, Err: 5, Parts: []c28Part{{ID: 0, Leader: 1, Epoch: 8}, {ID: 1, Leader: 1, Epoch: 9, Err: 9}}}}}
			runGroup(c28Group{Snapshot: snap, Host: "p", Port: 9092, Reqs: []c28Case{
				{Kind: "meta", Ready: true, Version: 12, Topics: []c28ReqTopic{{ID: ida}}},
				{Kind: "meta", Ready: true, Version: 12, Topics: []c28ReqTopic{{ID: idb}}},
				{Kind: "meta", Ready: true, Version: 12, All: true},
				{Kind: "meta", Ready: true, Version: 9, Topics: []c28ReqTopic{}},
				{Kind: "meta", Ready: true, Version: 5, Topics: []c28ReqTopic{{Name: &nb}}},
				{Kind: "coord", Ready: true, Version: 3}}})
		}
		// connection stream: corpus (store fails while a backend is reachable), then generated
		{
			na := "a"
			snap := c28Cluster{Brokers: []c28Broker{{1, "b1", 9092}}, Controller: 1, Topics: []c28Topic{
				{Name: &na, ID: [16]byte{0xa}, Parts: []c28Part{{ID: 0, Leader: 1, Epoch: 3, Replicas: []int32{1}, ISR: []int32{1}}}}}}
			for _, mode := range []string{"error", "timeout", ""} {
				runConn(c28Conn{Snapshot: snap, Host: "p", Port: 9092, Steps: []c28ConnStep{
					{Req: c28Case{Kind: "coord", Version: 3}},
					{Req: c28Case{Kind: "meta", Version: 9, Topics: []c28ReqTopic{{Name: &na}}}},
					{Req: c28Case{Kind: "meta", Version: 12, All: true}, StoreFail: mode}}})
			}
		}
		nc := vN(80, 800)
		for i := 0; i < nc; i++ {
			runConn(c28GenConn(r.Fork()))
		}
		ng := vN(60, 800)
		for i := 0; i < ng; i++ {
			runGroup(c28GenGroup(r.Fork()))
		}
	}
	rep.Cases("C28", "From KS Require Import lib.Base model.Proxy corr.ProxyCorr.", "mcase", "check_mcase", coq, jsons)
	rep.Write()
	if len(rep.Failures) > 0 {
		t.Logf("oracle failures: %s", strings.TrimSpace(rep.Failures[0].What))
	}
}
