//go:build verif

package metadata

// Verification-only constructor (overlaid with go test -overlay, never written to the
// repository): a PartitionRouter with a given routing table and no etcd watcher, so
// that cmd/proxy can be driven with a static router.
func VerifNewPartitionRouter(routes []PartitionRoute) *PartitionRouter {
	r := &PartitionRouter{cancel: func() {}, routes: make(map[string]string)}
	for _, rt := range routes {
		r.routes[partitionKey(rt.Topic, rt.Partition)] = rt.BrokerID
	}
	return r
}
