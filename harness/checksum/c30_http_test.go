package main

// C30 harness, part 2 (cmd/proxy): POST /lfs/download requests x storage behaviours
// through the real handleHTTPDownload / streamDownloadWithVerify (httptest recorder,
// every 8th case additionally over a real httptest server).  The implementation-side
// oracle checks "object bytes are sent only if their SHA-256 and size match the
// integrity block the caller supplied"; every case (except the few with objects
// > 4 KiB, which are oracle-only) is emitted as a Coq term for corr/ChecksumCorr.v.

import (
	"bytes"
	"context"
	"crypto/sha256"
	"encoding/hex"
	"encoding/json"
	"errors"
	"fmt"
	"io"
	"log/slog"
	"math"
	"net/http"
	"net/http/httptest"
	"os"
	"path/filepath"
	"strings"
	"sync/atomic"
	"testing"
	"time"

	v4 "github.com/aws/aws-sdk-go-v2/aws/signer/v4"
	"github.com/aws/aws-sdk-go-v2/service/s3"
)

type c30Req struct {
	Method    string `json:"method"`
	APIKey    string `json:"api_key"`    // module's key ("" = auth off)
	SentKey   string `json:"sent_key"`   // X-API-Key header sent
	Unhealthy bool   `json:"unhealthy"`  // s3Healthy = 0
	BadJSON   bool   `json:"bad_json"`   // body is not JSON
	Bucket    string `json:"bucket"`
	Key       string `json:"key"`
	Mode      string `json:"mode"`
	NoInteg   bool   `json:"no_integrity"`
	SHA       string `json:"sha"`
	Alg       string `json:"alg"`
	Size      int64  `json:"size"`
}

type c30HTTPCase struct {
	Req        c30Req `json:"req"`
	MaxBlob    int64  `json:"max_blob"`
	Presign    bool   `json:"presign_enabled"`
	PresignErr bool   `json:"presign_err"`
	Object     []byte `json:"object"`                // what S3 holds under TrimSpace(key)
	Missing    bool   `json:"missing,omitempty"`     // GetObject fails
	ReadErrAt  int    `json:"read_err_at,omitempty"` // >0: body yields this many bytes, then a read error
	Server     bool   `json:"server,omitempty"`      // also run over a real HTTP server
	Tag        string `json:"tag"`
}

// c30S3: the package's fakeS3 plus GetObject failure / mid-stream read error injection.
type c30S3 struct {
	*fakeS3
	missing   bool
	readErrAt int
	gets      []string
}

var errC30Read = errors.New("c30: connection reset while reading object")

type c30Body struct {
	data []byte
	fail bool
}

func (b *c30Body) Read(p []byte) (int, error) {
	if len(b.data) == 0 {
		if b.fail {
			return 0, errC30Read
		}
		return 0, io.EOF
	}
	n := copy(p, b.data)
	b.data = b.data[n:]
	return n, nil
}
func (b *c30Body) Close() error { return nil }

func (f *c30S3) GetObject(ctx context.Context, params *s3.GetObjectInput, optFns ...func(*s3.Options)) (*s3.GetObjectOutput, error) {
	f.gets = append(f.gets, *params.Key)
	if f.missing {
		return nil, errors.New("NoSuchKey: object not found")
	}
	data, ok := f.fakeS3.objects[*params.Key]
	if !ok {
		return nil, errors.New("NoSuchKey: object not found")
	}
	length := int64(len(data))
	body := &c30Body{data: append([]byte(nil), data...)}
	if f.readErrAt > 0 && f.readErrAt <= len(data) {
		body.data, body.fail = body.data[:f.readErrAt], true
	}
	return &s3.GetObjectOutput{Body: body, ContentLength: &length}, nil
}

type c30Presign struct {
	fakePresign
	fail bool
}

func (p *c30Presign) PresignGetObject(ctx context.Context, params *s3.GetObjectInput, optFns ...func(*s3.PresignOptions)) (*v4.PresignedHTTPRequest, error) {
	if p.fail {
		return nil, errors.New("presign failed")
	}
	return p.fakePresign.PresignGetObject(ctx, params, optFns...)
}

type c30HTTPObs struct {
	status   int
	code     string // error code; "stream" / "presign" for 200
	body     []byte // stream 200: the bytes sent
	echoSHA  string
	echoSize int64
}

func c30SHA(b []byte) string { s := sha256.Sum256(b); return hex.EncodeToString(s[:]) }

func c30Module(cs c30HTTPCase) (*lfsModule, *c30S3) {
	fs3 := &c30S3{fakeS3: newFakeS3(), missing: cs.Missing, readErrAt: cs.ReadErrAt}
	logger := slog.New(slog.NewTextHandler(io.Discard, nil))
	m := &lfsModule{
		logger:           logger,
		s3Uploader:       &s3Uploader{bucket: "test-bucket", region: "us-east-1", chunkSize: 5 << 20, api: fs3, presign: &c30Presign{fail: cs.PresignErr}},
		s3Bucket:         "test-bucket",
		s3Namespace:      "test-ns",
		maxBlob:          cs.MaxBlob,
		chunkSize:        5 << 20,
		checksumAlg:      "sha256",
		proxyID:          "test-proxy",
		metrics:          newLfsMetrics(),
		tracker:          &LfsOpsTracker{config: TrackerConfig{}, logger: logger},
		httpAPIKey:       cs.Req.APIKey,
		topicMaxLength:   249,
		downloadTTLMax:   2 * time.Minute,
		uploadSessionTTL: 1 * time.Hour,
		uploadSessions:   make(map[string]*uploadSession),
		presignEnabled:   cs.Presign,
	}
	if !cs.Req.Unhealthy {
		atomic.StoreUint32(&m.s3Healthy, 1)
	}
	if !cs.Missing {
		fs3.fakeS3.objects[strings.TrimSpace(cs.Req.Key)] = append([]byte(nil), cs.Object...)
	}
	fs3.fakeS3.objects["test-ns/decoy/lfs/other"] = []byte("decoy-object-bytes-decoy-object-bytes")
	return m, fs3
}

func c30Body_(cs c30HTTPCase) []byte {
	if cs.Req.BadJSON {
		return []byte(`{"bucket": "test-bucket", "key": `)
	}
	rq := lfsDownloadRequest{Bucket: cs.Req.Bucket, Key: cs.Req.Key, Mode: cs.Req.Mode}
	if !cs.Req.NoInteg {
		rq.Integrity = &lfsIntegrityRequest{SHA256: cs.Req.SHA, ChecksumAlg: cs.Req.Alg, Size: cs.Req.Size}
	}
	b, _ := json.Marshal(rq)
	return b
}

func c30Parse(status int, hdr http.Header, body []byte) (c30HTTPObs, string) {
	o := c30HTTPObs{status: status}
	if status != http.StatusOK {
		var er lfsErrorResponse
		if err := json.Unmarshal(body, &er); err != nil || er.Code == "" {
			return o, fmt.Sprintf("status %d with a body that is not the JSON error document: %q", status, body)
		}
		o.code = er.Code
		return o, ""
	}
	if strings.HasPrefix(hdr.Get("Content-Type"), "application/json") && hdr.Get("X-Kafscale-LFS-Checksum") == "" {
		var pr lfsDownloadResponse
		if err := json.Unmarshal(body, &pr); err != nil || pr.Mode != "presign" || pr.Integrity == nil {
			return o, fmt.Sprintf("status 200 JSON that is not a presign answer: %q", body)
		}
		o.code, o.echoSHA, o.echoSize = "presign", pr.Integrity.SHA256, pr.Integrity.Size
		return o, ""
	}
	o.code, o.body = "stream", append([]byte{}, body...)
	o.echoSHA = strings.TrimPrefix(hdr.Get("X-Kafscale-LFS-Checksum"), "sha256=")
	return o, ""
}

func c30HTTPRun(cs c30HTTPCase) (obs c30HTTPObs, keyOK bool, fail, failKey string) {
	setFail := func(k, f string) {
		if fail == "" {
			fail, failKey = f, k
		}
	}
	m, fs3 := c30Module(cs)
	keyOK = m.lfsValidateObjectKey(strings.TrimSpace(cs.Req.Key)) == nil
	req := httptest.NewRequest(cs.Req.Method, "/lfs/download", bytes.NewReader(c30Body_(cs)))
	if cs.Req.SentKey != "" {
		req.Header.Set("X-API-Key", cs.Req.SentKey)
	}
	rr := httptest.NewRecorder()
	m.handleHTTPDownload(rr, req)
	obs, perr := c30Parse(rr.Code, rr.Header(), rr.Body.Bytes())
	if perr != "" {
		setFail("malformed-response", perr)
	}
	object := cs.Object
	// ---- the property's clauses on the real response ----
	wantSHA := strings.ToLower(strings.TrimSpace(cs.Req.SHA))
	if obs.status == http.StatusOK && obs.code == "stream" {
		switch {
		case cs.Missing || (cs.ReadErrAt > 0 && cs.ReadErrAt <= len(object)):
			if cs.Missing || !bytes.Equal(obs.body, object) {
				setFail("served-incomplete-object", fmt.Sprintf("200 with %d bytes although the object could not be read completely", len(obs.body)))
			}
		case !bytes.Equal(obs.body, object):
			setFail("served-wrong-bytes", fmt.Sprintf("200 body %v, object is %v", c30Short(obs.body), c30Short(object)))
		}
		if got := c30SHA(obs.body); got != wantSHA {
			setFail("served-sha-mismatch", fmt.Sprintf("200 with body whose SHA-256 is %s, caller supplied %q", got, cs.Req.SHA))
		}
		if int64(len(obs.body)) != cs.Req.Size {
			setFail("served-size-mismatch", fmt.Sprintf("200 with %d bytes, caller supplied integrity.size=%d (sha matches: %v)", len(obs.body), cs.Req.Size, c30SHA(obs.body) == wantSHA))
		}
		if cl := rr.Header().Get("Content-Length"); cl != fmt.Sprint(len(obs.body)) {
			setFail("content-length-wrong", fmt.Sprintf("Content-Length %q for %d bytes", cl, len(obs.body)))
		}
	} else {
		// no object bytes in any other response
		if len(object) >= 12 && bytes.Contains(rr.Body.Bytes(), object[:12]) {
			setFail("object-bytes-leaked", fmt.Sprintf("status %d (%s) response contains object bytes", obs.status, obs.code))
		}
		if obs.status == http.StatusOK && obs.code == "presign" && len(fs3.gets) > 0 {
			setFail("presign-read-object", "presign mode read the object")
		}
	}
	// the same request over a real HTTP connection must give the same answer (bytes on the wire)
	if cs.Server {
		m2, _ := c30Module(cs)
		srv := httptest.NewServer(http.HandlerFunc(m2.handleHTTPDownload))
		rq, _ := http.NewRequest(cs.Req.Method, srv.URL, bytes.NewReader(c30Body_(cs)))
		if cs.Req.SentKey != "" {
			rq.Header.Set("X-API-Key", cs.Req.SentKey)
		}
		resp, err := http.DefaultClient.Do(rq)
		if err != nil {
			setFail("server-request-failed", err.Error())
		} else {
			wire, rerr := io.ReadAll(resp.Body)
			_ = resp.Body.Close()
			if rerr != nil {
				setFail("server-body-read-failed", rerr.Error())
			}
			o2, _ := c30Parse(resp.StatusCode, resp.Header, wire)
			if o2.status != obs.status || o2.code != obs.code || !bytes.Equal(o2.body, obs.body) {
				setFail("wire-differs-from-recorder", fmt.Sprintf("over HTTP: %d %s %d bytes; recorder: %d %s %d bytes", o2.status, o2.code, len(o2.body), obs.status, obs.code, len(obs.body)))
			}
		}
		srv.Close()
	}
	return
}

func c30Short(b []byte) string {
	if len(b) > 24 {
		return fmt.Sprintf("%v...(%d bytes)", b[:24], len(b))
	}
	return fmt.Sprintf("%v", b)
}

func c30HTTPGen(r *vRand, i int) c30HTTPCase {
	n := r.Range(1, 48)
	switch r.Intn(14) {
	case 0:
		n = r.Range(32*1024-2, 32*1024+2) // around the 32 KiB copy buffer
	case 1:
		n = r.Range(60000, 70000)
	case 2:
		n = r.Range(200, 900)
	}
	honest := r.Bytes(n)
	validKey := "test-ns/topic/lfs/2025/01/01/obj-" + hex.EncodeToString(r.Bytes(3))
	cs := c30HTTPCase{MaxBlob: 5 << 30, Presign: r.Chance(50), Server: i%8 == 0}
	q := c30Req{Method: http.MethodPost, Bucket: "test-bucket", Key: validKey, Mode: "stream", SHA: c30SHA(honest), Alg: "sha256", Size: int64(n)}
	cs.Tag = "honest-request"
	pick := func(xs ...string) string { return xs[r.Intn(len(xs))] }
	// request mutations (at most two per case, so that the deep branches stay reachable)
	for k, muts := 0, r.Intn(3); k < muts; k++ {
		switch r.Intn(16) {
		case 0:
			q.Method = pick(http.MethodGet, http.MethodPut)
		case 1:
			q.APIKey, q.SentKey = "secret", pick("secret", "wrong", "", " secret ")
		case 2:
			q.Unhealthy = true
		case 3:
			q.BadJSON = true
		case 4:
			q.Bucket = pick("", " test-bucket ", "other-bucket", "TEST-BUCKET", "\u00a0test-bucket\u2003", "  ")
		case 5:
			q.Key = pick("", " "+validKey+"\n", "/"+validKey, "test-ns/../lfs/x", "other-ns/topic/lfs/x", "test-ns/topic/nolfs/x", "\u3000"+validKey)
		case 6:
			q.Mode = pick("", "STREAM ", "presign", "Presign", "PRES\u0130GN", "bogus", "\u2003stream\u0085", "streaming")
		case 7:
			q.NoInteg = true
		case 8:
			q.SHA = pick("", "  ", strings.ToUpper(q.SHA), " "+q.SHA+"\t", q.SHA[:63], q.SHA+"0", "g"+q.SHA[1:], "\u212a"+q.SHA[3:], c30SHA([]byte("other")), strings.Repeat("\u00e9", 32))
		case 9:
			q.Alg = pick("", "SHA256 ", "md5", "sha-256", "\u017fha256", "none")
		case 10:
			q.Size = []int64{0, -1, int64(n) - 1, int64(n) + 1, int64(n) + 7, 1, math.MaxInt64, math.MaxInt64 - 1, 65, 64}[r.Intn(10)]
		case 11:
			cs.MaxBlob = []int64{0, 64, int64(n), int64(n) - 1, 1}[r.Intn(5)]
		case 12:
			q.Mode = "presign"
			cs.Presign = true
			cs.PresignErr = r.Chance(30)
		}
		cs.Tag = "mutated-request"
	}
	cs.Req = q
	// storage behaviour
	switch r.Intn(12) {
	case 0, 1, 2, 3, 4:
		cs.Object = honest
		cs.Tag += "/exact"
	case 5:
		cs.Object = append([]byte(nil), honest...)
		cs.Object[r.Intn(n)] ^= byte(1 << uint(r.Intn(8)))
		cs.Tag += "/tampered"
	case 6:
		cs.Object = append([]byte(nil), honest[:r.Intn(n)]...)
		cs.Tag += "/truncated"
	case 7:
		cs.Object = append(append([]byte(nil), honest...), r.Bytes(r.Range(1, 9))...)
		cs.Tag += "/extended"
	case 8:
		cs.Object = bytes.Repeat(honest, 3)
		cs.Tag += "/oversized"
	case 9:
		cs.Object, cs.Missing = []byte{}, true
		cs.Tag += "/get-error"
	case 10:
		cs.Object = honest
		cs.ReadErrAt = r.Range(1, n)
		cs.Tag += "/read-error"
	default:
		// the caller's envelope describes a prefix-consistent but different object: its SHA-256 is
		// right for what the storage holds, the declared size is not
		cs.Object = append([]byte(nil), honest[:r.Range(1, n)]...)
		cs.Req.SHA = c30SHA(cs.Object)
		cs.Tag += "/sha-right-size-wrong"
	}
	if cs.Object == nil {
		cs.Object = []byte{}
	}
	return cs
}

func c30CoqHTTP(cs c30HTTPCase, obs c30HTTPObs, keyOK bool) string {
	q := cs.Req
	auth := q.APIKey == "" || strings.TrimSpace(q.SentKey) == q.APIKey
	obj := "GErr"
	data := cs.Object
	rerr := false
	if cs.ReadErrAt > 0 && cs.ReadErrAt <= len(cs.Object) {
		data, rerr = cs.Object[:cs.ReadErrAt], true
	}
	if !cs.Missing {
		obj = fmt.Sprintf("(GBody %s %s)", cqBytes(data), cqBool(rerr))
	}
	// the digest of what the handler buffers (at most size+1 bytes), computed here with crypto/sha256
	buffered := data
	if q.Size >= 0 && q.Size < int64(len(buffered)) {
		buffered = buffered[:q.Size+1]
	}
	return fmt.Sprintf("CDownload (mkCfg %s %s %s) (mkReq %s %s %s %s %s %s %s %s %s %s %s %s) %s %s %s %d %s %s %s %s",
		cqStr("test-bucket"), cqZ(cs.MaxBlob), cqBool(cs.Presign),
		cqBool(q.Method == http.MethodPost), cqBool(auth), cqBool(!q.Unhealthy), cqBool(!q.BadJSON), cqStr(q.Bucket), cqStr(q.Key), cqStr(q.Mode),
		cqBool(keyOK), cqBool(!q.NoInteg), cqStr(q.SHA), cqStr(q.Alg), cqZ(q.Size),
		obj, cqStr(c30SHA(buffered)), cqBool(!cs.PresignErr),
		obs.status, cqStr(obs.code), cqBytes(obs.body), cqStr(obs.echoSHA), cqZ(obs.echoSize))
}

func c30WriteCasesHTTP(rep *vReport, name, requires, caseType, checkFn string, cases, jsons []string) {
	const shard = 500
	for i := 0; i < len(cases) || i == 0; i += shard {
		j := i + shard
		if j > len(cases) {
			j = len(cases)
		}
		fn := fmt.Sprintf("cases_%s_%d.v", name, i/shard)
		var sb strings.Builder
		sb.WriteString(requires + "\nOpen Scope Z_scope.\n")
		names := make([]string, 0, j-i)
		for k, c := range cases[i:j] {
			sb.WriteString(fmt.Sprintf("(*#%d*) Definition c%d : %s := %s.\n", i+k, i+k, caseType, strings.ReplaceAll(c, "\n", " ")))
			names = append(names, fmt.Sprintf("c%d", i+k))
		}
		sb.WriteString("Definition cases : list (" + caseType + ") := [" + strings.Join(names, "; ") + "].\n")
		sb.WriteString(fmt.Sprintf("Definition mism := Eval vm_compute in (map (fun i => i + %d) (mismatches (%s) cases)).\nPrint mism.\n", i, checkFn))
		_ = os.WriteFile(filepath.Join(vOutDir(), fn), []byte(sb.String()), 0o644)
		if len(jsons) == len(cases) && len(cases) > 0 {
			_ = os.WriteFile(filepath.Join(vOutDir(), strings.TrimSuffix(fn, ".v")+".jsonl"), []byte(strings.Join(jsons[i:j], "\n")+"\n"), 0o644)
		}
		rep.CaseFiles = append(rep.CaseFiles, fn)
		if len(cases) == 0 {
			break
		}
	}
	rep.CaseCount += len(cases)
}

func TestVerifC30Http(t *testing.T) {
	rep := vNewReport("C30", "cmd/proxy: POST /lfs/download requests (method, API key, health, JSON, bucket/key/mode spellings incl. Unicode white space and U+0130, integrity sha256 absent/upper case/padded/short/non-hex/foreign, checksum_alg, size 0/-1/len-1/len/len+1/MaxInt64, maxBlob, presign on/off/failing) x storage (exact, tampered bit, truncated, extended, 3x oversized, GetObject error, read error after k bytes, sha-right-but-size-wrong; objects 1 B..70 KB incl. around the 32 KiB copy buffer) through the real handleHTTPDownload via httptest (recorder; every 8th also over a real server); non-trivial = the request reached the storage read; distinct = distinct canonical case")
	var coq, jsons []string
	runOne := func(cs c30HTTPCase) {
		obs, keyOK, fail, key := c30HTTPRun(cs)
		canon, _ := json.Marshal(cs)
		reached := obs.code == "stream" || obs.code == "integrity_failure" || obs.code == "s3_get_failed"
		rep.Count(string(canon), reached)
		rep.Hist(cs.Tag)
		rep.Hist(fmt.Sprintf("%d %s", obs.status, obs.code))
		if len(rep.Samples) < 3 && len(cs.Object) < 64 {
			rep.Sample(cs)
		}
		if fail != "" {
			rep.Fail(key, key, fail, cs)
		}
		if len(cs.Object) <= 4096 {
			coq = append(coq, c30CoqHTTP(cs, obs, keyOK))
			jsons = append(jsons, string(canon))
		} else {
			rep.Hist("oracle-only(large object)")
		}
	}
	if rc := vReplayCase(); rc != nil {
		var cs c30HTTPCase
		if err := json.Unmarshal(rc, &cs); err != nil {
			t.Fatalf("bad replay: %v", err)
		}
		if cs.Req.Method != "" { // a pkg/lfs replay has no request
			runOne(cs)
		}
	} else {
		honest := []byte("hello integrity world")
		key := "test-ns/topic/lfs/2025/01/01/obj-verify"
		base := c30HTTPCase{MaxBlob: 5 << 30, Object: honest, Tag: "corpus",
			Req: c30Req{Method: http.MethodPost, Bucket: "test-bucket", Key: key, Mode: "stream", SHA: c30SHA(honest), Alg: "sha256", Size: int64(len(honest))}}
		short := base // the finding fixed by fixes/C30-download-size-must-match.patch
		short.Req.Size = int64(len(honest)) + 3
		short.Tag = "corpus/sha-right-size-too-big"
		tam := base
		tam.Object = []byte("hello integrity w0rld")
		tam.Tag = "corpus/tampered"
		over := base
		over.Object = append(append([]byte(nil), honest...), '!')
		over.Tag = "corpus/one-byte-longer"
		rde := base
		rde.ReadErrAt = 5
		rde.Tag = "corpus/read-error"
		up := base
		up.Req.SHA = " " + strings.ToUpper(base.Req.SHA) + " "
		up.Server = true
		up.Tag = "corpus/upper-case-padded-sha"
		for _, cs := range []c30HTTPCase{base, short, tam, over, rde, up} {
			runOne(cs)
		}
		r := vNewRand(vSeed())
		n := vN(250, 3000)
		for i := 0; i < n; i++ {
			runOne(c30HTTPGen(r.Fork(), i))
		}
	}
	c30WriteCasesHTTP(rep, "C30_http", "From KS Require Import lib.Base lib.Strings model.Envelope model.Checksum corr.ChecksumCorr.", "case", "check_case", coq, jsons)
	rep.WriteAs("C30_http")
	if len(rep.Failures) > 0 {
		t.Logf("oracle failures: %s", strings.TrimSpace(rep.Failures[0].What))
	}
}
