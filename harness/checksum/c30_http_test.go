package main

// C30 harness, part 2 (cmd/proxy): POST /lfs/download requests x stored objects x fault sequences
// over successive GetObject calls, through the real handleHTTPDownload / streamDownloadWithVerify
// over a real HTTP connection (every 4th case also through a recorder).  The implementation-side
// oracle checks "object bytes are sent only if their SHA-256 and size match the
// integrity block the caller supplied"; every case (except the few with objects
// > 4 KiB, which are oracle-only) is emitted as a Coq term for corr/ChecksumCorr.v.

import (
	"bytes"
	"context"
	"crypto/sha256"
	"encoding/hex"
	"encoding/json"
	"errors"
	"fmt"
	"io"
	"log/slog"
	"math"
	"net/http"
	"net/http/httptest"
	"os"
	"path/filepath"
	"strings"
	"sync/atomic"
	"testing"
	"time"

	v4 "github.com/aws/aws-sdk-go-v2/aws/signer/v4"
	"github.com/aws/aws-sdk-go-v2/service/s3"
)

type c30Req struct {
	Method    string `json:"method"`
	APIKey    string `json:"api_key"`    // module's key ("" = auth off)
	SentKey   string `json:"sent_key"`   // X-API-Key header sent
	Unhealthy bool   `json:"unhealthy"`  // s3Healthy = 0
	BadJSON   bool   `json:"bad_json"`   // body is not JSON
	Bucket    string `json:"bucket"`
	Key       string `json:"key"`
	Mode      string `json:"mode"`
	NoInteg   bool   `json:"no_integrity"`
	SHA       string `json:"sha"`
	Alg       string `json:"alg"`
	Size      int64  `json:"size"`
}

type c30HTTPCase struct {
	Req        c30Req `json:"req"`
	MaxBlob    int64  `json:"max_blob"`
	Presign    bool   `json:"presign_enabled"`
	PresignErr bool   `json:"presign_err"`
	Object     []byte       `json:"object"`             // what S3 holds under TrimSpace(key)
	Attempts   []c30Attempt `json:"attempts"`           // behaviour of successive GetObject calls (the last one repeats)
	Server     bool   `json:"server,omitempty"`      // also run over a real HTTP server
	Tag        string `json:"tag"`
}

// c30Attempt: what one GetObject call does.  Kind "clean": the whole object; "short": the first K
// bytes, then a clean EOF (truncated answer); "read-error": the first K bytes (K may be 0), then a
// non-EOF read error; "get-error": GetObject itself fails.
type c30Attempt struct {
	Kind string `json:"kind"`
	K    int    `json:"k,omitempty"`
}

// content delivered by the attempt and whether it ends in a read error; ok=false: GetObject fails
func (a c30Attempt) outcome(object []byte) (data []byte, readErr, ok bool) {
	k := a.K
	if k < 0 {
		k = 0
	}
	if k > len(object) {
		k = len(object)
	}
	switch a.Kind {
	case "get-error":
		return nil, false, false
	case "short":
		return object[:k], false, true
	case "read-error":
		return object[:k], true, true
	}
	return object, false, true
}

// c30S3: the package's fakeS3 plus a programmed outcome per successive GetObject call.
type c30S3 struct {
	*fakeS3
	attempts []c30Attempt
	gets     []string
}

var errC30Read = errors.New("c30: connection reset while reading object")

type c30Body struct {
	data []byte
	fail bool
}

func (b *c30Body) Read(p []byte) (int, error) {
	if len(b.data) == 0 {
		if b.fail {
			return 0, errC30Read
		}
		return 0, io.EOF
	}
	n := copy(p, b.data)
	b.data = b.data[n:]
	return n, nil
}
func (b *c30Body) Close() error { return nil }

func (f *c30S3) GetObject(ctx context.Context, params *s3.GetObjectInput, optFns ...func(*s3.Options)) (*s3.GetObjectOutput, error) {
	n := len(f.gets)
	f.gets = append(f.gets, *params.Key)
	object, ok := f.fakeS3.objects[*params.Key]
	if !ok {
		return nil, errors.New("NoSuchKey: object not found")
	}
	att := c30Attempt{Kind: "clean"}
	if len(f.attempts) > 0 {
		if n >= len(f.attempts) {
			n = len(f.attempts) - 1
		}
		att = f.attempts[n]
	}
	data, readErr, ok := att.outcome(object)
	if !ok {
		return nil, errors.New("NoSuchKey: object not found")
	}
	length := int64(len(object))
	return &s3.GetObjectOutput{Body: &c30Body{data: append([]byte(nil), data...), fail: readErr}, ContentLength: &length}, nil
}

type c30Presign struct {
	fakePresign
	fail bool
}

func (p *c30Presign) PresignGetObject(ctx context.Context, params *s3.GetObjectInput, optFns ...func(*s3.PresignOptions)) (*v4.PresignedHTTPRequest, error) {
	if p.fail {
		return nil, errors.New("presign failed")
	}
	return p.fakePresign.PresignGetObject(ctx, params, optFns...)
}

type c30HTTPObs struct {
	status   int
	code     string // error code; "stream" / "presign" for 200
	body     []byte // stream 200: the bytes sent
	echoSHA  string
	echoSize int64
}

func c30SHA(b []byte) string { s := sha256.Sum256(b); return hex.EncodeToString(s[:]) }

func c30Module(cs c30HTTPCase) (*lfsModule, *c30S3) {
	fs3 := &c30S3{fakeS3: newFakeS3(), attempts: cs.Attempts}
	logger := slog.New(slog.NewTextHandler(io.Discard, nil))
	m := &lfsModule{
		logger:           logger,
		s3Uploader:       &s3Uploader{bucket: "test-bucket", region: "us-east-1", chunkSize: 5 << 20, api: fs3, presign: &c30Presign{fail: cs.PresignErr}},
		s3Bucket:         "test-bucket",
		s3Namespace:      "test-ns",
		maxBlob:          cs.MaxBlob,
		chunkSize:        5 << 20,
		checksumAlg:      "sha256",
		proxyID:          "test-proxy",
		metrics:          newLfsMetrics(),
		tracker:          &LfsOpsTracker{config: TrackerConfig{}, logger: logger},
		httpAPIKey:       cs.Req.APIKey,
		topicMaxLength:   249,
		downloadTTLMax:   2 * time.Minute,
		uploadSessionTTL: 1 * time.Hour,
		uploadSessions:   make(map[string]*uploadSession),
		presignEnabled:   cs.Presign,
	}
	if !cs.Req.Unhealthy {
		atomic.StoreUint32(&m.s3Healthy, 1)
	}
	fs3.fakeS3.objects[strings.TrimSpace(cs.Req.Key)] = append([]byte(nil), cs.Object...)
	fs3.fakeS3.objects["test-ns/decoy/lfs/other"] = []byte("decoy-object-bytes-decoy-object-bytes")
	return m, fs3
}

func c30Body_(cs c30HTTPCase) []byte {
	if cs.Req.BadJSON {
		return []byte(`{"bucket": "test-bucket", "key": `)
	}
	rq := lfsDownloadRequest{Bucket: cs.Req.Bucket, Key: cs.Req.Key, Mode: cs.Req.Mode}
	if !cs.Req.NoInteg {
		rq.Integrity = &lfsIntegrityRequest{SHA256: cs.Req.SHA, ChecksumAlg: cs.Req.Alg, Size: cs.Req.Size}
	}
	b, _ := json.Marshal(rq)
	return b
}

func c30Parse(status int, hdr http.Header, body []byte) (c30HTTPObs, string) {
	o := c30HTTPObs{status: status}
	if status != http.StatusOK {
		var er lfsErrorResponse
		if err := json.Unmarshal(body, &er); err != nil || er.Code == "" {
			return o, fmt.Sprintf("status %d with a body that is not the JSON error document: %q", status, body)
		}
		o.code = er.Code
		return o, ""
	}
	if strings.HasPrefix(hdr.Get("Content-Type"), "application/json") && hdr.Get("X-Kafscale-LFS-Checksum") == "" {
		var pr lfsDownloadResponse
		if err := json.Unmarshal(body, &pr); err != nil || pr.Mode != "presign" || pr.Integrity == nil {
			return o, fmt.Sprintf("status 200 JSON that is not a presign answer: %q", body)
		}
		o.code, o.echoSHA, o.echoSize = "presign", pr.Integrity.SHA256, pr.Integrity.Size
		return o, ""
	}
	o.code, o.body = "stream", append([]byte{}, body...)
	o.echoSHA = strings.TrimPrefix(hdr.Get("X-Kafscale-LFS-Checksum"), "sha256=")
	return o, ""
}

// c30Exchange sends the request once to a fresh module.  viaServer: over a real HTTP
// connection (httptest.NewServer + http.Client) — the body is what the CLIENT received;
// otherwise through an httptest.ResponseRecorder.
func c30Exchange(cs c30HTTPCase, viaServer bool) (status int, hdr http.Header, body []byte, calls int, keyOK bool, err error) {
	m, fs3 := c30Module(cs)
	keyOK = m.lfsValidateObjectKey(strings.TrimSpace(cs.Req.Key)) == nil
	if !viaServer {
		req := httptest.NewRequest(cs.Req.Method, "/lfs/download", bytes.NewReader(c30Body_(cs)))
		if cs.Req.SentKey != "" {
			req.Header.Set("X-API-Key", cs.Req.SentKey)
		}
		rr := httptest.NewRecorder()
		m.handleHTTPDownload(rr, req)
		return rr.Code, rr.Header(), rr.Body.Bytes(), len(fs3.gets), keyOK, nil
	}
	srv := httptest.NewServer(http.HandlerFunc(m.handleHTTPDownload))
	defer srv.Close()
	rq, _ := http.NewRequest(cs.Req.Method, srv.URL+"/lfs/download", bytes.NewReader(c30Body_(cs)))
	if cs.Req.SentKey != "" {
		rq.Header.Set("X-API-Key", cs.Req.SentKey)
	}
	resp, derr := http.DefaultClient.Do(rq)
	if derr != nil {
		return 0, nil, nil, len(fs3.gets), keyOK, derr
	}
	wire, rerr := io.ReadAll(resp.Body)
	_ = resp.Body.Close()
	return resp.StatusCode, resp.Header, wire, len(fs3.gets), keyOK, rerr
}

func c30HTTPRun(cs c30HTTPCase) (obs c30HTTPObs, keyOK bool, calls int, fail, failKey string) {
	setFail := func(k, f string) {
		if fail == "" {
			fail, failKey = f, k
		}
	}
	// primary observation: what an HTTP client received over a real connection
	status, hdr, received, calls, keyOK, xerr := c30Exchange(cs, true)
	if xerr != nil {
		setFail("client-transfer-failed", fmt.Sprintf("HTTP exchange failed: %v (status %d, %d bytes received)", xerr, status, len(received)))
	}
	obs, perr := c30Parse(status, hdr, received)
	if perr != "" && xerr == nil {
		setFail("malformed-response", perr)
	}
	object := cs.Object
	// ---- the property's clauses on the bytes the client received ----
	wantSHA := strings.ToLower(strings.TrimSpace(cs.Req.SHA))
	if obs.status == http.StatusOK && obs.code == "stream" {
		if got := c30SHA(received); got != wantSHA {
			setFail("served-sha-mismatch", fmt.Sprintf("200: the client received %d bytes whose SHA-256 is %s, caller supplied %q", len(received), got, cs.Req.SHA))
		}
		if int64(len(received)) != cs.Req.Size {
			setFail("served-size-mismatch", fmt.Sprintf("200: the client received %d bytes, caller supplied integrity.size=%d (sha matches: %v)", len(received), cs.Req.Size, c30SHA(received) == wantSHA))
		}
		// byte for byte: the received bytes are the complete answer of ONE storage read that was
		// made and ended without error (never a mixture of attempts, never a partial read) ...
		okSource := false
		for i := 0; i < calls; i++ {
			att := c30Attempt{Kind: "clean"}
			if len(cs.Attempts) > 0 {
				k := i
				if k >= len(cs.Attempts) {
					k = len(cs.Attempts) - 1
				}
				att = cs.Attempts[k]
			}
			if data, readErr, ok := att.outcome(object); ok && !readErr && bytes.Equal(data, received) {
				okSource = true
			}
		}
		if !okSource {
			setFail("served-wrong-bytes", fmt.Sprintf("200: the client received %s, which is not the complete answer of any error-free storage read of this request (object %s, attempts %+v, %d GetObject calls)", c30Short(received), c30Short(object), cs.Attempts, calls))
		}
		// ... and when the caller's envelope describes the stored object, they are that object
		if c30SHA(object) == wantSHA && !bytes.Equal(received, object) {
			setFail("served-wrong-bytes", fmt.Sprintf("200: the client received %s, the stored object is %s", c30Short(received), c30Short(object)))
		}
		if cl := hdr.Get("Content-Length"); cl != fmt.Sprint(len(received)) {
			setFail("content-length-wrong", fmt.Sprintf("Content-Length %q for %d bytes", cl, len(received)))
		}
		if obs.echoSHA != wantSHA {
			setFail("checksum-header-wrong", fmt.Sprintf("X-Kafscale-LFS-Checksum sha256=%s, caller supplied %q", obs.echoSHA, cs.Req.SHA))
		}
	} else {
		// no object bytes in any other response
		if len(object) >= 12 && bytes.Contains(received, object[:12]) {
			setFail("object-bytes-leaked", fmt.Sprintf("status %d (%s) response contains object bytes", obs.status, obs.code))
		}
		if obs.status == http.StatusOK && obs.code == "presign" && calls > 0 {
			setFail("presign-read-object", "presign mode read the object")
		}
	}
	// the recorder must see the same answer as the wire
	if cs.Server {
		st2, h2, b2, calls2, _, _ := c30Exchange(cs, false)
		o2, _ := c30Parse(st2, h2, b2)
		if o2.status != obs.status || o2.code != obs.code || !bytes.Equal(o2.body, obs.body) || calls2 != calls {
			setFail("wire-differs-from-recorder", fmt.Sprintf("over HTTP: %d %s %d bytes %d calls; recorder: %d %s %d bytes %d calls", obs.status, obs.code, len(obs.body), calls, o2.status, o2.code, len(o2.body), calls2))
		}
	}
	return
}

func c30Short(b []byte) string {
	if len(b) > 24 {
		return fmt.Sprintf("%v...(%d bytes)", b[:24], len(b))
	}
	return fmt.Sprintf("%v", b)
}

func c30HTTPGen(r *vRand, i int) c30HTTPCase {
	n := r.Range(1, 48)
	switch r.Intn(14) {
	case 0:
		n = r.Range(32*1024-2, 32*1024+2) // around the 32 KiB copy buffer
	case 1:
		n = r.Range(60000, 70000)
	case 2:
		n = r.Range(200, 900)
	}
	honest := r.Bytes(n)
	validKey := "test-ns/topic/lfs/2025/01/01/obj-" + hex.EncodeToString(r.Bytes(3))
	cs := c30HTTPCase{MaxBlob: 5 << 30, Presign: r.Chance(50), Server: i%4 == 0}
	q := c30Req{Method: http.MethodPost, Bucket: "test-bucket", Key: validKey, Mode: "stream", SHA: c30SHA(honest), Alg: "sha256", Size: int64(n)}
	cs.Tag = "honest-request"
	pick := func(xs ...string) string { return xs[r.Intn(len(xs))] }
	// request mutations (at most two per case, so that the deep branches stay reachable)
	for k, muts := 0, r.Intn(3); k < muts; k++ {
		switch r.Intn(16) {
		case 0:
			q.Method = pick(http.MethodGet, http.MethodPut)
		case 1:
			q.APIKey, q.SentKey = "secret", pick("secret", "wrong", "", " secret ")
		case 2:
			q.Unhealthy = true
		case 3:
			q.BadJSON = true
		case 4:
			q.Bucket = pick("", " test-bucket ", "other-bucket", "TEST-BUCKET", "\u00a0test-bucket\u2003", "  ")
		case 5:
			q.Key = pick("", " "+validKey+"\n", "/"+validKey, "test-ns/../lfs/x", "other-ns/topic/lfs/x", "test-ns/topic/nolfs/x", "\u3000"+validKey)
		case 6:
			q.Mode = pick("", "STREAM ", "presign", "Presign", "PRES\u0130GN", "bogus", "\u2003stream\u0085", "streaming")
		case 7:
			q.NoInteg = true
		case 8:
			sha := q.SHA
			if len(sha) != 64 { // an earlier mutation of this case already replaced the digest
				sha = c30SHA([]byte("other-digest"))
			}
			q.SHA = pick("", "  ", strings.ToUpper(sha), " "+sha+"\t", sha[:63], sha+"0", "g"+sha[1:], "\u212a"+sha[3:], c30SHA([]byte("other")), strings.Repeat("\u00e9", 32))
		case 9:
			q.Alg = pick("", "SHA256 ", "md5", "sha-256", "\u017fha256", "none")
		case 10:
			q.Size = []int64{0, -1, int64(n) - 1, int64(n) + 1, int64(n) + 7, 1, math.MaxInt64, math.MaxInt64 - 1, 65, 64}[r.Intn(10)]
		case 11:
			cs.MaxBlob = []int64{0, 64, int64(n), int64(n) - 1, 1}[r.Intn(5)]
		case 12:
			q.Mode = "presign"
			cs.Presign = true
			cs.PresignErr = r.Chance(30)
		}
		cs.Tag = "mutated-request"
	}
	cs.Req = q
	// storage behaviour
	switch r.Intn(12) {
	case 0, 1, 2, 3, 4:
		cs.Object = honest
		cs.Tag += "/exact"
	case 5:
		cs.Object = append([]byte(nil), honest...)
		cs.Object[r.Intn(n)] ^= byte(1 << uint(r.Intn(8)))
		cs.Tag += "/tampered"
	case 6:
		cs.Object = append([]byte(nil), honest[:r.Intn(n)]...)
		cs.Tag += "/truncated"
	case 7:
		cs.Object = append(append([]byte(nil), honest...), r.Bytes(r.Range(1, 9))...)
		cs.Tag += "/extended"
	case 8:
		cs.Object = bytes.Repeat(honest, 3)
		cs.Tag += "/oversized"
	case 9, 10:
		cs.Object = honest
		cs.Tag += "/exact"
	default:
		// the caller's envelope describes a prefix-consistent but different object: its SHA-256 is
		// right for what the storage holds, the declared size is not
		cs.Object = append([]byte(nil), honest[:r.Range(1, n)]...)
		cs.Req.SHA = c30SHA(cs.Object)
		cs.Tag += "/sha-right-size-wrong"
	}
	if cs.Object == nil {
		cs.Object = []byte{}
	}
	// fault sequence over successive GetObject calls for this one request
	no := len(cs.Object)
	pickK := func() int {
		ks := []int{0, 1, no - 1, no, no / 2, r.Range(0, no), 32*1024 - 1, 32 * 1024, 32*1024 + 1, 64 * 1024}
		k := ks[r.Intn(len(ks))]
		if k < 0 {
			k = 0
		}
		if k > no {
			k = no
		}
		return k
	}
	one := func() c30Attempt {
		switch r.Intn(8) {
		case 0, 1, 2:
			return c30Attempt{Kind: "read-error", K: pickK()}
		case 3:
			return c30Attempt{Kind: "get-error"}
		case 4:
			return c30Attempt{Kind: "short", K: pickK()}
		}
		return c30Attempt{Kind: "clean"}
	}
	switch r.Intn(10) {
	case 0, 1, 2, 3, 4:
		cs.Attempts = []c30Attempt{{Kind: "clean"}}
	case 5, 6: // a failed first read followed by a clean one: what a retrying handler would see
		k := pickK()
		if k == 0 && no > 0 && r.Chance(70) {
			k = r.Range(1, no)
		}
		cs.Attempts = []c30Attempt{{Kind: "read-error", K: k}, {Kind: "clean"}}
		cs.Tag += "/read-error-then-clean"
	default:
		for i, na := 0, r.Range(1, 4); i < na; i++ {
			cs.Attempts = append(cs.Attempts, one())
		}
		cs.Tag += "/fault-sequence"
	}
	return cs
}

func c30CoqHTTP(cs c30HTTPCase, obs c30HTTPObs, keyOK bool, calls int) string {
	q := cs.Req
	auth := q.APIKey == "" || strings.TrimSpace(q.SentKey) == q.APIKey
	atts := cs.Attempts
	if len(atts) == 0 {
		atts = []c30Attempt{{Kind: "clean"}}
	}
	items := make([]string, len(atts))
	for i, a := range atts {
		if data, readErr, ok := a.outcome(cs.Object); ok {
			items[i] = fmt.Sprintf("GBody %s %s", cqBytes(data), cqBool(readErr))
		} else {
			items[i] = "GErr"
		}
	}
	// the digest of what the handler buffers from the FIRST attempt (at most size+1 bytes), computed
	// here with crypto/sha256: the model's hash function is the table of this one value
	buffered, _, _ := atts[0].outcome(cs.Object)
	if q.Size >= 0 && q.Size < int64(len(buffered)) {
		buffered = buffered[:q.Size+1]
	}
	return fmt.Sprintf("CDownload (mkCfg %s %s %s) (mkReq %s %s %s %s %s %s %s %s %s %s %s %s) %s %s %s %d %s %s %s %s %d",
		cqStr("test-bucket"), cqZ(cs.MaxBlob), cqBool(cs.Presign),
		cqBool(q.Method == http.MethodPost), cqBool(auth), cqBool(!q.Unhealthy), cqBool(!q.BadJSON), cqStr(q.Bucket), cqStr(q.Key), cqStr(q.Mode),
		cqBool(keyOK), cqBool(!q.NoInteg), cqStr(q.SHA), cqStr(q.Alg), cqZ(q.Size),
		cqList(items), cqStr(c30SHA(buffered)), cqBool(!cs.PresignErr),
		obs.status, cqStr(obs.code), cqBytes(obs.body), cqStr(obs.echoSHA), cqZ(obs.echoSize), calls)
}

func c30WriteCasesHTTP(rep *vReport, name, requires, caseType, checkFn string, cases, jsons []string) {
	const shard = 500
	for i := 0; i < len(cases) || i == 0; i += shard {
		j := i + shard
		if j > len(cases) {
			j = len(cases)
		}
		fn := fmt.Sprintf("cases_%s_%d.v", name, i/shard)
		var sb strings.Builder
		sb.WriteString(requires + "\nOpen Scope Z_scope.\n")
		names := make([]string, 0, j-i)
		for k, c := range cases[i:j] {
			sb.WriteString(fmt.Sprintf("(*#%d*) Definition c%d : %s := %s.\n", i+k, i+k, caseType, strings.ReplaceAll(c, "\n", " ")))
			names = append(names, fmt.Sprintf("c%d", i+k))
		}
		sb.WriteString("Definition cases : list (" + caseType + ") := [" + strings.Join(names, "; ") + "].\n")
		sb.WriteString(fmt.Sprintf("Definition mism := Eval vm_compute in (map (fun i => i + %d) (mismatches (%s) cases)).\nPrint mism.\n", i, checkFn))
		_ = os.WriteFile(filepath.Join(vOutDir(), fn), []byte(sb.String()), 0o644)
		if len(jsons) == len(cases) && len(cases) > 0 {
			_ = os.WriteFile(filepath.Join(vOutDir(), strings.TrimSuffix(fn, ".v")+".jsonl"), []byte(strings.Join(jsons[i:j], "\n")+"\n"), 0o644)
		}
		rep.CaseFiles = append(rep.CaseFiles, fn)
		if len(cases) == 0 {
			break
		}
	}
	rep.CaseCount += len(cases)
}

func TestVerifC30Http(t *testing.T) {
	rep := vNewReport("C30", "cmd/proxy: POST /lfs/download requests (method, API key, health, JSON, bucket/key/mode spellings incl. Unicode white space and U+0130, integrity sha256 absent/upper case/padded/short/non-hex/foreign, checksum_alg, size 0/-1/len-1/len/len+1/MaxInt64, maxBlob, presign on/off/failing) x stored object (exact, tampered bit, truncated, extended, 3x oversized, sha-right-but-size-wrong; 1 B..70 KB incl. around the 32 KiB copy buffer) x fault sequence over up to 4 successive GetObject calls of the one request (clean / GetObject error / read error after k bytes incl. k=0 / short read, k around 0, len and the 32 KiB chunk boundaries; e.g. read-error-then-clean) through the real handleHTTPDownload over a real HTTP connection (httptest server + client: the oracle judges the bytes the client received; every 4th case also through a recorder); non-trivial = the request reached the storage read; distinct = distinct canonical case")
	var coq, jsons []string
	runOne := func(cs c30HTTPCase) {
		obs, keyOK, calls, fail, key := c30HTTPRun(cs)
		canon, _ := json.Marshal(cs)
		reached := obs.code == "stream" || obs.code == "integrity_failure" || obs.code == "s3_get_failed"
		rep.Count(string(canon), reached)
		rep.Hist(cs.Tag)
		rep.Hist(fmt.Sprintf("%d %s", obs.status, obs.code))
		if len(rep.Samples) < 3 && len(cs.Object) < 64 {
			rep.Sample(cs)
		}
		if fail != "" {
			rep.Fail(key, key, fail, cs)
		}
		if len(cs.Object) <= 4096 {
			coq = append(coq, c30CoqHTTP(cs, obs, keyOK, calls))
			jsons = append(jsons, string(canon))
		} else {
			rep.Hist("oracle-only(large object)")
		}
	}
	if rc := vReplayCase(); rc != nil {
		var cs c30HTTPCase
		if err := json.Unmarshal(rc, &cs); err != nil {
			t.Fatalf("bad replay: %v", err)
		}
		if cs.Req.Method != "" { // a pkg/lfs replay has no request
			runOne(cs)
		}
	} else {
		honest := []byte("hello integrity world")
		key := "test-ns/topic/lfs/2025/01/01/obj-verify"
		base := c30HTTPCase{MaxBlob: 5 << 30, Object: honest, Tag: "corpus",
			Req: c30Req{Method: http.MethodPost, Bucket: "test-bucket", Key: key, Mode: "stream", SHA: c30SHA(honest), Alg: "sha256", Size: int64(len(honest))}}
		short := base // the finding fixed by fixes/C30-download-size-must-match.patch
		short.Req.Size = int64(len(honest)) + 3
		short.Tag = "corpus/sha-right-size-too-big"
		tam := base
		tam.Object = []byte("hello integrity w0rld")
		tam.Tag = "corpus/tampered"
		over := base
		over.Object = append(append([]byte(nil), honest...), '!')
		over.Tag = "corpus/one-byte-longer"
		rde := base
		rde.Attempts = []c30Attempt{{Kind: "read-error", K: 5}}
		rde.Tag = "corpus/read-error"
		retry := base // a retrying handler that does not rewind its buffer serves 5 stale bytes + 16 of the object
		retry.Attempts = []c30Attempt{{Kind: "read-error", K: 5}, {Kind: "clean"}}
		retry.Tag = "corpus/read-error-then-clean"
		retry0 := base
		retry0.Attempts = []c30Attempt{{Kind: "read-error", K: 0}, {Kind: "get-error"}, {Kind: "clean"}}
		retry0.Tag = "corpus/error-error-clean"
		big := base // error after exactly one 32 KiB chunk, then clean (object 70000 bytes; oracle-only)
		big.Object = bytes.Repeat([]byte("0123456789abcdef"), 4375)
		big.Req.SHA, big.Req.Size = c30SHA(big.Object), int64(len(big.Object))
		big.Attempts = []c30Attempt{{Kind: "read-error", K: 32 * 1024}, {Kind: "clean"}}
		big.Tag = "corpus/read-error-after-one-chunk-then-clean"
		up := base
		up.Req.SHA = " " + strings.ToUpper(base.Req.SHA) + " "
		up.Server = true
		up.Tag = "corpus/upper-case-padded-sha"
		for _, cs := range []c30HTTPCase{base, short, tam, over, rde, retry, retry0, big, up} {
			runOne(cs)
		}
		r := vNewRand(vSeed())
		n := vN(250, 3000)
		for i := 0; i < n; i++ {
			runOne(c30HTTPGen(r.Fork(), i))
		}
	}
	c30WriteCasesHTTP(rep, "C30_http", "From KS Require Import lib.Base lib.Strings model.Envelope model.Checksum corr.ChecksumCorr.", "case", "check_case", coq, jsons)
	rep.WriteAs("C30_http")
	if len(rep.Failures) > 0 {
		t.Logf("oracle failures: %s", strings.TrimSpace(rep.Failures[0].What))
	}
}
