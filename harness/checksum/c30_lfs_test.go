package lfs

// C30 harness, part 1 (pkg/lfs): envelopes x storage behaviours through the real
// Resolver.Resolve, Consumer.Unwrap and Record.Value.  The implementation-side
// oracle checks the property's clauses on what the real code returned; every case
// is emitted as a Coq term for the model/code correspondence (corr/ChecksumCorr.v).

import (
	"bytes"
	"context"
	"crypto/md5"
	"crypto/sha256"
	"encoding/hex"
	"encoding/json"
	"errors"
	"fmt"
	"hash/crc32"
	"io"
	"os"
	"path/filepath"
	"strings"
	"testing"
)

type c30Case struct {
	Value    []byte `json:"value"`              // the record value handed to the readers
	Stored   []byte `json:"stored"`             // what the storage holds under the envelope's key
	Missing  bool   `json:"missing,omitempty"`  // storage returns an error for that key
	MaxSize  int64  `json:"max_size"`           // ResolverConfig.MaxSize
	Validate bool   `json:"validate"`           // ValidateChecksum / WithChecksumValidation
	NoS3     bool   `json:"no_s3,omitempty"`    // Resolver built with a nil S3Reader
	Tag      string `json:"tag"`
}

var errC30Fetch = errors.New("c30: storage error")

type c30Store struct {
	objects map[string][]byte
	fetched []string
}

func (s *c30Store) Fetch(_ context.Context, key string) ([]byte, error) {
	s.fetched = append(s.fetched, key)
	b, ok := s.objects[key]
	if !ok {
		return nil, errC30Fetch
	}
	return append([]byte(nil), b...), nil
}
func (s *c30Store) Stream(_ context.Context, key string) (io.ReadCloser, int64, error) {
	b, ok := s.objects[key]
	if !ok {
		return nil, 0, errC30Fetch
	}
	return io.NopCloser(bytes.NewReader(b)), int64(len(b)), nil
}

type c30Obs struct {
	code     int
	payload  []byte
	alg      string
	expected string
}

func c30Digest(alg string, b []byte) string {
	switch alg {
	case "sha256":
		s := sha256.Sum256(b)
		return hex.EncodeToString(s[:])
	case "md5":
		s := md5.Sum(b)
		return hex.EncodeToString(s[:])
	case "crc32":
		v := crc32.ChecksumIEEE(b)
		return hex.EncodeToString([]byte{byte(v >> 24), byte(v >> 16), byte(v >> 8), byte(v)})
	}
	return ""
}

func c30ErrCode(err error) int {
	var ce *ChecksumError
	if errors.As(err, &ce) {
		return 15
	}
	if errors.Is(err, errC30Fetch) {
		return 12
	}
	msg := err.Error()
	switch {
	case strings.Contains(msg, "s3 reader not configured"):
		return 11
	case strings.Contains(msg, "exceeds max"):
		return 13
	case strings.Contains(msg, "unsupported checksum algorithm"):
		return 14
	}
	return 10 // DecodeEnvelope errors (JSON syntax, missing required fields)
}

// what the envelope declares, written from the property statement (not from EnvelopeChecksum):
// kind "invalid" (unknown algorithm), "nothing" (alg none, or no digest field), "digest".
func c30Declared(env Envelope) (kind, alg, want string) {
	a := strings.ToLower(strings.TrimSpace(env.ChecksumAlg))
	if a == "" {
		a = "sha256"
	}
	switch a {
	case "none":
		return "nothing", "", ""
	case "sha256", "md5", "crc32":
	default:
		return "invalid", "", ""
	}
	if env.Checksum != "" {
		return "digest", a, env.Checksum
	}
	if env.SHA256 != "" {
		return "digest", "sha256", env.SHA256
	}
	return "nothing", "", ""
}

// c30Run executes one case on the real code.
func c30Run(cs c30Case) (resolve, unwrap c30Obs, decoded *Envelope, stored []byte, present bool, fail, failKey string) {
	setFail := func(k, f string) {
		if fail == "" {
			fail, failKey = f, k
		}
	}
	ctx := context.Background()
	env, derr := DecodeEnvelope(cs.Value)
	if derr == nil {
		decoded = &env
	}
	mk := func() *c30Store {
		st := &c30Store{objects: map[string][]byte{"decoy/key": []byte("decoy-object-bytes")}}
		if decoded != nil && !cs.Missing {
			st.objects[decoded.Key] = append([]byte(nil), cs.Stored...)
		}
		return st
	}
	if decoded != nil && !cs.Missing {
		stored, present = cs.Stored, true
	}
	isEnv := IsLfsEnvelope(cs.Value)

	check := func(who string, payload []byte) {
		// clauses of the property, on a successfully returned blob with validation on
		if decoded == nil || !present {
			setFail("returned-without-object", fmt.Sprintf("%s returned %d bytes although the envelope did not decode or the storage has no object", who, len(payload)))
			return
		}
		if !bytes.Equal(payload, stored) {
			setFail("returned-wrong-bytes", fmt.Sprintf("%s returned %v, storage holds %v", who, payload, stored))
		}
		if cs.Validate {
			kind, alg, want := c30Declared(*decoded)
			switch kind {
			case "invalid":
				setFail("returned-unknown-alg", fmt.Sprintf("%s returned a blob for checksum_alg %q", who, decoded.ChecksumAlg))
			case "digest":
				if got := c30Digest(alg, payload); got != want {
					setFail("returned-bad-digest", fmt.Sprintf("%s returned a blob whose %s is %s, envelope declares %s", who, alg, got, want))
				}
			}
		}
	}

	// Resolver.Resolve
	{
		st := mk()
		var rd S3Reader = st
		if cs.NoS3 {
			rd = nil
		}
		r := NewResolver(ResolverConfig{MaxSize: cs.MaxSize, ValidateChecksum: cs.Validate}, rd)
		rec, ok, err := r.Resolve(ctx, cs.Value)
		switch {
		case err != nil:
			resolve.code = c30ErrCode(err)
			if rec.Payload != nil {
				setFail("payload-with-error", "Resolve returned a payload together with an error")
			}
		case !ok:
			resolve.code, resolve.payload = 0, rec.Payload
			if !bytes.Equal(rec.Payload, cs.Value) || isEnv {
				setFail("passthrough-changed", fmt.Sprintf("Resolve passed through %v for value %v (IsLfsEnvelope=%v)", rec.Payload, cs.Value, isEnv))
			}
		default:
			resolve = c30Obs{code: 1, payload: rec.Payload, alg: rec.ChecksumAlg, expected: rec.Checksum}
			check("Resolve", rec.Payload)
			if cs.MaxSize > 0 && int64(len(rec.Payload)) > cs.MaxSize {
				setFail("returned-oversize", fmt.Sprintf("Resolve returned %d bytes with MaxSize %d", len(rec.Payload), cs.MaxSize))
			}
		}
	}
	// Consumer.Unwrap (+ Record.Value, which must give the same bytes)
	{
		st := mk()
		c := NewConsumer(st, WithChecksumValidation(cs.Validate))
		envp, blob, err := c.Unwrap(ctx, cs.Value)
		switch {
		case err != nil:
			unwrap.code = c30ErrCode(err)
			if blob != nil {
				setFail("payload-with-error", "Unwrap returned a blob together with an error")
			}
		case envp == nil:
			unwrap.code, unwrap.payload = 0, blob
			if !bytes.Equal(blob, cs.Value) || isEnv {
				setFail("passthrough-changed", fmt.Sprintf("Unwrap passed through %v for value %v", blob, cs.Value))
			}
		default:
			unwrap = c30Obs{code: 1, payload: blob}
			check("Unwrap", blob)
		}
		v, verr := NewRecord(cs.Value, NewConsumer(mk(), WithChecksumValidation(cs.Validate))).Value(ctx)
		if (verr != nil) != (err != nil) || (verr == nil && !bytes.Equal(v, blob)) {
			setFail("record-value-differs", fmt.Sprintf("Record.Value = (%v, %v), Unwrap = (%v, %v)", v, verr, blob, err))
		}
	}
	return
}

func c30Gen(r *vRand) c30Case {
	blob := r.Bytes(r.Range(0, 40))
	if r.Chance(10) {
		blob = []byte{}
	}
	cs := c30Case{Validate: !r.Chance(15)}
	algs := []string{"", "", "sha256", "md5", "crc32", "none", "SHA256", " Md5 ", "crc32\t", "NONE", "sha1", "sha-256", " sha256 ", "\u212asha256", "md5\u0130", "\u017fha256", "  ", "\u00a0sha256\u2003", "\u3000none\u0085", "\u200bmd5", "cr\u0421c32"}
	alg := algs[r.Intn(len(algs))]
	norm := strings.ToLower(strings.TrimSpace(alg))
	env := Envelope{Version: 1, Bucket: "b", Key: "ns/topic/lfs/2026/01/01/obj-" + hex.EncodeToString(r.Bytes(3)), Size: int64(len(blob)), ChecksumAlg: alg}
	// sha256 field: correct / wrong / upper case
	switch r.Intn(6) {
	case 0:
		env.SHA256 = c30Digest("sha256", append([]byte("x"), blob...))
	case 1:
		env.SHA256 = strings.ToUpper(c30Digest("sha256", blob))
	default:
		env.SHA256 = c30Digest("sha256", blob)
	}
	// explicit checksum: absent / correct for the named algorithm / wrong / digest of another algorithm
	switch r.Intn(6) {
	case 0, 1:
	case 2:
		env.Checksum = c30Digest("md5", append([]byte("y"), blob...))
	case 3:
		env.Checksum = c30Digest([]string{"sha256", "md5", "crc32"}[r.Intn(3)], blob)
	default:
		a := norm
		if a == "" || a == "none" || c30Digest(a, nil) == "" {
			a = "sha256"
		}
		env.Checksum = c30Digest(a, blob)
	}
	val, _ := json.Marshal(env)
	cs.Value, cs.Tag = val, "envelope"
	switch r.Intn(14) {
	case 0:
		cs.Value, cs.Tag = r.Bytes(r.Range(0, 30)), "plain-value"
	case 1:
		cs.Value, cs.Tag = []byte(`{"kfs_lfs":1,"bucket":"b","key":"k","sha256":`), "broken-json"
	case 2:
		env.SHA256 = ""
		cs.Value, _ = json.Marshal(env)
		cs.Tag = "missing-sha256"
	case 3:
		cs.Value, cs.Tag = []byte(`{"version":1,"note":"x","k":"\"kfs_lfs\" late .................................."}`), "no-marker-in-50"
	}
	// storage behaviour
	switch r.Intn(10) {
	case 0, 1, 2, 3:
		cs.Stored = blob
		cs.Tag += "/exact"
	case 4:
		cs.Stored = append([]byte(nil), blob...)
		if len(cs.Stored) > 0 {
			cs.Stored[r.Intn(len(cs.Stored))] ^= byte(1 << uint(r.Intn(8)))
		} else {
			cs.Stored = []byte{0}
		}
		cs.Tag += "/tampered"
	case 5:
		cs.Stored = append([]byte(nil), blob[:len(blob)/2]...)
		cs.Tag += "/truncated"
	case 6:
		cs.Stored = append(append([]byte(nil), blob...), r.Bytes(r.Range(1, 5))...)
		cs.Tag += "/extended"
	case 7:
		cs.Stored = []byte{}
		cs.Tag += "/empty"
	case 8:
		cs.Missing = true
		cs.Tag += "/storage-error"
	default:
		cs.Stored = r.Bytes(r.Range(0, 50))
		cs.Tag += "/replaced"
	}
	if cs.Stored == nil {
		cs.Stored = []byte{}
	}
	switch r.Intn(6) {
	case 0:
		cs.MaxSize = int64(len(cs.Stored)) - 1
	case 1:
		cs.MaxSize = int64(len(cs.Stored))
	case 2:
		cs.MaxSize = int64(len(cs.Stored)) + 1
	case 3:
		cs.MaxSize = int64(r.Range(-2, 60))
	}
	cs.NoS3 = r.Chance(4)
	return cs
}

func c30CoqEnv(e *Envelope) string {
	if e == nil {
		return "None"
	}
	// headers are irrelevant to C30; the other fields as the model's record
	return fmt.Sprintf("(Some (mkEnv %s %s %s %s %s %s %s %s [] %s %s))", cqZ(int64(e.Version)), cqStr(e.Bucket), cqStr(e.Key), cqZ(e.Size),
		cqStr(e.SHA256), cqStr(e.Checksum), cqStr(e.ChecksumAlg), cqStr(e.ContentType), cqStr(e.CreatedAt), cqStr(e.ProxyID))
}

func c30CoqObs(o c30Obs) string {
	return fmt.Sprintf("(mkRObs %d %s %s %s)", o.code, cqBytes(o.payload), cqStr(o.alg), cqStr(o.expected))
}

// c30WriteCases: like vReport.Cases but one Definition per case (a single big list
// literal makes coqc's elaboration quadratic in the file size).
func c30WriteCases(rep *vReport, name, requires, caseType, checkFn string, cases, jsons []string) {
	const shard = 500
	for i := 0; i < len(cases) || i == 0; i += shard {
		j := i + shard
		if j > len(cases) {
			j = len(cases)
		}
		fn := fmt.Sprintf("cases_%s_%d.v", name, i/shard)
		var sb strings.Builder
		sb.WriteString(requires + "\nOpen Scope Z_scope.\n")
		names := make([]string, 0, j-i)
		for k, c := range cases[i:j] {
			sb.WriteString(fmt.Sprintf("(*#%d*) Definition c%d : %s := %s.\n", i+k, i+k, caseType, strings.ReplaceAll(c, "\n", " ")))
			names = append(names, fmt.Sprintf("c%d", i+k))
		}
		sb.WriteString("Definition cases : list (" + caseType + ") := [" + strings.Join(names, "; ") + "].\n")
		sb.WriteString(fmt.Sprintf("Definition mism := Eval vm_compute in (map (fun i => i + %d) (mismatches (%s) cases)).\nPrint mism.\n", i, checkFn))
		_ = os.WriteFile(filepath.Join(vOutDir(), fn), []byte(sb.String()), 0o644)
		if len(jsons) == len(cases) && len(cases) > 0 {
			_ = os.WriteFile(filepath.Join(vOutDir(), strings.TrimSuffix(fn, ".v")+".jsonl"), []byte(strings.Join(jsons[i:j], "\n")+"\n"), 0o644)
		}
		rep.CaseFiles = append(rep.CaseFiles, fn)
		if len(cases) == 0 {
			break
		}
	}
	rep.CaseCount += len(cases)
}

func TestVerifC30Lfs(t *testing.T) {
	rep := vNewReport("C30", "pkg/lfs: envelope values (algorithms sha256/md5/crc32/none/unknown incl. case, Unicode white space and U+212A/U+0130 spellings; explicit checksum absent/right/wrong; sha256 field right/wrong/upper case; broken JSON, missing fields, plain values) x storage behaviour (exact, tampered bit, truncated, extended, empty, replaced, error) x MaxSize around the blob length x validation on/off through the real Resolver.Resolve, Consumer.Unwrap, Record.Value; non-trivial = an envelope that decoded and whose object the storage returned; distinct = distinct canonical case")
	var coq, jsons []string
	runOne := func(cs c30Case) {
		rr, ru, dec, stored, present, fail, key := c30Run(cs)
		canon, _ := json.Marshal(cs)
		rep.Count(string(canon), dec != nil && present)
		rep.Hist(cs.Tag)
		rep.Hist(fmt.Sprintf("resolve=%d", rr.code))
		rep.Hist(fmt.Sprintf("unwrap=%d", ru.code))
		if dec != nil {
			rep.Hist("alg=" + strings.ToLower(strings.TrimSpace(dec.ChecksumAlg)))
		}
		rep.Sample(cs)
		if fail != "" {
			rep.Fail(key, key, fail, cs)
		}
		st := "FErr"
		if present {
			st = "(FOk " + cqBytes(stored) + ")"
		}
		coq = append(coq, fmt.Sprintf("CResolve %s %s %s %s %s %s %s %s %s %s %s", cqBytes(cs.Value), c30CoqEnv(dec), st,
			cqStr(c30Digest("sha256", stored)), cqStr(c30Digest("md5", stored)), cqStr(c30Digest("crc32", stored)),
			cqZ(cs.MaxSize), cqBool(cs.Validate), cqBool(!cs.NoS3), c30CoqObs(rr), c30CoqObs(ru)))
		jsons = append(jsons, string(canon))
	}
	if rc := vReplayCase(); rc != nil {
		var cs c30Case
		if err := json.Unmarshal(rc, &cs); err != nil {
			t.Fatalf("bad replay: %v", err)
		}
		if cs.Value != nil || cs.Stored != nil { // a cmd/proxy replay has neither field
			runOne(cs)
		}
	} else {
		blob := []byte("hello integrity world")
		mkv := func(e Envelope) []byte { b, _ := json.Marshal(e); return b }
		good := Envelope{Version: 1, Bucket: "b", Key: "ns/t/lfs/obj-1", Size: int64(len(blob)), SHA256: c30Digest("sha256", blob)}
		md5fallback := good
		md5fallback.ChecksumAlg = "md5"
		none := good
		none.ChecksumAlg, none.SHA256 = "none", c30Digest("sha256", []byte("other"))
		corpus := []c30Case{
			{Value: mkv(good), Stored: blob, Validate: true, Tag: "corpus/exact"},
			{Value: mkv(good), Stored: []byte("hello integrity w0rld"), Validate: true, Tag: "corpus/tampered"},
			{Value: mkv(good), Stored: blob, MaxSize: int64(len(blob)) - 1, Validate: true, Tag: "corpus/oversize"},
			{Value: mkv(good), Stored: blob, MaxSize: int64(len(blob)), Validate: true, Tag: "corpus/at-limit"},
			{Value: mkv(md5fallback), Stored: []byte("tampered"), Validate: true, Tag: "corpus/md5-falls-back-to-sha256"},
			{Value: mkv(none), Stored: []byte("anything"), Validate: true, Tag: "corpus/alg-none"},
			{Value: []byte("plain"), Stored: []byte{}, Validate: true, Tag: "corpus/plain"},
		}
		for _, cs := range corpus {
			runOne(cs)
		}
		r := vNewRand(vSeed())
		n := vN(250, 3000)
		for i := 0; i < n; i++ {
			runOne(c30Gen(r.Fork()))
		}
	}
	c30WriteCases(rep, "C30_lfs", "From KS Require Import lib.Base lib.Strings model.Envelope model.Checksum corr.ChecksumCorr.", "case", "check_case", coq, jsons)
	rep.WriteAs("C30_lfs")
	if len(rep.Failures) > 0 {
		t.Logf("oracle failures: %s", strings.TrimSpace(rep.Failures[0].What))
	}
}
