package idoc

// C45 harness: generated well-formed XML documents (as trees, serialised to XML
// text here) and routing configurations go through the real ExplodeXML.  The
// implementation-side oracle evaluates the property's clauses directly from the
// tree: one segment per element in closing order with path = ancestors; a routed
// segment's Fields = direct children with non-empty trimmed text (last value per
// name); every routed list = the segments whose names are configured for that
// route.  Every case is emitted as a Coq term for corr/IdocCorr.v.

import (
	"encoding/json"
	"fmt"
	"sort"
	"strings"
	"testing"
)

type c45Attr struct {
	Local string `json:"local"`
	Ser   string `json:"ser"` // serialised (possibly prefixed) name
	Value string `json:"value"`
}
type c45Node struct {
	Kind  string    `json:"kind"` // elem text other
	Local string    `json:"local,omitempty"`
	Ser   string    `json:"ser,omitempty"`
	Attrs []c45Attr `json:"attrs,omitempty"`
	Kids  []c45Node `json:"kids,omitempty"`
	Text  string    `json:"text,omitempty"`  // text: decoded character data; other: raw markup
	CData bool      `json:"cdata,omitempty"` // text serialised as a CDATA section
	Self  bool      `json:"self,omitempty"`  // empty element serialised as <x/>
}
type c45Case struct {
	Items    []string  `json:"items"`
	Partners []string  `json:"partners"`
	Statuses []string  `json:"statuses"`
	Dates    []string  `json:"dates"`
	Pre      []c45Node `json:"pre"`
	Doc      c45Node   `json:"doc"`
	Post     []c45Node `json:"post"`
}

func c45Escape(s string, attr bool) string {
	var sb strings.Builder
	for _, r := range s {
		switch r {
		case '&':
			sb.WriteString("&amp;")
		case '<':
			sb.WriteString("&lt;")
		case '>':
			sb.WriteString("&gt;")
		case '"':
			sb.WriteString("&quot;")
		case '\r':
			sb.WriteString("&#13;")
		case '\n':
			if attr {
				sb.WriteString("&#10;")
			} else {
				sb.WriteRune(r)
			}
		case '\t':
			if attr {
				sb.WriteString("&#9;")
			} else {
				sb.WriteRune(r)
			}
		default:
			sb.WriteRune(r)
		}
	}
	return sb.String()
}

func c45Serialise(sb *strings.Builder, n c45Node) {
	switch n.Kind {
	case "text":
		if n.CData && !strings.Contains(n.Text, "]]>") && !strings.Contains(n.Text, "\r") {
			sb.WriteString("<![CDATA[" + n.Text + "]]>")
		} else {
			sb.WriteString(c45Escape(n.Text, false))
		}
	case "other":
		sb.WriteString(n.Text)
	case "elem":
		sb.WriteString("<" + n.Ser)
		for _, a := range n.Attrs {
			sb.WriteString(" " + a.Ser + "=\"" + c45Escape(a.Value, true) + "\"")
		}
		if len(n.Kids) == 0 && n.Self {
			sb.WriteString("/>")
			return
		}
		sb.WriteString(">")
		for _, k := range n.Kids {
			c45Serialise(sb, k)
		}
		sb.WriteString("</" + n.Ser + ">")
	}
}

func c45XML(cs c45Case) string {
	var sb strings.Builder
	for _, n := range cs.Pre {
		c45Serialise(&sb, n)
	}
	c45Serialise(&sb, cs.Doc)
	for _, n := range cs.Post {
		c45Serialise(&sb, n)
	}
	return sb.String()
}

// ---------- the specification, evaluated on the tree (independent of explode.go) ----------
type c45Want struct {
	name, path, value string
	attrs             map[string]string
	kids              []c45Node
}

func c45OwnText(kids []c45Node) string {
	var sb strings.Builder
	for _, k := range kids {
		if k.Kind == "text" {
			sb.WriteString(k.Text)
		}
	}
	return sb.String()
}
func c45Post(n c45Node, anc []string, out *[]c45Want) {
	if n.Kind != "elem" {
		return
	}
	path := append(append([]string(nil), anc...), n.Local)
	for _, k := range n.Kids {
		c45Post(k, path, out)
	}
	var attrs map[string]string
	if len(n.Attrs) > 0 {
		attrs = map[string]string{}
		for _, a := range n.Attrs {
			attrs[a.Local] = a.Value
		}
	}
	*out = append(*out, c45Want{name: n.Local, path: strings.Join(path, "/"), value: strings.TrimSpace(c45OwnText(n.Kids)), attrs: attrs, kids: n.Kids})
}
func c45Set(l []string) map[string]bool {
	m := map[string]bool{}
	for _, s := range l {
		if s = strings.TrimSpace(s); s != "" {
			m[s] = true
		}
	}
	return m
}
func c45MapEq(a, b map[string]string) bool {
	if len(a) != len(b) {
		return false
	}
	for k, v := range a {
		if w, ok := b[k]; !ok || w != v {
			return false
		}
	}
	return true
}
func c45SegEq(a, b Segment) bool {
	return a.Name == b.Name && a.Path == b.Path && a.Value == b.Value && c45MapEq(a.Attributes, b.Attributes) &&
		(a.Fields == nil) == (b.Fields == nil) && c45MapEq(a.Fields, b.Fields)
}

var c45Void = []string{"basefont", "br", "area", "link", "img", "param", "hr", "input", "col", "frame", "isindex", "base", "meta"}

func c45VoidHit(n c45Node) bool {
	if n.Kind != "elem" {
		return false
	}
	if len(n.Kids) > 0 {
		for _, v := range c45Void {
			if strings.EqualFold(v, n.Local) {
				return true
			}
		}
	}
	for _, k := range n.Kids {
		if c45VoidHit(k) {
			return true
		}
	}
	return false
}

// c45Check runs the real code and the oracle; returns (result, err, failure key, what).
func c45Check(cs c45Case) (Result, error, string, string) {
	cfg := ExplodeConfig{ItemSegments: cs.Items, PartnerSegments: cs.Partners, StatusSegments: cs.Statuses, DateSegments: cs.Dates}
	res, err := ExplodeXML([]byte(c45XML(cs)), cfg)
	if err != nil {
		if c45VoidHit(cs.Doc) {
			return res, err, "html-void-element-name-with-content", fmt.Sprintf("well-formed document rejected: %v", err)
		}
		return res, err, "well-formed-rejected", fmt.Sprintf("well-formed document rejected: %v", err)
	}
	var want []c45Want
	c45Post(cs.Doc, nil, &want)
	sets := map[string]map[string]bool{"items": c45Set(cs.Items), "partners": c45Set(cs.Partners), "statuses": c45Set(cs.Statuses), "dates": c45Set(cs.Dates)}
	routed := func(n string) bool {
		return sets["items"][n] || sets["partners"][n] || sets["statuses"][n] || sets["dates"][n]
	}
	if len(res.Segments) != len(want) {
		return res, nil, "segments-not-one-per-element", fmt.Sprintf("%d segments for %d elements", len(res.Segments), len(want))
	}
	for i, w := range want {
		s := res.Segments[i]
		if s.Name != w.name || s.Path != w.path {
			return res, nil, "segments-not-in-closing-order", fmt.Sprintf("segment %d is %q at %q, the %d-th element to close is %q at %q", i, s.Name, s.Path, i, w.name, w.path)
		}
		if s.Value != w.value || !c45MapEq(s.Attributes, w.attrs) {
			return res, nil, "segment-content-wrong", fmt.Sprintf("segment %d %q: value %q attrs %v, document has %q %v", i, s.Name, s.Value, s.Attributes, w.value, w.attrs)
		}
		if routed(w.name) {
			wf := map[string]string{}
			for _, k := range w.kids {
				if k.Kind == "elem" {
					if v := strings.TrimSpace(c45OwnText(k.Kids)); v != "" {
						wf[k.Local] = v
					}
				}
			}
			if s.Fields == nil || !c45MapEq(s.Fields, wf) {
				return res, nil, "fields-wrong", fmt.Sprintf("routed segment %d %q has fields %v, its direct children with non-empty text are %v", i, s.Name, s.Fields, wf)
			}
		}
	}
	lists := []struct {
		name string
		got  []Segment
	}{{"items", res.Items}, {"partners", res.Partners}, {"statuses", res.Statuses}, {"dates", res.Dates}}
	for li, l := range lists {
		var exp []Segment
		for _, s := range res.Segments {
			if sets[l.name][s.Name] {
				exp = append(exp, s)
			}
		}
		ok := len(exp) == len(l.got)
		for i := 0; ok && i < len(exp); i++ {
			ok = c45SegEq(exp[i], l.got[i])
		}
		if !ok {
			key := "route-list-wrong"
			// the first-match switch: a segment missing from this list although configured, because an earlier route also names it
			for _, s := range exp {
				for _, e := range lists[:li] {
					if sets[e.name][s.Name] {
						key = "route-first-match-only"
					}
				}
			}
			names := func(x []Segment) []string {
				o := make([]string, len(x))
				for i, s := range x {
					o[i] = s.Path
				}
				return o
			}
			return res, nil, key, fmt.Sprintf("routed list %s holds %v, the segments whose names are configured for it are %v", l.name, names(l.got), names(exp))
		}
	}
	return res, nil, "", ""
}

// ---------- generator ----------
var c45Names = []string{"IDOC", "EDI_DC40", "E1EDK01", "E1EDP01", "E1EDKA1", "E1EDK03", "E1EDS01", "POSEX", "MENGE", "PARVW", "DATUM", "A", "B"}
var c45Texts = []string{"", " ", "\n  ", "10", " x y ", "a&b<c>", "é", "\t12\n", "0001", "  ", "q\"r", "\n", "v]]w", "Zä "}

func c45GenNode(r *vRand, depth int, budget *int, names []string, prefix bool) c45Node {
	n := c45Node{Kind: "elem", Local: names[r.Intn(len(names))]}
	n.Ser = n.Local
	if prefix && r.Chance(15) {
		n.Ser = "p:" + n.Local
	}
	na := 0
	if r.Chance(30) {
		na = r.Range(1, 3)
	}
	used := map[string]bool{}
	for i := 0; i < na; i++ {
		a := c45Attr{Local: []string{"SEGMENT", "BEGIN", "id", "n"}[r.Intn(4)], Value: c45Texts[r.Intn(len(c45Texts))]}
		a.Ser = a.Local
		if used[a.Ser] {
			if !prefix || used["p:"+a.Local] {
				continue
			}
			a.Ser = "p:" + a.Local // same local name again: the later one wins in attrsToMap
		}
		used[a.Ser] = true
		n.Attrs = append(n.Attrs, a)
	}
	nk := 0
	if depth < 5 && *budget > 0 {
		nk = r.Range(0, 4)
	}
	for i := 0; i < nk && *budget > 0; i++ {
		switch x := r.Intn(10); {
		case x < 4:
			t := c45Texts[r.Intn(len(c45Texts))]
			if t == "" {
				continue
			}
			n.Kids = append(n.Kids, c45Node{Kind: "text", Text: t, CData: r.Chance(15)})
		case x == 4:
			n.Kids = append(n.Kids, c45Node{Kind: "other", Text: []string{"<!-- c -->", "<?pi x?>", "<!---->"}[r.Intn(3)]})
		default:
			*budget--
			n.Kids = append(n.Kids, c45GenNode(r, depth+1, budget, names, prefix))
		}
	}
	n.Self = len(n.Kids) == 0 && r.Bool()
	return n
}

func c45Gen(r *vRand) c45Case {
	cs := c45Case{}
	nn := r.Range(2, 7)
	names := make([]string, nn)
	for i := range names {
		names[i] = c45Names[r.Intn(len(c45Names))]
	}
	if r.Chance(4) { // an element named like an HTML void tag (known finding when it has content)
		names[r.Intn(nn)] = []string{"PARAM", "Link", "BASE", "col", "AREA", "br", "Meta"}[r.Intn(7)]
	}
	prefix := r.Chance(20)
	budget := r.Range(1, 24)
	cs.Doc = c45GenNode(r, 1, &budget, names, prefix)
	if prefix {
		cs.Doc.Attrs = append([]c45Attr{{Local: "p", Ser: "xmlns:p", Value: "urn:x"}}, cs.Doc.Attrs...)
	}
	pick := func(pct int) []string {
		var out []string
		for _, n := range names {
			if r.Chance(pct) {
				s := n
				if r.Chance(20) {
					s = " " + n + "\t"
				}
				out = append(out, s)
			}
		}
		if r.Chance(10) {
			out = append(out, []string{"", "  ", "NOPE"}[r.Intn(3)])
		}
		return out
	}
	cs.Items, cs.Partners, cs.Statuses, cs.Dates = pick(35), pick(30), pick(20), pick(20)
	if r.Chance(40) { // disjoint configuration
		seen := map[string]bool{}
		dedup := func(l []string) []string {
			var o []string
			for _, s := range l {
				if t := strings.TrimSpace(s); !seen[t] {
					seen[t] = true
					o = append(o, s)
				}
			}
			return o
		}
		cs.Items, cs.Partners, cs.Statuses, cs.Dates = dedup(cs.Items), dedup(cs.Partners), dedup(cs.Statuses), dedup(cs.Dates)
	}
	if r.Chance(50) {
		cs.Pre = append(cs.Pre, c45Node{Kind: "other", Text: `<?xml version="1.0" encoding="UTF-8"?>`})
	}
	if r.Chance(30) {
		cs.Pre = append(cs.Pre, c45Node{Kind: "text", Text: "\n"})
	}
	if r.Chance(15) {
		cs.Pre = append(cs.Pre, c45Node{Kind: "other", Text: "<!-- IDoc export -->"})
	}
	if r.Chance(40) {
		cs.Post = append(cs.Post, c45Node{Kind: "text", Text: "\n"})
	}
	if r.Chance(10) {
		cs.Post = append(cs.Post, c45Node{Kind: "other", Text: "<!-- end -->"})
	}
	return cs
}

// ---------- shrinking: delete any one subtree / config entry while the same failure persists ----------
func c45DeleteAt(n c45Node, idx *int) (c45Node, bool) {
	for i := range n.Kids {
		if *idx == 0 {
			m := n
			m.Kids = append(append([]c45Node(nil), n.Kids[:i]...), n.Kids[i+1:]...)
			return m, true
		}
		*idx--
		if k, ok := c45DeleteAt(n.Kids[i], idx); ok {
			m := n
			m.Kids = append([]c45Node(nil), n.Kids...)
			m.Kids[i] = k
			return m, true
		}
	}
	return n, false
}
func c45Shrink(cs c45Case, key string) c45Case {
	fails := func(c c45Case) bool { _, _, k, _ := c45Check(c); return k == key }
	for changed := true; changed; {
		changed = false
		for i := 0; ; i++ {
			idx := i
			d, ok := c45DeleteAt(cs.Doc, &idx)
			if !ok {
				break
			}
			c2 := cs
			c2.Doc = d
			if fails(c2) {
				cs, changed = c2, true
				i--
			}
		}
		for _, f := range []*[]string{&cs.Items, &cs.Partners, &cs.Statuses, &cs.Dates} {
			for i := 0; i < len(*f); i++ {
				old := *f
				*f = append(append([]string(nil), old[:i]...), old[i+1:]...)
				if fails(cs) {
					changed = true
					i--
				} else {
					*f = old
				}
			}
		}
		if len(cs.Pre) > 0 || len(cs.Post) > 0 {
			c2 := cs
			c2.Pre, c2.Post = nil, nil
			if fails(c2) {
				cs, changed = c2, true
			}
		}
	}
	return cs
}

// ---------- Coq emission ----------
func c45MapCoq(m map[string]string) string {
	keys := make([]string, 0, len(m))
	for k := range m {
		keys = append(keys, k)
	}
	sort.Strings(keys)
	items := make([]string, len(keys))
	for i, k := range keys {
		items[i] = fmt.Sprintf("(%s, %s)", cqStr(k), cqStr(m[k]))
	}
	return cqList(items)
}
func c45SegCoq(s Segment) string {
	return fmt.Sprintf("mkSeg %s %s %s %s %s", cqStr(s.Name), cqStr(s.Path), c45MapCoq(s.Attributes), cqStr(s.Value), cqOpt(s.Fields != nil, c45MapCoq(s.Fields)))
}
func c45SegsCoq(l []Segment) string {
	items := make([]string, len(l))
	for i, s := range l {
		items[i] = c45SegCoq(s)
	}
	return cqList(items)
}
func c45NodeCoq(n c45Node) string {
	switch n.Kind {
	case "text":
		return "NText " + cqStr(n.Text)
	case "other":
		return "NOther"
	}
	attrs := make([]string, len(n.Attrs))
	for i, a := range n.Attrs {
		attrs[i] = fmt.Sprintf("(%s, %s)", cqStr(a.Local), cqStr(a.Value))
	}
	kids := make([]string, len(n.Kids))
	for i, k := range n.Kids {
		kids[i] = c45NodeCoq(k)
	}
	return fmt.Sprintf("NElem %s %s %s", cqStr(n.Local), cqList(attrs), cqList(kids))
}
func c45NodesCoq(l []c45Node) string {
	items := make([]string, len(l))
	for i, n := range l {
		items[i] = c45NodeCoq(n)
	}
	return cqList(items)
}
func c45StrsCoq(l []string) string {
	items := make([]string, len(l))
	for i, s := range l {
		items[i] = cqStr(s)
	}
	return cqList(items)
}
func c45Coq(cs c45Case, res Result, err error) string {
	hdr := "None"
	if err == nil && res.Header.Root != "" {
		hdr = fmt.Sprintf("(Some (%s, %s))", cqStr(res.Header.Root), c45MapCoq(res.Header.Attributes))
	}
	obs := fmt.Sprintf("mkObs %s %s %s %s %s %s %s", cqBool(err != nil), hdr, c45SegsCoq(res.Segments), c45SegsCoq(res.Items), c45SegsCoq(res.Partners), c45SegsCoq(res.Statuses), c45SegsCoq(res.Dates))
	return fmt.Sprintf("mkCase (mkCfg %s %s %s %s) %s (%s) %s (%s)", c45StrsCoq(cs.Items), c45StrsCoq(cs.Partners), c45StrsCoq(cs.Statuses), c45StrsCoq(cs.Dates),
		c45NodesCoq(cs.Pre), c45NodeCoq(cs.Doc), c45NodesCoq(cs.Post), obs)
}

func c45Stats(n c45Node, depth int, maxDepth, elems *int, names map[string]int) {
	if n.Kind != "elem" {
		return
	}
	*elems++
	names[n.Local]++
	if depth > *maxDepth {
		*maxDepth = depth
	}
	for _, k := range n.Kids {
		c45Stats(k, depth+1, maxDepth, elems, names)
	}
}

func TestVerifC45(t *testing.T) {
	rep := vNewReport("C45", "generated XML trees (depth <= 5, up to ~25 elements, 2-7 distinct names with repeats, white-space / entity / CDATA / non-ASCII text, comments and PIs, attributes incl. colliding local names via a namespace prefix, XML declaration and comments around the root) serialised to XML text and passed to the real ExplodeXML with generated routing configurations (names under 0-4 routes, padded and empty entries; 40% forced disjoint); a case is non-trivial when the document has >= 3 elements, a repeated name and at least one routed element; distinct = distinct canonical (config, tree)")
	var coq, jsons []string
	runOne := func(cs c45Case) {
		res, err, key, what := c45Check(cs)
		canon, _ := json.Marshal(cs)
		depth, elems := 0, 0
		names := map[string]int{}
		c45Stats(cs.Doc, 1, &depth, &elems, names)
		repeated := false
		for _, c := range names {
			if c > 1 {
				repeated = true
			}
		}
		rep.Count(string(canon), elems >= 3 && repeated && err == nil && len(res.Items)+len(res.Partners)+len(res.Statuses)+len(res.Dates) > 0)
		rep.Hist(fmt.Sprintf("depth=%d", depth))
		rep.Hist(fmt.Sprintf("elems<=%d", ((elems+7)/8)*8))
		overlap := false
		seen := map[string]int{}
		for _, l := range [][]string{cs.Items, cs.Partners, cs.Statuses, cs.Dates} {
			for s := range c45Set(l) {
				seen[s]++
				if seen[s] > 1 && names[s] > 0 {
					overlap = true
				}
			}
		}
		if overlap {
			rep.Hist("config:overlapping-route-used")
		} else {
			rep.Hist("config:disjoint-on-document")
		}
		if err != nil {
			rep.Hist("result:error")
		}
		rep.Sample(map[string]any{"xml": c45XML(cs), "items": cs.Items, "partners": cs.Partners, "statuses": cs.Statuses, "dates": cs.Dates})
		if key != "" {
			shr := c45Shrink(cs, key)
			_, _, k2, w2 := c45Check(shr)
			if k2 != key {
				shr, w2 = cs, what
			}
			rep.Fail(key, key, w2+"  xml="+c45XML(shr), shr)
		}
		coq = append(coq, c45Coq(cs, res, err))
		jsons = append(jsons, string(canon))
	}
	if rc := vReplayCase(); rc != nil {
		var cs c45Case
		if err := json.Unmarshal(rc, &cs); err != nil {
			t.Fatalf("bad replay: %v", err)
		}
		runOne(cs)
	} else {
		el := func(name string, kids ...c45Node) c45Node {
			return c45Node{Kind: "elem", Local: name, Ser: name, Kids: kids}
		}
		tx := func(s string) c45Node { return c45Node{Kind: "text", Text: s} }
		corpus := []c45Case{
			// fixed finding: a name listed under two routes went to the first route only
			{Items: []string{"E1EDKA1"}, Partners: []string{"E1EDKA1"}, Doc: el("IDOC", el("E1EDKA1", el("PARVW", tx("AG"))))},
			// open finding: element named like an HTML void tag, with content
			{Items: []string{"E1"}, Doc: el("IDOC", el("E1", el("PARAM", tx("x"))))},
			// repeated field names (last wins), white-space-only child, nested same names
			{Items: []string{"E1"}, Dates: []string{" F "}, Doc: el("IDOC", tx("\n "), el("E1", el("F", tx(" a ")), el("F", tx("b")), el("G", tx("  ")), el("E1", el("F", tx("c")))), el("PARAM"))},
		}
		for _, cs := range corpus {
			runOne(cs)
		}
		r := vNewRand(vSeed())
		n := vN(300, 3000)
		for i := 0; i < n; i++ {
			runOne(c45Gen(r.Fork()))
		}
	}
	rep.Cases("C45", "From KS Require Import lib.Base model.Idoc corr.IdocCorr.", "case", "check_case", coq, jsons)
	rep.Write()
	if len(rep.Failures) > 0 {
		t.Logf("oracle failures: %s", strings.TrimSpace(rep.Failures[0].What))
	}
}
