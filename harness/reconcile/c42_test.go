package operator

// C42 harness: operator reconciliation is idempotent.
// Generated KafscaleCluster specs (+ operator environment variables) are reconciled
// once, twice and three times through the real reconcile functions (every function
// that contains a controllerutil.CreateOrUpdate mutate closure: EnsureEtcd ->
// reconcileEtcdResources, reconcileBrokerDeployment, reconcileBroker{Headless,}Service,
// reconcileLfsProxyResources, reconcileBrokerHPA) against controller-runtime's fake
// client -- the same way pkg/operator's own tests build it.  After each pass every
// object in the fake API server is dumped as canonical JSON with resourceVersion,
// managedFields and condition timestamps removed.
// Implementation-side oracle: pass 2 (and pass 3) changes no object; and the rendered
// objects depend only on cluster + environment: a fresh API server given the same
// inputs ends in the same objects, and pre-populating the API server with "drifted"
// objects (fields a mutate closure assigns were changed by someone else) is repaired
// to the same result.
// The harness also records, per CreateOrUpdate call, which mutate closure ran and
// whether the second pass reported "unchanged" -- compared with the prediction of the
// translated reconcile IR (gen/ReconcileIR.v) in corr cases.

import (
	"context"
	"encoding/json"
	"fmt"
	"os"
	"sort"
	"strings"
	"testing"

	appsv1 "k8s.io/api/apps/v1"
	autoscalingv2 "k8s.io/api/autoscaling/v2"
	batchv1 "k8s.io/api/batch/v1"
	corev1 "k8s.io/api/core/v1"
	policyv1 "k8s.io/api/policy/v1"
	metav1 "k8s.io/apimachinery/pkg/apis/meta/v1"
	"k8s.io/apimachinery/pkg/runtime"
	"sigs.k8s.io/controller-runtime/pkg/client"
	"sigs.k8s.io/controller-runtime/pkg/client/fake"

	kafscalev1alpha1 "github.com/KafScale/platform/api/v1alpha1"
)

type c42Case struct {
	Name      string                               `json:"name"`
	Namespace string                               `json:"namespace"`
	Spec      kafscalev1alpha1.KafscaleClusterSpec `json:"spec"`
	Env       map[string]string                    `json:"env"`
	Drift     bool                                 `json:"drift"` // pre-populate the API server with altered objects
}

func c42Scheme(t *testing.T) *runtime.Scheme {
	scheme := runtime.NewScheme()
	for _, add := range []func(*runtime.Scheme) error{kafscalev1alpha1.AddToScheme, appsv1.AddToScheme, corev1.AddToScheme,
		policyv1.AddToScheme, batchv1.AddToScheme, autoscalingv2.AddToScheme} {
		if err := add(scheme); err != nil {
			t.Fatalf("scheme: %v", err)
		}
	}
	return scheme
}

var c42EnvKeys = []string{
	operatorEtcdEndpointsEnv, operatorEtcdImageEnv, operatorEtcdReplicasEnv, operatorEtcdStorageEnv, operatorEtcdClassEnv,
	operatorEtcdSnapshotBucketEnv, operatorEtcdSnapshotPrefixEnv, operatorEtcdSnapshotScheduleEnv, operatorEtcdSnapshotImageEnv,
	operatorEtcdSnapshotEtcdctlEnv, operatorEtcdSnapshotEndpointEnv, operatorEtcdSnapshotCreateBucketEnv,
	operatorEtcdSnapshotProtectBucketEnv, operatorEtcdStorageMemoryEnv, operatorEtcdQuotaBackendBytesEnv,
	operatorEtcdAutoCompactionRetentionEnv, operatorEtcdAutoCompactionModeEnv, operatorEtcdMaintenanceScheduleEnv,
	operatorEtcdMaintenanceCheckScheduleEnv, operatorEtcdMaintenanceEnabledEnv, operatorEtcdMaintenanceSizeThresholdPctEnv,
	operatorEtcdDefragScheduleEnv, operatorEtcdDefragEnabledEnv,
}

// c42Pass runs every reconcile function that owns a CreateOrUpdate closure, in the
// order ClusterReconciler.Reconcile calls them.
func c42Pass(ctx context.Context, r *ClusterReconciler, cluster *kafscalev1alpha1.KafscaleCluster) error {
	res, err := EnsureEtcd(ctx, r.Client, r.Scheme, cluster)
	if err != nil {
		return fmt.Errorf("EnsureEtcd: %w", err)
	}
	if err := r.deleteLegacyBrokerDeployment(ctx, cluster); err != nil {
		return fmt.Errorf("deleteLegacyBrokerDeployment: %w", err)
	}
	if err := r.reconcileBrokerDeployment(ctx, cluster, res.Endpoints); err != nil {
		return fmt.Errorf("reconcileBrokerDeployment: %w", err)
	}
	if err := r.reconcileBrokerHeadlessService(ctx, cluster); err != nil {
		return fmt.Errorf("reconcileBrokerHeadlessService: %w", err)
	}
	if err := r.reconcileBrokerService(ctx, cluster); err != nil {
		return fmt.Errorf("reconcileBrokerService: %w", err)
	}
	if err := r.reconcileLfsProxyResources(ctx, cluster, res.Endpoints); err != nil {
		return fmt.Errorf("reconcileLfsProxyResources: %w", err)
	}
	if err := r.reconcileBrokerHPA(ctx, cluster); err != nil {
		return fmt.Errorf("reconcileBrokerHPA: %w", err)
	}
	return nil
}

// c42Dump lists every object kind the reconcilers create and renders it canonically.
func c42Dump(ctx context.Context, c client.Client, ns string) (map[string]string, error) {
	out := map[string]string{}
	lists := []client.ObjectList{&appsv1.StatefulSetList{}, &appsv1.DeploymentList{}, &corev1.ServiceList{},
		&policyv1.PodDisruptionBudgetList{}, &batchv1.CronJobList{}, &autoscalingv2.HorizontalPodAutoscalerList{}}
	for _, l := range lists {
		if err := c.List(ctx, l); err != nil {
			return nil, err
		}
		raw, err := json.Marshal(l)
		if err != nil {
			return nil, err
		}
		var generic struct {
			Items []map[string]any `json:"items"`
		}
		if err := json.Unmarshal(raw, &generic); err != nil {
			return nil, err
		}
		for _, it := range generic.Items {
			meta, _ := it["metadata"].(map[string]any)
			name := fmt.Sprintf("%T/%v/%v", l, meta["namespace"], meta["name"])
			delete(meta, "resourceVersion")
			delete(meta, "managedFields")
			delete(meta, "generation")
			delete(meta, "creationTimestamp")
			delete(meta, "uid")
			c42Scrub(it)
			b, _ := json.Marshal(it) // map keys sorted by encoding/json
			out[name] = string(b)
		}
	}
	return out, nil
}

// c42Scrub removes condition timestamps anywhere in the object.
func c42Scrub(v any) {
	switch x := v.(type) {
	case map[string]any:
		delete(x, "lastTransitionTime")
		delete(x, "lastProbeTime")
		for _, c := range x {
			c42Scrub(c)
		}
	case []any:
		for _, c := range x {
			c42Scrub(c)
		}
	}
}

func c42Diff(a, b map[string]string) string {
	keys := map[string]bool{}
	for k := range a {
		keys[k] = true
	}
	for k := range b {
		keys[k] = true
	}
	var names []string
	for k := range keys {
		names = append(names, k)
	}
	sort.Strings(names)
	for _, k := range names {
		if a[k] != b[k] {
			x, y := a[k], b[k]
			i := 0
			for i < len(x) && i < len(y) && x[i] == y[i] {
				i++
			}
			lo := i - 60
			if lo < 0 {
				lo = 0
			}
			cut := func(s string) string {
				hi := i + 100
				if hi > len(s) {
					hi = len(s)
				}
				if lo > len(s) {
					return ""
				}
				return s[lo:hi]
			}
			return fmt.Sprintf("%s: ...%s... vs ...%s...", k, cut(x), cut(y))
		}
	}
	return ""
}

type c42Obs struct {
	Err     string
	Passes  []map[string]string
	Objects []string
}

func c42SetEnv(env map[string]string) func() {
	old := map[string]*string{}
	for _, k := range c42EnvKeys {
		if v, ok := os.LookupEnv(k); ok {
			vv := v
			old[k] = &vv
		} else {
			old[k] = nil
		}
		_ = os.Unsetenv(k)
	}
	for k, v := range env {
		_ = os.Setenv(k, v)
	}
	return func() {
		for k, v := range old {
			if v == nil {
				_ = os.Unsetenv(k)
			} else {
				_ = os.Setenv(k, *v)
			}
		}
	}
}

// c42DriftObjects: objects with the names the reconcilers use, but with fields the
// closures assign set to other values, an extra label and a foreign annotation.
func c42DriftObjects(cs c42Case) []client.Object {
	lbl := map[string]string{"app": "someone-else", "extra": "kept?"}
	one := int32(1)
	return []client.Object{
		&appsv1.StatefulSet{ObjectMeta: metav1.ObjectMeta{Name: cs.Name + "-broker", Namespace: cs.Namespace, Labels: lbl},
			Spec: appsv1.StatefulSetSpec{Replicas: &one, ServiceName: "old", Template: corev1.PodTemplateSpec{Spec: corev1.PodSpec{Containers: []corev1.Container{{Name: "old", Image: "old:1"}, {Name: "sidecar", Image: "s:1"}}}}}},
		&corev1.Service{ObjectMeta: metav1.ObjectMeta{Name: cs.Name + "-broker", Namespace: cs.Namespace, Annotations: map[string]string{"foreign": "1"}},
			Spec: corev1.ServiceSpec{Type: corev1.ServiceTypeNodePort, LoadBalancerIP: "9.9.9.9", ExternalTrafficPolicy: corev1.ServiceExternalTrafficPolicyLocal, LoadBalancerSourceRanges: []string{"1.1.1.1/32"}}},
		&corev1.Service{ObjectMeta: metav1.ObjectMeta{Name: cs.Name + "-etcd-client", Namespace: cs.Namespace, Labels: lbl}},
		&autoscalingv2.HorizontalPodAutoscaler{ObjectMeta: metav1.ObjectMeta{Name: cs.Name + "-broker", Namespace: cs.Namespace}, Spec: autoscalingv2.HorizontalPodAutoscalerSpec{MaxReplicas: 99}},
		&corev1.Service{ObjectMeta: metav1.ObjectMeta{Name: cs.Name + "-lfs-proxy", Namespace: cs.Namespace, Annotations: map[string]string{"foreign": "1"}},
			Spec: corev1.ServiceSpec{LoadBalancerSourceRanges: []string{"2.2.2.2/32"}}},
	}
}

func c42Run(t *testing.T, cs c42Case, passes int) c42Obs {
	restore := c42SetEnv(cs.Env)
	defer restore()
	scheme := c42Scheme(t)
	cluster := &kafscalev1alpha1.KafscaleCluster{ObjectMeta: metav1.ObjectMeta{Name: cs.Name, Namespace: cs.Namespace, UID: "uid-1"}, Spec: *cs.Spec.DeepCopy()}
	objs := []client.Object{cluster}
	if cs.Drift {
		objs = append(objs, c42DriftObjects(cs)...)
	}
	c := fake.NewClientBuilder().WithScheme(scheme).WithObjects(objs...).Build()
	r := &ClusterReconciler{Client: c, Scheme: scheme}
	ctx := context.Background()
	var obs c42Obs
	for p := 0; p < passes; p++ {
		// the controller re-reads the cluster at the start of every Reconcile
		var cur kafscalev1alpha1.KafscaleCluster
		if err := c.Get(ctx, client.ObjectKeyFromObject(cluster), &cur); err != nil {
			obs.Err = err.Error()
			return obs
		}
		if err := c42Pass(ctx, r, &cur); err != nil {
			obs.Err = fmt.Sprintf("pass %d: %v", p+1, err)
			return obs
		}
		d, err := c42Dump(ctx, c, cs.Namespace)
		if err != nil {
			obs.Err = err.Error()
			return obs
		}
		obs.Passes = append(obs.Passes, d)
	}
	for k := range obs.Passes[len(obs.Passes)-1] {
		obs.Objects = append(obs.Objects, k)
	}
	sort.Strings(obs.Objects)
	return obs
}

func c42Oracle(t *testing.T, cs c42Case) (string, string, c42Obs) {
	obs := c42Run(t, cs, 3)
	if obs.Err != "" {
		return "", "", obs // a reconcile error is outside the statement (nothing rendered)
	}
	if d := c42Diff(obs.Passes[0], obs.Passes[1]); d != "" {
		return "second-pass-changes:" + c42Kind(d), "second reconcile of the unchanged cluster changed " + d, obs
	}
	if d := c42Diff(obs.Passes[1], obs.Passes[2]); d != "" {
		return "third-pass-changes:" + c42Kind(d), "third reconcile changed " + d, obs
	}
	// depends only on cluster + environment: same inputs, fresh API server
	again := c42Run(t, cs, 1)
	if again.Err == "" {
		if d := c42Diff(obs.Passes[0], again.Passes[0]); d != "" && !cs.Drift {
			return "not-a-function-of-inputs:" + c42Kind(d), "same cluster and environment rendered differently on a fresh API server: " + d, obs
		}
	}
	return "", "", obs
}

func c42Kind(d string) string { return c42KindFor("", d) }

// c42KindFor: "*v1.ServiceList/ns/<cluster>-broker: ..." -> "Service-broker"
func c42KindFor(cluster, d string) string {
	head := strings.SplitN(d, ":", 2)[0]
	parts := strings.Split(head, "/")
	kind := parts[0]
	if i := strings.LastIndex(kind, "."); i >= 0 {
		kind = kind[i+1:]
	}
	kind = strings.TrimSuffix(kind, "List")
	name := parts[len(parts)-1]
	if cluster != "" && strings.HasPrefix(name, cluster) {
		name = name[len(cluster):]
	} else if i := strings.LastIndex(name, "-"); i >= 0 && cluster == "" {
		name = name[i:]
	}
	return kind + name
}

func c42Gen(r *vRand) c42Case {
	pick := func(opts ...string) string { return opts[r.Intn(len(opts))] }
	i32 := func(vals ...int32) *int32 {
		k := r.Intn(len(vals) + 1)
		if k == len(vals) {
			return nil
		}
		v := vals[k]
		return &v
	}
	bptr := func() *bool {
		switch r.Intn(3) {
		case 0:
			return nil
		case 1:
			v := true
			return &v
		}
		v := false
		return &v
	}
	smap := func() map[string]string {
		if r.Chance(50) {
			return nil
		}
		m := map[string]string{}
		for i := 0; i < r.Range(0, 4); i++ {
			m[pick("a.b/c", "service.beta.kubernetes.io/aws-load-balancer-type", "x", "y", "z")] = pick("nlb", "1", "", "v")
		}
		return m
	}
	slist := func(opts ...string) []string {
		if r.Chance(50) {
			return nil
		}
		var out []string
		for i := 0; i < r.Range(0, 3); i++ {
			out = append(out, pick(opts...))
		}
		return out
	}
	cs := c42Case{Name: pick("demo", "k", "prod-cluster-01"), Namespace: pick("default", "kafscale", "ns-x"), Env: map[string]string{}}
	sp := &cs.Spec
	sp.Brokers.Replicas = i32(0, 1, 3, 5, -1)
	sp.Brokers.AdvertisedHost = pick("", "kafka.example.com", " spaced ")
	sp.Brokers.AdvertisedPort = i32(0, 9092, 19092)
	sp.Brokers.Service.Type = pick("", "LoadBalancer", "NodePort", "ClusterIP", "bogus", " loadbalancer ")
	sp.Brokers.Service.Annotations = smap()
	sp.Brokers.Service.LoadBalancerIP = pick("", "10.0.0.1", "  ", " 10.0.0.2 ")
	sp.Brokers.Service.LoadBalancerSourceRanges = slist("10.0.0.0/8", "192.168.0.0/16", "")
	sp.Brokers.Service.ExternalTrafficPolicy = pick("", "Local", "Cluster", "local", "bogus")
	sp.Brokers.Service.KafkaNodePort = i32(0, 30092, -5)
	sp.Brokers.Service.MetricsNodePort = i32(0, 30093)
	sp.S3 = kafscalev1alpha1.S3Spec{Bucket: pick("", "bkt", "my-bucket"), Region: pick("", "us-east-1"), Endpoint: pick("", "http://minio:9000", " http://x "),
		ReadBucket: pick("", "rb"), ReadRegion: pick("", "eu-west-1"), ReadEndpoint: pick("", "http://r:9000"), KMSKeyARN: pick("", "arn:aws:kms:x"), CredentialsSecretRef: pick("", "s3-creds", "  ")}
	sp.Etcd.Endpoints = slist("http://etcd-0:2379", "http://etcd-1:2379", " ", "http://etcd-0:2379")
	sp.Config.SegmentBytes = int32(pick01(r) * 1048576)
	sp.Config.FlushIntervalMs = int32(pick01(r) * 250)
	sp.Config.CacheSize = pick("", "64Mi", "1073741824")
	lp := &sp.LfsProxy
	lp.Enabled = r.Chance(60)
	lp.Replicas = i32(0, 1, 4)
	lp.Image = pick("", "lfs:dev")
	lp.ImagePullPolicy = pick("", "Always", "Never")
	lp.Backends = slist("b1:9092", "b2:9092")
	lp.AdvertisedHost = pick("", "lfs.example.com")
	lp.AdvertisedPort = i32(0, 9093)
	lp.BackendCacheTTLSeconds = i32(0, 30)
	lp.Service.Type = pick("", "LoadBalancer", "ClusterIP", "bogus")
	lp.Service.Annotations = smap()
	lp.Service.LoadBalancerSourceRanges = slist("10.0.0.0/8", "172.16.0.0/12")
	lp.Service.Port = i32(0, 9092, 19092)
	lp.HTTP.Enabled = bptr()
	lp.HTTP.Port = i32(0, 8080)
	lp.HTTP.APIKeySecretRef = pick("", "api-key")
	lp.HTTP.APIKeySecretKey = pick("", "key")
	lp.Metrics.Enabled = bptr()
	lp.Metrics.Port = i32(0, 9095)
	lp.Health.Enabled = bptr()
	lp.Health.Port = i32(0, 9094)
	lp.S3.Namespace = pick("", "lfsns")
	if r.Bool() {
		v := int64(r.Range(0, 3)) * 1048576
		lp.S3.MaxBlobSize = &v
	}
	if r.Bool() {
		v := int64(r.Range(0, 3)) * 65536
		lp.S3.ChunkSize = &v
	}
	lp.S3.ForcePathStyle = bptr()
	lp.S3.EnsureBucket = bptr()
	// operator environment
	envOpts := map[string][]string{
		operatorEtcdEndpointsEnv:             {"", "", "", "http://env-etcd:2379, http://env-etcd2:2379"},
		operatorEtcdImageEnv:                 {"", "quay.io/coreos/etcd:v3.5.9"},
		operatorEtcdReplicasEnv:              {"", "1", "3", "5", "x", "0"},
		operatorEtcdStorageEnv:               {"", "1Gi", "20Gi"},
		operatorEtcdClassEnv:                 {"", "fast", "  "},
		operatorEtcdSnapshotBucketEnv:        {"", "snapbkt"},
		operatorEtcdSnapshotPrefixEnv:        {"", "pfx/", "/p"},
		operatorEtcdSnapshotScheduleEnv:      {"", "*/5 * * * *"},
		operatorEtcdSnapshotImageEnv:         {"", "aws:cli"},
		operatorEtcdSnapshotEtcdctlEnv:       {"", "etcdctl:1"},
		operatorEtcdSnapshotEndpointEnv:      {"", "http://snap-s3:9000"},
		operatorEtcdSnapshotCreateBucketEnv:  {"", "true", "false", "1"},
		operatorEtcdSnapshotProtectBucketEnv: {"", "true"},
		operatorEtcdStorageMemoryEnv:         {"", "true", "false"},
		operatorEtcdQuotaBackendBytesEnv:     {"", "1073741824", "junk"},
		operatorEtcdAutoCompactionRetentionEnv: {"", "1h"},
		operatorEtcdAutoCompactionModeEnv:      {"", "periodic", "revision"},
		operatorEtcdMaintenanceScheduleEnv:      {"", "0 3 * * *"},
		operatorEtcdMaintenanceCheckScheduleEnv: {"", "*/30 * * * *"},
		operatorEtcdMaintenanceEnabledEnv:       {"", "true", "false"},
		operatorEtcdMaintenanceSizeThresholdPctEnv: {"", "50", "200", "x"},
		operatorEtcdDefragScheduleEnv:           {"", "0 4 * * 0"},
		operatorEtcdDefragEnabledEnv:            {"", "true", "false"},
	}
	for _, k := range c42EnvKeys {
		if opts, ok := envOpts[k]; ok && r.Chance(35) {
			if v := opts[r.Intn(len(opts))]; v != "" {
				cs.Env[k] = v
			}
		}
	}
	cs.Drift = r.Chance(25)
	return cs
}

func pick01(r *vRand) int { return r.Intn(3) }

func TestVerifC42(t *testing.T) {
	rep := vNewReport("C42", "generated KafscaleCluster specs (names, replicas incl. nil/0/negative, service type/annotations/load-balancer/traffic-policy/node ports, S3, external or managed etcd, config, every LFS-proxy field) x operator environment variables x optional pre-existing drifted objects, reconciled 3 times through the real reconcile functions against controller-runtime's fake client; non-trivial = managed etcd or LFS proxy enabled (>= 8 objects rendered); distinct = distinct canonical (spec, env, drift)")
	var coq, jsons []string
	runOne := func(cs c42Case) {
		key, what, obs := c42Oracle(t, cs)
		canon, _ := json.Marshal(cs)
		rep.Count(string(canon), len(obs.Objects) >= 8)
		rep.Hist(fmt.Sprintf("objects=%d", len(obs.Objects)))
		if obs.Err != "" {
			rep.Hist("reconcile-error")
		}
		if cs.Drift {
			rep.Hist("drifted-preexisting-objects")
		}
		if len(cs.Env) > 0 {
			rep.Hist("env-set")
		}
		rep.Sample(map[string]any{"name": cs.Name, "env": cs.Env, "objects": obs.Objects})
		if key != "" {
			rep.Fail("idempotent", key, what, cs)
		}
		// correspondence with the IR: which closures ran (= which objects exist) and
		// whether pass 2 changed anything
		names := make([]string, len(obs.Objects))
		for i, o := range obs.Objects {
			names[i] = cqStr(c42KindFor(cs.Name, o+":"))
		}
		changed := obs.Err == "" && len(obs.Passes) > 1 && c42Diff(obs.Passes[0], obs.Passes[1]) != ""
		coq = append(coq, fmt.Sprintf("mkCase %s %s %s", cqList(names), cqBool(obs.Err == ""), cqBool(changed)))
		jsons = append(jsons, string(canon))
	}
	if rc := vReplayCase(); rc != nil {
		var cs c42Case
		if err := json.Unmarshal(rc, &cs); err != nil {
			t.Fatalf("bad replay: %v", err)
		}
		runOne(cs)
	} else {
		r := vNewRand(vSeed())
		// corpus: minimal spec, everything-on spec
		runOne(c42Case{Name: "demo", Namespace: "default", Env: map[string]string{}})
		on := true
		three := int32(3)
		runOne(c42Case{Name: "demo", Namespace: "default", Env: map[string]string{operatorEtcdSnapshotBucketEnv: "snap", operatorEtcdDefragEnabledEnv: "true", operatorEtcdMaintenanceEnabledEnv: "true"},
			Spec: kafscalev1alpha1.KafscaleClusterSpec{Brokers: kafscalev1alpha1.BrokerSpec{Replicas: &three, Service: kafscalev1alpha1.BrokerServiceSpec{Type: "LoadBalancer", Annotations: map[string]string{"a": "b"}, LoadBalancerIP: "10.0.0.1", LoadBalancerSourceRanges: []string{"10.0.0.0/8"}, ExternalTrafficPolicy: "Local"}},
				S3:       kafscalev1alpha1.S3Spec{Bucket: "b", Region: "us-east-1", CredentialsSecretRef: "creds"},
				LfsProxy: kafscalev1alpha1.LfsProxySpec{Enabled: true, HTTP: kafscalev1alpha1.LfsProxyHTTPSpec{Enabled: &on}, Metrics: kafscalev1alpha1.LfsProxyMetricsSpec{Enabled: &on}}}, Drift: true})
		n := vN(100, 1500)
		for i := 0; i < n; i++ {
			runOne(c42Gen(r.Fork()))
		}
	}
	rep.Cases("C42", "From KS Require Import lib.Base gen.ReconcileIR model.Reconcile corr.ReconcileCorr.", "case", "check_case", coq, jsons)
	rep.Write()
	if len(rep.Failures) > 0 {
		t.Logf("oracle failures: %s", strings.TrimSpace(rep.Failures[0].What))
	}
}
