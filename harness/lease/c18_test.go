package metadata

// C18 harness: 2-3 real LeaseManagers (plain, and through the PartitionLeaseManager /
// GroupLeaseManager wrappers) on ONE embedded etcd.  A generated schedule of
// etcd-operation-granular events is executed step by step: every Acquire / Release call
// runs in its own goroutine through a gating clientv3.KV wrapper that parks the call in
// front of each etcd request (and between a successful acquire transaction and the local
// commit) until the schedule lets it continue.  Session expiry = revoke the session's
// lease and end its keep-alive (monitorSession then clears the ownership map; the step
// waits for that, which is the "expiry is one atomic event" assumption).  After every
// step the harness reads Owns() of every manager and the lease keys in etcd, evaluates
// the implementation-side oracle (never two owners; a Release never removes a foreign
// lease) and records the observations for the model/code correspondence check.

import (
	"context"
	"encoding/json"
	"errors"
	"fmt"
	"io"
	"log/slog"
	"strconv"
	"strings"
	"sync"
	"testing"
	"time"

	clientv3 "go.etcd.io/etcd/client/v3"
	"go.etcd.io/etcd/client/v3/concurrency"
	"go.uber.org/zap"

	"github.com/KafScale/platform/internal/testutil"
)

// ---------------------------------------------------------------- cases

type c18Ev struct {
	K string `json:"k"`           // acqbegin acqtxn reacqtxn commit rellocal reldelete expire expirelazy releaseall restart orphan acqtxnlost reacqtxnlost reldeletelost orphanlost
	B int    `json:"b"`           // broker index
	R int    `json:"r"`           // resource index
	L int    `json:"l,omitempty"` // orphan: lease number (order of grant within the case, from 1)
}

type c18Case struct {
	Kind string   `json:"kind"` // plain | partition | group
	NB   int      `json:"nb"`
	Res  []string `json:"res"` // resource ids (partition kind: "<topic>/<partition>")
	Evs  []c18Ev  `json:"evs"`
}

type c18Obs struct {
	res  int      // -1 none, 0 ok, 1 not owner, 2 shutting down, 3 other error
	owns [][]bool // [broker][resource]
	keys [][2]int // per resource: {-1,-1} absent, else {owner broker index or -2, broker whose current session holds the key's lease or -1}
	rev  int64    // store revision relative to the start of the case
	sess []bool   // per broker: has a session
	skip bool     // taken before the holder could observe its session loss: not compared, no oracle
}

// ---------------------------------------------------------------- gating KV

type c18FlightKey struct{}

var errC18Aborted = errors.New("verif: request dropped (broker restarted)")
var errC18Lost = errors.New("verif: response lost (request applied by etcd, connection reset)")

type c18Signal struct {
	mgr  *c18Mgr
	kind string // "arrive" | "acqdone" | "reldone"
	id   string // arrive: gate id
	rid  string
	err  error
}

type c18Gate struct {
	mu      sync.Mutex
	pending map[string][]chan int // 0 = drop the request, 1 = go on, 2 = go on but lose the response
	sig     chan c18Signal
	owner   *c18Mgr
}

func (g *c18Gate) wait(id string) int {
	ch := make(chan int, 1)
	g.mu.Lock()
	g.pending[id] = append(g.pending[id], ch)
	g.mu.Unlock()
	g.sig <- c18Signal{mgr: g.owner, kind: "arrive", id: id}
	return <-ch
}

func (g *c18Gate) has(id string) bool {
	g.mu.Lock()
	defer g.mu.Unlock()
	return len(g.pending[id]) > 0
}

// open lets the oldest request parked at id continue (ok) or fail without being sent (!ok).
func (g *c18Gate) open(id string, ok int) bool {
	g.mu.Lock()
	q := g.pending[id]
	if len(q) == 0 {
		g.mu.Unlock()
		return false
	}
	ch := q[0]
	g.pending[id] = q[1:]
	g.mu.Unlock()
	ch <- ok
	return true
}

func (g *c18Gate) abortAll() int {
	g.mu.Lock()
	n := 0
	for id, q := range g.pending {
		for _, ch := range q {
			ch <- 0
			n++
		}
		delete(g.pending, id)
	}
	g.mu.Unlock()
	return n
}

type c18KV struct {
	clientv3.KV
	g *c18Gate
}

func (k *c18KV) Delete(ctx context.Context, key string, opts ...clientv3.OpOption) (*clientv3.DeleteResponse, error) {
	mode := k.g.wait("rel:" + key)
	if mode == 0 {
		return nil, errC18Aborted
	}
	c, cancel := context.WithTimeout(context.Background(), 10*time.Second)
	defer cancel()
	resp, err := k.KV.Delete(c, key, opts...)
	if mode == 2 {
		return nil, errC18Lost
	}
	// the server has applied the request; the caller sees the answer when the schedule says so
	if k.g.wait("rel-post:"+key) == 0 {
		return nil, errC18Aborted
	}
	return resp, err
}

// Put and Do are not used by the lease manager today; they are gated like a transaction so
// that a rewrite of an acquire / release request into a plain Put or Do is still stepped.
func (k *c18KV) Put(ctx context.Context, key, val string, opts ...clientv3.OpOption) (*clientv3.PutResponse, error) {
	acq := ctx.Value(c18FlightKey{}) != nil
	pre := "rel:" + key
	if acq {
		pre = "acq-pre:" + key
	}
	mode := k.g.wait(pre)
	if mode == 0 {
		return nil, errC18Aborted
	}
	c, cancel := context.WithTimeout(context.Background(), 10*time.Second)
	defer cancel()
	resp, err := k.KV.Put(c, key, val, opts...)
	if mode == 2 {
		return nil, errC18Lost
	}
	if acq && err == nil {
		if k.g.wait("acq-post:"+key) == 0 {
			return nil, errC18Aborted
		}
	}
	if !acq && k.g.wait("rel-post:"+key) == 0 {
		return nil, errC18Aborted
	}
	return resp, err
}

func (k *c18KV) Do(ctx context.Context, op clientv3.Op) (clientv3.OpResponse, error) {
	acq := ctx.Value(c18FlightKey{}) != nil
	key := string(op.KeyBytes())
	pre := "rel:" + key
	if acq {
		pre = "acq-pre:" + key
	}
	mode := k.g.wait(pre)
	if mode == 0 {
		return clientv3.OpResponse{}, errC18Aborted
	}
	c, cancel := context.WithTimeout(context.Background(), 10*time.Second)
	defer cancel()
	resp, err := k.KV.Do(c, op)
	if mode == 2 {
		return clientv3.OpResponse{}, errC18Lost
	}
	if acq && err == nil && (op.IsPut() || op.IsDelete()) {
		if k.g.wait("acq-post:"+key) == 0 {
			return clientv3.OpResponse{}, errC18Aborted
		}
	}
	if !acq && k.g.wait("rel-post:"+key) == 0 {
		return clientv3.OpResponse{}, errC18Aborted
	}
	return resp, err
}

// Lease.Revoke is what Session.Close (ReleaseAll's second step) sends: parked until the
// schedule expires that lease.
type c18Lease struct {
	clientv3.Lease
	g *c18Gate
}

func (l *c18Lease) Revoke(ctx context.Context, id clientv3.LeaseID) (*clientv3.LeaseRevokeResponse, error) {
	mode := l.g.wait(fmt.Sprintf("revoke:%d", int64(id)))
	if mode == 0 {
		return nil, errC18Aborted
	}
	c, cancel := context.WithTimeout(context.Background(), 10*time.Second)
	defer cancel()
	resp, err := l.Lease.Revoke(c, id)
	if mode == 2 {
		return nil, errC18Lost
	}
	// etcd has dropped the lease and its keys; Session.Close sees the answer when the schedule says so
	if l.g.wait(fmt.Sprintf("revoke-post:%d", int64(id))) == 0 {
		return nil, errC18Aborted
	}
	return resp, err
}

func (k *c18KV) Txn(ctx context.Context) clientv3.Txn {
	return &c18Txn{kv: k, acq: ctx.Value(c18FlightKey{}) != nil}
}

type c18Txn struct {
	kv                 *c18KV
	acq                bool
	cmps               []clientv3.Cmp
	thens, elses       []clientv3.Op
	key                string
	hasThen, hasElse   bool
	committed, hasCmps bool
}

func (t *c18Txn) If(cs ...clientv3.Cmp) clientv3.Txn {
	t.cmps = append(t.cmps, cs...)
	t.hasCmps = true
	if len(cs) > 0 {
		t.key = string(cs[0].KeyBytes())
	}
	return t
}
func (t *c18Txn) Then(ops ...clientv3.Op) clientv3.Txn {
	t.thens = append(t.thens, ops...)
	if t.key == "" && len(ops) > 0 {
		t.key = string(ops[0].KeyBytes())
	}
	return t
}
func (t *c18Txn) Else(ops ...clientv3.Op) clientv3.Txn {
	t.elses = append(t.elses, ops...)
	return t
}
func (t *c18Txn) Commit() (*clientv3.TxnResponse, error) {
	pre := "rel:" + t.key
	if t.acq {
		pre = "acq-pre:" + t.key
	}
	mode := t.kv.g.wait(pre)
	if mode == 0 {
		return nil, errC18Aborted
	}
	// the real request, with its own deadline (the caller's 5 s deadline started before the gate)
	c, cancel := context.WithTimeout(context.Background(), 10*time.Second)
	defer cancel()
	resp, err := t.kv.KV.Txn(c).If(t.cmps...).Then(t.thens...).Else(t.elses...).Commit()
	if mode == 2 {
		return nil, errC18Lost
	}
	if t.acq && err == nil && resp.Succeeded {
		if t.kv.g.wait("acq-post:"+t.key) == 0 {
			return nil, errC18Aborted
		}
	}
	if !t.acq && t.kv.g.wait("rel-post:"+t.key) == 0 {
		return nil, errC18Aborted
	}
	return resp, err
}

// ---------------------------------------------------------------- managers

type c18Mgr struct {
	idx     int
	cli     *clientv3.Client
	lm      *LeaseManager
	pm      *PartitionLeaseManager
	gm      *GroupLeaseManager
	gate    *c18Gate
	flights map[string]string // rid -> phase: txn | reacq | commit
	rels    map[string]int    // rid -> Release calls parked in front of their etcd request
	revokes map[string]bool   // gate ids of parked ReleaseAll lease revokes
	relPost map[string]int    // rid -> Release calls whose request is applied but whose answer is held back
	revPost []string          // gate ids of ReleaseAll revokes applied by etcd whose answer is held back
}

// flushRelPost delivers the held-back answers of m's Release requests.
func (w *c18World) flushRelPost(m *c18Mgr) {
	for rid, n := range m.relPost {
		for ; n > 0; n-- {
			m.gate.open("rel-post:"+w.key(rid), 1)
			if s := w.next(); s.kind != "reldone" {
				w.t.Fatalf("C18 harness: unexpected signal after release answer: %+v", s)
			}
		}
		delete(m.relPost, rid)
	}
	for _, gid := range m.revPost {
		m.gate.open(gid, 1)
		if s := w.next(); s.kind != "radone" {
			w.t.Fatalf("C18 harness: unexpected signal after revoke answer: %+v", s)
		}
	}
	m.revPost = nil
}

type c18World struct {
	t         *testing.T
	endpoints []string
	root      *clientv3.Client
	kind      string
	prefix    string
	res       []string
	mgrs      []*c18Mgr
	dead      []*c18Mgr
	sig       chan c18Signal
	granted   []clientv3.LeaseID // in grant order
	baseRev   int64
	orderFail string
}

func c18Prefix(kind string) string {
	switch kind {
	case "partition":
		return partitionLeasePrefix
	case "group":
		return groupLeasePrefix
	}
	return "/verif/c18-leases"
}

func c18SplitPartition(rid string) (string, int32) {
	i := strings.LastIndex(rid, "/")
	p, _ := strconv.Atoi(rid[i+1:])
	return rid[:i], int32(p)
}

func (w *c18World) newMgr(idx int) *c18Mgr {
	cli, err := clientv3.New(clientv3.Config{Endpoints: w.endpoints, DialTimeout: 5 * time.Second, Logger: zap.NewNop()})
	if err != nil {
		w.t.Fatalf("etcd client: %v", err)
	}
	m := &c18Mgr{idx: idx, cli: cli, flights: map[string]string{}, rels: map[string]int{}, revokes: map[string]bool{}, relPost: map[string]int{}}
	m.gate = &c18Gate{pending: map[string][]chan int{}, sig: w.sig, owner: m}
	cli.KV = &c18KV{KV: cli.KV, g: m.gate}
	cli.Lease = &c18Lease{Lease: cli.Lease, g: m.gate}
	logger := slog.New(slog.NewTextHandler(io.Discard, nil))
	id := strconv.Itoa(idx + 1)
	switch w.kind {
	case "partition":
		m.pm = NewPartitionLeaseManager(cli, PartitionLeaseConfig{BrokerID: id, LeaseTTLSeconds: 120, Logger: logger})
		m.lm = m.pm.lm
	case "group":
		m.gm = NewGroupLeaseManager(cli, GroupLeaseConfig{BrokerID: id, LeaseTTLSeconds: 120, Logger: logger})
		m.lm = m.gm.lm
	default:
		m.lm = NewLeaseManager(cli, LeaseManagerConfig{BrokerID: id, Prefix: w.prefix, LeaseTTLSeconds: 120, Logger: logger, ResourceKind: "thing"})
	}
	return m
}

func (m *c18Mgr) acquire(ctx context.Context, rid string) error {
	switch {
	case m.pm != nil:
		t, p := c18SplitPartition(rid)
		return m.pm.Acquire(ctx, t, p)
	case m.gm != nil:
		return m.gm.Acquire(ctx, rid)
	}
	return m.lm.Acquire(ctx, rid)
}
func (m *c18Mgr) release(rid string) {
	switch {
	case m.pm != nil:
		t, p := c18SplitPartition(rid)
		m.pm.Release(t, p)
	case m.gm != nil:
		m.gm.Release(rid)
	default:
		m.lm.Release(rid)
	}
}
func (m *c18Mgr) ownsRes(rid string) bool {
	switch {
	case m.pm != nil:
		t, p := c18SplitPartition(rid)
		return m.pm.Owns(t, p)
	case m.gm != nil:
		return m.gm.Owns(rid)
	}
	return m.lm.Owns(rid)
}
func (m *c18Mgr) releaseAll() {
	switch {
	case m.pm != nil:
		m.pm.ReleaseAll()
	case m.gm != nil:
		m.gm.ReleaseAll()
	default:
		m.lm.ReleaseAll()
	}
}
func (m *c18Mgr) session() *concurrency.Session {
	m.lm.mu.RLock()
	defer m.lm.mu.RUnlock()
	return m.lm.session
}

// next waits for the single goroutine that was just allowed to run to park or finish.
func (w *c18World) next() c18Signal {
	select {
	case s := <-w.sig:
		return s
	case <-time.After(20 * time.Second):
		w.t.Fatalf("C18 harness: no progress after a step (deadlock in the gating wrapper?)")
	}
	return c18Signal{}
}

func c18ResCode(err error) int {
	switch {
	case err == nil:
		return 0
	case errors.Is(err, ErrNotOwner):
		return 1
	case errors.Is(err, ErrShuttingDown):
		return 2
	}
	return 3
}

func (w *c18World) key(rid string) string { return w.prefix + "/" + rid }

// flightSignal interprets what the acquire goroutine of (m, rid) did after being let go.
func (w *c18World) flightSignal(m *c18Mgr, rid string, s c18Signal) int {
	if s.mgr != m {
		w.t.Fatalf("C18 harness: signal from another manager")
	}
	switch s.kind {
	case "acqdone":
		delete(m.flights, rid)
		return c18ResCode(s.err)
	case "arrive":
		switch s.id {
		case "acq-post:" + w.key(rid):
			m.flights[rid] = "commit"
		case "acq-pre:" + w.key(rid):
			if m.flights[rid] == "txn" {
				m.flights[rid] = "reacq"
			} else {
				m.flights[rid] = "txn"
			}
		default:
			w.t.Fatalf("C18 harness: unexpected gate %q", s.id)
		}
		return -1
	}
	w.t.Fatalf("C18 harness: unexpected signal %+v", s)
	return -1
}

// exec performs one event on the real managers; returns (executed, acquire result code or -1).
func (w *c18World) exec(ev c18Ev) (bool, int) {
	if ev.K == "orphan" || ev.K == "orphanlost" {
		if ev.L < 1 || ev.L > len(w.granted) {
			return false, -1
		}
		id := w.granted[ev.L-1]
		for _, m := range w.mgrs {
			if s := m.session(); s != nil && s.Lease() == id {
				return false, -1
			}
		}
		gid := fmt.Sprintf("revoke:%d", int64(id))
		for _, m := range w.mgrs {
			if m.revokes[gid] {
				// the parked second step of that manager's ReleaseAll
				delete(m.revokes, gid)
				mode := 1
				if ev.K == "orphanlost" {
					mode = 2 // the revoke is applied, Session.Close gets an error (ReleaseAll ignores it)
				}
				m.gate.open(gid, mode)
				switch s := w.next(); {
				case s.kind == "arrive" && strings.HasPrefix(s.id, "revoke-post:"):
					m.revPost = append(m.revPost, s.id) // applied; ReleaseAll has not seen the answer yet
				case s.kind == "radone":
				default:
					w.t.Fatalf("C18 harness: unexpected signal after revoke: %+v", s)
				}
				return true, -1
			}
		}
		ctx, cancel := context.WithTimeout(context.Background(), 10*time.Second)
		defer cancel()
		_, _ = w.root.Revoke(ctx, id)
		return true, -1
	}
	if ev.B < 0 || ev.B >= len(w.mgrs) || ev.R < 0 || ev.R >= len(w.res) {
		return false, -1
	}
	m := w.mgrs[ev.B]
	rid := w.res[ev.R]
	// a Release call of this manager whose request etcd has applied gets its answer now at the
	// latest (nothing in between has touched this manager)
	w.flushRelPost(m)
	switch ev.K {
	case "acqbegin":
		if _, busy := m.flights[rid]; busy {
			return false, -1
		}
		before := m.session()
		m.flights[rid] = ""
		ctx := context.WithValue(context.Background(), c18FlightKey{}, true)
		go func() {
			err := m.acquire(ctx, rid)
			w.sig <- c18Signal{mgr: m, kind: "acqdone", rid: rid, err: err}
		}()
		code := w.flightSignal(m, rid, w.next())
		if s := m.session(); s != nil && s != before {
			w.granted = append(w.granted, s.Lease())
		}
		return true, code
	case "acqtxn", "reacqtxn", "acqtxnlost", "reacqtxnlost":
		want := "txn"
		if strings.HasPrefix(ev.K, "reacq") {
			want = "reacq"
		}
		if m.flights[rid] != want {
			return false, -1
		}
		mode := 1
		if strings.HasSuffix(ev.K, "lost") {
			mode = 2 // etcd applies the request, the client call returns an error
		}
		m.gate.open("acq-pre:"+w.key(rid), mode)
		return true, w.flightSignal(m, rid, w.next())
	case "commit":
		if m.flights[rid] != "commit" {
			return false, -1
		}
		m.gate.open("acq-post:"+w.key(rid), 1)
		return true, w.flightSignal(m, rid, w.next())
	case "rellocal":
		go func() {
			m.release(rid)
			w.sig <- c18Signal{mgr: m, kind: "reldone", rid: rid}
		}()
		s := w.next()
		if s.kind == "arrive" && s.id == "rel:"+w.key(rid) {
			m.rels[rid]++
		} else if s.kind != "reldone" {
			w.t.Fatalf("C18 harness: unexpected signal after Release: %+v", s)
		}
		return true, -1
	case "reldelete", "reldeletelost":
		if m.rels[rid] == 0 {
			return false, -1
		}
		m.rels[rid]--
		mode := 1
		if ev.K == "reldeletelost" {
			mode = 2
		}
		m.gate.open("rel:"+w.key(rid), mode)
		switch s := w.next(); {
		case s.kind == "arrive" && s.id == "rel-post:"+w.key(rid):
			// applied by etcd; the Release call has not seen the answer yet
			m.relPost[rid]++
		case s.kind == "reldone":
		default:
			w.t.Fatalf("C18 harness: unexpected signal after release delete: %+v", s)
		}
		return true, -1
	case "expire":
		s := m.session()
		if s == nil {
			return false, -1
		}
		ctx, cancel := context.WithTimeout(context.Background(), 10*time.Second)
		_, _ = w.root.Revoke(ctx, s.Lease())
		cancel()
		s.Orphan() // ends the keep-alive: Done() fires, monitorSession clears the ownership map
		for i := 0; m.session() != nil; i++ {
			if i > 20000 {
				w.t.Fatalf("C18 harness: monitorSession did not clear the session")
			}
			time.Sleep(200 * time.Microsecond)
		}
		return true, -1
	case "expirelazy":
		// The session is lost and the FIRST code to notice is getOrCreateSession, reached through
		// an Acquire of a resource this manager does not own (ev.R), not monitorSession: the
		// manager's session pointer is replaced by a copy of the Session value, so the monitor
		// goroutine of the original pointer finds m.session != session and does nothing. The
		// run loop executes {acqbegin B R} right after this step. Needs: a session, no acquire
		// in flight (flights hold the old pointer), R not owned; otherwise plain expiry.
		s := m.session()
		if s == nil {
			return false, -1
		}
		if len(m.flights) > 0 || m.ownsRes(rid) {
			return w.exec(c18Ev{K: "expire", B: ev.B, R: ev.R})
		}
		m.lm.mu.Lock()
		cp := *s
		m.lm.session = &cp
		m.lm.mu.Unlock()
		ctx, cancel := context.WithTimeout(context.Background(), 10*time.Second)
		_, _ = w.root.Revoke(ctx, cp.Lease())
		cancel()
		cp.Orphan() // Done() is closed; nobody has looked yet
		time.Sleep(2 * time.Millisecond)
		return true, -1
	case "releaseall":
		// first step of ReleaseAll (closed, map cleared, session dropped); the LeaseRevoke of
		// Session.Close stays parked until an "orphan" event expires that lease
		// monitorSession must not hide what ReleaseAll itself does: Session.Close ends the
		// keep-alive first, which wakes the monitor; it is made a no-op (session pointer replaced
		// by a copy) when no acquire is in flight (flights hold the old pointer)
		if s := m.session(); s != nil && len(m.flights) == 0 {
			m.lm.mu.Lock()
			cp := *s
			m.lm.session = &cp
			m.lm.mu.Unlock()
		}
		go func() {
			m.releaseAll()
			w.sig <- c18Signal{mgr: m, kind: "radone"}
		}()
		s := w.next()
		if s.kind == "arrive" && strings.HasPrefix(s.id, "revoke:") {
			m.revokes[s.id] = true
			// order of the two steps of ReleaseAll: the ownership map is cleared BEFORE the revoke
			// request is issued
			for _, r := range w.res {
				if m.ownsRes(r) {
					w.orderFail = fmt.Sprintf("ReleaseAll of broker %d issued its LeaseRevoke while Owns(%q) is still true", m.idx+1, r)
				}
			}
		} else if s.kind != "radone" {
			w.t.Fatalf("C18 harness: unexpected signal after ReleaseAll: %+v", s)
		}
		return true, -1
	case "restart":
		w.retire(m)
		w.mgrs[ev.B] = w.newMgr(ev.B)
		return true, -1
	}
	return false, -1
}

// retire = the broker process dies: parked requests are never sent, the keep-alive stops,
// the session lease stays in etcd until it expires.
func (w *c18World) retire(m *c18Mgr) {
	for n := m.gate.abortAll(); n > 0; {
		s := w.next()
		if s.kind == "arrive" {
			// cannot happen: aborted requests return errors
			w.t.Fatalf("C18 harness: request parked after abort: %+v", s)
		}
		n--
	}
	if s := m.session(); s != nil {
		s.Orphan()
	}
	w.dead = append(w.dead, m)
}

func (w *c18World) observe() (c18Obs, map[string]*c18KVObs) {
	o := c18Obs{res: -1}
	for _, m := range w.mgrs {
		row := make([]bool, len(w.res))
		for j, rid := range w.res {
			row[j] = m.ownsRes(rid)
		}
		o.owns = append(o.owns, row)
		o.sess = append(o.sess, m.session() != nil)
	}
	ctx, cancel := context.WithTimeout(context.Background(), 10*time.Second)
	defer cancel()
	resp, err := w.root.Get(ctx, w.prefix+"/", clientv3.WithPrefix())
	if err != nil {
		w.t.Fatalf("etcd get: %v", err)
	}
	o.rev = resp.Header.Revision - w.baseRev
	kvs := map[string]*c18KVObs{}
	for _, kv := range resp.Kvs {
		kvs[string(kv.Key)] = &c18KVObs{val: string(kv.Value), lease: clientv3.LeaseID(kv.Lease), mod: kv.ModRevision}
	}
	for _, rid := range w.res {
		kv := kvs[w.key(rid)]
		if kv == nil {
			o.keys = append(o.keys, [2]int{-1, -1})
			continue
		}
		owner, holder := -2, -1
		for i, m := range w.mgrs {
			if kv.val == strconv.Itoa(i+1) {
				owner = i
			}
			if s := m.session(); s != nil && s.Lease() == kv.lease {
				holder = i
			}
		}
		o.keys = append(o.keys, [2]int{owner, holder})
	}
	return o, kvs
}

type c18KVObs struct {
	val   string
	lease clientv3.LeaseID
	mod   int64
}

func (w *c18World) cleanup() {
	for _, m := range w.mgrs {
		w.retire(m)
	}
	ctx, cancel := context.WithTimeout(context.Background(), 20*time.Second)
	defer cancel()
	for _, id := range w.granted {
		_, _ = w.root.Revoke(ctx, id)
	}
	_, _ = w.root.Delete(ctx, w.prefix+"/", clientv3.WithPrefix())
	for _, m := range w.dead {
		_ = m.cli.Close()
	}
}

// c18Run executes the case. Returns the events actually executed (events that are not
// enabled are dropped), the observation after each, and the first oracle failure.
func c18Run(t *testing.T, endpoints []string, root *clientv3.Client, cs c18Case) ([]c18Ev, []c18Obs, string, string) {
	w := &c18World{t: t, endpoints: endpoints, root: root, kind: cs.Kind, prefix: c18Prefix(cs.Kind), res: cs.Res,
		sig: make(chan c18Signal, 256)}
	ctx, cancel := context.WithTimeout(context.Background(), 10*time.Second)
	_, _ = root.Delete(ctx, w.prefix+"/", clientv3.WithPrefix())
	resp, err := root.Get(ctx, w.prefix+"/", clientv3.WithPrefix())
	cancel()
	if err != nil {
		t.Fatalf("etcd get: %v", err)
	}
	w.baseRev = resp.Header.Revision
	for i := 0; i < cs.NB; i++ {
		w.mgrs = append(w.mgrs, w.newMgr(i))
	}
	defer w.cleanup()
	var done []c18Ev
	var obs []c18Obs
	fail, failKey := "", ""
	setFail := func(k, f string) {
		if fail == "" {
			fail, failKey = f, k
		}
	}
	for _, ev := range cs.Evs {
		var before map[string]*c18KVObs
		var ownedBefore bool
		var obsBefore c18Obs
		isRel := ev.K == "reldelete" || ev.K == "reldeletelost"
		isWrite := ev.K == "acqtxn" || ev.K == "reacqtxn" || ev.K == "acqtxnlost" || ev.K == "reacqtxnlost"
		if (isRel || isWrite) && ev.B >= 0 && ev.B < len(w.mgrs) && ev.R >= 0 && ev.R < len(w.res) {
			obsBefore, before = w.observe()
			ownedBefore = w.mgrs[ev.B].ownsRes(w.res[ev.R])
		}
		ok, code := w.exec(ev)
		if !ok {
			continue
		}
		o, after := w.observe()
		o.res = code
		if w.orderFail != "" {
			setFail("releaseall-revokes-before-clearing", w.orderFail)
			w.orderFail = ""
		}
		lazy := ev.K == "expirelazy" && w.mgrs[ev.B].session() != nil
		if ev.K == "expirelazy" && !lazy {
			ev.K = "expire" // fell back to the plain expiry
		}
		done = append(done, ev)
		if lazy {
			// the holder has not run any code since its session died: nothing to compare yet;
			// its next call is an Acquire of a resource it does not own
			o.skip = true
			obs = append(obs, o)
			follow := c18Ev{K: "acqbegin", B: ev.B, R: ev.R}
			if ok2, code2 := w.exec(follow); ok2 {
				o, after = w.observe()
				o.res = code2
				done = append(done, follow)
				ev = follow
			} else {
				continue
			}
		}
		obs = append(obs, o)
		step := len(done) - 1
		// oracle 1: at no time do two brokers both believe they own the same lease
		for j, rid := range w.res {
			owners := []string{}
			for i := range w.mgrs {
				if o.owns[i][j] {
					owners = append(owners, strconv.Itoa(i+1))
				}
			}
			if len(owners) > 1 {
				setFail("two-owners", fmt.Sprintf("step %d (%s b%d %s): brokers %v all own %q (etcd key: %v)", step, ev.K, ev.B+1, w.res[ev.R%len(w.res)], owners, rid, o.keys[j]))
			}
		}
		// oracle 3: what a manager believes it owns is backed by etcd -- the key exists, stores its
		// id and hangs on its current session's lease -- at every point where the manager has
		// run code after its last session loss (all observation points except the skipped one)
		for i := range w.mgrs {
			for j, rid := range w.res {
				if o.owns[i][j] && (o.keys[j][0] != i || o.keys[j][1] != i) {
					setFail("owns-without-live-key", fmt.Sprintf("step %d (%s b%d): broker %d reports Owns(%q) but the etcd key is %v (owner index, session-holder index; -1 = absent / nobody's current session)", step, ev.K, ev.B+1, i+1, rid, o.keys[j]))
				}
			}
		}
		// oracle 2: a release never removes a lease that another broker has since acquired
		if isRel {
			self := strconv.Itoa(ev.B + 1)
			for k, b := range before {
				a := after[k]
				if b.val != self && (a == nil || a.mod != b.mod) {
					setFail("release-removed-foreign-lease", fmt.Sprintf("step %d: Release by broker %s removed key %s held by broker %s", step, self, k, b.val))
				}
			}
			_ = ownedBefore
		}
		// ... and no etcd request of an Acquire overwrites the key of a lease that another
		// broker currently owns (the owner would keep believing it owns a lease that is gone:
		// the same loss as in oracle 2, and the writer becomes a second owner with its commit)
		if isWrite {
			self := strconv.Itoa(ev.B + 1)
			for j, rid := range w.res {
				b, a := before[w.key(rid)], after[w.key(rid)]
				if b == nil || b.val == self || (a != nil && a.mod == b.mod) {
					continue
				}
				for i := range w.mgrs {
					if strconv.Itoa(i+1) == b.val && obsBefore.owns[i][j] {
						setFail("write-clobbered-foreign-lease", fmt.Sprintf("step %d: the %s request of broker %s replaced key %s of the lease broker %s owns", step, ev.K, self, w.key(rid), b.val))
					}
				}
			}
		}
	}
	return done, obs, fail, failKey
}

// ---------------------------------------------------------------- generator

func c18Gen(r *vRand) c18Case {
	cs := c18Case{NB: r.Range(2, 3)}
	switch r.Intn(4) {
	case 0:
		cs.Kind = "partition"
		cs.Res = []string{"orders/0", "orders/1", "a/b/7"}
	case 1:
		cs.Kind = "group"
		cs.Res = []string{"g1", "grp/2", "g"}
	default:
		cs.Kind = "plain"
		cs.Res = []string{"x", "y/1", "z"}
	}
	cs.Res = cs.Res[:r.Range(1, 3)]
	// A schedule is a random merge of small scripts (an Acquire call = 4 steps, a Release
	// call = 2 steps, single fault events), so calls interleave at etcd-operation
	// granularity; most scripts work on one "hot" resource.
	hotR := r.Intn(len(cs.Res))
	var scripts [][]c18Ev
	ns := r.Range(3, 10)
	for i := 0; i < ns; i++ {
		b := r.Intn(cs.NB)
		res := hotR
		if r.Chance(25) {
			res = r.Intn(len(cs.Res))
		}
		rel := []c18Ev{{K: "rellocal", B: b, R: res}, {K: "reldelete", B: b, R: res}}
		if r.Chance(15) {
			rel[1].K = "reldeletelost"
		}
		switch x := r.Intn(100); {
		case x < 6: // lost response of one of the acquire requests
			sc := c18Full(b, res)
			if r.Bool() {
				sc[1].K = "acqtxnlost"
			} else {
				sc[2].K = "reacqtxnlost"
			}
			scripts = append(scripts, sc)
		case x < 40:
			scripts = append(scripts, c18Full(b, res))
		case x < 58:
			scripts = append(scripts, rel)
		case x < 72:
			scripts = append(scripts, c18Cat(c18Full(b, res), rel))
		case x < 82:
			if r.Chance(45) {
				// session loss first noticed by an Acquire of another resource
				scripts = append(scripts, []c18Ev{{K: "expirelazy", B: b, R: r.Intn(len(cs.Res))}})
			} else {
				scripts = append(scripts, []c18Ev{{K: "expire", B: b, R: res}})
			}
		case x < 86:
			scripts = append(scripts, []c18Ev{{K: "releaseall", B: b, R: res}})
		case x < 93:
			scripts = append(scripts, []c18Ev{{K: "restart", B: b, R: res}})
		default:
			k := "orphan"
			if r.Chance(25) {
				k = "orphanlost"
			}
			scripts = append(scripts, []c18Ev{{K: k, L: r.Range(1, 4)}})
		}
	}
	for {
		live := 0
		for _, sc := range scripts {
			if len(sc) > 0 {
				live++
			}
		}
		if live == 0 {
			break
		}
		k := r.Intn(live)
		for i := range scripts {
			if len(scripts[i]) == 0 {
				continue
			}
			if k == 0 {
				cs.Evs = append(cs.Evs, scripts[i][0])
				scripts[i] = scripts[i][1:]
				break
			}
			k--
		}
	}
	// noise: single steps at random positions (mostly disabled ones are dropped at execution)
	kinds := []string{"acqbegin", "acqtxn", "reacqtxn", "commit", "rellocal", "reldelete", "acqtxnlost", "reacqtxnlost", "reldeletelost"}
	for n := r.Range(0, 4); n > 0; n-- {
		ev := c18Ev{K: kinds[r.Intn(len(kinds))], B: r.Intn(cs.NB), R: r.Intn(len(cs.Res))}
		pos := r.Intn(len(cs.Evs) + 1)
		cs.Evs = append(cs.Evs[:pos], append([]c18Ev{ev}, cs.Evs[pos:]...)...)
	}
	return cs
}

// c18GenWindow builds "one request parked, the world moves on" schedules: broker X is stopped
// between two consecutive steps of one of its calls (every adjacent pair of steps of Acquire,
// reacquire and Release, after a pre-state in which X's key may exist without X owning it:
// restart with an orphaned lease, local half of a Release, expired session) while the other
// brokers run complete operations and leases expire; then X's call continues.
func c18GenWindow(r *vRand) c18Case {
	cs := c18Case{NB: r.Range(2, 3)}
	switch r.Intn(3) {
	case 0:
		cs.Kind, cs.Res = "partition", []string{"orders/0", "orders/1"}
	case 1:
		cs.Kind, cs.Res = "group", []string{"g1", "grp/2"}
	default:
		cs.Kind, cs.Res = "plain", []string{"x", "y/1"}
	}
	x, res := r.Intn(cs.NB), 0
	other := func() int {
		o := r.Intn(cs.NB - 1)
		if o >= x {
			o++
		}
		return o
	}
	one := func(k string, b int) []c18Ev { return []c18Ev{{K: k, B: b, R: res}} }
	// pre-state
	switch r.Intn(6) {
	case 0: // nothing
	case 1: // X owns
		cs.Evs = c18Cat(cs.Evs, c18Full(x, res))
	case 2: // X's previous incarnation left its key behind (orphaned lease 1)
		cs.Evs = c18Cat(cs.Evs, c18Full(x, res), one("restart", x))
	case 3: // X is in the middle of a Release
		cs.Evs = c18Cat(cs.Evs, c18Full(x, res), one("rellocal", x))
	case 4: // another broker owns
		cs.Evs = c18Cat(cs.Evs, c18Full(other(), res))
	case 5: // X owned, session expired, X has a new session through another resource
		cs.Evs = c18Cat(cs.Evs, c18Full(x, res), one("expire", x), c18Full(x, 1))
	}
	// X's call, cut after step `cut`
	var call []c18Ev
	if r.Chance(75) {
		call = c18Full(x, res)
	} else {
		call = []c18Ev{{K: "rellocal", B: x, R: res}, {K: "reldelete", B: x, R: res}}
	}
	// where the call is stopped: before its next request, or -- most interesting -- right
	// after etcd applied a request and before the manager handled the answer (for an acquire:
	// after acqtxn / reacqtxn, before commit; for a Release the answer of reldelete is held
	// back until the next step of that manager)
	cut := r.Range(1, len(call)-1)
	if len(call) == 4 && r.Chance(60) {
		cut = 3
	}
	if len(call) == 2 && r.Chance(60) {
		cut = 2
	}
	if r.Chance(10) {
		// ... or the answer is lost altogether
		for i := range call {
			if i < cut && (call[i].K == "acqtxn" || call[i].K == "reacqtxn" || call[i].K == "reldelete") && r.Bool() {
				call[i].K += "lost"
			}
		}
	}
	cs.Evs = c18Cat(cs.Evs, call[:cut])
	// the window: complete operations of the others, expiries
	for n := r.Range(1, 4); n > 0; n-- {
		o := other()
		switch y := r.Intn(100); {
		case y < 30:
			cs.Evs = c18Cat(cs.Evs, []c18Ev{{K: "orphan", L: r.Range(1, 3)}})
		case y < 60:
			cs.Evs = c18Cat(cs.Evs, c18Full(o, res))
		case y < 70:
			cs.Evs = c18Cat(cs.Evs, one("rellocal", o), one("reldelete", o))
		case y < 80:
			cs.Evs = c18Cat(cs.Evs, one("expire", x))
		case y < 84:
			cs.Evs = c18Cat(cs.Evs, one("expire", o))
		case y < 88:
			cs.Evs = c18Cat(cs.Evs, []c18Ev{{K: "expirelazy", B: o, R: 1}}, []c18Ev{{K: "acqtxn", B: o, R: 1}, {K: "commit", B: o, R: 1}})
		case y < 91:
			cs.Evs = c18Cat(cs.Evs, one("reldelete", x))
		case y < 94:
			cs.Evs = c18Cat(cs.Evs, one("releaseall", o))
		case y < 98:
			// X itself is told to shut down / is restarted while its request is out
			cs.Evs = c18Cat(cs.Evs, one("releaseall", x))
			if r.Bool() {
				cs.Evs = c18Cat(cs.Evs, []c18Ev{{K: "orphan", L: r.Range(1, 3)}})
			}
		default:
			cs.Evs = c18Cat(cs.Evs, one("restart", x))
		}
	}
	cs.Evs = c18Cat(cs.Evs, call[cut:])
	// afterwards everybody tries to acquire
	for b := 0; b < cs.NB; b++ {
		if r.Chance(70) {
			cs.Evs = c18Cat(cs.Evs, c18Full(b, res))
		}
	}
	return cs
}

// c18GenLazy: a broker that owns something loses its session, and the loss is first noticed
// by getOrCreateSession (Acquire of a resource it does not own) instead of monitorSession;
// then the others take the expired leases and the broker tries again.
func c18GenLazy(r *vRand) c18Case {
	cs := c18Case{NB: r.Range(2, 3), Kind: []string{"plain", "partition", "group"}[r.Intn(3)]}
	switch cs.Kind {
	case "partition":
		cs.Res = []string{"orders/0", "orders/1", "a/b/7"}
	case "group":
		cs.Res = []string{"g1", "grp/2", "g"}
	default:
		cs.Res = []string{"x", "y/1", "z"}
	}
	x := r.Intn(cs.NB)
	y := (x + 1 + r.Intn(cs.NB-1)) % cs.NB
	cs.Evs = c18Full(x, 0)
	if r.Chance(40) {
		cs.Evs = c18Cat(cs.Evs, c18Full(x, 1))
	}
	if r.Chance(30) {
		cs.Evs = c18Cat(cs.Evs, c18Full(y, 2))
	}
	if r.Chance(25) {
		cs.Evs = c18Cat(cs.Evs, []c18Ev{{K: "rellocal", B: x, R: 0}})
	}
	cs.Evs = c18Cat(cs.Evs, []c18Ev{{K: "expirelazy", B: x, R: 2}})
	tail := [][]c18Ev{{{K: "acqtxn", B: x, R: 2}, {K: "reacqtxn", B: x, R: 2}, {K: "commit", B: x, R: 2}}, c18Full(y, 0), c18Full(x, 0), c18Full(y, 1)}
	if r.Chance(30) {
		tail = append(tail, []c18Ev{{K: "reldelete", B: x, R: 0}})
	}
	// random merge of the continuations
	for {
		var live []int
		for i, sc := range tail {
			if len(sc) > 0 {
				live = append(live, i)
			}
		}
		if len(live) == 0 {
			break
		}
		i := live[r.Intn(len(live))]
		cs.Evs = append(cs.Evs, tail[i][0])
		tail[i] = tail[i][1:]
	}
	return cs
}

func c18Full(b, r int) []c18Ev {
	return []c18Ev{{K: "acqbegin", B: b, R: r}, {K: "acqtxn", B: b, R: r}, {K: "reacqtxn", B: b, R: r}, {K: "commit", B: b, R: r}}
}

func c18Cat(parts ...[]c18Ev) []c18Ev {
	var out []c18Ev
	for _, p := range parts {
		out = append(out, p...)
	}
	return out
}

// corpus: the shapes of the design-round finding (stale Release delete) and its variants
func c18Corpus() []c18Case {
	one := func(k string, b, r int) []c18Ev { return []c18Ev{{K: k, B: b, R: r}} }
	return []c18Case{
		// A acquires; local half of Release; A's session expires; B acquires; A's late delete; C acquires
		{Kind: "partition", NB: 3, Res: []string{"orders/0"}, Evs: c18Cat(c18Full(0, 0), one("rellocal", 0, 0), one("expire", 0, 0), c18Full(1, 0), one("reldelete", 0, 0), c18Full(2, 0))},
		// same on a group lease
		{Kind: "group", NB: 3, Res: []string{"g1"}, Evs: c18Cat(c18Full(0, 0), one("rellocal", 0, 0), one("expire", 0, 0), c18Full(1, 0), one("reldelete", 0, 0), c18Full(2, 0))},
		// A re-acquires between the two halves of its own Release; B acquires after the late delete
		{Kind: "plain", NB: 2, Res: []string{"x"}, Evs: c18Cat(c18Full(0, 0), one("rellocal", 0, 0), c18Full(0, 0), one("reldelete", 0, 0), c18Full(1, 0))},
		// restart: the new incarnation takes over the key left by the old one, old lease expires later
		{Kind: "plain", NB: 2, Res: []string{"x"}, Evs: c18Cat(c18Full(0, 0), one("restart", 0, 0), c18Full(1, 0), c18Full(0, 0), []c18Ev{{K: "orphan", L: 1}}, c18Full(1, 0))},
		// session expires between the acquire transaction and the local commit
		{Kind: "plain", NB: 2, Res: []string{"x", "z"}, Evs: c18Cat([]c18Ev{{K: "acqbegin", B: 0, R: 0}, {K: "acqtxn", B: 0, R: 0}, {K: "expire", B: 0}}, c18Full(0, 1), c18Full(1, 0), one("commit", 0, 0))},
		// the key of a previous incarnation disappears and another broker acquires between the two
		// transactions of the new incarnation's Acquire: the reacquire transaction must fail
		{Kind: "plain", NB: 2, Res: []string{"x"}, Evs: c18Cat(c18Full(0, 0), one("restart", 0, 0), []c18Ev{{K: "acqbegin", B: 0, R: 0}, {K: "acqtxn", B: 0, R: 0}, {K: "orphan", L: 1}}, c18Full(1, 0), []c18Ev{{K: "reacqtxn", B: 0, R: 0}, {K: "commit", B: 0, R: 0}})},
		// session loss noticed by getOrCreateSession (Acquire of another resource) before
		// monitorSession: ownership must be cleared there too; B then takes the expired lease
		{Kind: "plain", NB: 2, Res: []string{"x", "z"}, Evs: c18Cat(c18Full(0, 0), []c18Ev{{K: "expirelazy", B: 0, R: 1}, {K: "acqtxn", B: 0, R: 1}, {K: "commit", B: 0, R: 1}}, c18Full(1, 0), c18Full(0, 0))},
		{Kind: "partition", NB: 2, Res: []string{"orders/0", "orders/1"}, Evs: c18Cat(c18Full(0, 0), c18Full(0, 1), one("rellocal", 0, 1), one("reldelete", 0, 1), []c18Ev{{K: "expirelazy", B: 0, R: 1}}, c18Full(1, 0), one("acqtxn", 0, 1), one("commit", 0, 1))},
		// the acquire transaction is applied, then the session is lost (monitorSession runs) /
		// ReleaseAll runs, THEN the manager handles the answer: nothing may be recorded
		{Kind: "plain", NB: 2, Res: []string{"x"}, Evs: c18Cat([]c18Ev{{K: "acqbegin", B: 0, R: 0}, {K: "acqtxn", B: 0, R: 0}, {K: "expire", B: 0}, {K: "commit", B: 0, R: 0}}, c18Full(1, 0), c18Full(0, 0))},
		{Kind: "partition", NB: 2, Res: []string{"orders/0"}, Evs: c18Cat([]c18Ev{{K: "acqbegin", B: 0, R: 0}, {K: "acqtxn", B: 0, R: 0}, {K: "releaseall", B: 0}, {K: "commit", B: 0, R: 0}, {K: "orphan", L: 1}}, c18Full(1, 0), c18Full(0, 0))},
		// the Release request is applied, another broker acquires, then the Release call sees the answer
		{Kind: "group", NB: 2, Res: []string{"g1"}, Evs: c18Cat(c18Full(0, 0), one("rellocal", 0, 0), one("reldelete", 0, 0), c18Full(1, 0), c18Full(0, 0))},
		// lost answers: the acquire transaction / the release delete are applied but the call fails
		{Kind: "plain", NB: 2, Res: []string{"x"}, Evs: c18Cat([]c18Ev{{K: "acqbegin", B: 0, R: 0}, {K: "acqtxnlost", B: 0, R: 0}}, c18Full(1, 0), []c18Ev{{K: "acqbegin", B: 0, R: 0}, {K: "acqtxn", B: 0, R: 0}, {K: "reacqtxnlost", B: 0, R: 0}}, c18Full(0, 0), one("rellocal", 0, 0), one("reldeletelost", 0, 0), c18Full(1, 0))},
		// ReleaseAll: the revoke is applied by etcd but unanswered; another broker acquires meanwhile
		{Kind: "partition", NB: 2, Res: []string{"orders/0", "orders/1"}, Evs: c18Cat(c18Full(0, 0), c18Full(0, 1), one("releaseall", 0, 0), []c18Ev{{K: "orphan", L: 1}}, c18Full(1, 0), c18Full(1, 1), c18Full(0, 0))},
		// graceful shutdown, then a late acquire
		{Kind: "partition", NB: 2, Res: []string{"orders/0", "orders/1"}, Evs: c18Cat(c18Full(0, 0), c18Full(0, 1), one("releaseall", 0, 0), c18Full(1, 0), []c18Ev{{K: "orphan", L: 1}}, c18Full(1, 0), c18Full(0, 0))},
		// restart between the two steps of ReleaseAll: the lease is never revoked, it expires later
		{Kind: "plain", NB: 2, Res: []string{"x"}, Evs: c18Cat(c18Full(0, 0), one("releaseall", 0, 0), one("restart", 0, 0), c18Full(1, 0), c18Full(0, 0), []c18Ev{{K: "orphan", L: 1}}, c18Full(1, 0))},
	}
}

// ---------------------------------------------------------------- Coq emission

func c18CoqEv(cs c18Case, ev c18Ev) string {
	b := cqStr(strconv.Itoa(ev.B + 1))
	r := "[]"
	if ev.R >= 0 && ev.R < len(cs.Res) {
		r = cqStr(cs.Res[ev.R])
	}
	switch ev.K {
	case "acqbegin":
		return fmt.Sprintf("AcqBegin %s %s", b, r)
	case "acqtxn":
		return fmt.Sprintf("AcqTxn %s %s", b, r)
	case "reacqtxn":
		return fmt.Sprintf("ReacqTxn %s %s", b, r)
	case "commit":
		return fmt.Sprintf("AcqCommitLocal %s %s", b, r)
	case "rellocal":
		return fmt.Sprintf("RelLocal %s %s", b, r)
	case "reldelete", "reldeletelost":
		return fmt.Sprintf("RelDelete %s %s", b, r)
	case "acqtxnlost":
		return fmt.Sprintf("AcqTxnLost %s %s", b, r)
	case "reacqtxnlost":
		return fmt.Sprintf("ReacqTxnLost %s %s", b, r)
	case "expire", "expirelazy":
		return fmt.Sprintf("SessionExpire %s", b)
	case "releaseall":
		return fmt.Sprintf("ReleaseAll %s", b)
	case "restart":
		return fmt.Sprintf("Restart %s", b)
	}
	return fmt.Sprintf("OrphanExpire %s", cqZ(int64(ev.L)))
}

func c18Coq(cs c18Case, evs []c18Ev, obs []c18Obs) string {
	brokers := make([]string, cs.NB)
	for i := range brokers {
		brokers[i] = cqStr(strconv.Itoa(i + 1))
	}
	res := make([]string, len(cs.Res))
	for i, r := range cs.Res {
		res[i] = cqStr(r)
	}
	es := make([]string, len(evs))
	for i, ev := range evs {
		es[i] = c18CoqEv(cs, ev)
	}
	os_ := make([]string, len(obs))
	for i, o := range obs {
		rs := "None"
		switch o.res {
		case 0:
			rs = "(Some AOk)"
		case 1:
			rs = "(Some ANotOwner)"
		case 2:
			rs = "(Some AShutdown)"
		case 3:
			rs = "(Some AErr)"
		}
		rows := make([]string, len(o.owns))
		for a, row := range o.owns {
			bs := make([]string, len(row))
			for c, v := range row {
				bs[c] = cqBool(v)
			}
			rows[a] = cqList(bs)
		}
		ks := make([]string, len(o.keys))
		for a, k := range o.keys {
			if k[0] == -1 && k[1] == -1 {
				ks[a] = "None"
			} else {
				ks[a] = fmt.Sprintf("(Some (%s, %s))", cqZ(int64(k[0])), cqZ(int64(k[1])))
			}
		}
		ss := make([]string, len(o.sess))
		for a, v := range o.sess {
			ss[a] = cqBool(v)
		}
		os_[i] = fmt.Sprintf("mkObs %s %s %s %s %s %s", rs, cqList(rows), cqList(ks), cqZ(o.rev), cqList(ss), cqBool(o.skip))
	}
	return fmt.Sprintf("mkCase %s %s %s %s %s", cqStr(c18Prefix(cs.Kind)), cqList(brokers), cqList(res), cqList(es), cqList(os_))
}

func c18Tags(evs []c18Ev, obs []c18Obs) map[string]bool {
	tags := map[string]bool{}
	pendingRel := map[[2]int]bool{}
	for i, ev := range evs {
		tags["ev:"+ev.K] = true
		switch obs[i].res {
		case 0:
			tags["acquire-ok"] = true
		case 1:
			tags["acquire-not-owner"] = true
		case 2:
			tags["acquire-shutdown"] = true
		case 3:
			tags["acquire-error"] = true
		}
		switch ev.K {
		case "rellocal":
			pendingRel[[2]int{ev.B, ev.R}] = true
		case "reldelete", "reldeletelost":
			delete(pendingRel, [2]int{ev.B, ev.R})
		case "acqtxn", "reacqtxn", "expire", "expirelazy":
			isExp := ev.K == "expire" || ev.K == "expirelazy"
			for k := range pendingRel {
				if isExp && k[0] == ev.B || !isExp && k[1] == ev.R {
					tags["interleaved-release"] = true
				}
			}
		}
	}
	return tags
}

func TestVerifC18(t *testing.T) {
	rep := vNewReport("C18", "generated schedules (60%: random merges of 3-10 Acquire / Release / fault scripts plus noise steps, up to ~60 events, over 2-3 brokers and 1-3 resources; 10%: a session loss first noticed by getOrCreateSession through an Acquire of another resource (monitorSession disabled for that session), then the others take the expired leases; 30%: one broker parked between two consecutive steps of an Acquire / reacquire / Release call, after a restart / half Release / expiry pre-state, while the others run complete operations and leases expire; plain, partition and group lease managers) of acquire steps / release halves / session expiry / ReleaseAll / restart / orphan-lease expiry executed on real LeaseManagers against one embedded etcd; non-trivial = a successful acquire plus an etcd step interleaved between the two halves of a Release, or a session expiry / restart; distinct = distinct executed event lists")
	endpoints := testutil.StartEmbeddedEtcd(t)
	root, err := clientv3.New(clientv3.Config{Endpoints: endpoints, DialTimeout: 5 * time.Second, Logger: zap.NewNop()})
	if err != nil {
		t.Fatalf("etcd client: %v", err)
	}
	defer root.Close()
	var coq, jsons []string
	runOne := func(cs c18Case) {
		evs, obs, fail, key := c18Run(t, endpoints, root, cs)
		exec := cs
		exec.Evs = evs
		canon, _ := json.Marshal(exec)
		tags := c18Tags(evs, obs)
		nt := tags["acquire-ok"] && (tags["interleaved-release"] || tags["ev:expire"] || tags["ev:expirelazy"] || tags["ev:restart"])
		rep.Count(string(canon), nt)
		for tg := range tags {
			rep.Hist(tg)
		}
		rep.Hist("kind:" + cs.Kind)
		rep.Hist(fmt.Sprintf("events<=%d", ((len(evs)+9)/10)*10))
		rep.Sample(exec)
		if fail != "" {
			shr := exec
			shr.Evs = vShrink(evs, func(e []c18Ev) bool {
				c := cs
				c.Evs = e
				_, _, f, k := c18Run(t, endpoints, root, c)
				return f != "" && k == key
			})
			_, _, f2, _ := c18Run(t, endpoints, root, shr)
			if f2 == "" {
				shr, f2 = exec, fail
			}
			rep.Fail(key, key, f2, shr)
		}
		coq = append(coq, c18Coq(cs, evs, obs))
		jsons = append(jsons, string(canon))
	}
	if rc := vReplayCase(); rc != nil {
		var cs c18Case
		if err := json.Unmarshal(rc, &cs); err != nil {
			t.Fatalf("bad replay: %v", err)
		}
		runOne(cs)
	} else {
		for _, cs := range c18Corpus() {
			runOne(cs)
		}
		r := vNewRand(vSeed())
		n := vN(300, 3000)
		for i := 0; i < n; i++ {
			if i%10 == 9 {
				runOne(c18GenLazy(r.Fork()))
			} else if i%5 < 2 {
				runOne(c18GenWindow(r.Fork()))
			} else {
				runOne(c18Gen(r.Fork()))
			}
		}
	}
	rep.Cases("C18", "From KS Require Import lib.Base lib.Strings lib.EtcdKV model.Lease corr.LeaseCorr.", "case", "check_case", coq, jsons)
	rep.Write()
	if len(rep.Failures) > 0 {
		t.Logf("oracle failures: %s", strings.TrimSpace(rep.Failures[0].What))
	}
}
