//go:build verif

// Verification hook, overlaid into pkg/metadata by bin/check C19 (never part of the repository):
// lets the cmd/broker harness wait until a manager has noticed the loss of its session.
package metadata

// VerifHasSession reports whether the manager currently holds a session.
func (m *PartitionLeaseManager) VerifHasSession() bool {
	m.lm.mu.RLock()
	defer m.lm.mu.RUnlock()
	return m.lm.session != nil
}
