//go:build verif

// Verification hooks, overlaid into pkg/metadata by bin/check C19 (never part of the repository).
package metadata

import clientv3 "go.etcd.io/etcd/client/v3"

// VerifHasSession reports whether the manager currently holds a session.
func (m *PartitionLeaseManager) VerifHasSession() bool {
	m.lm.mu.RLock()
	defer m.lm.mu.RUnlock()
	return m.lm.session != nil
}

// VerifDetachMonitor makes the monitorSession goroutine of the current session a no-op (the
// manager's session pointer is replaced by a copy of the Session value, so the goroutine finds
// m.session != session) and returns the session's lease id and a function that ends the
// session's keep-alive (Done() closes). The next code to notice the loss is then
// getOrCreateSession, reached through an Acquire of a resource the manager does not own.
func (m *PartitionLeaseManager) VerifDetachMonitor() (clientv3.LeaseID, func(), bool) {
	m.lm.mu.Lock()
	defer m.lm.mu.Unlock()
	if m.lm.session == nil {
		return 0, nil, false
	}
	cp := *m.lm.session
	m.lm.session = &cp
	return cp.Lease(), cp.Orphan, true
}
