package main

// C19 harness: the real broker handler (h.Handle -> handleProduce) with a real
// PartitionLeaseManager on an embedded etcd that it shares with a second broker's
// manager.  A case = a lease pre-state (built with real Acquire / Release / session
// expiry / restart / ReleaseAll calls on both brokers), environment flags (etcd
// availability, S3 health, acks) and a produce request mixing partitions owned by this
// broker, owned by the other broker, owned by nobody, duplicates, an ACL-denied topic and
// undecodable record batches.  Observed: the per-partition response codes, whether the
// storage path was entered for a partition (a PartitionLog exists / S3 objects written),
// Owns() of both managers and the lease keys afterwards.  The implementation-side oracle
// checks the clauses of C19 directly; every case is also emitted for the model/code
// correspondence check (corr/LeaseCorr.v, check_pcase).

import (
	"context"
	"encoding/json"
	"errors"
	"fmt"
	"io"
	"log/slog"
	"strconv"
	"strings"
	"sync"
	"testing"
	"time"

	"github.com/twmb/franz-go/pkg/kmsg"
	clientv3 "go.etcd.io/etcd/client/v3"
	"go.uber.org/zap"

	"github.com/KafScale/platform/internal/testutil"
	"github.com/KafScale/platform/pkg/acl"
	"github.com/KafScale/platform/pkg/metadata"
	"github.com/KafScale/platform/pkg/protocol"
	"github.com/KafScale/platform/pkg/storage"
)

type c19Setup struct {
	K string `json:"k"` // acquire | produce (Acquire through handleProduce) | release | expire | expirelazy (R = partition of the observing call) | drainhold (ReleaseAll with its revoke applied but unanswered until the end of the case) | restart | releaseall | orphan (every lease that is no manager's current session expires)
	B int    `json:"b"` // 0 = the handler's broker ("1"), 1 = the other broker ("2")
	R int    `json:"r"` // index into c19Pool
}

type c19Part struct {
	Part  int32 `json:"part"`
	Valid bool  `json:"valid"` // record batch decodes
}
type c19Topic struct {
	Topic string    `json:"topic"`
	Parts []c19Part `json:"parts"`
}
type c19Case struct {
	Setup     []c19Setup `json:"setup"`
	Leasing   bool       `json:"leasing"`    // handler has a lease manager
	EtcdAvail bool       `json:"etcd_avail"` // metadata store reports etcd available
	S3        string     `json:"s3"`         // healthy | degraded | unavailable
	Acks      int16      `json:"acks"`
	Req       []c19Topic `json:"req"`
	// produce in flight while the lease state changes (the request then names ONE partition):
	// the answer of the handler's successful acquire / reacquire transaction is held back,
	// Mid ("expire" | "releaseall") is applied to the handler's manager, optionally the other
	// broker acquires the partition, the handler goes on; Again = the same request once more
	Mid      string `json:"mid,omitempty"`
	MidOther bool   `json:"mid_other,omitempty"`
	Again    bool   `json:"again,omitempty"`
}

type c19Res struct {
	topic string
	part  int32
}

var c19Pool = []c19Res{{"orders", 0}, {"orders", 1}, {"events", 0}, {"denied", 0}, {"events", 1}}

func (r c19Res) rid() string { return fmt.Sprintf("%s/%d", r.topic, r.part) }

type c19Obs struct {
	haveCodes bool
	codes     [][]int16 // per request topic entry, per partition entry
	entered   [][]bool  // storage path entered for that (topic, partition) at all
	owns      []bool    // handler's manager, per pool resource
	ownsOther []bool
	window    bool     // Mid case: the handler was held in the response window
	midEvs    []string // the window as model events
	code1     int16    // Mid case: code of the first response
	code2     int16    // Mid case with Again: code of the second response
	anyEnter  bool
	holders   []int    // per pool resource: manager whose current incarnation's session lease the key hangs on, or -1
	setupEvs  []string // the executed pre-state as model events
	keys      []int    // per pool resource: -1 absent, else broker index of the stored id (or -2)
}

type c19Store struct {
	metadata.Store
	avail bool
}

func (s c19Store) Available() bool { return s.avail }

type c19World struct {
	t         *testing.T
	endpoints []string
	root      *clientv3.Client
	clients   []*clientv3.Client
	mgrs      [2]*metadata.PartitionLeaseManager
	old       []*metadata.PartitionLeaseManager
	granted   []clientv3.LeaseID
	revoked   []int // lease numbers revoked by the setup op being executed
	kv0       *c19KV
	draining  func() // delivers the held-back revoke answer of a ReleaseAll in progress
}

func (w *c19World) newMgr(b int) *metadata.PartitionLeaseManager {
	cli, err := clientv3.New(clientv3.Config{Endpoints: w.endpoints, DialTimeout: 5 * time.Second, Logger: zap.NewNop()})
	if err != nil {
		w.t.Fatalf("etcd client: %v", err)
	}
	w.clients = append(w.clients, cli)
	// every lease the managers' sessions are granted is recorded so that it can be expired / cleaned up
	cli.Lease = &c19Lease{Lease: cli.Lease, w: w, b: b, arrived: make(chan struct{}, 1), release: make(chan struct{}, 1)}
	if b == 0 {
		w.kv0 = &c19KV{KV: cli.KV, arrived: make(chan struct{}, 1), release: make(chan struct{}, 1)}
		cli.KV = w.kv0
	}
	return metadata.NewPartitionLeaseManager(cli, metadata.PartitionLeaseConfig{
		BrokerID: strconv.Itoa(b + 1), LeaseTTLSeconds: 120, Logger: slog.New(slog.NewTextHandler(io.Discard, nil))})
}

type c19HoldKey struct{}

// c19KV can hold back the answer of a successful transaction (after etcd applied it) of a call
// whose context carries c19HoldKey.
type c19KV struct {
	clientv3.KV
	mu      sync.Mutex
	hold    bool
	arrived chan struct{}
	release chan struct{}
}

func (k *c19KV) Txn(ctx context.Context) clientv3.Txn {
	return &c19Txn{Txn: k.KV.Txn(ctx), kv: k, marked: ctx.Value(c19HoldKey{}) != nil}
}

type c19Txn struct {
	clientv3.Txn
	kv     *c19KV
	marked bool
}

func (t *c19Txn) If(cs ...clientv3.Cmp) clientv3.Txn { t.Txn = t.Txn.If(cs...); return t }
func (t *c19Txn) Then(ops ...clientv3.Op) clientv3.Txn {
	t.Txn = t.Txn.Then(ops...)
	return t
}
func (t *c19Txn) Else(ops ...clientv3.Op) clientv3.Txn {
	t.Txn = t.Txn.Else(ops...)
	return t
}
func (t *c19Txn) Commit() (*clientv3.TxnResponse, error) {
	resp, err := t.Txn.Commit()
	if t.marked && err == nil && resp.Succeeded {
		t.kv.mu.Lock()
		hold := t.kv.hold
		t.kv.hold = false
		t.kv.mu.Unlock()
		if hold {
			t.kv.arrived <- struct{}{}
			<-t.kv.release
		}
	}
	return resp, err
}

type c19Lease struct {
	clientv3.Lease
	w          *c19World
	b          int
	holdRevoke bool
	arrived    chan struct{}
	release    chan struct{}
}

// leases granted through a manager's client and not yet expired by the harness (AcquireAll
// acquires concurrently, so two sessions may be created at once; the manager keeps one and
// closes the other)
var (
	c19Mu      sync.Mutex
	c19Current = map[*c19Lease][]clientv3.LeaseID{}
)

// Revoke can hold back the answer after etcd applied the revocation (ReleaseAll's session.Close
// is then still running while the keys are gone).
func (l *c19Lease) Revoke(ctx context.Context, id clientv3.LeaseID) (*clientv3.LeaseRevokeResponse, error) {
	resp, err := l.Lease.Revoke(ctx, id)
	if l.holdRevoke {
		l.holdRevoke = false
		l.arrived <- struct{}{}
		<-l.release
	}
	return resp, err
}

func (l *c19Lease) Grant(ctx context.Context, ttl int64) (*clientv3.LeaseGrantResponse, error) {
	resp, err := l.Lease.Grant(ctx, ttl)
	if err == nil {
		c19Mu.Lock()
		l.w.granted = append(l.w.granted, resp.ID)
		c19Current[l] = append(c19Current[l], resp.ID)
		c19Mu.Unlock()
	}
	return resp, err
}

func (w *c19World) setup(op c19Setup) {
	if op.B < 0 || op.B > 1 || op.R < 0 || op.R >= len(c19Pool) {
		return
	}
	m := w.mgrs[op.B]
	res := c19Pool[op.R]
	ctx, cancel := context.WithTimeout(context.Background(), 10*time.Second)
	defer cancel()
	switch op.K {
	case "acquire":
		_ = m.Acquire(ctx, res.topic, res.part)
	case "release":
		m.Release(res.topic, res.part)
	case "drainhold":
		// ReleaseAll whose LeaseRevoke is applied by etcd but not yet answered: the following
		// pre-state ops and the main request run inside that window; the answer is delivered
		// at the end of the case. Same model events as releaseall (the map is cleared first).
		l, ok := m.EtcdClient().Lease.(*c19Lease)
		c19Mu.Lock()
		n := 0
		if ok {
			n = len(c19Current[l])
		}
		c19Mu.Unlock()
		if !ok || n == 0 || w.draining != nil {
			op.K = "releaseall"
			w.setup(op)
			return
		}
		c19Mu.Lock()
		for _, id := range c19Current[l] {
			for n, g := range w.granted {
				if g == id {
					w.revoked = append(w.revoked, n+1)
				}
			}
		}
		delete(c19Current, l)
		c19Mu.Unlock()
		// monitorSession (woken by Session.Close ending the keep-alive) must not hide what
		// ReleaseAll itself does
		_, _, _ = m.VerifDetachMonitor()
		l.holdRevoke = true
		done := make(chan struct{})
		go func() { m.ReleaseAll(); close(done) }()
		select {
		case <-l.arrived:
			w.draining = func() { l.release <- struct{}{}; <-done }
		case <-done:
			l.holdRevoke = false
		}
	case "releaseall":
		// both steps of ReleaseAll: the model event ReleaseAll (local part) followed by the
		// expiry of the session lease it revokes (lease number = order of grant)
		if l, ok := m.EtcdClient().Lease.(*c19Lease); ok {
			c19Mu.Lock()
			for _, id := range c19Current[l] {
				for n, g := range w.granted {
					if g == id {
						w.revoked = append(w.revoked, n+1)
					}
				}
			}
			delete(c19Current, l)
			c19Mu.Unlock()
		}
		m.ReleaseAll()
	case "expire":
		// expire the manager's current session: revoke its lease and wait until the manager noticed
		cli := m.EtcdClient()
		l := cli.Lease.(*c19Lease)
		c19Mu.Lock()
		ids := c19Current[l]
		delete(c19Current, l)
		c19Mu.Unlock()
		if len(ids) == 0 {
			return
		}
		for _, id := range ids {
			_, _ = w.root.Revoke(ctx, id)
		}
		// the keep-alive stream learns about the revocation with the next keep-alive; closing the
		// lessor ends it at once (Done() fires, monitorSession clears the ownership map)
		_ = l.Lease.Close()
		for deadline := time.Now().Add(10 * time.Second); m.VerifHasSession() && time.Now().Before(deadline); {
			time.Sleep(200 * time.Microsecond)
		}
		// the lessor is closed: this incarnation cannot open another session, so replace the
		// client's lessor by a fresh one for later sessions
		l.Lease = clientv3.NewLease(cli)
	case "orphan":
		c19Mu.Lock()
		cur := map[clientv3.LeaseID]bool{}
		for _, ids := range c19Current {
			for _, id := range ids {
				cur[id] = true
			}
		}
		var dead []clientv3.LeaseID
		for n, id := range w.granted {
			if !cur[id] {
				dead = append(dead, id)
				w.revoked = append(w.revoked, n+1)
			}
		}
		c19Mu.Unlock()
		for _, id := range dead {
			_, _ = w.root.Revoke(ctx, id)
		}
	case "restart":
		// the process is replaced: the old manager is abandoned (its keep-alive stops, its lease
		// stays in etcd), a new manager with the same broker id takes over
		old := m
		cli := old.EtcdClient()
		if l, ok := cli.Lease.(*c19Lease); ok {
			c19Mu.Lock()
			delete(c19Current, l)
			c19Mu.Unlock()
			_ = l.Lease.Close()
		}
		w.old = append(w.old, old)
		w.mgrs[op.B] = w.newMgr(op.B)
	}
}

func (w *c19World) cleanup() {
	if w.draining != nil {
		w.draining()
		w.draining = nil
	}
	ctx, cancel := context.WithTimeout(context.Background(), 20*time.Second)
	defer cancel()
	for _, id := range w.granted {
		_, _ = w.root.Revoke(ctx, id)
	}
	_, _ = w.root.Delete(ctx, metadata.PartitionLeasePrefix()+"/", clientv3.WithPrefix())
	for _, c := range w.clients {
		if l, ok := c.Lease.(*c19Lease); ok {
			c19Mu.Lock()
			delete(c19Current, l)
			c19Mu.Unlock()
		}
		_ = c.Close()
	}
}

func c19Run(t *testing.T, endpoints []string, root *clientv3.Client, cs c19Case) (c19Obs, string, string) {
	w := &c19World{t: t, endpoints: endpoints, root: root}
	ctx, cancel := context.WithTimeout(context.Background(), 30*time.Second)
	defer cancel()
	_, _ = root.Delete(ctx, metadata.PartitionLeasePrefix()+"/", clientv3.WithPrefix())
	w.mgrs[0], w.mgrs[1] = w.newMgr(0), w.newMgr(1)
	defer w.cleanup()
	brokerInfo := protocol.MetadataBroker{NodeID: 1, Host: "localhost", Port: 19092}
	clusterID := "verif"
	inner := metadata.NewInMemoryStore(metadata.ClusterMetadata{ControllerID: 1, ClusterID: &clusterID, Brokers: []protocol.MetadataBroker{brokerInfo}})
	for _, tp := range []string{"orders", "events", "denied"} {
		if _, err := inner.CreateTopic(ctx, metadata.TopicSpec{Name: tp, NumPartitions: 2, ReplicationFactor: 1}); err != nil {
			t.Fatalf("create topic: %v", err)
		}
	}
	s3 := storage.NewMemoryS3Client()
	h := newHandler(c19Store{Store: inner, avail: cs.EtcdAvail}, s3, brokerInfo, slog.New(slog.NewTextHandler(io.Discard, nil)))
	if cs.Leasing {
		h.leaseManager = w.mgrs[0]
	}
	h.authorizer = acl.NewAuthorizer(acl.Config{Enabled: true, DefaultPolicy: "allow", Principals: []acl.PrincipalRules{
		{Name: "anonymous", Deny: []acl.Rule{{Action: acl.ActionProduce, Resource: acl.ResourceTopic, Name: "denied"}}}}})
	switch cs.S3 {
	case "degraded":
		for i := 0; i < 7; i++ {
			h.s3Health.RecordOperation("upload", time.Millisecond, nil)
		}
		for i := 0; i < 3; i++ {
			h.s3Health.RecordOperation("upload", time.Millisecond, errors.New("verif"))
		}
	case "unavailable":
		for i := 0; i < 10; i++ {
			h.s3Health.RecordOperation("upload", time.Millisecond, errors.New("verif"))
		}
	}

	nextBase := map[string]int64{}
	mkReq := func() *kmsg.ProduceRequest {
	req := kmsg.NewPtrProduceRequest()
	req.Acks = cs.Acks
	req.TimeoutMillis = 1000
	for _, tp := range cs.Req {
		rt := kmsg.NewProduceRequestTopic()
		rt.Topic = tp.Topic
		for _, p := range tp.Parts {
			rp := kmsg.NewProduceRequestTopicPartition()
			rp.Partition = p.Part
			if p.Valid {
				k := fmt.Sprintf("%s/%d", tp.Topic, p.Part)
				rp.Records = testBatchBytes(nextBase[k], 0, 1)
				nextBase[k]++
			} else {
				rp.Records = []byte{1, 2, 3}
			}
			rt.Partitions = append(rt.Partitions, rp)
		}
		req.Topics = append(req.Topics, rt)
	}
	return req
	}
	decode := func(payload []byte) [][]int16 {
		resp := kmsg.NewPtrProduceResponse()
		body, ok := protocol.SkipResponseHeader(resp.Key(), 3, payload)
		if !ok {
			t.Fatalf("produce response header")
		}
		resp.SetVersion(3)
		if err := resp.ReadFrom(body); err != nil {
			t.Fatalf("decode produce response: %v", err)
		}
		var codes [][]int16
		for _, rt := range resp.Topics {
			var row []int16
			for _, rp := range rt.Partitions {
				row = append(row, rp.ErrorCode)
			}
			codes = append(codes, row)
		}
		return codes
	}
	fail, key := "", ""
	setFail := func(k, f string) {
		if fail == "" {
			fail, key = f, k
		}
	}
	hdr := &protocol.RequestHeader{APIKey: 0, APIVersion: 3, CorrelationID: 7}
	// does the handler's broker hold the lease of pool partition idx right now? (Owns, key present
	// with its id on a lease of its current incarnation, no other owner)
	holdsNow := func(idx int) (bool, string) {
		r := c19Pool[idx]
		owns, other := w.mgrs[0].Owns(r.topic, r.part), w.mgrs[1].Owns(r.topic, r.part)
		val, onCurrent := "", false
		gr, gerr := root.Get(ctx, metadata.PartitionLeasePrefix()+"/"+r.rid())
		if gerr != nil {
			t.Fatalf("etcd get: %v", gerr)
		}
		if len(gr.Kvs) > 0 {
			val = string(gr.Kvs[0].Value)
			if l, ok := w.mgrs[0].EtcdClient().Lease.(*c19Lease); ok {
				c19Mu.Lock()
				for _, id := range c19Current[l] {
					if int64(id) == gr.Kvs[0].Lease {
						onCurrent = true
					}
				}
				c19Mu.Unlock()
			}
		}
		return owns && val == "1" && onCurrent && !other,
			fmt.Sprintf("Owns=%v, etcd owner=%q, key on a lease of the current incarnation=%v, other broker Owns=%v", owns, val, onCurrent, other)
	}
	// a produce for one pool partition through the handler, as part of the pre-state
	produceOne := func(idx int) int16 {
		r := c19Pool[idx]
		req := kmsg.NewPtrProduceRequest()
		req.Acks = -1
		req.TimeoutMillis = 1000
		rt := kmsg.NewProduceRequestTopic()
		rt.Topic = r.topic
		rp := kmsg.NewProduceRequestTopicPartition()
		rp.Partition = r.part
		rp.Records = testBatchBytes(nextBase[r.rid()], 0, 1)
		nextBase[r.rid()]++
		rt.Partitions = append(rt.Partitions, rp)
		req.Topics = append(req.Topics, rt)
		payload, perr := h.Handle(ctx, hdr, req)
		if perr != nil {
			t.Fatalf("Handle(produce): %v", perr)
		}
		code := decode(payload)[0][0]
		if held, desc := holdsNow(idx); cs.Leasing && code == 0 && !held {
			setFail("success-without-lease", fmt.Sprintf("pre-state produce to %s: code 0 but this broker does not hold the lease (%s)", r.rid(), desc))
		}
		return code
	}
	var setupEvs []string
	for _, op := range cs.Setup {
		if op.B < 0 || op.B > 1 || op.R < 0 || op.R >= len(c19Pool) {
			continue
		}
		w.revoked = nil
		r := c19Pool[op.R]
		switch {
		case op.K == "produce" && op.B == 0:
			// Acquire reached through handleProduce (same model events as a direct Acquire)
			produceOne(op.R)
			if cs.Leasing {
				setupEvs = append(setupEvs, c19CoqSetup(c19Setup{K: "acquire", B: 0, R: op.R})...)
			}
		case op.K == "produce":
			op.K = "acquire"
			w.setup(op)
			setupEvs = append(setupEvs, c19CoqSetup(op)...)
		case op.K == "expirelazy" && w.mgrs[op.B].VerifHasSession() && !w.mgrs[op.B].Owns(r.topic, r.part):
			// session loss first noticed by getOrCreateSession: monitorSession is disabled for the
			// session, the lease is revoked, the keep-alive ends, and the manager's next call is
			// an Acquire of a partition it does not own -- through handleProduce for the handler
			m := w.mgrs[op.B]
			id, orphan, _ := m.VerifDetachMonitor()
			if l, ok := m.EtcdClient().Lease.(*c19Lease); ok {
				c19Mu.Lock()
				delete(c19Current, l)
				c19Mu.Unlock()
			}
			_, _ = root.Revoke(ctx, id)
			orphan()
			if op.B == 0 && cs.Leasing {
				produceOne(op.R)
			} else {
				_ = m.Acquire(ctx, r.topic, r.part)
			}
			setupEvs = append(setupEvs, "SessionExpire "+cqStr(strconv.Itoa(op.B+1)))
			setupEvs = append(setupEvs, c19CoqSetup(c19Setup{K: "acquire", B: op.B, R: op.R})...)
		case op.K == "expirelazy":
			op.K = "expire"
			fallthrough
		default:
			w.setup(op)
			if op.K == "restart" && op.B == 0 && cs.Leasing {
				h.leaseManager = w.mgrs[0] // the restarted broker serves with its new manager
			}
			setupEvs = append(setupEvs, c19CoqSetup(op)...)
		}
		for _, n := range w.revoked {
			setupEvs = append(setupEvs, "OrphanExpire "+cqZ(int64(n)))
		}
	}
	// the main request starts from fresh PartitionLogs (restored from S3 on demand), so that
	// entering the storage path is observable as the creation of a log
	h.logMu.Lock()
	h.logs = make(map[string]map[int32]*storage.PartitionLog)
	h.logMu.Unlock()
	writtenBefore := map[string]int{}
	if objs, lerr := s3.ListSegments(ctx, ""); lerr == nil {
		for _, ob := range objs {
			parts := strings.Split(ob.Key, "/")
			if len(parts) >= 4 {
				writtenBefore[parts[len(parts)-3]+"/"+parts[len(parts)-2]]++
			}
		}
	}
	ownedBefore := map[string]bool{} // by the other broker
	for _, r := range c19Pool {
		ownedBefore[r.rid()] = w.mgrs[1].Owns(r.topic, r.part)
	}
	var o c19Obs
	o.setupEvs = setupEvs
	var payload []byte
	var err error
	midIdx := -1
	if cs.Mid != "" && len(cs.Req) == 1 && len(cs.Req[0].Parts) == 1 {
		for i, r := range c19Pool {
			if r.topic == cs.Req[0].Topic && r.part == cs.Req[0].Parts[0].Part {
				midIdx = i
			}
		}
	}
	if midIdx >= 0 && cs.Leasing {
		// the produce runs while the lease state changes under it
		w.kv0.mu.Lock()
		w.kv0.hold = true
		w.kv0.mu.Unlock()
		done := make(chan struct{})
		go func() {
			payload, err = h.Handle(context.WithValue(ctx, c19HoldKey{}, true), hdr, mkReq())
			close(done)
		}()
		select {
		case <-w.kv0.arrived:
			o.window = true
			ops := []c19Setup{{K: cs.Mid, B: 0, R: midIdx}}
			if cs.MidOther {
				ops = append(ops, c19Setup{K: "acquire", B: 1, R: midIdx})
			}
			for _, op := range ops {
				w.revoked = nil
				w.setup(op)
				o.midEvs = append(o.midEvs, c19CoqSetup(op)...)
				for _, n := range w.revoked {
					o.midEvs = append(o.midEvs, "OrphanExpire "+cqZ(int64(n)))
				}
			}
			w.kv0.release <- struct{}{}
			<-done
		case <-done:
		}
		w.kv0.mu.Lock()
		w.kv0.hold = false
		w.kv0.mu.Unlock()
		if err != nil {
			t.Fatalf("Handle(produce): %v", err)
		}
		if o.window {
			// oracle on the in-flight produce: success only while holding the lease
			r := c19Pool[midIdx]
			first := decode(payload)
			o.code1 = first[0][0]
			owner, _ := w.mgrs[1].CurrentOwner(ctx, r.topic, r.part)
			h.logMu.RLock()
			_, entered := h.logs[r.topic][r.part]
			h.logMu.RUnlock()
			o.anyEnter = entered
			held := w.mgrs[0].Owns(r.topic, r.part) && owner == "1" && !w.mgrs[1].Owns(r.topic, r.part)
			if o.code1 == 0 && !held {
				setFail("success-without-lease", fmt.Sprintf("produce to %s in flight while the manager's session was lost / ReleaseAll ran (%s, other broker acquires=%v): code 0 but this broker does not hold the lease (Owns=%v, etcd owner=%q, other broker Owns=%v)", r.rid(), cs.Mid, cs.MidOther, w.mgrs[0].Owns(r.topic, r.part), owner, w.mgrs[1].Owns(r.topic, r.part)))
			}
			if !held && entered {
				setFail("write-without-lease", fmt.Sprintf("produce to %s in flight while the lease was lost (%s): the storage path was entered", r.rid(), cs.Mid))
			}
			if cs.Again {
				for _, rr := range c19Pool {
					ownedBefore[rr.rid()] = w.mgrs[1].Owns(rr.topic, rr.part)
				}
				payload, err = h.Handle(ctx, hdr, mkReq())
				if err != nil {
					t.Fatalf("Handle(produce): %v", err)
				}
			}
		}
	} else {
		payload, err = h.Handle(ctx, hdr, mkReq())
		if err != nil {
			t.Fatalf("Handle(produce): %v", err)
		}
	}
	if payload != nil {
		o.haveCodes = true
		o.codes = decode(payload)
		if o.window && cs.Again {
			o.code2 = o.codes[0][0]
		}
	}
	objs, _ := s3.ListSegments(ctx, "")
	written := map[string]int{}
	for _, ob := range objs {
		// <namespace>/<topic>/<partition>/segment-...
		parts := strings.Split(ob.Key, "/")
		if len(parts) >= 4 {
			written[parts[len(parts)-3]+"/"+parts[len(parts)-2]]++
		}
	}
	h.logMu.RLock()
	for _, tp := range cs.Req {
		var row []bool
		for _, p := range tp.Parts {
			_, ok := h.logs[tp.Topic][p.Part]
			k := fmt.Sprintf("%s/%d", tp.Topic, p.Part)
			row = append(row, ok || written[k] > writtenBefore[k])
		}
		o.entered = append(o.entered, row)
	}
	h.logMu.RUnlock()
	kctx, kcancel := context.WithTimeout(context.Background(), 10*time.Second)
	defer kcancel()
	for _, r := range c19Pool {
		o.owns = append(o.owns, w.mgrs[0].Owns(r.topic, r.part))
		o.ownsOther = append(o.ownsOther, w.mgrs[1].Owns(r.topic, r.part))
		owner, err := w.mgrs[1].CurrentOwner(kctx, r.topic, r.part)
		if err != nil {
			t.Fatalf("CurrentOwner: %v", err)
		}
		holder := -1
		if gr, err := root.Get(kctx, metadata.PartitionLeasePrefix()+"/"+r.rid()); err != nil {
			t.Fatalf("etcd get: %v", err)
		} else if len(gr.Kvs) > 0 {
			c19Mu.Lock()
			for i := 0; i < 2; i++ {
				if l, ok := w.mgrs[i].EtcdClient().Lease.(*c19Lease); ok {
					for _, id := range c19Current[l] {
						if int64(id) == gr.Kvs[0].Lease {
							holder = i
						}
					}
				}
			}
			c19Mu.Unlock()
		}
		o.holders = append(o.holders, holder)
		switch owner {
		case "":
			o.keys = append(o.keys, -1)
		case "1":
			o.keys = append(o.keys, 0)
		case "2":
			o.keys = append(o.keys, 1)
		default:
			o.keys = append(o.keys, -2)
		}
	}

	// ---- implementation-side oracle: the clauses of C19, on what the real code did
	poolIdx := func(topic string, part int32) int {
		for i, r := range c19Pool {
			if r.topic == topic && r.part == part {
				return i
			}
		}
		return -1
	}
	if cs.Leasing {
		if o.haveCodes && len(o.codes) != len(cs.Req) {
			setFail("response-shape", fmt.Sprintf("%d topic responses for %d topic entries", len(o.codes), len(cs.Req)))
		}
		for i, tp := range cs.Req {
			for j, p := range tp.Parts {
				idx := poolIdx(tp.Topic, p.Part)
				if idx < 0 {
					continue
				}
				// holding the lease = Owns, key present with own id on a live lease of the current session, no other owner
				holds := o.owns[idx] && o.keys[idx] == 0 && o.holders[idx] == 0 && !o.ownsOther[idx]
				what := fmt.Sprintf("topic entry %d partition entry %d (%s/%d)", i, j, tp.Topic, p.Part)
				if o.haveCodes && fail == "" {
					if j >= len(o.codes[i]) {
						setFail("response-shape", what+": no partition response")
						continue
					}
					code := o.codes[i][j]
					// success only if this broker held the lease
					if code == 0 && !holds {
						setFail("success-without-lease", fmt.Sprintf("%s: code 0 but this broker does not hold the lease (Owns=%v, etcd owner index=%d, key on current session of broker index=%d, other broker Owns=%v)", what, o.owns[idx], o.keys[idx], o.holders[idx], o.ownsOther[idx]))
					}
					// another owner -> NOT_LEADER_OR_FOLLOWER (when the request gets as far as the lease check)
					if ownedBefore[c19Pool[idx].rid()] && tp.Topic != "denied" && cs.EtcdAvail && code != protocol.NOT_LEADER_OR_FOLLOWER {
						setFail("foreign-owner-wrong-code", fmt.Sprintf("%s: the other broker owns the lease but the code is %d", what, code))
					}
					// no lease -> NOT_LEADER_OR_FOLLOWER or a retriable error
					if !holds && tp.Topic != "denied" && code != protocol.NOT_LEADER_OR_FOLLOWER && code != protocol.REQUEST_TIMED_OUT {
						setFail("no-lease-wrong-code", fmt.Sprintf("%s: lease not held but the code is %d", what, code))
					}
				}
				// ... and nothing is written
				if !holds && o.entered[i][j] {
					setFail("write-without-lease", fmt.Sprintf("%s: lease not held but the storage path was entered / segments were written", what))
				}
			}
		}
	}
	return o, fail, key
}

// ---------------------------------------------------------------- generator

func c19Gen(r *vRand) c19Case {
	cs := c19Case{Leasing: !r.Chance(6), EtcdAvail: !r.Chance(10), S3: "healthy", Acks: -1}
	switch r.Intn(12) {
	case 0:
		cs.S3 = "degraded"
	case 1:
		cs.S3 = "unavailable"
	}
	switch r.Intn(8) {
	case 0:
		cs.Acks = 0
	case 1:
		cs.Acks = 1
	}
	ns := r.Range(0, 7)
	if r.Chance(70) {
		ns = r.Range(3, 7)
	}
	for i := 0; i < ns; i++ {
		op := c19Setup{B: r.Intn(2), R: r.Intn(len(c19Pool))}
		switch x := r.Intn(100); {
		case x < 70:
			op.K = "acquire"
			if op.B == 0 && cs.Acks != 0 && r.Bool() {
				op.K = "produce" // the Acquire is reached through handleProduce
			}
		case x < 80:
			op.K = "release"
		case x < 85:
			op.K = "expire"
		case x < 88:
			op.K = "expirelazy"
		case x < 93:
			op.K = "restart"
		case x < 97:
			op.K = "orphan"
		default:
			op.K = "releaseall"
		}
		cs.Setup = append(cs.Setup, op)
	}
	var must *c19Res
	if cs.Acks != 0 && r.Chance(10) {
		// graceful shutdown in progress: the handler's broker owns p, ReleaseAll's revoke is applied
		// but unanswered, the other broker takes p, and a produce for p arrives at the draining broker
		p := r.Intn(3)
		cs.Setup = append(cs.Setup, c19Setup{K: "produce", B: 0, R: p}, c19Setup{K: "drainhold", B: 0})
		if r.Chance(80) {
			cs.Setup = append(cs.Setup, c19Setup{K: "acquire", B: 1, R: p})
		}
		must = &c19Pool[p]
	} else if cs.Acks != 0 && r.Chance(15) {
		// lazy session loss: the handler's broker owns p (produce ok), loses its session, and the
		// first code to notice is getOrCreateSession, reached by a produce for ANOTHER partition q;
		// the other broker takes p over; then a produce for p arrives at the stale broker
		p := r.Intn(3)
		q := (p + 1 + r.Intn(2)) % 3
		cs.Setup = append(cs.Setup, c19Setup{K: "produce", B: 0, R: p}, c19Setup{K: "expirelazy", B: 0, R: q})
		if r.Chance(30) {
			cs.Setup = append(cs.Setup, c19Setup{K: "orphan"})
		}
		if r.Chance(85) {
			cs.Setup = append(cs.Setup, c19Setup{K: "acquire", B: 1, R: p})
		}
		must = &c19Pool[p]
	} else if r.Chance(20) {
		// restart (or session loss) -> the new incarnation takes its key over -> the OLD lease
		// expires -> the other broker tries -> produce on this broker
		b, res := r.Intn(2), r.Intn(3)
		loss := "restart"
		if r.Chance(30) {
			loss = "expire"
		}
		cs.Setup = append(cs.Setup, c19Setup{K: "acquire", B: b, R: res}, c19Setup{K: loss, B: b, R: res}, c19Setup{K: "acquire", B: b, R: res})
		if r.Chance(80) {
			cs.Setup = append(cs.Setup, c19Setup{K: "orphan"})
		}
		if r.Chance(80) {
			cs.Setup = append(cs.Setup, c19Setup{K: "acquire", B: 1 - b, R: res})
		}
		must = &c19Pool[res]
	}
	nt := r.Range(1, 3)
	for i := 0; i < nt; i++ {
		res := c19Pool[r.Intn(len(c19Pool))]
		if must != nil && i == 0 {
			res = *must
		}
		if res.topic == "denied" && r.Chance(60) {
			res = c19Pool[r.Intn(3)]
		}
		tp := c19Topic{Topic: res.topic}
		np := r.Range(1, 3)
		for j := 0; j < np; j++ {
			p := c19Part{Part: int32(r.Intn(2)), Valid: !r.Chance(12)}
			if j == 0 {
				p.Part = res.part
			}
			tp.Parts = append(tp.Parts, p)
		}
		cs.Req = append(cs.Req, tp)
	}
	return cs
}

func c19Corpus() []c19Case {
	ok := func(parts ...int32) []c19Part {
		var out []c19Part
		for _, p := range parts {
			out = append(out, c19Part{Part: p, Valid: true})
		}
		return out
	}
	return []c19Case{
		// owned / foreign / unowned partitions and a duplicate in one request
		{Leasing: true, EtcdAvail: true, S3: "healthy", Acks: -1,
			Setup: []c19Setup{{K: "acquire", B: 0, R: 0}, {K: "acquire", B: 1, R: 1}},
			Req:   []c19Topic{{Topic: "orders", Parts: ok(0, 1, 0)}, {Topic: "events", Parts: ok(0)}}},
		// shutting down
		{Leasing: true, EtcdAvail: true, S3: "healthy", Acks: -1,
			Setup: []c19Setup{{K: "acquire", B: 0, R: 0}, {K: "releaseall", B: 0}},
			Req:   []c19Topic{{Topic: "orders", Parts: ok(0)}}},
		// the key left behind by this broker's previous incarnation is taken over
		{Leasing: true, EtcdAvail: true, S3: "healthy", Acks: -1,
			Setup: []c19Setup{{K: "acquire", B: 0, R: 2}, {K: "restart", B: 0}},
			Req:   []c19Topic{{Topic: "events", Parts: ok(0)}}},
		// ... and after the previous incarnation's lease expired the key must still be there
		// (re-put under the new session), so the other broker is refused and this one may append
		{Leasing: true, EtcdAvail: true, S3: "healthy", Acks: -1,
			Setup: []c19Setup{{K: "acquire", B: 0, R: 0}, {K: "restart", B: 0}, {K: "acquire", B: 0, R: 0}, {K: "orphan"}, {K: "acquire", B: 1, R: 0}},
			Req:   []c19Topic{{Topic: "orders", Parts: ok(0)}}},
		// draining broker: revoke applied but unanswered, the other broker acquires, produce arrives
		{Leasing: true, EtcdAvail: true, S3: "healthy", Acks: -1,
			Setup: []c19Setup{{K: "produce", B: 0, R: 0}, {K: "drainhold", B: 0}, {K: "acquire", B: 1, R: 0}},
			Req:   []c19Topic{{Topic: "orders", Parts: ok(0)}}},
		// lazy session loss noticed by a produce for another partition; the other broker takes the
		// stale partition over; a produce for it must be refused
		{Leasing: true, EtcdAvail: true, S3: "healthy", Acks: -1,
			Setup: []c19Setup{{K: "produce", B: 0, R: 0}, {K: "expirelazy", B: 0, R: 2}, {K: "acquire", B: 1, R: 0}},
			Req:   []c19Topic{{Topic: "orders", Parts: ok(0)}, {Topic: "events", Parts: ok(0)}}},
		// the other broker's session expired: its partitions can be taken
		{Leasing: true, EtcdAvail: true, S3: "healthy", Acks: 1,
			Setup: []c19Setup{{K: "acquire", B: 1, R: 0}, {K: "acquire", B: 1, R: 2}, {K: "expire", B: 1}},
			Req:   []c19Topic{{Topic: "orders", Parts: ok(0)}, {Topic: "events", Parts: ok(0)}}},
		// etcd unavailable, denied topic, acks=0, no leasing
		{Leasing: true, EtcdAvail: false, S3: "healthy", Acks: -1, Setup: []c19Setup{{K: "acquire", B: 1, R: 0}},
			Req: []c19Topic{{Topic: "orders", Parts: ok(0, 1)}}},
		{Leasing: true, EtcdAvail: true, S3: "healthy", Acks: -1, Setup: []c19Setup{{K: "acquire", B: 1, R: 3}},
			Req: []c19Topic{{Topic: "denied", Parts: ok(0, 1)}, {Topic: "orders", Parts: ok(1)}}},
		{Leasing: true, EtcdAvail: true, S3: "healthy", Acks: 0, Setup: []c19Setup{{K: "acquire", B: 1, R: 0}},
			Req: []c19Topic{{Topic: "orders", Parts: ok(0, 1)}}},
		// produce in flight: the acquire transaction is applied, then the session is lost / the
		// broker is shut down, the other broker takes the lease, then the handler sees the answer
		{Leasing: true, EtcdAvail: true, S3: "healthy", Acks: -1, Mid: "expire", MidOther: true, Again: true,
			Req: []c19Topic{{Topic: "orders", Parts: ok(0)}}},
		{Leasing: true, EtcdAvail: true, S3: "healthy", Acks: -1, Mid: "releaseall", MidOther: true, Again: true,
			Setup: []c19Setup{{K: "acquire", B: 0, R: 2}}, Req: []c19Topic{{Topic: "orders", Parts: ok(1)}}},
		{Leasing: true, EtcdAvail: true, S3: "healthy", Acks: -1, Mid: "expire", MidOther: false, Again: true,
			Setup: []c19Setup{{K: "acquire", B: 0, R: 0}, {K: "restart", B: 0}}, Req: []c19Topic{{Topic: "orders", Parts: ok(0)}}},
		{Leasing: false, EtcdAvail: true, S3: "healthy", Acks: -1, Setup: []c19Setup{{K: "acquire", B: 1, R: 0}},
			Req: []c19Topic{{Topic: "orders", Parts: ok(0, 1)}}},
	}
}

// ---------------------------------------------------------------- Coq emission

func c19CoqSetup(op c19Setup) []string {
	b := cqStr(strconv.Itoa(op.B + 1))
	r := "[]"
	if op.R >= 0 && op.R < len(c19Pool) {
		r = cqStr(c19Pool[op.R].rid())
	}
	switch op.K {
	case "acquire":
		return []string{"AcqBegin " + b + " " + r, "AcqTxn " + b + " " + r, "ReacqTxn " + b + " " + r, "AcqCommitLocal " + b + " " + r}
	case "release":
		return []string{"RelLocal " + b + " " + r, "RelDelete " + b + " " + r}
	case "expire":
		return []string{"SessionExpire " + b}
	case "restart":
		return []string{"Restart " + b}
	case "releaseall", "drainhold":
		return []string{"ReleaseAll " + b}
	case "orphan":
		return []string{} // the OrphanExpire events are appended from w.revoked
	}
	return nil
}

func c19Coq(cs c19Case, o c19Obs) string {
	evs := o.setupEvs
	bp := int64(-1)
	if cs.S3 == "degraded" {
		bp = 7
	}
	env := fmt.Sprintf("(mkPEnv %s %s %s %s)", cqBool(cs.Leasing), cqBool(cs.EtcdAvail), cqBool(cs.S3 == "healthy"), cqZ(bp))
	var req []string
	for _, tp := range cs.Req {
		var ps []string
		for _, p := range tp.Parts {
			down := int64(0)
			if !p.Valid {
				down = -1
			}
			ps = append(ps, fmt.Sprintf("mkPItem %s %s", cqZ(int64(p.Part)), cqZ(down)))
		}
		req = append(req, fmt.Sprintf("mkTItem %s %s %s", cqStr(tp.Topic), cqBool(tp.Topic != "denied"), cqList(ps)))
	}
	var codes, entered []string
	for _, row := range o.codes {
		var cr []string
		for _, c := range row {
			cr = append(cr, cqZ(int64(c)))
		}
		codes = append(codes, cqList(cr))
	}
	for _, row := range o.entered {
		var er []string
		for _, e := range row {
			er = append(er, cqBool(e))
		}
		entered = append(entered, cqList(er))
	}
	pool := make([]string, len(c19Pool))
	owns := make([]string, len(c19Pool))
	ownsOther := make([]string, len(c19Pool))
	keys := make([]string, len(c19Pool))
	holders := make([]string, len(c19Pool))
	for i, r := range c19Pool {
		pool[i] = cqStr(r.rid())
		owns[i] = cqBool(o.owns[i])
		ownsOther[i] = cqBool(o.ownsOther[i])
		keys[i] = cqZ(int64(o.keys[i]))
		holders[i] = cqZ(int64(o.holders[i]))
	}
	return fmt.Sprintf("mkPCase %s %s %s %s %s %s %s %s %s %s %s", cqList(evs), env, cqList(req), cqList(pool),
		cqBool(o.haveCodes), cqList(codes), cqList(entered), cqList(owns), cqList(ownsOther), cqList(keys), cqList(holders))
}

func c19CoqMid(cs c19Case, o c19Obs) string {
	bp := int64(-1)
	if cs.S3 == "degraded" {
		bp = 7
	}
	env := fmt.Sprintf("(mkPEnv %s %s %s %s)", cqBool(cs.Leasing), cqBool(cs.EtcdAvail), cqBool(cs.S3 == "healthy"), cqZ(bp))
	n := len(c19Pool)
	pool, owns, ownsOther, keys, holders := make([]string, n), make([]string, n), make([]string, n), make([]string, n), make([]string, n)
	for i, r := range c19Pool {
		pool[i] = cqStr(r.rid())
		owns[i] = cqBool(o.owns[i])
		ownsOther[i] = cqBool(o.ownsOther[i])
		keys[i] = cqZ(int64(o.keys[i]))
		holders[i] = cqZ(int64(o.holders[i]))
	}
	return fmt.Sprintf("mkMCase %s %s %s %s %s %s %s %s %s %s %s %s %s %s", cqList(o.setupEvs), env, cqStr(cs.Req[0].Topic),
		cqZ(int64(cs.Req[0].Parts[0].Part)), cqList(o.midEvs), cqBool(cs.Again), cqList(pool), cqZ(int64(o.code1)), cqZ(int64(o.code2)),
		cqBool(o.entered[0][0] || o.anyEnter), cqList(owns), cqList(ownsOther), cqList(keys), cqList(holders))
}

// c19GenMid: one partition that needs an Acquire, the produce held in the response window of
// its acquire / reacquire transaction while the manager loses its session or is shut down.
func c19GenMid(r *vRand) c19Case {
	cs := c19Case{Leasing: true, EtcdAvail: true, S3: "healthy", Acks: -1, Mid: "expire", MidOther: r.Chance(70), Again: r.Chance(70)}
	if r.Chance(45) {
		cs.Mid = "releaseall"
	}
	res := r.Intn(3)
	for n := r.Range(0, 3); n > 0; n-- {
		op := c19Setup{K: "acquire", B: r.Intn(2), R: r.Intn(3)}
		if op.B == 0 && op.R == res {
			op.R = (res + 1) % 3 // the handler must not own the partition yet; it may hold a session
		}
		cs.Setup = append(cs.Setup, op)
	}
	switch r.Intn(5) {
	case 0: // the key of the handler's previous incarnation is still there: reacquire path
		cs.Setup = append(cs.Setup, c19Setup{K: "acquire", B: 0, R: res}, c19Setup{K: "restart", B: 0})
	case 1: // the other broker held it and lost its session
		cs.Setup = append(cs.Setup, c19Setup{K: "acquire", B: 1, R: res}, c19Setup{K: "expire", B: 1})
	}
	cs.Req = []c19Topic{{Topic: c19Pool[res].topic, Parts: []c19Part{{Part: c19Pool[res].part, Valid: true}}}}
	return cs
}

func TestVerifC19(t *testing.T) {
	rep := vNewReport("C19", "generated produce requests (1-3 topic entries x 1-3 partition entries incl. duplicates, an ACL-denied topic, undecodable batches; acks -1/1/0) sent through the real handler whose PartitionLeaseManager shares an embedded etcd with a second broker, after a generated lease pre-state (0-7 acquire (directly or through handleProduce) / release / expire (noticed by monitorSession or, lazily, by getOrCreateSession through a produce for another partition) / restart / ReleaseAll / orphan-lease-expiry steps on both brokers); non-trivial = the request names at least one partition this broker ends up owning and at least one it does not; distinct = distinct cases")
	endpoints := testutil.StartEmbeddedEtcd(t)
	root, err := clientv3.New(clientv3.Config{Endpoints: endpoints, DialTimeout: 5 * time.Second, Logger: zap.NewNop()})
	if err != nil {
		t.Fatalf("etcd client: %v", err)
	}
	defer root.Close()
	var coq, jsons, coqMid, jsonsMid []string
	runOne := func(cs c19Case) {
		o, fail, key := c19Run(t, endpoints, root, cs)
		canon, _ := json.Marshal(cs)
		own, foreign := false, false
		codesSeen := map[int16]bool{}
		for i, tp := range cs.Req {
			for j, p := range tp.Parts {
				for idx, r := range c19Pool {
					if r.topic == tp.Topic && r.part == p.Part {
						if o.owns[idx] {
							own = true
						} else {
							foreign = true
						}
					}
				}
				if o.haveCodes && i < len(o.codes) && j < len(o.codes[i]) {
					codesSeen[o.codes[i][j]] = true
				}
			}
		}
		rep.Count(string(canon), cs.Leasing && own && foreign)
		for c := range codesSeen {
			rep.Hist(fmt.Sprintf("code:%d", c))
		}
		rep.Hist("s3:" + cs.S3)
		rep.Hist(fmt.Sprintf("acks:%d", cs.Acks))
		if !cs.EtcdAvail {
			rep.Hist("etcd-unavailable")
		}
		if !cs.Leasing {
			rep.Hist("no-leasing")
		}
		for _, op := range cs.Setup {
			rep.Hist("setup:" + op.K)
		}
		rep.Sample(cs)
		if fail != "" {
			shr := cs
			shr.Setup = vShrink(cs.Setup, func(s []c19Setup) bool {
				c := cs
				c.Setup = s
				_, f, k := c19Run(t, endpoints, root, c)
				return f != "" && k == key
			})
			shr.Req = vShrink(shr.Req, func(q []c19Topic) bool {
				if len(q) == 0 {
					return false
				}
				c := shr
				c.Req = q
				_, f, k := c19Run(t, endpoints, root, c)
				return f != "" && k == key
			})
			_, f2, _ := c19Run(t, endpoints, root, shr)
			if f2 == "" {
				shr, f2 = cs, fail
			}
			rep.Fail(key, key, f2, shr)
		}
		if o.window {
			rep.Hist("mid:" + cs.Mid)
			coqMid = append(coqMid, c19CoqMid(cs, o))
			jsonsMid = append(jsonsMid, string(canon))
		} else {
			coq = append(coq, c19Coq(cs, o))
			jsons = append(jsons, string(canon))
		}
	}
	if rc := vReplayCase(); rc != nil {
		var cs c19Case
		if err := json.Unmarshal(rc, &cs); err != nil {
			t.Fatalf("bad replay: %v", err)
		}
		runOne(cs)
	} else {
		for _, cs := range c19Corpus() {
			runOne(cs)
		}
		r := vNewRand(vSeed())
		n := vN(250, 2500)
		for i := 0; i < n; i++ {
			if i%5 == 4 {
				runOne(c19GenMid(r.Fork()))
			} else {
				runOne(c19Gen(r.Fork()))
			}
		}
	}
	rep.Cases("C19", "From KS Require Import lib.Base lib.Strings lib.EtcdKV model.Lease corr.LeaseCorr.", "pcase", "check_pcase", coq, jsons)
	rep.Cases("C19mid", "From KS Require Import lib.Base lib.Strings lib.EtcdKV model.Lease corr.LeaseCorr.", "mcase", "check_mcase", coqMid, jsonsMid)
	rep.Write()
	if len(rep.Failures) > 0 {
		t.Logf("oracle failures: %s", strings.TrimSpace(rep.Failures[0].What))
	}
}
