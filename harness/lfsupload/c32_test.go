package main

// C32 harness: drives the real LFS HTTP handlers (handleHTTPProduce, handleHTTPUploadInit,
// handleHTTPUploadSession -> Part / Complete / Abort) through httptest with
//   * an S3 fake that keeps multipart uploads and, on CompleteMultipartUpload, stores the
//     concatenation of exactly the listed parts (ascending part numbers, matching ETags,
//     else an error) and can fail any call on request, and
//   * a fake broker (TCP listener) that answers the produce request with a chosen
//     per-partition error code, closes the connection, sends garbage or names no partition.
// Implementation-side oracle = the clauses of C32 on every 200 response that carries an
// envelope.  Every case (event list + observed responses + final objects) is emitted as a
// Coq term for corr/UploadCorr.v.  Bodies are chunks (id, size): 16 header bytes (id, size)
// followed by pseudo-random bytes derived from the id, so stored objects can be read back
// as chunk lists.

import (
	"bytes"
	"context"
	"crypto/md5"
	"crypto/sha256"
	"encoding/base64"
	"encoding/binary"
	"encoding/hex"
	"encoding/json"
	"errors"
	"fmt"
	"hash/crc32"
	"io"
	"log/slog"
	"net"
	"net/http"
	"net/http/httptest"
	"sort"
	"strings"
	"sync"
	"sync/atomic"
	"testing"
	"time"

	"github.com/KafScale/platform/pkg/lfs"
	"github.com/KafScale/platform/pkg/protocol"
	"github.com/aws/aws-sdk-go-v2/aws"
	"github.com/aws/aws-sdk-go-v2/service/s3"
	"github.com/aws/smithy-go"
	"github.com/twmb/franz-go/pkg/kmsg"
)

const c32MiB = 1 << 20

type c32Chunk struct {
	ID  int64 `json:"id"`
	Len int   `json:"len"`
}
type c32Listed struct {
	N    int32  `json:"n"`
	Etag string `json:"etag"` // "ok" = the ETag returned for that part, anything else literal
}
type c32Csum struct {
	Kind  string     `json:"kind"` // "", "blob" (digest of Blob under the effective algorithm), "bad"
	Blob  []c32Chunk `json:"blob,omitempty"`
	Upper bool       `json:"upper,omitempty"`
}
type c32Ev struct {
	Kind   string      `json:"kind"` // produce | init | part | complete | abort
	Pieces []c32Chunk  `json:"pieces,omitempty"`
	Csum   c32Csum     `json:"csum"`
	Alg    string      `json:"alg,omitempty"`
	Faults []bool      `json:"faults,omitempty"` // S3 calls of this request that fail, in call order
	Reply  string      `json:"reply,omitempty"`  // "code:N" | transport | garbage | nopartition | nobackend
	Size   int64       `json:"size,omitempty"`
	N      int32       `json:"n,omitempty"`
	Body   c32Chunk    `json:"body"`
	Listed []c32Listed `json:"listed,omitempty"`
	// Overlap: this session request is held inside its first S3 call (UploadPart /
	// CompleteMultipartUpload) while the NEXT event's request is started on the same session;
	// ExpireDuring: the session expires after this request finished, before the waiting one runs.
	Overlap      bool `json:"overlap,omitempty"`
	ExpireDuring bool `json:"expire_during,omitempty"`
}
type c32Case struct {
	Events []c32Ev `json:"events"`
}

// ---------- chunk contents ----------
var c32ContentCache sync.Map

func c32Content(c c32Chunk) []byte {
	if c.Len == 0 {
		return nil
	}
	key := fmt.Sprintf("%d/%d", c.ID, c.Len)
	if v, ok := c32ContentCache.Load(key); ok {
		return v.([]byte)
	}
	b := make([]byte, c.Len+8)
	x := uint64(c.ID)*0x9e3779b97f4a7c15 + 12345
	for i := 0; i+8 <= len(b); i += 8 {
		x ^= x << 13
		x ^= x >> 7
		x ^= x << 17
		binary.LittleEndian.PutUint64(b[i:], x)
	}
	b = b[:c.Len]
	if c.Len >= 16 {
		binary.BigEndian.PutUint64(b[0:], uint64(c.ID))
		binary.BigEndian.PutUint64(b[8:], uint64(c.Len))
	}
	if c.Len >= c32MiB {
		c32ContentCache.Store(key, b)
	}
	return b
}
func c32BlobBytes(bl []c32Chunk) []byte {
	var out []byte
	for _, c := range bl {
		out = append(out, c32Content(c)...)
	}
	return out
}

// c32ParseBlob reads stored bytes back as a chunk list (nil, false when they are not one).
func c32ParseBlob(b []byte) ([]c32Chunk, bool) {
	var out []c32Chunk
	for len(b) > 0 {
		if len(b) < 16 {
			return nil, false
		}
		c := c32Chunk{ID: int64(binary.BigEndian.Uint64(b[0:])), Len: int(binary.BigEndian.Uint64(b[8:]))}
		if c.Len < 16 || c.Len > len(b) || !bytes.Equal(b[:c.Len], c32Content(c)) {
			return nil, false
		}
		out = append(out, c)
		b = b[c.Len:]
	}
	return out, true
}

func c32Digest(alg int, b []byte) string {
	switch alg {
	case 0:
		s := sha256.Sum256(b)
		return hex.EncodeToString(s[:])
	case 1:
		s := md5.Sum(b)
		return hex.EncodeToString(s[:])
	case 2:
		h := crc32.NewIEEE()
		h.Write(b)
		return hex.EncodeToString(h.Sum(nil))
	}
	return ""
}
func c32AlgCode(a string) int {
	switch strings.ToLower(strings.TrimSpace(a)) {
	case "", "sha256":
		return 0
	case "md5":
		return 1
	case "crc32":
		return 2
	case "none":
		return 3
	}
	return -1
}

// ---------- S3 fake ----------
type c32Upload struct {
	key   string
	parts map[int32][]byte
	etags map[int32]string
}
type c32S3 struct {
	mu      sync.Mutex
	objects map[string][]byte
	uploads map[string]*c32Upload
	keys    []string // object keys in order of first appearance
	faults  []bool   // faults for the S3 calls of the current request
	nUp     int
	gate    *c32Gate // armed: the next UploadPart / CompleteMultipartUpload waits for release
}
type c32Gate struct {
	reached chan struct{}
	release chan struct{}
}

func (f *c32S3) arm() *c32Gate {
	g := &c32Gate{reached: make(chan struct{}), release: make(chan struct{})}
	f.mu.Lock()
	f.gate = g
	f.mu.Unlock()
	return g
}
func (f *c32S3) disarm() {
	f.mu.Lock()
	f.gate = nil
	f.mu.Unlock()
}

// waitGate is called without f.mu held
func (f *c32S3) waitGate() {
	f.mu.Lock()
	g := f.gate
	f.gate = nil
	f.mu.Unlock()
	if g != nil {
		close(g.reached)
		<-g.release
	}
}

// c32APIErr is what the AWS SDK hands back for an S3 error response: a smithy.APIError with
// the S3 error code, so that error classification inside lfs_s3.go sees the real thing.
func c32APIErr(code, msg string) error {
	return &smithy.GenericAPIError{Code: code, Message: msg, Fault: smithy.FaultClient}
}

func newC32S3() *c32S3 {
	return &c32S3{objects: map[string][]byte{}, uploads: map[string]*c32Upload{}}
}
func (f *c32S3) sawKey(k string) {
	for _, x := range f.keys {
		if x == k {
			return
		}
	}
	f.keys = append(f.keys, k)
}
func (f *c32S3) keyID(k string) int64 {
	for i, x := range f.keys {
		if x == k {
			return int64(i)
		}
	}
	return -1
}
func (f *c32S3) fault() bool {
	if len(f.faults) == 0 {
		return false
	}
	x := f.faults[0]
	f.faults = f.faults[1:]
	return x
}
func (f *c32S3) CreateMultipartUpload(ctx context.Context, p *s3.CreateMultipartUploadInput, _ ...func(*s3.Options)) (*s3.CreateMultipartUploadOutput, error) {
	f.mu.Lock()
	defer f.mu.Unlock()
	f.sawKey(*p.Key)
	if f.fault() {
		return nil, errors.New("verif: injected CreateMultipartUpload failure")
	}
	f.nUp++
	id := fmt.Sprintf("up-%d", f.nUp)
	f.uploads[id] = &c32Upload{key: *p.Key, parts: map[int32][]byte{}, etags: map[int32]string{}}
	return &s3.CreateMultipartUploadOutput{UploadId: aws.String(id)}, nil
}
func (f *c32S3) UploadPart(ctx context.Context, p *s3.UploadPartInput, _ ...func(*s3.Options)) (*s3.UploadPartOutput, error) {
	f.waitGate()
	f.mu.Lock()
	defer f.mu.Unlock()
	if f.fault() {
		return nil, errors.New("verif: injected UploadPart failure")
	}
	up, ok := f.uploads[*p.UploadId]
	if !ok {
		return nil, c32APIErr("NoSuchUpload", "The specified upload does not exist. The upload ID may be invalid, or the upload may have been aborted or completed.")
	}
	data, _ := io.ReadAll(p.Body)
	id := int64(-1)
	if len(data) >= 16 {
		id = int64(binary.BigEndian.Uint64(data))
	}
	etag := fmt.Sprintf("\"etag-%d\"", id)
	up.parts[*p.PartNumber] = data
	up.etags[*p.PartNumber] = etag
	return &s3.UploadPartOutput{ETag: aws.String(etag)}, nil
}
func (f *c32S3) CompleteMultipartUpload(ctx context.Context, p *s3.CompleteMultipartUploadInput, _ ...func(*s3.Options)) (*s3.CompleteMultipartUploadOutput, error) {
	f.waitGate()
	f.mu.Lock()
	defer f.mu.Unlock()
	if f.fault() {
		return nil, errors.New("verif: injected CompleteMultipartUpload failure")
	}
	up, ok := f.uploads[*p.UploadId]
	if !ok {
		return nil, c32APIErr("NoSuchUpload", "The specified upload does not exist. The upload ID may be invalid, or the upload may have been aborted or completed.")
	}
	var obj []byte
	prev := int32(0)
	if p.MultipartUpload == nil || len(p.MultipartUpload.Parts) == 0 {
		return nil, c32APIErr("MalformedXML", "The XML you provided was not well-formed")
	}
	for i, cp := range p.MultipartUpload.Parts {
		if cp.PartNumber == nil || *cp.PartNumber <= prev {
			return nil, c32APIErr("InvalidPartOrder", "The list of parts was not in ascending order.")
		}
		prev = *cp.PartNumber
		data, ok := up.parts[*cp.PartNumber]
		if !ok || cp.ETag == nil || *cp.ETag != up.etags[*cp.PartNumber] {
			return nil, c32APIErr("InvalidPart", "One or more of the specified parts could not be found.")
		}
		if i < len(p.MultipartUpload.Parts)-1 && len(data) < 5*c32MiB {
			return nil, c32APIErr("EntityTooSmall", "Your proposed upload is smaller than the minimum allowed object size.")
		}
		obj = append(obj, data...)
	}
	f.objects[up.key] = obj
	delete(f.uploads, *p.UploadId)
	return &s3.CompleteMultipartUploadOutput{}, nil
}
func (f *c32S3) AbortMultipartUpload(ctx context.Context, p *s3.AbortMultipartUploadInput, _ ...func(*s3.Options)) (*s3.AbortMultipartUploadOutput, error) {
	f.waitGate()
	f.mu.Lock()
	defer f.mu.Unlock()
	if _, ok := f.uploads[*p.UploadId]; !ok {
		return nil, c32APIErr("NoSuchUpload", "The specified upload does not exist.")
	}
	delete(f.uploads, *p.UploadId)
	return &s3.AbortMultipartUploadOutput{}, nil
}
func (f *c32S3) PutObject(ctx context.Context, p *s3.PutObjectInput, _ ...func(*s3.Options)) (*s3.PutObjectOutput, error) {
	f.mu.Lock()
	defer f.mu.Unlock()
	f.sawKey(*p.Key)
	if f.fault() {
		return nil, errors.New("verif: injected PutObject failure")
	}
	data, _ := io.ReadAll(p.Body)
	f.objects[*p.Key] = data
	return &s3.PutObjectOutput{}, nil
}
func (f *c32S3) GetObject(ctx context.Context, p *s3.GetObjectInput, _ ...func(*s3.Options)) (*s3.GetObjectOutput, error) {
	f.mu.Lock()
	defer f.mu.Unlock()
	data, ok := f.objects[*p.Key]
	if !ok {
		return nil, c32APIErr("NoSuchKey", "The specified key does not exist.")
	}
	n := int64(len(data))
	return &s3.GetObjectOutput{Body: io.NopCloser(bytes.NewReader(data)), ContentLength: &n}, nil
}
func (f *c32S3) DeleteObject(ctx context.Context, p *s3.DeleteObjectInput, _ ...func(*s3.Options)) (*s3.DeleteObjectOutput, error) {
	f.mu.Lock()
	defer f.mu.Unlock()
	delete(f.objects, *p.Key)
	return &s3.DeleteObjectOutput{}, nil
}
func (f *c32S3) HeadBucket(ctx context.Context, p *s3.HeadBucketInput, _ ...func(*s3.Options)) (*s3.HeadBucketOutput, error) {
	return &s3.HeadBucketOutput{}, nil
}
func (f *c32S3) CreateBucket(ctx context.Context, p *s3.CreateBucketInput, _ ...func(*s3.Options)) (*s3.CreateBucketOutput, error) {
	return &s3.CreateBucketOutput{}, nil
}

// ---------- broker fake ----------
// Scriptable per request (the mode set before the request is sent applies to the next produce
// the broker reads, on whatever connection): error code, reply only after the proxy's deadline
// ("late:N": the answer is still written afterwards, so it stays in the stream of a connection
// that is kept), reply with a foreign correlation id ("wrongcorr:N"), connection closed,
// garbage, response without partition.  Serves any number of requests per connection and logs,
// per request: connection, position on the connection, the envelope in the record value and
// the code it answered with — the oracle's acknowledgement clause is evaluated on this log.
type c32BrokerEntry struct {
	conn, seq int
	key, sha  string
	size      int64
	answered  bool // the broker sent (or is about to send) a well-formed answer for this request
	code      int
	mode      string
}
type c32Broker struct {
	ln        net.Listener
	mu        sync.Mutex
	mode      string
	log       []c32BrokerEntry
	conns     int
	perConn   map[int]int
	lateDelay time.Duration
}

func newC32Broker(t *testing.T) *c32Broker {
	ln, err := net.Listen("tcp", "127.0.0.1:0")
	if err != nil {
		t.Fatalf("listen: %v", err)
	}
	b := &c32Broker{ln: ln, mode: "code:0", perConn: map[int]int{}, lateDelay: 700 * time.Millisecond}
	go func() {
		for {
			conn, err := ln.Accept()
			if err != nil {
				return
			}
			b.mu.Lock()
			id := b.conns
			b.conns++
			b.mu.Unlock()
			go b.serve(conn, id)
		}
	}()
	return b
}
func (b *c32Broker) setMode(m string) {
	b.mu.Lock()
	b.mode = m
	b.mu.Unlock()
}
func (b *c32Broker) serve(conn net.Conn, id int) {
	defer conn.Close()
	for {
		_ = conn.SetReadDeadline(time.Now().Add(10 * time.Second))
		frame, err := protocol.ReadFrame(conn)
		if err != nil {
			return
		}
		hdr, req, err := protocol.ParseRequest(frame.Payload)
		var topic string
		var part int32
		var value []byte
		if err == nil {
			if pr, ok := req.(*kmsg.ProduceRequest); ok && len(pr.Topics) > 0 && len(pr.Topics[0].Partitions) > 0 {
				topic, part = pr.Topics[0].Topic, pr.Topics[0].Partitions[0].Partition
				if bs, err := lfsDecodeRecordBatches(pr.Topics[0].Partitions[0].Records); err == nil && len(bs) == 1 {
					if recs, _, err := lfsDecodeBatchRecords(&bs[0], nil); err == nil && len(recs) == 1 {
						value = recs[0].Value
					}
				}
			}
		}
		ent := c32BrokerEntry{conn: id}
		if env, err := lfs.DecodeEnvelope(value); err == nil {
			ent.key, ent.sha, ent.size = env.Key, env.SHA256, env.Size
		}
		kind, code := "code", 0
		b.mu.Lock()
		ent.mode = b.mode
		ent.seq = b.perConn[id]
		b.perConn[id]++
		switch {
		case strings.HasPrefix(ent.mode, "code:"):
			fmt.Sscanf(ent.mode, "code:%d", &code)
		case strings.HasPrefix(ent.mode, "late:"):
			kind = "late"
			fmt.Sscanf(ent.mode, "late:%d", &code)
		case strings.HasPrefix(ent.mode, "wrongcorr:"):
			kind = "wrongcorr"
			fmt.Sscanf(ent.mode, "wrongcorr:%d", &code)
		default:
			kind = ent.mode
		}
		ent.answered = kind == "code" || kind == "late" || kind == "wrongcorr"
		ent.code = code
		b.log = append(b.log, ent)
		delay := b.lateDelay
		b.mu.Unlock()
		corr := int32(0)
		if hdr != nil {
			corr = hdr.CorrelationID
		}
		switch kind {
		case "transport":
			return
		case "garbage":
			out := make([]byte, 4)
			binary.BigEndian.PutUint32(out, uint32(corr))
			out = append(out, 0x00, 0xff, 0xff, 0xff, 0x7f) // tagged fields, then an absurd compact array length
			if protocol.WriteFrame(conn, out) != nil {
				return
			}
			continue
		}
		resp := kmsg.NewPtrProduceResponse()
		resp.SetVersion(9)
		if kind != "nopartition" {
			rt := kmsg.NewProduceResponseTopic()
			rt.Topic = topic
			rp := kmsg.NewProduceResponseTopicPartition()
			rp.Partition = part
			rp.ErrorCode = int16(code)
			if code != 0 {
				rp.BaseOffset = -1
			}
			rt.Partitions = append(rt.Partitions, rp)
			resp.Topics = append(resp.Topics, rt)
		}
		if kind == "wrongcorr" {
			corr += 7777
		}
		if kind == "late" {
			time.Sleep(delay)
		}
		out := make([]byte, 4)
		binary.BigEndian.PutUint32(out, uint32(corr))
		out = append(out, 0) // response header v1: empty tagged fields
		out = resp.AppendTo(out)
		_ = conn.SetWriteDeadline(time.Now().Add(2 * time.Second))
		if protocol.WriteFrame(conn, out) != nil {
			return
		}
	}
}

// ---------- running a case ----------
type c32Resp struct {
	s3cls   int // class of the S3 error echoed by a 502 of a part / complete request
	status  int
	hasEnv  bool
	keyID   int64
	size    int64
	shaOf   []c32Chunk // blob whose sha256 is the envelope's (nil,false if none of the candidates)
	shaOK   bool
	sumAlg  int
	sumOf   []c32Chunk
	sumKind int // 0 empty, 1 matched (sumAlg,sumOf), 2 unknown
}
type c32Obs struct {
	objects []struct {
		id   int64
		blob []c32Chunk
		ok   bool
	}
	fail, failKey string
	etagID        map[int32]int64 // part number -> id of the chunk whose ETag the session holds
	listedIDs     map[int][]int64 // event index -> the chunk ids behind the ETags the completion request carried
	steps         []c32Step       // the linearized history as model events
}
type c32Step struct {
	kind string // req | arrive | run | expire
	ev   int
	idx  int
	resp *c32Resp // nil: no response at this step
}

func c32CsumString(cs c32Csum, alg int) string {
	switch cs.Kind {
	case "blob":
		a := alg
		if a < 0 || a == 3 {
			a = 0
		}
		s := c32Digest(a, c32BlobBytes(cs.Blob))
		if cs.Upper {
			s = strings.ToUpper(s)
		}
		return s
	case "bad":
		return "00ff00ff"
	}
	return ""
}

func c32Run(t *testing.T, cs c32Case, br *c32Broker, deadAddr string) c32Obs {
	fs3 := newC32S3()
	logger := slog.New(slog.NewTextHandler(io.Discard, nil))
	m := &lfsModule{
		logger:           logger,
		s3Uploader:       &s3Uploader{bucket: "bkt", region: "us-east-1", chunkSize: 5 * c32MiB, api: fs3, presign: &fakePresign{}},
		s3Bucket:         "bkt",
		s3Namespace:      "ns",
		maxBlob:          64 * c32MiB,
		chunkSize:        6 * c32MiB,
		checksumAlg:      "sha256",
		proxyID:          "verif-proxy",
		metrics:          newLfsMetrics(),
		tracker:          &LfsOpsTracker{config: TrackerConfig{}, logger: logger},
		topicMaxLength:   249,
		downloadTTLMax:   2 * time.Minute,
		uploadSessionTTL: time.Hour,
		uploadSessions:   make(map[string]*uploadSession),
		backends:         []string{br.ln.Addr().String()},
		dialTimeout:      400 * time.Millisecond,
		backendRetries:   1,
		backendBackoff:   time.Millisecond,
	}
	atomic.StoreUint32(&m.s3Healthy, 1)
	obs := c32Obs{etagID: map[int32]int64{}}
	br.mu.Lock()
	connsBefore := br.conns
	br.mu.Unlock()
	setFail := func(key, what string) {
		if obs.fail == "" {
			obs.fail, obs.failKey = what, key
		}
	}
	sessionID := "nosuch"
	var sessionPtr *uploadSession
	etags := map[int32]string{}
	var uploadedOK, validated []c32Chunk // parts acknowledged with 200 (new) / bodies that reached S3
	obs.listedIDs = map[int][]int64{}
	var accepted []lfs.Envelope // envelopes returned with status 200

	// prepare sets the fakes for a request and returns what absorb needs later
	prepare := func(ev c32Ev) (string, int) {
		fs3.mu.Lock()
		fs3.faults = append([]bool(nil), ev.Faults...)
		fs3.mu.Unlock()
		reply := ev.Reply
		if reply == "" {
			reply = "code:0"
		}
		if ev.Kind == "produce" || ev.Kind == "complete" {
			br.setMode(reply)
			m.backends = []string{br.ln.Addr().String()}
			if reply == "nobackend" {
				m.backends = []string{deadAddr}
			}
		}
		br.mu.Lock()
		before := len(br.log)
		br.mu.Unlock()
		return reply, before
	}
	// build creates the HTTP request (uses what the client knows at this moment)
	build := func(i int, ev c32Ev) (*http.Request, func(http.ResponseWriter, *http.Request)) {
		alg := c32AlgCode(ev.Alg)
		switch ev.Kind {
		case "produce":
			body := c32BlobBytes(ev.Pieces)
			req := httptest.NewRequest(http.MethodPost, "/lfs/produce", bytes.NewReader(body))
			req.Header.Set(lfsHeaderTopic, "orders")
			req.Header.Set(lfsHeaderKey, base64.StdEncoding.EncodeToString([]byte("k")))
			if s := c32CsumString(ev.Csum, alg); s != "" {
				req.Header.Set(lfsHeaderChecksum, s)
			}
			if ev.Alg != "" {
				req.Header.Set(lfsHeaderChecksumAlg, ev.Alg)
			}
			return req, m.handleHTTPProduce
		case "init":
			body, _ := json.Marshal(lfsUploadInitRequest{Topic: "orders", ContentType: "application/octet-stream", SizeBytes: ev.Size, Checksum: c32CsumString(ev.Csum, alg), ChecksumAlg: ev.Alg})
			return httptest.NewRequest(http.MethodPost, "/lfs/uploads", bytes.NewReader(body)), m.handleHTTPUploadInit
		case "part":
			return httptest.NewRequest(http.MethodPut, fmt.Sprintf("/lfs/uploads/%s/parts/%d", sessionID, ev.N), bytes.NewReader(c32Content(ev.Body))), m.handleHTTPUploadSession
		case "complete":
			var creq lfsUploadCompleteRequest
			var ids []int64
			for _, l := range ev.Listed {
				e := l.Etag
				id := int64(-7)
				if e == "ok" {
					e = etags[l.N]
					id = -8
					if x, ok := obs.etagID[l.N]; ok {
						id = x
					}
				} else if e == "\"etag-0\"" {
					id = 0
				}
				ids = append(ids, id)
				creq.Parts = append(creq.Parts, struct {
					PartNumber int32  `json:"part_number"`
					ETag       string `json:"etag"`
				}{l.N, e})
			}
			obs.listedIDs[i] = ids
			body, _ := json.Marshal(creq)
			return httptest.NewRequest(http.MethodPost, fmt.Sprintf("/lfs/uploads/%s/complete", sessionID), bytes.NewReader(body)), m.handleHTTPUploadSession
		default: // abort
			return httptest.NewRequest(http.MethodDelete, fmt.Sprintf("/lfs/uploads/%s", sessionID), nil), m.handleHTTPUploadSession
		}
	}
	// absorb post-processes a finished request (in linearization order) and applies the oracle
	absorb := func(i int, ev c32Ev, rr *httptest.ResponseRecorder, reply string, before int) c32Resp {
		var candidates [][]c32Chunk
		switch ev.Kind {
		case "produce":
			candidates = append(candidates, ev.Pieces)
		case "init":
			if rr.Code == 200 {
				var resp lfsUploadInitResponse
				_ = json.Unmarshal(rr.Body.Bytes(), &resp)
				sessionID = resp.UploadID
				m.uploadMu.Lock()
				sessionPtr = m.uploadSessions[sessionID]
				m.uploadMu.Unlock()
			}
		case "part":
			_, had := etags[ev.N]
			if rr.Code == 200 && !had {
				var resp lfsUploadPartResponse
				_ = json.Unmarshal(rr.Body.Bytes(), &resp)
				etags[ev.N] = resp.ETag
				obs.etagID[ev.N] = ev.Body.ID
				uploadedOK = append(uploadedOK, ev.Body)
				validated = append(validated, ev.Body)
			} else if rr.Code == 502 {
				validated = append(validated, ev.Body)
			}
		case "complete":
			candidates = append(candidates, uploadedOK, validated)
		}
		r := c32Resp{status: rr.Code}
		if rr.Code == 502 && (ev.Kind == "part" || ev.Kind == "complete") {
			var e lfsErrorResponse
			_ = json.Unmarshal(rr.Body.Bytes(), &e)
			switch {
			case strings.Contains(e.Message, "NoSuchUpload"):
				r.s3cls = 1
			case strings.Contains(e.Message, "InvalidPart"), strings.Contains(e.Message, "EntityTooSmall"), strings.Contains(e.Message, "MalformedXML"):
				r.s3cls = 2
			case strings.Contains(e.Message, "verif: injected"):
				r.s3cls = 5
			}
		}
		if rr.Code == 200 && (ev.Kind == "produce" || ev.Kind == "complete") {
			var env lfs.Envelope
			if err := json.Unmarshal(rr.Body.Bytes(), &env); err != nil || env.Key == "" {
				setFail("no-envelope", fmt.Sprintf("event %d: status 200 without an envelope: %s", i, rr.Body.String()))
			} else {
				r.hasEnv, r.keyID, r.size = true, fs3.keyID(env.Key), env.Size
				accepted = append(accepted, env)
				obj, present := fs3.objects[env.Key]
				if present {
					if bl, ok := c32ParseBlob(obj); ok {
						candidates = append(candidates, bl)
					}
				}
				for _, c := range candidates {
					bs := c32BlobBytes(c)
					if !r.shaOK && c32Digest(0, bs) == env.SHA256 {
						r.shaOf, r.shaOK = c, true
					}
					if env.Checksum != "" && r.sumKind != 1 {
						for a := 0; a < 3; a++ {
							if c32Digest(a, bs) == env.Checksum && string(lfs.ChecksumAlg(env.ChecksumAlg)) == []string{"sha256", "md5", "crc32"}[a] {
								r.sumAlg, r.sumOf, r.sumKind = a, c, 1
							}
						}
					}
				}
				if env.Checksum != "" && r.sumKind != 1 {
					r.sumKind = 2
				}
				// ---- implementation-side oracle: the clauses of C32 ----
				sum := sha256.Sum256(obj)
				// "the broker has acknowledged the envelope record without error": the broker's own log
				// for THIS envelope (matched by the key in the produced record value)
				_ = before
				br.mu.Lock()
				acked, produced := false, false
				answers := ""
				for _, en := range br.log {
					if en.key == env.Key && en.sha == env.SHA256 && en.size == env.Size {
						produced = true
						if en.answered && en.code == 0 {
							acked = true
						}
						answers += fmt.Sprintf(" [conn %d req %d: %s]", en.conn, en.seq, en.mode)
					}
				}
				br.mu.Unlock()
				switch {
				case !present:
					setFail("object-missing", fmt.Sprintf("event %d (%s): 200 but object %s does not exist", i, ev.Kind, env.Key))
				case int64(len(obj)) != env.Size || hex.EncodeToString(sum[:]) != env.SHA256:
					key := "object-mismatch"
					if ev.Kind == "complete" {
						if bl, ok := c32ParseBlob(obj); ok && len(bl) < len(uploadedOK) {
							key = "complete-partial-part-list"
						} else if len(validated) > len(uploadedOK) {
							key = "part-hashed-before-failed-upload"
						}
					}
					setFail(key, fmt.Sprintf("event %d (%s): 200 with envelope size=%d sha256=%s but the stored object has size=%d sha256=%s", i, ev.Kind, env.Size, env.SHA256, len(obj), hex.EncodeToString(sum[:])))
				case !produced:
					setFail("not-produced", fmt.Sprintf("event %d (%s): 200 but the broker did not receive the envelope record", i, ev.Kind))
				case !acked:
					setFail("broker-error-ignored", fmt.Sprintf("event %d (%s): 200 although the broker never acknowledged this envelope's record without error; its answers for it:%s (scripted reply %q)", i, ev.Kind, answers, reply))
				}
			}
		} else if rr.Code == 200 || rr.Code == 204 {
			// fine: init / part / abort
		} else if ev.Kind == "produce" || ev.Kind == "complete" {
			var e lfsErrorResponse
			if err := json.Unmarshal(rr.Body.Bytes(), &e); err != nil || e.Code == "" {
				setFail("error-shape", fmt.Sprintf("event %d: status %d without an error body", i, rr.Code))
			}
		}
		return r
	}
	run1 := func(i int, ev c32Ev) c32Resp {
		reply, before := prepare(ev)
		req, h := build(i, ev)
		rr := httptest.NewRecorder()
		h(rr, req)
		return absorb(i, ev, rr, reply, before)
	}
	addStep := func(kind string, ev int, idx int, r *c32Resp) {
		obs.steps = append(obs.steps, c32Step{kind: kind, ev: ev, idx: idx, resp: r})
	}
	expire := func() {
		if sessionPtr != nil {
			sessionPtr.ExpiresAt = time.Now().UTC().Add(-time.Minute)
		}
	}
	for i := 0; i < len(cs.Events); i++ {
		ev := cs.Events[i]
		if ev.Kind == "expire" {
			expire()
			addStep("expire", i, 0, nil)
			continue
		}
		sessionEv := ev.Kind == "part" || ev.Kind == "complete" || ev.Kind == "abort"
		if !(ev.Overlap && sessionEv && i+1 < len(cs.Events)) {
			r := run1(i, ev)
			addStep("req", i, 0, &r)
			continue
		}
		nxt := cs.Events[i+1]
		nxtSession := nxt.Kind == "part" || nxt.Kind == "complete" || nxt.Kind == "abort"
		if !nxtSession || len(ev.Faults) > 0 || len(nxt.Faults) > 0 ||
			(ev.Kind == "complete" && nxt.Kind == "complete" && ev.Reply != nxt.Reply) {
			r := run1(i, ev)
			addStep("req", i, 0, &r)
			continue
		}
		// request A runs until its first gateable S3 call; request B is started meanwhile
		replyA, beforeA := prepare(ev)
		if nxt.Kind == "complete" {
			replyA, _ = prepare(nxt) // the broker mode is the completing request's
		}
		reqA, hA := build(i, ev)
		gate := fs3.arm()
		rrA := httptest.NewRecorder()
		doneA := make(chan struct{})
		go func() { hA(rrA, reqA); close(doneA) }()
		select {
		case <-doneA: // A never reached S3: nothing overlaps
			fs3.disarm()
			r := absorb(i, ev, rrA, replyA, beforeA)
			addStep("req", i, 0, &r)
			continue
		case <-gate.reached:
		}
		addStep("arrive", i, 0, nil)
		reqB, hB := build(i+1, nxt)
		rrB := httptest.NewRecorder()
		doneB := make(chan struct{})
		go func() { hB(rrB, reqB); close(doneB) }()
		bEarly := false
		select {
		case <-doneB:
			bEarly = true
		case <-time.After(60 * time.Millisecond):
		}
		if bEarly {
			// B was answered while A was still inside S3 (404/400 before the mutex on the real code)
			rB := absorb(i+1, nxt, rrB, replyA, beforeA)
			addStep("arrive", i+1, 0, &rB)
			close(gate.release)
			<-doneA
			rA := absorb(i, ev, rrA, replyA, beforeA)
			addStep("run", i, 0, &rA)
		} else {
			addStep("arrive", i+1, 0, nil)
			if ev.ExpireDuring {
				// A is inside S3 (past its own expiry check, holding session.mu), B waits for the
				// mutex: moving ExpiresAt now is, for both, "the session expired after A's body"
				expire()
			}
			close(gate.release)
			<-doneA
			rA := absorb(i, ev, rrA, replyA, beforeA)
			addStep("run", i, 0, &rA)
			if ev.ExpireDuring {
				addStep("expire", i, 0, nil)
			}
			<-doneB
			rB := absorb(i+1, nxt, rrB, replyA, beforeA)
			addStep("run", i+1, 0, &rB)
		}
		i++
	}
	// ASSUMPTION "one request per connection" (model/Upload.v, broker_status): checked here
	br.mu.Lock()
	for id, n := range br.perConn {
		if id >= connsBefore && n > 1 {
			setFail("connection-reused", fmt.Sprintf("the proxy sent %d produce requests on one broker connection (connection %d): the model's assumption that the first frame read on a connection answers the request just sent does not hold, and forwardToBackend does not check correlation ids", n, id))
		}
	}
	br.mu.Unlock()
	// every envelope handed out with 200 must name an object of the S3 fake's FINAL object map
	// (not what the uploader reported): it exists, and its size and SHA-256 are the envelope's
	for _, env := range accepted {
		obj, ok := fs3.objects[env.Key]
		sum := sha256.Sum256(obj)
		if !ok {
			setFail("object-missing", fmt.Sprintf("envelope %s was returned with 200 but no such object exists in S3 at the end", env.Key))
		} else if int64(len(obj)) != env.Size || hex.EncodeToString(sum[:]) != env.SHA256 {
			setFail("object-mismatch", fmt.Sprintf("envelope %s (size %d) was returned with 200 but the object in S3 at the end has size %d / another SHA-256", env.Key, env.Size, len(obj)))
		}
	}
	keys := make([]string, 0, len(fs3.objects))
	for k := range fs3.objects {
		keys = append(keys, k)
	}
	sort.Slice(keys, func(i, j int) bool { return fs3.keyID(keys[i]) < fs3.keyID(keys[j]) })
	for _, k := range keys {
		bl, ok := c32ParseBlob(fs3.objects[k])
		obs.objects = append(obs.objects, struct {
			id   int64
			blob []c32Chunk
			ok   bool
		}{fs3.keyID(k), bl, ok})
	}
	return obs
}

// ---------- Coq emission ----------
func c32CoqBlob(bl []c32Chunk) string {
	it := make([]string, len(bl))
	for i, c := range bl {
		it[i] = fmt.Sprintf("(%d, %d)", c.ID, c.Len)
	}
	return cqList(it)
}
func c32CoqReply(r string) string {
	switch r {
	case "transport":
		return "RTransport"
	case "garbage":
		return "RGarbage"
	case "nopartition":
		return "RNoPartition"
	case "nobackend":
		return "RNoBackend"
	case "":
		return "(RCode 0)"
	}
	var c int
	if strings.HasPrefix(r, "late:") {
		fmt.Sscanf(r, "late:%d", &c)
		return fmt.Sprintf("(RLate %s)", cqZ(int64(c)))
	}
	if strings.HasPrefix(r, "wrongcorr:") {
		fmt.Sscanf(r, "wrongcorr:%d", &c)
		return fmt.Sprintf("(RWrongCorr %s)", cqZ(int64(c)))
	}
	fmt.Sscanf(r, "code:%d", &c)
	return fmt.Sprintf("(RCode %s)", cqZ(int64(c)))
}
func c32CoqCsum(cs c32Csum, alg int) string {
	switch cs.Kind {
	case "blob":
		a := alg
		if a < 0 || a == 3 {
			a = 0
		}
		return fmt.Sprintf("(henc %d %s)", a, c32CoqBlob(cs.Blob))
	case "bad":
		return "[255]"
	}
	return "[]"
}
func c32CoqBools(b []bool) string {
	it := make([]string, len(b))
	for i, x := range b {
		it[i] = cqBool(x)
	}
	return cqList(it)
}
func c32CoqResp(r c32Resp) string {
	env := "None"
	if r.hasEnv {
		sha := "[254]"
		if r.shaOK {
			sha = fmt.Sprintf("(henc 0 %s)", c32CoqBlob(r.shaOf))
		}
		sum := "[]"
		if r.sumKind == 1 {
			sum = fmt.Sprintf("(henc %d %s)", r.sumAlg, c32CoqBlob(r.sumOf))
		} else if r.sumKind == 2 {
			sum = "[254]"
		}
		env = fmt.Sprintf("(Some (mkEnv %s %s %s %s))", cqZ(r.keyID), cqZ(r.size), sha, sum)
	}
	return fmt.Sprintf("mkResp %d %s %d", r.status, env, r.s3cls)
}

func c32Coq(cs c32Case, obs c32Obs) string {
	evs := make([]string, len(cs.Events))
	for i, ev := range cs.Events {
		alg := c32AlgCode(ev.Alg)
		f := len(ev.Faults) > 0 && ev.Faults[0]
		switch ev.Kind {
		case "produce":
			evs[i] = fmt.Sprintf("(EProduce %s %s %s %s %s)", c32CoqBlob(ev.Pieces), c32CoqCsum(ev.Csum, alg), cqZ(int64(alg)), c32CoqBools(ev.Faults), c32CoqReply(ev.Reply))
		case "init":
			evs[i] = fmt.Sprintf("(EInit %s %s %s %s)", cqZ(ev.Size), c32CoqCsum(ev.Csum, alg), cqZ(int64(alg)), cqBool(f))
		case "part":
			evs[i] = fmt.Sprintf("(EPart %s (%d, %d) %s)", cqZ(int64(ev.N)), ev.Body.ID, ev.Body.Len, cqBool(f))
		case "complete":
			ls := make([]string, len(ev.Listed))
			ids := obs.listedIDs[i]
			for j, l := range ev.Listed {
				id := int64(-8)
				if j < len(ids) {
					id = ids[j]
				}
				ls[j] = fmt.Sprintf("(%s, %s)", cqZ(int64(l.N)), cqZ(id))
			}
			evs[i] = fmt.Sprintf("(EComplete %s %s %s)", cqList(ls), cqBool(f), c32CoqReply(ev.Reply))
		case "abort":
			evs[i] = "EAbort"
		}
	}
	var cev, rs []string
	for _, st := range obs.steps {
		switch st.kind {
		case "req":
			cev = append(cev, "CReq "+evs[st.ev])
		case "arrive":
			cev = append(cev, "CArrive "+evs[st.ev])
		case "run":
			cev = append(cev, fmt.Sprintf("CRun %d", st.idx))
		case "expire":
			cev = append(cev, "CExpire")
		}
		if st.resp == nil {
			rs = append(rs, "None")
		} else {
			rs = append(rs, "(Some ("+c32CoqResp(*st.resp)+"))")
		}
	}
	objs := make([]string, len(obs.objects))
	for i, o := range obs.objects {
		b := "[(-1, -1)]"
		if o.ok {
			b = c32CoqBlob(o.blob)
		}
		objs[i] = fmt.Sprintf("(%s, %s)", cqZ(o.id), b)
	}
	return fmt.Sprintf("mkCase %s %s %s", cqList(cev), cqList(rs), cqList(objs))
}

// ---------- generator ----------
type c32Gen struct {
	r      *vRand
	nextID int64
}

func (g *c32Gen) chunk(n int) c32Chunk {
	g.nextID++
	return c32Chunk{ID: g.nextID, Len: n}
}
func (g *c32Gen) small() int { return g.r.Range(16, 600) }
func (g *c32Gen) reply() string {
	switch g.r.Intn(12) {
	case 0:
		return "transport"
	case 1:
		return "garbage"
	case 2:
		return "nopartition"
	case 3:
		return "nobackend"
	case 4, 5, 6:
		return fmt.Sprintf("code:%d", []int{1, 3, 6, 7, 10, 19, 87, -1}[g.r.Intn(8)])
	case 7:
		if g.r.Chance(35) {
			return []string{"late:0", "late:0", "late:3"}[g.r.Intn(3)]
		}
		return []string{"wrongcorr:0", "wrongcorr:6", "wrongcorr:0"}[g.r.Intn(3)]
	}
	return "code:0"
}
func (g *c32Gen) algAndCsum(blob []c32Chunk) (string, c32Csum) {
	alg := []string{"", "", "", "sha256", "md5", "crc32", "none", " MD5 "}[g.r.Intn(8)]
	if g.r.Chance(3) {
		alg = "whirlpool"
	}
	var cs c32Csum
	switch g.r.Intn(10) {
	case 0, 1, 2:
		cs = c32Csum{Kind: "blob", Blob: blob, Upper: g.r.Chance(30)}
	case 3:
		cs = c32Csum{Kind: "bad"}
	case 4:
		if len(blob) > 1 {
			cs = c32Csum{Kind: "blob", Blob: blob[:len(blob)-1]}
		}
	}
	return alg, cs
}

func (g *c32Gen) produce() c32Ev {
	ev := c32Ev{Kind: "produce", Reply: g.reply()}
	switch g.r.Intn(12) {
	case 0:
		ev.Pieces = []c32Chunk{g.chunk(5 * c32MiB), g.chunk(g.small())}
	case 1:
		ev.Pieces = []c32Chunk{g.chunk(5 * c32MiB)}
	case 2:
		ev.Pieces = nil // empty body
	default:
		ev.Pieces = []c32Chunk{g.chunk(g.small())}
	}
	ev.Alg, ev.Csum = g.algAndCsum(ev.Pieces)
	if g.r.Chance(12) {
		n := g.r.Range(1, 4)
		for i := 0; i < n; i++ {
			ev.Faults = append(ev.Faults, i == n-1)
		}
	}
	return ev
}

func (g *c32Gen) session() []c32Ev {
	var evs []c32Ev
	nparts := []int{1, 1, 1, 2, 2, 3}[g.r.Intn(6)]
	var plan []c32Chunk
	total := int64(0)
	for i := 0; i < nparts; i++ {
		n := g.small()
		if i < nparts-1 {
			n = 5*c32MiB + g.r.Intn(3)*1000
		} else if g.r.Chance(8) {
			n = 5 * c32MiB
		}
		c := g.chunk(n)
		plan = append(plan, c)
		total += int64(n)
	}
	init := c32Ev{Kind: "init", Size: total}
	init.Alg, init.Csum = g.algAndCsum(plan)
	switch g.r.Intn(20) {
	case 0:
		init.Size = 0
	case 1:
		init.Size = total + int64(g.r.Range(1, 50)) // never completes: incomplete_upload
	case 2:
		init.Faults = []bool{true}
	case 3:
		init.Size = 65 * c32MiB
	}
	evs = append(evs, init)
	if g.r.Chance(10) {
		evs = append(evs, c32Ev{Kind: "complete", Listed: []c32Listed{{N: 1, Etag: "ok"}}, Reply: g.reply()})
	}
	for i, c := range plan {
		n := int32(i + 1)
		switch g.r.Intn(14) {
		case 0: // S3 failure, then the client retries the same part
			evs = append(evs, c32Ev{Kind: "part", N: n, Body: c, Faults: []bool{true}})
		case 1: // out of order first
			evs = append(evs, c32Ev{Kind: "part", N: n + 1, Body: g.chunk(g.small())})
		case 2: // empty body first
			evs = append(evs, c32Ev{Kind: "part", N: n, Body: c32Chunk{ID: 0, Len: 0}})
		case 3: // invalid part number
			evs = append(evs, c32Ev{Kind: "part", N: 0, Body: g.chunk(g.small())})
		case 4:
			if i < len(plan)-1 { // a non-final part below the minimum size
				evs = append(evs, c32Ev{Kind: "part", N: n, Body: g.chunk(g.small())})
			}
		}
		evs = append(evs, c32Ev{Kind: "part", N: n, Body: c})
		if g.r.Chance(10) { // duplicate delivery of the same part (different bytes even)
			evs = append(evs, c32Ev{Kind: "part", N: n, Body: g.chunk(g.small())})
		}
	}
	if g.r.Chance(8) { // one more part beyond the declared size
		evs = append(evs, c32Ev{Kind: "part", N: int32(len(plan) + 1), Body: g.chunk(g.small())})
	}
	if g.r.Chance(6) {
		evs = append(evs, c32Ev{Kind: "abort"})
	}
	exact := func() []c32Listed {
		var l []c32Listed
		for i := range plan {
			l = append(l, c32Listed{N: int32(i + 1), Etag: "ok"})
		}
		return l
	}
	ncomp := 1
	if g.r.Chance(35) {
		ncomp = 2
	}
	for k := 0; k < ncomp; k++ {
		l := exact()
		switch g.r.Intn(10) {
		case 0:
			if len(l) > 1 { // subset: drop one
				d := g.r.Intn(len(l))
				l = append(l[:d], l[d+1:]...)
			}
		case 1:
			if len(l) > 1 { // reordered
				l[0], l[1] = l[1], l[0]
			}
		case 2: // duplicate entry
			l = append(l, l[len(l)-1])
		case 3:
			l[g.r.Intn(len(l))].Etag = "\"etag-0\""
		case 4:
			l = append(l, c32Listed{N: int32(len(plan) + 3), Etag: "x"})
		case 5:
			l = nil
		case 6:
			if len(l) > 1 { // only the last part
				l = l[len(l)-1:]
			}
		}
		ev := c32Ev{Kind: "complete", Listed: l, Reply: g.reply()}
		if g.r.Chance(6) {
			ev.Faults = []bool{true}
		}
		evs = append(evs, ev)
	}
	if g.r.Chance(15) {
		evs = append(evs, c32Ev{Kind: []string{"abort", "part", "complete"}[g.r.Intn(3)], N: 1, Body: g.chunk(g.small()), Listed: exact()})
	}
	// overlapping requests on the session and expiry
	if g.r.Chance(45) {
		var out []c32Ev
		for _, ev := range evs {
			if len(ev.Faults) == 0 && ev.Kind == "part" && ev.Body.Len > 0 && g.r.Chance(25) {
				ev.Overlap = true
				ev.ExpireDuring = g.r.Chance(15)
				out = append(out, ev)
				switch g.r.Intn(5) {
				case 0: // the same part again, same bytes (client retry while the first is in flight)
					out = append(out, c32Ev{Kind: "part", N: ev.N, Body: ev.Body})
				case 1: // the same part number with other bytes
					out = append(out, c32Ev{Kind: "part", N: ev.N, Body: g.chunk(ev.Body.Len)})
				case 2: // Complete racing with the PUT
					out = append(out, c32Ev{Kind: "complete", Listed: exact(), Reply: g.reply()})
				case 3:
					out = append(out, c32Ev{Kind: "abort"})
				}
				continue
			}
			if ev.Kind == "abort" && g.r.Chance(50) {
				ev.Overlap = true
				out = append(out, ev)
				switch g.r.Intn(3) {
				case 0:
					out = append(out, c32Ev{Kind: "complete", Listed: exact(), Reply: g.reply()})
				case 1:
					out = append(out, c32Ev{Kind: "part", N: int32(len(plan)), Body: plan[len(plan)-1]})
				case 2:
					out = append(out, c32Ev{Kind: "abort"})
				}
				continue
			}
			if len(ev.Faults) == 0 && ev.Kind == "complete" && g.r.Chance(25) {
				ev.Overlap = true
				ev.ExpireDuring = g.r.Chance(15)
				out = append(out, ev)
				switch g.r.Intn(4) {
				case 0:
					out = append(out, c32Ev{Kind: "part", N: 1, Body: g.chunk(g.small())})
				case 1:
					out = append(out, c32Ev{Kind: "complete", Listed: ev.Listed, Reply: ev.Reply})
				case 2:
					out = append(out, c32Ev{Kind: "abort"})
				}
				continue
			}
			out = append(out, ev)
			if ev.Kind != "init" && g.r.Chance(3) {
				out = append(out, c32Ev{Kind: "expire"})
			}
		}
		evs = out
	}
	return evs
}

func c32GenCase(r *vRand) c32Case {
	g := &c32Gen{r: r}
	var cs c32Case
	np := []int{0, 0, 1, 1, 2, 3, 4}[r.Intn(7)]
	for i := 0; i < np; i++ {
		cs.Events = append(cs.Events, g.produce())
	}
	if np == 0 || r.Chance(75) {
		cs.Events = append(cs.Events, g.session()...)
	}
	// several more uploads on the same proxy instance (connection reuse, if any, shows here)
	nt := []int{0, 0, 1, 1, 2, 3}[r.Intn(6)]
	for i := 0; i < nt; i++ {
		cs.Events = append(cs.Events, g.produce())
	}
	// after a reply that came too late, the next uploads get an error code / a success
	for i, ev := range cs.Events {
		if strings.HasPrefix(ev.Reply, "late:") && r.Chance(70) {
			tail := append([]c32Ev(nil), cs.Events[i+1:]...)
			follow := g.produce()
			follow.Pieces, follow.Faults, follow.Alg, follow.Csum = []c32Chunk{g.chunk(g.small())}, nil, "", c32Csum{}
			follow.Reply = []string{"code:3", "code:6", "code:0"}[r.Intn(3)]
			cs.Events = append(append(cs.Events[:i+1:i+1], follow), tail...)
			break
		}
	}
	return cs
}

func TestVerifC32(t *testing.T) {
	rep := vNewReport("C32", "generated event lists against the real LFS HTTP handlers: 0-3 single-request uploads (small / 5 MiB / 5 MiB+tail / empty bodies; checksum header right, wrong, of a prefix, upper case; algorithms sha256/md5/crc32/none/invalid; S3 call faults) and one multipart session (1-3 parts of 5 MiB.. plus a tail; S3 part failures with retry, out-of-order, duplicate, empty, undersized, surplus parts; completion lists exact / subset / reordered / duplicate / wrong ETag / unknown part / empty / last-only; repeated completion; abort; overlapping requests on the session: a part PUT held inside UploadPart or a Complete held inside CompleteMultipartUpload while a second PUT of the same number / Complete / Abort is started; session expiry between and during requests), each upload completion with a broker reply drawn from {error code 0,1,3,6,7,10,19,87,-1, connection closed, unparseable, no partition, no backend, answer after the proxy deadline (code 0/3), answer with a foreign correlation id (code 0/6)}, several uploads per proxy instance, a late answer followed by rejected/accepted uploads; the broker fake logs per connection and request which envelope it received and what it answered; a case is non-trivial when it contains a 200 completion with envelope and a rejected completion; distinct = distinct canonical JSON")
	br := newC32Broker(t)
	defer br.ln.Close()
	dead, _ := net.Listen("tcp", "127.0.0.1:0")
	deadAddr := dead.Addr().String()
	dead.Close()
	var coq, jsons []string
	runOne := func(cs c32Case) {
		obs := c32Run(t, cs, br, deadAddr)
		canon, _ := json.Marshal(cs)
		ok200, rejected := false, false
		for _, st := range obs.steps {
			if st.kind == "arrive" && st.resp == nil {
				rep.Hist("overlapped-request")
			}
			if st.kind == "expire" {
				rep.Hist("expire")
			}
			if st.resp == nil {
				continue
			}
			i, r := st.ev, *st.resp
			k := cs.Events[i].Kind
			rep.Hist(fmt.Sprintf("%s=%d", k, r.status))
			if k == "produce" || k == "complete" {
				if r.status == 200 {
					ok200 = true
				} else {
					rejected = true
				}
				rp := cs.Events[i].Reply
				if rp == "" {
					rp = "code:0"
				}
				if strings.HasPrefix(rp, "code:") && rp != "code:0" {
					rp = "code:nonzero"
				}
				rep.Hist("reply=" + rp)
			}
		}
		rep.Count(string(canon), ok200 && rejected)
		rep.Sample(cs)
		if obs.fail != "" {
			key := obs.failKey
			shr := cs
			shr.Events = vShrink(cs.Events, func(evs []c32Ev) bool {
				o := c32Run(t, c32Case{Events: evs}, br, deadAddr)
				return o.fail != "" && o.failKey == key
			})
			o2 := c32Run(t, shr, br, deadAddr)
			what := obs.fail
			if o2.fail != "" && o2.failKey == key {
				what = o2.fail
			} else {
				shr = cs
			}
			rep.Fail(key, key, what, shr)
		}
		coq = append(coq, c32Coq(cs, obs))
		jsons = append(jsons, string(canon))
	}
	if rc := vReplayCase(); rc != nil {
		var cs c32Case
		if err := json.Unmarshal(rc, &cs); err != nil {
			t.Fatalf("bad replay: %v", err)
		}
		runOne(cs)
	} else {
		p1, p2, p3 := c32Chunk{ID: 1, Len: 5 * c32MiB}, c32Chunk{ID: 2, Len: 300}, c32Chunk{ID: 3, Len: 100}
		corpus := []c32Case{
			// (a) broker error code in the produce response (single request and session)
			{Events: []c32Ev{{Kind: "produce", Pieces: []c32Chunk{p3}, Reply: "code:3"}}},
			{Events: []c32Ev{{Kind: "init", Size: 100}, {Kind: "part", N: 1, Body: p3}, {Kind: "complete", Listed: []c32Listed{{N: 1, Etag: "ok"}}, Reply: "code:6"}}},
			// (b) completion request that lists only one of the two uploaded parts
			{Events: []c32Ev{{Kind: "init", Size: 5*c32MiB + 300}, {Kind: "part", N: 1, Body: p1}, {Kind: "part", N: 2, Body: p2}, {Kind: "complete", Listed: []c32Listed{{N: 2, Etag: "ok"}}}}},
			// (c) S3 UploadPart fails once, the client retries the part
			{Events: []c32Ev{{Kind: "init", Size: 100}, {Kind: "part", N: 1, Body: p3, Faults: []bool{true}}, {Kind: "part", N: 1, Body: p3}, {Kind: "complete", Listed: []c32Listed{{N: 1, Etag: "ok"}}}}},
			// two PUTs of the same part in flight (the second started while the first is inside UploadPart), then Complete
			{Events: []c32Ev{{Kind: "init", Size: 100}, {Kind: "part", N: 1, Body: p3, Overlap: true}, {Kind: "part", N: 1, Body: p3}, {Kind: "complete", Listed: []c32Listed{{N: 1, Etag: "ok"}}}}},
			{Events: []c32Ev{{Kind: "init", Size: 100}, {Kind: "part", N: 1, Body: p3, Overlap: true}, {Kind: "part", N: 1, Body: c32Chunk{ID: 9, Len: 100}}, {Kind: "complete", Listed: []c32Listed{{N: 1, Etag: "ok"}}}}},
			// a part PUT racing with Complete / Abort, and Complete racing with Complete
			{Events: []c32Ev{{Kind: "init", Size: 5*c32MiB + 300}, {Kind: "part", N: 1, Body: p1}, {Kind: "part", N: 2, Body: p2, Overlap: true}, {Kind: "complete", Listed: []c32Listed{{N: 1, Etag: "ok"}, {N: 2, Etag: "ok"}}}, {Kind: "complete", Listed: []c32Listed{{N: 1, Etag: "ok"}, {N: 2, Etag: "ok"}}}}},
			{Events: []c32Ev{{Kind: "init", Size: 100}, {Kind: "part", N: 1, Body: p3, Overlap: true}, {Kind: "abort"}, {Kind: "complete", Listed: []c32Listed{{N: 1, Etag: "ok"}}}}},
			{Events: []c32Ev{{Kind: "init", Size: 100}, {Kind: "part", N: 1, Body: p3}, {Kind: "complete", Listed: []c32Listed{{N: 1, Etag: "ok"}}, Overlap: true}, {Kind: "complete", Listed: []c32Listed{{N: 1, Etag: "ok"}}}, {Kind: "part", N: 1, Body: p3}}},
			// expiry: before a request, and while a request waits for the session mutex
			{Events: []c32Ev{{Kind: "init", Size: 100}, {Kind: "part", N: 1, Body: p3}, {Kind: "expire"}, {Kind: "complete", Listed: []c32Listed{{N: 1, Etag: "ok"}}}}},
			{Events: []c32Ev{{Kind: "init", Size: 100}, {Kind: "part", N: 1, Body: p3, Overlap: true, ExpireDuring: true}, {Kind: "complete", Listed: []c32Listed{{N: 1, Etag: "ok"}}}, {Kind: "abort"}}},
			// well-behaved client
			{Events: []c32Ev{{Kind: "init", Size: 5*c32MiB + 300, Csum: c32Csum{Kind: "blob", Blob: []c32Chunk{p1, p2}}}, {Kind: "part", N: 1, Body: p1}, {Kind: "part", N: 2, Body: p2}, {Kind: "complete", Listed: []c32Listed{{N: 1, Etag: "ok"}, {N: 2, Etag: "ok"}}}}},
		}
		// broker answers after the proxy's deadline (the late answer stays in the connection's
		// stream), then further uploads whose own produce is rejected / accepted; answers with a
		// foreign correlation id
		u := func(id int64, reply string) c32Ev {
			return c32Ev{Kind: "produce", Pieces: []c32Chunk{{ID: id, Len: 100}}, Reply: reply}
		}
		corpus = append(corpus,
			c32Case{Events: []c32Ev{u(31, "late:0"), u(32, "code:3"), u(33, "code:0")}},
			c32Case{Events: []c32Ev{u(31, "code:0"), u(32, "late:0"), u(33, "late:0"), u(34, "code:6"), u(35, "code:7")}},
			c32Case{Events: []c32Ev{u(31, "late:0"), {Kind: "init", Size: 100}, {Kind: "part", N: 1, Body: p3}, {Kind: "complete", Listed: []c32Listed{{N: 1, Etag: "ok"}}, Reply: "code:3"}}},
			c32Case{Events: []c32Ev{{Kind: "init", Size: 100}, {Kind: "part", N: 1, Body: p3}, {Kind: "complete", Listed: []c32Listed{{N: 1, Etag: "ok"}}, Reply: "late:0"}, u(32, "code:10"), u(33, "code:0")}},
			c32Case{Events: []c32Ev{u(31, "wrongcorr:0"), u(32, "wrongcorr:6"), u(33, "transport"), u(34, "code:0")}},
		)
		// every ordered overlap pair of {Part, Complete, Abort} on a session in each of the states
		// "no part yet", "all parts uploaded", "S3 completed but broker failed" (so the pair also
		// covers Complete-retry / Abort-retry), followed by operations on the finished session
		q := c32Chunk{ID: 21, Len: 100}
		one := []c32Listed{{N: 1, Etag: "ok"}}
		mk := func(kind string) c32Ev {
			switch kind {
			case "part":
				return c32Ev{Kind: "part", N: 1, Body: q}
			case "complete":
				return c32Ev{Kind: "complete", Listed: one}
			}
			return c32Ev{Kind: "abort"}
		}
		prefixes := [][]c32Ev{
			{{Kind: "init", Size: 100}},
			{{Kind: "init", Size: 100}, {Kind: "part", N: 1, Body: q}},
			{{Kind: "init", Size: 100}, {Kind: "part", N: 1, Body: q}, {Kind: "complete", Listed: one, Reply: "code:7"}},
			{{Kind: "init", Size: 100}, {Kind: "part", N: 1, Body: q}, {Kind: "complete", Listed: one, Reply: "transport"}, {Kind: "complete", Listed: one, Reply: "code:3"}},
		}
		for _, pre := range prefixes {
			for _, a := range []string{"part", "complete", "abort"} {
				for _, b := range []string{"part", "complete", "abort"} {
					evs := append([]c32Ev(nil), pre...)
					ea := mk(a)
					ea.Overlap = true
					evs = append(evs, ea, mk(b), mk("complete"), mk("part"), mk("abort"), mk("abort"), mk("complete"))
					corpus = append(corpus, c32Case{Events: evs})
				}
			}
		}
		for _, cs := range corpus {
			runOne(cs)
		}
		r := vNewRand(vSeed())
		n := vN(120, 1200)
		for i := 0; i < n; i++ {
			runOne(c32GenCase(r.Fork()))
		}
	}
	rep.Cases("C32", "From KS Require Import lib.Base model.Upload corr.UploadCorr.", "case", "check_case", coq, jsons)
	rep.Write()
	if len(rep.Failures) > 0 {
		t.Logf("oracle failures: %s", strings.TrimSpace(rep.Failures[0].What))
	}
}
