package proxy

// C37 harness: drives the real handleConn over in-memory connections with a fake
// pgwire client and a fake upstream that records every query text it receives.
// Implementation-side oracle: every text the upstream received is exactly a text the
// client sent, and the topics the KafSQL server reads for that full text (the real
// sql.Parse + an independent restatement of what the server reads) are all allowed by a
// reference implementation of the ACL semantics (path.Match called here, not the proxy's ACL). Every connection is
// emitted, with the observations, as a Coq term for corr/SqlProxyCorr.v.

import (
	"context"
	"encoding/json"
	"fmt"
	"io"
	"log"
	"net"
	"os"
	"path"
	"sort"
	"strings"
	"sync"
	"testing"
	"time"

	"github.com/jackc/pgproto3/v2"

	"github.com/kafscale/platform/addons/processors/sql-processor/internal/config"
	kafsql "github.com/kafscale/platform/addons/processors/sql-processor/internal/sql"
)

type c37Case struct {
	Allow []string `json:"allow"`
	Deny  []string `json:"deny"`
	TTL   int      `json:"ttl"`
	Max   int      `json:"max"`
	Msgs  [][]byte `json:"msgs"`
	Texts []string `json:"texts,omitempty"` // the same, readable
}

type c37Obs struct {
	forwarded []bool
	upstream  []string // texts received by the upstream, in order
	err       string
}

// c37Upstream: a minimal KafSQL server end: startup handshake, then CommandComplete +
// ReadyForQuery for every Query, recording the text.
func c37Upstream(conn net.Conn, rec *[]string, mu *sync.Mutex) {
	defer conn.Close()
	be := pgproto3.NewBackend(pgproto3.NewChunkReader(conn), conn)
	if _, err := be.ReceiveStartupMessage(); err != nil {
		return
	}
	_ = be.Send(&pgproto3.AuthenticationOk{})
	_ = be.Send(&pgproto3.ReadyForQuery{TxStatus: 'I'})
	for {
		msg, err := be.Receive()
		if err != nil {
			return
		}
		switch m := msg.(type) {
		case *pgproto3.Query:
			mu.Lock()
			*rec = append(*rec, m.String)
			mu.Unlock()
			_ = be.Send(&pgproto3.CommandComplete{CommandTag: []byte("SELECT 0")})
			_ = be.Send(&pgproto3.ReadyForQuery{TxStatus: 'I'})
		case *pgproto3.Terminate:
			return
		}
	}
}

func c37Run(cs c37Case) (obs c37Obs) {
	srv := New(config.ProxyConfig{
		Listen: ":0", Upstreams: []string{"upstream"},
		CacheTTLSeconds: cs.TTL, CacheMaxEntries: cs.Max,
		ACL: config.ProxyACLConfig{Allow: cs.Allow, Deny: cs.Deny},
	}, log.New(io.Discard, "", 0))
	upA, upB := net.Pipe()
	var mu sync.Mutex
	var rec []string
	go c37Upstream(upB, &rec, &mu)
	srv.dialer = func(ctx context.Context, addr string) (net.Conn, error) { return upA, nil }
	serverConn, clientConn := net.Pipe()
	defer clientConn.Close()
	deadline := time.Now().Add(20 * time.Second)
	_ = clientConn.SetDeadline(deadline)
	done := make(chan string, 1)
	go func() {
		defer func() {
			if r := recover(); r != nil {
				done <- fmt.Sprintf("panic: %v", r)
			}
		}()
		err := srv.handleConn(context.Background(), serverConn)
		if err != nil && err != io.EOF {
			done <- err.Error()
			return
		}
		done <- ""
	}()
	fe := pgproto3.NewFrontend(pgproto3.NewChunkReader(clientConn), clientConn)
	startup := &pgproto3.StartupMessage{ProtocolVersion: pgproto3.ProtocolVersionNumber, Parameters: map[string]string{"user": "verif"}}
	buf, _ := startup.Encode(nil)
	if _, err := clientConn.Write(buf); err != nil {
		obs.err = "startup write: " + err.Error()
		return
	}
	waitReady := func() error {
		for {
			msg, err := fe.Receive()
			if err != nil {
				return err
			}
			if _, ok := msg.(*pgproto3.ReadyForQuery); ok {
				return nil
			}
		}
	}
	if err := waitReady(); err != nil {
		obs.err = "startup: " + err.Error()
		return
	}
	for _, m := range cs.Msgs {
		mu.Lock()
		before := len(rec)
		mu.Unlock()
		if err := fe.Send(&pgproto3.Query{String: string(m)}); err != nil {
			obs.err = "send: " + err.Error()
			return
		}
		if err := waitReady(); err != nil {
			select {
			case d := <-done:
				obs.err = "conn ended: " + d + " / " + err.Error()
			default:
				obs.err = "receive: " + err.Error()
			}
			return
		}
		mu.Lock()
		obs.forwarded = append(obs.forwarded, len(rec) > before)
		mu.Unlock()
	}
	_ = fe.Send(&pgproto3.Terminate{})
	select {
	case d := <-done:
		obs.err = d
	case <-time.After(5 * time.Second):
		obs.err = "handleConn did not return"
	}
	mu.Lock()
	obs.upstream = append([]string(nil), rec...)
	mu.Unlock()
	return obs
}

// ---- reference ACL semantics, independent of the proxy's ACL type (code under test):
// patterns are path.Match globs ('*', '?', '[a-z]', '[^x]', '\\' escapes); blank entries
// are ignored; a pattern also matches a topic equal to it literally (this is what makes a
// malformed pattern usable as a plain name); the deny list is consulted first, an empty
// allow list allows everything else.
func c37RefMatch(patterns []string, topic string) bool {
	for _, p := range patterns {
		p = strings.TrimSpace(p)
		if p == "" {
			continue
		}
		if p == "*" || p == topic {
			return true
		}
		if ok, err := path.Match(p, topic); err == nil && ok {
			return true
		}
	}
	return false
}
func c37RefAllows(allow, deny []string, topic string) bool {
	if c37RefMatch(deny, topic) {
		return false
	}
	return len(allow) == 0 || c37RefMatch(allow, topic)
}
func c37RefAllowShow(allow, deny []string) bool {
	if len(deny) > 0 {
		return false
	}
	return len(allow) == 0 || c37RefMatch(allow, "*")
}

// c37Oracle checks the property on what the real code did; "" = holds.
func c37Oracle(cs c37Case, obs c37Obs) (key, what string) {
	if obs.err != "" {
		return "proxy-connection-failed", obs.err
	}
	acl := ACL{Allow: cs.Allow, Deny: cs.Deny}
	sent := 0
	for _, text := range obs.upstream {
		// the upstream must have received, in order, texts the client sent, unchanged
		found := false
		for sent < len(cs.Msgs) {
			sent++
			if string(cs.Msgs[sent-1]) == text {
				found = true
				break
			}
		}
		if !found {
			return "forwarded-text-differs", fmt.Sprintf("upstream received %q which the client did not send (in this order)", text)
		}
		parsed, err := kafsql.Parse(text)
		if err != nil {
			continue // the server answers with the parse error and reads nothing
		}
		topics, show := c37UpstreamTopics(parsed)
		var bad []string
		for _, t := range topics {
			if !c37RefAllows(cs.Allow, cs.Deny, t) {
				bad = append(bad, t)
			}
		}
		if len(bad) == 0 && !(show && !c37RefAllowShow(cs.Allow, cs.Deny)) {
			continue
		}
		// classify by the structure of the text
		trimmed := strings.TrimSpace(text)
		k := "forwarded-unauthorized"
		switch {
		case len(trimmed) > 512:
			// the truncation is to blame when the code's own authorization refuses the full text
			aTrunc, _, _, _ := c37AuthorizeOn(acl, trimmed[:512]+"...")
			aFull, _, _, _ := c37AuthorizeOn(acl, trimmed)
			if aTrunc && !aFull {
				k = "authorized-on-truncated-text"
			}
		case strings.HasSuffix(strings.TrimSpace(strings.TrimSuffix(trimmed, ";")), ";"):
			k = "authorized-with-two-semicolons-stripped"
		}
		return k, fmt.Sprintf("acl allow=%q deny=%q: upstream received %q (%d bytes) which reads topics %q (show topics=%v); not allowed: %q", cs.Allow, cs.Deny, text, len(text), topics, show, bad)
	}
	return "", ""
}

// c37UpstreamTopics: the topics the KafSQL server touches when it executes a parsed
// query (server.go executeQuery / handleSelect / handleExplain: the topic and, for any
// kind of join, the join topic; SHOW TOPICS lists all topics). Stated independently of
// the proxy's queryTopics, which is code under test.
func c37UpstreamTopics(q kafsql.Query) ([]string, bool) {
	switch q.Type {
	case kafsql.QueryShowTopics:
		return nil, true
	case kafsql.QueryShowPartitions, kafsql.QueryDescribe:
		return []string{q.Topic}, false
	case kafsql.QueryExplain:
		if q.Explain == nil {
			return nil, false
		}
		return c37UpstreamTopics(*q.Explain)
	case kafsql.QuerySelect:
		t := []string{q.Topic}
		if q.JoinTopic != "" {
			t = append(t, q.JoinTopic)
		}
		return t, false
	}
	return nil, false
}

// what authorization says about another text (for classification only)
func c37AuthorizeOn(acl ACL, text string) (a bool, r string, t []string, s bool) {
	defer func() {
		if recover() != nil {
			a = false
		}
	}()
	return authorizeQuery(acl, text)
}

// ---------------------------------------------------------------- string laws assumed by the Coq proofs, on the real Go functions
func c37LowerASCII(s string) string {
	b := []byte(s)
	for i, c := range b {
		if 'A' <= c && c <= 'Z' {
			b[i] = c + 32
		}
	}
	return string(b)
}
func c37DropSemi(fs []string) []string {
	if len(fs) == 0 {
		return fs
	}
	last := fs[len(fs)-1]
	if !strings.HasSuffix(last, ";") {
		return fs
	}
	out := append([]string(nil), fs[:len(fs)-1]...)
	if last = last[:len(last)-1]; last != "" {
		out = append(out, last)
	}
	return out
}
func c37Eq(a, b []string) bool {
	if len(a) != len(b) {
		return false
	}
	for i := range a {
		if a[i] != b[i] {
			return false
		}
	}
	return true
}
func c37Tokens(s string) []string {
	return strings.Fields(c37LowerASCII(strings.TrimSuffix(strings.TrimSpace(s), ";")))
}
func c37Laws(s string) string {
	fs := strings.Fields(s)
	if !c37Eq(strings.Fields(strings.TrimSuffix(strings.TrimSpace(s), ";")), c37DropSemi(fs)) {
		return "fields-strip"
	}
	low := make([]string, len(fs))
	for i, f := range fs {
		low[i] = c37LowerASCII(f)
	}
	if !c37Eq(strings.Fields(c37LowerASCII(s)), low) {
		return "fields-lower"
	}
	if !c37Eq(strings.Fields(strings.Join(fs, " ")), fs) {
		return "fields-join"
	}
	if c37HasSession() && isSessionCommandCompat(s) {
		if tk := c37Tokens(s); len(tk) > 0 && tk[0] != "set" && tk[0] != "reset" {
			return "session-tokens"
		}
	}
	// cache key determines the parser's tokens
	if !c37Eq(c37Tokens(s), c37DropSemi(strings.Fields(c37LowerASCII(strings.Join(fs, " "))))) {
		return "tokens-of-key"
	}
	return ""
}

// the session-command test of the code under test, by its observable effect: a text
// that does not parse is allowed by a non-empty ACL exactly when it is a session command
func c37HasSession() bool { return true }
func isSessionCommandCompat(s string) bool {
	if _, err := kafsql.Parse(s); err == nil {
		return false
	}
	a, _, _, _ := c37AuthorizeOn(ACL{Allow: []string{"x"}}, s)
	return a
}

// ---------------------------------------------------------------- generators
var c37Topics = []string{"orders", "payments", "secret", "shipments", "orders2", "s1", "Orders", "orders;", "café", "日本"}
var c37ACLs = []struct{ allow, deny []string }{
	{[]string{"orders", "payments"}, nil},
	{[]string{"orders"}, nil},
	{[]string{"orders*"}, nil},
	{nil, []string{"secret"}},
	{nil, []string{"s*"}},
	{[]string{"*"}, []string{"secret"}},
	{[]string{"*"}, nil},
	{nil, nil},
	{[]string{"orders", "payments", "shipments"}, []string{"payments"}},
	{[]string{" orders ", ""}, nil},
	{[]string{"café", "orders"}, nil},
	// what matters is whether the CONFIGURED list is empty, not only what it matches:
	// an allow list of blank entries matches nothing (deny everything), it is not "no allow list"
	{[]string{""}, nil},
	{[]string{"  "}, nil},
	{[]string{"", " ", "\t"}, nil},
	{[]string{""}, []string{"secret"}},
	{nil, []string{""}},
	{nil, []string{" ", ""}},
	{[]string{"*"}, []string{""}},
	{[]string{}, []string{}},
	{[]string{"orders", "orders", " orders"}, []string{"secret", "secret"}},
	{[]string{"", "orders"}, []string{"", "secret"}},
}
var c37Ws = []string{" ", " ", " ", "  ", "\t", "\n", " \n ", "\u00a0", "\u2003", "\u3000"}

type c37Gen struct{ r *vRand }

func (g c37Gen) ws() string {
	if g.r.Chance(70) {
		return " "
	}
	return c37Ws[g.r.Intn(len(c37Ws))]
}
func (g c37Gen) kw(w string) string {
	switch g.r.Intn(4) {
	case 0:
		return strings.ToUpper(w)
	case 1:
		return strings.ToUpper(w[:1]) + w[1:]
	}
	return w
}
func (g c37Gen) topic() string { return c37Topics[g.r.Intn(len(c37Topics))] }

// pad produces n bytes of filler that keeps the query valid at the given place
func (g c37Gen) pad(n int) string {
	if n <= 0 {
		return ""
	}
	if g.r.Chance(60) {
		return strings.Repeat(" ", n)
	}
	var sb strings.Builder
	for sb.Len() < n {
		sb.WriteString(c37Ws[g.r.Intn(len(c37Ws))])
	}
	return sb.String()
}

func (g c37Gen) selectQ(long bool) string {
	var sb strings.Builder
	if g.r.Chance(20) {
		sb.WriteString(g.kw("explain") + g.ws())
	}
	sb.WriteString(g.kw("select") + g.ws())
	cols := []string{"*", "_key, _value", "count(*)", "json_value(_value, '$.a') as a", "_key"}[g.r.Intn(5)]
	if long && g.r.Chance(35) {
		// a long column list instead of white-space padding
		n := g.r.Range(40, 70)
		parts := make([]string, n)
		for i := range parts {
			parts[i] = []string{"_key", "_value", "_ts", "_offset"}[g.r.Intn(4)]
		}
		cols = strings.Join(parts, ", ")
	}
	sb.WriteString(cols + g.ws() + g.kw("from") + g.ws() + g.topic())
	if g.r.Chance(30) {
		sb.WriteString(g.ws() + []string{"o", "a", "t1"}[g.r.Intn(3)])
	}
	tail := ""
	switch g.r.Intn(6) {
	case 0, 1, 2:
		jt := g.topic()
		tail = g.ws()
		if g.r.Chance(25) {
			tail += g.kw("left") + g.ws()
		}
		tail += g.kw("join") + g.ws() + jt + g.ws() + "p" + g.ws() + g.kw("on") + g.ws() + "o._key = p._key"
		if g.r.Chance(40) {
			tail += g.ws() + g.kw("within") + " 10m"
		}
	case 3:
		tail = g.ws() + g.kw("where") + " _partition = 1 " + g.kw("and") + " _offset >= 5"
	case 4:
		tail = g.ws() + g.kw("order") + " " + g.kw("by") + " _ts " + g.kw("desc") + g.ws() + g.kw("limit") + " 10"
	}
	if g.r.Chance(30) {
		tail += g.ws() + g.kw("last") + " 1h"
	}
	if long {
		// place the start of the tail (the join / second topic) around byte 512
		target := g.r.Range(470, 540)
		if g.r.Chance(25) {
			target = g.r.Range(380, 680)
		}
		sb.WriteString(g.pad(target - sb.Len()))
	}
	sb.WriteString(tail)
	if long && g.r.Chance(30) {
		sb.WriteString(g.pad(g.r.Range(1, 150)))
	}
	sb.WriteString([]string{"", "", ";", ";", " ;", ";;", "; "}[g.r.Intn(7)])
	return sb.String()
}

func (g c37Gen) query() string {
	switch g.r.Intn(16) {
	case 0:
		return g.kw("show") + g.ws() + g.kw("topics") + []string{"", ";"}[g.r.Intn(2)]
	case 1:
		return g.kw("show") + g.ws() + g.kw("partitions") + g.ws() + g.kw("from") + g.ws() + g.topic() + []string{"", ";", ";;"}[g.r.Intn(3)]
	case 2:
		return g.kw("describe") + g.ws() + g.topic() + []string{"", ";", ";;", " ;"}[g.r.Intn(4)]
	case 3:
		return []string{"SET client_encoding = 'UTF8';", "set x = 1", "reset all;", "RESET ALL", "set\tx = 1", "  set a=b ; ", ";", "", " ; ", "settle", "set", "insert into orders values (1)",
			"select 1", "begin", "select * from information_schema.tables", "select * from orders -- information_schema.tables"}[g.r.Intn(16)]
	case 4, 5, 6, 7, 8:
		return g.selectQ(true)
	default:
		return g.selectQ(false)
	}
}

// variant of a query with the same cache key: other white space / keyword case
func (g c37Gen) sameKey(q string) string {
	fs := strings.Fields(q)
	var sb strings.Builder
	if g.r.Chance(20) {
		sb.WriteString(g.ws())
	}
	for i, f := range fs {
		if i > 0 {
			sb.WriteString(c37Ws[g.r.Intn(len(c37Ws))])
		}
		if g.r.Chance(30) {
			f = strings.Map(func(c rune) rune {
				if 'a' <= c && c <= 'z' && g.r.Bool() {
					return c - 32
				}
				return c
			}, f)
		}
		sb.WriteString(f)
	}
	if g.r.Chance(20) {
		sb.WriteString(g.ws())
	}
	return sb.String()
}

// ---- near misses: texts an over-eager cache-key normaliser might identify with an allowed one
var c37NearPairs = [][2]string{
	{"events-2024", "events-2025"}, {"metrics.7", "metrics.8"}, {"t_1", "t_2"}, {"orders2", "orders3"}, {"v1.orders", "v2.orders"},
	{"a-1-b", "a-2-b"}, {"orders", "orders1"}, {"orders", "orders-1"}, {"orders", "orders.0"}, {"logs.2024.01", "logs.2024.02"},
	{"orders", "orders_"}, {"orders", "orders."}, {"orders", "orders,"}, {"orders", "'orders'"}, {"orders", "\"orders\""}, {"orders", "orders`"},
	{"orders", "ord ers"}, {"orders", "ordérs"}, {"orders", "0rders"}, {"7", "8"}, {"2024", "2025"},
}

// nearQuery builds a statement over the given topic names; the same shape with other names
// is its near miss
func (g c37Gen) nearQuery(shape int, t1, t2 string, num int) string {
	switch shape % 7 {
	case 0:
		return fmt.Sprintf("select * from %s limit %d", t1, num)
	case 1:
		return fmt.Sprintf("SELECT _key FROM %s WHERE _offset >= %d LIMIT 10", t1, num)
	case 2:
		return fmt.Sprintf("select * from orders o join %s p on o._key = p._key last %dh", t1, num)
	case 3:
		return fmt.Sprintf("select * from %s a left join %s b on a._key = b._key within %dm", t1, t2, num)
	case 4:
		return fmt.Sprintf("describe %s", t1)
	case 5:
		return fmt.Sprintf("show partitions from %s;", t1)
	default:
		return fmt.Sprintf("explain select json_value(_value, '$.f%d') from %s tail %d", num, t1, num)
	}
}

// digitMiss changes one run of digits of q (a name segment, a literal, a LIMIT ...)
func (g c37Gen) digitMiss(q string) string {
	var runs [][2]int
	for i := 0; i < len(q); {
		if q[i] >= '0' && q[i] <= '9' {
			j := i
			for j < len(q) && q[j] >= '0' && q[j] <= '9' {
				j++
			}
			runs = append(runs, [2]int{i, j})
			i = j
		} else {
			i++
		}
	}
	if len(runs) == 0 {
		return q + " limit 3"
	}
	rn := runs[g.r.Intn(len(runs))]
	return q[:rn[0]] + fmt.Sprint(g.r.Range(0, 99)) + q[rn[1]:]
}

func c37NearCase(r *vRand) c37Case {
	g := c37Gen{r}
	pair := c37NearPairs[r.Intn(len(c37NearPairs))]
	good, bad := pair[0], pair[1]
	if r.Chance(30) {
		good, bad = bad, good
	}
	cs := c37Case{TTL: 3600, Max: r.Range(4, 64)}
	switch r.Intn(4) {
	case 0:
		cs.Allow = []string{"orders", good}
	case 1:
		cs.Deny = []string{bad}
	case 2:
		cs.Allow, cs.Deny = []string{"*"}, []string{bad}
	default:
		cs.Allow = []string{good}
	}
	shape, num := r.Intn(7), r.Range(1, 9)
	// the allowed statement first (it fills the cache), then its near misses
	cs.Msgs = append(cs.Msgs, []byte(g.nearQuery(shape, good, good, num)))
	n := r.Range(2, 6)
	for i := 0; i < n; i++ {
		var q string
		switch r.Intn(8) {
		case 0, 1:
			q = g.nearQuery(shape, bad, good, num) // only the name differs
		case 2:
			q = g.nearQuery(shape, good, bad, num)
		case 3:
			q = g.nearQuery(shape, bad, bad, r.Range(1, 9))
		case 4:
			q = g.nearQuery(shape, good, good, r.Range(10, 99)) // only a number differs: may or may not share a decision
		case 5:
			q = g.digitMiss(string(cs.Msgs[r.Intn(len(cs.Msgs))]))
		case 6:
			q = g.sameKey(string(cs.Msgs[r.Intn(len(cs.Msgs))]))
		default:
			q = g.nearQuery(r.Intn(7), bad, good, num)
		}
		cs.Msgs = append(cs.Msgs, []byte(strings.ReplaceAll(q, "\x00", " ")))
	}
	return cs
}

// ---- ACLs using every glob feature of path.Match, with topics that match only through it
type c37Glob struct {
	pats   []string
	topics []string // some match, some do not
}

var c37Globs = []c37Glob{
	{[]string{"pii-?"}, []string{"pii-1", "pii-x", "pii-", "pii-12", "pii"}},
	{[]string{"audit-[0-9]"}, []string{"audit-7", "audit-x", "audit-77", "audit-"}},
	{[]string{"orders-[a-c]", "t[^x]"}, []string{"orders-a", "orders-d", "tx", "ty", "t"}},
	{[]string{"events-20[0-9][0-9]", "*-tmp"}, []string{"events-2024", "events-1999", "x-tmp", "tmp", "events-20ab"}},
	{[]string{"sec\\*ret"}, []string{"sec*ret", "secret", "sec\\*ret", "secxret"}},
	{[]string{"[abc", "a[", "[]x]"}, []string{"[abc", "a", "a[", "b", "]", "x"}},
	{[]string{"ord?rs", "?"}, []string{"orders", "ordrs", "ordxrs", "o", "or"}},
	{[]string{"a\\?b", "[a-]x", "[!a]y"}, []string{"a?b", "axb", "-x", "ax", "by", "ay", "!y"}},
	{[]string{" pii-? ", "", "metrics.[0-9]*"}, []string{"pii-9", "metrics.7", "metrics.x", "metrics.77.a"}},
}

func c37GlobCase(r *vRand) c37Case {
	g := c37Gen{r}
	gl := c37Globs[r.Intn(len(c37Globs))]
	cs := c37Case{}
	switch r.Intn(5) {
	case 0, 1:
		cs.Deny = gl.pats // the deny entries must bite
	case 2:
		cs.Allow, cs.Deny = []string{"*"}, gl.pats
	case 3:
		cs.Allow = gl.pats
	default:
		cs.Allow, cs.Deny = append([]string{"orders"}, gl.pats...), []string{gl.topics[r.Intn(len(gl.topics))]}
	}
	if r.Chance(60) {
		cs.TTL, cs.Max = 3600, r.Range(2, 32)
	}
	n := r.Range(3, 8)
	for i := 0; i < n; i++ {
		t1 := gl.topics[r.Intn(len(gl.topics))]
		t2 := gl.topics[r.Intn(len(gl.topics))]
		if r.Chance(25) {
			t1 = "orders"
		}
		q := g.nearQuery(r.Intn(7), t1, t2, r.Range(1, 9))
		if r.Chance(15) {
			q = "show topics"
		}
		cs.Msgs = append(cs.Msgs, []byte(q))
	}
	return cs
}

func c37GenCase(r *vRand) c37Case {
	if r.Chance(40) {
		return c37NearCase(r)
	}
	if r.Chance(35) {
		return c37GlobCase(r)
	}
	g := c37Gen{r}
	a := c37ACLs[r.Intn(len(c37ACLs))]
	cs := c37Case{Allow: a.allow, Deny: a.deny}
	switch r.Intn(5) {
	case 0:
		cs.TTL, cs.Max = 0, 0
	case 1:
		cs.TTL, cs.Max = 3600, r.Range(1, 2)
	default:
		cs.TTL, cs.Max = 3600, r.Range(3, 64)
	}
	n := r.Range(2, 8)
	for i := 0; i < n; i++ {
		var q string
		switch {
		case i > 0 && r.Chance(20):
			q = string(cs.Msgs[r.Intn(len(cs.Msgs))]) // exact repeat: cache hit
		case i > 0 && r.Chance(20):
			q = g.sameKey(string(cs.Msgs[r.Intn(len(cs.Msgs))]))
		case i > 0 && r.Chance(25):
			// same first 512 bytes as an earlier long text, another tail
			prev := strings.TrimSpace(string(cs.Msgs[r.Intn(len(cs.Msgs))]))
			if len(prev) > 512 {
				q = prev[:512] + " " + []string{g.kw("join") + " " + g.topic() + " s " + g.kw("on") + " o._key = s._key", g.kw("last") + " 1h", g.kw("limit") + " 5", ""}[r.Intn(4)]
			} else {
				q = g.selectQ(true)
			}
		default:
			q = g.query()
		}
		q = strings.ReplaceAll(q, "\x00", " ")
		cs.Msgs = append(cs.Msgs, []byte(q))
	}
	return cs
}

// c37RealVerdicts asks the code under test, through the production path (proxy.New with the
// raw configured lists -> handleConn builds its ACL from the configuration), whether each
// topic is allowed and whether SHOW TOPICS is: one connection without cache, a
// "describe <topic>;" probe per topic (Parse strips the ';' and yields exactly the topic).
func c37RealVerdicts(cs c37Case, topics []string) (map[string]bool, bool, string) {
	probe := c37Case{Allow: cs.Allow, Deny: cs.Deny}
	for _, t := range topics {
		probe.Msgs = append(probe.Msgs, []byte("describe "+t+";"))
	}
	probe.Msgs = append(probe.Msgs, []byte("show topics"))
	obs := c37Run(probe)
	if obs.err != "" || len(obs.forwarded) != len(probe.Msgs) {
		return nil, false, "probe connection failed: " + obs.err
	}
	out := map[string]bool{}
	for i, t := range topics {
		out[t] = obs.forwarded[i]
	}
	return out, obs.forwarded[len(topics)], ""
}

func c37Coq(cs c37Case, obs c37Obs) string {
	acl := ACL{Allow: cs.Allow, Deny: cs.Deny}
	_ = acl
	topicSet := map[string]bool{"*": true}
	msgs := make([]string, len(cs.Msgs))
	for i, m := range cs.Msgs {
		text := string(m)
		ok := false
		var topics []string
		show := false
		if p, err := kafsql.Parse(text); err == nil {
			ok = true
			topics, show = c37UpstreamTopics(p)
			for _, t := range topics {
				topicSet[t] = true
			}
		}
		ts := make([]string, len(topics))
		for j, t := range topics {
			ts[j] = cqStr(t)
		}
		fwd := i < len(obs.forwarded) && obs.forwarded[i]
		msgs[i] = fmt.Sprintf("mkMsg %s %s %s %s %s %s", cqStr(text), cqBool(ok), cqList(ts), cqBool(show), cqBool(fwd), cqStr(cacheKey(text)))
	}
	var tab, real []string
	var probeTopics []string
	for t := range topicSet {
		if t != "" && len(strings.Fields(t)) == 1 && strings.Fields(t)[0] == t && t != "*" {
			probeTopics = append(probeTopics, t)
		}
	}
	sort.Strings(probeTopics)
	verdicts, realShow, perr := c37RealVerdicts(cs, probeTopics)
	if perr != "" {
		verdicts, realShow = map[string]bool{}, !c37RefAllowShow(cs.Allow, cs.Deny) // forces a mismatch
	}
	for t := range topicSet {
		tab = append(tab, fmt.Sprintf("(%s, (%s, %s))", cqStr(t), cqBool(c37RefMatch(cs.Deny, t)), cqBool(c37RefMatch(cs.Allow, t))))
		if v, ok := verdicts[t]; ok {
			real = append(real, fmt.Sprintf("(%s, %s)", cqStr(t), cqBool(v)))
		}
	}
	sort.Strings(real)
	// deterministic order
	for i := range tab {
		for j := i + 1; j < len(tab); j++ {
			if tab[j] < tab[i] {
				tab[i], tab[j] = tab[j], tab[i]
			}
		}
	}
	strs := func(l []string) string {
		items := make([]string, len(l))
		for i, s := range l {
			items[i] = cqStr(s)
		}
		return cqList(items)
	}
	return fmt.Sprintf("mkCase %s %s %d %d %s %s %s %s", strs(cs.Allow), strs(cs.Deny), cs.TTL, cs.Max, cqList(tab), cqList(real), cqBool(realShow), cqList(msgs))
}

func TestVerifC37(t *testing.T) {
	rep := vNewReport("C37", "client connections through the real proxy handleConn (fake pgwire client, fake upstream recording received texts): 2-8 query messages per connection; selects / joins / explain / show / describe over allowed and forbidden topics, texts of 400-700 bytes with the join or second topic placed around byte 512 (white-space or column-list padding), trailing ';' variants, SET/RESET/empty/garbage, exact repeats and same-cache-key variants (cache hits), near misses of an allowed statement on the same connection (topic / join-topic names differing in a digit, in a digit-only segment after '-' '.' '_', in trailing punctuation, quotes, inner white space, a non-ASCII letter; numbers in LIMIT / offset / literal positions) with ACLs allowing exactly one of the two names, ACLs written with every path.Match feature ('?', classes, negated classes, escapes, malformed patterns, blank entries) in allow and in deny lists, raw configured lists that are blank-only / white-space-only / padded / duplicated / nil / empty (handed to proxy.New as configuration, so the ACL is built by the production path) over topics that match only through them, keyword case and multi-byte white space; 11 ACL shapes (allow lists, deny lists, patterns, empty); cache off / tiny / large. Non-trivial = at least one text is forwarded and at least one refused, or a text longer than 512 bytes is involved; distinct = distinct (ACL, cache, messages)")
	var coq, jsons []string
	runOne := func(cs c37Case, kind string) {
		obs := c37Run(cs)
		cs.Texts = nil
		canon, _ := json.Marshal(cs)
		nf, long := 0, false
		for i, m := range cs.Msgs {
			if i < len(obs.forwarded) && obs.forwarded[i] {
				nf++
			}
			if len(m) > 512 {
				long = true
			}
		}
		rep.Count(string(canon), long || (nf > 0 && nf < len(cs.Msgs)))
		rep.Hist(kind)
		if len(obs.upstream) > 0 {
			hits := 0
			seen := map[string]bool{}
			for _, m := range cs.Msgs {
				k := cacheKey(string(m))
				if seen[k] {
					hits++
				}
				seen[k] = true
			}
			if hits > 0 && cs.TTL > 0 && cs.Max > 0 {
				rep.Hist("has-repeated-cache-key")
			}
		}
		rep.Hist(fmt.Sprintf("forwarded=%d", nf))
		if long {
			rep.Hist("has-text>512")
		}
		if cs.TTL > 0 && cs.Max > 0 {
			rep.Hist("cache-on")
		}
		for _, m := range cs.Msgs {
			cs.Texts = append(cs.Texts, string(m))
		}
		rep.Sample(cs)
		if key, what := c37Oracle(cs, obs); key != "" {
			shr := cs
			shr.Msgs = vShrink(cs.Msgs, func(ms [][]byte) bool {
				c2 := c37Case{Allow: cs.Allow, Deny: cs.Deny, TTL: cs.TTL, Max: cs.Max, Msgs: ms}
				k2, _ := c37Oracle(c2, c37Run(c2))
				return k2 == key
			})
			shr.Texts = nil
			for _, m := range shr.Msgs {
				shr.Texts = append(shr.Texts, string(m))
			}
			if k2, w2 := c37Oracle(shr, c37Run(shr)); k2 == key {
				what = w2
			} else {
				shr = cs
			}
			rep.Fail(key, key, what, shr)
		}
		for _, m := range cs.Msgs {
			if law := c37Laws(string(m)); law != "" {
				rep.Fail("string-law", "string-law-"+law, fmt.Sprintf("Go string functions violate the law %s assumed by the proof on %q", law, string(m)), c37Case{Allow: cs.Allow, Deny: cs.Deny, Msgs: [][]byte{m}})
			}
		}
		if obs.err == "" {
			coq = append(coq, c37Coq(cs, obs))
			cs.Texts = nil
			js, _ := json.Marshal(cs)
			jsons = append(jsons, string(js))
		}
	}
	if rc := vReplayCase(); rc != nil {
		var cs c37Case
		if err := json.Unmarshal(rc, &cs); err != nil {
			t.Fatalf("bad replay: %v", err)
		}
		runOne(cs, "replay")
	} else {
		pad := strings.Repeat(" ", 490)
		corpus := []c37Case{
			// design-round witness: authorized on the first 512 bytes, the join is beyond
			{Allow: []string{"allowed"}, TTL: 60, Max: 8, Msgs: [][]byte{[]byte("select * from allowed" + pad + " join secret s on allowed._key = s._key")}},
			{Deny: []string{"secret"}, TTL: 60, Max: 8, Msgs: [][]byte{[]byte("select * from orders" + pad + " left join secret s on orders._key = s._key last 1h;")}},
			// the truncation cuts the topic name itself: "secret" -> "sec..."
			{Allow: []string{"orders", "sec..."}, Msgs: [][]byte{[]byte("select * from orders" + strings.Repeat(" ", 485) + "join secret s")}},
			// cached decision for the short text must not serve a long text with the same 512-byte prefix
			{Allow: []string{"orders"}, TTL: 60, Max: 8, Msgs: [][]byte{[]byte("select * from orders" + strings.Repeat(" ", 492)), []byte("select * from orders" + strings.Repeat(" ", 492) + " join secret s on orders._key = s._key")}},
			// two long texts with the same first 512 bytes must not share a cached decision
			{Allow: []string{"orders"}, TTL: 60, Max: 8, Msgs: [][]byte{[]byte("select * from orders" + strings.Repeat(" ", 492) + " last 1h"), []byte("select * from orders" + strings.Repeat(" ", 492) + " join secret s on orders._key = s._key")}},
			// two trailing semicolons: one stripped by the proxy, one by Parse, the upstream strips only one
			{Allow: []string{"orders"}, Msgs: [][]byte{[]byte("describe orders;;"), []byte("select * from orders;;"), []byte("show partitions from orders;;")}},
			{Allow: []string{"orders"}, TTL: 60, Max: 2, Msgs: [][]byte{[]byte("SELECT * FROM orders"), []byte("select  *  from  ORDERS"), []byte("select * from secret"), []byte("SELECT * FROM secret"), []byte("show topics"), []byte("SET x = 1;"), []byte("set\tx = 1")}},
			{Allow: []string{"orders"}, Msgs: [][]byte{[]byte("explain select * from orders join secret s on orders._key = s._key"), []byte("explain select * from orders;;"), []byte(""), []byte(";")}},
		}
		// shapes of the seeded cache-key normalisations: names differing in a digit-only segment
		corpus = append(corpus,
			c37Case{Allow: []string{"events-2024"}, TTL: 60, Max: 8, Msgs: [][]byte{[]byte("select * from events-2024 limit 5"), []byte("select * from events-2025 limit 5"), []byte("select * from events-2024 limit 7")}},
			c37Case{Deny: []string{"metrics.8"}, TTL: 60, Max: 8, Msgs: [][]byte{[]byte("select * from orders o join metrics.7 p on o._key = p._key"), []byte("select * from orders o join metrics.8 p on o._key = p._key")}},
			c37Case{Allow: []string{"orders"}, TTL: 60, Max: 8, Msgs: [][]byte{[]byte("describe orders"), []byte("describe orders1"), []byte("describe 'orders'"), []byte("describe orders."), []byte("DESCRIBE ORDERS")}},
		)
		// deny entries that are globs without '*': they must still match
		corpus = append(corpus,
			c37Case{Deny: []string{"pii-?"}, Msgs: [][]byte{[]byte("select * from pii-1"), []byte("describe pii-x"), []byte("select * from orders o join pii-2 p on o._key = p._key"), []byte("select * from orders")}},
			c37Case{Allow: []string{"*"}, Deny: []string{"audit-[0-9]"}, TTL: 60, Max: 8, Msgs: [][]byte{[]byte("show partitions from audit-7"), []byte("explain select * from audit-3"), []byte("select * from audit-x")}},
			c37Case{Allow: []string{"orders-[a-c]", "t[^x]", "[abc"}, Msgs: [][]byte{[]byte("select * from orders-a"), []byte("select * from orders-d"), []byte("describe ty"), []byte("describe tx"), []byte("describe [abc")}},
		)
		// an allow list of blank entries is not an empty allow list
		corpus = append(corpus,
			c37Case{Allow: []string{""}, Msgs: [][]byte{[]byte("select * from orders"), []byte("describe secret"), []byte("show topics"), []byte("set x = 1")}},
			c37Case{Allow: []string{" ", ""}, Deny: []string{"secret"}, TTL: 60, Max: 4, Msgs: [][]byte{[]byte("select * from orders o join payments p on o._key = p._key"), []byte("select * from secret")}},
			c37Case{Deny: []string{""}, Msgs: [][]byte{[]byte("show topics"), []byte("select * from orders")}},
		)
		if os.Getenv("VERIF_NO_CORPUS") != "" { // sensitivity experiments: generated cases only
			corpus = nil
		}
		for _, cs := range corpus {
			runOne(cs, "corpus")
		}
		r := vNewRand(vSeed())
		n := vN(70, 900)
		for i := 0; i < n; i++ {
			runOne(c37GenCase(r.Fork()), "generated")
		}
	}
	rep.Cases("C37", "From KS Require Import lib.Base model.SqlParse model.SqlProxy corr.SqlProxyCorr.", "case", "check_case", coq, jsons)
	rep.Write()
	if len(rep.Failures) > 0 {
		t.Logf("oracle failures: %s", strings.TrimSpace(rep.Failures[0].What))
	}
}
