package processor

// C33 adapter for addons/processors/iceberg-processor: builds the real Processor with
// fakes that delegate to c33World (see c33_core_test.go).

import (
	"bytes"
	"context"
	"io"
	"testing"

	"github.com/KafScale/platform/addons/processors/iceberg-processor/internal/config"
	"github.com/KafScale/platform/pkg/lfs"

	"github.com/KafScale/platform/addons/processors/iceberg-processor/internal/checkpoint"
	"github.com/KafScale/platform/addons/processors/iceberg-processor/internal/decoder"
	"github.com/KafScale/platform/addons/processors/iceberg-processor/internal/discovery"
	"github.com/KafScale/platform/addons/processors/iceberg-processor/internal/sink"
)

type c33Lister struct{ w *c33World }

func (l c33Lister) ListCompleted(ctx context.Context) ([]discovery.SegmentRef, error) {
	idx, err := l.w.List()
	if err != nil {
		return nil, err
	}
	out := make([]discovery.SegmentRef, len(idx))
	for i, s := range idx {
		t, p := c33PartName(l.w.cs.Segs[s].Part)
		out[i] = discovery.SegmentRef{Topic: t, Partition: p, SegmentKey: c33SegKey(s), IndexKey: "idx"}
	}
	return out, nil
}

type c33Decoder struct{ w *c33World }

func (d c33Decoder) Decode(ctx context.Context, segmentKey, indexKey string, topic string, partition int32) ([]decoder.Record, error) {
	recs, part, err := d.w.Decode(c33SegIdx(segmentKey))
	if err != nil {
		return nil, err
	}
	t, p := c33PartName(part)
	out := make([]decoder.Record, len(recs))
	for i, r := range recs {
		out[i] = decoder.Record{Topic: t, Partition: p, Offset: r.Off, Value: []byte("v")}
		if r.Lfs {
			env, _ := lfs.EncodeEnvelope(lfs.Envelope{Version: 1, Bucket: "b", Key: "blob", Size: 4, SHA256: "00"})
			out[i].Value = env
		}
	}
	return out, nil
}

type c33Store struct{ w *c33World }

func (s c33Store) ClaimLease(ctx context.Context, topic string, partition int32, ownerID string) (checkpoint.Lease, error) {
	if err := s.w.Claim(c33PartIdx(topic, partition)); err != nil {
		return checkpoint.Lease{}, err
	}
	return checkpoint.Lease{Topic: topic, Partition: partition, OwnerID: ownerID}, nil
}
func (s c33Store) RenewLease(ctx context.Context, lease checkpoint.Lease) error {
	return s.w.Renew(ctx)
}
func (s c33Store) ReleaseLease(ctx context.Context, lease checkpoint.Lease) error {
	s.w.Release()
	return nil
}
func (s c33Store) LoadOffset(ctx context.Context, topic string, partition int32) (checkpoint.OffsetState, error) {
	off, err := s.w.Load(c33PartIdx(topic, partition))
	if err != nil {
		return checkpoint.OffsetState{}, err
	}
	return checkpoint.OffsetState{Topic: topic, Partition: partition, Offset: off}, nil
}
func (s c33Store) CommitOffset(ctx context.Context, st checkpoint.OffsetState) error {
	return s.w.Commit(c33PartIdx(st.Topic, st.Partition), st.Offset)
}

// c33NoopStore is the module's real no-op store; only the claim is reported to the
// world so the oracle knows which partition is leased.
type c33NoopStore struct {
	checkpoint.Store
	w *c33World
}

func (s c33NoopStore) ClaimLease(ctx context.Context, topic string, partition int32, ownerID string) (checkpoint.Lease, error) {
	_ = s.w.Claim(c33PartIdx(topic, partition))
	return s.Store.ClaimLease(ctx, topic, partition, ownerID)
}

// c33S3 is the LFS blob reader used by the real resolveLfsRecords.
type c33S3 struct{ w *c33World }

func (s c33S3) Fetch(ctx context.Context, key string) ([]byte, error) {
	if err := s.w.Fetch(); err != nil {
		return nil, err
	}
	return []byte("blob"), nil
}
func (s c33S3) Stream(ctx context.Context, key string) (io.ReadCloser, int64, error) {
	return io.NopCloser(bytes.NewReader(nil)), 0, nil
}

type c33Sink struct{ w *c33World }

func (s c33Sink) Write(ctx context.Context, records []sink.Record) error {
	ws := make([]c33W, len(records))
	for i, r := range records {
		ws[i] = c33W{c33PartIdx(r.Topic, r.Partition), r.Offset}
	}
	return s.w.Write(ws)
}
func (s c33Sink) Close(ctx context.Context) error { return nil }

func c33NewProcessor(w *c33World, noop bool) func(context.Context) error {
	var store checkpoint.Store = c33Store{w}
	if noop {
		real, _ := checkpoint.New(config.Config{})
		store = c33NoopStore{real, w}
	}
	off := false
	lcfg := config.LfsConfig{Mode: lfsModeResolve, ResolveConcurrency: 1, ValidateChecksum: &off}
	mappings := map[string]config.Mapping{}
	for _, tp := range []string{"ta", "tb", "tc"} {
		mappings[tp] = config.Mapping{Topic: tp, Lfs: lcfg}
	}
	p := &Processor{cfg: config.Config{Processor: config.ProcessorConfig{PollIntervalSeconds: 5}},
		discover: c33Lister{w}, decode: c33Decoder{w}, store: store, sink: c33Sink{w},
		validator: nil, lfsS3: c33S3{w}, mappingByTopic: mappings}
	return p.Run
}

func TestVerifC33(t *testing.T) { c33Main(t, "iceberg", true) }
