package processor

// C33 harness, module-independent part. The three add-on processors (iceberg, sql,
// skeleton) have near-identical Run loops over module-specific types, so each module
// gets a small adapter file (c33_<module>_test.go) that builds the real Processor
// with in-package fakes delegating to the c33World defined here. The real Run is
// executed under testing/synctest (virtual time: the 5 s poll ticker and the 10 s
// lease-renew ticker fire deterministically); every polling cycle is scripted
// (listing, claim outcomes, per-segment fault) and observed (records written,
// committed offsets, claim attempts).

import (
	"context"
	"encoding/json"
	"errors"
	"fmt"
	"io"
	"sort"
	"strings"
	"sync"
	"testing"
	"testing/synctest"
	"time"
)

// fault codes (per listed segment; only used when the segment is processed)
const (
	c33FNone       = 0
	c33FLoad       = 1 // LoadOffset fails
	c33FDecode     = 2 // Decode fails
	c33FLfs        = 3 // every LFS blob fetch of this segment fails (iceberg only)
	c33FSink       = 4 // sink.Write fails
	c33FCommitPre  = 5 // CommitOffset fails, offset not stored
	c33FCommitPost = 6 // CommitOffset stores the offset, then reports an error (etcd: watermark put fails)
)

var c33FaultNames = []string{"FNone", "FLoad", "FDecode", "FLfs", "FSink", "FCommitPre", "FCommitPost"}

type c33Rec struct {
	Off int64 `json:"off"`
	Lfs bool  `json:"lfs,omitempty"`
}
type c33Seg struct {
	Part int      `json:"part"` // index into the partition table (c33PartName)
	Recs []c33Rec `json:"recs"`
}
type c33Listed struct {
	Seg     int  `json:"seg"` // index into Segs
	ClaimOK bool `json:"claim_ok"`
	Fault   int  `json:"fault"`
	Class   int  `json:"class,omitempty"` // error class of the injected failure (claim failure or fault), see c33Err
}
type c33Cycle struct {
	ListFail  bool        `json:"list_fail,omitempty"`
	Listing   []c33Listed `json:"listing"`
	LoseLease bool        `json:"lose_lease,omitempty"` // the pending lease renewal after this cycle fails (if one is pending)
	Class     int         `json:"class,omitempty"`      // error class of the listing failure / lease renewal failure
}
type c33Case struct {
	Noop   bool       `json:"noop"` // use the module's real no-op checkpoint store
	Segs   []c33Seg   `json:"segs"`
	Cycles []c33Cycle `json:"cycles"` // the harness appends one fault-free cycle listing every segment
}

type c33W struct {
	Part int
	Off  int64
}

type c33Obs struct {
	listFail  bool
	listing   []c33Listed
	writes    []c33W
	commits   map[int]int64
	claims    int
	leaseLost bool // a lease-lost notification was delivered after this cycle
}

func c33PartName(i int) (string, int32) { return []string{"ta", "tb", "tc"}[i/2%3], int32(i % 2) }
func c33PartIdx(topic string, p int32) int {
	for i := 0; i < 6; i++ {
		if t, q := c33PartName(i); t == topic && q == p {
			return i
		}
	}
	return -1
}
func c33SegKey(i int) string { return fmt.Sprintf("seg-%d.kfs", i) }
func c33SegIdx(key string) int {
	var i int
	if _, err := fmt.Sscanf(key, "seg-%d.kfs", &i); err != nil {
		return -1
	}
	return i
}

// c33World is what the fakes talk to.
type c33World struct {
	mu        sync.Mutex
	cs        *c33Case
	armed     *c33Cycle
	cur       int // listing position of the segment being processed
	claims    int
	committed map[int]int64
	written   []c33W
	cycWrites []c33W
	lease     int // partition claimed last (-1 none)
	endLease  int // value of lease after the last cycle, before shutdown releases it
	renewWait bool
	renewCh   chan error
	cancel    context.CancelFunc // cancels the processor's ctx
	cancelled bool               // ... and it was used (class cancel-run)
	ended     bool               // Run returned before the script was over
	anomalies []string
}

var errC33 = errors.New("c33: injected transient failure")

// Error classes: WHAT a failing dependency returns is a generated dimension; the
// processors must treat every non-nil error of a fault point as a failure of that
// step, whatever it wraps or implements (the processor's own ctx stays alive, except
// for the last class).
const (
	c33EPlain         = iota
	c33EWrapDeadline  // fmt.Errorf("...: %w", context.DeadlineExceeded): a client-side timeout inside the dependency
	c33EWrapCanceled  // wrapped context.Canceled: a per-request context inside the dependency
	c33EDeadline      // context.DeadlineExceeded itself
	c33ECanceled      // context.Canceled itself
	c33EEOF           // io.EOF
	c33EUnexpectedEOF // io.ErrUnexpectedEOF
	c33ENetTimeout    // a net.Error with Timeout() == true
	c33ETemporary     // an error implementing Temporary() bool
	c33EJoin          // errors.Join of several of the above
	c33ETyped         // a pointer-typed error value
	c33ETypedNil      // a nil pointer of an error type stored in the error interface (err != nil holds)
	c33ECancelRun     // the processor's OWN ctx is cancelled at this point and ctx.Err() is returned
	c33EClasses
)

var c33ClassNames = []string{"plain", "wrap-deadline", "wrap-canceled", "deadline", "canceled", "eof", "unexpected-eof",
	"net-timeout", "temporary", "join", "typed", "typed-nil", "cancel-run"}

type c33NetErr struct{}

func (c33NetErr) Error() string   { return "c33: i/o timeout" }
func (c33NetErr) Timeout() bool   { return true }
func (c33NetErr) Temporary() bool { return true }

type c33TempErr struct{}

func (c33TempErr) Error() string   { return "c33: temporarily unavailable" }
func (c33TempErr) Temporary() bool { return true }

type c33TypedErr struct{ code int }

func (e *c33TypedErr) Error() string {
	if e == nil {
		return "c33: typed nil error"
	}
	return fmt.Sprintf("c33: typed error %d", e.code)
}

func (w *c33World) mkErr(class int) error {
	switch class {
	case c33EWrapDeadline:
		return fmt.Errorf("c33: request failed: %w", context.DeadlineExceeded)
	case c33EWrapCanceled:
		return fmt.Errorf("c33: request failed: %w", context.Canceled)
	case c33EDeadline:
		return context.DeadlineExceeded
	case c33ECanceled:
		return context.Canceled
	case c33EEOF:
		return io.EOF
	case c33EUnexpectedEOF:
		return io.ErrUnexpectedEOF
	case c33ENetTimeout:
		return c33NetErr{}
	case c33ETemporary:
		return c33TempErr{}
	case c33EJoin:
		return errors.Join(errC33, fmt.Errorf("c33: %w", context.DeadlineExceeded), io.ErrUnexpectedEOF)
	case c33ETyped:
		return &c33TypedErr{code: 7}
	case c33ETypedNil:
		var e *c33TypedErr
		return e
	case c33ECancelRun:
		if w.cancel != nil {
			w.cancel()
			w.cancelled = true
		}
		return fmt.Errorf("c33: %w", context.Canceled)
	}
	return errC33
}

// errHere: the error of the fault hitting the segment being processed.
func (w *c33World) errHere() error {
	if w.armed == nil || w.cur < 0 || w.cur >= len(w.armed.Listing) {
		return errC33
	}
	return w.mkErr(w.armed.Listing[w.cur].Class)
}

func (w *c33World) anomaly(f string, a ...any) {
	w.anomalies = append(w.anomalies, fmt.Sprintf(f, a...))
}

func (w *c33World) List() ([]int, error) {
	w.mu.Lock()
	defer w.mu.Unlock()
	if w.armed == nil {
		w.anomaly("ListCompleted without a scripted cycle")
		return nil, errC33
	}
	w.cur = -1
	w.claims = 0
	if w.armed.ListFail {
		return nil, w.mkErr(w.armed.Class)
	}
	out := make([]int, len(w.armed.Listing))
	for i, l := range w.armed.Listing {
		out[i] = l.Seg
	}
	return out, nil
}

func (w *c33World) Claim(part int) error {
	w.mu.Lock()
	defer w.mu.Unlock()
	j := w.claims
	w.claims++
	if w.armed == nil || j >= len(w.armed.Listing) {
		w.anomaly("unexpected ClaimLease #%d", j)
		return errC33
	}
	if w.cs.Segs[w.armed.Listing[j].Seg].Part != part {
		w.anomaly("ClaimLease #%d for partition %d, listing has %d", j, part, w.cs.Segs[w.armed.Listing[j].Seg].Part)
	}
	if !w.armed.Listing[j].ClaimOK {
		return w.mkErr(w.armed.Listing[j].Class)
	}
	w.lease = part
	return nil
}

func (w *c33World) fault() int {
	if w.armed == nil || w.cur < 0 || w.cur >= len(w.armed.Listing) {
		return c33FNone
	}
	return w.armed.Listing[w.cur].Fault
}

func (w *c33World) Load(part int) (int64, error) {
	w.mu.Lock()
	defer w.mu.Unlock()
	if w.armed != nil {
		k := w.cur + 1
		for k < len(w.armed.Listing) && w.cs.Segs[w.armed.Listing[k].Seg].Part != part {
			k++
		}
		w.cur = k
	}
	if w.fault() == c33FLoad {
		return 0, w.errHere()
	}
	if c, ok := w.committed[part]; ok {
		return c, nil
	}
	return -1, nil
}

// Decode: seg is the universe index parsed from the segment key.
func (w *c33World) Decode(seg int) ([]c33Rec, int, error) {
	w.mu.Lock()
	defer w.mu.Unlock()
	if w.armed != nil {
		pos := -1
		for k, l := range w.armed.Listing {
			if l.Seg == seg {
				pos = k
				break
			}
		}
		if pos < 0 {
			w.anomaly("Decode of unlisted segment %d", seg)
		}
		w.cur = pos
	}
	if seg < 0 || seg >= len(w.cs.Segs) {
		return nil, 0, errC33
	}
	if w.fault() == c33FDecode {
		return nil, 0, w.errHere()
	}
	return w.cs.Segs[seg].Recs, w.cs.Segs[seg].Part, nil
}

func (w *c33World) Fetch() error {
	w.mu.Lock()
	defer w.mu.Unlock()
	if w.fault() == c33FLfs {
		return w.errHere()
	}
	return nil
}

func (w *c33World) Write(recs []c33W) error {
	w.mu.Lock()
	defer w.mu.Unlock()
	if w.fault() == c33FSink {
		return w.errHere()
	}
	w.written = append(w.written, recs...)
	w.cycWrites = append(w.cycWrites, recs...)
	return nil
}

func (w *c33World) Commit(part int, off int64) error {
	w.mu.Lock()
	defer w.mu.Unlock()
	switch w.fault() {
	case c33FCommitPre:
		return w.errHere()
	case c33FCommitPost:
		w.committed[part] = off
		return w.errHere()
	}
	w.committed[part] = off
	return nil
}

func (w *c33World) Renew(ctx context.Context) error {
	w.mu.Lock()
	w.renewWait = true
	w.mu.Unlock()
	select {
	case err := <-w.renewCh:
		return err
	case <-ctx.Done():
		return ctx.Err()
	}
}

func (w *c33World) Release() {
	w.mu.Lock()
	w.lease = -1
	w.mu.Unlock()
}

// c33Execute runs the case on the real Run loop. It returns the per-cycle
// observations (the last one belongs to the appended fault-free full cycle).
func c33Execute(t *testing.T, cs c33Case) (obs []c33Obs, w *c33World) {
	cycles := append([]c33Cycle(nil), cs.Cycles...)
	full := c33Cycle{}
	for i := range cs.Segs {
		full.Listing = append(full.Listing, c33Listed{Seg: i, ClaimOK: true})
	}
	cycles = append(cycles, full)
	w = &c33World{cs: &cs, committed: map[int]int64{}, lease: -1}
	synctest.Test(t, func(t *testing.T) {
		w.renewCh = make(chan error) // bubble-local: blocking on it is durable for synctest.Wait
		ctx, cancel := context.WithCancel(context.Background())
		w.cancel = cancel
		run := c33NewProcessor(w, cs.Noop)
		done := make(chan error, 1)
		go func() { done <- run(ctx) }()
		time.Sleep(2500 * time.Millisecond)
		for i := range cycles {
			w.mu.Lock()
			w.armed = &cycles[i]
			w.cycWrites = nil
			w.claims = 0
			w.mu.Unlock()
			time.Sleep(5 * time.Second) // the poll tick happens in the middle of this sleep
			synctest.Wait()
			w.mu.Lock()
			o := c33Obs{listFail: cycles[i].ListFail, listing: cycles[i].Listing, writes: append([]c33W(nil), w.cycWrites...), claims: w.claims, commits: map[int]int64{}}
			if cycles[i].ListFail {
				o.claims = 0
			}
			for k, v := range w.committed {
				o.commits[k] = v
			}
			pending := w.renewWait
			w.armed = nil
			w.mu.Unlock()
			w.mu.Lock()
			cancelled := w.cancelled
			w.mu.Unlock()
			if cancelled { // the processor's own ctx was cancelled during this cycle: Run has to return
				obs = append(obs, o)
				select {
				case <-done:
					done <- nil
				case <-time.After(time.Minute):
					w.anomaly("Run did not return after its context was cancelled")
				}
				w.ended = true
				break
			}
			if pending {
				w.mu.Lock()
				w.renewWait = false
				w.mu.Unlock()
				if cycles[i].LoseLease {
					w.renewCh <- w.mkErr(cycles[i].Class % c33ECancelRun)
					o.leaseLost = true
				} else {
					w.renewCh <- nil
				}
				synctest.Wait()
			}
			obs = append(obs, o)
		}
		w.mu.Lock()
		w.endLease = w.lease
		w.mu.Unlock()
		cancel()
		select {
		case <-done:
		case <-time.After(time.Minute):
			w.anomaly("Run did not return after cancel")
		}
		synctest.Wait()
	})
	return obs, w
}

// ---------- implementation-side oracle ----------

// c33Oracle checks the two clauses of the property on what the real code did.
// Returns (oracle, key, what) of the first failure or "".
func c33Oracle(cs c33Case, obs []c33Obs, w *c33World) (string, string, string) {
	if len(w.anomalies) > 0 {
		return "harness", "harness-anomaly", strings.Join(w.anomalies, "; ")
	}
	written := map[c33W]bool{}
	lease := -1
	faulted := map[int]int{} // segment -> a fault that made it fail in some cycle
	for ci, o := range obs {
		for _, x := range o.writes {
			written[x] = true
		}
		for _, l := range o.listing {
			if l.Fault >= c33FLoad && l.Fault <= c33FSink {
				if _, ok := faulted[l.Seg]; !ok {
					faulted[l.Seg] = l.Fault
				}
			}
		}
		// clause 1: a checkpoint never moves past an unwritten record
		for part, c := range o.commits {
			for si, sg := range cs.Segs {
				if sg.Part != part {
					continue
				}
				for _, r := range sg.Recs {
					if r.Off <= c && !written[c33W{part, r.Off}] {
						return "checkpoint_safe", c33Classify(cs, si, r, faulted),
							fmt.Sprintf("after cycle %d the checkpoint of partition %d is %d but the record at offset %d (segment %d) was never written to the sink", ci, part, c, r.Off, si)
					}
				}
			}
		}
		_ = lease
	}
	// clause 2: after the final fault-free cycle listing everything, every record of the leased partition is written
	if w.ended {
		// the processor's own context was cancelled: Run returned, no further cycle can deliver anything
	} else if w.endLease >= 0 {
		for si, sg := range cs.Segs {
			if sg.Part != w.endLease {
				continue
			}
			for _, r := range sg.Recs {
				if !written[c33W{sg.Part, r.Off}] {
					return "eventually_all", c33Classify(cs, si, r, faulted),
						fmt.Sprintf("after a final fault-free cycle the record at offset %d of segment %d (leased partition %d) was never written to the sink", r.Off, si, sg.Part)
				}
			}
		}
	} else if len(cs.Segs) > 0 {
		return "eventually_all", "no-lease-after-fault-free-cycle", "no partition is leased after a fault-free cycle over a non-empty listing"
	}
	return "", "", ""
}

func c33Classify(cs c33Case, seg int, r c33Rec, faulted map[int]int) string {
	if cs.Noop && r.Off == 0 {
		return "noop-store-offset-0-dropped"
	}
	if f, ok := faulted[seg]; ok {
		if f == c33FLfs && r.Lfs {
			return "lfs-fetch-error-drops-record"
		}
		if !cs.Noop {
			return "failed-segment-skipped-then-later-commit"
		}
	}
	return "undelivered-record"
}

// ---------- generator ----------

func c33Gen(r *vRand, lfsAllowed bool) c33Case {
	cs := c33Case{Noop: r.Chance(25)}
	nparts := r.Range(1, 3)
	next := make([]int64, nparts)
	for p := range next {
		if r.Chance(30) {
			next[p] = int64(r.Range(1, 40))
		}
	}
	nsegs := r.Range(1, 6)
	for i := 0; i < nsegs; i++ {
		p := r.Intn(nparts)
		sg := c33Seg{Part: p}
		n := r.Range(0, 4)
		if r.Chance(10) {
			n = 0
		}
		for k := 0; k < n; k++ {
			if r.Chance(15) {
				next[p] += int64(r.Range(1, 3)) // compacted gap
			}
			sg.Recs = append(sg.Recs, c33Rec{Off: next[p], Lfs: lfsAllowed && r.Chance(30)})
			next[p]++
		}
		cs.Segs = append(cs.Segs, sg)
	}
	// listings: segments become visible over time (per-partition prefixes of the universe); the
	// listing order is the universe order (discovery sorts by topic, partition, base offset; a
	// stable order is all the loop depends on)
	visible := r.Range(1, nsegs)
	ncyc := r.Range(1, 6)
	for c := 0; c < ncyc; c++ {
		cy := c33Cycle{ListFail: r.Chance(10), LoseLease: r.Chance(15)}
		if r.Chance(40) && visible < nsegs {
			visible += r.Range(1, nsegs-visible)
		}
		for i := 0; i < visible; i++ {
			l := c33Listed{Seg: i, ClaimOK: cs.Noop || !r.Chance(20)}
			if r.Chance(35) {
				if cs.Noop {
					l.Fault = []int{c33FDecode, c33FSink, c33FLfs}[r.Intn(3)]
				} else {
					l.Fault = r.Range(1, 6)
				}
				if l.Fault == c33FLfs && !lfsAllowed {
					l.Fault = c33FDecode
				}
			}
			if (l.Fault != 0 || !l.ClaimOK) && r.Chance(65) {
				l.Class = r.Range(1, c33ECancelRun-1)
			}
			cy.Listing = append(cy.Listing, l)
		}
		if (cy.ListFail || cy.LoseLease) && r.Chance(65) {
			cy.Class = r.Range(1, c33ECancelRun-1)
		}
		cs.Cycles = append(cs.Cycles, cy)
	}
	if r.Chance(6) { // once in a while the processor's own context is cancelled at a fault point
		cy := &cs.Cycles[r.Intn(len(cs.Cycles))]
		if len(cy.Listing) > 0 {
			l := &cy.Listing[r.Intn(len(cy.Listing))]
			if l.Fault == 0 {
				if cs.Noop {
					l.Fault = c33FSink
				} else {
					l.Fault = r.Range(1, 6)
					if l.Fault == c33FLfs && !lfsAllowed {
						l.Fault = c33FSink
					}
				}
			}
			l.Class = c33ECancelRun
		}
	}
	return cs
}

// visible-prefix listings only: a listing must be, per partition, a prefix of the universe
func c33ValidCase(cs c33Case) bool {
	if len(cs.Segs) == 0 || len(cs.Segs) > 64 {
		return false
	}
	last := map[int]int64{}
	for _, sg := range cs.Segs {
		if sg.Part < 0 || sg.Part >= 6 {
			return false
		}
		for _, r := range sg.Recs {
			if l, ok := last[sg.Part]; (ok && r.Off <= l) || r.Off < 0 {
				return false
			}
			last[sg.Part] = r.Off
		}
	}
	for _, cy := range cs.Cycles {
		seen := map[int]bool{}
		for _, l := range cy.Listing {
			if l.Seg < 0 || l.Seg >= len(cs.Segs) || seen[l.Seg] || l.Fault < 0 || l.Fault > c33FCommitPost || l.Class < 0 || l.Class >= c33EClasses || cy.Class < 0 || cy.Class >= c33EClasses {
				return false
			}
			seen[l.Seg] = true
			if cs.Noop && (!l.ClaimOK || l.Fault == c33FLoad || l.Fault >= c33FCommitPre) {
				return false
			}
		}
		// per partition: listed segments of the partition = the first k of the universe, in order
		for p := 0; p < 6; p++ {
			var uni, lst []int
			for i, sg := range cs.Segs {
				if sg.Part == p {
					uni = append(uni, i)
				}
			}
			for _, l := range cy.Listing {
				if cs.Segs[l.Seg].Part == p {
					lst = append(lst, l.Seg)
				}
			}
			if len(lst) > len(uni) {
				return false
			}
			for k := range lst {
				if lst[k] != uni[k] {
					return false
				}
			}
		}
	}
	return true
}

// ---------- Coq emission ----------

func c33CoqListing(cs c33Case, l []c33Listed) string {
	items := make([]string, len(l))
	for i, x := range l {
		items[i] = fmt.Sprintf("(mkSeg %d %d, %s, %s)", cs.Segs[x.Seg].Part, x.Seg, cqBool(x.ClaimOK), c33FaultNames[x.Fault])
	}
	return cqList(items)
}

func c33CoqPairs(ws []c33W) string {
	items := make([]string, len(ws))
	for i, x := range ws {
		items[i] = fmt.Sprintf("(%d, %s)", x.Part, cqZ(x.Off))
	}
	return cqList(items)
}

func c33Coq(cs c33Case, obs []c33Obs) string {
	table := make([]string, len(cs.Segs))
	segs := make([]string, len(cs.Segs))
	for i, sg := range cs.Segs {
		rs := make([]string, len(sg.Recs))
		for k, r := range sg.Recs {
			rs[k] = fmt.Sprintf("mkRec %d %s %s", sg.Part, cqZ(r.Off), cqBool(r.Lfs))
		}
		table[i] = cqList(rs)
		segs[i] = fmt.Sprintf("mkSeg %d %d", sg.Part, i)
	}
	var steps []string
	for _, o := range obs {
		ev := "ECycle None"
		if !o.listFail {
			ev = "ECycle (Some " + c33CoqListing(cs, o.listing) + ")"
		}
		var cm []c33W
		for p, c := range o.commits {
			cm = append(cm, c33W{p, c})
		}
		sort.Slice(cm, func(i, j int) bool { return cm[i].Part < cm[j].Part })
		steps = append(steps, fmt.Sprintf("mkStep (%s) %s %s %d", ev, c33CoqPairs(o.writes), c33CoqPairs(cm), o.claims))
		if o.leaseLost {
			steps = append(steps, fmt.Sprintf("mkStep ELeaseLost [] %s 0", c33CoqPairs(cm)))
		}
	}
	kind := "Persistent"
	if cs.Noop {
		kind = "Noop"
	}
	return fmt.Sprintf("mkCase %s %s %s %s", kind, cqList(table), cqList(segs), cqList(steps))
}

// ---------- driver ----------

func c33Corpus(lfsAllowed bool) []c33Case {
	corpus := []c33Case{
		// (a) a failed segment is skipped and a later segment's commit moves the checkpoint past it
		{Segs: []c33Seg{{Part: 0, Recs: []c33Rec{{Off: 0}, {Off: 1}}}, {Part: 0, Recs: []c33Rec{{Off: 2}, {Off: 3}}}},
			Cycles: []c33Cycle{{Listing: []c33Listed{{Seg: 0, ClaimOK: true, Fault: c33FDecode}, {Seg: 1, ClaimOK: true}}}}},
		{Segs: []c33Seg{{Part: 0, Recs: []c33Rec{{Off: 0}, {Off: 1}}}, {Part: 0, Recs: []c33Rec{{Off: 2}, {Off: 3}}}},
			Cycles: []c33Cycle{{Listing: []c33Listed{{Seg: 0, ClaimOK: true, Fault: c33FSink}, {Seg: 1, ClaimOK: true}}}}},
		{Segs: []c33Seg{{Part: 0, Recs: []c33Rec{{Off: 5}}}, {Part: 0, Recs: []c33Rec{{Off: 6}}}},
			Cycles: []c33Cycle{{Listing: []c33Listed{{Seg: 0, ClaimOK: true, Fault: c33FLoad}, {Seg: 1, ClaimOK: true}}}}},
		// (b) no-op checkpoint store: the partition's first record (offset 0)
		{Noop: true, Segs: []c33Seg{{Part: 0, Recs: []c33Rec{{Off: 0}, {Off: 1}}}}, Cycles: []c33Cycle{}},
		// commit failures of both kinds, lease loss, listing failure
		{Segs: []c33Seg{{Part: 0, Recs: []c33Rec{{Off: 0}}}, {Part: 1, Recs: []c33Rec{{Off: 0}}}, {Part: 0, Recs: []c33Rec{{Off: 1}}}},
			Cycles: []c33Cycle{{Listing: []c33Listed{{Seg: 0, Fault: c33FCommitPre}, {Seg: 1, ClaimOK: true}, {Seg: 2, ClaimOK: true, Fault: c33FCommitPost}}, LoseLease: true},
				{ListFail: true}, {Listing: []c33Listed{{Seg: 0, ClaimOK: true}, {Seg: 1, ClaimOK: true}, {Seg: 2, ClaimOK: true, Fault: c33FCommitPost}}, LoseLease: true},
				{Listing: []c33Listed{{Seg: 0, ClaimOK: true}, {Seg: 1, ClaimOK: true}, {Seg: 2, ClaimOK: true}}, LoseLease: true}}},
	}
	// error classes: a failing sink / decoder / store whose error wraps a context error, is an EOF, a
	// net timeout, ... while the processor's own context is alive is still a failure of that step
	for _, cl := range []int{c33EWrapDeadline, c33EWrapCanceled, c33ECanceled, c33EEOF, c33ENetTimeout, c33EJoin, c33ETypedNil} {
		for _, f := range []int{c33FSink, c33FDecode, c33FLoad} {
			corpus = append(corpus,
				c33Case{Segs: []c33Seg{{Part: 0, Recs: []c33Rec{{Off: 0}, {Off: 1}}}},
					Cycles: []c33Cycle{{Listing: []c33Listed{{Seg: 0, ClaimOK: true, Fault: f, Class: cl}}}}},
				c33Case{Segs: []c33Seg{{Part: 0, Recs: []c33Rec{{Off: 0}, {Off: 1}}}, {Part: 0, Recs: []c33Rec{{Off: 2}}}},
					Cycles: []c33Cycle{{Listing: []c33Listed{{Seg: 0, ClaimOK: true, Fault: f, Class: cl}, {Seg: 1, ClaimOK: true}}}}})
		}
	}
	// the processor's own context is cancelled while the sink is writing: Run returns, nothing is committed
	corpus = append(corpus, c33Case{Segs: []c33Seg{{Part: 0, Recs: []c33Rec{{Off: 0}, {Off: 1}}}, {Part: 0, Recs: []c33Rec{{Off: 2}}}},
		Cycles: []c33Cycle{{Listing: []c33Listed{{Seg: 0, ClaimOK: true, Fault: c33FSink, Class: c33ECancelRun}, {Seg: 1, ClaimOK: true}}}}})
	if lfsAllowed {
		// (c) a transient blob fetch error must not drop the record
		corpus = append(corpus, c33Case{Segs: []c33Seg{{Part: 0, Recs: []c33Rec{{Off: 0}, {Off: 1, Lfs: true}, {Off: 2}}}},
			Cycles: []c33Cycle{{Listing: []c33Listed{{Seg: 0, ClaimOK: true, Fault: c33FLfs}}}}})
	}
	return corpus
}

func c33Main(t *testing.T, name string, lfsAllowed bool) {
	rep := vNewReport("C33", "module "+name+": every injected failure carries a generated error class (plain, wrapped/bare context.DeadlineExceeded/Canceled, io.EOF, io.ErrUnexpectedEOF, net timeout, Temporary(), errors.Join, typed pointer, typed nil pointer; rarely: the processor's own ctx is cancelled at the fault point); generated universes (1-6 segments over 1-3 partitions, 0-4 records each, offset gaps, first offset 0 or >0), 1-6 scripted polling cycles (growing per-partition-prefix listings, list failure, claim failures, one fault per listed segment out of load/decode/lfs/sink/commit-pre/commit-post, lease loss) plus a final fault-free cycle, run on the real Processor.Run under synctest; non-trivial = at least one fault hit a processed segment and a later cycle wrote records; distinct = distinct canonical case JSON")
	var coq, jsons []string
	runOne := func(cs c33Case) {
		if !c33ValidCase(cs) {
			rep.Notes = append(rep.Notes, "skipped invalid case")
			return
		}
		obs, w := c33Execute(t, cs)
		canon, _ := json.Marshal(cs)
		hit := false
		for _, cy := range cs.Cycles {
			for _, l := range cy.Listing {
				if l.Fault != 0 {
					hit = true
					rep.Hist(c33FaultNames[l.Fault])
					rep.Hist("class=" + c33ClassNames[l.Class])
				}
			}
			if cy.ListFail {
				rep.Hist("ListFail")
			}
		}
		for _, o := range obs {
			if o.leaseLost {
				rep.Hist("LeaseLost")
			}
		}
		if cs.Noop {
			rep.Hist("store=noop")
		} else {
			rep.Hist("store=persistent")
		}
		rep.Count(name+string(canon), hit && len(w.written) > 0)
		rep.Sample(cs)
		if orc, key, what := c33Oracle(cs, obs, w); orc != "" {
			shr := cs
			fails := func(c c33Case) bool {
				if !c33ValidCase(c) {
					return false
				}
				o2, w2 := c33Execute(t, c)
				or2, k2, _ := c33Oracle(c, o2, w2)
				return or2 == orc && k2 == key
			}
			shr.Cycles = vShrink(cs.Cycles, func(cy []c33Cycle) bool { c := shr; c.Cycles = cy; return fails(c) })
			for ci := range shr.Cycles { // drop faults that are not needed
				for li := range shr.Cycles[ci].Listing {
					if shr.Cycles[ci].Listing[li].Fault != 0 {
						c := c33Clone(shr)
						c.Cycles[ci].Listing[li].Fault = 0
						if fails(c) {
							shr = c
						}
					}
				}
			}
			o2, w2 := c33Execute(t, shr)
			_, _, what2 := c33Oracle(shr, o2, w2)
			if what2 == "" {
				shr, what2 = cs, what
			}
			rep.Fail(orc, key, "["+name+"] "+what2, shr)
		}
		coq = append(coq, c33Coq(cs, obs))
		jsons = append(jsons, string(canon))
	}
	if rc := vReplayCase(); rc != nil {
		var cs c33Case
		if err := json.Unmarshal(rc, &cs); err != nil {
			t.Fatalf("bad replay: %v", err)
		}
		runOne(cs)
	} else {
		for _, cs := range c33Corpus(lfsAllowed) {
			runOne(cs)
		}
		r := vNewRand(vSeed() ^ uint64(len(name))*0x9e37)
		n := vN(100, 1500)
		for i := 0; i < n; i++ {
			runOne(c33Gen(r.Fork(), lfsAllowed))
		}
	}
	rep.Cases("C33_"+name, "From KS Require Import lib.Base model.Processor corr.ProcessorCorr.", "case", "check_case", coq, jsons)
	rep.WriteAs("C33_" + name)
	if len(rep.Failures) > 0 {
		t.Logf("oracle failures: %s", rep.Failures[0].What)
	}
}

func c33Clone(cs c33Case) c33Case {
	b, _ := json.Marshal(cs)
	var out c33Case
	_ = json.Unmarshal(b, &out)
	return out
}
