package storage

// C41 harness (partial, see checks/C41.py): the broker data path is free of data races.
// (1) race stress: concurrent produce (AppendBatch), Flush, fetch (Read at random
//     offsets, every returned byte read), read-ahead prefetch and direct cache
//     Get/Set on shared partitions -- real PartitionLog + SegmentCache + MemoryS3Client,
//     shared cache and S3 semaphore, tiny cache so eviction and re-download happen --
//     run in a child process of this test binary built with -race.  The parent parses
//     the child's output: every "WARNING: DATA RACE" block is an oracle failure whose
//     replay is the two stacks; the child also checks invariants (offsets unique and
//     contiguous per partition, bytes read back equal bytes appended).
// (2) annotation check: generated sequential schedules of the model's steps
//     (single-flight init, publish, append, flush, read, cache set/get, use of a
//     handed-out buffer) are executed on the real objects; a fake S3 observes whether
//     l.mu is held during S3 I/O (the model says it is not: TryLock must succeed) and
//     the cache hits/misses are compared with the model (corr/LocksetCorr.v), which
//     also checks that every executed step is enabled in the model.

import (
	"bytes"
	"context"
	"encoding/binary"
	"encoding/json"
	"fmt"
	"os"
	"os/exec"
	"reflect"
	"regexp"
	"sort"
	"strings"
	"sync"
	"sync/atomic"
	"testing"
	"time"

	"github.com/KafScale/platform/pkg/cache"
	"golang.org/x/sync/semaphore"
)

func c41Batch(marker uint32, records int32) RecordBatch {
	data := make([]byte, 70)
	binary.BigEndian.PutUint32(data[8:12], 58)
	binary.BigEndian.PutUint32(data[23:27], uint32(records-1))
	binary.BigEndian.PutUint32(data[57:61], uint32(records))
	binary.BigEndian.PutUint32(data[61:65], marker)
	b, _ := NewRecordBatchFromBytes(data)
	return b
}

// ---------------------------------------------------------------- (1) stress (child)
func c41Stress(t *testing.T, seed uint64) {
	r := vNewRand(seed)
	s3 := NewMemoryS3Client()
	sc := cache.NewSegmentCache(600) // a few segments only
	sem := semaphore.NewWeighted(3)
	const parts = 3
	logs := make([]*PartitionLog, parts)
	var flushed [parts]atomic.Int64
	for p := 0; p < parts; p++ {
		pp := p
		logs[p] = NewPartitionLog("ns", "t", int32(p), 0, s3, sc, PartitionLogConfig{
			Buffer:            WriteBufferConfig{MaxBytes: 200, MaxBatches: 3, FlushInterval: time.Millisecond},
			Segment:           SegmentWriterConfig{IndexIntervalMessages: 2},
			ReadAheadSegments: 2, CacheEnabled: true,
		}, func(ctx context.Context, a *SegmentArtifact) {
			for {
				cur := flushed[pp].Load()
				if a.LastOffset <= cur || flushed[pp].CompareAndSwap(cur, a.LastOffset) {
					break
				}
			}
		}, func(string, time.Duration, error) {}, sem)
	}
	ctx := context.Background()
	var wg sync.WaitGroup
	var mu sync.Mutex
	assigned := map[string]bool{}
	fail := func(f string, a ...any) { fmt.Printf("C41-INVARIANT: "+f+"\n", a...) }
	deadline := time.Now().Add(time.Duration(vN(1500, 8000)) * time.Millisecond)
	for g := 0; g < 4; g++ { // producers
		rr := r.Fork()
		wg.Add(1)
		go func(g int) {
			defer wg.Done()
			for i := 0; time.Now().Before(deadline); i++ {
				p := rr.Intn(parts)
				n := int32(rr.Range(1, 3))
				res, err := logs[p].AppendBatch(ctx, c41Batch(uint32(g<<24|i), n))
				if err != nil {
					fail("append: %v", err)
					return
				}
				mu.Lock()
				for o := res.BaseOffset; o <= res.LastOffset; o++ {
					k := fmt.Sprintf("%d/%d", p, o)
					if assigned[k] {
						fail("offset %s assigned twice", k)
					}
					assigned[k] = true
				}
				mu.Unlock()
				if res.LastOffset-res.BaseOffset != int64(n-1) {
					fail("append result %d..%d for %d records", res.BaseOffset, res.LastOffset, n)
				}
			}
		}(g)
	}
	for g := 0; g < 2; g++ { // flushers
		rr := r.Fork()
		wg.Add(1)
		go func() {
			defer wg.Done()
			for time.Now().Before(deadline) {
				if err := logs[rr.Intn(parts)].Flush(ctx); err != nil {
					fail("flush: %v", err)
				}
				time.Sleep(time.Duration(rr.Intn(300)) * time.Microsecond)
			}
		}()
	}
	for g := 0; g < 4; g++ { // fetchers
		rr := r.Fork()
		wg.Add(1)
		go func() {
			defer wg.Done()
			sum := 0
			for time.Now().Before(deadline) {
				p := rr.Intn(parts)
				hw := logs[p].BufferedHighWatermark()
				if hw == 0 {
					continue
				}
				off := int64(rr.Intn(int(hw)))
				data, err := logs[p].Read(ctx, off, int32(rr.Range(0, 400)))
				if err != nil {
					continue // out of range while a flush is in flight is C03's business
				}
				for _, b := range data { // touch every byte handed to the fetch path
					sum += int(b)
				}
				_ = logs[p].EarliestOffset()
			}
			_ = sum
		}()
	}
	for g := 0; g < 2; g++ { // direct cache traffic on the keys the logs use
		rr := r.Fork()
		wg.Add(1)
		go func() {
			defer wg.Done()
			sum := 0
			for time.Now().Before(deadline) {
				p := int32(rr.Intn(parts))
				base := int64(rr.Intn(40))
				if rr.Chance(30) {
					// foreign keys only (another topic sharing the cache): pressure and
					// eviction without planting bytes under a key a log owns
					sc.SetSegment("ns/other", p, base%6, rr.Bytes(rr.Range(0, 120)))
				} else if rr.Chance(40) {
					if d, ok := sc.GetSegment("ns/other", p, base%6); ok {
						for _, b := range d { // a reader keeps using the handed-out slice
							sum += int(b)
						}
					}
				} else if d, ok := sc.GetSegment("ns/t", p, base); ok {
					for _, b := range d {
						sum += int(b)
					}
				}
			}
			_ = sum
		}()
	}
	wg.Wait()
	time.Sleep(20 * time.Millisecond) // let prefetch goroutines finish
	for p := 0; p < parts; p++ {
		_ = logs[p].Flush(ctx)
		hw := logs[p].BufferedHighWatermark()
		for o := int64(0); o < hw; o++ {
			if !assigned[fmt.Sprintf("%d/%d", p, o)] {
				fail("partition %d: offset %d below the high watermark %d was never assigned", p, o, hw)
				break
			}
		}
	}
	cold := c41ColdBursts(seed, vN(240, 1200))
	fmt.Printf("C41-STRESS-DONE appended=%d cold_bursts=%d\n", len(assigned), cold)
}

// c41ColdBursts: many short bursts that START concurrent operations on a log in each
// "cold" state, with no sequential warm-up: (0) a log just rebuilt by RestoreFromS3
// over a seeded bucket -- overlapping first Reads || first Append+Flush || prefetch;
// (1) a freshly constructed empty log -- first Appends || Flush || Read; (2) a restored
// log hit only by overlapping first fetches.  Lazy initialisation on first use (a
// memoised key, a map created on demand, ...) races exactly here.
func c41ColdBursts(seed uint64, iters int) int {
	ctx := context.Background()
	r := vNewRand(seed ^ 0xc01d)
	n := 0
	for it := 0; it < iters; it++ {
		s3 := NewMemoryS3Client()
		sc := cache.NewSegmentCache(4000)
		sem := semaphore.NewWeighted(4)
		cfg := PartitionLogConfig{Buffer: WriteBufferConfig{MaxBatches: 1}, Segment: SegmentWriterConfig{IndexIntervalMessages: 1}, ReadAheadSegments: 2, CacheEnabled: true}
		mode := it % 3
		if mode != 1 {
			// seed the bucket through a throw-away log (3-4 one-batch segments)
			seedLog := NewPartitionLog("ns", "cold", 0, 0, s3, nil, PartitionLogConfig{Buffer: WriteBufferConfig{MaxBatches: 1}, Segment: SegmentWriterConfig{IndexIntervalMessages: 1}}, nil, nil, nil)
			for j := 0; j < 3+r.Intn(2); j++ {
				_, _ = seedLog.AppendBatch(ctx, c41Batch(uint32(j), 2))
				_ = seedLog.Flush(ctx)
			}
		}
		l := NewPartitionLog("ns", "cold", 0, 0, s3, sc, cfg, func(context.Context, *SegmentArtifact) {}, func(string, time.Duration, error) {}, sem)
		if mode != 1 {
			if _, err := l.RestoreFromS3(ctx); err != nil {
				fmt.Printf("C41-INVARIANT: cold restore: %v\n", err)
				continue
			}
		}
		start := make(chan struct{})
		var wg sync.WaitGroup
		run := func(f func()) {
			wg.Add(1)
			go func() { defer wg.Done(); <-start; f() }()
		}
		read := func(off int64) func() {
			return func() {
				d, _ := l.Read(ctx, off, 4096)
				x := 0
				for _, b := range d {
					x += int(b)
				}
				_ = x
			}
		}
		switch mode {
		case 0:
			run(read(0))
			run(read(2))
			run(read(int64(r.Intn(6))))
			run(func() { _, _ = l.AppendBatch(ctx, c41Batch(99, 2)); _ = l.Flush(ctx) })
			run(func() { _ = l.Flush(ctx) })
		case 1:
			run(func() { _, _ = l.AppendBatch(ctx, c41Batch(1, 2)) })
			run(func() { _, _ = l.AppendBatch(ctx, c41Batch(2, 1)); _ = l.Flush(ctx) })
			run(func() { _ = l.Flush(ctx) })
			run(read(0))
			run(func() { _ = l.BufferedHighWatermark(); _ = l.EarliestOffset() })
		case 2:
			for k := 0; k < 4; k++ {
				run(read(int64(r.Intn(6))))
			}
		}
		close(start)
		wg.Wait()
		n++
	}
	time.Sleep(20 * time.Millisecond)
	return n
}

var c41Frame = regexp.MustCompile(`^\s+(?:github\.com/KafScale/platform/)?([\w./()*\-]+)\(`)

// c41ParseRaces splits the child's output into race reports; key = the innermost
// repository frames of the two accesses.
func c41ParseRaces(out string) (reports []string, keys []string) {
	blocks := strings.Split(out, "WARNING: DATA RACE")
	for _, b := range blocks[1:] {
		if i := strings.Index(b, "=================="); i >= 0 {
			b = b[:i]
		}
		var tops []string
		lines := strings.Split(b, "\n")
		for i, ln := range lines {
			l := strings.TrimSpace(ln)
			if strings.HasPrefix(l, "Read at") || strings.HasPrefix(l, "Write at") || strings.HasPrefix(l, "Previous read at") || strings.HasPrefix(l, "Previous write at") {
				for j := i + 1; j < len(lines) && strings.TrimSpace(lines[j]) != ""; j++ {
					if m := c41Frame.FindStringSubmatch(lines[j]); m != nil && strings.Contains(lines[j], "KafScale/platform") && !strings.Contains(m[1], "c41") {
						f := m[1]
						if k := strings.LastIndex(f, "/"); k >= 0 {
							f = f[k+1:]
						}
						tops = append(tops, f)
						break
					}
				}
			}
		}
		sort.Strings(tops)
		reports = append(reports, "WARNING: DATA RACE"+b)
		keys = append(keys, "race:"+strings.Join(tops, "|"))
	}
	return
}

// c41FieldCase lists the struct's fields by reflection, compares them with the names
// annotated in model/Lockset.v (read as text, only to name the offending field in the
// failure; the authoritative comparison is corr/LocksetCorr.v check_fields) and
// returns the Coq case.
func c41FieldCase(rep *vReport, name string, typ reflect.Type) (string, string) {
	var fields []string
	for i := 0; i < typ.NumField(); i++ {
		fields = append(fields, typ.Field(i).Name)
	}
	if src, err := os.ReadFile(os.Getenv("VERIF_DIR") + "/coq/theories/model/Lockset.v"); err == nil {
		annotated := map[string]bool{}
		for _, m := range regexp.MustCompile(`\("`+name+`", "(\w+)", G\w+\)`).FindAllStringSubmatch(string(src), -1) {
			annotated[m[1]] = true
		}
		if len(annotated) > 0 {
			for _, f := range fields {
				if !annotated[f] {
					rep.Fail("annotation", "unannotated-field:"+name+"."+f, fmt.Sprintf("%s.%s is not in the lockset model's field table: a field written after construction outside a lock is an unannotated shared location (say which lock guards it, or that it is immutable after construction)", name, f), map[string]any{"struct": name, "field": f})
				}
				delete(annotated, f)
			}
			for f := range annotated {
				rep.Fail("annotation", "stale-annotation:"+name+"."+f, fmt.Sprintf("the lockset model annotates %s.%s, which the code no longer has", name, f), map[string]any{"struct": name, "field": f})
			}
		}
	}
	q := make([]string, len(fields))
	for i, f := range fields {
		q[i] = "\"" + f + "\"%string"
	}
	js, _ := json.Marshal(map[string]any{"struct": name, "fields": fields})
	rep.Hist("fields:" + name)
	return fmt.Sprintf("mkF \"%s\"%%string %s", name, cqList(q)), string(js)
}

// ---------------------------------------------------------------- (2) sequential schedules
type c41Ev struct {
	T    int    `json:"t"`
	Act  string `json:"act"`
	L    int    `json:"l,omitempty"`
	Base int64  `json:"base,omitempty"`
	Data []byte `json:"data,omitempty"`
	ID   int    `json:"id,omitempty"`
	hit  int    // -1 n/a, 0 miss, 1 hit
}
type c41Sched struct {
	Cap int     `json:"cap"`
	Evs []c41Ev `json:"evs"`
}

type c41LockS3 struct {
	*MemoryS3Client
	log      **PartitionLog
	heldSeen *string
}

// c41MuFree reports whether l.mu is free for the duration of the observation.  Sound
// against transient holders: observers are serialised (uploadFlush issues UploadSegment
// and UploadIndex from two goroutines, whose own TryLock/Unlock pairs would otherwise
// see each other), and "held" is only concluded when TryLock fails 50 times over
// >= 10 ms while the observed S3 call is parked here -- a mutex held by the caller
// stays held for the whole call, any other holder in these sequential schedules (no
// cache, hence no prefetch; one operation at a time) lets go within microseconds.
var c41ObsMu sync.Mutex

func c41MuFree(l *PartitionLog) bool {
	c41ObsMu.Lock()
	defer c41ObsMu.Unlock()
	for i := 0; i < 50; i++ {
		if l.mu.TryLock() {
			l.mu.Unlock()
			return true
		}
		time.Sleep(200 * time.Microsecond)
	}
	return false
}

func (s *c41LockS3) check(op string) {
	if l := *s.log; l != nil {
		if !c41MuFree(l) {
			c41ObsMu.Lock()
			if *s.heldSeen == "" {
				*s.heldSeen = op
			}
			c41ObsMu.Unlock()
		}
	}
}
func (s *c41LockS3) UploadSegment(ctx context.Context, k string, b []byte) error {
	s.check("UploadSegment")
	return s.MemoryS3Client.UploadSegment(ctx, k, b)
}
func (s *c41LockS3) UploadIndex(ctx context.Context, k string, b []byte) error {
	s.check("UploadIndex")
	return s.MemoryS3Client.UploadIndex(ctx, k, b)
}
func (s *c41LockS3) DownloadSegment(ctx context.Context, k string, r *ByteRange) ([]byte, error) {
	s.check("DownloadSegment")
	return s.MemoryS3Client.DownloadSegment(ctx, k, r)
}
func (s *c41LockS3) DownloadIndex(ctx context.Context, k string) ([]byte, error) {
	s.check("DownloadIndex")
	return s.MemoryS3Client.DownloadIndex(ctx, k)
}
func (s *c41LockS3) ListSegments(ctx context.Context, p string) ([]S3Object, error) {
	s.check("ListSegments")
	return s.MemoryS3Client.ListSegments(ctx, p)
}

// c41RunSched executes a schedule sequentially; returns the oracle failure ("" if none).
func c41RunSched(sc *c41Sched) (string, string) {
	cch := cache.NewSegmentCache(sc.Cap)
	mem := NewMemoryS3Client()
	ctx := context.Background()
	const nlogs = 2
	var logs [nlogs]*PartitionLog
	var cur *PartitionLog
	held := ""
	s3 := &c41LockS3{MemoryS3Client: mem, log: &cur, heldSeen: &held}
	published := [nlogs]bool{}
	type handout struct {
		slice, snap []byte
	}
	hand := map[int]handout{} // model buffer id -> handed-out slice
	latest := map[int64]int{} // cache key (base) -> id of the latest Set
	nsets := 0
	for i := range sc.Evs {
		ev := &sc.Evs[i]
		ev.hit = -1
		switch ev.Act {
		case "init":
			logs[ev.L] = NewPartitionLog("ns", "seq", int32(ev.L), 0, s3, nil, PartitionLogConfig{
				Buffer: WriteBufferConfig{MaxBatches: 2}, Segment: SegmentWriterConfig{IndexIntervalMessages: 1}}, func(context.Context, *SegmentArtifact) {
				if l := logs[ev.L]; l != nil && !c41MuFree(l) {
					c41ObsMu.Lock()
					if held == "" {
						held = "onFlush callback"
					}
					c41ObsMu.Unlock()
				}
			}, nil, nil)
			cur = nil // RestoreFromS3 runs on the unpublished log: its unlocked accesses are AInit
			if _, err := logs[ev.L].RestoreFromS3(ctx); err != nil {
				return "seq-restore", err.Error()
			}
		case "publish":
			published[ev.L] = true
		case "append", "flush", "read":
			if !published[ev.L] || logs[ev.L] == nil {
				return "seq-generator", "step on an unpublished log"
			}
			cur = logs[ev.L]
			switch ev.Act {
			case "append":
				if _, err := cur.AppendBatch(ctx, c41Batch(uint32(i), 2)); err != nil {
					return "seq-append", err.Error()
				}
			case "flush":
				if err := cur.Flush(ctx); err != nil {
					return "seq-flush", err.Error()
				}
			case "read":
				_, _ = cur.Read(ctx, ev.Base, 100)
			}
			cur = nil
		case "cset":
			cch.SetSegment("ns/seq", 0, ev.Base, ev.Data)
			latest[ev.Base] = nsets
			nsets++
		case "cget":
			d, ok := cch.GetSegment("ns/seq", 0, ev.Base)
			ev.hit = 0
			if ok {
				ev.hit = 1
				id := latest[ev.Base]
				hand[ev.T*1000+id] = handout{slice: d, snap: append([]byte(nil), d...)}
			}
		case "use":
			h, ok := hand[ev.T*1000+ev.ID]
			if !ok {
				return "seq-generator", "use of a buffer that was not handed out"
			}
			if !bytes.Equal(h.slice, h.snap) {
				return "handed-out-buffer-written", fmt.Sprintf("cache buffer %d changed after it was handed out: %v -> %v", ev.ID, h.snap, h.slice)
			}
		}
		if held != "" {
			return "io-under-log-mutex", fmt.Sprintf("step %d (%s): %s ran while l.mu was held; the model annotates S3 I/O and the flush callback as outside l.mu", i, ev.Act, held)
		}
	}
	return "", ""
}

func c41GenSched(r *vRand) c41Sched {
	sc := c41Sched{Cap: r.Range(4, 40)}
	created := [2]int{-1, -1} // creator thread
	inited := [2]bool{}
	published := [2]bool{}
	latest := map[int64]int{}
	live := map[int64]bool{}
	type hk struct{ t, id int }
	hand := map[hk]bool{}
	nsets := 0
	n := r.Range(6, 30)
	for i := 0; i < n; i++ {
		t := r.Intn(3)
		l := r.Intn(2)
		switch r.Intn(9) {
		case 0, 1:
			if created[l] < 0 {
				created[l] = t
				sc.Evs = append(sc.Evs, c41Ev{T: t, Act: "begin", L: l})
			} else if !inited[l] {
				inited[l] = true
				sc.Evs = append(sc.Evs, c41Ev{T: created[l], Act: "init", L: l})
			} else if !published[l] {
				published[l] = true
				sc.Evs = append(sc.Evs, c41Ev{T: created[l], Act: "publish", L: l})
			} else {
				sc.Evs = append(sc.Evs, c41Ev{T: t, Act: "lookup", L: l})
			}
		case 2:
			if published[l] {
				sc.Evs = append(sc.Evs, c41Ev{T: t, Act: "append", L: l})
			}
		case 3:
			if published[l] {
				sc.Evs = append(sc.Evs, c41Ev{T: t, Act: "flush", L: l})
			}
		case 4:
			if published[l] {
				sc.Evs = append(sc.Evs, c41Ev{T: t, Act: "read", L: l, Base: int64(r.Intn(8))})
			}
		case 5, 6:
			b := int64(r.Intn(4))
			sc.Evs = append(sc.Evs, c41Ev{T: t, Act: "cset", Base: b, Data: r.Bytes(r.Range(0, sc.Cap/2+3))})
			latest[b] = nsets
			live[b] = true
			nsets++
		case 7:
			b := int64(r.Intn(4))
			sc.Evs = append(sc.Evs, c41Ev{T: t, Act: "cget", Base: b})
			_ = live
			// whether it hits is decided by the real cache; the use step below only
			// follows when the harness saw the hit, so generate uses lazily in c41Fix
			if id, ok := latest[b]; ok {
				hand[hk{t, id}] = true
			}
		case 8:
			for k := range hand {
				if k.t == t {
					sc.Evs = append(sc.Evs, c41Ev{T: t, Act: "use", ID: k.id})
					break
				}
			}
		}
	}
	return sc
}

// c41Fix drops "use" steps whose buffer was not actually handed out (the get missed
// because of eviction), by a dry run on a real cache.
func c41Fix(sc c41Sched) c41Sched {
	cch := cache.NewSegmentCache(sc.Cap)
	latest := map[int64]int{}
	nsets := 0
	got := map[int]bool{}
	out := c41Sched{Cap: sc.Cap}
	for _, ev := range sc.Evs {
		switch ev.Act {
		case "cset":
			cch.SetSegment("x", 0, ev.Base, ev.Data)
			latest[ev.Base] = nsets
			nsets++
		case "cget":
			if _, ok := cch.GetSegment("x", 0, ev.Base); ok {
				got[ev.T*1000+latest[ev.Base]] = true
			}
		case "use":
			if !got[ev.T*1000+ev.ID] {
				continue
			}
		}
		out.Evs = append(out.Evs, ev)
	}
	return out
}

func c41Coq(sc c41Sched) string {
	evs := make([]string, 0, len(sc.Evs))
	for _, ev := range sc.Evs {
		var a string
		switch ev.Act {
		case "begin":
			a = fmt.Sprintf("ABeginInit %d", ev.L)
		case "init":
			a = fmt.Sprintf("AInit %d", ev.L)
		case "publish":
			a = fmt.Sprintf("APublish %d", ev.L)
		case "lookup":
			a = fmt.Sprintf("ALookup %d", ev.L)
		case "append":
			a = fmt.Sprintf("AAppend %d", ev.L)
		case "flush":
			a = fmt.Sprintf("AFlushPrepare %d", ev.L)
		case "read":
			a = fmt.Sprintf("AReadLookup %d", ev.L)
		case "cset":
			a = fmt.Sprintf("ACacheSet %s 0 %s %s", cqStr("ns/seq"), cqZ(ev.Base), cqBytes(ev.Data))
		case "cget":
			a = fmt.Sprintf("ACacheGet %s 0 %s", cqStr("ns/seq"), cqZ(ev.Base))
		case "use":
			a = fmt.Sprintf("AUseBuf %d%%nat", ev.ID)
		}
		evs = append(evs, fmt.Sprintf("(%d, %s, %s)", ev.T, a, cqOpt(ev.hit >= 0, cqBool(ev.hit == 1))))
	}
	return fmt.Sprintf("mkCase %d %s", sc.Cap, cqList(evs))
}

func TestVerifC41(t *testing.T) {
	if os.Getenv("VERIF_C41_CHILD") == "1" {
		c41Stress(t, vSeed())
		return
	}
	rep := vNewReport("C41", "(1) concurrent stress of AppendBatch/Flush/Read/prefetch/cache Get+Set on 3 shared partitions (4 producers, 2 flushers, 4 fetchers, 2 cache goroutines; real PartitionLog + SegmentCache(600 B) + MemoryS3Client + S3 semaphore) under the Go race detector in a child process, several seeds; (2) generated sequential schedules of the model's steps on the real objects with lock-held observation at every S3 call and flush callback; non-trivial = a stress run that appended > 100 records without a setup error, or a schedule with a cache hit and a log flush; distinct = distinct (seed) / canonical schedule")
	var coq, jsons []string
	if rc := vReplayCase(); rc != nil {
		var sc c41Sched
		if err := json.Unmarshal(rc, &sc); err == nil && len(sc.Evs) > 0 {
			if key, what := c41RunSched(&sc); key != "" {
				rep.Fail("annotation", key, what, sc)
			}
			coq = append(coq, c41Coq(sc))
			js, _ := json.Marshal(sc)
			jsons = append(jsons, string(js))
		}
	}
	// (1) race stress in child processes
	runs := vN(2, 6)
	raceAvailable := true
	for i := 0; i < runs && vReplayCase() == nil; i++ {
		seed := vSeed()*1000 + uint64(i)
		cmd := exec.Command(os.Args[0], "-test.run=^TestVerifC41$", "-test.count=1", "-test.timeout=300s")
		cmd.Env = append(os.Environ(), "VERIF_C41_CHILD=1", fmt.Sprintf("VERIF_SEED=%d", seed), "GORACE=halt_on_error=0 history_size=3")
		outB, err := cmd.CombinedOutput()
		out := string(outB)
		done := strings.Contains(out, "C41-STRESS-DONE")
		reports, keys := c41ParseRaces(out)
		rep.Count(fmt.Sprintf("stress-%d", seed), done)
		rep.Hist("stress-runs")
		if m := regexp.MustCompile(`C41-STRESS-DONE appended=(\d+) cold_bursts=(\d+)`).FindStringSubmatch(out); m != nil {
			rep.Sample(map[string]any{"stress_seed": seed, "records_appended": m[1], "cold_start_bursts": m[2], "races": len(reports)})
		}
		for j, rp := range reports {
			if len(rp) > 6000 {
				rp = rp[:6000]
			}
			rep.Fail("race", keys[j], "the Go race detector reported a data race on the broker data path: "+keys[j], map[string]any{"stress_seed": seed, "race_report": rp})
		}
		for _, ln := range strings.Split(out, "\n") {
			if strings.HasPrefix(ln, "C41-INVARIANT: ") {
				rep.Fail("stress-invariant", "stress-invariant", ln, map[string]any{"stress_seed": seed})
				break
			}
		}
		if !done && len(reports) == 0 {
			tail := out
			if len(tail) > 1500 {
				tail = tail[len(tail)-1500:]
			}
			rep.Fail("stress-crash", "stress-crash", fmt.Sprintf("stress child did not finish (%v): %s", err, tail), map[string]any{"stress_seed": seed})
		}
		if strings.Contains(out, "-race is not supported") || strings.Contains(out, "race detector not available") {
			raceAvailable = false
		}
	}
	if !c41RaceEnabled {
		raceAvailable = false
	}
	if raceAvailable {
		rep.Notes = append(rep.Notes, "race detector active in the stress children (test binary built with -race; cgo + gcc present in this sandbox)")
	} else {
		rep.Notes = append(rep.Notes, "test binary NOT built with -race: the stress ran with invariant checks only")
	}
	// (2) sequential schedules
	if vReplayCase() == nil {
		r := vNewRand(vSeed())
		n := vN(300, 3000)
		for i := 0; i < n; i++ {
			sc := c41Fix(c41GenSched(r.Fork()))
			key, what := c41RunSched(&sc)
			js, _ := json.Marshal(sc)
			hit, flush := false, false
			for _, ev := range sc.Evs {
				hit = hit || ev.hit == 1
				flush = flush || ev.Act == "flush"
				rep.Hist("step:" + ev.Act)
			}
			rep.Count(string(js), hit && flush)
			if key == "seq-generator" {
				continue
			}
			if key != "" {
				rep.Fail("annotation", key, what, sc)
			}
			coq = append(coq, c41Coq(sc))
			jsons = append(jsons, string(js))
		}
	}
	rep.Cases("C41", "From KS Require Import lib.Base lib.Strings model.Cache model.Lockset corr.LocksetCorr.", "case", "check_case", coq, jsons)
	// (3) every field of the structs on the data path must be annotated in the model's
	// field table (model/Lockset.v field_table): a field added to the code is a new,
	// unannotated shared location until someone says which lock guards it
	var fcoq, fjs []string
	for _, st := range []struct {
		name string
		typ  reflect.Type
	}{{"PartitionLog", reflect.TypeOf(PartitionLog{})}, {"WriteBuffer", reflect.TypeOf(WriteBuffer{})}, {"SegmentCache", reflect.TypeOf(cache.SegmentCache{})}} {
		c, j := c41FieldCase(rep, st.name, st.typ)
		fcoq = append(fcoq, c)
		fjs = append(fjs, j)
	}
	rep.Cases("C41_fields", "From Coq Require Import String.\nFrom KS Require Import lib.Base model.Lockset corr.LocksetCorr.", "fcase", "check_fields", fcoq, fjs)
	rep.Write()
	if len(rep.Failures) > 0 {
		t.Logf("oracle failures: %s", strings.TrimSpace(rep.Failures[0].What))
	}
}
