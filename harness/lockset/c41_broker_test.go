package main

// C41 harness, broker part: concurrent Produce / Fetch / ListOffsets / Metadata requests
// through the real handler.Handle (cmd/broker) on shared and auto-created partitions
// -- real getPartitionLog (map + single-flight + RestoreFromS3), PartitionLog,
// SegmentCache (small, so eviction and re-download happen), read-ahead prefetch,
// InMemoryStore and MemoryS3Client -- in a child process of this test binary built
// with -race.  Every "WARNING: DATA RACE" block in the child's output is an oracle
// failure whose replay holds the two stacks.

import (
	"context"
	"encoding/binary"
	"encoding/json"
	"fmt"
	"os"
	"os/exec"
	"reflect"
	"regexp"
	"sort"
	"strings"
	"sync"
	"sync/atomic"
	"testing"
	"time"

	"github.com/KafScale/platform/pkg/metadata"
	"github.com/KafScale/platform/pkg/protocol"
	"github.com/KafScale/platform/pkg/storage"
	"github.com/twmb/franz-go/pkg/kmsg"
)

func c41bBatch(marker uint32, n int32) []byte {
	data := make([]byte, 70)
	binary.BigEndian.PutUint32(data[8:12], 58)
	data[16] = 2
	binary.BigEndian.PutUint32(data[23:27], uint32(n-1))
	binary.BigEndian.PutUint32(data[57:61], uint32(n))
	binary.BigEndian.PutUint32(data[61:65], marker)
	return data
}

func c41bStress(seed uint64) {
	os.Setenv("KAFSCALE_CACHE_BYTES", "1500")
	os.Setenv("KAFSCALE_READAHEAD_SEGMENTS", "2")
	os.Setenv("KAFSCALE_S3_CONCURRENCY", "3")
	r := vNewRand(seed)
	store := metadata.NewInMemoryStore(defaultMetadata())
	h := newHandler(store, storage.NewMemoryS3Client(), protocol.MetadataBroker{NodeID: 1, Host: "localhost", Port: 19092}, testLogger())
	topics := []string{"orders", "c41-a", "c41-b"} // the last two are auto-created on first use
	ctx := context.Background()
	deadline := time.Now().Add(time.Duration(vN(1500, 8000)) * time.Millisecond)
	var wg sync.WaitGroup
	var produced, fetched, errs atomic.Int64
	var corr atomic.Int32
	for g := 0; g < 4; g++ {
		rr := r.Fork()
		wg.Add(1)
		go func(g int) {
			defer wg.Done()
			for i := 0; time.Now().Before(deadline); i++ {
				acks := []int16{-1, -1, 1, 0}[rr.Intn(4)]
				req := &kmsg.ProduceRequest{Acks: acks, TimeoutMillis: 1000, Topics: []kmsg.ProduceRequestTopic{{
					Topic: topics[rr.Intn(len(topics))],
					Partitions: []kmsg.ProduceRequestTopicPartition{{Partition: 0, Records: c41bBatch(uint32(g<<24|i), int32(rr.Range(1, 3)))}},
				}}}
				if _, err := h.Handle(ctx, &protocol.RequestHeader{CorrelationID: corr.Add(1)}, req); err != nil {
					errs.Add(1)
				} else {
					produced.Add(1)
				}
			}
		}(g)
	}
	for g := 0; g < 4; g++ {
		rr := r.Fork()
		wg.Add(1)
		go func() {
			defer wg.Done()
			sum := 0
			for time.Now().Before(deadline) {
				tp := topics[rr.Intn(len(topics))]
				var resp []byte
				var err error
				switch rr.Intn(8) {
				case 0:
					lreq := &kmsg.ListOffsetsRequest{ReplicaID: -1, Topics: []kmsg.ListOffsetsRequestTopic{{Topic: tp, Partitions: []kmsg.ListOffsetsRequestTopicPartition{{Partition: 0, Timestamp: -1}}}}}
					resp, err = h.Handle(ctx, &protocol.RequestHeader{CorrelationID: corr.Add(1), APIVersion: 4}, lreq)
				case 1:
					mreq := &kmsg.MetadataRequest{Topics: []kmsg.MetadataRequestTopic{{Topic: kmsg.StringPtr(tp)}}}
					resp, err = h.Handle(ctx, &protocol.RequestHeader{CorrelationID: corr.Add(1), APIVersion: 9}, mreq)
				default:
					freq := &kmsg.FetchRequest{MaxWaitMillis: 1, Topics: []kmsg.FetchRequestTopic{{Topic: tp, Partitions: []kmsg.FetchRequestTopicPartition{{Partition: 0, FetchOffset: int64(rr.Intn(200)), PartitionMaxBytes: int32(rr.Range(64, 2048))}}}}}
					resp, err = h.Handle(ctx, &protocol.RequestHeader{CorrelationID: corr.Add(1), APIVersion: 11}, freq)
				}
				if err != nil {
					errs.Add(1)
					continue
				}
				fetched.Add(1)
				for _, b := range resp {
					sum += int(b)
				}
			}
			_ = sum
		}()
	}
	wg.Wait()
	time.Sleep(30 * time.Millisecond)
	restarts := c41bRestarts(seed, store, h, vN(40, 200))
	wide := c41bWideColdStarts(seed, store, h, vN(8, 40))
	fmt.Printf("C41B-STRESS-DONE produced=%d served=%d errors=%d restarts=%d wide_cold_starts=%d\n", produced.Load(), fetched.Load(), errs.Load(), restarts, wide)
}

// c41bWideColdStarts: the cold-start / restart / failover window over MANY partitions.
// 4 topics x 12 partitions are created in the store, data is seeded in S3 for about
// half of them through the old handler; then, repeatedly, a fresh handler (empty
// h.logs) is hit by 48 goroutines released from one barrier, each first-touching a
// DIFFERENT partition with a produce, a fetch or a list-offsets request.  single-flight
// serialises initialisation per key only: the 48 initialisers (store lookup,
// NewPartitionLog, RestoreFromS3, double-check and insertion into the shared h.logs
// maps) overlap, which is where an access to h.logs outside logMu shows.
func c41bWideColdStarts(seed uint64, store *metadata.InMemoryStore, old *handler, iters int) int {
	ctx := context.Background()
	r := vNewRand(seed ^ 0x51de)
	const nTopics, nParts = 4, 12
	var topics []string
	for t := 0; t < nTopics; t++ {
		name := fmt.Sprintf("c41-wide-%d", t)
		if _, err := store.CreateTopic(ctx, metadata.TopicSpec{Name: name, NumPartitions: nParts, ReplicationFactor: 1}); err != nil {
			fmt.Printf("C41B-NOTE create topic %s: %v\n", name, err)
		}
		topics = append(topics, name)
	}
	var corr atomic.Int32
	corr.Store(1 << 24)
	produce := func(h *handler, tp string, part int32, m uint32) {
		req := &kmsg.ProduceRequest{Acks: -1, TimeoutMillis: 1000, Topics: []kmsg.ProduceRequestTopic{{Topic: tp,
			Partitions: []kmsg.ProduceRequestTopicPartition{{Partition: part, Records: c41bBatch(m, 2)}}}}}
		_, _ = h.Handle(ctx, &protocol.RequestHeader{CorrelationID: corr.Add(1)}, req)
	}
	fetch := func(h *handler, tp string, part int32, off int64) {
		freq := &kmsg.FetchRequest{MaxWaitMillis: 1, Topics: []kmsg.FetchRequestTopic{{Topic: tp, Partitions: []kmsg.FetchRequestTopicPartition{{Partition: part, FetchOffset: off, PartitionMaxBytes: 4096}}}}}
		resp, _ := h.Handle(ctx, &protocol.RequestHeader{CorrelationID: corr.Add(1), APIVersion: 11}, freq)
		x := 0
		for _, b := range resp {
			x += int(b)
		}
		_ = x
	}
	listOffsets := func(h *handler, tp string, part int32) {
		lreq := &kmsg.ListOffsetsRequest{ReplicaID: -1, Topics: []kmsg.ListOffsetsRequestTopic{{Topic: tp, Partitions: []kmsg.ListOffsetsRequestTopicPartition{{Partition: part, Timestamp: -1}}}}}
		_, _ = h.Handle(ctx, &protocol.RequestHeader{CorrelationID: corr.Add(1), APIVersion: 4}, lreq)
	}
	// seed S3 for about half of the partitions (so RestoreFromS3 has segments to rebuild)
	for t, tp := range topics {
		for p := int32(0); p < nParts; p++ {
			if (t+int(p))%2 == 0 {
				produce(old, tp, p, uint32(t<<8|int(p)))
				if p%4 == 0 {
					produce(old, tp, p, uint32(1<<20|t<<8|int(p)))
				}
			}
		}
	}
	n := 0
	for it := 0; it < iters; it++ {
		nh := newHandler(store, old.s3, protocol.MetadataBroker{NodeID: 1, Host: "localhost", Port: 19092}, testLogger())
		start := make(chan struct{})
		var wg sync.WaitGroup
		for t, tp := range topics {
			for p := int32(0); p < nParts; p++ {
				tp, p, kind := tp, p, (t+int(p)+it+r.Intn(3))%3
				wg.Add(1)
				go func() {
					defer wg.Done()
					<-start
					switch kind {
					case 0:
						fetch(nh, tp, p, 0)
					case 1:
						produce(nh, tp, p, uint32(it<<12|int(p)))
					default:
						listOffsets(nh, tp, p)
					}
				}()
			}
		}
		close(start)
		wg.Wait()
		n++
	}
	time.Sleep(30 * time.Millisecond)
	return n
}

// c41bRestarts: handler restart.  While the old handler still has requests in flight,
// a NEW handler is built over the same metadata store and S3 bucket and immediately
// hit by overlapping first requests on partitions it has never opened: getPartitionLog
// single-flight -> RestoreFromS3 -> the first Reads / first Append+Flush / prefetch of
// a cold, restored PartitionLog run concurrently, with no sequential warm-up.
func c41bRestarts(seed uint64, store *metadata.InMemoryStore, old *handler, iters int) int {
	ctx := context.Background()
	r := vNewRand(seed ^ 0xbeef)
	topics := []string{"orders", "c41-a", "c41-b"}
	var corr atomic.Int32
	corr.Store(1 << 20)
	fetch := func(h *handler, tp string, off int64) {
		freq := &kmsg.FetchRequest{MaxWaitMillis: 1, Topics: []kmsg.FetchRequestTopic{{Topic: tp, Partitions: []kmsg.FetchRequestTopicPartition{{Partition: 0, FetchOffset: off, PartitionMaxBytes: 4096}}}}}
		resp, _ := h.Handle(ctx, &protocol.RequestHeader{CorrelationID: corr.Add(1), APIVersion: 11}, freq)
		x := 0
		for _, b := range resp {
			x += int(b)
		}
		_ = x
	}
	produce := func(h *handler, tp string, m uint32) {
		req := &kmsg.ProduceRequest{Acks: -1, TimeoutMillis: 1000, Topics: []kmsg.ProduceRequestTopic{{Topic: tp,
			Partitions: []kmsg.ProduceRequestTopicPartition{{Partition: 0, Records: c41bBatch(m, 2)}}}}}
		_, _ = h.Handle(ctx, &protocol.RequestHeader{CorrelationID: corr.Add(1)}, req)
	}
	n := 0
	for it := 0; it < iters; it++ {
		nh := newHandler(store, old.s3, protocol.MetadataBroker{NodeID: 1, Host: "localhost", Port: 19092}, testLogger())
		start := make(chan struct{})
		var wg sync.WaitGroup
		run := func(f func()) {
			wg.Add(1)
			go func() { defer wg.Done(); <-start; f() }()
		}
		tp := topics[it%len(topics)]
		run(func() { produce(old, topics[(it+1)%len(topics)], uint32(it)) }) // still in flight on the old handler
		run(func() { fetch(old, tp, 0) })
		for k := 0; k < 3; k++ {
			off := int64(r.Intn(20))
			run(func() { fetch(nh, tp, off) })
		}
		if it%2 == 0 {
			run(func() { produce(nh, tp, uint32(1<<16|it)) })
		}
		close(start)
		wg.Wait()
		n++
	}
	time.Sleep(30 * time.Millisecond)
	return n
}

var c41bFrame = regexp.MustCompile(`^\s+(?:github\.com/KafScale/platform/)?([\w./()*\-]+)\(`)

func c41bParseRaces(out string) (reports []string, keys []string) {
	blocks := strings.Split(out, "WARNING: DATA RACE")
	for _, b := range blocks[1:] {
		if i := strings.Index(b, "=================="); i >= 0 {
			b = b[:i]
		}
		var tops []string
		lines := strings.Split(b, "\n")
		for i, ln := range lines {
			l := strings.TrimSpace(ln)
			if strings.HasPrefix(l, "Read at") || strings.HasPrefix(l, "Write at") || strings.HasPrefix(l, "Previous read at") || strings.HasPrefix(l, "Previous write at") {
				for j := i + 1; j < len(lines) && strings.TrimSpace(lines[j]) != ""; j++ {
					if m := c41bFrame.FindStringSubmatch(lines[j]); m != nil && strings.Contains(lines[j], "KafScale/platform") && !strings.Contains(m[1], "c41b") {
						f := m[1]
						if k := strings.LastIndex(f, "/"); k >= 0 {
							f = f[k+1:]
						}
						tops = append(tops, f)
						break
					}
				}
			}
		}
		sort.Strings(tops)
		reports = append(reports, "WARNING: DATA RACE"+b)
		keys = append(keys, "race:"+strings.Join(tops, "|"))
	}
	return
}

func TestVerifC41Broker(t *testing.T) {
	if os.Getenv("VERIF_C41B_CHILD") == "1" {
		c41bStress(vSeed())
		return
	}
	rep := vNewReport("C41", "concurrent Produce (acks -1/1/0) / Fetch / ListOffsets / Metadata through the real handler.Handle on 3 topics (2 auto-created on first use: getPartitionLog single-flight + RestoreFromS3 under contention), 4 producer + 4 consumer goroutines, 1500-byte segment cache, read-ahead 2, S3 concurrency 3, under the Go race detector in a child process; non-trivial = a run that served > 100 requests")
	runs := vN(1, 5)
	for i := 0; i < runs && vReplayCase() == nil; i++ {
		seed := vSeed()*1000 + 500 + uint64(i)
		cmd := exec.Command(os.Args[0], "-test.run=^TestVerifC41Broker$", "-test.count=1", "-test.timeout=300s")
		cmd.Env = append(os.Environ(), "VERIF_C41B_CHILD=1", fmt.Sprintf("VERIF_SEED=%d", seed), "GORACE=halt_on_error=0 history_size=3")
		outB, err := cmd.CombinedOutput()
		out := string(outB)
		m := regexp.MustCompile(`C41B-STRESS-DONE produced=(\d+) served=(\d+) errors=(\d+) restarts=(\d+) wide_cold_starts=(\d+)`).FindStringSubmatch(out)
		reports, keys := c41bParseRaces(out)
		rep.Count(fmt.Sprintf("broker-stress-%d", seed), m != nil)
		rep.Hist("broker-stress-runs")
		if m != nil {
			rep.Sample(map[string]any{"stress_seed": seed, "produced": m[1], "served": m[2], "request_errors": m[3], "handler_restarts": m[4], "wide_cold_starts_x48_partitions": m[5], "races": len(reports)})
		}
		for j, rp := range reports {
			if len(rp) > 6000 {
				rp = rp[:6000]
			}
			rep.Fail("race", keys[j], "the Go race detector reported a data race in the broker request path: "+keys[j], map[string]any{"stress_seed": seed, "race_report": rp})
		}
		if m == nil && len(reports) == 0 {
			tail := out
			if len(tail) > 1500 {
				tail = tail[len(tail)-1500:]
			}
			rep.Fail("stress-crash", "broker-stress-crash", fmt.Sprintf("broker stress child did not finish (%v): %s", err, tail), map[string]any{"stress_seed": seed})
		}
	}
	// the handler's fields vs the lockset model's field table
	{
		typ := reflect.TypeOf(handler{})
		var fields []string
		for i := 0; i < typ.NumField(); i++ {
			fields = append(fields, typ.Field(i).Name)
		}
		if src, err := os.ReadFile(os.Getenv("VERIF_DIR") + "/coq/theories/model/Lockset.v"); err == nil {
			annotated := map[string]bool{}
			for _, m := range regexp.MustCompile(`\("handler", "(\w+)", G\w+\)`).FindAllStringSubmatch(string(src), -1) {
				annotated[m[1]] = true
			}
			if len(annotated) > 0 {
				for _, f := range fields {
					if !annotated[f] {
						rep.Fail("annotation", "unannotated-field:handler."+f, "handler."+f+" is not in the lockset model's field table: a field written after construction outside a lock is an unannotated shared location", map[string]any{"struct": "handler", "field": f})
					}
					delete(annotated, f)
				}
				for f := range annotated {
					rep.Fail("annotation", "stale-annotation:handler."+f, "the lockset model annotates handler."+f+", which the code no longer has", map[string]any{"struct": "handler", "field": f})
				}
			}
		}
		q := make([]string, len(fields))
		for i, f := range fields {
			q[i] = "\"" + f + "\"%string"
		}
		js, _ := json.Marshal(map[string]any{"struct": "handler", "fields": fields})
		rep.Cases("C41_handler_fields", "From Coq Require Import String.\nFrom KS Require Import lib.Base model.Lockset corr.LocksetCorr.", "fcase", "check_fields",
			[]string{fmt.Sprintf("mkF \"handler\"%%string %s", cqList(q))}, []string{string(js)})
	}
	rep.WriteAs("C41_broker")
	if len(rep.Failures) > 0 {
		t.Logf("oracle failures: %s", strings.TrimSpace(rep.Failures[0].What))
	}
}
