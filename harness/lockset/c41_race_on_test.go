//go:build race

package storage

const c41RaceEnabled = true
