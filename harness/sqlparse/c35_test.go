package sql

// C35 harness: gives generated query texts (structured queries with length-changing
// letters, multi-byte white space and invalid UTF-8 at every clause position, keyword
// soup, byte mutations, random bytes) to the real Parse under recover, checks the two
// clauses of the property directly (no panic; re-casing the ASCII keywords of a query
// does not change the parsed Query apart from SelectColumn.Raw) and emits every text
// with the projection of what Parse returned as a Coq term for corr/SqlParseCorr.v.

import (
	"encoding/json"
	"fmt"
	"os"
	"os/exec"
	"reflect"
	"runtime"
	"strconv"
	"strings"
	"sync"
	"testing"
	"unicode"
	"unicode/utf8"
)

type c35Case struct {
	Q    []byte `json:"q"`              // query text (bytes; JSON base64)
	Text string `json:"text,omitempty"` // same, for the reader (lossy if invalid UTF-8)
	V    []byte `json:"variant,omitempty"`
	VTxt string `json:"variant_text,omitempty"`
	// Odd: the generator put a keyword where an identifier belongs (a topic or alias
	// named from/join/on/as/select, a missing FROM ...). Such a text is not a valid
	// query; Parse may read one of its keywords as an alias, whose case is kept by
	// design, so the keyword-case clause (stated for valid queries) is not applied to
	// it. The no-panic clause and the model comparison still are.
	Odd bool `json:"odd,omitempty"`
	// Cold-start case: a fresh process parses Stmts concurrently (seed of the statement generator)
	Cold  uint64   `json:"cold_seed,omitempty"`
	Stmts []string `json:"stmts,omitempty"`
}

type c35Obs struct {
	panicked bool
	panicMsg string
	err      error
	q        Query
}

func c35Parse(text string) (o c35Obs) {
	defer func() {
		if r := recover(); r != nil {
			o.panicked = true
			o.panicMsg = fmt.Sprint(r)
		}
	}()
	q, err := Parse(text)
	o.q, o.err = q, err
	return o
}

var c35ErrCodes = map[string]int{
	"empty query": 0, "unsupported statement": 1, "unsupported show statement": 2, "describe requires topic": 3,
	"invalid explain": 4, "explain requires query": 5, "explain supports select only": 6,
	"select requires from <topic>": 7, "join requires topic": 8, "join requires equality predicate": 9,
	"join supports _key or json_value only": 10, "unsupported partition filter": 11, "invalid partition value": 12,
	"unsupported offset filter": 13, "invalid offset value": 14, "unsupported offset operator": 15,
	"unsupported where clause": 16,
}

func c35ErrCode(err error) int {
	m := err.Error()
	if c, ok := c35ErrCodes[m]; ok {
		return c
	}
	if m == "empty timestamp" || strings.HasPrefix(m, "invalid timestamp") {
		return 17
	}
	return 99
}

// c35Topics is the proxy's queryTopics (internal/proxy/proxy.go), restated on Query.
func c35Topics(q Query) []string {
	switch q.Type {
	case QueryShowPartitions, QueryDescribe:
		return []string{q.Topic}
	case QueryExplain:
		if q.Explain != nil {
			return c35Topics(*q.Explain)
		}
		return nil
	case QuerySelect:
		t := []string{q.Topic}
		if q.JoinTopic != "" {
			t = append(t, q.JoinTopic)
		}
		return t
	}
	return nil
}

func c35OptZ32(p *int32) string {
	if p == nil {
		return "None"
	}
	return cqOpt(true, cqZ(int64(*p)))
}
func c35OptZ64(p *int64) string {
	if p == nil {
		return "None"
	}
	return cqOpt(true, cqZ(*p))
}
func c35Strs(l []string) string {
	items := make([]string, len(l))
	for i, s := range l {
		items[i] = cqStr(s)
	}
	return cqList(items)
}

func c35View(q Query) (string, bool) {
	kind := -1
	sel := q
	switch q.Type {
	case QueryShowTopics:
		kind = 0
	case QueryShowPartitions:
		kind = 1
	case QueryDescribe:
		kind = 2
	case QuerySelect:
		kind = 3
	case QueryExplain:
		kind = 4
		if q.Explain == nil {
			return "", false
		}
		sel = *q.Explain
	default:
		return "", false
	}
	jt := 0
	switch sel.JoinType {
	case "inner":
		jt = 1
	case "left":
		jt = 2
	case "":
	default:
		return "", false
	}
	raws := make([]string, len(sel.Select))
	for i, c := range sel.Select {
		raws[i] = c.Raw
	}
	return fmt.Sprintf("mkView %d %s %s %d %s %s %s %s %s %s %s %s %s %s %s %s", kind, cqStr(sel.Topic), cqStr(sel.TopicAlias), jt,
		cqStr(sel.JoinTopic), cqStr(sel.JoinAlias), cqBool(sel.JoinOn != nil), c35Strs(raws), c35Strs(sel.GroupBy), cqStr(sel.OrderBy),
		cqBool(sel.OrderDesc), c35OptZ32(sel.Partition), c35OptZ64(sel.OffsetMin), c35OptZ64(sel.OffsetMax), cqBool(sel.ScanFull),
		c35Strs(c35Topics(q))), true
}

// lower-case forms of the valid multi-byte runes of s (strings.ToLower is a rune map)
func c35LowerTab(s string) string {
	seen := map[rune]bool{}
	var items []string
	for i := 0; i < len(s); {
		r, w := utf8.DecodeRuneInString(s[i:])
		if w > 1 && !seen[r] {
			seen[r] = true
			items = append(items, fmt.Sprintf("(%s, %s)", cqStr(s[i:i+w]), cqStr(string(unicode.ToLower(r)))))
		}
		i += w
	}
	return cqList(items)
}

func c35Coq(text string, o c35Obs) string {
	obs := "OPanic"
	tsErr, jBad := false, false
	switch {
	case o.panicked:
	case o.err != nil:
		code := c35ErrCode(o.err)
		tsErr, jBad = code == 17, code == 10
		obs = fmt.Sprintf("OErr %d", code)
	default:
		v, ok := c35View(o.q)
		if ok {
			obs = "OQuery (" + v + ")"
		} else {
			obs = "OErr 98"
		}
	}
	return fmt.Sprintf("mkCase %s %s %s %s (%s)", cqStr(text), c35LowerTab(text), cqBool(tsErr), cqBool(jBad), obs)
}

// ---------------------------------------------------------------- generators

// runes whose lower-case form has another byte length, or that Go's (?i) folds to an
// ASCII letter, plus white-space runes and plain non-ASCII letters
var c35Special = []string{"Ⱥ", "Ⱦ", "K", "İ", "ſ", "Å", "É", "ß", "ǅ", "ẞ", "Ω", "ⱥ", "é", "日本", "�", "𝔘"}
var c35Invalid = []string{"\xff", "\xc3", "\xe2\x82", "\x80", "\xc0\xaf", "\xf0\x9f", "\xed\xa0\x80"}
var c35Spaces = []string{" ", " ", " ", "  ", "\t", "\n", "\r\n", "\v", "\f", "\u00a0", "\u0085", "\u2003", "\u3000", "\u1680", "\u2028", "\u205f", "\u200a", "\u202f", " \t "}

type c35Seg struct {
	s  string
	kw bool // an ASCII keyword / function name whose case may vary
}

type c35Builder struct {
	r    *vRand
	segs []c35Seg
	// how wild: 0 = plain ASCII single spaces, 1 = odd white space, 2 = special runes in identifiers, 3 = + invalid bytes
	wild int
	odd  bool // a keyword was used as an identifier or a mandatory clause was left out
}

func (b *c35Builder) sp() {
	s := " "
	if b.wild >= 1 && b.r.Chance(35) {
		s = c35Spaces[b.r.Intn(len(c35Spaces))]
	}
	b.segs = append(b.segs, c35Seg{s: s})
}
func (b *c35Builder) kw(words ...string) {
	for i, w := range words {
		if i > 0 {
			if w == "by" && b.r.Chance(90) { // "group by"/"order by" are matched with one space
				b.segs = append(b.segs, c35Seg{s: " "})
			} else {
				b.sp()
			}
		}
		b.segs = append(b.segs, c35Seg{s: w, kw: true})
	}
}
func (b *c35Builder) lit(s string) { b.segs = append(b.segs, c35Seg{s: s}) }
func (b *c35Builder) junk() string {
	if b.wild >= 3 && b.r.Chance(30) {
		return c35Invalid[b.r.Intn(len(c35Invalid))]
	}
	s := c35Special[b.r.Intn(len(c35Special))]
	if b.r.Chance(30) {
		s = strings.Repeat(s, b.r.Range(2, 24))
	}
	return s
}
func c35KeywordName(s string) bool {
	switch s {
	case "from", "join", "select", "on", "as":
		return true
	}
	return false
}

func (b *c35Builder) ident(base []string) string {
	s := base[b.r.Intn(len(base))]
	for k := 0; k < 3 && c35KeywordName(s) && !b.r.Chance(15); k++ {
		s = base[b.r.Intn(len(base))]
	}
	if c35KeywordName(s) {
		b.odd = true
	}
	if b.wild >= 2 && b.r.Chance(30) {
		switch b.r.Intn(3) {
		case 0:
			s = b.junk() + s
		case 1:
			s = s + b.junk()
		default:
			s = b.junk()
		}
	}
	if b.r.Chance(15) {
		s = strings.ToUpper(s[:1]) + s[1:]
	}
	return s
}

var c35Topics_ = []string{"orders", "payments", "t", "a", "secret", "events.v1", "Orders", "from", "join", "select", "on", "x_y-z"}
var c35Cols = []string{"_key", "_value", "_ts", "_offset", "_partition", "_topic", "_headers", "amount", "o._key", "p._value", "*"}
var c35Aliases = []string{"o", "p", "a", "b", "x", "t1", "as", "on"}

func (b *c35Builder) column() {
	switch b.r.Intn(9) {
	case 0:
		b.lit("*")
	case 1:
		b.kw([]string{"count", "min", "max", "sum", "avg"}[b.r.Intn(5)])
		b.lit("(" + []string{"*", "_offset", "amount", "o._ts"}[b.r.Intn(4)] + ")")
	case 2:
		b.kw([]string{"json_value", "json_query", "json_exists"}[b.r.Intn(3)])
		b.lit("(" + b.ident([]string{"_value", "o._value", "_key"}) + ", '$." + b.ident([]string{"a", "user.id", "Total"}) + "')")
	case 3:
		b.kw("count")
		b.lit("(")
		b.kw("json_value")
		b.lit("(_value, '$.n'))")
	default:
		b.lit(b.ident(c35Cols))
	}
	if b.r.Chance(25) {
		b.sp()
		if b.r.Chance(70) {
			b.kw("as")
			b.sp()
		}
		b.lit(b.ident([]string{"n", "Total", "c1", "x"}))
	}
}

func (b *c35Builder) selectStmt() {
	b.kw("select")
	if b.r.Chance(8) {
		// no column list
		b.odd = true
	} else {
		b.sp()
		n := b.r.Range(1, 3)
		for i := 0; i < n; i++ {
			if i > 0 {
				b.lit(",")
				if b.r.Chance(60) {
					b.sp()
				}
			}
			b.column()
		}
	}
	b.sp()
	if b.r.Chance(95) {
		b.kw("from")
		b.sp()
		b.lit(b.ident(c35Topics_))
		if b.r.Chance(35) {
			b.sp()
			b.lit(b.ident(c35Aliases))
		}
	} else {
		b.odd = true
	}
	if b.r.Chance(35) {
		b.sp()
		if b.r.Chance(30) {
			b.kw("left")
			b.sp()
		}
		b.kw("join")
		if b.r.Chance(95) {
			b.sp()
			b.lit(b.ident(c35Topics_))
			if b.r.Chance(50) {
				b.sp()
				b.lit(b.ident(c35Aliases))
			}
			if b.r.Chance(85) {
				b.sp()
				b.kw("on")
				b.sp()
				switch b.r.Intn(6) {
				case 0:
					b.kw("json_value")
					b.lit("(o._value, '$.id')")
				case 1:
					b.lit(b.ident([]string{"amount", "o.x"}))
				default:
					b.lit(b.ident([]string{"o._key", "_key", "a._key"}))
				}
				if b.r.Chance(92) {
					b.sp()
					b.lit("=")
					b.sp()
					b.lit(b.ident([]string{"p._key", "_key", "b._key", "p._value"}))
				}
				if b.r.Chance(5) {
					b.lit(" = 1")
				}
			}
		}
	}
	if b.r.Chance(40) {
		b.sp()
		b.kw("where")
		n := b.r.Range(1, 3)
		for i := 0; i < n; i++ {
			if i > 0 {
				b.sp()
				b.kw("and")
			}
			b.sp()
			switch b.r.Intn(7) {
			case 0:
				b.lit("_partition")
				b.sp()
				b.lit([]string{"=", "=", "=", ">=", "=="}[b.r.Intn(5)])
				b.sp()
				b.lit([]string{"0", "3", "-1", "+7", "2147483647", "2147483648", "x", "1_0", ""}[b.r.Intn(9)])
			case 1, 2:
				b.lit("_offset")
				b.sp()
				b.lit([]string{">=", "<=", ">=", "<=", "=", ">"}[b.r.Intn(6)])
				b.sp()
				b.lit([]string{"0", "100", "-5", "9223372036854775807", "9223372036854775808", "-9223372036854775808", "1e3", "0x10"}[b.r.Intn(8)])
			case 3:
				b.lit("_ts")
				b.sp()
				b.lit([]string{">=", "<="}[b.r.Intn(2)])
				b.sp()
				b.lit([]string{"1700000000000", "'2024-01-02 03:04:05'", "'2024-01-02T03:04:05Z'", "'nope'", "''"}[b.r.Intn(5)])
			case 4:
				b.lit("_ts")
				b.sp()
				b.kw("between")
				b.sp()
				b.lit([]string{"'2024-01-01 00:00:00'", "'1'", "'bad'"}[b.r.Intn(3)])
				b.sp()
				b.kw("and")
				b.sp()
				b.lit([]string{"'2024-01-02 00:00:00.000'", "'2'", "'bad'"}[b.r.Intn(3)])
			case 5:
				b.lit(b.ident([]string{"amount", "_key"}))
				b.lit(" = 1")
			default:
				b.lit("_partition = 1")
			}
		}
	}
	// tail clauses in a random but mostly sensible order
	order := []int{0, 1, 2, 3, 4, 5, 6}
	if b.r.Chance(10) {
		b.odd = true
		for i := range order {
			j := b.r.Intn(i + 1)
			order[i], order[j] = order[j], order[i]
		}
	}
	for _, c := range order {
		if !b.r.Chance(28) {
			continue
		}
		b.sp()
		switch c {
		case 0:
			b.kw("group", "by")
			b.sp()
			n := b.r.Range(1, 3)
			for i := 0; i < n; i++ {
				if i > 0 {
					b.lit(",")
					if b.r.Bool() {
						b.sp()
					}
				}
				b.lit(b.ident(c35Cols))
			}
		case 1:
			b.kw("order", "by")
			b.sp()
			b.lit(b.ident([]string{"_ts", "_offset", "amount"}))
			if b.r.Chance(50) {
				b.sp()
				b.kw([]string{"desc", "asc"}[b.r.Intn(2)])
			}
		case 2:
			b.kw("limit")
			b.sp()
			b.lit([]string{"10", "0", "x"}[b.r.Intn(3)])
		case 3:
			b.kw("last")
			b.sp()
			b.lit([]string{"1h", "15m", "7D"}[b.r.Intn(3)])
		case 4:
			b.kw("tail")
			b.sp()
			b.lit("5")
		case 5:
			b.kw("within")
			b.sp()
			b.lit("10m")
		case 6:
			b.kw("scan")
			if b.r.Chance(80) {
				b.sp()
				b.kw("full")
			}
		}
	}
}

func (b *c35Builder) statement() {
	if b.r.Chance(8) {
		b.sp()
	}
	switch b.r.Intn(14) {
	case 0:
		b.kw("show")
		b.sp()
		b.kw("topics")
	case 1:
		b.kw("show")
		b.sp()
		b.kw("partitions")
		if b.r.Chance(90) {
			b.sp()
			b.kw("from")
			if b.r.Chance(90) {
				b.sp()
				b.lit(b.ident(c35Topics_))
			}
		}
	case 2:
		b.kw("describe")
		if b.r.Chance(90) {
			b.sp()
			b.lit(b.ident(c35Topics_))
		}
	case 3, 4:
		n := 1
		if b.r.Chance(15) {
			n = b.r.Range(2, 4)
		}
		for i := 0; i < n; i++ {
			b.kw("explain")
			b.sp()
		}
		if b.r.Chance(85) {
			b.selectStmt()
		} else if b.r.Chance(50) {
			b.kw("show")
			b.sp()
			b.kw("topics")
		}
	case 5:
		b.lit([]string{"insert into t values (1)", "set x = 1", "", ";", "selectx from t", "explainselect * from t"}[b.r.Intn(6)])
	default:
		b.selectStmt()
	}
	for b.r.Chance(30) {
		b.lit([]string{";", ";;", " ;", "; ", "\n"}[b.r.Intn(5)])
	}
}

func c35Join(segs []c35Seg, recase func(string) string) string {
	var sb strings.Builder
	for _, s := range segs {
		if s.kw && recase != nil {
			sb.WriteString(recase(s.s))
		} else {
			sb.WriteString(s.s)
		}
	}
	return sb.String()
}

func c35Recase(r *vRand) func(string) string {
	return func(w string) string {
		switch r.Intn(4) {
		case 0:
			return strings.ToUpper(w)
		case 1:
			return w
		case 2:
			return strings.ToUpper(w[:1]) + w[1:]
		}
		b := []byte(w)
		for i := range b {
			if r.Bool() && 'a' <= b[i] && b[i] <= 'z' {
				b[i] -= 32
			}
		}
		return string(b)
	}
}

var c35Soup = []string{"select", "from", "join", "left", "on", "where", "group by", "order by", "group", "order", "by", "limit", "last", "tail",
	"within", "scan", "full", "explain", "show", "topics", "partitions", "describe", "and", "=", ">=", "<=", "_partition", "_offset", "_ts", "desc",
	"*", ",", "(", ")", ";", "t", "orders", "1", "-1", "o._key", "p._key", "ſelect", "laſt", "ſcan", "xſelect", "K", "Ⱥ", "İ", "\xff", "'", "as", "count(*)"}

// c35LastSegs: the segments of the structured statement c35GenText built last (nil otherwise)
var c35LastSegs []c35Seg

func c35GenText(r *vRand) (text string, variant string, kind string, odd bool) {
	c35LastSegs = nil
	switch r.Intn(12) {
	case 0: // keyword soup
		n := r.Range(1, 14)
		var sb strings.Builder
		for i := 0; i < n; i++ {
			if i > 0 && !r.Chance(8) {
				sb.WriteString(c35Spaces[r.Intn(len(c35Spaces))])
			}
			w := c35Soup[r.Intn(len(c35Soup))]
			if r.Chance(30) {
				w = strings.ToUpper(w)
			}
			sb.WriteString(w)
		}
		return sb.String(), "", "soup", true
	case 1: // random bytes, biased to a printable prefix
		b := r.Bytes(r.Range(0, 40))
		if r.Bool() {
			b = append([]byte([]string{"select ", "explain ", "select * from t order by ", "select * from a join b on "}[r.Intn(4)]), b...)
		}
		return string(b), "", "bytes", true
	}
	b := &c35Builder{r: r, wild: r.Intn(4)}
	b.statement()
	text = c35Join(b.segs, nil)
	kind = fmt.Sprintf("structured-wild%d", b.wild)
	if r.Chance(25) { // byte-level mutation of a structured query
		bs := []byte(text)
		for k := r.Range(1, 3); k > 0 && len(bs) > 0; k-- {
			i := r.Intn(len(bs))
			switch r.Intn(4) {
			case 0:
				bs = append(bs[:i], bs[i+1:]...)
			case 1:
				ins := []byte(c35Special[r.Intn(len(c35Special))])
				if r.Chance(30) {
					ins = []byte(c35Invalid[r.Intn(len(c35Invalid))])
				}
				bs = append(bs[:i], append(ins, bs[i:]...)...)
			case 2:
				bs[i] = byte(r.U64())
			default:
				bs = bs[:i]
			}
		}
		return string(bs), "", "mutated", true
	}
	variant = c35Join(b.segs, c35Recase(r))
	c35LastSegs = b.segs
	return text, variant, kind, b.odd
}

func c35StripRaw(q Query) Query {
	if q.Select != nil {
		cols := make([]SelectColumn, len(q.Select))
		copy(cols, q.Select)
		for i := range cols {
			cols[i].Raw = ""
		}
		q.Select = cols
	}
	if q.Explain != nil {
		e := c35StripRaw(*q.Explain)
		q.Explain = &e
	}
	return q
}

func c35ErrStr(e error) string {
	if e == nil {
		return "<nil>"
	}
	return e.Error()
}

// c35Oracle evaluates the property's clauses on the real code; "" = holds.
func c35Oracle(text, variant string, odd bool) (key, what string) {
	o := c35Parse(text)
	if o.panicked {
		return "parser-panic", fmt.Sprintf("Parse(%q) panicked: %s", text, o.panicMsg)
	}
	if variant != "" && variant != text {
		v := c35Parse(variant)
		if v.panicked {
			return "parser-panic", fmt.Sprintf("Parse(%q) panicked: %s", variant, v.panicMsg)
		}
		if !odd && (c35ErrStr(o.err) != c35ErrStr(v.err) || !reflect.DeepEqual(c35StripRaw(o.q), c35StripRaw(v.q))) {
			return "keyword-case", fmt.Sprintf("Parse(%q) = %+v, %v but keyword-case variant Parse(%q) = %+v, %v", text, c35StripRaw(o.q), o.err, variant, c35StripRaw(v.q), v.err)
		}
	}
	return "", ""
}

// c35Stream derives truncated and locally damaged texts from one structured statement:
// every prefix at a segment (token / white space) boundary in three keyword cases with
// and without a trailing ';' / white space; for a sample every byte prefix; every single
// token deleted, duplicated and swapped with its neighbour. visit is called on each.
func c35Stream(segs []c35Seg, r *vRand, visit func(text, stream string)) {
	upper := func(w string) string { return strings.ToUpper(w) }
	tails := []string{"", ";", " ", " ;", ";;", "\n"}
	for k := 1; k <= len(segs); k++ {
		visit(c35Join(segs[:k], nil), "prefix")
		visit(c35Join(segs[:k], upper)+";", "prefix")
		visit(c35Join(segs[:k], c35Recase(r))+tails[r.Intn(len(tails))], "prefix")
	}
	text := c35Join(segs, nil)
	if r.Chance(15) {
		for i := 0; i <= len(text); i++ {
			visit(text[:i], "byte-prefix")
		}
	}
	toks := strings.Fields(text)
	for i := range toks {
		del := append(append([]string(nil), toks[:i]...), toks[i+1:]...)
		visit(strings.Join(del, " "), "token-op")
		dup := append(append(append([]string(nil), toks[:i+1]...), toks[i]), toks[i+1:]...)
		visit(strings.Join(dup, " "), "token-op")
		if i+1 < len(toks) {
			sw := append([]string(nil), toks...)
			sw[i], sw[i+1] = sw[i+1], sw[i]
			visit(strings.Join(sw, " "), "token-op")
		}
	}
}

// ---------------------------------------------------------------- concurrent cold start
// Parse runs on every client connection's goroutine (server.go handleConnection, proxy
// handleConn). The Coq theorems are about Parse as a pure function of its argument; state
// hidden in the package (lazily filled caches, shared buffers) is outside the model and is
// covered here: a fresh process releases 4 x GOMAXPROCS goroutines from a barrier, each
// parsing its first statements at the same moment. A Go runtime "fatal error: concurrent map
// writes" cannot be recovered, so the process is re-executed as a child and watched.

func c35ColdStatements(seed uint64, n int) []string {
	r := vNewRand(seed)
	var out []string
	for len(out) < n {
		b := &c35Builder{r: r.Fork(), wild: 0}
		b.statement()
		if b.odd {
			continue
		}
		out = append(out, c35Join(b.segs, c35Recase(r)))
	}
	return out
}

const c35PerGoroutine = 3

// TestVerifC35Child is the child process: it must not call Parse before the barrier opens.
func TestVerifC35Child(t *testing.T) {
	sd := os.Getenv("VERIF_C35_CHILD")
	if sd == "" {
		t.Skip("child of the cold-start stream only")
	}
	seed, _ := strconv.ParseUint(sd, 10, 64)
	g := 4 * runtime.GOMAXPROCS(0)
	rounds := 1
	if os.Getenv("VERIF_C35_RACE") != "" {
		rounds = 4
	}
	stmts := c35ColdStatements(seed, g*c35PerGoroutine)
	start := make(chan struct{})
	var wg sync.WaitGroup
	for i := 0; i < g; i++ {
		wg.Add(1)
		go func(i int) {
			defer wg.Done()
			<-start
			for k := 0; k < c35PerGoroutine*rounds; k++ {
				func() {
					defer func() { _ = recover() }() // panics are the sequential streams' business
					_, _ = Parse(stmts[i*c35PerGoroutine+k%c35PerGoroutine])
				}()
			}
		}(i)
	}
	close(start)
	wg.Wait()
}

// c35ColdRun re-executes this test binary n times as a cold child; returns the first death.
func c35ColdRun(seed uint64, n int, race bool) (died bool, childSeed uint64, out string) {
	type res struct {
		seed uint64
		out  string
		bad  bool
	}
	r := vNewRand(seed ^ 0xc01d)
	seeds := make([]uint64, n)
	for i := range seeds {
		seeds[i] = r.U64()>>1 | 1
	}
	results := make([]res, n)
	sem := make(chan struct{}, 3)
	var wg sync.WaitGroup
	for i := range seeds {
		wg.Add(1)
		sem <- struct{}{}
		go func(i int) {
			defer wg.Done()
			defer func() { <-sem }()
			cmd := exec.Command(os.Args[0], "-test.run", "^TestVerifC35Child$", "-test.count=1", "-test.timeout=120s")
			cmd.Env = append(os.Environ(), "VERIF_C35_CHILD="+strconv.FormatUint(seeds[i], 10), "VERIF_REPLAY=")
			if race {
				cmd.Env = append(cmd.Env, "VERIF_C35_RACE=1")
			}
			b, err := cmd.CombinedOutput()
			o := string(b)
			results[i] = res{seeds[i], o, err != nil || strings.Contains(o, "DATA RACE") || strings.Contains(o, "fatal error")}
		}(i)
	}
	wg.Wait()
	for _, x := range results {
		if x.bad {
			o := x.out
			if len(o) > 1800 {
				o = o[:1800]
			}
			return true, x.seed, o
		}
	}
	return false, 0, ""
}

func c35ColdCheck(rep *vReport, seed uint64, n int, race bool) {
	rep.Hist(map[bool]string{false: "cold-start-children", true: "race-children"}[race])
	rep.Evaluations += n
	rep.Histogram[map[bool]string{false: "cold-start-children", true: "race-children"}[race]] += n - 1
	if died, cseed, out := c35ColdRun(seed, n, race); died {
		g := 4 * runtime.GOMAXPROCS(0)
		stmts := c35ColdStatements(cseed, g*c35PerGoroutine)
		if len(stmts) > 12 {
			stmts = stmts[:12]
		}
		key := "parser-process-death-concurrent-parse"
		if strings.Contains(out, "DATA RACE") && !strings.Contains(out, "fatal error") {
			key = "parser-shared-state-data-race"
		}
		rep.Fail(key, key, fmt.Sprintf("a fresh process in which %d goroutines call Parse at the same time on ordinary statements (e.g. %q) did not survive / is not race free: %s", g, stmts[0], out),
			c35Case{Cold: cseed, Stmts: stmts})
	}
}

// TestVerifC35Race is run by the second harness entry (go test -race): the same cold-start
// burst in race-instrumented children; mutable package-level state in internal/sql shows
// as a DATA RACE report even when the crash does not trigger.
func TestVerifC35Race(t *testing.T) {
	rep := vNewReport("C35", "race-instrumented cold processes each releasing 4 x GOMAXPROCS goroutines that Parse generated valid statements at the same time")
	n := vN(5, 30)
	seed := vSeed()
	if rc := vReplayCase(); rc != nil {
		var cs c35Case
		if json.Unmarshal(rc, &cs) == nil && cs.Cold != 0 {
			seed, n = cs.Cold, 10
		} else {
			n = 1
		}
	}
	c35ColdCheck(rep, seed, n, true)
	rep.WriteAs("C35_race")
	if len(rep.Failures) > 0 {
		t.Logf("oracle failures: %s", strings.TrimSpace(rep.Failures[0].What))
	}
}

func TestVerifC35(t *testing.T) {
	rep := vNewReport("C35", "query texts given to the real sql.Parse under recover: structured statements (show/describe/select/explain with joins, filters, group/order/limit/last/tail/within/scan clauses) whose identifiers, white space and clause positions carry length-changing letters (U+023A, U+212A, U+0130, U+017F ...), multi-byte white space and invalid UTF-8; keyword soup; byte mutations; random bytes; each structured query also as a keyword-case variant; and from every structured statement its truncations and local damage: every prefix at a token / white-space boundary in three keyword cases with and without trailing ';' / white space, every byte prefix for a sample, every single token deleted / duplicated / swapped with its neighbour (all parsed under recover; two per statement and every panicking one also compared with the model); plus the concurrent cold-start stream: fresh child processes in which 4 x GOMAXPROCS goroutines call Parse at the same moment on generated valid statements (the child must exit 0). Non-trivial = the text reaches parseSelect/parseExplain (first token select/explain) or contains a non-ASCII byte; distinct = distinct text")
	var coq, jsons []string
	runOne := func(cs c35Case, kind string) {
		text, variant := string(cs.Q), string(cs.V)
		o := c35Parse(text)
		lf := strings.Fields(strings.ToLower(text))
		nt := !c35IsASCII(text) || (len(lf) > 0 && (lf[0] == "select" || lf[0] == "explain"))
		rep.Count(text, nt)
		rep.Hist(kind)
		switch {
		case o.panicked:
			rep.Hist("result:panic")
		case o.err != nil:
			rep.Hist("result:error")
		default:
			rep.Hist("result:" + string(o.q.Type))
		}
		if !c35IsASCII(text) {
			rep.Hist("non-ascii")
		}
		cs.Text, cs.VTxt = text, variant
		rep.Sample(cs)
		if key, what := c35Oracle(text, variant, cs.Odd); key != "" {
			shr := cs
			if key == "parser-panic" {
				bad := text
				if !o.panicked {
					bad = variant
				}
				sb := vShrink([]byte(bad), func(b []byte) bool { return c35Parse(string(b)).panicked })
				shr = c35Case{Q: sb, Text: string(sb)}
				_, what = c35Oracle(string(sb), "", true)
			}
			rep.Fail(key, key, what, shr)
		}
		coq = append(coq, c35Coq(text, o))
		js, _ := json.Marshal(c35Case{Q: cs.Q})
		jsons = append(jsons, string(js))
		if variant != "" && variant != text {
			coq = append(coq, c35Coq(variant, c35Parse(variant)))
			js, _ := json.Marshal(c35Case{Q: cs.V})
			jsons = append(jsons, string(js))
		}
	}
	if rc := vReplayCase(); rc != nil {
		var cs c35Case
		if err := json.Unmarshal(rc, &cs); err != nil {
			t.Fatalf("bad replay: %v", err)
		}
		if cs.Cold != 0 {
			c35ColdCheck(rep, cs.Cold, 40, false)
		} else {
			runOne(cs, "replay")
		}
	} else {
		// concurrent cold start first (cheap, and a crash there is the worst outcome)
		c35ColdCheck(rep, vSeed(), vN(40, 300), false)
		corpus := []string{
			"select " + strings.Repeat("Ⱥ", 20) + " from t order by x", // design-round witness: slice bounds out of range [:68] with length 65
			"select * from t group by " + strings.Repeat("Ⱥ", 12),
			"select * from " + strings.Repeat("K", 9) + " join b on a._key = b._key",
			"select \xff\xff\xff\xff from t order by x desc",
			"select İİİİİİİİ, _key from t group by _key order by _ts",
			"EXPLAIN SELECT * FROM " + strings.Repeat("Ⱥ", 8) + " ORDER BY _ts",
			strings.Repeat("Ⱥ", 4) + "explain select * from t",
			"ſelect * from t", "xſelect * from t", "select * from t laſt 1h",
			"SELECT * FROM orders o JOIN payments p ON o._key = p._key WITHIN 10m LAST 1h;",
			"select count(*) as n, json_value(_value, '$.a') from orders where _partition = 1 and _offset >= 5 group by _key order by _ts desc limit 10",
			"explain explain select * from t", "explain show topics", "show partitions from", "describe", ";", "",
			"SELECT * FROM t WHERE _offset >=", "select * from t where _offset >=;", "SELECT * FROM t WHERE _partition =", "select * from t where _partition = ;",
			"select * from t where _offset", "select * from t where _partition", "select * from t where", "select * from t where _offset >= 5 and", "select * from t where _offset >= 5 and _partition",
			"show partitions", "show", "select * from t left", "select * from t left join", "select * from a join b on", "select * from t group by", "select * from t order by", "select * from t order",
			"select from t", "select * from", "select * from t join", "select * from a join b on a._key", "select * from a left join b",
		}
		for _, s := range corpus {
			runOne(c35Case{Q: []byte(s)}, "corpus")
		}
		// keyword-case pairs of valid queries touching every (?i) expression of the parser
		pairs := [][2]string{
			{"select count(*) as n, min(amount), sum(o.amount) total, json_value(_value, '$.a') as a, json_query(_value, '$.b'), json_exists(o._value, '$.c') from orders o left join payments p on json_value(o._value, '$.id') = p._key group by _key, _partition order by _ts desc limit 10 last 1h tail 5 within 10m scan full;",
				"SELECT COUNT(*) AS n, MIN(amount), SUM(o.amount) total, JSON_VALUE(_value, '$.a') AS a, JSON_QUERY(_value, '$.b'), JSON_EXISTS(o._value, '$.c') FROM orders o LEFT JOIN payments p ON JSON_VALUE(o._value, '$.id') = p._key GROUP BY _key, _partition ORDER BY _ts DESC LIMIT 10 LAST 1h TAIL 5 WITHIN 10m SCAN FULL;"},
			{"explain select avg(amount), max(_offset) from orders _ts between '2024-01-01 00:00:00' and '2024-01-02 00:00:00' order by _ts asc",
				"Explain Select Avg(amount), Max(_offset) From orders _ts Between '2024-01-01 00:00:00' And '2024-01-02 00:00:00' Order By _ts Asc"},
			{"select _key from orders a join payments b on a._key = b._key within 10m last 1h",
				"sELECT _key fROM orders a jOIN payments b oN a._key = b._key wITHIN 10m lAST 1h"},
			{"select count(*) from orders where _partition = 1 and _offset >= 5 and _offset <= 9 limit 10", "SELECT COUNT(*) FROM orders WHERE _partition = 1 AND _offset >= 5 AND _offset <= 9 LIMIT 10"},
			{"show partitions from orders", "SHOW PARTITIONS FROM orders"}, {"show topics", "Show Topics;"}, {"describe orders", "DESCRIBE orders"},
		}
		for _, pr := range pairs {
			if o := c35Parse(pr[0]); o.panicked || o.err != nil {
				rep.Notes = append(rep.Notes, fmt.Sprintf("corpus pair is not a valid query any more (%v): %q", o.err, pr[0]))
			}
			runOne(c35Case{Q: []byte(pr[0]), V: []byte(pr[1])}, "corpus")
		}
		r := vNewRand(vSeed())
		n := vN(220, 2600)
		for i := 0; i < n; i++ {
			text, variant, kind, odd := c35GenText(r.Fork())
			if variant != "" && !odd {
				rep.Hist("keyword-case-variant-checked")
			}
			runOne(c35Case{Q: []byte(text), V: []byte(variant), Odd: odd}, kind)
			if segs := c35LastSegs; segs != nil {
				// truncations and local damage of this statement: all parsed under recover; a
				// sample (and every panicking text) also goes through the model comparison
				sr := r.Fork()
				var pool []string
				panicked := map[string]bool{}
				c35Stream(segs, sr, func(tx, stream string) {
					rep.Evaluations++
					rep.Hist("stream:" + stream)
					if o := c35Parse(tx); o.panicked {
						if !panicked[o.panicMsg] {
							panicked[o.panicMsg] = true
							runOne(c35Case{Q: []byte(tx), Odd: true}, "stream-panic")
						}
						return
					}
					pool = append(pool, tx)
				})
				for k := 0; k < 2 && len(pool) > 0; k++ {
					runOne(c35Case{Q: []byte(pool[sr.Intn(len(pool))]), Odd: true}, "stream-sample")
				}
			}
		}
	}
	rep.Cases("C35", "From KS Require Import lib.Base model.SqlParse corr.SqlParseCorr.", "case", "check_case", coq, jsons)
	rep.Write()
	if len(rep.Failures) > 0 {
		t.Logf("oracle failures: %s", strings.TrimSpace(rep.Failures[0].What))
	}
}

func c35IsASCII(s string) bool {
	for i := 0; i < len(s); i++ {
		if s[i] >= 0x80 {
			return false
		}
	}
	return true
}
