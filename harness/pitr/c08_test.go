package storage

// C08 harness: point-in-time restore copies an exact, valid prefix or nothing.
// Runs the real RecoverTopicToTimestamp on the repo's MemoryS3Client behind a fault
// injector (fault at S3 call index k for EVERY k below the number of calls of the
// fault-free run, plus random multi-fault sets that also hit the rollback deletes),
// on generated source histories: segment creation times and record timestamps
// clustered around the cutoff T (+-2 ms), partition subsets, pre-existing target
// objects, unrelated topics.  Implementation-side oracle: the target is decoded with
// an independent decoder (franz-go kmsg + encoding/binary varints) and compared with
// the decoded source; rewritten batches are checked for length/count/lastOffsetDelta/
// CRC; a failed restore must leave no new object under the target prefix unless a
// delete failed.  Every executed (case, fault set) is also emitted as a Coq term for
// the model/code correspondence (corr/PitrCorr.v).

import (
	"bytes"
	"context"
	"encoding/binary"
	"encoding/json"
	"errors"
	"fmt"
	"hash/crc32"
	"sort"
	"strconv"
	"strings"
	"testing"
	"time"

	"github.com/twmb/franz-go/pkg/kmsg"
)

// ---------- case description ----------
type c08Rec struct {
	Ts  int64  `json:"ts"`  // absolute timestamp (ms)
	Key []byte `json:"k,omitempty"`
	Val []byte `json:"v,omitempty"`
}
type c08Batch struct {
	Recs       []c08Rec `json:"recs"`
	HdrFirst   *int64   `json:"hdr_first,omitempty"` // inconsistent-header stream only
	HdrMax     *int64   `json:"hdr_max,omitempty"`
	Compressed bool     `json:"compressed,omitempty"` // attributes say gzip (payload opaque)
	NegLod     bool     `json:"neg_lod,omitempty"`    // header lastOffsetDelta = -1 (inconsistent-header stream only)
}
type c08Seg struct {
	Part     int32      `json:"part"`
	Created  int64      `json:"created"`
	Interval int32      `json:"interval"`
	Batches  []c08Batch `json:"batches"`
}
type c08Case struct {
	T          int64    `json:"t"`      // cutoff, ms
	TNanos     int64    `json:"tnanos"` // extra nanoseconds inside the millisecond
	Parts      []int32  `json:"parts"`  // cfg.Partitions
	Segs       []c08Seg `json:"segs"`   // per partition in offset order
	PreIdx     []int64  `json:"pre_idx,omitempty"` // pre-existing target .index objects (partition 0, these bases)
	PreSeg     bool     `json:"pre_seg,omitempty"` // a pre-existing target .kfs object
	Other      bool     `json:"other,omitempty"`   // objects of an unrelated topic
	NoIndex    int      `json:"no_index,omitempty"` // 1+i: source segment i has no .index object
	Faults     []int    `json:"faults"`            // S3 call indices that fail
	Inconsist  bool     `json:"inconsistent,omitempty"`
	Chain      int      `json:"chain,omitempty"` // k>0: after a fault-free successful restore, restore the RESTORED topic to T-(k-1)
}

const (
	c08SrcNS, c08SrcTopic = "ns1", "src"
	c08DstNS, c08DstTopic = "ns2", "dst"
)

// which topic plays source / target in the restore under test (hop 2 of a chained
// scenario restores ns2/dst into ns3/dst3)
type c08Roles struct{ srcNS, srcTopic, dstNS, dstTopic string }

var c08Hop1 = c08Roles{c08SrcNS, c08SrcTopic, c08DstNS, c08DstTopic}
var c08Hop2Roles = c08Roles{c08DstNS, c08DstTopic, "ns3", "dst3"}
var c08Hop = c08Hop1

var c08Crc = crc32.MakeTable(crc32.Castagnoli)

// ---------- independent encoder for the source ----------
func c08EncodeRecord(tsDelta int64, offDelta int64, key, val []byte) []byte {
	var body []byte
	body = append(body, 0) // attributes
	body = binary.AppendVarint(body, tsDelta)
	body = binary.AppendVarint(body, offDelta)
	if key == nil {
		body = binary.AppendVarint(body, -1)
	} else {
		body = binary.AppendVarint(body, int64(len(key)))
		body = append(body, key...)
	}
	body = binary.AppendVarint(body, int64(len(val)))
	body = append(body, val...)
	body = binary.AppendVarint(body, 0) // headers
	out := binary.AppendVarint(nil, int64(len(body)))
	return append(out, body...)
}

func c08EncodeBatch(base int64, b c08Batch) []byte {
	first := b.Recs[0].Ts
	max := first
	var recs []byte
	for i, r := range b.Recs {
		if r.Ts > max {
			max = r.Ts
		}
		recs = append(recs, c08EncodeRecord(r.Ts-first, int64(i), r.Key, r.Val)...)
	}
	hf, hm := first, max
	if b.HdrFirst != nil {
		// an inconsistent header still has to decode to the same record timestamps:
		// re-encode the deltas against the header's first timestamp
		hf = *b.HdrFirst
		recs = recs[:0]
		for i, r := range b.Recs {
			recs = append(recs, c08EncodeRecord(r.Ts-hf, int64(i), r.Key, r.Val)...)
		}
	}
	if b.HdrMax != nil {
		hm = *b.HdrMax
	}
	out := make([]byte, 61, 61+len(recs))
	binary.BigEndian.PutUint64(out[0:8], uint64(base))
	binary.BigEndian.PutUint32(out[8:12], uint32(61-12+len(recs)))
	binary.BigEndian.PutUint32(out[12:16], 7) // partition leader epoch
	out[16] = 2
	attrs := uint16(0)
	if b.Compressed {
		attrs = 1
	}
	binary.BigEndian.PutUint16(out[21:23], attrs)
	binary.BigEndian.PutUint32(out[23:27], uint32(len(b.Recs)-1))
	if b.NegLod {
		binary.BigEndian.PutUint32(out[23:27], 0xffffffff) // NewRecordBatchFromBytes rejects it
	}
	binary.BigEndian.PutUint64(out[27:35], uint64(hf))
	binary.BigEndian.PutUint64(out[35:43], uint64(hm))
	binary.BigEndian.PutUint64(out[43:51], 0xffffffffffffffff) // producer id -1
	binary.BigEndian.PutUint16(out[51:53], 0xffff)
	binary.BigEndian.PutUint32(out[53:57], 0xffffffff)
	binary.BigEndian.PutUint32(out[57:61], uint32(len(b.Recs)))
	out = append(out, recs...)
	binary.BigEndian.PutUint32(out[17:21], crc32.Checksum(out[21:], c08Crc))
	return out
}

type c08Obj struct {
	Key  string
	Data []byte
	Idx  bool
}

func c08SegKey(ns, topic string, part int32, base int64, idx bool) string {
	ext := "kfs"
	if idx {
		ext = "index"
	}
	return fmt.Sprintf("%s/%s/%d/segment-%020d.%s", ns, topic, part, base, ext)
}

// c08BuildSegment: header(32) body footer(16) and a sparse index, written by hand.
func c08BuildSegment(base int64, created int64, interval int32, batches [][]byte, counts []int32, bases []int64, last int64) ([]byte, []byte) {
	var body []byte
	type ent struct {
		off int64
		pos int32
	}
	var ents []ent
	iv := interval
	if iv <= 0 {
		iv = 1
	}
	since := int32(0)
	total := int32(0)
	for i, b := range batches {
		if len(ents) == 0 || since >= iv {
			ents = append(ents, ent{bases[i], int32(32 + len(body))})
			since = 0
		}
		since += counts[i]
		total += counts[i]
		body = append(body, b...)
	}
	seg := make([]byte, 0, 48+len(body))
	seg = append(seg, "KAFS"...)
	seg = binary.BigEndian.AppendUint16(seg, 1)
	seg = binary.BigEndian.AppendUint16(seg, 0)
	seg = binary.BigEndian.AppendUint64(seg, uint64(base))
	seg = binary.BigEndian.AppendUint32(seg, uint32(total))
	seg = binary.BigEndian.AppendUint64(seg, uint64(created))
	seg = binary.BigEndian.AppendUint32(seg, 0)
	seg = append(seg, body...)
	seg = binary.BigEndian.AppendUint32(seg, crc32.Checksum(body, c08Crc))
	seg = binary.BigEndian.AppendUint64(seg, uint64(last))
	seg = append(seg, "END!"...)
	idx := []byte("IDX\x00")
	idx = binary.BigEndian.AppendUint16(idx, 1)
	idx = binary.BigEndian.AppendUint32(idx, uint32(len(ents)))
	idx = binary.BigEndian.AppendUint32(idx, uint32(interval))
	idx = binary.BigEndian.AppendUint16(idx, 0)
	for _, e := range ents {
		idx = binary.BigEndian.AppendUint64(idx, uint64(e.off))
		idx = binary.BigEndian.AppendUint32(idx, uint32(e.pos))
	}
	return seg, idx
}

// c08Objects renders the initial S3 contents of a case.
func c08Objects(cs c08Case) []c08Obj {
	var objs []c08Obj
	next := map[int32]int64{}
	for si, sg := range cs.Segs {
		base := next[sg.Part]
		off := base
		var bb [][]byte
		var counts []int32
		var bases []int64
		for _, b := range sg.Batches {
			bb = append(bb, c08EncodeBatch(off, b))
			counts = append(counts, int32(len(b.Recs)))
			bases = append(bases, off)
			off += int64(len(b.Recs))
		}
		seg, idx := c08BuildSegment(base, sg.Created, sg.Interval, bb, counts, bases, off-1)
		next[sg.Part] = off
		objs = append(objs, c08Obj{Key: c08SegKey(c08SrcNS, c08SrcTopic, sg.Part, base, false), Data: seg})
		if cs.NoIndex != si+1 {
			objs = append(objs, c08Obj{Key: c08SegKey(c08SrcNS, c08SrcTopic, sg.Part, base, true), Data: idx, Idx: true})
		}
	}
	for _, b := range cs.PreIdx {
		objs = append(objs, c08Obj{Key: c08SegKey(c08DstNS, c08DstTopic, 0, b, true), Data: []byte("old-index"), Idx: true})
	}
	if cs.PreSeg {
		objs = append(objs, c08Obj{Key: c08SegKey(c08DstNS, c08DstTopic, 1, 0, false), Data: []byte("old-segment-object-bytes")})
	}
	if cs.Other {
		objs = append(objs, c08Obj{Key: c08SegKey(c08SrcNS, "srcx", 0, 0, false), Data: []byte("unrelated topic, same namespace")})
		objs = append(objs, c08Obj{Key: c08SegKey(c08DstNS, "dst2", 0, 0, true), Data: []byte("unrelated index"), Idx: true})
	}
	sort.Slice(objs, func(i, j int) bool { return objs[i].Key < objs[j].Key })
	return objs
}

// ---------- fault-injecting S3 ----------
var errC08Injected = errors.New("injected S3 fault")

type c08S3 struct {
	*MemoryS3Client
	calls    int
	faults   map[int]bool
	delFail  bool
	callLog  []string
}

func (s *c08S3) hit(op string) bool {
	k := s.calls
	s.calls++
	s.callLog = append(s.callLog, op)
	return s.faults[k]
}
func (s *c08S3) UploadSegment(ctx context.Context, key string, body []byte) error {
	if s.hit("put") {
		return errC08Injected
	}
	return s.MemoryS3Client.UploadSegment(ctx, key, body)
}
func (s *c08S3) UploadIndex(ctx context.Context, key string, body []byte) error {
	if s.hit("put") {
		return errC08Injected
	}
	return s.MemoryS3Client.UploadIndex(ctx, key, body)
}
func (s *c08S3) DeleteSegment(ctx context.Context, key string) error {
	if s.hit("del") {
		s.delFail = true
		return errC08Injected
	}
	return s.MemoryS3Client.DeleteSegment(ctx, key)
}
func (s *c08S3) DeleteIndex(ctx context.Context, key string) error {
	if s.hit("del") {
		s.delFail = true
		return errC08Injected
	}
	return s.MemoryS3Client.DeleteIndex(ctx, key)
}
func (s *c08S3) DownloadSegment(ctx context.Context, key string, rng *ByteRange) ([]byte, error) {
	if s.hit("get") {
		return nil, errC08Injected
	}
	return s.MemoryS3Client.DownloadSegment(ctx, key, rng)
}
func (s *c08S3) DownloadIndex(ctx context.Context, key string) ([]byte, error) {
	if s.hit("get") {
		return nil, errC08Injected
	}
	return s.MemoryS3Client.DownloadIndex(ctx, key)
}

// ListSegments: like S3's ListObjectsV2 the listing is in key order (the in-memory
// client iterates a Go map); the order fixes which call a fault index hits.
func (s *c08S3) ListSegments(ctx context.Context, prefix string) ([]S3Object, error) {
	if s.hit("list") {
		return nil, errC08Injected
	}
	out, err := s.MemoryS3Client.ListSegments(ctx, prefix)
	sort.Slice(out, func(i, j int) bool { return out[i].Key < out[j].Key })
	return out, err
}

func (s *c08S3) snapshot() []c08Obj {
	s.mu.Lock()
	defer s.mu.Unlock()
	var out []c08Obj
	for k, v := range s.data {
		out = append(out, c08Obj{Key: k, Data: append([]byte(nil), v...)})
	}
	for k, v := range s.index {
		out = append(out, c08Obj{Key: k, Data: append([]byte(nil), v...), Idx: true})
	}
	sort.Slice(out, func(i, j int) bool { return out[i].Key < out[j].Key })
	return out
}

// ---------- structured keys ----------
type c08Key struct {
	Space int
	Part  int64
	Base  int64
	Idx   bool
}

func c08ParseKey(k string) (c08Key, bool) {
	var out c08Key
	parts := strings.Split(k, "/")
	if len(parts) != 4 {
		return out, false
	}
	switch parts[0] + "/" + parts[1] {
	case c08Hop.srcNS + "/" + c08Hop.srcTopic:
		out.Space = 0
	case c08Hop.dstNS + "/" + c08Hop.dstTopic:
		out.Space = 1
	case c08SrcNS + "/srcx":
		out.Space = 2
	case c08DstNS + "/dst2":
		out.Space = 3
	case c08SrcNS + "/" + c08SrcTopic:
		out.Space = 4
	case c08DstNS + "/" + c08DstTopic:
		out.Space = 5
	case "ns3/dst3":
		out.Space = 6
	default:
		return out, false
	}
	p, err := strconv.ParseInt(parts[2], 10, 32)
	if err != nil {
		return out, false
	}
	out.Part = p
	name := parts[3]
	if !strings.HasPrefix(name, "segment-") {
		return out, false
	}
	name = strings.TrimPrefix(name, "segment-")
	switch {
	case strings.HasSuffix(name, ".kfs"):
		name = strings.TrimSuffix(name, ".kfs")
	case strings.HasSuffix(name, ".index"):
		name = strings.TrimSuffix(name, ".index")
		out.Idx = true
	default:
		return out, false
	}
	b, err := strconv.ParseInt(name, 10, 64)
	if err != nil || len(name) != 20 {
		return out, false
	}
	out.Base = b
	return out, true
}

// ---------- independent decoder (oracle side) ----------
type c08DecRec struct {
	Off int64
	Ts  int64
	Raw []byte
}
type c08DecBatch struct {
	Raw  []byte
	Hdr  kmsg.RecordBatch
	Recs []c08DecRec
	Bad  string // "" or what is invalid about the batch
}

func c08DecodeSegment(seg []byte) ([]c08DecBatch, string) {
	if len(seg) < 48 || string(seg[:4]) != "KAFS" || string(seg[len(seg)-4:]) != "END!" {
		return nil, "segment framing"
	}
	body := seg[32 : len(seg)-16]
	var out []c08DecBatch
	for len(body) > 0 {
		if len(body) < 61 {
			return out, "trailing bytes in segment body"
		}
		var hdr kmsg.RecordBatch
		ln := int(int32(binary.BigEndian.Uint32(body[8:12])))
		if ln < 49 || 12+ln > len(body) {
			return out, fmt.Sprintf("batch length field %d does not fit the remaining %d bytes", ln, len(body))
		}
		raw := body[:12+ln]
		if err := hdr.ReadFrom(raw); err != nil {
			return out, "kmsg batch decode: " + err.Error()
		}
		db := c08DecBatch{Raw: append([]byte(nil), raw...), Hdr: hdr}
		{ // the generator's "compressed" batches carry plain records: decode regardless of the codec bits
			in := hdr.Records
			for i := int32(0); i < hdr.NumRecords; i++ {
				l, n := binary.Varint(in)
				if n <= 0 || l < 0 || int(l)+n > len(in) {
					db.Bad = fmt.Sprintf("record %d of %d does not decode", i, hdr.NumRecords)
					break
				}
				var rec kmsg.Record
				if err := rec.ReadFrom(in[:n+int(l)]); err != nil {
					db.Bad = fmt.Sprintf("record %d: %v", i, err)
					break
				}
				db.Recs = append(db.Recs, c08DecRec{Off: hdr.FirstOffset + int64(rec.OffsetDelta), Ts: hdr.FirstTimestamp + rec.TimestampDelta64, Raw: append([]byte(nil), in[:n+int(l)]...)})
				in = in[n+int(l):]
			}
			if db.Bad == "" && len(in) != 0 {
				db.Bad = fmt.Sprintf("%d bytes left after %d records", len(in), hdr.NumRecords)
			}
			if db.Bad == "" && len(db.Recs) > 0 && int64(hdr.LastOffsetDelta) != db.Recs[len(db.Recs)-1].Off-hdr.FirstOffset {
				db.Bad = fmt.Sprintf("lastOffsetDelta %d, last record's delta %d", hdr.LastOffsetDelta, db.Recs[len(db.Recs)-1].Off-hdr.FirstOffset)
			}
		}
		if db.Bad == "" && uint32(hdr.CRC) != crc32.Checksum(raw[21:], c08Crc) {
			db.Bad = "crc mismatch"
		}
		if db.Bad == "" && int(hdr.Length) != len(raw)-12 {
			db.Bad = "batchLength"
		}
		out = append(out, db)
		body = body[12+ln:]
	}
	return out, ""
}

type c08Outcome struct {
	Err      string
	Calls    int
	DelFail  bool
	CallLog  []string
	Final    []c08Obj
	Summary  [][3]int64
	Initial  []c08Obj
}

func c08Run(cs c08Case) c08Outcome { return c08RunFrom(cs, c08Objects(cs)) }

func c08RunFrom(cs c08Case, init []c08Obj) c08Outcome {
	mem := NewMemoryS3Client()
	for _, o := range init {
		if o.Idx {
			_ = mem.UploadIndex(context.Background(), o.Key, o.Data)
		} else {
			_ = mem.UploadSegment(context.Background(), o.Key, o.Data)
		}
	}
	s3 := &c08S3{MemoryS3Client: mem, faults: map[int]bool{}}
	for _, k := range cs.Faults {
		s3.faults[k] = true
	}
	res, err := RecoverTopicToTimestamp(context.Background(), s3, TopicRecoveryConfig{
		SourceNamespace: c08Hop.srcNS, SourceTopic: c08Hop.srcTopic,
		TargetNamespace: c08Hop.dstNS, TargetTopic: c08Hop.dstTopic,
		RestoreTo:  time.UnixMilli(cs.T).Add(time.Duration(cs.TNanos)),
		Partitions: cs.Parts,
	})
	out := c08Outcome{Calls: s3.calls, DelFail: s3.delFail, CallLog: s3.callLog, Final: s3.snapshot(), Initial: init}
	if err != nil {
		out.Err = err.Error()
	} else {
		for _, p := range res.Partitions {
			out.Summary = append(out.Summary, [3]int64{int64(p.Partition), int64(p.SegmentsCopied), p.LastOffset})
		}
	}
	return out
}

// c08Oracle checks the property clauses on what the real code did. Returns (key, what).
func c08Oracle(cs c08Case, o c08Outcome) (string, string) {
	initial := map[string][]byte{}
	for _, ob := range o.Initial {
		initial[ob.Key] = ob.Data
	}
	dstPrefix := c08Hop.dstNS + "/" + c08Hop.dstTopic + "/"
	srcPrefix := c08Hop.srcNS + "/" + c08Hop.srcTopic + "/"
	// objects outside the target prefix never change
	finalM := map[string][]byte{}
	for _, ob := range o.Final {
		finalM[ob.Key] = ob.Data
		if _, ok := c08ParseKey(ob.Key); !ok {
			return "key-format", fmt.Sprintf("object key %q is not in the canonical <ns>/<topic>/<partition>/segment-<20 digits>.<ext> form", ob.Key)
		}
	}
	for k, v := range initial {
		if strings.HasPrefix(k, dstPrefix) {
			continue
		}
		if fv, ok := finalM[k]; !ok || !bytes.Equal(fv, v) {
			return "source-modified", fmt.Sprintf("object %s outside the target prefix was changed or removed", k)
		}
	}
	if o.Err != "" {
		if o.DelFail {
			return "", ""
		}
		for _, ob := range o.Final {
			if strings.HasPrefix(ob.Key, dstPrefix) {
				if _, ok := initial[ob.Key]; !ok {
					return "rollback-leftover", fmt.Sprintf("restore failed (%s) with every delete succeeding, but %s exists under the target prefix and did not exist before", o.Err, ob.Key)
				}
			}
		}
		return "", ""
	}
	// success: decode source and target per partition
	type part struct{ src, dst []c08Obj }
	parts := map[int64]*part{}
	get := func(p int64) *part {
		if parts[p] == nil {
			parts[p] = &part{}
		}
		return parts[p]
	}
	for _, ob := range o.Initial {
		if k, _ := c08ParseKey(ob.Key); strings.HasPrefix(ob.Key, srcPrefix) && !k.Idx {
			get(k.Part).src = append(get(k.Part).src, ob)
		}
	}
	for _, ob := range o.Final {
		if k, _ := c08ParseKey(ob.Key); strings.HasPrefix(ob.Key, dstPrefix) && !k.Idx {
			get(k.Part).dst = append(get(k.Part).dst, ob)
		}
	}
	selected := func(p int64) bool {
		if len(cs.Parts) == 0 {
			return true
		}
		for _, q := range cs.Parts {
			if int64(q) == p {
				return true
			}
		}
		return false
	}
	byBase := func(l []c08Obj) {
		sort.Slice(l, func(i, j int) bool {
			a, _ := c08ParseKey(l[i].Key)
			b, _ := c08ParseKey(l[j].Key)
			return a.Base < b.Base
		})
	}
	var pnums []int64
	for p := range parts {
		pnums = append(pnums, p)
	}
	sort.Slice(pnums, func(i, j int) bool { return pnums[i] < pnums[j] })
	for _, p := range pnums {
		pt := parts[p]
		if !selected(p) || len(pt.src) == 0 {
			if len(pt.dst) > 0 {
				return "unselected-partition-copied", fmt.Sprintf("partition %d was not selected but has target objects", p)
			}
			continue
		}
		byBase(pt.src)
		byBase(pt.dst)
		// expected records: whole segments before the final candidate, then the final
		// candidate cut at its first record later than T
		lc := len(pt.src) - 1
		for i, ob := range pt.src {
			created := int64(binary.BigEndian.Uint64(ob.Data[20:28]))
			if created > cs.T {
				lc = i
				break
			}
		}
		var want []c08DecRec
		for i := 0; i <= lc; i++ {
			bs, bad := c08DecodeSegment(pt.src[i].Data)
			if bad != "" {
				return "", "" // generator produced an undecodable source: not a property case
			}
			cut := false
			for _, b := range bs {
				for _, r := range b.Recs {
					if i == lc && r.Ts > cs.T {
						cut = true
						break
					}
					want = append(want, r)
				}
				if cut {
					break
				}
			}
		}
		var got []c08DecRec
		for _, ob := range pt.dst {
			bs, bad := c08DecodeSegment(ob.Data)
			if bad != "" {
				return "target-undecodable", fmt.Sprintf("partition %d: target object %s: %s", p, ob.Key, bad)
			}
			for _, b := range bs {
				if b.Bad != "" {
					return "batch-invalid", fmt.Sprintf("partition %d: target object %s holds an invalid batch at base offset %d: %s", p, ob.Key, b.Hdr.FirstOffset, b.Bad)
				}
				// closure: the output satisfies the guard restores require of their input
				if !cs.Inconsist && len(b.Recs) > 0 {
					mx := b.Recs[0].Ts
					for _, r := range b.Recs {
						if r.Ts > mx {
							mx = r.Ts
						}
					}
					if b.Hdr.FirstTimestamp != b.Recs[0].Ts || b.Hdr.MaxTimestamp != mx {
						return "output-header-inconsistent", fmt.Sprintf("partition %d: target batch at base offset %d has firstTimestamp %d / maxTimestamp %d but its records start at %d and reach %d", p, b.Hdr.FirstOffset, b.Hdr.FirstTimestamp, b.Hdr.MaxTimestamp, b.Recs[0].Ts, mx)
					}
				}
				got = append(got, b.Recs...)
			}
		}
		if len(got) != len(want) {
			return "prefix-length", fmt.Sprintf("partition %d: target has %d records, expected the %d source records up to the first one later than T in candidate segment %d", p, len(got), len(want), lc)
		}
		for i := range got {
			if got[i].Off != want[i].Off || got[i].Ts != want[i].Ts || !bytes.Equal(got[i].Raw, want[i].Raw) {
				return "prefix-record-differs", fmt.Sprintf("partition %d: record %d differs: target (off %d ts %d % x) source (off %d ts %d % x)", p, i, got[i].Off, got[i].Ts, got[i].Raw, want[i].Off, want[i].Ts, want[i].Raw)
			}
			if i > 0 && got[i].Off != got[i-1].Off+1 {
				return "prefix-not-contiguous", fmt.Sprintf("partition %d: offsets %d then %d", p, got[i-1].Off, got[i].Off)
			}
		}
	}
	return "", ""
}

// c08SecondHop restores the restored topic (ns2/dst) into ns3/dst3 at T-(Chain-1),
// starting from everything the first restore left in S3.  The usual oracle then runs
// with the restored topic as the source.  (Equality with a DIRECT restore of the
// original to the earlier cutoff is not demanded: candidate selection is per segment
// set -- when the first restore dropped the last candidate entirely, the segment
// before it becomes the last candidate of the second restore and is cut, whereas the
// direct restore copies it whole.)
func c08SecondHop(cs c08Case, o1 c08Outcome) (c08Case, c08Outcome, string, string) {
	cs2 := cs
	cs2.T = cs.T - int64(cs.Chain-1)
	cs2.TNanos = 0
	cs2.Faults = []int{}
	c08Hop = c08Hop2Roles
	defer func() { c08Hop = c08Hop1 }()
	o2 := c08RunFrom(cs2, o1.Final)
	key, what := c08Oracle(cs2, o2)
	if key != "" {
		key, what = "chain:"+key, fmt.Sprintf("restoring the restored topic to T-%d: %s", cs.Chain-1, what)
	}
	return cs2, o2, key, what
}

// c08Check: the whole oracle for one (case, fault set), chained scenario included.
func c08Check(cs c08Case) (string, string, c08Outcome) {
	o := c08Run(cs)
	key, what := c08Oracle(cs, o)
	if key == "" && cs.Chain > 0 && o.Err == "" && len(cs.Faults) == 0 && !cs.Inconsist {
		_, _, key, what = c08SecondHop(cs, o)
	}
	return key, what, o
}

// ---------- generator ----------
const c08T0 = int64(1_700_000_000_000)

func c08Gen(r *vRand, inconsistent bool) c08Case {
	cs := c08Case{T: c08T0 + int64(r.Range(-1, 1)), Inconsist: inconsistent}
	if r.Chance(15) {
		cs.TNanos = int64(r.Range(1, 999_999))
	}
	near := func() int64 {
		switch r.Intn(10) {
		case 0:
			return cs.T - int64(r.Range(3, 5000))
		case 1:
			return cs.T + int64(r.Range(3, 5000))
		default:
			return cs.T + int64(r.Range(-2, 2))
		}
	}
	nparts := r.Range(1, 3)
	partIDs := []int32{0, 1, 2, 10}
	first := r.Intn(2)
	for p := 0; p < nparts; p++ {
		pid := partIDs[first+p]
		nsegs := r.Range(1, 3)
		created := near()
		for s := 0; s < nsegs; s++ {
			sg := c08Seg{Part: pid, Created: created, Interval: int32(r.Range(0, 3))}
			if r.Chance(70) {
				created += int64(r.Range(0, 2)) // mostly non-decreasing creation times
			} else {
				created = near()
			}
			nb := r.Range(1, 3)
			ts := near()
			for b := 0; b < nb; b++ {
				var bt c08Batch
				nr := r.Range(1, 4)
				for k := 0; k < nr; k++ {
					rec := c08Rec{Ts: ts}
					if r.Chance(60) {
						rec.Key = r.Bytes(r.Range(0, 2))
					}
					rec.Val = r.Bytes(r.Range(0, 3))
					bt.Recs = append(bt.Recs, rec)
					switch r.Intn(8) {
					case 0, 1:
						ts = near() // out-of-order client timestamps (late / skewed producers)
					case 2:
						ts -= int64(r.Range(1, 3)) // negative delta
					case 3:
						ts += int64(r.Range(0, 1))
					case 4:
						ts += int64(r.Range(1, 3))
					case 5:
						ts = bt.Recs[0].Ts + int64(r.Range(-2, 2)) // jitter around the batch's first record
					}
				}
				if inconsistent && r.Chance(50) {
					f := bt.Recs[0].Ts + int64(r.Range(-2, 2))
					m := bt.Recs[0].Ts + int64(r.Range(-2, 3))
					if r.Bool() {
						bt.HdrFirst = &f
					}
					if r.Bool() || bt.HdrFirst == nil {
						bt.HdrMax = &m
					}
				}
				if !inconsistent && r.Chance(4) {
					bt.Compressed = true
				}
				if inconsistent && r.Chance(8) {
					bt.NegLod = true
				}
				sg.Batches = append(sg.Batches, bt)
			}
			cs.Segs = append(cs.Segs, sg)
		}
	}
	if r.Chance(35) {
		// partition subset (may name a partition that does not exist)
		for _, p := range []int32{0, 1, 2, 10, 5} {
			if r.Chance(40) {
				cs.Parts = append(cs.Parts, p)
			}
		}
	}
	if r.Chance(20) {
		cs.PreIdx = []int64{0}
		if r.Bool() {
			cs.PreIdx = append(cs.PreIdx, int64(r.Range(1, 9)))
		}
	}
	cs.PreSeg = r.Chance(4)
	cs.Other = r.Chance(30)
	if r.Chance(4) {
		cs.NoIndex = 1 + r.Intn(len(cs.Segs))
	}
	cs.Faults = []int{}
	if !inconsistent && r.Chance(50) {
		cs.Chain = 1 + r.Intn(3)
	}
	return cs
}

// ---------- Coq emission ----------
// One Coq case = one generated history with several fault sets: the initial objects
// are written once (byte strings as hex literals: Coq parses those far faster than
// numeral lists) followed by one observation record per executed fault set.
func c08Pack(b []byte) string {
	// 7 bytes per primitive-integer literal, big-endian, zero padded; length explicit
	var sb strings.Builder
	sb.WriteString("pk ")
	sb.WriteString(strconv.Itoa(len(b)))
	sb.WriteString(" [")
	for i := 0; i < len(b); i += 7 {
		var v uint64
		for j := 0; j < 7; j++ {
			v <<= 8
			if i+j < len(b) {
				v |= uint64(b[i+j])
			}
		}
		if i > 0 {
			sb.WriteByte(';')
		}
		sb.WriteString(strconv.FormatUint(v, 10))
	}
	sb.WriteString("]%uint63")
	return sb.String()
}

// c08Hash: two polynomial hashes mod the largest prime below 2^32 (what the Coq side
// recomputes over the model's bytes; final objects are compared by length + hash)
func c08Hash(b []byte) (uint64, uint64) {
	const p = 4294967291
	h1, h2 := uint64(7), uint64(11)
	for _, x := range b {
		h1 = (h1*65599 + uint64(x) + 1) % p
		h2 = (h2*31337 + uint64(x) + 3) % p
	}
	return h1, h2
}
func c08CoqKey(k c08Key) string {
	return fmt.Sprintf("mkKey %d %s %s %s", k.Space, cqZ(k.Part), cqZ(k.Base), cqBool(k.Idx))
}
func c08CoqStore(objs []c08Obj, hashed bool) string {
	items := make([]string, 0, len(objs))
	for _, o := range objs {
		k, _ := c08ParseKey(o.Key)
		if hashed {
			if k.Space == 0 {
				continue
			}
			h1, h2 := c08Hash(o.Data)
			items = append(items, fmt.Sprintf("(%s, (%d, %d, %d))", c08CoqKey(k), len(o.Data), h1, h2))
		} else {
			items = append(items, fmt.Sprintf("(%s, %s)", c08CoqKey(k), c08Pack(o.Data)))
		}
	}
	return cqList(items)
}
func c08CoqRun(cs c08Case, o c08Outcome) string {
	fl := make([]int64, 0, len(cs.Faults))
	for _, k := range cs.Faults {
		fl = append(fl, int64(k))
	}
	summ := make([]string, len(o.Summary))
	for i, s := range o.Summary {
		summ[i] = fmt.Sprintf("(%s, %s, %s)", cqZ(s[0]), cqZ(s[1]), cqZ(s[2]))
	}
	return fmt.Sprintf("mkRun %s %s %s %s %s %s", cqZs(fl), cqBool(o.Err == ""), cqList(summ), c08CoqStore(o.Final, true), cqZ(int64(o.Calls)), cqBool(o.DelFail))
}
func c08CoqGroup(cs c08Case, initial []c08Obj, runs []string) string {
	parts := make([]int64, len(cs.Parts))
	for i, p := range cs.Parts {
		parts[i] = int64(p)
	}
	return fmt.Sprintf("mkCase %s %s %s %s", cqZ(cs.T), cqZs(parts), c08CoqStore(initial, false), cqList(runs))
}

func c08Tags(cs c08Case, o c08Outcome) (bool, []string) {
	var tags []string
	cut, whole, drop := false, false, false
	for _, sg := range cs.Segs {
		for _, b := range sg.Batches {
			le, gt := 0, 0
			for _, r := range b.Recs {
				if r.Ts <= cs.T {
					le++
				} else {
					gt++
				}
			}
			if le > 0 && gt > 0 {
				cut = true
			} else if gt == 0 {
				whole = true
			} else {
				drop = true
			}
		}
	}
	if cut {
		tags = append(tags, "batch-straddles-T")
	}
	if whole {
		tags = append(tags, "batch-before-T")
	}
	if drop {
		tags = append(tags, "batch-after-T")
	}
	if o.Err == "" {
		tags = append(tags, "restore-ok")
	} else {
		tags = append(tags, "restore-failed")
	}
	if len(cs.Faults) > 0 {
		tags = append(tags, fmt.Sprintf("faults=%d", len(cs.Faults)))
	}
	if len(cs.Parts) > 0 {
		tags = append(tags, "partition-subset")
	}
	if o.DelFail {
		tags = append(tags, "delete-failed")
	}
	return cut && (o.Err == "" || len(cs.Faults) > 0), tags
}

type c08Group struct {
	c08Case
	FaultSets [][]int `json:"fault_sets"`
}

func TestVerifC08(t *testing.T) {
	rep := vNewReport("C08", "generated source histories (1-3 partitions x 1-3 segments x 1-3 batches x 1-4 records; creation times and record timestamps within +-2 ms of T, some far; partition subsets; pre-existing target objects; unrelated topics) restored by the real RecoverTopicToTimestamp on MemoryS3Client behind a fault injector, once fault-free and once per S3 call index k (exhaustive) plus random 2-3 fault sets that also hit rollback deletes; non-trivial = some batch straddles T and the run is fault-free-successful or has a fault; distinct = distinct canonical (case, fault set)")
	var coq, jsons []string
	inconsStats := [2]int{}
	runOne := func(cs c08Case) c08Outcome {
		canon, _ := json.Marshal(cs)
		if cs.Inconsist {
			// evidence only: how often inconsistent batch headers break the prefix clause
			o := c08Run(cs)
			inconsStats[0]++
			if k, _ := c08Oracle(cs, o); k != "" {
				inconsStats[1]++
			}
			return o
		}
		key, what, o := c08Check(cs)
		nt, tags := c08Tags(cs, o)
		rep.Count(string(canon), nt)
		for _, tg := range tags {
			rep.Hist(tg)
		}
		rep.Sample(cs)
		if key != "" {
			shr := c08Shrink(cs, key)
			k2, w2, _ := c08Check(shr)
			if k2 != key {
				shr, w2 = cs, what
			}
			rep.Fail(key, key, w2, shr)
		}
		return o
	}
	// group: run the history under each fault set; the ones in emit go to the Coq case
	group := func(cs c08Case, sets [][]int, emit []bool) {
		var runs []string
		var init []c08Obj
		g := c08Group{c08Case: cs}
		for i, fs := range sets {
			c2 := cs
			c2.Faults = fs
			o := runOne(c2)
			init = o.Initial
			if emit[i] {
				runs = append(runs, c08CoqRun(c2, o))
				g.FaultSets = append(g.FaultSets, fs)
			}
		}
		if len(runs) > 0 {
			coq = append(coq, c08CoqGroup(cs, init, runs))
			js, _ := json.Marshal(g)
			jsons = append(jsons, string(js))
		}
		// chained scenario: the second hop is also a correspondence case (the restored
		// topic, with its rewritten batches, as the model's source space)
		if cs.Chain > 0 && !cs.Inconsist {
			c1 := cs
			c1.Faults = []int{}
			if o1 := c08Run(c1); o1.Err == "" {
				cs2, o2, _, _ := c08SecondHop(c1, o1)
				rep.Hist("chained-second-restore")
				c08Hop = c08Hop2Roles
				coq = append(coq, c08CoqGroup(cs2, o2.Initial, []string{c08CoqRun(cs2, o2)}))
				c08Hop = c08Hop1
				g2 := c08Group{c08Case: cs, FaultSets: [][]int{{}}}
				js, _ := json.Marshal(g2)
				jsons = append(jsons, string(js))
			}
		}
	}
	full := func(cs c08Case, rr *vRand, emitFaults int) {
		cs.Faults = []int{}
		n := c08Run(cs).Calls
		sets := [][]int{{}}
		emit := []bool{true}
		pick := map[int]bool{}
		for i := 0; i < emitFaults; i++ {
			pick[rr.Intn(n)] = true
		}
		for k := 0; k < n; k++ { // every fault position of the fault-free run
			sets = append(sets, []int{k})
			emit = append(emit, pick[k] || vTier() == "thorough")
		}
		for j := 0; j < 3; j++ { // multi-fault sets, reaching into the rollback's delete calls
			k1 := rr.Intn(n + 1)
			fs := []int{k1, k1 + 1 + rr.Intn(6)}
			if rr.Bool() {
				fs = append(fs, fs[1]+1+rr.Intn(4))
			}
			sets = append(sets, fs)
			emit = append(emit, j == 0 || vTier() == "thorough")
		}
		group(cs, sets, emit)
	}
	if rc := vReplayCase(); rc != nil {
		var g c08Group
		if err := json.Unmarshal(rc, &g); err != nil {
			t.Fatalf("bad replay: %v", err)
		}
		if len(g.FaultSets) == 0 {
			g.FaultSets = [][]int{g.Faults}
		}
		emit := make([]bool, len(g.FaultSets))
		for i := range emit {
			emit[i] = true
		}
		group(g.c08Case, g.FaultSets, emit)
	} else {
		r := vNewRand(vSeed())
		for _, cs := range c08Corpus() {
			full(cs, r.Fork(), 3)
		}
		n := vN(120, 700)
		for i := 0; i < n; i++ {
			full(c08Gen(r.Fork(), false), r.Fork(), 3)
		}
		// separate stream: batch headers inconsistent with their records (outside the guard)
		for i := 0; i < n/3; i++ {
			cs := c08Gen(r.Fork(), true)
			group(cs, [][]int{{}}, []bool{true})
		}
		rep.Notes = append(rep.Notes, fmt.Sprintf("inconsistent-header stream (outside the theorem's guard, evidence only): %d fault-free runs, %d of them break the prefix/validity oracle; model and code still agree on all of them (correspondence)", inconsStats[0], inconsStats[1]))
	}
	rep.Cases("C08", "From Coq Require Import Uint63.\nFrom KS Require Import lib.Base lib.PitrWire model.Pitr corr.PitrCorr.", "case", "check_case", coq, jsons)
	rep.Write()
	if len(rep.Failures) > 0 {
		t.Logf("oracle failures: %s", strings.TrimSpace(rep.Failures[0].What))
	}
}

// corpus: the shapes the repo's own tests use plus boundary layouts
func c08Corpus() []c08Case {
	T := c08T0
	rec := func(ts int64) c08Rec { return c08Rec{Ts: ts, Val: []byte{1}} }
	return []c08Case{
		// non-monotonic timestamps inside the cut batch (+0,+50,+20,+70, cut at +60): the
		// rewritten header's maxTimestamp must be the running maximum (+50), not the last
		// kept record's (+20); the chained restore to +30 then keeps exactly one record
		{T: T + 60, Segs: []c08Seg{{Part: 0, Created: T, Interval: 1, Batches: []c08Batch{{Recs: []c08Rec{rec(T), rec(T + 50), rec(T + 20), rec(T + 70)}}}}}, Faults: []int{}, Chain: 31},
		// boundary: the first batch's maxTimestamp EQUALS the cutoff and later batches are at
		// or below it (non-monotone across batches): all of them are kept
		{T: T, Segs: []c08Seg{{Part: 0, Created: T - 1, Interval: 1, Batches: []c08Batch{{Recs: []c08Rec{rec(T - 1), rec(T)}}, {Recs: []c08Rec{rec(T - 2)}}, {Recs: []c08Rec{rec(T)}}, {Recs: []c08Rec{rec(T + 1)}}}}}, Faults: []int{}, Chain: 1},
		// cut inside the only batch
		{T: T, Segs: []c08Seg{{Part: 0, Created: T - 1, Interval: 1, Batches: []c08Batch{{Recs: []c08Rec{rec(T - 1), rec(T), rec(T + 1)}}}}}, Faults: []int{}},
		// first candidate created after T; second segment never copied
		{T: T, Segs: []c08Seg{{Part: 0, Created: T + 1, Interval: 1, Batches: []c08Batch{{Recs: []c08Rec{rec(T - 1), rec(T + 1)}}, {Recs: []c08Rec{rec(T + 1)}}}},
			{Part: 0, Created: T + 2, Interval: 1, Batches: []c08Batch{{Recs: []c08Rec{rec(T + 2)}}}}}, Faults: []int{}},
		// everything later than T in the final candidate: keep=false
		{T: T, Segs: []c08Seg{{Part: 0, Created: T - 2, Interval: 2, Batches: []c08Batch{{Recs: []c08Rec{rec(T - 2)}}}},
			{Part: 0, Created: T + 1, Interval: 2, Batches: []c08Batch{{Recs: []c08Rec{rec(T + 1), rec(T + 2)}}}}}, Faults: []int{}},
		// out-of-order timestamps: the cut is at the FIRST later record
		{T: T, Segs: []c08Seg{{Part: 2, Created: T, Interval: 0, Batches: []c08Batch{{Recs: []c08Rec{rec(T), rec(T + 2), rec(T - 1)}}, {Recs: []c08Rec{rec(T - 2)}}}}}, Parts: []int32{2}, Faults: []int{}},
		// two partitions, subset, pre-existing target index, unrelated topics
		{T: T, Segs: []c08Seg{{Part: 0, Created: T - 1, Interval: 1, Batches: []c08Batch{{Recs: []c08Rec{rec(T - 1), rec(T + 1)}}}},
			{Part: 1, Created: T - 1, Interval: 1, Batches: []c08Batch{{Recs: []c08Rec{rec(T - 1)}}}}}, Parts: []int32{0}, PreIdx: []int64{0}, Other: true, Faults: []int{}},
	}
}

// c08Shrink: drop segments, batches, records and options while the same oracle key fires.
func c08Shrink(cs c08Case, key string) c08Case {
	fails := func(c c08Case) bool {
		if len(c.Segs) == 0 {
			return false
		}
		for _, s := range c.Segs {
			if len(s.Batches) == 0 {
				return false
			}
			for _, b := range s.Batches {
				if len(b.Recs) == 0 {
					return false
				}
			}
		}
		k, _, _ := c08Check(c)
		return k == key
	}
	cur := cs
	try := func(c c08Case) {
		if fails(c) {
			cur = c
		}
	}
	clone := func(c c08Case) c08Case {
		b, _ := json.Marshal(c)
		var out c08Case
		_ = json.Unmarshal(b, &out)
		return out
	}
	for pass := 0; pass < 3; pass++ {
		for i := len(cur.Segs) - 1; i >= 0; i-- {
			c := clone(cur)
			c.Segs = append(c.Segs[:i], c.Segs[i+1:]...)
			try(c)
		}
		for i := range cur.Segs {
			for j := len(cur.Segs[i].Batches) - 1; j >= 0; j-- {
				c := clone(cur)
				c.Segs[i].Batches = append(c.Segs[i].Batches[:j], c.Segs[i].Batches[j+1:]...)
				try(c)
			}
		}
		for i := range cur.Segs {
			for j := range cur.Segs[i].Batches {
				for k := len(cur.Segs[i].Batches[j].Recs) - 1; k >= 0; k-- {
					if i >= len(cur.Segs) || j >= len(cur.Segs[i].Batches) || k >= len(cur.Segs[i].Batches[j].Recs) {
						continue
					}
					c := clone(cur)
					c.Segs[i].Batches[j].Recs = append(c.Segs[i].Batches[j].Recs[:k], c.Segs[i].Batches[j].Recs[k+1:]...)
					try(c)
				}
			}
		}
		c := clone(cur)
		c.PreIdx, c.PreSeg, c.Other, c.Parts, c.TNanos = nil, false, false, nil, 0
		try(c)
		for i := len(cur.Faults) - 1; i >= 0; i-- {
			c := clone(cur)
			c.Faults = append(c.Faults[:i], c.Faults[i+1:]...)
			try(c)
		}
	}
	if cur.Faults == nil {
		cur.Faults = []int{}
	}
	return cur
}
